(* Html/TemplateAll.v — HasTemplate() is sound in every context: whatever token Next returns, if it reports
   HasTemplate() = true then a delimited region lies inside the bytes the call consumed. *)
From Verif Require Import Common.Base Common.Tactics Common.Lx Gen.Tables Html.Model Html.Lemmas Html.ListLemmas
     Html.Hash Html.Safety Html.Step Html.Spec Html.RawText Html.Func Html.Proofs Html.Views Html.Template Html.Wf Html.Script Html.TemplateMore.
From Coq Require Import ZifyBool.

(* ---- the loop bodies only move forward --------------------------------------------------------------------------------- *)
Definition scan_fwd (body : lx -> res (lp lx (lx * Z))) : Prop :=
  forall s x, body s = Ok x -> match x with Cont s' => samele s s' | Brk r => samele s (mv (fst r) (snd r)) end.

Lemma samele_mv0 z : samele z (mv z 0).
Proof. apply samele_mv. lia. Qed.

Lemma comment_fwd : scan_fwd comment_body.
Proof.
  intros s x Hx. unfold comment_body in Hx. destruct (pkr s 0) as [c0| |]; cbn [rbind] in Hx; try discriminate.
  destruct (eof0 s c0); [injection Hx as <-; cbn [fst snd]; apply samele_mv0|].
  destruct (at_ s [45; 45; 62]) as [a| |]; cbn [rbind] in Hx; try discriminate.
  destruct a; [injection Hx as <-; cbn [fst snd]; apply samele_mv; lia|].
  destruct (at_ s [45; 45; 33; 62]) as [a| |]; cbn [rbind] in Hx; try discriminate.
  destruct a; injection Hx as <-; cbn [fst snd]; apply samele_mv; lia.
Qed.

Lemma cdata_fwd : scan_fwd cdata_body.
Proof.
  intros s x Hx. unfold cdata_body in Hx. destruct (pkr s 0) as [c0| |]; cbn [rbind] in Hx; try discriminate.
  destruct (eof0 s c0); [injection Hx as <-; cbn [fst snd]; apply samele_mv0|].
  destruct (at_ s [93; 93; 62]) as [a| |]; cbn [rbind] in Hx; try discriminate.
  destruct a; injection Hx as <-; cbn [fst snd]; apply samele_mv; lia.
Qed.

Lemma doctype_fwd : scan_fwd doctype_body.
Proof.
  intros s x Hx. unfold doctype_body in Hx. destruct (pkr s 0) as [c0| |]; cbn [rbind] in Hx; try discriminate.
  destruct ((c0 =? 62) || eof0 s c0); injection Hx as <-; cbn [fst snd]; [destruct (c0 =? 62); apply samele_mv; lia|apply samele_mv; lia].
Qed.

Lemma gt_fwd (body : lx -> res (lp lx (lx * Z))) :
  (forall zz, body zz = (c <-- pkr zz 0 ;; if c =? 62 then Ok (Brk (zz, 1)) else if eof0 zz c then Ok (Brk (zz, 0)) else Ok (Cont (mv zz 1)))) ->
  scan_fwd body.
Proof.
  intros Hb s x Hx. rewrite Hb in Hx. destruct (pkr s 0) as [c0| |]; cbn [rbind] in Hx; try discriminate.
  destruct (c0 =? 62); [injection Hx as <-; cbn [fst snd]; apply samele_mv; lia|].
  destruct (eof0 s c0); injection Hx as <-; cbn [fst snd]; apply samele_mv; lia.
Qed.

Lemma bogus_fwd : scan_fwd bogus_body.
Proof. apply gt_fwd. intros zz. reflexivity. Qed.
Lemma endtag_fwd : scan_fwd endtag_body.
Proof. apply gt_fwd. intros zz. reflexivity. Qed.

Lemma starttag_loop_samele c fuel z z' : loop fuel (starttag_body c) z = Ok z' -> samele z z'.
Proof.
  intros H.
  refine (loop_inv (fun x => samele z x) (fun x => samele z x) (starttag_body c) _ _ z z' (samele_refl z) H).
  clear. intros s x Hs Hx. unfold starttag_body in Hx. destruct (pkr s 0) as [c0| |]; cbn [rbind] in Hx; try discriminate.
  match type of Hx with rbind ?e _ = _ => destruct e as [b| |] end; cbn [rbind] in Hx; try discriminate.
  destruct b; injection Hx as <-; [exact Hs|eapply samele_trans; [exact Hs|apply samele_mv; lia]].
Qed.

Definition sum_cur (r : lx + lx) : lx := match r with inl z => z | inr z => z end.

Lemma xml_fwd raw s x : xml_body raw s = Ok x ->
  match x with Cont s' => samele (xml_cur s) (xml_cur s') | Brk r => samele (xml_cur s) (sum_cur r) end.
Proof.
  destruct s as [[[z it] q] sk]. unfold xml_cur. cbn [fst]. intros Hx. unfold xml_body in Hx.
  destruct (pkr z 0) as [c0| |]; cbn [rbind] in Hx; try discriminate.
  destruct (negb (sk =? 0) && negb (c0 =? 0)).
  { match type of Hx with rbind ?e _ = _ => destruct e as [a| |] end; cbn [rbind] in Hx; try discriminate.
    destruct a; [injection Hx as <-; cbn [fst]; apply samele_mv; lia|].
    match type of Hx with rbind ?e _ = _ => destruct e as [b| |] end; cbn [rbind] in Hx; try discriminate.
    destruct b; injection Hx as <-; cbn [fst]; apply samele_mv; lia. }
  destruct (negb (q =? 0) && negb (c0 =? 0)); [injection Hx as <-; cbn [fst]; apply samele_mv; lia|].
  destruct (it && negb (c0 =? 0)); [injection Hx as <-; cbn [fst]; apply samele_mv; lia|].
  destruct (c0 =? 60).
  { destruct (pkr z 1) as [c1| |]; cbn [rbind] in Hx; try discriminate.
    destruct (negb (c1 =? 47)).
    - destruct (at_ z [60; 33; 45; 45]) as [a1| |]; cbn [rbind] in Hx; try discriminate.
      destruct a1; [injection Hx as <-; cbn [fst]; apply samele_mv; lia|].
      destruct (at_ z [60; 33; 91; 67; 68; 65; 84; 65; 91]) as [a2| |]; cbn [rbind] in Hx; try discriminate.
      destruct a2; [injection Hx as <-; cbn [fst]; apply samele_mv; lia|].
      destruct (c1 =? 63); injection Hx as <-; cbn [fst]; apply samele_mv; lia.
    - destruct (letters_loop (mv z 2)) as [z2| |] eqn:El; cbn [rbind] in Hx; try discriminate.
      destruct (letters_loop_run _ _ El) as (Hs2 & Hle2 & _). cbn [mv lpos] in Hle2.
      assert (Hsz2 : samele z z2) by (split; [eapply same_trans; [apply (same_mv z 2)|exact Hs2]|lia]).
      destruct (hash_lexeme_from z2 (mark z + 2)) as [h| |]; cbn [rbind] in Hx; try discriminate.
      destruct (h =? raw); injection Hx as <-; cbn [fst sum_cur]; exact Hsz2. }
  destruct (c0 =? 0); injection Hx as <-; cbn [fst sum_cur]; [apply samele_refl|apply samele_mv; lia].
Qed.

Lemma xml_close_fwd s x : xml_close_body s = Ok x ->
  match x with Cont s' => samele s s' | Brk r => samele s (sum_cur r) end.
Proof.
  intros Hx. unfold xml_close_body in Hx. destruct (pkr s 0) as [c0| |]; cbn [rbind] in Hx; try discriminate.
  destruct (c0 =? 62); [injection Hx as <-; cbn [sum_cur]; apply samele_mv; lia|].
  destruct (c0 =? 0); injection Hx as <-; cbn [sum_cur]; [apply samele_refl|apply samele_mv; lia].
Qed.

(* ---- the pieces of Next, relative to the cursor of a base lexer l0 --------------------------------------------------- *)
Section All.
Variables (c : cfg) (d : list Z) (l0 : lexer).
Hypothesis Hc : cfg_ok c.
Hypothesis Htb : tb c <> [].
Hypothesis Hi : binv d (lz l0).

Local Notation RI0 := (RI c d l0).

(* if the flag is set, a region lies between the base cursor and position pos *)
Definition PR (pos : Z) (h : bool) : Prop :=
  h = true -> exists p q, lpos (lz l0) <= p /\ q <= pos /\ is_region c d p q.

Lemma RI_PR s h : RI0 s h -> PR (lpos s) h.
Proof. intros [_ H]. exact H. Qed.

Lemma RI_false s : samele (lz l0) s -> RI0 s false.
Proof. intros H. split; [exact H|discriminate]. Qed.

Lemma scan_RI body fuel z h rh : scan_fwd body -> RI0 z h ->
  loop fuel (with_tmpl_lx c body) (z, h) = Ok rh -> RI0 (mv (fst (fst rh)) (snd (fst rh))) (snd rh).
Proof.
  intros Hf H0 H. unfold with_tmpl_lx in H.
  exact (with_tmpl_RI c d l0 Hc Htb Hi (fun z : lx => z) (fun _ z' => z') (fun r : lx * Z => mv (fst r) (snd r)) body fuel z h rh
           (fun _ _ => eq_refl) Hf H0 H).
Qed.

Lemma shiftv_pos z r : shiftv z = Ok r -> lpos (snd r) = lpos z.
Proof. unfold shiftv. destruct (lexeme_ok z); [|discriminate]. intros H. injection H as <-. reflexivity. Qed.

Lemma shift_bogus_PR z h r : RI0 z h -> shift_bogus c z h = Ok r -> PR (lpos (snd (fst r))) (snd r).
Proof.
  intros H0 H. unfold shift_bogus in H.
  destruct (loop (fuel_of z) (with_tmpl_lx c bogus_body) (z, h)) as [rh| |] eqn:El; cbn [rbind] in H; try discriminate.
  pose proof (scan_RI _ _ _ _ _ bogus_fwd H0 El) as H1.
  destruct (lexeme_from (fst (fst rh)) 2) as [t| |]; cbn [rbind] in H; try discriminate.
  destruct (shiftv (mv (fst (fst rh)) (snd (fst rh)))) as [s| |] eqn:Es; cbn [rbind] in H; try discriminate.
  injection H as <-. cbn [fst snd]. rewrite (shiftv_pos _ _ Es). apply RI_PR. exact H1.
Qed.

Lemma read_markup_PR z h r : RI0 z h -> read_markup c z h = Ok r -> PR (lpos (snd (fst r))) (snd r).
Proof.
  intros H0 H. unfold read_markup in H.
  assert (Htail : forall body k z1 (f : sl -> sl -> lx -> bool -> Z * sl * sl * lx * bool),
            (forall t v z' hh, snd (fst (f t v z' hh)) = z' /\ snd (f t v z' hh) = hh) -> scan_fwd body -> RI0 z1 h ->
            (rh <-- loop (fuel_of z) (with_tmpl_lx c body) (z1, h) ;;
             let r0 := fst rh in t <-- lexeme_from (fst r0) k ;; s <-- shiftv (mv (fst r0) (snd r0)) ;; Ok (f t (fst s) (snd s) (snd rh))) = Ok r ->
            PR (lpos (snd (fst r))) (snd r)).
  { intros body k z1 f Hf Hfwd H1 Hx.
    destruct (loop (fuel_of z) (with_tmpl_lx c body) (z1, h)) as [rh| |] eqn:El; cbn [rbind] in Hx; try discriminate.
    pose proof (scan_RI _ _ _ _ _ Hfwd H1 El) as H2. cbn zeta in Hx.
    destruct (lexeme_from (fst (fst rh)) k) as [t| |]; cbn [rbind] in Hx; try discriminate.
    destruct (shiftv (mv (fst (fst rh)) (snd (fst rh)))) as [s| |] eqn:Es; cbn [rbind] in Hx; try discriminate.
    injection Hx as <-. destruct (Hf t (fst s) (snd s) (snd rh)) as [-> ->]. rewrite (shiftv_pos _ _ Es). apply RI_PR. exact H2. }
  destruct (at_ z [45; 45]) as [a| |]; cbn [rbind] in H; try discriminate.
  destruct a.
  { apply (Htail comment_body 4 (mv z 2) (fun t v z' hh => (CommentT, v, t, z', hh))); [intros; split; reflexivity|exact comment_fwd| |exact H].
    eapply RI_keep; [exact H0|apply samele_mv; lia]. }
  destruct (at_ z [91; 67; 68; 65; 84; 65; 91]) as [a| |]; cbn [rbind] in H; try discriminate.
  destruct a.
  { apply (Htail cdata_body 9 (mv z 7) (fun t v z' hh => (TextT, v, t, z', hh))); [intros; split; reflexivity|exact cdata_fwd| |exact H].
    eapply RI_keep; [exact H0|apply samele_mv; lia]. }
  destruct (atci_from z 0 [100; 111; 99; 116; 121; 112; 101]) as [a| |]; cbn [rbind] in H; try discriminate.
  destruct a.
  { destruct (pkr (mv z 7) 0) as [c0| |]; cbn [rbind] in H; try discriminate.
    set (z2 := if c0 =? 32 then mv (mv z 7) 1 else mv z 7) in *.
    assert (H2 : RI0 z2 h).
    { eapply RI_keep; [exact H0|]. unfold z2. destruct (c0 =? 32); [rewrite mv_mv|]; apply samele_mv; lia. }
    destruct (loop (fuel_of z2) (with_tmpl_lx c doctype_body) (z2, h)) as [rh| |] eqn:El; cbn [rbind] in H; try discriminate.
    pose proof (scan_RI _ _ _ _ _ doctype_fwd H2 El) as H3. cbn zeta in H.
    destruct (lexeme_from (fst (fst rh)) 9) as [t| |]; cbn [rbind] in H; try discriminate.
    destruct (shiftv (mv (fst (fst rh)) (snd (fst rh)))) as [s| |] eqn:Es; cbn [rbind] in H; try discriminate.
    injection H as <-. cbn [fst snd]. rewrite (shiftv_pos _ _ Es). apply RI_PR. exact H3. }
  destruct (shift_bogus c z h) as [b| |] eqn:Eb; cbn [rbind] in H; try discriminate.
  injection H as <-. cbn [fst snd]. exact (shift_bogus_PR _ _ _ H0 Eb).
Qed.

Lemma shift_endtag_PR z h r : RI0 z h -> shift_endtag c z h = Ok r -> PR (lpos (snd (fst r))) (snd r).
Proof.
  intros H0 H. unfold shift_endtag in H.
  destruct (loop (fuel_of z) (with_tmpl_lx c endtag_body) (z, h)) as [rh| |] eqn:El; cbn [rbind] in H; try discriminate.
  pose proof (scan_RI _ _ _ _ _ endtag_fwd H0 El) as H1. cbn zeta in H.
  destruct (lexeme_from (fst (fst rh)) 2) as [t| |]; cbn [rbind] in H; try discriminate.
  destruct (shiftv (mv (fst (fst rh)) (snd (fst rh)))) as [s| |] eqn:Es; cbn [rbind] in H; try discriminate.
  destruct (2 <=? sn (fst s)); [|discriminate]. injection H as <-. cbn [fst snd lx_lower lpos].
  rewrite (shiftv_pos _ _ Es). apply RI_PR. exact H1.
Qed.

Lemma shift_xml_PR raw z err h r : RI0 z h -> shift_xml c raw z err h = Ok r -> PR (lpos (snd (fst (fst r)))) (snd r).
Proof.
  intros H0 H. unfold shift_xml in H.
  destruct (loop (fuel_of z) (with_tmpl c xml_cur xml_setc (xml_body raw)) (z, true, 0, 0, h)) as [rh| |] eqn:El; cbn [rbind] in H; try discriminate.
  pose proof (with_tmpl_RI c d l0 Hc Htb Hi xml_cur xml_setc sum_cur (xml_body raw) _ (z, true, 0, 0) h rh (fun _ _ => eq_refl) (xml_fwd raw) H0 El) as H1.
  destruct rh as [[z'|z'] h1]; cbn [fst snd sum_cur] in *.
  - destruct (loop (fuel_of z') (with_tmpl_lx c xml_close_body) (z', h1)) as [rh2| |] eqn:El2; cbn [rbind] in H; try discriminate.
    unfold with_tmpl_lx in El2.
    pose proof (with_tmpl_RI c d l0 Hc Htb Hi (fun z : lx => z) (fun _ z' => z') sum_cur xml_close_body _ z' h1 rh2 (fun _ _ => eq_refl) xml_close_fwd H1 El2) as H2.
    destruct rh2 as [[z''|z''] h2]; cbn [fst snd sum_cur] in *;
      (destruct (shiftv z'') as [s| |] eqn:Es; cbn [rbind] in H; try discriminate; injection H as <-; cbn [fst snd];
       rewrite (shiftv_pos _ _ Es); apply RI_PR; exact H2).
  - destruct (shiftv z') as [s| |] eqn:Es; cbn [rbind] in H; try discriminate. injection H as <-. cbn [fst snd].
    rewrite (shiftv_pos _ _ Es). apply RI_PR. exact H1.
Qed.

End All.

Lemma PR_mono c d l0 pos pos' h : PR c d l0 pos h -> pos <= pos' -> PR c d l0 pos' h.
Proof. intros H Hle Hh. destruct (H Hh) as (p & q & ? & ? & ?). exists p, q. split; [assumption|split; [lia|assumption]]. Qed.

(* a base that starts later: its regions are regions of the earlier base *)
Lemma PR_base c d l0 l1 pos h : lpos (lz l0) <= lpos (lz l1) -> PR c d l1 pos h -> PR c d l0 pos h.
Proof. intros Hle H Hh. destruct (H Hh) as (p & q & ? & ? & ?). exists p, q. split; [lia|split; assumption]. Qed.

(* ---- Next ---------------------------------------------------------------------------------------------------------------- *)
Lemma starttag_loop_end c fuel z z' : loop fuel (starttag_body c) z = Ok z' -> exists c0, pk z' 0 = Some c0.
Proof.
  intros H.
  refine (loop_inv (fun _ => True) (fun x => exists c0, pk x 0 = Some c0) (starttag_body c) _ _ z z' I H).
  clear. intros s x _ Hx. unfold starttag_body in Hx. unfold pkr at 1 in Hx. destruct (pk s 0) as [c0|] eqn:Ep; cbn [opt_res rbind] in Hx; try discriminate.
  match type of Hx with rbind ?e _ = _ => destruct e as [b| |] end; cbn [rbind] in Hx; try discriminate.
  destruct b; injection Hx as <-; [eauto|exact I].
Qed.

Lemma text_loop_tmpl c fuel z r : loop fuel (text_body c) z = Ok r -> snd r = DTmpl -> tmpl_at c (fst r) = Ok true.
Proof.
  intros H.
  refine (loop_inv (fun _ => True) (fun r => snd r = DTmpl -> tmpl_at c (fst r) = Ok true) (text_body c) _ _ z r I H).
  clear. intros s x _ Hx. unfold text_body in Hx. destruct (pkr s 0) as [c0| |]; cbn [rbind] in Hx; try discriminate.
  destruct (tmpl_at c s) as [t| |] eqn:Et; cbn [rbind] in Hx; try discriminate.
  destruct t; [injection Hx as <-; cbn [fst snd]; intros _; exact Et|].
  destruct (c0 =? 60).
  - destruct (pkr s 1) as [c1| |]; cbn [rbind] in Hx; try discriminate.
    match type of Hx with rbind ?e _ = _ => destruct e as [ie| |] end; cbn [rbind] in Hx; try discriminate.
    destruct (negb ie && negb (is_letter c1) && negb (c1 =? 33) && negb (c1 =? 63)); [injection Hx as <-; exact I|].
    destruct (0 <? mark s); [injection Hx as <-; cbn [snd]; discriminate|].
    destruct ie; [injection Hx as <-; cbn [snd]; discriminate|].
    destruct (is_letter c1); [injection Hx as <-; cbn [snd]; discriminate|].
    destruct (c1 =? 33); [injection Hx as <-; cbn [snd]; discriminate|].
    destruct (c1 =? 63); injection Hx as <-; [cbn [snd]; discriminate|exact I].
  - destruct (eof0 s c0); injection Hx as <-; [cbn [snd]; destruct (0 <? mark s); discriminate|exact I].
Qed.

Section Next.
Variables (c : cfg) (d : list Z).
Hypothesis Hc : cfg_ok c.
Hypothesis Htb : tb c <> [].

Lemma binv_same l0 z : binv d (lz l0) -> samele (lz l0) z -> lpos z <= len d -> binv d z.
Proof.
  intros Hb [Hsm Hle] Hlen. rewrite (same_zat l0 z Hsm). destruct (bzat_wf d l0 (lpos z) Hb ltac:(lia)) as [Hw Hr].
  split; [exact Hw|]. split; [|exact Hr]. destruct Hb as (_ & Hl & _). unfold lx_len, zat in *. exact Hl.
Qed.

Lemma shift_starttag_PR l0 l z r : binv d (lz l0) -> samele (lz l0) z -> lhas l = false ->
  shift_starttag c l z = Ok r -> PR c d l0 (lpos (lz (snd r))) (lhas (snd r)).
Proof.
  intros Hb Hs Hh H. unfold shift_starttag in H.
  destruct (loop (fuel_of z) (starttag_body c) z) as [z1| |] eqn:El; cbn [rbind] in H; try discriminate.
  pose proof (starttag_loop_samele _ _ _ _ El) as Hs1. destruct (starttag_loop_end _ _ _ _ El) as (c0 & Hp0).
  assert (Hs01 : samele (lz l0) z1) by (eapply samele_trans; eauto).
  assert (Hz1 : lpos z1 <= len d).
  { unfold pk in Hp0. apply peekz_some in Hp0. destruct Hs01 as [[Hbf _] _]. rewrite Hbf in Hp0. destruct Hb as (_ & Hl & _). unfold lx_len in Hl. lia. }
  pose proof (binv_same l0 z1 Hb Hs01 Hz1) as Hb1.
  unfold lexeme_from in H. destruct (lexeme_ok z1 && (0 <=? 1) && (1 <=? lpos z1 - lstart z1)) eqn:Elx; cbn [rbind] in H; try discriminate.
  set (t := mkSl (lstart z1 + 1) (lpos z1 - lstart z1 - 1)) in *.
  destruct (to_hash (view_bytes (lbuf (lx_lower z1 t)) t)) as [h| |]; cbn [rbind] in H; try discriminate.
  assert (Hnox : forall x, PR c d l0 x (lhas l)) by (intros x E; rewrite Hh in E; discriminate).
  destruct (is_raw_hash h).
  - destruct (is_xml_hash h).
    + destruct (shift_xml c h (lx_lower z1 t) (lerr l) (lhas l)) as [[[[dv z3] e] hx]| |] eqn:Ex; cbn [rbind] in H; try discriminate.
      b2p.
      destruct Hb1 as (Hw1 & Hl1 & Hr1). pose proof Hw1 as (_ & Hst1 & _).
      assert (Hrd : reads (lx_lower z1 t) (skipz (lpos z1) d)).
      { apply reads_lower; [split; assumption|unfold t; cbn [so]; lia|unfold t; cbn [sn]; lia|unfold t; cbn [so sn]; lia]. }
      set (l2 := mkL (lx_lower z1 t) 0 false false None None false).
      assert (Hb2 : binv d (lz l2)).
      { cbn [l2 lz]. destruct Hrd as [Hw2 Hr2]. split; [exact Hw2|]. split; [|exact Hr2].
        rewrite lx_lower_len; [exact Hl1|exact Hw1|unfold t; cbn [so]; lia|unfold t; cbn [sn]; lia|unfold t; cbn [so sn]; lia]. }
      rewrite Hh in Ex.
      pose proof (shift_xml_PR c d l2 Hc Htb Hb2 h (lx_lower z1 t) (lerr l) false _ (RI_false c d l2 (lx_lower z1 t) (samele_refl _)) Ex) as Hpr.
      cbn [fst snd] in Hpr.
      assert (Hbase : lpos (lz l0) <= lpos (lz l2)) by (cbn [l2 lz lx_lower lpos]; destruct Hs01; lia).
      destruct e; injection H as <-; cbn [snd lz lhas]; eapply PR_base; eauto.
    + destruct (shiftv (lx_lower z1 t)) as [s| |] eqn:Es; cbn [rbind] in H; try discriminate. injection H as <-. cbn [snd lz lhas]. apply Hnox.
  - destruct (shiftv (lx_lower z1 t)) as [s| |] eqn:Es; cbn [rbind] in H; try discriminate. injection H as <-. cbn [snd lz lhas]. apply Hnox.
Qed.

(* next_content started where nothing is selected and the flag is clear *)
Lemma next_content_PR l r : html_inv d l -> lstart (lz l) = lpos (lz l) -> lhas l = false ->
  next_content c l = Ok r -> PR c d l (lpos (lz (snd r))) (lhas (snd r)).
Proof.
  intros Hi Hcl Hh H. pose proof (binv_of_inv d l Hi) as Hb. unfold next_content in H.
  destruct (loop (fuel_of (lz l)) (text_body c) (lz l)) as [[z dsp]| |] eqn:El; cbn [rbind] in H; try discriminate.
  destruct (text_loop_run c _ _ _ Htb El) as (Hsm & Hle & _). cbn [fst] in Hsm, Hle.
  assert (Hs : samele (lz l) z) by (split; assumption).
  assert (Hvac : forall x, PR c d l x (lhas l)) by (intros x E; rewrite Hh in E; discriminate).
  destruct dsp.
  - destruct (shiftv z) as [s| |]; cbn [rbind] in H; try discriminate. injection H as <-. cbn [snd lhas]. apply Hvac.
  - (* a template token *)
    pose proof (text_loop_tmpl c _ _ _ El eq_refl) as Hat. cbn [fst] in Hat.
    destruct (tmpl_skip c z) as [z1| |] eqn:Ek; cbn [rbind] in H; try discriminate.
    destruct (shiftv z1) as [s| |] eqn:Es; cbn [rbind] in H; try discriminate. injection H as <-. cbn [snd lz lhas].
    destruct (tmpl_region_step c d l Hc Htb Hi z z1 true Hs Hat Ek) as [_ Hreg]. rewrite (shiftv_pos _ _ Es). exact Hreg.
  - destruct (pkr (mv z 2) 0) as [c0| |]; cbn [rbind] in H; try discriminate.
    assert (H2 : RI c d l (mv z 2) (lhas l)) by (rewrite Hh; apply RI_false; eapply samele_trans; [exact Hs|apply samele_mv; lia]).
    destruct (negb (is_letter c0)).
    + destruct (shift_bogus c (mv z 2) (lhas l)) as [b| |] eqn:Eb; cbn [rbind] in H; try discriminate. injection H as <-. cbn [snd lz lhas].
      exact (shift_bogus_PR c d l Hc Htb Hb _ _ _ H2 Eb).
    + destruct (shift_endtag c (mv z 2) (lhas l)) as [b| |] eqn:Eb; cbn [rbind] in H; try discriminate. injection H as <-. cbn [snd lz lhas].
      exact (shift_endtag_PR c d l Hc Htb Hb _ _ _ H2 Eb).
  - eapply (shift_starttag_PR l _ (mv z 1) r Hb); [eapply samele_trans; [exact Hs|apply samele_mv; lia]| |exact H]. exact Hh.
  - destruct (read_markup c (mv z 2) (lhas l)) as [[[[[ty tk] tx] z'] hm]| |] eqn:Em; cbn [rbind] in H; try discriminate. injection H as <-. cbn [snd lz lhas].
    assert (H2 : RI c d l (mv z 2) (lhas l)) by (rewrite Hh; apply RI_false; eapply samele_trans; [exact Hs|apply samele_mv; lia]).
    exact (read_markup_PR c d l Hc Htb Hb _ _ _ H2 Em).
  - destruct (shift_bogus c (mv z 1) (lhas l)) as [b| |] eqn:Eb; cbn [rbind] in H; try discriminate. injection H as <-. cbn [snd lz lhas].
    assert (H2 : RI c d l (mv z 1) (lhas l)) by (rewrite Hh; apply RI_false; eapply samele_trans; [exact Hs|apply samele_mv; lia]).
    exact (shift_bogus_PR c d l Hc Htb Hb _ _ _ H2 Eb).
  - injection H as <-. cbn [snd lhas]. apply Hvac.
Qed.

(* HasTemplate() = true only if a delimited region lies inside the bytes the call consumed — every context *)
Lemma html_template_flag_sound_proof : forall l ty tk l', html_inv d l -> next c l = Ok (ty, tk, l') -> lhas l' = true ->
  exists p q, lpos (lz l) <= p /\ q <= lpos (lz l') /\ is_region c d p q.
Proof.
  intros l ty tk l' Hi Hn Hhas. pose proof Hi as (Hl & Hlen & _). pose proof Hl as [Hw Hclean].
  unfold next in Hn. cbn [lz rawtag intag lerr ltext lattr lhas] in Hn.
  destruct (intag l) eqn:Hit.
  - (* inside a tag *)
    unfold next_intag in Hn. cbn [lz rawtag intag lerr ltext lattr lhas] in Hn.
    destruct (ws_loop (lz l)) as [z1| |] eqn:E1; cbn [rbind] in Hn; try discriminate.
    pose proof (ws_loop_samele _ _ E1) as Hs1.
    destruct (pkr z1 0) as [c0| |]; cbn [rbind] in Hn; try discriminate.
    destruct (eof0 z1 c0); [injection Hn as <- <- <-; cbn [lhas] in Hhas; discriminate|].
    match type of Hn with rbind ?e _ = _ => destruct e as [isattr| |] end; cbn [rbind] in Hn; try discriminate.
    destruct isattr.
    + match type of Hn with rbind ?e _ = _ => destruct e as [[v1 l1]| |] eqn:Ea end; cbn [rbind] in Hn; try discriminate.
      cbn [fst snd] in Hn. injection Hn as _ _ <-.
      eapply (shift_attribute_regions c d l Hc Htb (binv_of_inv d l Hi) _ z1 v1 l1); [|exact Ea|exact Hhas].
      cbn [lhas]. split; [exact Hs1|discriminate].
    + match type of Hn with rbind ?e _ = _ => destruct e as [s| |] end; cbn [rbind] in Hn; try discriminate.
      injection Hn as _ _ <-. cbn [lhas] in Hhas. discriminate.
  - pose proof (lwf_clean l Hl Hit) as Hcl.
    (* the lexer with the flag cleared, as Next starts *)
    set (lr := mkL (lz l) (rawtag l) false (lerr l) None (lattr l) false) in *.
    assert (Hir : html_inv d lr).
    { destruct Hi as (_ & H2 & H3 & H4). split; [apply lwf_intro; [exact Hw|left; exact Hcl]|]. cbn [lr lz]. tauto. }
    destruct (negb (rawtag l =? 0)) eqn:Eraw.
    + destruct (shift_rawtext c (rawtag l) (lz l) false) as [[[v z] has]| |] eqn:Er; cbn [rbind] in Hn; try discriminate.
      unfold shift_rawtext in Er.
      (* the flag and the cursor after the raw-text scan *)
      assert (Hraw : PR c d l (lpos z) has /\ lpos (lz l) <= lpos z /\ lbuf z = lbuf (lz l) /\ lstart z = lpos z /\ sn v = lpos z - lpos (lz l)).
      { destruct (rawtag l =? html_hash_Plaintext).
        - destruct (safe_inv _ _ (plaintext_loop_spec c (lz l) false Hc Hw)) as ([zp hp] & Ez & Ha). rewrite Ez in Er. cbn [rbind fst snd] in Er, Ha.
          pose proof Ez as Ez2. unfold with_tmpl_lx in Ez2.
          pose proof (with_tmpl_RI c d l Hc Htb (binv_of_inv d l Hi) (fun z : lx => z) (fun _ z' => z') (fun z : lx => z) plaintext_body _ (lz l) false (zp, hp)
                        (fun _ _ => eq_refl) plaintext_step_samele (RI_false c d l _ (samele_refl _)) Ez2) as [_ Hreg]. cbn [fst snd] in Hreg.
          rewrite shiftv_spec in Er by eauto using adv_wf. cbn [rbind fst snd] in Er. injection Er as <- <- <-.
          destruct Ha as (A1 & A2 & A3). cbn [skip lpos lbuf lstart sn]. split; [exact Hreg|]. repeat split; try lia; assumption.
        - destruct (safe_inv _ _ (rawtext_loop_spec c (rawtag l) (lz l) false Hc Hw)) as (s & Es & Ha). rewrite Es in Er. cbn [rbind] in Er.
          rewrite shiftv_spec in Er by eauto using adv_wf. cbn [rbind fst snd] in Er. injection Er as <- <- <-.
          destruct Ha as (A1 & A2 & A3). cbn [skip lpos lbuf lstart sn]. split; [|repeat split; try lia; assumption].
          intros E. exact (rawtext_loop_regions c (rawtag l) d l _ s Hc Htb Hi Es E). }
      destruct Hraw as (Hpr & Hle & Hbz & Hstz & Hsn).
      destruct (0 <? sn v) eqn:Esn.
      * injection Hn as _ _ <-. cbn [lhas lz] in *. exact (Hpr Hhas).
      * (* empty content: the flag is clear and the call goes on as in text *)
        assert (Hz : lpos z = lpos (lz l)) by (b2p; lia).
        assert (Hf : has = false).
        { destruct has; [|reflexivity]. destruct (Hpr eq_refl) as (p & q & P1 & P2 & P3). destruct (is_region_in _ _ _ _ P3). lia. }
        subst has.
        assert (Ez : z = lz l) by (destruct z as [b p s]; destruct (lz l) as [b0 p0 s0] eqn:E0; cbn in *; subst; f_equal; lia).
        subst z.
        set (l2 := mkL (lz l) 0 false (lerr l) None (lattr l) false) in *.
        assert (Hi2 : html_inv d l2).
        { destruct Hi as (_ & H2 & H3 & H4). split; [apply lwf_intro; [exact Hw|left; exact Hcl]|]. cbn [l2 lz]. tauto. }
        pose proof (next_content_PR l2 _ Hi2 Hcl eq_refl Hn) as Hp. cbn [snd] in Hp. exact (Hp Hhas).
    + pose proof (next_content_PR lr _ Hir Hcl eq_refl Hn) as Hp. cbn [snd] in Hp. exact (Hp Hhas).
Qed.

End Next.

(* ---- the "if" half for scanning loops: a region reached over plain steps is skipped whole and sets the flag ------------ *)
Lemma with_tmpl_inv2 {S R} c (cur : S -> lx) (setc : S -> lx -> S) (I : S * bool -> Prop) (Q : R * bool -> Prop)
      (body : S -> res (lp S R)) :
  (forall s h z', I (s, h) -> tmpl_at c (cur s) = Ok true -> tmpl_skip c (cur s) = Ok z' -> I (setc s z', true)) ->
  (forall s h x, I (s, h) -> tmpl_at c (cur s) = Ok false -> body s = Ok x -> match x with Cont s' => I (s', h) | Brk r => Q (r, h) end) ->
  forall fuel sh r, I sh -> loop fuel (with_tmpl c cur setc body) sh = Ok r -> Q r.
Proof.
  intros Ht Hb fuel sh r Hi H.
  refine (loop_inv I Q (with_tmpl c cur setc body) _ fuel sh r Hi H).
  clear Hi H. intros [s h] x Hs Hx. unfold with_tmpl, skip_tmpl in Hx.
  destruct (tmpl_at c (cur s)) as [t| |] eqn:Et; cbn [rbind] in Hx; try discriminate.
  destruct t.
  - destruct (tmpl_skip c (cur s)) as [z'| |] eqn:Ek; cbn [rbind] in Hx; try discriminate. injection Hx as <-. eapply Ht; eauto.
  - cbn [rbind] in Hx. destruct (body s) as [y| |] eqn:Eb; cbn [rbind] in Hx; try discriminate. injection Hx as <-.
    specialize (Hb s h y Hs Et Eb). destruct y; exact Hb.
Qed.

Lemma tmpl_at_zat c d l a : cfg_ok c -> tb c <> [] -> html_inv d l -> lpos (lz l) <= a <= len d ->
  tmpl_at c (zat l a) = Ok (prefixb (tb c) (skipz a d)).
Proof.
  intros Hc Htb Hi Ha. destruct (zat_wf d l a Hi Ha) as [Hw Hrem]. unfold tmpl_at. rewrite (has_delims_true c Htb).
  rewrite at_rem by (apply Hc || exact Hw). rewrite Hrem. reflexivity.
Qed.

Lemma scan_reach_done c d l body p q fuel a h rh : cfg_ok c -> tb c <> [] -> html_inv d l -> is_region c d p q ->
  lpos (lz l) <= a <= p -> scan_fwd body ->
  (forall i, a <= i < p -> prefixb (tb c) (skipz i d) = false -> body (zat l i) = Ok (Cont (zat l (i + 1)))) ->
  (forall i, a <= i < p -> prefixb (tb c) (skipz i d) = false) ->
  loop fuel (with_tmpl_lx c body) (zat l a, h) = Ok rh ->
  snd rh = true /\ q <= lpos (fst (fst rh)) + snd (fst rh).
Proof.
  intros Hc Htb Hi Hreg Ha Hfwd Hstep Hnp H. unfold with_tmpl_lx in H.
  destruct (tmpl_here c d l p q Hc Hi ltac:(lia) Hreg) as (Hatp & Hskp & Hq).
  set (I := fun sh : lx * bool => (snd sh = true /\ samele (lz l) (fst sh) /\ q <= lpos (fst sh)) \/
                                  (samele (lz l) (fst sh) /\ a <= lpos (fst sh) <= p)).
  refine (with_tmpl_inv2 c (fun z : lx => z) (fun _ z' => z') I (fun r : lx * Z * bool => snd r = true /\ q <= lpos (fst (fst r)) + snd (fst r))
            body _ _ fuel (zat l a, h) rh _ H).
  - intros s h1 z' HI Hat Hk. unfold I in *. cbn [fst snd] in *. left. split; [reflexivity|].
    destruct HI as [(_ & Hs & Hqs)|(Hs & Hr)].
    + pose proof (tmpl_skip_run _ _ _ Hk) as Hkr. split; [eapply samele_trans; eauto|destruct Hkr; lia].
    + destruct Hs as [Hsm Hle]. rewrite (same_zat l s Hsm) in Hat, Hk.
      destruct (Z.eq_dec (lpos s) p) as [E|E].
      * rewrite E, Hskp in Hk. injection Hk as <-. split; [split; [split; reflexivity|unfold zat; cbn [lpos]; lia]|unfold zat; cbn [lpos]; lia].
      * exfalso. rewrite (tmpl_at_zat c d l (lpos s) Hc Htb Hi ltac:(lia)) in Hat. rewrite (Hnp (lpos s) ltac:(lia)) in Hat. discriminate.
  - intros s h1 x HI Hat Hx. unfold I in *. cbn [fst snd] in *.
    destruct HI as [(Hh & Hs & Hqs)|(Hs & Hr)].
    + specialize (Hfwd s x Hx). destruct x as [s'|r]; cbn [fst snd].
      * left. split; [exact Hh|]. split; [eapply samele_trans; eauto|destruct Hfwd; lia].
      * split; [exact Hh|]. destruct Hfwd as [_ Hf]. cbn [mv lpos] in Hf. lia.
    + destruct Hs as [Hsm Hle]. rewrite (same_zat l s Hsm) in Hat, Hx.
      destruct (Z.eq_dec (lpos s) p) as [E|E].
      * exfalso. rewrite E in Hat. unfold tmpl_at in Hat. rewrite (has_delims_true c Htb), Hatp in Hat. discriminate.
      * rewrite (Hstep (lpos s) ltac:(lia) (Hnp (lpos s) ltac:(lia))) in Hx. injection Hx as <-. cbn [fst snd]. right.
        split; [split; [split; reflexivity|unfold zat; cbn [lpos]; lia]|unfold zat; cbn [lpos]; lia].
  - unfold I. cbn [fst snd]. right. split; [split; [split; reflexivity|unfold zat; cbn [lpos]; lia]|unfold zat; cbn [lpos]; lia].
Qed.

Lemma scan_reach_gen {R} (rcur : R -> lx) c d l (body : lx -> res (lp lx R)) p q fuel a h rh : cfg_ok c -> tb c <> [] -> html_inv d l -> is_region c d p q ->
  lpos (lz l) <= a <= p ->
  (forall s x, body s = Ok x -> match x with Cont s' => samele s s' | Brk r => samele s (rcur r) end) ->
  (forall i, a <= i < p -> prefixb (tb c) (skipz i d) = false -> body (zat l i) = Ok (Cont (zat l (i + 1)))) ->
  (forall i, a <= i < p -> prefixb (tb c) (skipz i d) = false) ->
  loop fuel (with_tmpl_lx c body) (zat l a, h) = Ok rh ->
  snd rh = true /\ q <= lpos (rcur (fst rh)).
Proof.
  intros Hc Htb Hi Hreg Ha Hfwd Hstep Hnp H. unfold with_tmpl_lx in H.
  destruct (tmpl_here c d l p q Hc Hi ltac:(lia) Hreg) as (Hatp & Hskp & Hq).
  set (I := fun sh : lx * bool => (snd sh = true /\ samele (lz l) (fst sh) /\ q <= lpos (fst sh)) \/
                                  (samele (lz l) (fst sh) /\ a <= lpos (fst sh) <= p)).
  refine (with_tmpl_inv2 c (fun z : lx => z) (fun _ z' => z') I (fun r : R * bool => snd r = true /\ q <= lpos (rcur (fst r)))
            body _ _ fuel (zat l a, h) rh _ H).
  - intros s h1 z' HI Hat Hk. unfold I in *. cbn [fst snd] in *. left. split; [reflexivity|].
    destruct HI as [(_ & Hs & Hqs)|(Hs & Hr)].
    + pose proof (tmpl_skip_run _ _ _ Hk) as Hkr. split; [eapply samele_trans; eauto|destruct Hkr; lia].
    + destruct Hs as [Hsm Hle]. rewrite (same_zat l s Hsm) in Hat, Hk.
      destruct (Z.eq_dec (lpos s) p) as [E|E].
      * rewrite E, Hskp in Hk. injection Hk as <-. split; [split; [split; reflexivity|unfold zat; cbn [lpos]; lia]|unfold zat; cbn [lpos]; lia].
      * exfalso. rewrite (tmpl_at_zat c d l (lpos s) Hc Htb Hi ltac:(lia)) in Hat. rewrite (Hnp (lpos s) ltac:(lia)) in Hat. discriminate.
  - intros s h1 x HI Hat Hx. unfold I in *. cbn [fst snd] in *.
    destruct HI as [(Hh & Hs & Hqs)|(Hs & Hr)].
    + specialize (Hfwd s x Hx). destruct x as [s'|r]; cbn [fst snd].
      * left. split; [exact Hh|]. split; [eapply samele_trans; eauto|destruct Hfwd; lia].
      * split; [exact Hh|]. destruct Hfwd as [_ Hf]. lia.
    + destruct Hs as [Hsm Hle]. rewrite (same_zat l s Hsm) in Hat, Hx.
      destruct (Z.eq_dec (lpos s) p) as [E|E].
      * exfalso. rewrite E in Hat. unfold tmpl_at in Hat. rewrite (has_delims_true c Htb), Hatp in Hat. discriminate.
      * rewrite (Hstep (lpos s) ltac:(lia) (Hnp (lpos s) ltac:(lia))) in Hx. injection Hx as <-. cbn [fst snd]. right.
        split; [split; [split; reflexivity|unfold zat; cbn [lpos]; lia]|unfold zat; cbn [lpos]; lia].
  - unfold I. cbn [fst snd]. right. split; [split; [split; reflexivity|unfold zat; cbn [lpos]; lia]|unfold zat; cbn [lpos]; lia].
Qed.

(* comments: "<!--" at the cursor, then bytes [a+4,p) at which neither a delimiter nor "-->" / "--!>" starts, then a region *)
Definition comment_plain (c : cfg) (d : list Z) (i : Z) : Prop :=
  0 <= i < len d /\ prefixb (tb c) (skipz i d) = false /\
  prefixb [45; 45; 62] (skipz i d) = false /\ prefixb [45; 45; 33; 62] (skipz i d) = false.

Lemma comment_step c d l i : cfg_ok c -> html_inv d l -> lpos (lz l) <= i -> comment_plain c d i ->
  comment_body (zat l i) = Ok (Cont (zat l (i + 1))).
Proof.
  intros Hc Hi Ha ((Hi0 & Hi1) & _ & H3 & H4). destruct (zat_wf d l i Hi ltac:(lia)) as [Hw Hrem].
  unfold comment_body. rewrite (zat_pkr d l i 0 Hi) by lia. cbn [rbind].
  unfold eof0. rewrite (at_end_zat d l i Hi Hi1), andb_false_r.
  rewrite at_rem by (try exact Hw; repeat constructor; lia). rewrite Hrem, H3. cbn [rbind].
  rewrite at_rem by (try exact Hw; repeat constructor; lia). rewrite Hrem, H4. cbn [rbind]. reflexivity.
Qed.

Lemma html_template_comment_proof : forall c d l p q, cfg_ok c -> tb c <> [] -> html_inv d l -> intag l = false -> rawtag l = 0 ->
  let a := lpos (lz l) in
  prefixb (tb c) (skipz a d) = false -> prefixb [60; 33; 45; 45] (skipz a d) = true -> a + 4 <= p ->
  (forall i, a + 4 <= i < p -> comment_plain c d i) -> is_region c d p q ->
  exists v l', next c l = Ok (CommentT, Some v, l') /\ lhas l' = true /\ so v = a /\ q <= so v + sn v.
Proof.
  intros c d l p q Hc Htb Hi Hit Hraw a Hnp Hopen Hap Hplain Hreg.
  pose proof Hi as (Hl & Hlen & _). pose proof Hl as [Hw _]. pose proof (lwf_clean l Hl Hit) as Hcl.
  pose proof (inv_pos0 d l Hi) as H0. destruct (is_region_in _ _ _ _ Hreg) as [Hpin Hpq].
  assert (Hlt0 : 0 < len (tb c)) by (destruct (tb c) as [|x t]; [congruence|rewrite len_cons; pose proof (len_nonneg t); lia]).
  (* the four bytes "<!--" *)
  assert (Hb4 : getz d a = 60 /\ getz d (a + 1) = 33 /\ skipz (a + 2) d = 45 :: 45 :: skipz (a + 4) d /\ a + 4 <= len d).
  { pose proof (prefixb_len _ _ Hopen) as Hl4. change (len [60; 33; 45; 45]) with 4 in Hl4. pose proof Hl4 as Hl4'.
    assert (Hal : a <= len d) by lia. rewrite len_skipz in Hl4 by lia.
    destruct (skipz a d) as [|x0 [|x1 [|x2 [|x3 r]]]] eqn:Es; try (exfalso; unfold len in Hl4'; cbn [length] in Hl4'; lia).
    cbn [prefixb] in Hopen. b2p. subst x0 x1 x2 x3.
    assert (P0 : peekz d a = Some 60) by (rewrite <- (Z.add_0_r a), <- peekz_skipz by lia; rewrite Es; apply peekz_cons_0).
    assert (P1 : peekz d (a + 1) = Some 33) by (rewrite <- peekz_skipz by lia; rewrite Es; apply peekz_1).
    assert (P2 : peekz d (a + 2) = Some 45) by (rewrite <- peekz_skipz by lia; rewrite Es; apply peekz_2).
    assert (P3 : peekz d (a + 3) = Some 45) by (rewrite <- peekz_skipz by lia; rewrite Es; apply peekz_3).
    split; [unfold getz; rewrite P0; reflexivity|]. split; [unfold getz; rewrite P1; reflexivity|]. split; [|lia].
    rewrite (skipz_peek_cons d (a + 2) 45 P2). replace (a + 2 + 1) with (a + 3) by lia.
    rewrite (skipz_peek_cons d (a + 3) 45 P3). replace (a + 3 + 1) with (a + 4) by lia. reflexivity. }
  destruct Hb4 as (G0 & G1 & Hsk2 & Ha4).
  destruct (html_total_step_proof c d l Hc Hi) as (ty & tk & l' & Hn & Hi').
  pose proof Hn as Hn0.
  unfold next in Hn. cbn [lz rawtag intag lerr ltext lattr lhas] in Hn. rewrite Hit, Hraw in Hn. cbn [Z.eqb negb] in Hn.
  unfold next_content in Hn. cbn [lz rawtag intag lerr ltext lattr lhas] in Hn.
  (* the text loop dispatches at once *)
  assert (Hdisp : loop (fuel_of (lz l)) (text_body c) (lz l) = Ok (lz l, DMarkup)).
  { unfold fuel_of. cbn [loop]. replace (text_body c (lz l)) with (text_body c (zat l a)) by (unfold a; rewrite zat_here; reflexivity). unfold text_body.
    rewrite (zat_pkr d l a 0 Hi) by lia. rewrite Z.add_0_r, G0. cbn [rbind].
    rewrite (tmpl_at_zat c d l a Hc Htb Hi ltac:(lia)). fold a in Hnp. rewrite Hnp. cbn [rbind Z.eqb Pos.eqb].
    rewrite (zat_pkr d l a 1 Hi) by lia. rewrite G1. cbn [rbind Z.eqb Pos.eqb negb andb].
    change (is_letter 33) with false. cbn [negb andb].
    replace (0 <? mark (zat l a)) with false by (symmetry; apply Z.ltb_ge; unfold mark, zat; cbn [lpos lstart]; lia).
    cbn [rbind]. rewrite zat_here. reflexivity. }
  rewrite Hdisp in Hn. cbn [rbind] in Hn.
  unfold read_markup in Hn. replace (mv (lz l) 2) with (zat l (a + 2)) in Hn by (unfold zat, mv, a; reflexivity).
  destruct (zat_wf d l (a + 2) Hi ltac:(lia)) as [Hw2 Hrem2].
  rewrite at_rem in Hn by (try exact Hw2; repeat constructor; lia). rewrite Hrem2, Hsk2 in Hn. cbn [prefixb Z.eqb Pos.eqb andb rbind] in Hn.
  replace (mv (zat l (a + 2)) 2) with (zat l (a + 4)) in Hn by (unfold zat, mv; cbn [lbuf lpos lstart]; f_equal; lia).
  destruct (loop (fuel_of (zat l (a + 2))) (with_tmpl_lx c comment_body) (zat l (a + 4), false)) as [rh| |] eqn:El; cbn [rbind] in Hn; try discriminate.
  assert (Hst : forall i, a + 4 <= i < p -> prefixb (tb c) (skipz i d) = false -> comment_body (zat l i) = Ok (Cont (zat l (i + 1)))).
  { intros i Hr _. apply (comment_step c d l i Hc Hi); [unfold a in *; lia|apply Hplain; exact Hr]. }
  assert (Hnps : forall i, a + 4 <= i < p -> prefixb (tb c) (skipz i d) = false) by (intros i Hr; apply (Hplain i Hr)).
  destruct (scan_reach_done c d l comment_body p q (fuel_of (zat l (a + 2))) (a + 4) false rh Hc Htb Hi Hreg ltac:(unfold a in *; lia) comment_fwd Hst Hnps El) as [Hh Hqq].
  cbn zeta in Hn.
  destruct (lexeme_from (fst (fst rh)) 4) as [t| |]; cbn [rbind] in Hn; try discriminate.
  destruct (shiftv (mv (fst (fst rh)) (snd (fst rh)))) as [s| |] eqn:Es; cbn [rbind] in Hn; try discriminate.
  injection Hn as <- <- <-.
  eexists _, _. split; [exact Hn0|]. cbn [lhas]. split; [exact Hh|].
  pose proof (safe_eq _ _ _ (next_spec c l Hc Hl) Hn0) as Hs. cbn [step_post] in Hs.
  destruct Hs as (_ & _ & _ & _ & (T1 & T2 & T3 & T4 & T5 & _ & T7 & _) & _). cbn [lz] in T4.
  assert (so (fst s) = lpos (lz l)) by (destruct (Z.eq_dec (so (fst s)) (lpos (lz l))); [assumption|destruct T7 as [T7|T7]; [lia|discriminate|discriminate]]).
  rewrite (shiftv_pos _ _ Es) in T4. cbn [mv lpos] in T4. unfold a. split; lia.
Qed.

(* ---- the same for the other scanning loops ------------------------------------------------------------------------------ *)
(* the text loop at a '<' where no delimiter starts and nothing is selected: it dispatches at once *)
Lemma text_dispatch_c c d l c1 : cfg_ok c -> tb c <> [] -> html_inv d l -> lstart (lz l) = lpos (lz l) ->
  let a := lpos (lz l) in
  getz d a = 60 -> getz d (a + 1) = c1 -> a + 1 < len d -> prefixb (tb c) (skipz a d) = false ->
  (c1 = 33 \/ c1 = 63 \/ is_letter c1 = true \/ (c1 = 47 /\ a + 2 < len d /\ getz d (a + 2) <> 62)) ->
  loop (fuel_of (lz l)) (text_body c) (lz l) =
  Ok (lz l, if is_letter c1 then DStartTag else if c1 =? 33 then DMarkup else if c1 =? 63 then DBogusQ else DEndTag).
Proof.
  intros Hc Htb Hi Hcl a G0 G1 Ha1 Hnp Hc1. pose proof (inv_pos0 d l Hi) as H0.
  unfold fuel_of. cbn [loop]. replace (text_body c (lz l)) with (text_body c (zat l a)) by (unfold a; rewrite zat_here; reflexivity). unfold text_body.
  rewrite (zat_pkr d l a 0 Hi) by lia. rewrite Z.add_0_r, G0. cbn [rbind].
  rewrite (tmpl_at_zat c d l a Hc Htb Hi ltac:(lia)), Hnp. cbn [rbind Z.eqb Pos.eqb].
  rewrite (zat_pkr d l a 1 Hi) by lia. rewrite G1. cbn [rbind].
  replace (0 <? mark (zat l a)) with false by (symmetry; apply Z.ltb_ge; unfold mark, zat; cbn [lpos lstart]; lia).
  destruct Hc1 as [->|[->|[Hl|(-> & Ha2 & Hc2)]]].
  - rewrite zat_here. reflexivity.
  - rewrite zat_here. reflexivity.
  - replace (c1 =? 47) with false by (symmetry; apply Z.eqb_neq; intros ->; discriminate). cbn [rbind]. rewrite Hl, zat_here. reflexivity.
  - cbn [Z.eqb Pos.eqb]. rewrite (zat_pkr d l a 2 Hi) by lia. cbn [rbind].
    replace (getz d (a + 2) =? 62) with false by (symmetry; apply Z.eqb_neq; exact Hc2). cbn [negb andb].
    assert (Hae : at_end_i (zat l a) 2 = false).
    { unfold at_end_i. apply Z.leb_gt. destruct Hi as (_ & Hlen & _). unfold lx_len, zat in *. cbn [lbuf lpos]. lia. }
    rewrite Hae, orb_true_r. cbn [rbind negb andb]. rewrite zat_here. reflexivity.
Qed.

(* a token whose end is at or after q starts at the cursor (it is not a tag closer) and contains q *)
Lemma finish_token c d l ty v l' q : cfg_ok c -> html_inv d l -> next c l = Ok (ty, Some v, l') ->
  ty <> StartTagCloseT -> ty <> StartTagVoidT -> q <= lpos (lz l') -> so v = lpos (lz l) /\ q <= so v + sn v.
Proof.
  intros Hc Hi Hn H1 H2 Hq. pose proof Hi as (Hl & _).
  pose proof (safe_eq _ _ _ (next_spec c l Hc Hl) Hn) as Hs. cbn [step_post] in Hs.
  destruct Hs as (_ & _ & _ & _ & (T1 & T2 & T3 & T4 & T5 & _ & T7 & _) & _).
  assert (so v = lpos (lz l)) by (destruct (Z.eq_dec (so v) (lpos (lz l))); [assumption|destruct T7 as [T7|T7]; [lia|congruence|congruence]]).
  lia.
Qed.

(* bytes a one-byte scanning loop steps over: inside the input, no delimiter starts, and not the byte 62 ('>') *)
Definition gt_plain (c : cfg) (d : list Z) (i : Z) : Prop :=
  0 <= i < len d /\ prefixb (tb c) (skipz i d) = false /\ getz d i <> 62.

Lemma gt_step (body : lx -> res (lp lx (lx * Z))) c d l i :
  (forall zz, body zz = (c0 <-- pkr zz 0 ;; if c0 =? 62 then Ok (Brk (zz, 1)) else if eof0 zz c0 then Ok (Brk (zz, 0)) else Ok (Cont (mv zz 1)))) ->
  html_inv d l -> lpos (lz l) <= i -> gt_plain c d i -> body (zat l i) = Ok (Cont (zat l (i + 1))).
Proof.
  intros Hb Hi Ha ((Hi0 & Hi1) & _ & H62). rewrite Hb. rewrite (zat_pkr d l i 0 Hi) by lia. rewrite Z.add_0_r. cbn [rbind].
  replace (getz d i =? 62) with false by (symmetry; apply Z.eqb_neq; exact H62).
  unfold eof0. rewrite (at_end_zat d l i Hi Hi1), andb_false_r. reflexivity.
Qed.

(* end tags: "</" + letter at the cursor, bytes [a+2,p) that are gt_plain, then a region *)
Lemma html_template_endtag_proof : forall c d l p q, cfg_ok c -> tb c <> [] -> html_inv d l -> intag l = false -> rawtag l = 0 ->
  let a := lpos (lz l) in
  prefixb (tb c) (skipz a d) = false -> getz d a = 60 -> getz d (a + 1) = 47 -> is_letter (getz d (a + 2)) = true -> a + 2 <= p ->
  (forall i, a + 2 <= i < p -> gt_plain c d i) -> is_region c d p q ->
  exists v l', next c l = Ok (EndTagT, Some v, l') /\ lhas l' = true /\ so v = a /\ q <= so v + sn v.
Proof.
  intros c d l p q Hc Htb Hi Hit Hraw a Hnp G0 G1 G2 Hap Hplain Hreg.
  pose proof Hi as (Hl & Hlen & _). pose proof (lwf_clean l Hl Hit) as Hcl. pose proof (inv_pos0 d l Hi) as H0.
  destruct (is_region_in _ _ _ _ Hreg) as [Hpin Hpq].
  assert (Hlt0 : 0 < len (tb c)) by (destruct (tb c) as [|x t]; [congruence|rewrite len_cons; pose proof (len_nonneg t); lia]).
  assert (R2 : 0 <= a + 2 < len d) by (apply (getz_nz_range d (a + 2) (getz d (a + 2)) eq_refl); intros E; rewrite E in G2; discriminate).
  destruct (html_total_step_proof c d l Hc Hi) as (ty & tk & l' & Hn & Hi'). pose proof Hn as Hn0.
  unfold next in Hn. cbn [lz rawtag intag lerr ltext lattr lhas] in Hn. rewrite Hit, Hraw in Hn. cbn [Z.eqb negb] in Hn.
  unfold next_content in Hn. cbn [lz rawtag intag lerr ltext lattr lhas] in Hn.
  rewrite (text_dispatch_c c d l 47 Hc Htb Hi Hcl G0 G1 ltac:(fold a; lia) Hnp) in Hn.
  2:{ right; right; right. split; [reflexivity|]. fold a. split; [lia|]. intros E. rewrite E in G2. discriminate. }
  change (if is_letter 47 then DStartTag else if 47 =? 33 then DMarkup else if 47 =? 63 then DBogusQ else DEndTag) with DEndTag in Hn. cbn [rbind] in Hn.
  replace (mv (lz l) 2) with (zat l (a + 2)) in Hn by (unfold zat, mv, a; reflexivity).
  rewrite (zat_pkr d l (a + 2) 0 Hi) in Hn by (unfold a in *; lia). rewrite Z.add_0_r in Hn. cbn [rbind] in Hn. rewrite G2 in Hn. cbn [negb] in Hn.
  unfold shift_endtag in Hn.
  destruct (loop (fuel_of (zat l (a + 2))) (with_tmpl_lx c endtag_body) (zat l (a + 2), false)) as [rh| |] eqn:El; cbn [rbind] in Hn; try discriminate.
  assert (Hst : forall i, a + 2 <= i < p -> prefixb (tb c) (skipz i d) = false -> endtag_body (zat l i) = Ok (Cont (zat l (i + 1)))).
  { intros i Hr _. apply (gt_step endtag_body c d l i (fun zz => eq_refl) Hi); [unfold a in *; lia|apply Hplain; exact Hr]. }
  assert (Hnps : forall i, a + 2 <= i < p -> prefixb (tb c) (skipz i d) = false) by (intros i Hr; apply (Hplain i Hr)).
  destruct (scan_reach_done c d l endtag_body p q _ (a + 2) false rh Hc Htb Hi Hreg ltac:(unfold a in *; lia) endtag_fwd Hst Hnps El) as [Hh Hqq].
  cbn zeta in Hn.
  destruct (lexeme_from (fst (fst rh)) 2) as [t| |]; cbn [rbind] in Hn; try discriminate.
  destruct (shiftv (mv (fst (fst rh)) (snd (fst rh)))) as [s| |] eqn:Es; cbn [rbind] in Hn; try discriminate.
  destruct (2 <=? sn (fst s)); [|discriminate]. injection Hn as <- <- <-.
  eexists _, _. split; [exact Hn0|]. cbn [lhas]. split; [exact Hh|].
  apply (finish_token c d l _ _ _ q Hc Hi Hn0); [discriminate|discriminate|]. cbn [lz lx_lower lpos]. rewrite (shiftv_pos _ _ Es). cbn [mv lpos]. lia.
Qed.

(* bogus comments "<?": bytes [a+1,p) that are gt_plain, then a region *)
Lemma html_template_bogus_proof : forall c d l p q, cfg_ok c -> tb c <> [] -> html_inv d l -> intag l = false -> rawtag l = 0 ->
  let a := lpos (lz l) in
  prefixb (tb c) (skipz a d) = false -> getz d a = 60 -> getz d (a + 1) = 63 -> a + 1 <= p ->
  (forall i, a + 1 <= i < p -> gt_plain c d i) -> is_region c d p q ->
  exists v l', next c l = Ok (CommentT, Some v, l') /\ lhas l' = true /\ so v = a /\ q <= so v + sn v.
Proof.
  intros c d l p q Hc Htb Hi Hit Hraw a Hnp G0 G1 Hap Hplain Hreg.
  pose proof Hi as (Hl & Hlen & _). pose proof (lwf_clean l Hl Hit) as Hcl. pose proof (inv_pos0 d l Hi) as H0.
  destruct (is_region_in _ _ _ _ Hreg) as [Hpin Hpq].
  assert (R1 : 0 <= a + 1 < len d) by (apply (getz_nz_range d (a + 1) 63 G1); lia).
  destruct (html_total_step_proof c d l Hc Hi) as (ty & tk & l' & Hn & Hi'). pose proof Hn as Hn0.
  unfold next in Hn. cbn [lz rawtag intag lerr ltext lattr lhas] in Hn. rewrite Hit, Hraw in Hn. cbn [Z.eqb negb] in Hn.
  unfold next_content in Hn. cbn [lz rawtag intag lerr ltext lattr lhas] in Hn.
  rewrite (text_dispatch_c c d l 63 Hc Htb Hi Hcl G0 G1 ltac:(fold a; lia) Hnp ltac:(tauto)) in Hn.
  change (if is_letter 63 then DStartTag else if 63 =? 33 then DMarkup else if 63 =? 63 then DBogusQ else DEndTag) with DBogusQ in Hn. cbn [rbind] in Hn.
  replace (mv (lz l) 1) with (zat l (a + 1)) in Hn by (unfold zat, mv, a; reflexivity).
  unfold shift_bogus in Hn.
  destruct (loop (fuel_of (zat l (a + 1))) (with_tmpl_lx c bogus_body) (zat l (a + 1), false)) as [rh| |] eqn:El; cbn [rbind] in Hn; try discriminate.
  assert (Hst : forall i, a + 1 <= i < p -> prefixb (tb c) (skipz i d) = false -> bogus_body (zat l i) = Ok (Cont (zat l (i + 1)))).
  { intros i Hr _. apply (gt_step bogus_body c d l i (fun zz => eq_refl) Hi); [unfold a in *; lia|apply Hplain; exact Hr]. }
  assert (Hnps : forall i, a + 1 <= i < p -> prefixb (tb c) (skipz i d) = false) by (intros i Hr; apply (Hplain i Hr)).
  destruct (scan_reach_done c d l bogus_body p q _ (a + 1) false rh Hc Htb Hi Hreg ltac:(unfold a in *; lia) bogus_fwd Hst Hnps El) as [Hh Hqq].
  cbn zeta in Hn.
  destruct (lexeme_from (fst (fst rh)) 2) as [t| |]; cbn [rbind] in Hn; try discriminate.
  destruct (shiftv (mv (fst (fst rh)) (snd (fst rh)))) as [s| |] eqn:Es; cbn [rbind] in Hn; try discriminate.
  injection Hn as <- <- <-.
  eexists _, _. split; [exact Hn0|]. cbn [lhas fst snd]. split; [exact Hh|].
  apply (finish_token c d l _ _ _ q Hc Hi Hn0); [discriminate|discriminate|]. cbn [lz fst snd]. rewrite (shiftv_pos _ _ Es). cbn [mv lpos]. lia.
Qed.

(* "<!" at the cursor: what read_markup decides from the bytes after it *)
Lemma markup_prefix c d l : cfg_ok c -> tb c <> [] -> html_inv d l -> intag l = false -> rawtag l = 0 ->
  let a := lpos (lz l) in
  prefixb (tb c) (skipz a d) = false -> getz d a = 60 -> getz d (a + 1) = 33 ->
  forall ty tk l', next c l = Ok (ty, tk, l') ->
  exists m, read_markup c (zat l (a + 2)) false = Ok m /\
    (ty, tk, l') = (fst (fst (fst (fst m))), Some (snd (fst (fst (fst m)))),
                    mkL (snd (fst m)) (rawtag l) false (lerr l) (Some (snd (fst (fst m)))) (lattr l) (snd m)).
Proof.
  intros Hc Htb Hi Hit Hraw a Hnp G0 G1 ty tk l' Hn.
  pose proof Hi as (Hl & Hlen & _). pose proof (lwf_clean l Hl Hit) as Hcl. pose proof (inv_pos0 d l Hi) as H0.
  assert (R1 : 0 <= a + 1 < len d) by (apply (getz_nz_range d (a + 1) 33 G1); lia).
  unfold next in Hn. cbn [lz rawtag intag lerr ltext lattr lhas] in Hn. rewrite Hit, Hraw in Hn. cbn [Z.eqb negb] in Hn.
  unfold next_content in Hn. cbn [lz rawtag intag lerr ltext lattr lhas] in Hn.
  rewrite (text_dispatch_c c d l 33 Hc Htb Hi Hcl G0 G1 ltac:(fold a; lia) Hnp ltac:(tauto)) in Hn.
  change (if is_letter 33 then DStartTag else if 33 =? 33 then DMarkup else if 33 =? 63 then DBogusQ else DEndTag) with DMarkup in Hn. cbn [rbind] in Hn.
  replace (mv (lz l) 2) with (zat l (a + 2)) in Hn by (unfold zat, mv, a; reflexivity).
  destruct (read_markup c (zat l (a + 2)) false) as [[[[[ty0 tk0] tx0] z0] h0]| |]; cbn [rbind] in Hn; try discriminate.
  eexists. split; [reflexivity|]. cbn [fst snd]. injection Hn as <- <- <-. rewrite Hraw. reflexivity.
Qed.

(* bytes the CDATA loop steps over *)
Definition cdata_plain (c : cfg) (d : list Z) (i : Z) : Prop :=
  0 <= i < len d /\ prefixb (tb c) (skipz i d) = false /\ prefixb [93; 93; 62] (skipz i d) = false.

Lemma cdata_step c d l i : cfg_ok c -> html_inv d l -> lpos (lz l) <= i -> cdata_plain c d i ->
  cdata_body (zat l i) = Ok (Cont (zat l (i + 1))).
Proof.
  intros Hc Hi Ha ((Hi0 & Hi1) & _ & H3). destruct (zat_wf d l i Hi ltac:(lia)) as [Hw Hrem].
  unfold cdata_body. rewrite (zat_pkr d l i 0 Hi) by lia. cbn [rbind].
  unfold eof0. rewrite (at_end_zat d l i Hi Hi1), andb_false_r.
  rewrite at_rem by (try exact Hw; repeat constructor; lia). rewrite Hrem, H3. cbn [rbind]. reflexivity.
Qed.

Lemma doctype_step c d l i : html_inv d l -> lpos (lz l) <= i -> gt_plain c d i ->
  doctype_body (zat l i) = Ok (Cont (zat l (i + 1))).
Proof.
  intros Hi Ha ((Hi0 & Hi1) & _ & H62). unfold doctype_body. rewrite (zat_pkr d l i 0 Hi) by lia. rewrite Z.add_0_r. cbn [rbind].
  replace (getz d i =? 62) with false by (symmetry; apply Z.eqb_neq; exact H62). cbn [orb].
  unfold eof0. rewrite (at_end_zat d l i Hi Hi1), andb_false_r. reflexivity.
Qed.

(* the common end: a scanning loop of read_markup that reached the region *)
Lemma markup_scan c d l p q body k (s0 : Z) (f : sl -> sl -> lx -> bool -> Z * sl * sl * lx * bool) fuel :
  cfg_ok c -> tb c <> [] -> html_inv d l -> is_region c d p q -> lpos (lz l) <= s0 <= p -> scan_fwd body ->
  (forall i, s0 <= i < p -> prefixb (tb c) (skipz i d) = false /\ body (zat l i) = Ok (Cont (zat l (i + 1)))) ->
  (forall t v z' hh, snd (fst (f t v z' hh)) = z' /\ snd (f t v z' hh) = hh) ->
  forall m, (rh <-- loop fuel (with_tmpl_lx c body) (zat l s0, false) ;;
             let r0 := fst rh in t <-- lexeme_from (fst r0) k ;; s <-- shiftv (mv (fst r0) (snd r0)) ;; Ok (f t (fst s) (snd s) (snd rh))) = Ok m ->
  snd m = true /\ q <= lpos (snd (fst m)) /\ exists t v z' hh, m = f t v z' hh.
Proof.
  intros Hc Htb Hi Hreg Hs0 Hfwd Hpl Hf m Hx.
  destruct (loop fuel (with_tmpl_lx c body) (zat l s0, false)) as [rh| |] eqn:El; cbn [rbind] in Hx; try discriminate.
  destruct (scan_reach_done c d l body p q fuel s0 false rh Hc Htb Hi Hreg Hs0 Hfwd (fun i Hr _ => proj2 (Hpl i Hr)) (fun i Hr => proj1 (Hpl i Hr)) El) as [Hh Hqq].
  cbn zeta in Hx.
  destruct (lexeme_from (fst (fst rh)) k) as [t| |]; cbn [rbind] in Hx; try discriminate.
  destruct (shiftv (mv (fst (fst rh)) (snd (fst rh)))) as [s| |] eqn:Es; cbn [rbind] in Hx; try discriminate.
  injection Hx as <-. destruct (Hf t (fst s) (snd s) (snd rh)) as [-> ->]. split; [exact Hh|]. split; [rewrite (shiftv_pos _ _ Es); cbn [mv lpos]; lia|eauto].
Qed.

(* CDATA sections *)
Lemma html_template_cdata_proof : forall c d l p q, cfg_ok c -> tb c <> [] -> html_inv d l -> intag l = false -> rawtag l = 0 ->
  let a := lpos (lz l) in
  prefixb (tb c) (skipz a d) = false -> prefixb [60; 33; 91; 67; 68; 65; 84; 65; 91] (skipz a d) = true -> a + 9 <= p ->
  (forall i, a + 9 <= i < p -> cdata_plain c d i) -> is_region c d p q ->
  exists v l', next c l = Ok (TextT, Some v, l') /\ lhas l' = true /\ so v = a /\ q <= so v + sn v.
Proof.
  intros c d l p q Hc Htb Hi Hit Hraw a Hnp Hopen Hap Hplain Hreg.
  pose proof (inv_pos0 d l Hi) as H0. destruct (is_region_in _ _ _ _ Hreg) as [Hpin Hpq].
  assert (Hlt0 : 0 < len (tb c)) by (destruct (tb c) as [|x t]; [congruence|rewrite len_cons; pose proof (len_nonneg t); lia]).
  pose proof (prefixb_len _ _ Hopen) as Hl9. change (len [60; 33; 91; 67; 68; 65; 84; 65; 91]) with 9 in Hl9.
  assert (Hal : a <= len d) by lia. pose proof Hl9 as Hl9'. rewrite len_skipz in Hl9 by lia.
  assert (Hb : getz d a = 60 /\ getz d (a + 1) = 33 /\ skipz (a + 2) d = 91 :: 67 :: 68 :: 65 :: 84 :: 65 :: 91 :: skipz (a + 9) d).
  { destruct (skipz a d) as [|x0 [|x1 r]] eqn:Es; try (exfalso; unfold len in Hl9'; cbn [length] in Hl9'; lia).
    assert (Er : skipz (a + 2) d = r).
    { replace (a + 2) with (a + 2) by lia. rewrite <- (skipz_skipz a 2 d) by lia. rewrite Es. reflexivity. }
    cbn [prefixb] in Hopen. apply andb_true_iff in Hopen. destruct Hopen as [E0 Hopen]. apply andb_true_iff in Hopen. destruct Hopen as [E1 Hopen].
    apply Z.eqb_eq in E0, E1. subst x0 x1.
    assert (P0 : peekz d a = Some 60) by (rewrite <- (Z.add_0_r a), <- peekz_skipz by lia; rewrite Es; apply peekz_cons_0).
    assert (P1 : peekz d (a + 1) = Some 33) by (rewrite <- peekz_skipz by lia; rewrite Es; apply peekz_1).
    split; [unfold getz; rewrite P0; reflexivity|]. split; [unfold getz; rewrite P1; reflexivity|].
    replace (skipz (a + 9) d) with (skipz 7 r) by (rewrite <- Er, skipz_skipz by lia; f_equal; lia). rewrite Er.
    destruct r as [|y0 [|y1 [|y2 [|y3 [|y4 [|y5 [|y6 r']]]]]]]; try (exfalso; unfold len in Hl9'; cbn [length] in Hl9'; lia).
    cbn [prefixb] in Hopen. b2p. subst. reflexivity. }
  destruct Hb as (G0 & G1 & Hsk2).
  destruct (html_total_step_proof c d l Hc Hi) as (ty & tk & l' & Hn & Hi').
  destruct (markup_prefix c d l Hc Htb Hi Hit Hraw Hnp G0 G1 ty tk l' Hn) as (m & Em & Eq). fold a in Em.
  unfold read_markup in Em.
  destruct (zat_wf d l (a + 2) Hi ltac:(unfold a in *; lia)) as [Hw2 Hrem2].
  rewrite at_rem in Em by (try exact Hw2; repeat constructor; lia). rewrite Hrem2, Hsk2 in Em. cbn [prefixb Z.eqb Pos.eqb andb rbind] in Em.
  rewrite at_rem in Em by (try exact Hw2; repeat constructor; lia). rewrite Hrem2, Hsk2 in Em. cbn [prefixb Z.eqb Pos.eqb andb rbind] in Em.
  replace (mv (zat l (a + 2)) 7) with (zat l (a + 9)) in Em by (unfold zat, mv; cbn [lbuf lpos lstart]; f_equal; lia).
  assert (Hpl : forall i, a + 9 <= i < p -> prefixb (tb c) (skipz i d) = false /\ cdata_body (zat l i) = Ok (Cont (zat l (i + 1)))).
  { intros i Hr. split; [apply (Hplain i Hr)|apply (cdata_step c d l i Hc Hi); [unfold a in *; lia|apply Hplain; exact Hr]]. }
  destruct (markup_scan c d l p q cdata_body 9 (a + 9) (fun t v z' hh => (TextT, v, t, z', hh)) (fuel_of (zat l (a + 2))) Hc Htb Hi Hreg ltac:(unfold a in *; lia) cdata_fwd Hpl
              (fun _ _ _ _ => conj eq_refl eq_refl) m Em) as (Hh & Hq & t0 & v0 & z0 & h0 & ->).
  cbn [fst snd] in *. injection Eq as -> -> ->. eexists _, _. split; [exact Hn|]. cbn [lhas]. split; [exact Hh|].
  apply (finish_token c d l _ _ _ q Hc Hi Hn); [discriminate|discriminate|exact Hq].
Qed.

Lemma cipre_len ps : forall xs, cipre ps xs = true -> len ps <= len xs.
Proof.
  induction ps as [|c ps IH]; intros xs H; [change (len (@nil Z)) with 0; apply len_nonneg|].
  destruct xs as [|x xs]; cbn [cipre] in H; [discriminate|]. apply andb_true_iff in H. destruct H as [_ H]. rewrite !len_cons. specialize (IH xs H). lia.
Qed.

(* doctype: "<!doctype" in any ASCII case at the cursor; the loop starts after an optional space *)
Lemma html_template_doctype_proof : forall c d l p q, cfg_ok c -> tb c <> [] -> html_inv d l -> intag l = false -> rawtag l = 0 ->
  let a := lpos (lz l) in
  prefixb (tb c) (skipz a d) = false -> getz d a = 60 -> getz d (a + 1) = 33 ->
  prefixb [45; 45] (skipz (a + 2) d) = false -> prefixb [91; 67; 68; 65; 84; 65; 91] (skipz (a + 2) d) = false ->
  cipre [100; 111; 99; 116; 121; 112; 101] (skipz (a + 2) d) = true ->
  let s0 := a + 9 + (if getz d (a + 9) =? 32 then 1 else 0) in
  s0 <= p -> (forall i, s0 <= i < p -> gt_plain c d i) -> is_region c d p q ->
  exists v l', next c l = Ok (DoctypeT, Some v, l') /\ lhas l' = true /\ so v = a /\ q <= so v + sn v.
Proof.
  intros c d l p q Hc Htb Hi Hit Hraw a Hnp G0 G1 Hn1 Hn2 Hci s0 Hsp Hplain Hreg.
  pose proof (inv_pos0 d l Hi) as H0. destruct (is_region_in _ _ _ _ Hreg) as [Hpin Hpq].
  assert (Hlt0 : 0 < len (tb c)) by (destruct (tb c) as [|x t]; [congruence|rewrite len_cons; pose proof (len_nonneg t); lia]).
  assert (R1 : 0 <= a + 1 < len d) by (apply (getz_nz_range d (a + 1) 33 G1); lia).
  pose proof (cipre_len _ _ Hci) as Hl7. change (len [100; 111; 99; 116; 121; 112; 101]) with 7 in Hl7. rewrite len_skipz in Hl7 by lia.
  destruct (html_total_step_proof c d l Hc Hi) as (ty & tk & l' & Hn & Hi').
  destruct (markup_prefix c d l Hc Htb Hi Hit Hraw Hnp G0 G1 ty tk l' Hn) as (m & Em & Eq). fold a in Em.
  unfold read_markup in Em.
  destruct (zat_wf d l (a + 2) Hi ltac:(unfold a in *; lia)) as [Hw2 Hrem2].
  rewrite at_rem in Em by (try exact Hw2; repeat constructor; lia). rewrite Hrem2, Hn1 in Em. cbn [rbind] in Em.
  rewrite at_rem in Em by (try exact Hw2; repeat constructor; lia). rewrite Hrem2, Hn2 in Em. cbn [rbind] in Em.
  rewrite (atci_from_cipre (zat l (a + 2)) (skipz (a + 2) d) (conj Hw2 Hrem2)) in Em by (try (rewrite len_skipz by lia; lia); repeat constructor; lia).
  change (skipz 0 (skipz (a + 2) d)) with (skipz (a + 2) d) in Em. rewrite Hci in Em. cbn [rbind] in Em.
  replace (mv (zat l (a + 2)) 7) with (zat l (a + 9)) in Em by (unfold zat, mv; cbn [lbuf lpos lstart]; f_equal; lia).
  rewrite (zat_pkr d l (a + 9) 0 Hi) in Em by (unfold a in *; lia). rewrite Z.add_0_r in Em. cbn [rbind] in Em.
  assert (Hz2 : (if getz d (a + 9) =? 32 then mv (zat l (a + 9)) 1 else zat l (a + 9)) = zat l s0).
  { unfold s0. destruct (getz d (a + 9) =? 32); unfold zat, mv; cbn [lbuf lpos lstart]; f_equal; lia. }
  rewrite Hz2 in Em.
  assert (Hs0 : a + 9 <= s0 <= a + 10) by (unfold s0; destruct (getz d (a + 9) =? 32); lia).
  assert (Hpl : forall i, s0 <= i < p -> prefixb (tb c) (skipz i d) = false /\ doctype_body (zat l i) = Ok (Cont (zat l (i + 1)))).
  { intros i Hr. split; [apply (Hplain i Hr)|apply (doctype_step c d l i Hi); [unfold a in *; lia|apply Hplain; exact Hr]]. }
  destruct (markup_scan c d l p q doctype_body 9 s0 (fun t v z' hh => (DoctypeT, v, t, z', hh)) (fuel_of (zat l s0)) Hc Htb Hi Hreg ltac:(unfold a in *; lia) doctype_fwd Hpl
              (fun _ _ _ _ => conj eq_refl eq_refl) m Em) as (Hh & Hq & t0 & v0 & z0 & h0 & ->).
  cbn [fst snd] in *. injection Eq as -> -> ->. eexists _, _. split; [exact Hn|]. cbn [lhas]. split; [exact Hh|].
  apply (finish_token c d l _ _ _ q Hc Hi Hn); [discriminate|discriminate|exact Hq].
Qed.

(* bogus comments "<!x": not "--", "[CDATA[" or doctype *)
Lemma html_template_bogus_bang_proof : forall c d l p q, cfg_ok c -> tb c <> [] -> html_inv d l -> intag l = false -> rawtag l = 0 ->
  let a := lpos (lz l) in
  prefixb (tb c) (skipz a d) = false -> getz d a = 60 -> getz d (a + 1) = 33 ->
  prefixb [45; 45] (skipz (a + 2) d) = false -> prefixb [91; 67; 68; 65; 84; 65; 91] (skipz (a + 2) d) = false ->
  cipre [100; 111; 99; 116; 121; 112; 101] (skipz (a + 2) d) = false ->
  a + 2 <= p -> (forall i, a + 2 <= i < p -> gt_plain c d i) -> is_region c d p q ->
  exists v l', next c l = Ok (CommentT, Some v, l') /\ lhas l' = true /\ so v = a /\ q <= so v + sn v.
Proof.
  intros c d l p q Hc Htb Hi Hit Hraw a Hnp G0 G1 Hn1 Hn2 Hci Hsp Hplain Hreg.
  pose proof (inv_pos0 d l Hi) as H0. destruct (is_region_in _ _ _ _ Hreg) as [Hpin Hpq].
  assert (Hlt0 : 0 < len (tb c)) by (destruct (tb c) as [|x t]; [congruence|rewrite len_cons; pose proof (len_nonneg t); lia]).
  assert (R1 : 0 <= a + 1 < len d) by (apply (getz_nz_range d (a + 1) 33 G1); lia).
  destruct (html_total_step_proof c d l Hc Hi) as (ty & tk & l' & Hn & Hi').
  destruct (markup_prefix c d l Hc Htb Hi Hit Hraw Hnp G0 G1 ty tk l' Hn) as (m & Em & Eq). fold a in Em.
  unfold read_markup in Em.
  destruct (zat_wf d l (a + 2) Hi ltac:(unfold a in *; lia)) as [Hw2 Hrem2].
  rewrite at_rem in Em by (try exact Hw2; repeat constructor; lia). rewrite Hrem2, Hn1 in Em. cbn [rbind] in Em.
  rewrite at_rem in Em by (try exact Hw2; repeat constructor; lia). rewrite Hrem2, Hn2 in Em. cbn [rbind] in Em.
  rewrite (atci_from_cipre (zat l (a + 2)) (skipz (a + 2) d) (conj Hw2 Hrem2)) in Em by (try (rewrite len_skipz by lia; lia); repeat constructor; lia).
  change (skipz 0 (skipz (a + 2) d)) with (skipz (a + 2) d) in Em. rewrite Hci in Em. cbn [rbind] in Em.
  unfold shift_bogus in Em.
  destruct (loop (fuel_of (zat l (a + 2))) (with_tmpl_lx c bogus_body) (zat l (a + 2), false)) as [rh| |] eqn:El; cbn [rbind] in Em; try discriminate.
  assert (Hst : forall i, a + 2 <= i < p -> prefixb (tb c) (skipz i d) = false -> bogus_body (zat l i) = Ok (Cont (zat l (i + 1)))).
  { intros i Hr _. apply (gt_step bogus_body c d l i (fun zz => eq_refl) Hi); [unfold a in *; lia|apply Hplain; exact Hr]. }
  assert (Hnps : forall i, a + 2 <= i < p -> prefixb (tb c) (skipz i d) = false) by (intros i Hr; apply (Hplain i Hr)).
  destruct (scan_reach_done c d l bogus_body p q _ (a + 2) false rh Hc Htb Hi Hreg ltac:(unfold a in *; lia) bogus_fwd Hst Hnps El) as [Hh Hqq].
  cbn zeta in Em.
  destruct (lexeme_from (fst (fst rh)) 2) as [t| |]; cbn [rbind] in Em; try discriminate.
  destruct (shiftv (mv (fst (fst rh)) (snd (fst rh)))) as [s| |] eqn:Es; cbn [rbind] in Em; try discriminate.
  injection Em as <-. cbn [fst snd] in Eq. injection Eq as -> -> ->.
  eexists _, _. split; [exact Hn|]. cbn [lhas]. split; [exact Hh|].
  apply (finish_token c d l _ _ _ q Hc Hi Hn); [discriminate|discriminate|]. cbn [lz]. rewrite (shiftv_pos _ _ Es). cbn [mv lpos]. lia.
Qed.

(* bogus comments "</" + non-letter: bytes [a+2,p) that are gt_plain, then a region *)
Lemma html_template_bogus_slash_proof : forall c d l p q, cfg_ok c -> tb c <> [] -> html_inv d l -> intag l = false -> rawtag l = 0 ->
  let a := lpos (lz l) in
  prefixb (tb c) (skipz a d) = false -> getz d a = 60 -> getz d (a + 1) = 47 -> a + 2 < len d ->
  is_letter (getz d (a + 2)) = false -> getz d (a + 2) <> 62 -> a + 2 <= p ->
  (forall i, a + 2 <= i < p -> gt_plain c d i) -> is_region c d p q ->
  exists v l', next c l = Ok (CommentT, Some v, l') /\ lhas l' = true /\ so v = a /\ q <= so v + sn v.
Proof.
  intros c d l p q Hc Htb Hi Hit Hraw a Hnp G0 G1 Ha2 G2 G3 Hap Hplain Hreg.
  pose proof Hi as (Hl & Hlen & _). pose proof (lwf_clean l Hl Hit) as Hcl. pose proof (inv_pos0 d l Hi) as H0.
  destruct (is_region_in _ _ _ _ Hreg) as [Hpin Hpq].
  destruct (html_total_step_proof c d l Hc Hi) as (ty & tk & l' & Hn & Hi'). pose proof Hn as Hn0.
  unfold next in Hn. cbn [lz rawtag intag lerr ltext lattr lhas] in Hn. rewrite Hit, Hraw in Hn. cbn [Z.eqb negb] in Hn.
  unfold next_content in Hn. cbn [lz rawtag intag lerr ltext lattr lhas] in Hn.
  rewrite (text_dispatch_c c d l 47 Hc Htb Hi Hcl G0 G1 ltac:(fold a; lia) Hnp) in Hn.
  2:{ right; right; right. split; [reflexivity|]. fold a. split; [lia|exact G3]. }
  change (if is_letter 47 then DStartTag else if 47 =? 33 then DMarkup else if 47 =? 63 then DBogusQ else DEndTag) with DEndTag in Hn. cbn [rbind] in Hn.
  replace (mv (lz l) 2) with (zat l (a + 2)) in Hn by (unfold zat, mv, a; reflexivity).
  rewrite (zat_pkr d l (a + 2) 0 Hi) in Hn by (unfold a in *; lia). rewrite Z.add_0_r in Hn. cbn [rbind] in Hn. rewrite G2 in Hn. cbn [negb] in Hn.
  unfold shift_bogus in Hn.
  destruct (loop (fuel_of (zat l (a + 2))) (with_tmpl_lx c bogus_body) (zat l (a + 2), false)) as [rh| |] eqn:El; cbn [rbind] in Hn; try discriminate.
  assert (Hst : forall i, a + 2 <= i < p -> prefixb (tb c) (skipz i d) = false -> bogus_body (zat l i) = Ok (Cont (zat l (i + 1)))).
  { intros i Hr _. apply (gt_step bogus_body c d l i (fun zz => eq_refl) Hi); [unfold a in *; lia|apply Hplain; exact Hr]. }
  assert (Hnps : forall i, a + 2 <= i < p -> prefixb (tb c) (skipz i d) = false) by (intros i Hr; apply (Hplain i Hr)).
  destruct (scan_reach_done c d l bogus_body p q _ (a + 2) false rh Hc Htb Hi Hreg ltac:(unfold a in *; lia) bogus_fwd Hst Hnps El) as [Hh Hqq].
  cbn zeta in Hn.
  destruct (lexeme_from (fst (fst rh)) 2) as [t| |]; cbn [rbind] in Hn; try discriminate.
  destruct (shiftv (mv (fst (fst rh)) (snd (fst rh)))) as [s| |] eqn:Es; cbn [rbind] in Hn; try discriminate.
  injection Hn as <- <- <-.
  eexists _, _. split; [exact Hn0|]. cbn [lhas fst snd]. split; [exact Hh|].
  apply (finish_token c d l _ _ _ q Hc Hi Hn0); [discriminate|discriminate|]. cbn [lz fst snd]. rewrite (shiftv_pos _ _ Es). cbn [mv lpos]. lia.
Qed.

(* plaintext content: bytes [cursor,p) at which no delimiter starts, then a region *)
Lemma html_template_plaintext_proof : forall c d l p q, cfg_ok c -> tb c <> [] -> html_inv d l -> intag l = false ->
  rawtag l = html_hash_Plaintext -> lpos (lz l) <= p ->
  (forall i, lpos (lz l) <= i < p -> prefixb (tb c) (skipz i d) = false) -> is_region c d p q ->
  exists v l', next c l = Ok (TextT, Some v, l') /\ lhas l' = true /\ so v = lpos (lz l) /\ q <= so v + sn v.
Proof.
  intros c d l p q Hc Htb Hi Hit Hraw Hap Hplain Hreg.
  pose proof Hi as (Hl & Hlen & _). pose proof Hl as [Hw _]. pose proof (lwf_clean l Hl Hit) as Hcl. pose proof (inv_pos0 d l Hi) as H0.
  destruct (is_region_in _ _ _ _ Hreg) as [Hpin Hpq].
  assert (Hlt0 : 0 < len (tb c)) by (destruct (tb c) as [|x t]; [congruence|rewrite len_cons; pose proof (len_nonneg t); lia]).
  destruct (html_total_step_proof c d l Hc Hi) as (ty & tk & l' & Hn & Hi'). pose proof Hn as Hn0.
  unfold next in Hn. cbn [lz rawtag intag lerr ltext lattr lhas] in Hn. rewrite Hit, Hraw in Hn.
  change (negb (html_hash_Plaintext =? 0)) with true in Hn. cbn [negb andb] in Hn.
  unfold shift_rawtext in Hn. change (html_hash_Plaintext =? html_hash_Plaintext) with true in Hn.
  rewrite <- (zat_here l) in Hn at 2.
  destruct (loop (fuel_of (lz l)) (with_tmpl_lx c plaintext_body) (zat l (lpos (lz l)), false)) as [rh| |] eqn:El; cbn [rbind] in Hn; try discriminate.
  assert (Hst : forall i, lpos (lz l) <= i < p -> prefixb (tb c) (skipz i d) = false -> plaintext_body (zat l i) = Ok (Cont (zat l (i + 1)))).
  { intros i Hr _. unfold plaintext_body. rewrite (zat_pkr d l i 0 Hi) by lia. cbn [rbind].
    unfold eof0. rewrite (at_end_zat d l i Hi ltac:(lia)), andb_false_r. reflexivity. }
  destruct (scan_reach_gen (fun z : lx => z) c d l plaintext_body p q _ (lpos (lz l)) false rh Hc Htb Hi Hreg ltac:(lia) plaintext_step_samele Hst Hplain El) as [Hh Hqq].
  assert (Hadv : adv (lz l) (fst rh)).
  { destruct (safe_inv _ _ (plaintext_loop_spec c (lz l) false Hc Hw)) as (r2 & E2 & Ha). rewrite <- (zat_here l) in E2 at 2. rewrite El in E2. injection E2 as <-. exact Ha. }
  rewrite shiftv_spec in Hn by eauto using adv_wf. cbn [rbind fst snd sn] in Hn.
  destruct Hadv as (A1 & A2 & A3).
  replace (0 <? lpos (fst rh) - lstart (fst rh)) with true in Hn by (symmetry; apply Z.ltb_lt; lia).
  injection Hn as <- <- <-. eexists _, _. split; [exact Hn0|]. cbn [lhas so sn]. split; [exact Hh|]. split; lia.
Qed.

(* ---- svg / math / xml content ------------------------------------------------------------------------------------------- *)
(* the template lemmas over a cursor that only satisfies binv (the tag name before it was lower-cased in the buffer) *)
Lemma btmpl_here c d l p q : cfg_ok c -> binv d (lz l) -> lpos (lz l) <= p -> is_region c d p q ->
  at_ (zat l p) (tb c) = Ok true /\ tmpl_skip c (zat l p) = Ok (zat l q) /\ p < q <= len d.
Proof.
  intros Hc Hi Ha Hreg. destruct (is_region_in _ _ _ _ Hreg) as [Hin Hlt].
  pose proof Hi as (Hwl & Hlen & _). assert (Hp0 : 0 <= lpos (lz l)) by (destruct Hwl as (_ & ? & _); lia).
  pose proof Hreg as (_ & Htb & Hpre & _).
  assert (Hlt0 : 0 < len (tb c)) by (destruct (tb c) as [|x t]; [congruence|rewrite len_cons; pose proof (len_nonneg t); lia]).
  destruct (bzat_wf d l p Hi ltac:(lia)) as [Hw Hrem].
  assert (Hpre' : prefixb (tb c) (rem (zat l p)) = true) by (rewrite Hrem; exact Hpre).
  destruct (tmpl_skip_here c (zat l p) Hc Hw Hpre') as [Hsk Hle].
  assert (Eq : region_end_here c (zat l p) = q).
  { eapply is_region_fun; [|exact Hreg]. apply bregion_here; [exact Hi|lia|exact Htb|exact Hpre]. }
  rewrite Eq in *.
  split; [rewrite at_rem by (apply Hc || exact Hw); rewrite Hpre'; reflexivity|].
  split; [exact Hsk|unfold lx_len, zat in *; cbn [lbuf] in *; lia].
Qed.

Lemma btmpl_at_zat c d l a : cfg_ok c -> tb c <> [] -> binv d (lz l) -> lpos (lz l) <= a <= len d ->
  tmpl_at c (zat l a) = Ok (prefixb (tb c) (skipz a d)).
Proof.
  intros Hc Htb Hi Ha. destruct (bzat_wf d l a Hi Ha) as [Hw Hrem]. unfold tmpl_at. rewrite (has_delims_true c Htb).
  rewrite at_rem by (apply Hc || exact Hw). rewrite Hrem. reflexivity.
Qed.

(* p is a loop head of shiftXML reached from position a in the given state, over steps where no delimiter starts
   and over whole regions *)
Inductive xml_reach (c : cfg) (raw : Z) (d : list Z) : Z -> bool -> Z -> Z -> Z -> Prop :=
| xr_refl a it q sk : xml_reach c raw d a it q sk a
| xr_step a it q sk j it' q' sk' p : prefixb (tb c) (skipz a d) = false ->
    xml_step raw it q sk (skipz a d) = Some (j, it', q', sk') -> xml_reach c raw d (a + j) it' q' sk' p -> xml_reach c raw d a it q sk p
| xr_region a e it q sk p : is_region c d a e -> xml_reach c raw d e it q sk p -> xml_reach c raw d a it q sk p.

Lemma xml_step_zat raw d l a it q sk j it' q' sk' : binv d (lz l) -> lpos (lz l) <= a <= len d ->
  xml_step raw it q sk (skipz a d) = Some (j, it', q', sk') ->
  xml_body raw (zat l a, it, q, sk) = Ok (Cont (zat l (a + j), it', q', sk')) /\ 1 <= j /\ a + j <= len d.
Proof.
  intros Hi Ha H. destruct (bzat_wf d l a Hi Ha) as [Hw Hrem].
  pose proof Hi as (Hwl & _). assert (0 <= a) by (destruct Hwl as (_ & ? & _); lia).
  destruct (xml_body_step raw (zat l a) it q sk _ j it' q' sk' (conj Hw Hrem) H) as [Hb Hj].
  rewrite len_skipz in Hj by lia. split; [exact Hb|lia].
Qed.

Lemma xml_reach_le c raw d l a it q sk p : cfg_ok c -> binv d (lz l) -> lpos (lz l) <= a <= len d ->
  xml_reach c raw d a it q sk p -> a <= p <= len d.
Proof.
  intros Hc Hi Ha H. induction H as [a it q sk|a it q sk j it' q' sk' p Hnp Hst _ IH|a e it q sk p Hreg _ IH]; [lia| |].
  - destruct (xml_step_zat raw d l a it q sk j it' q' sk' Hi Ha Hst) as (_ & Hj1 & Hj2). specialize (IH ltac:(lia)). lia.
  - destruct (btmpl_here c d l a e Hc Hi ltac:(lia) Hreg) as (_ & _ & He). specialize (IH ltac:(lia)). lia.
Qed.

Lemma xreach_done c raw d l p q fuel a it0 q0 sk0 h rh : cfg_ok c -> tb c <> [] -> binv d (lz l) -> is_region c d p q ->
  lpos (lz l) <= a <= len d -> xml_reach c raw d a it0 q0 sk0 p ->
  loop fuel (with_tmpl c xml_cur xml_setc (xml_body raw)) (zat l a, it0, q0, sk0, h) = Ok rh ->
  snd rh = true /\ q <= lpos (sum_cur (fst rh)).
Proof.
  intros Hc Htb Hi Hreg Ha Hpath H.
  destruct (btmpl_here c d l p q Hc Hi ltac:(pose proof (xml_reach_le _ _ _ _ _ _ _ _ _ Hc Hi Ha Hpath); lia) Hreg) as (Hatp & Hskp & Hq).
  set (I := fun sh : lx * bool * Z * Z * bool =>
              (snd sh = true /\ samele (lz l) (xml_cur (fst sh)) /\ q <= lpos (xml_cur (fst sh))) \/
              (exists i it1 q1 sk1, fst sh = (zat l i, it1, q1, sk1) /\ lpos (lz l) <= i <= len d /\ xml_reach c raw d i it1 q1 sk1 p)).
  refine (with_tmpl_inv2 c xml_cur xml_setc I (fun r : (lx + lx) * bool => snd r = true /\ q <= lpos (sum_cur (fst r)))
            (xml_body raw) _ _ fuel _ rh _ H).
  - intros s h1 z' HI Hat Hk. unfold I in *. cbn [fst snd] in *.
    destruct HI as [(_ & Hs & Hqs)|(i & it1 & q1 & sk1 & -> & Hi0 & Hp)].
    + left. split; [reflexivity|]. pose proof (tmpl_skip_run _ _ _ Hk) as Hkr. unfold xml_setc, xml_cur in *. cbn [fst snd] in *.
      split; [eapply samele_trans; eauto|destruct Hkr; lia].
    + unfold xml_cur, xml_setc in *. cbn [fst snd] in *. inversion Hp; subst.
      * left. split; [reflexivity|]. rewrite Hskp in Hk. injection Hk as <-.
        split; [split; [split; reflexivity|unfold zat; cbn [lpos]; lia]|unfold zat; cbn [lpos]; lia].
      * exfalso. rewrite (btmpl_at_zat c d l i Hc Htb Hi ltac:(lia)) in Hat. congruence.
      * destruct (btmpl_here c d l i e Hc Hi ltac:(lia) H0) as (_ & Hske & He). rewrite Hske in Hk. injection Hk as <-.
        right. exists e, it1, q1, sk1. split; [reflexivity|]. split; [lia|assumption].
  - intros s h1 x HI Hat Hx. unfold I in *. cbn [fst snd] in *.
    destruct HI as [(Hh & Hs & Hqs)|(i & it1 & q1 & sk1 & -> & Hi0 & Hp)].
    + pose proof (xml_fwd raw s x Hx) as Hf. destruct x as [s'|r]; cbn [fst snd].
      * left. split; [exact Hh|]. split; [eapply samele_trans; eauto|destruct Hf; lia].
      * split; [exact Hh|]. destruct Hf as [_ Hf]. lia.
    + unfold xml_cur in *. cbn [fst snd] in *. inversion Hp; subst.
      * exfalso. unfold tmpl_at in Hat. rewrite (has_delims_true c Htb), Hatp in Hat. discriminate.
      * destruct (xml_step_zat raw d l i it1 q1 sk1 j it' q' sk' Hi Hi0 H1) as (Hb & Hj1 & Hj2). rewrite Hb in Hx. injection Hx as <-.
        right. exists (i + j), it', q', sk'. split; [reflexivity|]. split; [lia|assumption].
      * exfalso. destruct (btmpl_here c d l i e Hc Hi ltac:(lia) H0) as (Hate & _). unfold tmpl_at in Hat. rewrite (has_delims_true c Htb), Hate in Hat. discriminate.
  - unfold I. cbn [fst snd]. right. exists a, it0, q0, sk0. split; [reflexivity|]. split; [exact Ha|exact Hpath].
Qed.

(* the name of a start tag, as shiftStartTag reads it with delimiters configured *)
Definition stag_plain (c : cfg) (d : list Z) (i : Z) : Prop :=
  0 <= i < len d /\ prefixb (tb c) (skipz i d) = false /\ is_ws (getz d i) = false /\ getz d i <> 62 /\
  (getz d i = 47 -> getz d (i + 1) <> 62).
Definition stag_stop (c : cfg) (d : list Z) (n : Z) : Prop :=
  n = len d \/
  (0 <= n < len d /\ (prefixb (tb c) (skipz n d) = true \/ is_ws (getz d n) = true \/ getz d n = 62 \/ (getz d n = 47 /\ getz d (n + 1) = 62))).

Lemma starttag_loop_c c d l a n : cfg_ok c -> tb c <> [] -> html_inv d l -> lpos (lz l) <= a <= n -> n <= len d ->
  (forall i, a <= i < n -> stag_plain c d i) -> stag_stop c d n ->
  loop (fuel_of (zat l a)) (starttag_body c) (zat l a) = Ok (zat l n).
Proof.
  intros Hc Htb Hi Ha Hn Hplain Hstop. pose proof Hi as (_ & Hlen & _). pose proof (inv_pos0 d l Hi) as H0.
  assert (Hmv : forall i, mv (zat l a) i = zat l (a + i)) by (intros i; reflexivity).
  apply (loop_scan _ (zat l a) (n - a)); [lia| | |unfold fuel_of, zat, lx_len in *; cbn [lbuf lpos]; lia].
  - intros i Hir. rewrite !Hmv. destruct (Hplain (a + i) ltac:(lia)) as ((Hi0 & Hi1) & Hnp & Hw & H62 & H47).
    unfold starttag_body. rewrite (zat_pkr d l (a + i) 0 Hi) by lia. rewrite Z.add_0_r. cbn [rbind].
    unfold is_ws in Hw. apply orb_false_iff in Hw. destruct Hw as [Hw H12]. apply orb_false_iff in Hw. destruct Hw as [Hw H13].
    apply orb_false_iff in Hw. destruct Hw as [Hw H10]. apply orb_false_iff in Hw. destruct Hw as [H32 H9].
    rewrite H32, H9, H10, H13, H12.
    replace (getz d (a + i) =? 62) with false by (symmetry; apply Z.eqb_neq; exact H62). cbn [orb].
    unfold eof0. rewrite (at_end_zat d l (a + i) Hi Hi1), andb_false_r.
    rewrite (tmpl_at_zat c d l (a + i) Hc Htb Hi ltac:(lia)), Hnp.
    destruct (getz d (a + i) =? 47) eqn:E47.
    + rewrite (zat_pkr d l (a + i) 1 Hi) by lia. cbn [rbind].
      replace (getz d (a + i + 1) =? 62) with false by (symmetry; apply Z.eqb_neq; apply H47; apply Z.eqb_eq; exact E47).
      cbn [rbind]. replace (a + (i + 1)) with (a + i + 1) by lia. reflexivity.
    + cbn [rbind]. replace (a + (i + 1)) with (a + i + 1) by lia. reflexivity.
  - rewrite Hmv. replace (a + (n - a)) with n by lia. unfold starttag_body.
    rewrite (zat_pkr d l n 0 Hi) by lia. rewrite Z.add_0_r. cbn [rbind].
    destruct Hstop as [->|((Hn0 & Hn1) & Hs)].
    + assert (G : getz d (len d) = 0) by (unfold getz; rewrite (proj2 (peekz_none_iff d (len d))) by lia; reflexivity).
      rewrite G. cbn [Z.eqb orb rbind]. unfold eof0. cbn [Z.eqb andb].
      replace (at_end (zat l (len d))) with true by (symmetry; unfold at_end, zat, lx_len in *; cbn [lbuf lpos]; apply Z.leb_le; lia).
      reflexivity.
    + rewrite (tmpl_at_zat c d l n Hc Htb Hi ltac:(lia)).
      destruct ((getz d n =? 32) || (getz d n =? 62)) eqn:E1; [reflexivity|]. cbn [rbind].
      destruct (getz d n =? 47) eqn:E47.
      * rewrite (zat_pkr d l n 1 Hi) by lia. cbn [rbind].
        destruct (getz d (n + 1) =? 62) eqn:E2; [reflexivity|].
        destruct ((getz d n =? 9) || (getz d n =? 10) || (getz d n =? 13) || (getz d n =? 12) || eof0 (zat l n) (getz d n)) eqn:E3; [reflexivity|].
        cbn [rbind]. destruct Hs as [->|[Hw|[E|[_ E]]]]; [reflexivity| | |].
        -- exfalso. apply Z.eqb_eq in E47. rewrite E47 in Hw. discriminate.
        -- exfalso. apply Z.eqb_eq in E47. lia.
        -- exfalso. apply Z.eqb_neq in E2. lia.
      * cbn [rbind].
        destruct ((getz d n =? 9) || (getz d n =? 10) || (getz d n =? 13) || (getz d n =? 12) || eof0 (zat l n) (getz d n)) eqn:E3; [reflexivity|].
        cbn [rbind]. destruct Hs as [->|[Hw|[E|[E _]]]]; [reflexivity| | |].
        -- exfalso. unfold is_ws in Hw. apply orb_false_iff in E1. destruct E1 as [E32 _].
           apply orb_false_iff in E3. destruct E3 as [E3 _]. apply orb_false_iff in E3. destruct E3 as [E3 E12].
           apply orb_false_iff in E3. destruct E3 as [E3 E13]. apply orb_false_iff in E3. destruct E3 as [E9 E10].
           rewrite E32, E9, E10, E13, E12 in Hw. discriminate.
        -- exfalso. apply orb_false_iff in E1. destruct E1 as [_ E62]. apply Z.eqb_neq in E62. lia.
        -- exfalso. apply Z.eqb_neq in E47. lia.
Qed.

(* what the two loops of shiftXML return *)
Lemma xml_loop_post c raw fuel z0 it q sk h rh :
  loop fuel (with_tmpl c xml_cur xml_setc (xml_body raw)) (z0, it, q, sk, h) = Ok rh ->
  samele z0 (sum_cur (fst rh)) /\ (forall z', fst rh = inr z' -> pk z' 0 = Some 0).
Proof.
  intros H.
  refine (with_tmpl_inv2 c xml_cur xml_setc (fun sh => samele z0 (xml_cur (fst sh)))
            (fun r : (lx + lx) * bool => samele z0 (sum_cur (fst r)) /\ (forall z', fst r = inr z' -> pk z' 0 = Some 0))
            (xml_body raw) _ _ fuel _ rh _ H).
  - intros s h1 z' HI _ Hk. cbn [fst] in *. unfold xml_setc, xml_cur in *. cbn [fst]. eapply samele_trans; [exact HI|]. exact (tmpl_skip_run _ _ _ Hk).
  - intros s h1 x HI _ Hx. cbn [fst] in *. pose proof (xml_fwd raw s x Hx) as Hf. destruct x as [s'|r]; cbn [fst].
    + eapply samele_trans; eauto.
    + split; [eapply samele_trans; eauto|]. intros z' ->.
      destruct s as [[[z it1] q1] sk1]. unfold xml_body in Hx. unfold pkr at 1 in Hx.
      destruct (pk z 0) as [c0|] eqn:Ep; cbn [opt_res rbind] in Hx; try discriminate.
      destruct (negb (sk1 =? 0) && negb (c0 =? 0)).
      { match type of Hx with rbind ?e _ = _ => destruct e as [a| |] end; cbn [rbind] in Hx; try discriminate.
        destruct a; [discriminate|].
        match type of Hx with rbind ?e _ = _ => destruct e as [b| |] end; cbn [rbind] in Hx; try discriminate.
        destruct b; discriminate. }
      destruct (negb (q1 =? 0) && negb (c0 =? 0)); [discriminate|].
      destruct (it1 && negb (c0 =? 0)); [discriminate|].
      destruct (c0 =? 60).
      { destruct (pkr z 1) as [c1| |]; cbn [rbind] in Hx; try discriminate.
        destruct (negb (c1 =? 47)).
        - destruct (at_ z [60; 33; 45; 45]) as [a1| |]; cbn [rbind] in Hx; try discriminate.
          destruct a1; [discriminate|].
          destruct (at_ z [60; 33; 91; 67; 68; 65; 84; 65; 91]) as [a2| |]; cbn [rbind] in Hx; try discriminate.
          destruct a2; [discriminate|]. destruct (c1 =? 63); discriminate.
        - destruct (letters_loop (mv z 2)) as [z2| |]; cbn [rbind] in Hx; try discriminate.
          destruct (hash_lexeme_from z2 (mark z + 2)) as [hh| |]; cbn [rbind] in Hx; try discriminate.
          destruct (hh =? raw); discriminate. }
      destruct (c0 =? 0) eqn:E0; [|discriminate]. injection Hx as <-. apply Z.eqb_eq in E0. subst c0. exact Ep.
  - cbn [fst]. unfold xml_cur. cbn [fst]. apply samele_refl.
Qed.

Lemma xml_close_post c fuel z0 h rh : loop fuel (with_tmpl_lx c xml_close_body) (z0, h) = Ok rh ->
  samele z0 (sum_cur (fst rh)) /\ (forall z', fst rh = inr z' -> pk z' 0 = Some 0) /\ (h = true -> snd rh = true).
Proof.
  intros H. unfold with_tmpl_lx in H.
  refine (with_tmpl_inv2 c (fun z : lx => z) (fun _ z' => z') (fun sh => samele z0 (fst sh) /\ (h = true -> snd sh = true))
            (fun r : (lx + lx) * bool => samele z0 (sum_cur (fst r)) /\ (forall z', fst r = inr z' -> pk z' 0 = Some 0) /\ (h = true -> snd r = true))
            xml_close_body _ _ fuel _ rh _ H).
  - intros s h1 z' [HI _] _ Hk. cbn [fst snd] in *. split; [|reflexivity]. eapply samele_trans; [exact HI|]. exact (tmpl_skip_run _ _ _ Hk).
  - intros s h1 x [HI Hh] _ Hx. cbn [fst snd] in *. pose proof (xml_close_fwd s x Hx) as Hf. destruct x as [s'|r]; cbn [fst snd].
    + split; [eapply samele_trans; eauto|exact Hh].
    + split; [eapply samele_trans; eauto|]. split; [|exact Hh]. intros z' ->.
      unfold xml_close_body in Hx. unfold pkr at 1 in Hx. destruct (pk s 0) as [c0|] eqn:Ep; cbn [opt_res rbind] in Hx; try discriminate.
      destruct (c0 =? 62); [discriminate|]. destruct (c0 =? 0) eqn:E0; [|discriminate]. injection Hx as <-. apply Z.eqb_eq in E0. subst c0. exact Ep.
  - cbn [fst snd]. split; [apply samele_refl|tauto].
Qed.

(* with no NUL byte in the rest of the input, a cursor that sees 0 is at the end *)
Lemma nul_is_end d l z' : binv d (lz l) -> samele (lz l) z' -> pk z' 0 = Some 0 ->
  (forall i, lpos (lz l) <= i < len d -> getz d i <> 0) -> at_end z' = true.
Proof.
  intros Hi [Hs Hle] Hp Hnul. pose proof Hi as (Hwl & Hlen & _).
  assert (Hp0 : 0 <= lpos (lz l)) by (destruct Hwl as (_ & ? & _); lia).
  pose proof (same_zat l z' Hs) as Ez. remember (lpos z') as a eqn:Ea. clear Ea. subst z'.
  unfold at_end. apply Z.leb_le. unfold zat at 1 2. cbn [lbuf lpos]. unfold lx_len in Hlen |- *. cbn [lbuf].
  destruct (Z.lt_ge_cases a (len d)) as [Hlt|Hge]; [exfalso|unfold lx_len in *; lia].
  destruct (bzat_wf d l a Hi ltac:(lia)) as [Hw Hrem].
  destruct (peekz_in d a ltac:(lia)) as (x & Hx & _).
  assert (Hpx : peekz (skipz a d) 0 = Some x) by (rewrite peekz_skipz by lia; rewrite Z.add_0_r; exact Hx).
  destruct (reads_peek (zat l a) _ 0 x (conj Hw Hrem) Hpx) as [Hpk _].
  rewrite Hpk in Hp. injection Hp as ->. apply (Hnul a ltac:(lia)). unfold getz. rewrite Hx. reflexivity.
Qed.

(* svg / math / xml: '<' + the element's name at the cursor, then content as shiftXML reads it up to a region *)
Lemma html_template_xml_proof : forall c d l n h p q, cfg_ok c -> tb c <> [] -> html_inv d l -> intag l = false -> rawtag l = 0 -> lerr l = false ->
  let a := lpos (lz l) in
  prefixb (tb c) (skipz a d) = false -> getz d a = 60 -> is_letter (getz d (a + 1)) = true -> a + 1 <= n <= len d ->
  (forall i, a + 1 <= i < n -> stag_plain c d i) -> stag_stop c d n ->
  to_hash (map lower (slice d (a + 1) n)) = Ok h -> is_xml_hash h = true ->
  (forall i, n <= i < len d -> getz d i <> 0) ->
  xml_reach c h d n true 0 0 p -> is_region c d p q ->
  n <= p /\ exists ty v l', next c l = Ok (ty, Some v, l') /\ lhas l' = true /\ so v = a /\ q <= so v + sn v.
Proof.
  intros c d l n h p q Hc Htb Hi Hit Hraw Herr a Hnp G0 G1 Han Hplain Hstop Hh Hx Hnul Hreach Hreg.
  pose proof Hi as (Hl & Hlen & Hsuf & _). pose proof (lwf_clean l Hl Hit) as Hcl. pose proof (inv_pos0 d l Hi) as H0.
  assert (R1 : 0 <= a + 1 < len d) by (apply (getz_nz_range d (a + 1) (getz d (a + 1)) eq_refl); intros E; rewrite E in G1; discriminate).
  destruct (html_total_step_proof c d l Hc Hi) as (ty & tk & l' & Hn & Hi'). pose proof Hn as Hn0.
  unfold next in Hn. cbn [lz rawtag intag lerr ltext lattr lhas] in Hn. rewrite Hit, Hraw in Hn. cbn [Z.eqb negb] in Hn.
  unfold next_content in Hn. cbn [lz rawtag intag lerr ltext lattr lhas] in Hn.
  rewrite (text_dispatch_c c d l (getz d (a + 1)) Hc Htb Hi Hcl G0 eq_refl ltac:(fold a; lia) Hnp ltac:(tauto)) in Hn.
  rewrite G1 in Hn. cbn [rbind] in Hn.
  replace (mv (lz l) 1) with (zat l (a + 1)) in Hn by (unfold zat, mv, a; reflexivity).
  unfold shift_starttag in Hn. cbn [lz rawtag intag lerr ltext lattr lhas] in Hn.
  rewrite (starttag_loop_c c d l (a + 1) n Hc Htb Hi ltac:(unfold a in *; lia) ltac:(lia) Hplain Hstop) in Hn. cbn [rbind] in Hn.
  destruct (zat_wf d l n Hi ltac:(unfold a in *; lia)) as [Hwn Hremn].
  rewrite lexeme_from_spec in Hn by (exact Hwn || (unfold zat; cbn [lpos lstart]; rewrite Hcl; fold a; lia)). cbn [rbind] in Hn.
  set (t := mkSl (a + 1) (n - a - 1)).
  replace (mkSl (lstart (zat l n) + 1) (lpos (zat l n) - lstart (zat l n) - 1)) with t in Hn
    by (unfold t, zat; cbn [lstart lpos]; rewrite Hcl; fold a; f_equal; lia).
  assert (Hbl : len (lbuf (lz l)) = len d + 1) by (unfold lx_len in Hlen; lia).
  assert (Hbytes : view_bytes (lbuf (lx_lower (zat l n) t)) t = map lower (slice d (a + 1) n)).
  { unfold lx_lower. cbn [lbuf]. unfold zat at 1. cbn [lbuf].
    rewrite view_bytes_lower_view by (unfold t; cbn [so sn]; lia). f_equal.
    unfold view_bytes, t. cbn [so sn]. replace (a + 1 + (n - a - 1)) with n by lia.
    apply slice_ext; [lia|lia|lia|]. intros i Hir. rewrite Hsuf by (fold a; lia). apply peekz_app_l. lia. }
  rewrite Hbytes, Hh in Hn. cbn [rbind] in Hn.
  assert (Hrw : is_raw_hash h = true).
  { unfold is_raw_hash, is_xml_hash in *. apply orb_true_iff in Hx. destruct Hx as [Hx|Hx]; [apply orb_true_iff in Hx; destruct Hx as [Hx|Hx]|];
      rewrite Hx; rewrite ?orb_true_r; reflexivity. }
  rewrite Hrw, Hx, Herr in Hn.
  set (z2 := lx_lower (zat l n) t) in *.
  destruct (shift_xml c h z2 false false) as [[[[dv z3] e] hx]| |] eqn:Ex; cbn [rbind] in Hn; try discriminate.
  (* the base lexer after the name *)
  set (l2 := mkL z2 0 false false None None false).
  assert (Hrd : reads z2 (skipz n d)).
  { apply reads_lower; [split; assumption|unfold t; cbn [so]; lia|unfold t; cbn [sn]; lia|unfold t, zat; cbn [so sn lpos]; lia]. }
  assert (Hb2 : binv d (lz l2)).
  { cbn [l2 lz]. destruct Hrd as [Hw2 Hr2]. split; [exact Hw2|]. split; [|exact Hr2].
    unfold z2. rewrite lx_lower_len; [unfold lx_len, zat in *; cbn [lbuf]; exact Hlen|exact Hwn|unfold t; cbn [so]; lia|unfold t; cbn [sn]; lia|].
    unfold t, lx_len, zat; cbn [so sn lbuf]. lia. }
  assert (Hz2 : z2 = zat l2 n) by reflexivity.
  assert (Hl2 : lpos (lz l2) = n) by reflexivity.
  assert (Hnul2 : forall i, lpos (lz l2) <= i < len d -> getz d i <> 0) by (rewrite Hl2; exact Hnul).
  assert (Hfin : e = false /\ hx = true /\ q <= lpos z3).
  { unfold shift_xml in Ex.
    destruct (loop (fuel_of z2) (with_tmpl c xml_cur xml_setc (xml_body h)) (z2, true, 0, 0, false)) as [rh| |] eqn:El; cbn [rbind] in Ex; try discriminate.
    rewrite Hz2 in El at 2.
    destruct (xreach_done c h d l2 p q _ n true 0 0 false rh Hc Htb Hb2 Hreg ltac:(rewrite Hl2; lia) Hreach El) as [Hh1 Hq1].
    destruct (xml_loop_post c h _ _ _ _ _ _ rh El) as [Hs1 Hn1]. rewrite <- Hz2 in Hs1.
    destruct rh as [[z'|z'] h1]; cbn [fst snd sum_cur] in *.
    - destruct (loop (fuel_of z') (with_tmpl_lx c xml_close_body) (z', h1)) as [rh2| |] eqn:El2; cbn [rbind] in Ex; try discriminate.
      destruct (xml_close_post c _ _ _ rh2 El2) as (Hs2 & Hn2 & Hh2).
      assert (Hs02 : samele (lz l2) (sum_cur (fst rh2))) by (eapply samele_trans; [exact Hs1|exact Hs2]).
      destruct rh2 as [[z''|z''] h2]; cbn [fst snd sum_cur] in *;
        (destruct (shiftv z'') as [s| |] eqn:Es; cbn [rbind] in Ex; try discriminate; injection Ex as <- <- <- <-;
         rewrite (shiftv_pos _ _ Es)).
      + split; [reflexivity|]. split; [apply Hh2; exact Hh1|]. destruct Hs2 as [_ Hs2]. lia.
      + rewrite (nul_is_end d l2 z'' Hb2 Hs02 (Hn2 z'' eq_refl) Hnul2). split; [reflexivity|]. split; [apply Hh2; exact Hh1|]. destruct Hs2 as [_ Hs2]. lia.
    - destruct (shiftv z') as [s| |] eqn:Es; cbn [rbind] in Ex; try discriminate. injection Ex as <- <- <- <-.
      rewrite (shiftv_pos _ _ Es). rewrite (nul_is_end d l2 z' Hb2 Hs1 (Hn1 z' eq_refl) Hnul2). split; [reflexivity|]. split; [exact Hh1|exact Hq1]. }
  destruct Hfin as (-> & -> & Hq3). injection Hn as <- <- <-.
  split; [exact (proj1 (xml_reach_le c h d l2 n true 0 0 p Hc Hb2 ltac:(rewrite Hl2; lia) Hreach))|].
  eexists _, _, _. split; [exact Hn0|]. cbn [lhas]. split; [reflexivity|].
  apply (finish_token c d l _ _ _ q Hc Hi Hn0); [destruct (h =? html_hash_Svg); [discriminate|destruct (h =? html_hash_Math); discriminate]|
                                                  destruct (h =? html_hash_Svg); [discriminate|destruct (h =? html_hash_Math); discriminate]|].
  cbn [lz]. exact Hq3.
Qed.

(* ---- both halves in one statement -------------------------------------------------------------------------------------- *)
(* The positions p at which the call Next(l) looks for an opening delimiter, by context (each constructor is the
   shape of the input between the cursor and p).  Not looked at: the letters jumped over after '<' or "</" in raw
   text, script "<!--" sections and svg / math content; the bytes of "<!--", "<![CDATA[", "<?" and of the terminators
   "-->", "]]>", "?>" that are moved over at once; the blank after "<!doctype"; whitespace, '=' and the closers '>'
   "/>" inside a tag; the first two bytes of "</", "<!", "<?" and the first letter of a tag name.  (Inside svg / math
   / xml content the lexer looks at every other position; that context is covered by the second half and by the
   witnesses, not by [looked].) *)
Inductive looked (c : cfg) (d : list Z) (l : lexer) (p : Z) : Prop :=
| lk_text : intag l = false -> rawtag l = 0 -> p = lpos (lz l) -> looked c d l p
| lk_attr_name a : tb_plain c -> intag l = true -> lstart (lz l) = lpos (lz l) -> lpos (lz l) <= a <= p ->
    (forall i, lpos (lz l) <= i < a -> is_ws (getz d i) = true) -> (forall i, a <= i < p -> name_plain c d i) -> looked c d l p
| lk_attr_value a b e v : tb_plain c -> intag l = true -> lstart (lz l) = lpos (lz l) -> lpos (lz l) <= a -> a < b -> b <= e -> e < v -> v <= p ->
    (forall i, lpos (lz l) <= i < a -> is_ws (getz d i) = true) -> (forall i, a <= i < b -> name_plain c d i) ->
    prefixb (tb c) (skipz b d) = false -> (forall i, b <= i < e -> is_ws (getz d i) = true) -> getz d e = 61 ->
    (forall i, e < i < v -> is_ws (getz d i) = true) ->
    (v = p \/ (prefixb (tb c) (skipz v d) = false /\ (getz d v = 34 \/ getz d v = 39) /\ forall i, v < i < p -> value_plain c d (getz d v) i)) ->
    looked c d l p
| lk_raw : intag l = false -> rawtag l <> 0 -> rawtag l <> html_hash_Plaintext -> raw_reach c (rawtag l) d (lpos (lz l)) p -> looked c d l p
| lk_comment : intag l = false -> rawtag l = 0 -> prefixb (tb c) (skipz (lpos (lz l)) d) = false ->
    prefixb [60; 33; 45; 45] (skipz (lpos (lz l)) d) = true -> lpos (lz l) + 4 <= p ->
    (forall i, lpos (lz l) + 4 <= i < p -> comment_plain c d i) -> looked c d l p
| lk_cdata : intag l = false -> rawtag l = 0 -> prefixb (tb c) (skipz (lpos (lz l)) d) = false ->
    prefixb [60; 33; 91; 67; 68; 65; 84; 65; 91] (skipz (lpos (lz l)) d) = true -> lpos (lz l) + 9 <= p ->
    (forall i, lpos (lz l) + 9 <= i < p -> cdata_plain c d i) -> looked c d l p
| lk_doctype : intag l = false -> rawtag l = 0 -> prefixb (tb c) (skipz (lpos (lz l)) d) = false ->
    getz d (lpos (lz l)) = 60 -> getz d (lpos (lz l) + 1) = 33 ->
    prefixb [45; 45] (skipz (lpos (lz l) + 2) d) = false -> prefixb [91; 67; 68; 65; 84; 65; 91] (skipz (lpos (lz l) + 2) d) = false ->
    cipre [100; 111; 99; 116; 121; 112; 101] (skipz (lpos (lz l) + 2) d) = true ->
    lpos (lz l) + 9 + (if getz d (lpos (lz l) + 9) =? 32 then 1 else 0) <= p ->
    (forall i, lpos (lz l) + 9 + (if getz d (lpos (lz l) + 9) =? 32 then 1 else 0) <= i < p -> gt_plain c d i) -> looked c d l p
| lk_bogus_bang : intag l = false -> rawtag l = 0 -> prefixb (tb c) (skipz (lpos (lz l)) d) = false ->
    getz d (lpos (lz l)) = 60 -> getz d (lpos (lz l) + 1) = 33 ->
    prefixb [45; 45] (skipz (lpos (lz l) + 2) d) = false -> prefixb [91; 67; 68; 65; 84; 65; 91] (skipz (lpos (lz l) + 2) d) = false ->
    cipre [100; 111; 99; 116; 121; 112; 101] (skipz (lpos (lz l) + 2) d) = false ->
    lpos (lz l) + 2 <= p -> (forall i, lpos (lz l) + 2 <= i < p -> gt_plain c d i) -> looked c d l p
| lk_bogus_q : intag l = false -> rawtag l = 0 -> prefixb (tb c) (skipz (lpos (lz l)) d) = false ->
    getz d (lpos (lz l)) = 60 -> getz d (lpos (lz l) + 1) = 63 -> lpos (lz l) + 1 <= p ->
    (forall i, lpos (lz l) + 1 <= i < p -> gt_plain c d i) -> looked c d l p
| lk_bogus_slash : intag l = false -> rawtag l = 0 -> prefixb (tb c) (skipz (lpos (lz l)) d) = false ->
    getz d (lpos (lz l)) = 60 -> getz d (lpos (lz l) + 1) = 47 -> lpos (lz l) + 2 < len d ->
    is_letter (getz d (lpos (lz l) + 2)) = false -> getz d (lpos (lz l) + 2) <> 62 -> lpos (lz l) + 2 <= p ->
    (forall i, lpos (lz l) + 2 <= i < p -> gt_plain c d i) -> looked c d l p
| lk_plaintext : intag l = false -> rawtag l = html_hash_Plaintext -> lpos (lz l) <= p ->
    (forall i, lpos (lz l) <= i < p -> prefixb (tb c) (skipz i d) = false) -> looked c d l p
| lk_endtag : intag l = false -> rawtag l = 0 -> prefixb (tb c) (skipz (lpos (lz l)) d) = false ->
    getz d (lpos (lz l)) = 60 -> getz d (lpos (lz l) + 1) = 47 -> is_letter (getz d (lpos (lz l) + 2)) = true -> lpos (lz l) + 2 <= p ->
    (forall i, lpos (lz l) + 2 <= i < p -> gt_plain c d i) -> looked c d l p
| lk_xml n h : intag l = false -> rawtag l = 0 -> lerr l = false -> prefixb (tb c) (skipz (lpos (lz l)) d) = false ->
    getz d (lpos (lz l)) = 60 -> is_letter (getz d (lpos (lz l) + 1)) = true -> lpos (lz l) + 1 <= n <= len d ->
    (forall i, lpos (lz l) + 1 <= i < n -> stag_plain c d i) -> stag_stop c d n ->
    to_hash (map lower (slice d (lpos (lz l) + 1) n)) = Ok h -> is_xml_hash h = true ->
    (forall i, n <= i < len d -> getz d i <> 0) -> xml_reach c h d n true 0 0 p -> looked c d l p.

Lemma html_template_exact_proof : forall c d l, cfg_ok c -> tb c <> [] -> html_inv d l ->
  (forall p q, looked c d l p -> is_region c d p q ->
     exists ty v l', next c l = Ok (ty, Some v, l') /\ lhas l' = true /\ so v <= p /\ q <= so v + sn v) /\
  (forall ty tk l', next c l = Ok (ty, tk, l') -> lhas l' = true ->
     exists p q, lpos (lz l) <= p /\ q <= lpos (lz l') /\ is_region c d p q).
Proof.
  intros c d l Hc Htb Hi. split; [|intros ty tk l'; exact (html_template_flag_sound_proof c d Hc Htb l ty tk l' Hi)].
  assert (Hpack : forall p ty, (exists v l', next c l = Ok (ty, Some v, l') /\ lhas l' = true /\ so v = lpos (lz l) /\ p <= so v + sn v) ->
            forall p0, lpos (lz l) <= p0 -> exists ty0 v l', next c l = Ok (ty0, Some v, l') /\ lhas l' = true /\ so v <= p0 /\ p <= so v + sn v).
  { intros p ty (v & l' & H1 & H2 & H3 & H4) p0 Hp0. exists ty, v, l'. split; [exact H1|]. split; [exact H2|]. split; [lia|exact H4]. }
  intros p q Hlk Hreg. destruct Hlk.
  - destruct (html_template_token_proof c d l p q Hc Hi H H0 H1 Hreg) as (l' & Hn & Hh & Hq).
    exists TemplateT, (mkSl p (q - p)), l'. split; [exact Hn|]. split; [exact Hh|]. cbn [so sn]. lia.
  - apply (Hpack q AttributeT); [|lia]. eapply html_template_attr_name_proof; eauto.
  - apply (Hpack q AttributeT); [|lia]. eapply (html_template_attr_value_proof c d l a b e v p q); eauto.
  - assert (Hle : lpos (lz l) <= p).
    { pose proof Hi as ((Hw & _) & Hlen & _). assert (lpos (lz l) <= lpos (lz l) <= len d) by (destruct Hw as (_ & ? & ?); lia).
      destruct (raw_reach_loop c (rawtag l) d l Hc Hi _ _ H2 H3) as [? _]. lia. }
    apply (Hpack q TextT); [|exact Hle]. eapply html_template_rawtext_reach_proof; eauto.
  - apply (Hpack q CommentT); [|lia]. eapply html_template_comment_proof; eauto.
  - apply (Hpack q TextT); [|lia]. eapply html_template_cdata_proof; eauto.
  - apply (Hpack q DoctypeT); [|destruct (getz d (lpos (lz l) + 9) =? 32); lia]. eapply html_template_doctype_proof; eauto.
  - apply (Hpack q CommentT); [|lia]. eapply html_template_bogus_bang_proof; eauto.
  - apply (Hpack q CommentT); [|lia]. eapply html_template_bogus_proof; eauto.
  - apply (Hpack q CommentT); [|lia]. eapply html_template_bogus_slash_proof; eauto.
  - apply (Hpack q TextT); [|lia]. eapply html_template_plaintext_proof; eauto.
  - apply (Hpack q EndTagT); [|lia]. eapply html_template_endtag_proof; eauto.
  - destruct (html_template_xml_proof c d l n h p q Hc Htb Hi H H0 H1 H2 H3 H4 H5 H6 H7 H8 H9 H10 H11 Hreg) as (Hle & ty & v & l' & Hn & Hh & Hs & Hq).
    exists ty, v, l'. split; [exact Hn|]. split; [exact Hh|]. split; [lia|exact Hq].
Qed.

(* ---- the former witnesses as instances: svg content --------------------------------------------------------------------- *)
Lemma getz_nz_all (d : list Z) : forallb (fun x => negb (x =? 0)) d = true -> forall i, 0 <= i < len d -> getz d i <> 0.
Proof.
  intros H i Hi. destruct (peekz_in d i Hi) as (x & Hx & Hin). unfold getz. rewrite Hx.
  rewrite forallb_forall in H. specialize (H x Hin). apply negb_true_iff, Z.eqb_neq in H. exact H.
Qed.

(* <svg>{{"</svg>"}}</svg> : position 5 is looked at (the '>' of the start tag is one step of shiftXML) *)
Example html_template_xml_looked :
  let d := [60;115;118;103;62;123;123;34;60;47;115;118;103;62;34;125;125;60;47;115;118;103;62] in
  looked go_tmpl d (new_lexer d) 5 /\ is_region go_tmpl d 5 17.
Proof.
  intros d. split; [|split; [lia|split; [discriminate|split; vm_compute; reflexivity]]].
  apply (lk_xml go_tmpl d (new_lexer d) 5 4 html_hash_Svg); try reflexivity.
  - cbn. lia.
  - intros i Hi. cbn in Hi. assert (Hc : i = 1 \/ i = 2 \/ i = 3) by lia.
    destruct Hc as [->|[->| ->]]; (split; [cbn; lia|]; split; [reflexivity|]; split; [reflexivity|]; split; vm_compute; intros E; discriminate).
  - right. split; [cbn; lia|]. right. right. left. reflexivity.
  - intros i Hi. apply getz_nz_all; [reflexivity|lia].
  - eapply (xr_step go_tmpl html_hash_Svg d 4 true 0 0 1 false 0 0 5); [reflexivity|reflexivity|apply xr_refl].
Qed.

(* statement form used by Props/C09.v (arguments in the order of the statement) *)
Lemma html_template_flag_sound_stmt : forall c d l ty tk l', cfg_ok c -> tb c <> [] -> html_inv d l ->
  next c l = Ok (ty, tk, l') -> lhas l' = true ->
  exists p q, lpos (lz l) <= p /\ q <= lpos (lz l') /\ is_region c d p q.
Proof. intros c d l ty tk l' Hc Htb. exact (html_template_flag_sound_proof c d Hc Htb l ty tk l'). Qed.
