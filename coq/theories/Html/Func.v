(* Html/Func.v — functional facts: what the scanning helpers compute, in terms of the bytes that are left.
   rem z = the data bytes from the cursor on (without the terminator). *)
From Verif Require Import Common.Base Common.Tactics Common.Lx Gen.Tables Html.Model Html.Lemmas Html.ListLemmas
     Html.Hash Html.Safety Html.Spec.
From Coq Require Import ZifyBool.

Definition rem (z : lx) : list Z := slice (lbuf z) (lpos z) (lx_len z).

Lemma mv_0 z : mv z 0 = z.
Proof. destruct z as [b p s]. unfold mv. cbn. f_equal. lia. Qed.

Lemma mv_mv z a b : mv (mv z a) b = mv z (a + b).
Proof. unfold mv. cbn [lbuf lpos lstart]. f_equal. lia. Qed.

Lemma len_rem z : lx_wf z -> len (rem z) = lx_len z - lpos z.
Proof.
  intros Hw. pose proof (lx_wf_len z Hw) as [Hl _]. destruct Hw as (_ & Hs & Hp).
  unfold rem. rewrite len_slice by lia. reflexivity.
Qed.

Lemma peekz_rem z i : lx_wf z -> 0 <= i < lx_len z - lpos z -> peekz (rem z) i = pk z i.
Proof.
  intros Hw Hi. destruct Hw as (_ & Hs & Hp). unfold rem, pk. rewrite peekz_slice by lia. reflexivity.
Qed.

Lemma rem_nil z : lx_wf z -> (rem z = [] <-> lpos z = lx_len z).
Proof.
  intros Hw. pose proof (len_rem z Hw) as Hl. pose proof Hw as (_ & Hs & Hp). split.
  - intros E. rewrite E, len_nil in Hl. lia.
  - intros E. destruct (rem z) as [|x t]; [reflexivity|]. rewrite len_cons in Hl. pose proof (len_nonneg t). lia.
Qed.

Lemma rem_cons z c t : lx_wf z -> rem z = c :: t ->
  pk z 0 = Some c /\ lpos z < lx_len z /\ rem (mv z 1) = t /\ lx_wf (mv z 1).
Proof.
  intros Hw E. pose proof (len_rem z Hw) as Hl. rewrite E, len_cons in Hl. pose proof (len_nonneg t).
  pose proof Hw as (_ & Hs & Hp).
  assert (Hm : adv z (mv z 1)) by (apply adv_mv; lia).
  split; [|split; [lia|split; [|eauto using adv_wf]]].
  - rewrite <- peekz_rem by (assumption || lia). rewrite E. apply peekz_cons_0.
  - apply peekz_ext. intros i.
    destruct (Z.lt_ge_cases i 0) as [Hn|Hn]; [rewrite !peekz_neg by lia; reflexivity|].
    assert (Hw1 : lx_wf (mv z 1)) by eauto using adv_wf.
    destruct (Z.lt_ge_cases i (len t)) as [Hlt|Hge].
    + rewrite peekz_rem by (assumption || (cbn [mv lbuf lpos]; unfold lx_len in *; cbn; lia)).
      rewrite pk_mv. rewrite <- peekz_rem by (assumption || lia). rewrite E.
      replace (1 + i) with (i + 1) by lia. rewrite peekz_cons_succ by lia. reflexivity.
    + assert (N1 : peekz (rem (mv z 1)) i = None).
      { apply peekz_none_iff. rewrite len_rem by exact Hw1. unfold lx_len in *. cbn [mv lbuf lpos]. lia. }
      assert (N2 : peekz t i = None) by (apply peekz_none_iff; lia).
      congruence.
Qed.

Lemma rem_nil_pk z : lx_wf z -> rem z = [] -> pk z 0 = Some 0 /\ at_end z = true.
Proof.
  intros Hw E. apply rem_nil in E; [|exact Hw]. split; [apply pk_at_terminator; assumption|].
  unfold at_end. apply Z.leb_le. lia.
Qed.

Lemma eof0_rem_cons z c t : lx_wf z -> rem z = c :: t -> eof0 z c = false.
Proof.
  intros Hw E. destruct (rem_cons z c t Hw E) as (_ & Hlt & _). unfold eof0, at_end.
  replace (lx_len z <=? lpos z) with false by (symmetry; apply Z.leb_gt; lia). apply andb_false_r.
Qed.

(* rem after moving n bytes *)
Lemma rem_mv z n : lx_wf z -> 0 <= n <= len (rem z) -> rem (mv z n) = skipz n (rem z) /\ lx_wf (mv z n).
Proof.
  intros Hw Hn. rewrite len_rem in Hn by exact Hw. pose proof Hw as (_ & Hs & Hp).
  assert (Hm : adv z (mv z n)) by (apply adv_mv; lia).
  assert (Hw1 : lx_wf (mv z n)) by eauto using adv_wf.
  split; [|exact Hw1]. apply peekz_ext. intros i.
  destruct (Z.lt_ge_cases i 0) as [Hneg|Hneg]; [rewrite !peekz_neg by lia; reflexivity|].
  rewrite peekz_skipz by lia.
  destruct (Z.lt_ge_cases (n + i) (lx_len z - lpos z)) as [Hlt|Hge].
  - rewrite !peekz_rem by (assumption || (unfold lx_len in *; cbn [mv lbuf lpos]; lia)). apply pk_mv.
  - assert (N1 : peekz (rem (mv z n)) i = None).
    { apply peekz_none_iff. rewrite len_rem by exact Hw1. unfold lx_len in *. cbn [mv lbuf lpos]. lia. }
    assert (N2 : peekz (rem z) (n + i) = None) by (apply peekz_none_iff; rewrite len_rem by exact Hw; lia).
    congruence.
Qed.

(* ---- l.at(b...) is "b is a prefix of what is left" (for NUL-free b) ---------------------------------------- *)
Lemma at_from_rem bs : nz_list bs -> forall z i, lx_wf z -> 0 <= i <= len (rem z) ->
  at_from z i bs = Ok (prefixb bs (skipz i (rem z))).
Proof.
  intros Hn. induction Hn as [|c t Hc Ht IH]; intros z i Hw Hi; cbn [at_from prefixb]; [reflexivity|].
  pose proof (len_rem z Hw) as Hl.
  destruct (Z.eq_dec i (len (rem z))) as [E|E].
  - (* at the terminator *)
    assert (Hp : pk z i = Some 0) by (rewrite <- (Z.add_0_r i), <- pk_mv; apply pk_at_terminator; [apply rem_mv; assumption|cbn; unfold lx_len in *; cbn; lia]).
    unfold pkr. rewrite Hp. cbn [opt_res rbind].
    replace (0 =? c) with false by (symmetry; apply Z.eqb_neq; congruence).
    replace (skipz i (rem z)) with (@nil Z); [reflexivity|].
    symmetry. unfold skipz. apply skipn_all2. unfold len in *. lia.
  - assert (Hlt : i < len (rem z)) by lia.
    destruct (peekz_in_range (rem z) i ltac:(lia)) as [x Hx].
    assert (Hp : pk z i = Some x) by (rewrite <- peekz_rem by (assumption || lia); exact Hx).
    unfold pkr. rewrite Hp. cbn [opt_res rbind].
    assert (Hsk : skipz i (rem z) = x :: skipz (i + 1) (rem z)).
    { apply peekz_ext. intros k. destruct (Z.lt_ge_cases k 0) as [Hk|Hk]; [rewrite !peekz_neg by lia; reflexivity|].
      destruct (Z.eq_dec k 0) as [->|Hk0].
      - rewrite peekz_skipz, peekz_cons_0 by lia. rewrite Z.add_0_r. exact Hx.
      - replace k with (k - 1 + 1) at 2 by lia. rewrite peekz_cons_succ by lia. rewrite !peekz_skipz by lia. f_equal. lia. }
    rewrite Hsk. destruct (x =? c) eqn:Exc.
    + apply Z.eqb_eq in Exc. subst x. rewrite Z.eqb_refl. cbn [andb]. apply IH; [exact Hw|lia].
    + rewrite Z.eqb_sym in Exc. rewrite Exc. reflexivity.
Qed.

Lemma at_rem z bs : nz_list bs -> lx_wf z -> at_ z bs = Ok (prefixb bs (rem z)).
Proof.
  intros Hn Hw. unfold at_. rewrite at_from_rem by (assumption || (pose proof (len_nonneg (rem z)); lia)).
  unfold skipz. reflexivity.
Qed.

Lemma prefixb_len p s : prefixb p s = true -> len p <= len s.
Proof.
  revert s. induction p as [|x p IH]; intros s H; [rewrite len_nil; apply len_nonneg|].
  destruct s as [|y s]; [discriminate|]. cbn [prefixb] in H. apply andb_true_iff in H. destruct H as [_ H].
  rewrite !len_cons. specialize (IH s H). lia.
Qed.

(* ---- moveTemplate computes region_len ---------------------------------------------------------------------- *)
Lemma mt_str_sim q : forall s z esc fuel, lx_wf z -> rem z = s -> (length s < fuel)%nat ->
  loop fuel (mt_str_body q) (z, esc) =
  Ok (match str_end q esc s with Some n => (mv z n, false) | None => (mv z (len s), true) end).
Proof.
  induction s as [|c t IH]; intros z esc fuel Hw Hr Hf; (destruct fuel as [|k]; [cbn in Hf; lia|]); cbn [loop str_end].
  - destruct (rem_nil_pk z Hw Hr) as [Hp He]. unfold mt_str_body, pkr. rewrite Hp. cbn [opt_res rbind].
    unfold eof0. rewrite He. cbn. rewrite mv_0. reflexivity.
  - destruct (rem_cons z c t Hw Hr) as (Hp & Hlt & Hr1 & Hw1).
    unfold mt_str_body at 1, pkr. rewrite Hp. cbn [opt_res rbind].
    rewrite (eof0_rem_cons z c t Hw Hr).
    destruct (negb esc && (c =? q)); [cbn [rbind]; reflexivity|].
    assert (Hk : (length t < k)%nat) by (cbn [length] in Hf; lia).
    destruct (c =? 92); cbn [rbind]; rewrite (IH (mv z 1) _ k Hw1 Hr1 Hk).
    + destruct (str_end q (negb esc) t) as [n|]; rewrite mv_mv; [reflexivity|]. rewrite len_cons. reflexivity.
    + destruct (str_end q false t) as [n|]; rewrite mv_mv; [reflexivity|]. rewrite len_cons. reflexivity.
Qed.

Lemma str_end_bound q esc s n : str_end q esc s = Some n -> 1 <= n <= len s.
Proof.
  revert esc n. induction s as [|c t IH]; intros esc n H; cbn [str_end] in H; [discriminate|].
  rewrite len_cons. pose proof (len_nonneg t).
  destruct (negb esc && (c =? q)); [assert (n = 1) by congruence; lia|].
  destruct (str_end q (if c =? 92 then negb esc else false) t) as [m|] eqn:E; [|discriminate].
  assert (Hn : n = 1 + m) by congruence. specialize (IH _ _ E). clear E H. lia.
Qed.

Lemma prefixb_app_nz te s : nz_list te -> prefixb te (s ++ [0]) = prefixb te s.
Proof.
  intros Hn. revert s. induction Hn as [|c t Hc Ht IH]; intros s; [reflexivity|].
  destruct s as [|y s]; cbn [app prefixb].
  - replace (c =? 0) with false by (symmetry; apply Z.eqb_neq; exact Hc). reflexivity.
  - rewrite IH. reflexivity.
Qed.

Lemma length_skipz_le {A} n (l : list A) : (length (skipz n l) <= length l)%nat.
Proof. unfold skipz. rewrite skipn_length. lia. Qed.

Lemma mt_sim c : nz_list (te c) -> forall k s z fuel, lx_wf z -> rem z = s -> (length s < fuel)%nat -> (length s <= k)%nat ->
  loop fuel (mt_body c) z = Ok (mv z (region_len k (te c) s)).
Proof.
  intros Hte. induction k as [|k IH]; intros s z fuel Hw Hr Hf Hk.
  - destruct s; [|cbn in Hk; lia]. destruct fuel as [|f]; [lia|]. cbn [loop region_len].
    destruct (rem_nil_pk z Hw Hr) as [Hp He]. unfold mt_body, pkr. rewrite Hp. cbn [opt_res rbind].
    unfold eof0. rewrite He. cbn. rewrite mv_0. reflexivity.
  - destruct fuel as [|f]; [lia|]. cbn [loop region_len].
    destruct s as [|c0 t].
    + destruct (rem_nil_pk z Hw Hr) as [Hp He]. unfold mt_body, pkr. rewrite Hp. cbn [opt_res rbind].
      unfold eof0. rewrite He. cbn. rewrite mv_0. reflexivity.
    + destruct (rem_cons z c0 t Hw Hr) as (Hp & Hlt & Hr1 & Hw1).
      unfold mt_body at 1, pkr. rewrite Hp. cbn [opt_res rbind].
      rewrite (eof0_rem_cons z c0 t Hw Hr).
      rewrite at_rem by assumption. rewrite Hr. cbn [rbind].
      destruct (prefixb (te c) (c0 :: t)) eqn:Epre; [cbn [rbind]; reflexivity|].
      cbn [length] in Hf, Hk.
      destruct ((c0 =? 34) || (c0 =? 39)).
      * rewrite (mt_str_sim c0 t (mv z 1) false (fuel_of z) Hw1 Hr1).
        2:{ unfold fuel_of. pose proof (len_rem z Hw) as Hl. rewrite Hr, len_cons in Hl. unfold lx_len, len in *. lia. }
        cbn [rbind]. destruct (str_end c0 false t) as [n|] eqn:Es; cbn [snd fst].
        -- pose proof (str_end_bound _ _ _ _ Es) as Hn.
           destruct (rem_mv (mv z 1) n Hw1) as [Hr2 Hw2]; [rewrite Hr1; lia|]. rewrite Hr1 in Hr2.
           cbn [rbind].
           rewrite (IH (skipz n t) (mv (mv z 1) n) f Hw2 Hr2).
           ++ rewrite !mv_mv. f_equal. f_equal. lia.
           ++ pose proof (length_skipz_le n t). lia.
           ++ pose proof (length_skipz_le n t). lia.
        -- cbn [rbind]. rewrite mv_mv. rewrite len_cons. reflexivity.
      * cbn [rbind]. rewrite (IH t (mv z 1) f Hw1 Hr1) by lia. rewrite mv_mv. reflexivity.
Qed.

Lemma move_template_region c z : cfg_ok c -> lx_wf z ->
  move_template c z = Ok (mv z (region_len (length (rem z)) (te c) (rem z))).
Proof.
  intros [_ Hte] Hw. unfold move_template. apply mt_sim; [exact Hte|exact Hw|reflexivity| |lia].
  unfold fuel_of. pose proof (len_rem z Hw) as Hl. unfold lx_len, len in *. lia.
Qed.

(* more fuel than bytes does not change region_len *)
Lemma region_len_fuel te : forall k k' s, (length s <= k)%nat -> (length s <= k')%nat -> region_len k te s = region_len k' te s.
Proof.
  induction k as [|k IH]; intros k' s Hk Hk'.
  - destruct s; [|cbn in Hk; lia]. destruct k'; reflexivity.
  - destruct k' as [|k']; [destruct s; [reflexivity|cbn in Hk'; lia]|].
    cbn [region_len]. destruct s as [|c t]; [reflexivity|]. cbn [length] in Hk, Hk'.
    destruct (prefixb te (c :: t)); [reflexivity|].
    destruct ((c =? 34) || (c =? 39)).
    + destruct (str_end c false t) as [n|]; [|reflexivity]. pose proof (length_skipz_le n t).
      f_equal. apply IH; lia.
    + f_equal. apply IH; lia.
Qed.

Lemma region_len_bound te : forall k s, 0 <= region_len k te s <= len s.
Proof.
  induction k as [|k IH]; intros s; cbn [region_len]; [pose proof (len_nonneg s); lia|].
  destruct s as [|c t]; [change (len (@nil Z)) with 0; lia|].
  destruct (prefixb te (c :: t)) eqn:Ep; [apply prefixb_len in Ep; pose proof (len_nonneg te); lia|].
  rewrite len_cons. pose proof (len_nonneg t).
  destruct ((c =? 34) || (c =? 39)).
  - destruct (str_end c false t) as [n|] eqn:E; [|lia].
    pose proof (str_end_bound _ _ _ _ E). specialize (IH (skipz n t)).
    assert (len (skipz n t) = len t - n) by (apply len_skipz; lia). lia.
  - specialize (IH t). lia.
Qed.
