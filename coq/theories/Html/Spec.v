(* Html/Spec.v — declarative notions used in the statements about the HTML lexer: template regions,
   raw-text end.  Definitions only; pure functions of the input bytes (no cursor, no lexer state). *)
From Verif Require Import Common.Base Common.Lx Html.Model.

(* a quoted string inside a template region, after its opening quote q: number of bytes up to and including the
   closing quote (a quote preceded by an odd number of backslashes does not close); None = unterminated *)
Fixpoint str_end (q : Z) (esc : bool) (s : list Z) : option Z :=
  match s with
  | [] => None
  | c :: t =>
      if negb esc && (c =? q) then Some 1
      else match str_end q (if c =? 92 then negb esc else false) t with
           | Some n => Some (1 + n)
           | None => None
           end
  end.

(* length of a template region after its opening delimiter: up to and including the first closing delimiter te
   that is not inside a quoted string, or everything that is left *)
Fixpoint region_len (fuel : nat) (te s : list Z) : Z :=
  match fuel with
  | O => 0
  | S k =>
      match s with
      | [] => 0
      | c :: t =>
          if prefixb te s then len te
          else if (c =? 34) || (c =? 39) then
                 match str_end c false t with
                 | Some n => 1 + n + region_len k te (skipz n t)
                 | None => len s
                 end
               else 1 + region_len k te t
      end
  end.

(* [p, q) is a delimited region of d for the pair (tb, te) *)
Definition is_region (c : cfg) (d : list Z) (p q : Z) : Prop :=
  0 <= p /\ tb c <> [] /\ prefixb (tb c) (skipz p d) = true /\
  q = p + len (tb c) + region_len (length d) (te c) (skipz (p + len (tb c)) d).
