(* Html/TemplateMore.v — template regions in raw text beyond the first byte of the content, and the converse
   (HasTemplate() = true only if a region lies inside the token). *)
From Verif Require Import Common.Base Common.Tactics Common.Lx Gen.Tables Html.Model Html.Lemmas Html.ListLemmas
     Html.Hash Html.Safety Html.Step Html.Spec Html.RawText Html.Func Html.Proofs Html.Template Html.Wf Html.Script.
From Coq Require Import ZifyBool.

(* ---- cursors at a position of the input ----------------------------------------------------------------------------- *)
Definition zat (l : lexer) (a : Z) : lx := mkLx (lbuf (lz l)) a (lstart (lz l)).

Lemma zat_here l : zat l (lpos (lz l)) = lz l.
Proof. unfold zat. destruct (lz l); reflexivity. Qed.

Lemma same_zat l s : same (lz l) s -> s = zat l (lpos s).
Proof. intros [Hb Hs]. unfold zat. destruct s as [b p st]. cbn in *. subst. reflexivity. Qed.

Lemma inv_pos0 d l : html_inv d l -> 0 <= lpos (lz l).
Proof. intros ((Hw & _) & _). destruct Hw as (_ & ? & _). lia. Qed.

Lemma zat_wf d l a : html_inv d l -> lpos (lz l) <= a <= len d -> lx_wf (zat l a) /\ rem (zat l a) = skipz a d.
Proof.
  intros Hi Ha. pose proof Hi as ((Hw & _) & Hlen & _).
  assert (E : zat l a = mv (lz l) (a - lpos (lz l))) by (unfold zat, mv; f_equal; lia).
  destruct (rem_mv (lz l) (a - lpos (lz l)) Hw) as [Hr Hw']; [rewrite len_rem by exact Hw; lia|].
  rewrite E. split; [exact Hw'|]. rewrite Hr, (rem_inv d l Hi).
  assert (0 <= lpos (lz l)) by (destruct Hw as (_ & ? & _); lia).
  rewrite skipz_skipz by lia. f_equal. lia.
Qed.

Lemma getz_app0 (d : list Z) j : j <= len d -> getz (d ++ [0]) j = getz d j.
Proof.
  intros Hj. destruct (Z.lt_ge_cases j 0) as [Hn|Hn]; [unfold getz; rewrite !peekz_neg by lia; reflexivity|].
  destruct (Z.eq_dec j (len d)) as [->|Hne]; [|apply getz_app_l; lia].
  unfold getz. rewrite peekz_app_r by lia. replace (len d - len d) with 0 by lia.
  rewrite (proj2 (peekz_none_iff d (len d))) by lia. reflexivity.
Qed.

Lemma zat_pkr d l a i : html_inv d l -> lpos (lz l) <= a -> 0 <= i -> a + i <= len d -> pkr (zat l a) i = Ok (getz d (a + i)).
Proof.
  intros ((Hw & _) & _ & Hsuf & _) Ha Hi Hle. unfold pkr, pk, zat. cbn [lbuf lpos]. rewrite Hsuf by lia.
  assert (0 <= lpos (lz l)) by (destruct Hw as (_ & ? & _); lia).
  rewrite <- getz_app0 by lia. unfold getz.
  destruct (peekz_in_range (d ++ [0]) (a + i)) as [c ->]; [|reflexivity].
  rewrite len_app. change (len [0]) with 1. lia.
Qed.

(* the region that starts at a cursor is the declarative one *)
Lemma region_here c d l a : html_inv d l -> lpos (lz l) <= a <= len d -> tb c <> [] ->
  prefixb (tb c) (skipz a d) = true -> is_region c d a (region_end_here c (zat l a)).
Proof.
  intros Hi Ha Htb Hpre. destruct (zat_wf d l a Hi Ha) as [Hw Hrem].
  pose proof Hi as ((Hwl & _) & _). assert (0 <= lpos (lz l)) by (destruct Hwl as (_ & ? & _); lia).
  split; [lia|]. split; [exact Htb|]. split; [exact Hpre|].
  unfold region_end_here. rewrite Hrem. cbn [zat lpos].
  rewrite (region_len_fuel (te c) (length (skipz a d)) (length d)).
  2: apply length_skipz_le'.
  2: { eapply Nat.le_trans; [apply length_skipz_le'|apply length_skipz_le']. }
  rewrite skipz_skipz by (pose proof (len_nonneg (tb c)); lia). reflexivity.
Qed.

(* what the template lemmas need of a cursor: it is well-formed and reads the rest of the input (the buffer before the
   cursor may have been lower-cased) *)
Definition binv (d : list Z) (z : lx) : Prop := lx_wf z /\ lx_len z = len d /\ rem z = skipz (lpos z) d.

Lemma binv_of_inv d l : html_inv d l -> binv d (lz l).
Proof. intros Hi. pose proof Hi as ((Hw & _) & Hlen & _). split; [exact Hw|]. split; [exact Hlen|apply rem_inv; exact Hi]. Qed.

Lemma bzat_wf d l a : binv d (lz l) -> lpos (lz l) <= a <= len d -> lx_wf (zat l a) /\ rem (zat l a) = skipz a d.
Proof.
  intros (Hw & Hlen & Hrem0) Ha.
  assert (E : zat l a = mv (lz l) (a - lpos (lz l))) by (unfold zat, mv; f_equal; lia).
  destruct (rem_mv (lz l) (a - lpos (lz l)) Hw) as [Hr Hw']; [rewrite len_rem by exact Hw; lia|].
  rewrite E. split; [exact Hw'|]. rewrite Hr, Hrem0.
  assert (0 <= lpos (lz l)) by (destruct Hw as (_ & ? & _); lia).
  rewrite skipz_skipz by lia. f_equal. lia.
Qed.

Lemma bregion_here c d l a : binv d (lz l) -> lpos (lz l) <= a <= len d -> tb c <> [] ->
  prefixb (tb c) (skipz a d) = true -> is_region c d a (region_end_here c (zat l a)).
Proof.
  intros Hi Ha Htb Hpre. destruct (bzat_wf d l a Hi Ha) as [Hw Hrem].
  pose proof Hi as (Hwl & _). assert (0 <= lpos (lz l)) by (destruct Hwl as (_ & ? & _); lia).
  split; [lia|]. split; [exact Htb|]. split; [exact Hpre|].
  unfold region_end_here. rewrite Hrem. cbn [zat lpos].
  rewrite (region_len_fuel (te c) (length (skipz a d)) (length d)).
  2: apply length_skipz_le'.
  2: { eapply Nat.le_trans; [apply length_skipz_le'|apply length_skipz_le']. }
  rewrite skipz_skipz by (pose proof (len_nonneg (tb c)); lia). reflexivity.
Qed.

Lemma is_region_fun c d p q q' : is_region c d p q -> is_region c d p q' -> q = q'.
Proof. intros (_ & _ & _ & ->) (_ & _ & _ & ->). reflexivity. Qed.

Lemma is_region_in c d p q : is_region c d p q -> p + len (tb c) <= len d /\ p < q.
Proof.
  intros (Hp & Htb & Hpre & ->). destruct (tb c) as [|x t] eqn:Etb; [congruence|].
  pose proof (prefixb_len _ _ Hpre) as Hl. rewrite len_cons in *. pose proof (len_nonneg t).
  pose proof (region_len_bound (te c) (length d) (skipz (p + (1 + len t)) d)).
  split; [|lia].
  destruct (Z.le_gt_cases p (len d)) as [Hle|Hgt]; [rewrite len_skipz in Hl by lia; lia|].
  exfalso. apply prefixb_head in Hpre. destruct Hpre as [s' Es].
  assert (E0 : skipz p d = []) by (unfold skipz; apply skipn_all2; unfold len in *; lia). congruence.
Qed.

(* ---- one iteration of the raw-text loop at a position --------------------------------------------------------------- *)
(* a byte the scanner steps over: not a delimiter start, and if it is '<' then not "</" and (in script) not "<!" *)
Definition raw_plain (c : cfg) (raw : Z) (d : list Z) (a : Z) : Prop :=
  0 <= a < len d /\ prefixb (tb c) (skipz a d) = false /\
  (getz d a <> 60 \/
   (getz d a = 60 /\ getz d (a + 1) <> 47 /\
    (raw <> html_hash_Script \/ getz d (a + 1) <> 33 \/ getz d (a + 2) <> 45 \/ getz d (a + 3) <> 45))).

(* "</" + letters at a is the end tag of the element: the letters hash to raw and whitespace, '/', '>' or the end of input follows *)
Definition end_tag_here_b (raw : Z) (d : list Z) (a : Z) : bool :=
  let ls := letter_run (skipz (a + 2) d) in
  match to_hash (map lower ls) with
  | Ok h => (h =? raw) && follows_end (skipz (len ls) (skipz (a + 2) d))
  | _ => false
  end.

(* p is reached from a over plain bytes, whole regions, "</" + letters that is not the element's end tag (the scanner
   jumps over the letters: a delimiter that starts inside them is not seen).  ("<!--" sections of a script: see the
   general theorem html_template_never_split, which covers every position at which the lexer looks.) *)
Inductive raw_reach (c : cfg) (raw : Z) (d : list Z) : Z -> Z -> Prop :=
| rr_refl a : raw_reach c raw d a a
| rr_byte a p : raw_plain c raw d a -> raw_reach c raw d (a + 1) p -> raw_reach c raw d a p
| rr_region a q p : is_region c d a q -> raw_reach c raw d q p -> raw_reach c raw d a p
| rr_endtag a p : prefixb (tb c) (skipz a d) = false -> getz d a = 60 -> getz d (a + 1) = 47 -> end_tag_here_b raw d a = false ->
    raw_reach c raw d (a + 2 + len (letter_run (skipz (a + 2) d))) p -> raw_reach c raw d a p.

Lemma getz_nz_range (d : list Z) a x : getz d a = x -> x <> 0 -> 0 <= a < len d.
Proof.
  intros H Hx. unfold getz in H. destruct (peekz d a) eqn:E; [apply peekz_some in E; exact E|congruence].
Qed.

Lemma at_end_zat d l a : html_inv d l -> a < len d -> at_end (zat l a) = false.
Proof. intros (_ & Hlen & _) Ha. unfold at_end, zat, lx_len in *. cbn [lbuf lpos]. apply Z.leb_gt. lia. Qed.

(* l.skipTemplate() at a position of the input *)
Lemma skip_zat_none c d l a : cfg_ok c -> html_inv d l -> lpos (lz l) <= a <= len d ->
  prefixb (tb c) (skipz a d) = false -> skip_tmpl c (zat l a) = Ok None.
Proof.
  intros Hc Hi Ha Hpre. destruct (zat_wf d l a Hi Ha) as [Hw Hrem].
  unfold skip_tmpl, tmpl_at. destruct (has_delims c); [|reflexivity].
  rewrite at_rem by (apply Hc || exact Hw). rewrite Hrem, Hpre. reflexivity.
Qed.

Lemma raw_step_plain c raw d l a h : cfg_ok c -> html_inv d l ->
  lpos (lz l) <= a -> raw_plain c raw d a ->
  rawtext_body c raw (zat l a, h) = Ok (Cont (zat l (a + 1), h)).
Proof.
  intros Hc Hi Ha ((Ha0 & Ha1) & Hpre & Hcase).
  destruct (zat_wf d l a Hi ltac:(lia)) as [Hw Hrem].
  unfold rawtext_body. rewrite (zat_pkr d l a 0 Hi) by lia. rewrite Z.add_0_r. cbn [rbind].
  rewrite (skip_zat_none c d l a Hc Hi ltac:(lia) Hpre). cbn [rbind].
  destruct Hcase as [H60|(H60 & H47 & Hsc)].
  - replace (getz d a =? 60) with false by (symmetry; apply Z.eqb_neq; exact H60).
    unfold eof0. rewrite (at_end_zat d l a Hi Ha1), andb_false_r. reflexivity.
  - rewrite H60. cbn [Z.eqb Pos.eqb]. rewrite (zat_pkr d l a 1 Hi) by lia. cbn [rbind].
    replace (getz d (a + 1) =? 47) with false by (symmetry; apply Z.eqb_neq; exact H47).
    assert (Hscv : (if (raw =? html_hash_Script) && (getz d (a + 1) =? 33)
                    then c2 <-- pkr (zat l a) 2;; (if c2 =? 45 then c3 <-- pkr (zat l a) 3;; Ok (c3 =? 45) else Ok false)
                    else Ok false) = Ok false).
    { destruct ((raw =? html_hash_Script) && (getz d (a + 1) =? 33)) eqn:E; [|reflexivity]. b2p.
      pose proof (getz_nz_range d (a + 1) 33 ltac:(assumption) ltac:(lia)) as R1.
      rewrite (zat_pkr d l a 2 Hi) by lia. cbn [rbind].
      destruct (getz d (a + 2) =? 45) eqn:E2; [|reflexivity]. b2p.
      pose proof (getz_nz_range d (a + 2) 45 ltac:(assumption) ltac:(lia)) as R2.
      rewrite (zat_pkr d l a 3 Hi) by lia. cbn [rbind]. do 2 f_equal. apply Z.eqb_neq.
      destruct Hsc as [?|[?|[?|?]]]; congruence. }
    rewrite Hscv. cbn [rbind]. reflexivity.
Qed.

(* the delimiter and the region at position p of the input, as the cursor sees them *)
Lemma tmpl_here c d l p q : cfg_ok c -> html_inv d l -> lpos (lz l) <= p -> is_region c d p q ->
  at_ (zat l p) (tb c) = Ok true /\ tmpl_skip c (zat l p) = Ok (zat l q) /\ p < q <= len d.
Proof.
  intros Hc Hi Ha Hreg. destruct (is_region_in _ _ _ _ Hreg) as [Hin Hlt]. pose proof (inv_pos0 d l Hi) as Hp0.
  pose proof Hreg as (_ & Htb & Hpre & _).
  assert (Hlt0 : 0 < len (tb c)) by (destruct (tb c) as [|x t]; [congruence|rewrite len_cons; pose proof (len_nonneg t); lia]).
  destruct (zat_wf d l p Hi ltac:(lia)) as [Hw Hrem].
  assert (Hpre' : prefixb (tb c) (rem (zat l p)) = true) by (rewrite Hrem; exact Hpre).
  destruct (tmpl_skip_here c (zat l p) Hc Hw Hpre') as [Hsk Hle].
  assert (Eq : region_end_here c (zat l p) = q).
  { eapply is_region_fun; [|exact Hreg]. apply region_here; [exact Hi|lia|exact Htb|exact Hpre]. }
  rewrite Eq in *. pose proof Hi as (_ & Hlen & _).
  split; [rewrite at_rem by (apply Hc || exact Hw); rewrite Hpre'; reflexivity|].
  split; [exact Hsk|unfold lx_len, zat in *; cbn [lbuf] in *; lia].
Qed.

Lemma skip_zat_here c d l p q : cfg_ok c -> html_inv d l -> lpos (lz l) <= p -> is_region c d p q ->
  skip_tmpl c (zat l p) = Ok (Some (zat l q)) /\ p < q <= len d.
Proof.
  intros Hc Hi Ha Hreg. destruct (tmpl_here c d l p q Hc Hi Ha Hreg) as (Hat & Hsk & Hq). split; [|exact Hq].
  unfold skip_tmpl, tmpl_at. replace (has_delims c) with true by (destruct Hreg as (_ & Htb & _); unfold has_delims; destruct (tb c); congruence).
  rewrite Hat. cbn [rbind]. rewrite Hsk. reflexivity.
Qed.

Lemma raw_step_region c raw d l a q h : cfg_ok c -> html_inv d l ->
  lpos (lz l) <= a -> is_region c d a q ->
  rawtext_body c raw (zat l a, h) = Ok (Cont (zat l q, true)) /\ a < q <= len d.
Proof.
  intros Hc Hi Ha Hreg. destruct (skip_zat_here c d l a q Hc Hi Ha Hreg) as [Hsk Hq]. split; [|exact Hq].
  destruct (is_region_in _ _ _ _ Hreg) as [Hin _]. pose proof (inv_pos0 d l Hi) as Hp0.
  assert (Hlt0 : 0 < len (tb c)) by (destruct Hreg as (_ & Htb & _); destruct (tb c) as [|x t]; [congruence|rewrite len_cons; pose proof (len_nonneg t); lia]).
  unfold rawtext_body. rewrite (zat_pkr d l a 0 Hi) by lia. cbn [rbind]. rewrite Hsk. reflexivity.
Qed.

Lemma raw_step_endtag c raw d l a h : cfg_ok c -> html_inv d l -> lpos (lz l) <= a ->
  prefixb (tb c) (skipz a d) = false ->
  getz d a = 60 -> getz d (a + 1) = 47 -> end_tag_here_b raw d a = false ->
  rawtext_body c raw (zat l a, h) = Ok (Cont (zat l (a + 2 + len (letter_run (skipz (a + 2) d))), h)) /\
  a < a + 2 + len (letter_run (skipz (a + 2) d)) <= len d.
Proof.
  intros Hc Hi Ha Hnp H60 H47 Hnot. pose proof (inv_pos0 d l Hi) as Hp0.
  pose proof (getz_nz_range d a 60 H60 ltac:(lia)) as Ra. pose proof (getz_nz_range d (a + 1) 47 H47 ltac:(lia)) as Ra1.
  destruct (zat_wf d l a Hi ltac:(lia)) as [Hw Hrem]. assert (Hr : reads (zat l a) (skipz a d)) by (split; assumption).
  assert (Hls : len (skipz a d) = len d - a) by (apply len_skipz; lia).
  destruct (letters_hash (zat l a) 2 (mark (zat l a) + 2) (skipz a d) Hr ltac:(lia) eq_refl) as (Hll & Hh & Hr2 & Hle).
  rewrite skipz_skipz in Hll, Hh, Hr2, Hle by lia.
  set (ls := letter_run (skipz (a + 2) d)) in *. pose proof (len_nonneg ls) as Hl0.
  split; [|lia].
  unfold rawtext_body. rewrite (zat_pkr d l a 0 Hi) by lia. rewrite Z.add_0_r, H60. cbn [rbind].
  rewrite (skip_zat_none c d l a Hc Hi ltac:(lia) Hnp). cbn [rbind Z.eqb Pos.eqb].
  rewrite (zat_pkr d l a 1 Hi) by lia. rewrite H47. cbn [rbind Z.eqb Pos.eqb].
  rewrite Hll. cbn [rbind]. rewrite Hh.
  unfold end_tag_here_b in Hnot. fold ls in Hnot.
  destruct (to_hash_ok (map lower ls)) as [hh Ehh]. rewrite Ehh in *. cbn [rbind].
  replace (mv (zat l a) (2 + len ls)) with (zat l (a + 2 + len ls)) in * by (unfold zat, mv; cbn [lbuf lpos lstart]; f_equal; lia).
  destruct (hh =? raw) eqn:Er; [|reflexivity]. cbn [andb] in Hnot.
  destruct (reads_follow _ _ Hr2) as (cz & Hcz & Hfol). rewrite Hcz. cbn [rbind]. rewrite Hfol, Hnot. reflexivity.
Qed.


Lemma loop_step {S R} (body : S -> res (lp S R)) fuel s s' r :
  body s = Ok (Cont s') -> loop fuel body s' = Ok r -> loop (Datatypes.S fuel) body s = Ok r.
Proof. intros Hb Hl. cbn [loop]. rewrite Hb. exact Hl. Qed.

Lemma zat_loop_step {F R} (body : lx * F -> res (lp (lx * F) R)) d l a a' (h h' : F) r : html_inv d l ->
  lpos (lz l) <= a -> a < a' <= len d ->
  body (zat l a, h) = Ok (Cont (zat l a', h')) -> loop (fuel_of (zat l a')) body (zat l a', h') = Ok r ->
  loop (fuel_of (zat l a)) body (zat l a, h) = Ok r.
Proof.
  intros Hi Ha Ha' Hb Hl. pose proof Hi as ((Hw & _) & Hlen & _). pose proof (lx_wf_len _ Hw) as [Hbl _].
  unfold fuel_of at 1. eapply loop_step; [exact Hb|]. eapply loop_fuel_mono; [exact Hl|].
  unfold fuel_of, zat. cbn [lbuf lpos]. lia.
Qed.

Lemma raw_reach_loop c raw d l : cfg_ok c -> html_inv d l ->
  forall a p, raw_reach c raw d a p -> lpos (lz l) <= a <= len d ->
  a <= p <= len d /\
  forall h, exists h', (h = true -> h' = true) /\
    forall r, loop (fuel_of (zat l p)) (rawtext_body c raw) (zat l p, h') = Ok r ->
              loop (fuel_of (zat l a)) (rawtext_body c raw) (zat l a, h) = Ok r.
Proof.
  intros Hc Hi a p Hr. induction Hr as [a|a p Hpl Hr IH|a q p Hreg Hr IH|a p Hnp E60 E47 Hnot Hr IH]; intros Ha.
  - split; [lia|]. intros h. exists h. split; [tauto|]. intros r Hl. exact Hl.
  - pose proof Hpl as ((_ & Ha1) & _). destruct (IH ltac:(lia)) as [Hp IH'].
    split; [lia|]. intros h. destruct (IH' h) as (h' & Hh & Hl). exists h'. split; [exact Hh|].
    intros r Hlr. eapply (zat_loop_step _ d l a (a + 1)); [exact Hi|lia|lia| |apply Hl; exact Hlr].
    apply (raw_step_plain c raw d l a h); assumption || lia.
  - destruct (raw_step_region c raw d l a q true Hc Hi ltac:(lia) Hreg) as [_ Hq].
    destruct (IH ltac:(lia)) as [Hp IH'].
    split; [lia|]. intros h. destruct (IH' true) as (h' & Hh & Hl). exists h'. split; [intros _; apply Hh; reflexivity|].
    intros r Hlr. destruct (raw_step_region c raw d l a q h Hc Hi ltac:(lia) Hreg) as [Hb _].
    eapply (zat_loop_step _ d l a q); [exact Hi|lia|lia|exact Hb|apply Hl; exact Hlr].
  - destruct (raw_step_endtag c raw d l a true Hc Hi ltac:(lia) Hnp E60 E47 Hnot) as [_ Hq].
    destruct (IH ltac:(lia)) as [Hp IH'].
    split; [lia|]. intros h. destruct (IH' h) as (h' & Hh & Hl). exists h'. split; [exact Hh|].
    intros r Hlr. destruct (raw_step_endtag c raw d l a h Hc Hi ltac:(lia) Hnp E60 E47 Hnot) as [Hb _].
    eapply (zat_loop_step _ d l a _); [exact Hi|lia|exact Hq|exact Hb|apply Hl; exact Hlr].
Qed.

(* ---- (v') a region reached over plain bytes and earlier regions lies inside the Text token ------------------------ *)
Lemma html_template_rawtext_reach_proof : forall c d l p q, cfg_ok c -> html_inv d l -> intag l = false ->
  rawtag l <> 0 -> rawtag l <> html_hash_Plaintext ->
  raw_reach c (rawtag l) d (lpos (lz l)) p -> is_region c d p q ->
  exists v l', next c l = Ok (TextT, Some v, l') /\ lhas l' = true /\ so v = lpos (lz l) /\ q <= so v + sn v.
Proof.
  intros c d l p q Hc Hi Hit Hraw Hnpl Hreach Hreg.
  pose proof Hi as (Hl & Hlen & Hsuf & _). pose proof Hl as [Hw _].
  pose proof (lwf_clean l Hl Hit) as Hcl.
  assert (Hpos : lpos (lz l) <= lpos (lz l) <= len d) by (destruct Hw as (_ & ? & ?); lia).
  destruct (raw_reach_loop c (rawtag l) d l Hc Hi _ _ Hreach Hpos) as [Hp Hloop].
  destruct (Hloop false) as (h' & _ & Hl1).
  destruct (raw_step_region c (rawtag l) d l p q h' Hc Hi ltac:(lia) Hreg) as [Hb Hq].
  destruct (zat_wf d l q Hi ltac:(lia)) as [Hwq _].
  destruct (safe_inv _ _ (rawtext_loop_spec c (rawtag l) (zat l q) true Hc Hwq)) as (r & Er & Har).
  pose proof (rawtext_loop_has _ _ _ _ _ Er eq_refl) as Hhas.
  assert (Hl2 : loop (fuel_of (lz l)) (rawtext_body c (rawtag l)) (lz l, false) = Ok r).
  { rewrite <- (zat_here l). apply Hl1. eapply (zat_loop_step _ d l p q); [exact Hi|lia|lia|exact Hb|exact Er]. }
  unfold next. cbn [lz rawtag intag lerr ltext lattr lhas]. rewrite Hit.
  replace (negb (rawtag l =? 0)) with true by (symmetry; apply negb_true_iff, Z.eqb_neq; exact Hraw).
  unfold shift_rawtext. replace (rawtag l =? html_hash_Plaintext) with false by (symmetry; apply Z.eqb_neq; exact Hnpl).
  rewrite Hl2. cbn [rbind].
  pose proof Har as (A1 & A2 & A3). cbn [zat lbuf lstart lpos] in A1, A2, A3.
  assert (Hwr : lx_wf (fst r)) by eauto using adv_wf.
  rewrite shiftv_spec by exact Hwr. cbn [rbind fst snd sn].
  replace (0 <? lpos (fst r) - lstart (fst r)) with true by (symmetry; apply Z.ltb_lt; lia).
  eexists. eexists. split; [reflexivity|]. cbn [lhas so sn]. split; [exact Hhas|]. split; lia.
Qed.

(* ---- (v'') the converse: HasTemplate() = true on the raw-text token only if a region lies inside it --------------- *)
(* skipping a template at a cursor s at or after the call's cursor: the region is a declarative one *)
Lemma tmpl_region_step c d l : cfg_ok c -> tb c <> [] -> html_inv d l -> forall s z' (h : bool),
  samele (lz l) s -> tmpl_at c s = Ok true -> tmpl_skip c s = Ok z' ->
  samele (lz l) z' /\ (true = true -> exists p q, lpos (lz l) <= p /\ q <= lpos z' /\ is_region c d p q).
Proof.
  intros Hc Htb Hi s z' h [Hsm Hle] Hat Hsk. pose proof Hi as ((Hw & _) & Hlen & _). pose proof (inv_pos0 d l Hi) as H0.
  unfold tmpl_at in Hat. replace (has_delims c) with true in Hat by (unfold has_delims; destruct (tb c); congruence).
  assert (Ha : lpos s <= len d).
  { apply at_from_buf in Hat; [|exact Htb]. rewrite Z.add_0_r in Hat. destruct Hsm as [Hb _]. rewrite Hb in Hat.
    destruct (tb c) as [|x t] eqn:E; [congruence|]. symmetry in Hat. apply prefixb_head in Hat. destruct Hat as [s' Es].
    destruct (Z.le_gt_cases (lpos s) (len d)) as [?|Hgt]; [assumption|exfalso].
    assert (E0 : skipz (lpos s) (lbuf (lz l)) = []) by (unfold skipz; apply skipn_all2; unfold lx_len, len in *; lia).
    congruence. }
  rewrite (same_zat l s Hsm) in Hat, Hsk.
  destruct (zat_wf d l (lpos s) Hi ltac:(lia)) as [Hws Hrem].
  rewrite at_rem in Hat by (apply Hc || exact Hws). injection Hat as Hpre.
  destruct (tmpl_skip_here c _ Hc Hws Hpre) as [Hsk' Hle']. rewrite Hsk' in Hsk. injection Hsk as <-.
  pose proof (region_here c d l (lpos s) Hi ltac:(lia) Htb ltac:(rewrite <- Hrem; exact Hpre)) as Hreg.
  destruct (is_region_in _ _ _ _ Hreg) as [_ Hlt].
  split; [split; [split; reflexivity|cbn [lpos]; lia]|].
  intros _. exists (lpos s), (region_end_here c (zat l (lpos s))). cbn [lpos]. split; [lia|]. split; [lia|exact Hreg].
Qed.

Lemma rawtext_loop_regions c raw d l fuel r : cfg_ok c -> tb c <> [] -> html_inv d l ->
  loop fuel (rawtext_body c raw) (lz l, false) = Ok r -> snd r = true ->
  exists p q, lpos (lz l) <= p /\ q <= lpos (fst r) /\ is_region c d p q.
Proof.
  intros Hc Htb Hi H. pose proof Hi as ((Hw & _) & Hlen & _).
  set (I := fun s : lx * bool => samele (lz l) (fst s) /\
              (snd s = true -> exists p q, lpos (lz l) <= p /\ q <= lpos (fst s) /\ is_region c d p q)).
  assert (HI : I r); [|intros Hr; exact (proj2 HI Hr)].
  refine (loop_inv I I (rawtext_body c raw) _ _ (lz l, false) r _ H); [|split; [apply samele_refl|cbn; discriminate]].
  clear H r. intros [s h0] x (Hs & Hreg) Hx. cbn [fst snd] in *.
  (* moving on with the same flag *)
  assert (Hkeep : forall s', samele s s' -> I (s', h0)).
  { intros s' Hs'. split; [eapply samele_trans; eauto|]. cbn [fst snd]. intros Hh. destruct (Hreg Hh) as (p & q & ? & ? & ?).
    exists p, q. destruct Hs' as [_ ?]. split; [assumption|split; [lia|assumption]]. }
  unfold rawtext_body in Hx.
  destruct (pkr s 0) as [c0| |] eqn:E0; cbn [rbind] in Hx; try discriminate.
  unfold skip_tmpl in Hx.
  destruct (tmpl_at c s) as [t| |] eqn:Et; cbn [rbind] in Hx; try discriminate.
  destruct t.
  { destruct (tmpl_skip c s) as [z'| |] eqn:Ez'; cbn [rbind] in Hx; try discriminate. injection Hx as <-.
    (* the cursor is inside the input *)
    assert (Hp0 : pk s 0 = Some c0) by (unfold pkr in E0; destruct (pk s 0); cbn in E0; congruence).
    destruct Hs as [Hsm Hle].
    assert (Ha : lpos s <= len d).
    { unfold pk in Hp0. apply peekz_some in Hp0. destruct Hsm as [Hb _]. rewrite Hb in Hp0. unfold lx_len in Hlen. lia. }
    rewrite (same_zat l s Hsm) in Et, Ez'.
    destruct (zat_wf d l (lpos s) Hi ltac:(lia)) as [Hws Hrem].
    unfold tmpl_at in Et. replace (has_delims c) with true in Et by (unfold has_delims; destruct (tb c); congruence).
    rewrite at_rem in Et by (apply Hc || exact Hws). injection Et as Hpre.
    destruct (tmpl_skip_here c _ Hc Hws Hpre) as [Hsk Hle']. rewrite Hsk in Ez'. injection Ez' as <-.
    pose proof (region_here c d l (lpos s) Hi ltac:(lia) Htb ltac:(rewrite <- Hrem; exact Hpre)) as Hreg'.
    destruct (is_region_in _ _ _ _ Hreg') as [_ Hlt].
    split; cbn [fst snd].
    * split; [split; reflexivity|cbn [lpos]; lia].
    * intros _. exists (lpos s), (region_end_here c (zat l (lpos s))). cbn [lpos]. split; [lia|]. split; [lia|exact Hreg']. }
  cbn [rbind] in Hx.
  destruct (c0 =? 60).
  - destruct (pkr s 1) as [c1| |]; cbn [rbind] in Hx; try discriminate.
    destruct (c1 =? 47).
    + destruct (letters_loop (mv s 2)) as [z2| |] eqn:El; cbn [rbind] in Hx; try discriminate.
      destruct (letters_loop_run _ _ El) as (Hs2 & Hle2 & _). cbn [mv lpos] in Hle2.
      assert (Hsz2 : samele s z2) by (split; [eapply same_trans; [apply (same_mv s 2)|exact Hs2]|lia]).
      destruct (hash_lexeme_from z2 (mark s + 2)) as [h| |]; cbn [rbind] in Hx; try discriminate.
      destruct (h =? raw); [|injection Hx as <-; apply Hkeep; exact Hsz2].
      destruct (pkr z2 0) as [cz| |]; cbn [rbind] in Hx; try discriminate.
      destruct (is_tagend cz || eof0 z2 cz); injection Hx as <-; [|apply Hkeep; exact Hsz2].
      apply Hkeep. split; [eapply same_trans; [apply Hsz2|apply same_rewind]|].
      unfold rewind, mark. cbn [lpos]. destruct Hs2 as [_ Hst2]. cbn [mv lstart] in Hst2. lia.
    + destruct (if (raw =? html_hash_Script) && (c1 =? 33)
                then c2 <-- pkr s 2;; (if c2 =? 45 then c3 <-- pkr s 3;; Ok (c3 =? 45) else Ok false)
                else Ok false) as [sc| |]; cbn [rbind] in Hx; try discriminate.
      destruct sc; [|injection Hx as <-; apply Hkeep, samele_mv; lia].
      destruct (loop (fuel_of s) (script_comment_loop_body c) (mv s 4, false, h0)) as [[r2 h2]| |] eqn:Er2; cbn [rbind] in Hx; try discriminate.
      (* the inner loop keeps the invariant *)
      assert (HI2 : I (match r2 with inl z' => z' | inr z' => z' end, h2)).
      { unfold script_comment_loop_body in Er2.
        refine (with_tmpl_inv c _ _ (fun sh : lx * bool * bool => I (fst (fst sh), snd sh))
                  (fun r : (lx + lx) * bool => I (match fst r with inl z' => z' | inr z' => z' end, snd r))
                  script_comment_body _ _ _ (mv s 4, false, h0) (r2, h2) _ Er2).
        - intros [s1 i1] h1 z' [Hs1 _] Hat Hk. cbn [fst snd] in *.
          apply (tmpl_region_step c d l Hc Htb Hi s1 z' h1 Hs1 Hat Hk).
        - intros [s1 i1] h1 x1 [Hs1 Hr1] Hx1. cbn [fst snd] in *.
          pose proof (script_comment_step_run s1 (s1, i1) x1 (samele_refl s1) Hx1) as Hp.
          assert (Hk1 : forall s', samele s1 s' -> I (s', h1)).
          { intros s' Hs'. split; [eapply samele_trans; eauto|]. cbn [fst snd]. intros Hh. destruct (Hr1 Hh) as (p & q & ? & ? & ?).
            exists p, q. destruct Hs' as [_ ?]. split; [assumption|split; [lia|assumption]]. }
          destruct x1 as [[s2 i2]|[z2|z2]]; cbn [fst snd] in *; [apply Hk1; exact Hp|apply Hk1; exact Hp|apply Hk1; apply Hp].
        - cbn [fst snd]. apply Hkeep. apply samele_mv; lia. }
      destruct r2 as [z'|z']; injection Hx as <-; exact HI2.
  - destruct (eof0 s c0); injection Hx as <-; [apply Hkeep, samele_refl|apply Hkeep, samele_mv; lia].
Qed.


(* non-vacuity: <style>a{{x}}b{{y}}c</style> with the Go delimiters: the second region is reached over "a", a region, "b" *)
Example html_template_rawtext_reach_nonvacuous :
  let d := [60;115;116;121;108;101;62;97;123;123;120;125;125;98;123;123;121;125;125;99;60;47;115;116;121;108;101;62] in
  raw_reach go_tmpl html_hash_Style d 7 14 /\ is_region go_tmpl d 14 19.
Proof.
  assert (R : forall p q, 0 <= p -> prefixb [123; 123] (skipz p [60;115;116;121;108;101;62;97;123;123;120;125;125;98;123;123;121;125;125;99;60;47;115;116;121;108;101;62]) = true ->
              q = p + 2 + region_len 28 [125; 125] (skipz (p + 2) [60;115;116;121;108;101;62;97;123;123;120;125;125;98;123;123;121;125;125;99;60;47;115;116;121;108;101;62]) ->
              is_region go_tmpl [60;115;116;121;108;101;62;97;123;123;120;125;125;98;123;123;121;125;125;99;60;47;115;116;121;108;101;62] p q).
  { intros p q Hp Hpre Hq. split; [exact Hp|]. split; [discriminate|]. split; [exact Hpre|exact Hq]. }
  split.
  - apply rr_byte; [split; [vm_compute; split; [discriminate|reflexivity]|split; [vm_compute; reflexivity|left; vm_compute; discriminate]]|].
    apply (rr_region _ _ _ 8 13); [apply R; [lia|vm_compute; reflexivity|vm_compute; reflexivity]|].
    apply rr_byte; [split; [vm_compute; split; [discriminate|reflexivity]|split; [vm_compute; reflexivity|left; vm_compute; discriminate]]|].
    apply rr_refl.
  - apply R; [lia|vm_compute; reflexivity|vm_compute; reflexivity].
Qed.

(* ---- (iv') attributes, converse: HasTemplate() = true on an Attribute token only if a region lies inside it ------- *)
Section AttrConverse.
Variables (c : cfg) (d : list Z) (l0 : lexer).
Hypothesis Hc : cfg_ok c.
Hypothesis Htb : tb c <> [].
Hypothesis Hi : binv d (lz l0).

(* the cursor s is at or after the call's cursor; if the flag is set, a region lies between the two *)
Definition RI (s : lx) (h : bool) : Prop :=
  samele (lz l0) s /\ (h = true -> exists p q, lpos (lz l0) <= p /\ q <= lpos s /\ is_region c d p q).

Lemma RI_keep s s' h : RI s h -> samele s s' -> RI s' h.
Proof.
  intros [Hs Hr] Hs'. split; [eapply samele_trans; eauto|]. intros Hh. destruct (Hr Hh) as (p & q & ? & ? & ?).
  exists p, q. destruct Hs' as [_ ?]. split; [assumption|split; [lia|assumption]].
Qed.

Lemma RI_weaken s h : RI s h -> RI s false.
Proof. intros [Hs _]. split; [exact Hs|discriminate]. Qed.

Lemma has_delims_true : has_delims c = true.
Proof. unfold has_delims. destruct (tb c); congruence. Qed.

Lemma tmpl_step s z' h : RI s h -> at_ s (tb c) = Ok true -> tmpl_skip c s = Ok z' -> RI z' true.
Proof.
  intros [[Hsm Hle] _] Hat Hsk. pose proof Hi as (Hw & Hlen & _).
  assert (H0 : 0 <= lpos (lz l0)) by (destruct Hw as (_ & ? & _); lia).
  assert (Ha : lpos s <= len d).
  { apply at_from_buf in Hat; [|exact Htb]. rewrite Z.add_0_r in Hat. destruct Hsm as [Hb _]. rewrite Hb in Hat.
    destruct (tb c) as [|x t] eqn:E; [congruence|]. symmetry in Hat. apply prefixb_head in Hat. destruct Hat as [s' Es].
    destruct (Z.le_gt_cases (lpos s) (len d)) as [?|Hgt]; [assumption|exfalso].
    assert (E0 : skipz (lpos s) (lbuf (lz l0)) = []) by (unfold skipz; apply skipn_all2; unfold lx_len, len in *; lia).
    congruence. }
  rewrite (same_zat l0 s Hsm) in Hat, Hsk.
  destruct (bzat_wf d l0 (lpos s) Hi ltac:(lia)) as [Hws Hrem].
  rewrite at_rem in Hat by (apply Hc || exact Hws). injection Hat as Hpre.
  destruct (tmpl_skip_here c _ Hc Hws Hpre) as [Hsk' Hle']. rewrite Hsk' in Hsk. injection Hsk as <-.
  pose proof (bregion_here c d l0 (lpos s) Hi ltac:(lia) Htb ltac:(rewrite <- Hrem; exact Hpre)) as Hreg.
  destruct (is_region_in _ _ _ _ Hreg) as [_ Hlt].
  split; [split; [split; reflexivity|cbn [lpos]; lia]|].
  intros _. exists (lpos s), (region_end_here c (zat l0 (lpos s))). cbn [lpos]. split; [lia|]. split; [lia|exact Hreg].
Qed.

Lemma tmpl_rep_samele fuel s b r : loop fuel (tmpl_rep_body c) (s, b) = Ok r -> samele s (fst r).
Proof.
  intros H.
  refine (loop_inv (fun x => samele s (fst x)) (fun x => samele s (fst x)) (tmpl_rep_body c) _ _ (s, b) r _ H); [|apply samele_refl].
  clear. intros [z h] x Hs Hx. unfold tmpl_rep_body in Hx. cbn [fst snd] in *.
  destruct (at_ z (tb c)) as [a| |]; cbn [rbind] in Hx; try discriminate.
  destruct a; [|injection Hx as <-; exact Hs].
  destruct (tmpl_skip c z) as [z'| |] eqn:E; cbn [rbind] in Hx; try discriminate. injection Hx as <-. cbn [fst].
  eapply samele_trans; [exact Hs|apply (tmpl_skip_run _ _ _ E)].
Qed.

Lemma tmpl_rep_regions fuel s b r : RI s b -> loop fuel (tmpl_rep_body c) (s, b) = Ok r -> RI (fst r) (snd r).
Proof.
  intros H0 H.
  refine (loop_inv (fun x => RI (fst x) (snd x)) (fun x => RI (fst x) (snd x)) (tmpl_rep_body c) _ _ (s, b) r H0 H).
  clear H0 H. intros [z h] x Hs Hx. unfold tmpl_rep_body in Hx. cbn [fst snd] in *.
  destruct (at_ z (tb c)) as [a| |] eqn:Ea; cbn [rbind] in Hx; try discriminate.
  destruct a; [|injection Hx as <-; exact Hs].
  destruct (tmpl_skip c z) as [z'| |] eqn:E; cbn [rbind] in Hx; try discriminate. injection Hx as <-. cbn [fst snd].
  eapply tmpl_step; eauto.
Qed.

Lemma guarded_regions z h r0 : RI z h -> tmpl_rep_guarded c z h = Ok r0 -> RI (fst r0) (snd r0).
Proof.
  intros H0 H. unfold tmpl_rep_guarded in H. rewrite has_delims_true in H.
  destruct (tmpl_rep c z) as [r| |] eqn:Er; cbn [rbind] in H; try discriminate. injection H as <-. cbn [fst snd].
  unfold tmpl_rep in Er. destruct h; cbn [orb].
  - eapply RI_keep; [exact H0|]. apply (tmpl_rep_samele _ _ _ _ Er).
  - apply (tmpl_rep_regions _ _ _ _ H0 Er).
Qed.

Lemma ws_loop_samele z z' : ws_loop z = Ok z' -> samele z z'.
Proof.
  unfold ws_loop. intros H.
  refine (loop_inv (fun x => samele z x) (fun x => samele z x) ws_body _ _ z z' (samele_refl z) H).
  clear. intros s x Hs Hx. unfold ws_body in Hx. destruct (pkr s 0) as [c0| |]; cbn [rbind] in Hx; try discriminate.
  destruct (is_ws c0); injection Hx as <-; [eapply samele_trans; [exact Hs|apply samele_mv; lia]|exact Hs].
Qed.

Lemma attru_loop_samele fuel z z' : loop fuel attru_body z = Ok z' -> samele z z'.
Proof.
  intros H.
  refine (loop_inv (fun x => samele z x) (fun x => samele z x) attru_body _ _ z z' (samele_refl z) H).
  clear. intros s x Hs Hx. unfold attru_body in Hx. destruct (pkr s 0) as [c0| |]; cbn [rbind] in Hx; try discriminate.
  destruct ((c0 =? 32) || (c0 =? 62) || (c0 =? 9) || (c0 =? 10) || (c0 =? 13) || (c0 =? 12) || eof0 s c0); injection Hx as <-;
    [exact Hs|eapply samele_trans; [exact Hs|apply samele_mv; lia]].
Qed.

(* any loop whose first test is l.skipTemplate() keeps the invariant, if its own steps only move forward *)
Lemma with_tmpl_RI {S R} (cur : S -> lx) (setc : S -> lx -> S) (rcur : R -> lx) (body : S -> res (lp S R)) fuel s h r :
  (forall s z', cur (setc s z') = z') ->
  (forall s x, body s = Ok x -> match x with Cont s' => samele (cur s) (cur s') | Brk r => samele (cur s) (rcur r) end) ->
  RI (cur s) h -> loop fuel (with_tmpl c cur setc body) (s, h) = Ok r -> RI (rcur (fst r)) (snd r).
Proof.
  intros Hcs Hb H0 H.
  refine (with_tmpl_inv c cur setc (fun sh : S * bool => RI (cur (fst sh)) (snd sh)) (fun r : R * bool => RI (rcur (fst r)) (snd r))
            body _ _ fuel (s, h) r H0 H).
  - intros s1 h1 z' Hs1 Hat Hk. cbn [fst snd] in *. rewrite Hcs.
    unfold tmpl_at in Hat. rewrite has_delims_true in Hat. eapply tmpl_step; eauto.
  - intros s1 h1 x Hs1 Hx. cbn [fst snd] in *. specialize (Hb s1 x Hx). destruct x; cbn [fst snd]; eapply RI_keep; eauto.
Qed.

Lemma attru_step_samele (s : lx) x : attru_body s = Ok x -> match x with Cont s' => samele s s' | Brk r => samele s r end.
Proof.
  intros Hx. unfold attru_body in Hx. destruct (pkr s 0) as [c0| |]; cbn [rbind] in Hx; try discriminate.
  destruct ((c0 =? 32) || (c0 =? 62) || (c0 =? 9) || (c0 =? 10) || (c0 =? 13) || (c0 =? 12) || eof0 s c0); injection Hx as <-;
    [apply samele_refl|apply samele_mv; lia].
Qed.

Lemma attrname_regions fuel s h r : RI s h -> loop fuel (attrname_body c) (s, h) = Ok r -> RI (fst r) (snd r).
Proof.
  intros H0 H.
  refine (loop_inv (fun x => RI (fst x) (snd x)) (fun x => RI (fst x) (snd x)) (attrname_body c) _ _ (s, h) r H0 H).
  clear H0 H. intros [z hz] x Hs Hx. unfold attrname_body in Hx. cbn [fst snd] in *.
  unfold tmpl_at in Hx. rewrite has_delims_true in Hx.
  destruct (at_ z (tb c)) as [a| |] eqn:Ea; cbn [rbind] in Hx; try discriminate.
  destruct a.
  - destruct (tmpl_skip c z) as [z'| |] eqn:E; cbn [rbind] in Hx; try discriminate. injection Hx as <-. cbn [fst snd].
    eapply tmpl_step; eauto.
  - destruct (pkr z 0) as [c0| |]; cbn [rbind] in Hx; try discriminate.
    match type of Hx with rbind ?e _ = _ => destruct e as [b| |] end; cbn [rbind] in Hx; try discriminate.
    destruct b; injection Hx as <-; cbn [fst snd]; [exact Hs|]. eapply RI_keep; [exact Hs|apply samele_mv; lia].
Qed.

Lemma attrq_regions fuel delim s h r : RI s h -> loop fuel (attrq_body c delim) (s, h) = Ok r -> RI (fst r) (snd r).
Proof.
  intros H0 H.
  refine (loop_inv (fun x => RI (fst x) (snd x)) (fun x => RI (fst x) (snd x)) (attrq_body c delim) _ _ (s, h) r H0 H).
  clear H0 H. intros [z hz] x Hs Hx. unfold attrq_body in Hx. cbn [fst snd] in *.
  destruct (pkr z 0) as [c0| |]; cbn [rbind] in Hx; try discriminate.
  unfold tmpl_at in Hx. rewrite has_delims_true in Hx.
  destruct (at_ z (tb c)) as [a| |] eqn:Ea; cbn [rbind] in Hx; try discriminate.
  destruct a.
  - destruct (tmpl_skip c z) as [z1| |] eqn:E; cbn [rbind] in Hx; try discriminate.
    destruct (tmpl_rep c z1) as [r1| |] eqn:Er; cbn [rbind] in Hx; try discriminate. injection Hx as <-. cbn [fst snd].
    eapply RI_keep; [eapply tmpl_step; eauto|]. apply (tmpl_rep_samele _ _ _ _ Er).
  - destruct (c0 =? delim); [injection Hx as <-; cbn [fst snd]; eapply RI_keep; [exact Hs|apply samele_mv; lia]|].
    destruct (eof0 z c0); injection Hx as <-; cbn [fst snd]; [exact Hs|]. eapply RI_keep; [exact Hs|apply samele_mv; lia].
Qed.

Lemma shift_attribute_regions l z v l' : RI z (lhas l) -> shift_attribute c l z = Ok (v, l') ->
  lhas l' = true -> exists p q, lpos (lz l0) <= p /\ q <= lpos (lz l') /\ is_region c d p q.
Proof.
  intros H0 Hx. unfold shift_attribute in Hx.
  destruct (tmpl_rep_guarded c z (lhas l)) as [r0| |] eqn:E0; cbn [rbind] in Hx; try discriminate.
  pose proof (guarded_regions _ _ _ H0 E0) as H1.
  destruct (loop (fuel_of (fst r0)) (attrname_body c) r0) as [r1| |] eqn:E1; cbn [rbind] in Hx; try discriminate.
  assert (H2 : RI (fst r1) (snd r1)) by (destruct r0 as [a b]; exact (attrname_regions _ _ _ _ H1 E1)).
  destruct (ws_loop (fst r1)) as [z2| |] eqn:E2; cbn [rbind] in Hx; try discriminate.
  pose proof (ws_loop_samele _ _ E2) as Hs2.
  destruct (pkr z2 0) as [c0| |]; cbn [rbind] in Hx; try discriminate.
  match type of Hx with rbind ?e _ = _ => destruct e as [[[z5 has5] av]| |] eqn:E3 end; cbn [rbind] in Hx; try discriminate.
  assert (H5 : RI z5 has5).
  { destruct (c0 =? 61).
    - destruct (ws_loop (mv z2 1)) as [z3| |] eqn:E4; cbn [rbind] in E3; try discriminate.
      pose proof (ws_loop_samele _ _ E4) as Hs3.
      assert (H3 : RI z3 (snd r1)).
      { eapply RI_keep; [exact H2|]. eapply samele_trans; [exact Hs2|]. eapply samele_trans; [apply (samele_mv z2 1); lia|exact Hs3]. }
      destruct (pkr z3 0) as [c1| |]; cbn [rbind] in E3; try discriminate.
      unfold tmpl_at in E3. rewrite has_delims_true in E3.
      destruct (at_ z3 (tb c)) as [t| |] eqn:Et; cbn [rbind] in E3; try discriminate.
      match type of E3 with rbind ?e _ = _ => destruct e as [r| |] eqn:Er end; cbn [rbind] in E3; try discriminate.
      destruct (lexeme_from (fst r) (mark z3)) as [vv| |]; cbn [rbind] in E3; try discriminate.
      injection E3 as <- <- _.
      destruct t.
      + destruct (tmpl_skip c z3) as [z4| |] eqn:Ek; cbn [rbind] in Er; try discriminate.
        destruct (tmpl_rep c z4) as [r4| |] eqn:Er4; cbn [rbind] in Er; try discriminate. injection Er as <-. cbn [fst snd].
        eapply RI_keep; [eapply tmpl_step; eauto|]. apply (tmpl_rep_samele _ _ _ _ Er4).
      + destruct ((c1 =? 34) || (c1 =? 39)).
        * eapply attrq_regions; [|exact Er]. eapply RI_keep; [exact H3|apply samele_mv; lia].
        * unfold with_tmpl_lx in Er.
          apply (with_tmpl_RI (fun z : lx => z) (fun _ z' => z') (fun z : lx => z) attru_body _ z3 (snd r1) r (fun _ _ => eq_refl) attru_step_samele H3 Er).
    - injection E3 as <- <- _. eapply RI_keep; [exact H2|].
      destruct Hs2 as [[Hb2 Hst2] Hle2]. split; [split; [exact Hb2|exact Hst2]|]. unfold rewind, mark. cbn [lpos]. lia. }
  destruct (tmpl_rep_guarded c z5 has5) as [r6| |] eqn:E6; cbn [rbind] in Hx; try discriminate.
  pose proof (guarded_regions _ _ _ H5 E6) as H6.
  destruct (lexeme_sub (fst r6) (mark z) (mark (fst r1))) as [t| |]; cbn [rbind] in Hx; try discriminate.
  match type of Hx with rbind (shiftv ?zz) _ = _ => set (z7 := zz) in * end.
  assert (Hp7 : lpos z7 = lpos (fst r6)) by (unfold z7; destruct (snd r1); reflexivity).
  unfold shiftv in Hx. destruct (lexeme_ok z7); cbn [rbind] in Hx; try discriminate. injection Hx as _ <-. cbn [lhas lz fst snd skip lpos].
  intros Hh. destruct H6 as [_ H6]. destruct (H6 Hh) as (p & q & ? & ? & ?). exists p, q. rewrite Hp7. tauto.
Qed.

End AttrConverse.

Lemma plaintext_step_samele (s : lx) x : plaintext_body s = Ok x -> match x with Cont s' => samele s s' | Brk r => samele s r end.
Proof.
  intros Hx. unfold plaintext_body in Hx. destruct (pkr s 0) as [c0| |]; cbn [rbind] in Hx; try discriminate.
  destruct (eof0 s c0); injection Hx as <-; [apply samele_refl|apply samele_mv; lia].
Qed.

Lemma html_template_rawtext_converse_proof : forall c d l ty tk l', cfg_ok c -> tb c <> [] -> html_inv d l ->
  intag l = false -> rawtag l <> 0 ->
  lpos (lz l) < len d -> ~ end_tag_at (rawtag l) (d ++ [0]) (lpos (lz l)) ->        (* the content is not empty *)
  next c l = Ok (ty, tk, l') -> lhas l' = true ->
  exists p q, lpos (lz l) <= p /\ q <= lpos (lz l') /\ is_region c d p q.
Proof.
  intros c d l ty tk l' Hc Htb Hi Hit Hraw Hne Hnoend Hn Hhas.
  pose proof Hi as (Hl & Hlen & Hsuf & _). pose proof Hl as [Hw _].
  pose proof (lwf_clean l Hl Hit) as Hcl.
  assert (H0 : 0 <= lpos (lz l)) by (destruct Hw as (_ & ? & _); lia).
  unfold next in Hn. cbn [lz rawtag intag lerr ltext lattr lhas] in Hn. rewrite Hit in Hn.
  replace (negb (rawtag l =? 0)) with true in Hn by (symmetry; apply negb_true_iff; apply Z.eqb_neq; exact Hraw).
  unfold shift_rawtext in Hn.
  destruct (rawtag l =? html_hash_Plaintext) eqn:Epl.
  - destruct (safe_inv _ _ (plaintext_loop_spec c (lz l) false Hc Hw)) as ([zp hp] & Ez & Ha). rewrite Ez in Hn. cbn [rbind fst snd] in Hn, Ha.
    pose proof (plaintext_loop_run _ _ _ _ _ Ez) as Hend. cbn [fst] in Hend. apply at_end_true in Hend; [|eauto using adv_wf].
    rewrite (adv_len _ _ Ha), Hlen in Hend.
    unfold with_tmpl_lx in Ez.
    pose proof (with_tmpl_RI c d l Hc Htb (binv_of_inv d l Hi) (fun z : lx => z) (fun _ z' => z') (fun z : lx => z) plaintext_body _ (lz l) false (zp, hp)
                  (fun _ _ => eq_refl) plaintext_step_samele (conj (samele_refl _) (fun E => False_ind _ (Bool.diff_false_true E))) Ez) as [_ Hreg].
    rewrite shiftv_spec in Hn by eauto using adv_wf. cbn [rbind fst snd] in Hn, Hreg.
    destruct Ha as (A1 & A2 & A3). cbn [sn] in Hn.
    replace (0 <? lpos zp - lstart zp) with true in Hn by (symmetry; apply Z.ltb_lt; lia).
    injection Hn as <- <- <-. cbn [lhas lz skip lpos] in *. exact (Hreg Hhas).
  - destruct (safe_inv _ _ (rawtext_loop_spec c (rawtag l) (lz l) false Hc Hw)) as (s & Es & Ha). rewrite Es in Hn. cbn [rbind] in Hn.
    destruct (rawtext_loop_run _ _ _ _ _ _ Es) as (_ & _ & Hend & _).
    rewrite shiftv_spec in Hn by eauto using adv_wf. cbn [rbind fst snd] in Hn.
    pose proof Ha as (A1 & A2 & A3). rewrite Hlen in A3.
    assert (Hlt : lpos (lz l) < lpos (fst s)).
    { destruct (Z.eq_dec (lpos (fst s)) (lpos (lz l))) as [E|E]; [exfalso|lia].
      destruct Hend as [Hend|Hend].
      - apply at_end_true in Hend; [|eauto using adv_wf]. rewrite (adv_len _ _ Ha), Hlen in Hend. lia.
      - apply Hnoend. rewrite <- E.
        assert (Hblen : len (lbuf (lz l)) = len (d ++ [0])).
        { pose proof (lx_wf_len _ Hw) as [Hbl _]. rewrite len_app. change (len [0]) with 1. lia. }
        eapply (end_tag_at_ext true _ _ _ (lpos (lz l))); eauto. lia. }
    cbn [sn] in Hn. replace (0 <? lpos (fst s) - lstart (fst s)) with true in Hn by (symmetry; apply Z.ltb_lt; lia).
    injection Hn as <- <- <-. cbn [lhas lz skip lpos] in *.
    exact (rawtext_loop_regions c (rawtag l) d l _ s Hc Htb Hi Es Hhas).
Qed.


Lemma html_template_attr_converse_proof : forall c d l v l', cfg_ok c -> tb c <> [] -> html_inv d l -> intag l = true ->
  next c l = Ok (AttributeT, Some v, l') -> lhas l' = true ->
  exists p q, lpos (lz l) <= p /\ q <= lpos (lz l') /\ is_region c d p q.
Proof.
  intros c d l v l' Hc Htb Hi Hit Hn Hhas.
  unfold next in Hn. cbn [lz rawtag intag lerr ltext lattr lhas] in Hn. rewrite Hit in Hn.
  unfold next_intag in Hn. cbn [lz rawtag intag lerr ltext lattr lhas] in Hn.
  destruct (ws_loop (lz l)) as [z1| |] eqn:E1; cbn [rbind] in Hn; try discriminate.
  pose proof (ws_loop_samele _ _ E1) as Hs1.
  destruct (pkr z1 0) as [c0| |]; cbn [rbind] in Hn; try discriminate.
  destruct (eof0 z1 c0); [discriminate|].
  match type of Hn with rbind ?e _ = _ => destruct e as [isattr| |] end; cbn [rbind] in Hn; try discriminate.
  destruct isattr.
  - match type of Hn with rbind ?e _ = _ => destruct e as [[v1 l1]| |] eqn:Ea end; cbn [rbind] in Hn; try discriminate.
    cbn [fst snd] in Hn. injection Hn as _ <-.
    eapply (shift_attribute_regions c d l Hc Htb (binv_of_inv d l Hi) _ z1 v1 l1); [|exact Ea|exact Hhas].
    cbn [lhas]. split; [exact Hs1|discriminate].
  - match type of Hn with rbind ?e _ = _ => destruct e as [s| |] end; cbn [rbind] in Hn; try discriminate.
    destruct (c0 =? 47); discriminate.
Qed.

(* ---- (iv'') a region further inside an attribute name ----------------------------------------------------------------- *)

(* a byte of an attribute name at which no delimiter starts *)
Definition name_plain (c : cfg) (d : list Z) (i : Z) : Prop :=
  0 <= i < len d /\ prefixb (tb c) (skipz i d) = false /\
  is_ws (getz d i) = false /\ getz d i <> 61 /\ getz d i <> 62 /\ ~ (getz d i = 47 /\ getz d (i + 1) = 62).

Lemma attrname_step c d l i h : cfg_ok c -> tb c <> [] -> html_inv d l -> lpos (lz l) <= i -> name_plain c d i ->
  attrname_body c (zat l i, h) = Ok (Cont (zat l (i + 1), h)).
Proof.
  intros Hc Htb Hi Ha ((Hi0 & Hi1) & Hpre & Hws & H61 & H62 & H47).
  destruct (zat_wf d l i Hi ltac:(lia)) as [Hw Hrem].
  unfold attrname_body, tmpl_at. rewrite (has_delims_true c Htb).
  rewrite at_rem by (apply Hc || exact Hw). rewrite Hrem, Hpre. cbn [rbind].
  rewrite (zat_pkr d l i 0 Hi) by lia. rewrite Z.add_0_r. cbn [rbind].
  unfold is_ws in Hws. b2p.
  replace (getz d i =? 32) with false by (symmetry; apply Z.eqb_neq; assumption).
  replace (getz d i =? 61) with false by (symmetry; apply Z.eqb_neq; assumption).
  replace (getz d i =? 62) with false by (symmetry; apply Z.eqb_neq; assumption). cbn [orb].
  assert (Hs : (if getz d i =? 47 then c1 <-- pkr (zat l i) 1;; Ok (c1 =? 62) else Ok false) = Ok false).
  { destruct (getz d i =? 47) eqn:E47; [|reflexivity]. rewrite (zat_pkr d l i 1 Hi) by lia. cbn [rbind].
    replace (getz d (i + 1) =? 62) with false; [reflexivity|]. symmetry. apply Z.eqb_neq. intros E. apply H47. b2p. tauto. }
  rewrite Hs. cbn [rbind].
  replace (getz d i =? 9) with false by (symmetry; apply Z.eqb_neq; assumption).
  replace (getz d i =? 10) with false by (symmetry; apply Z.eqb_neq; assumption).
  replace (getz d i =? 13) with false by (symmetry; apply Z.eqb_neq; assumption).
  replace (getz d i =? 12) with false by (symmetry; apply Z.eqb_neq; assumption). cbn [orb].
  unfold eof0. rewrite (at_end_zat d l i Hi Hi1), andb_false_r. reflexivity.
Qed.

(* "done": the flag is set and the cursor is at or after the end q of the region *)
Definition done_at (z0 : lx) (q : Z) (s : lx) (h : bool) : Prop := samele z0 s /\ h = true /\ q <= lpos s.

Lemma done_keep z0 q s s' h : done_at z0 q s h -> samele s s' -> done_at z0 q s' h.
Proof. intros (Hs & Hh & Hq) Hs'. split; [eapply samele_trans; eauto|]. destruct Hs' as [_ ?]. split; [exact Hh|lia]. Qed.

Lemma tmpl_rep_done c z0 q fuel s r : done_at z0 q s true -> loop fuel (tmpl_rep_body c) (s, true) = Ok r -> done_at z0 q (fst r) true.
Proof. intros H0 H. eapply done_keep; [exact H0|]. apply (tmpl_rep_samele _ _ _ _ _ H). Qed.

Lemma attrname_done c z0 q fuel s r : done_at z0 q s true -> loop fuel (attrname_body c) (s, true) = Ok r -> done_at z0 q (fst r) (snd r).
Proof.
  intros H0 H.
  refine (loop_inv (fun x => done_at z0 q (fst x) (snd x)) (fun x => done_at z0 q (fst x) (snd x)) (attrname_body c) _ _ (s, true) r H0 H).
  clear H0 H. intros [z hz] x Hs Hx. unfold attrname_body in Hx. cbn [fst snd] in *.
  destruct (tmpl_at c z) as [a| |] eqn:Ea; cbn [rbind] in Hx; try discriminate.
  destruct a.
  - destruct (tmpl_skip c z) as [z'| |] eqn:E; cbn [rbind] in Hx; try discriminate. injection Hx as <-. cbn [fst snd].
    destruct Hs as (S1 & S2 & S3). pose proof (tmpl_skip_run _ _ _ E) as Hk. split; [eapply samele_trans; eauto|]. split; [reflexivity|destruct Hk; lia].
  - destruct (pkr z 0) as [c0| |]; cbn [rbind] in Hx; try discriminate.
    match type of Hx with rbind ?e _ = _ => destruct e as [b| |] end; cbn [rbind] in Hx; try discriminate.
    destruct b; injection Hx as <-; cbn [fst snd]; [exact Hs|]. eapply done_keep; [exact Hs|apply samele_mv; lia].
Qed.

Lemma attrq_done c z0 q fuel delim s r : done_at z0 q s true -> loop fuel (attrq_body c delim) (s, true) = Ok r -> done_at z0 q (fst r) (snd r).
Proof.
  intros H0 H.
  refine (loop_inv (fun x => done_at z0 q (fst x) (snd x)) (fun x => done_at z0 q (fst x) (snd x)) (attrq_body c delim) _ _ (s, true) r H0 H).
  clear H0 H. intros [z hz] x Hs Hx. unfold attrq_body in Hx. cbn [fst snd] in *.
  destruct (pkr z 0) as [c0| |]; cbn [rbind] in Hx; try discriminate.
  destruct (tmpl_at c z) as [a| |] eqn:Ea; cbn [rbind] in Hx; try discriminate.
  destruct a.
  - destruct (tmpl_skip c z) as [z1| |] eqn:E; cbn [rbind] in Hx; try discriminate.
    destruct (tmpl_rep c z1) as [r1| |] eqn:Er; cbn [rbind] in Hx; try discriminate. injection Hx as <-. cbn [fst snd].
    destruct Hs as (S1 & S2 & S3). pose proof (tmpl_skip_run _ _ _ E) as Hk. pose proof (tmpl_rep_samele _ _ _ _ _ Er) as Hr.
    split; [eapply samele_trans; [exact S1|eapply samele_trans; eauto]|]. split; [reflexivity|destruct Hk, Hr; lia].
  - destruct (c0 =? delim); [injection Hx as <-; cbn [fst snd]; eapply done_keep; [exact Hs|apply samele_mv; lia]|].
    destruct (eof0 z c0); injection Hx as <-; cbn [fst snd]; [exact Hs|]. eapply done_keep; [exact Hs|apply samele_mv; lia].
Qed.

Lemma with_tmpl_done {S R} c z0 q (cur : S -> lx) (setc : S -> lx -> S) (rcur : R -> lx) (body : S -> res (lp S R)) fuel s r :
  (forall s z', cur (setc s z') = z') ->
  (forall s x, body s = Ok x -> match x with Cont s' => samele (cur s) (cur s') | Brk r => samele (cur s) (rcur r) end) ->
  done_at z0 q (cur s) true -> loop fuel (with_tmpl c cur setc body) (s, true) = Ok r -> done_at z0 q (rcur (fst r)) (snd r).
Proof.
  intros Hcs Hb H0 H.
  refine (with_tmpl_inv c cur setc (fun sh : S * bool => done_at z0 q (cur (fst sh)) (snd sh)) (fun r : R * bool => done_at z0 q (rcur (fst r)) (snd r))
            body _ _ fuel (s, true) r H0 H).
  - intros s1 h1 z' Hs1 _ Hk. cbn [fst snd] in *. rewrite Hcs. destruct Hs1 as (S1 & S2 & S3).
    pose proof (tmpl_skip_run _ _ _ Hk) as Hkr. split; [eapply samele_trans; eauto|]. split; [reflexivity|destruct Hkr; lia].
  - intros s1 h1 x Hs1 Hx. cbn [fst snd] in *. specialize (Hb s1 x Hx). destruct x; cbn [fst snd]; eapply done_keep; eauto.
Qed.

Lemma guarded_done c z0 q z r0 : done_at z0 q z true -> tmpl_rep_guarded c z true = Ok r0 -> done_at z0 q (fst r0) (snd r0).
Proof.
  intros H0 H. unfold tmpl_rep_guarded in H. destruct (has_delims c); [|injection H as <-; exact H0].
  destruct (tmpl_rep c z) as [r| |] eqn:Er; cbn [rbind] in H; try discriminate. injection H as <-. cbn [fst snd orb].
  eapply done_keep; [exact H0|]. apply (tmpl_rep_samele _ _ _ _ _ Er).
Qed.

(* once the name loop has ended "done", the token ends "done" *)
Lemma shift_attribute_name_done c l z v l' z0 q :
  (forall r0 r1, tmpl_rep_guarded c z (lhas l) = Ok r0 -> loop (fuel_of (fst r0)) (attrname_body c) r0 = Ok r1 ->
                 done_at z0 q (fst r1) (snd r1)) ->
  shift_attribute c l z = Ok (v, l') -> lhas l' = true /\ q <= lpos (lz l').
Proof.
  intros Hname Hx. unfold shift_attribute in Hx.
  destruct (tmpl_rep_guarded c z (lhas l)) as [r0| |] eqn:E0; cbn [rbind] in Hx; try discriminate.
  destruct (loop (fuel_of (fst r0)) (attrname_body c) r0) as [r1| |] eqn:E1; cbn [rbind] in Hx; try discriminate.
  pose proof (Hname r0 r1 eq_refl E1) as H1. destruct r1 as [z1 h1]. cbn [fst snd] in *.
  assert (Hh1 : h1 = true) by apply H1. subst h1.
  destruct (ws_loop z1) as [z2| |] eqn:E2; cbn [rbind] in Hx; try discriminate.
  pose proof (ws_loop_samele _ _ E2) as Hs2.
  destruct (pkr z2 0) as [c0| |]; cbn [rbind] in Hx; try discriminate.
  match type of Hx with rbind ?e _ = _ => destruct e as [[[z5 has5] av]| |] eqn:E3 end; cbn [rbind] in Hx; try discriminate.
  assert (H5 : done_at z0 q z5 has5).
  { destruct (c0 =? 61).
    - destruct (ws_loop (mv z2 1)) as [z3| |] eqn:E4; cbn [rbind] in E3; try discriminate.
      pose proof (ws_loop_samele _ _ E4) as Hs3.
      assert (H3 : done_at z0 q z3 true).
      { eapply done_keep; [exact H1|]. eapply samele_trans; [exact Hs2|]. eapply samele_trans; [apply (samele_mv z2 1); lia|exact Hs3]. }
      destruct (pkr z3 0) as [c1| |]; cbn [rbind] in E3; try discriminate.
      destruct (tmpl_at c z3) as [t| |] eqn:Et; cbn [rbind] in E3; try discriminate.
      match type of E3 with rbind ?e _ = _ => destruct e as [r| |] eqn:Er end; cbn [rbind] in E3; try discriminate.
      destruct (lexeme_from (fst r) (mark z3)) as [vv| |]; cbn [rbind] in E3; try discriminate.
      injection E3 as <- <- _.
      destruct t.
      + destruct (tmpl_skip c z3) as [z4| |] eqn:Ek; cbn [rbind] in Er; try discriminate.
        destruct (tmpl_rep c z4) as [r4| |] eqn:Er4; cbn [rbind] in Er; try discriminate. injection Er as <-. cbn [fst snd].
        eapply done_keep; [exact H3|]. eapply samele_trans; [apply (tmpl_skip_run _ _ _ Ek)|apply (tmpl_rep_samele _ _ _ _ _ Er4)].
      + destruct ((c1 =? 34) || (c1 =? 39)).
        * eapply attrq_done; [|exact Er]. eapply done_keep; [exact H3|apply samele_mv; lia].
        * unfold with_tmpl_lx in Er.
          apply (with_tmpl_done c z0 q (fun z : lx => z) (fun _ z' => z') (fun z : lx => z) attru_body _ z3 r (fun _ _ => eq_refl) attru_step_samele H3 Er).
    - injection E3 as <- <- _. eapply done_keep; [exact H1|].
      destruct Hs2 as [[Hb2 Hst2] Hle2]. split; [split; [exact Hb2|exact Hst2]|]. unfold rewind, mark. cbn [lpos]. lia. }
  assert (Hh5 : has5 = true) by apply H5. subst has5.
  destruct (tmpl_rep_guarded c z5 true) as [r6| |] eqn:E6; cbn [rbind] in Hx; try discriminate.
  pose proof (guarded_done _ _ _ _ _ H5 E6) as H6.
  destruct (lexeme_sub (fst r6) (mark z) (mark z1)) as [t| |]; cbn [rbind] in Hx; try discriminate.
  match type of Hx with rbind (shiftv ?zz) _ = _ => set (z7 := zz) in * end.
  assert (Hp7 : lpos z7 = lpos (fst r6)) by (unfold z7; reflexivity).
  unfold shiftv in Hx. destruct (lexeme_ok z7); cbn [rbind] in Hx; try discriminate. injection Hx as _ <-. cbn [lhas lz fst snd skip lpos].
  destruct H6 as (_ & H6a & H6b). rewrite Hp7. split; assumption.
Qed.

(* the name loop started before p over name bytes reaches the region and ends "done" *)
Lemma attrname_reach_done c d l p q fuel s r : cfg_ok c -> tb c <> [] -> html_inv d l -> is_region c d p q ->
  samele (lz l) s -> lpos s <= p -> (forall i, lpos s <= i < p -> name_plain c d i) ->
  loop fuel (attrname_body c) (s, false) = Ok r -> done_at (lz l) q (fst r) (snd r).
Proof.
  intros Hc Htb Hi Hreg Hs0 Hp0 Hpl0 H.
  set (I := fun x : lx * bool => done_at (lz l) q (fst x) (snd x) \/
              (snd x = false /\ samele (lz l) (fst x) /\ lpos (fst x) <= p /\ forall i, lpos (fst x) <= i < p -> name_plain c d i)).
  refine (loop_inv I (fun x => done_at (lz l) q (fst x) (snd x)) (attrname_body c) _ _ (s, false) r _ H); [|right; cbn [fst snd]; tauto].
  clear H r Hs0 Hp0 Hpl0 s. intros [z hz] x HI Hx. unfold I in *. cbn [fst snd] in *. destruct HI as [Hd|(-> & Hs & Hp & Hpl)].
  - (* already done: one more iteration keeps it *)
    assert (hz = true) by apply Hd. subst hz.
    unfold attrname_body in Hx.
    destruct (tmpl_at c z) as [a| |] eqn:Ea; cbn [rbind] in Hx; try discriminate.
    destruct a.
    + destruct (tmpl_skip c z) as [z'| |] eqn:E; cbn [rbind] in Hx; try discriminate. injection Hx as <-. left. cbn [fst snd].
      destruct Hd as (S1 & S2 & S3). pose proof (tmpl_skip_run _ _ _ E) as Hk. split; [eapply samele_trans; eauto|]. split; [reflexivity|destruct Hk; lia].
    + destruct (pkr z 0) as [c0| |]; cbn [rbind] in Hx; try discriminate.
      match type of Hx with rbind ?e _ = _ => destruct e as [b| |] end; cbn [rbind] in Hx; try discriminate.
      destruct b; injection Hx as <-; cbn [fst snd]; [exact Hd|]. left. eapply done_keep; [exact Hd|apply samele_mv; lia].
  - destruct Hs as [Hsm Hle]. rewrite (same_zat l z Hsm) in Hx.
    destruct (Z.eq_dec (lpos z) p) as [E|E].
    + (* at the region *)
      destruct (tmpl_here c d l p q Hc Hi ltac:(lia) Hreg) as (Hat & Hsk & Hq). rewrite E in Hx.
      unfold attrname_body, tmpl_at in Hx. rewrite (has_delims_true c Htb), Hat in Hx. cbn [rbind] in Hx. rewrite Hsk in Hx. cbn [rbind] in Hx.
      injection Hx as <-. left. cbn [fst snd]. split; [split; [split; reflexivity|unfold zat; cbn [lpos]; lia]|]. split; [reflexivity|unfold zat; cbn [lpos]; lia].
    + rewrite (attrname_step c d l (lpos z) false Hc Htb Hi Hle (Hpl (lpos z) ltac:(lia))) in Hx. injection Hx as <-. right. cbn [fst snd zat lpos].
      split; [reflexivity|]. split; [split; [split; reflexivity|unfold zat; cbn [lpos]; lia]|]. split; [lia|]. intros i Hr. apply Hpl. lia.
Qed.

Lemma inv_pk d l i : html_inv d l -> 0 <= i -> lpos (lz l) + i <= len d -> pk (lz l) i = Some (getz d (lpos (lz l) + i)).
Proof.
  intros Hi H0 Hle. pose proof (zat_pkr d l (lpos (lz l)) i Hi ltac:(lia) H0 Hle) as Hpk. rewrite zat_here in Hpk.
  unfold pkr in Hpk. destruct (pk (lz l) i); cbn in Hpk; congruence.
Qed.

Lemma html_template_attr_name_proof : forall c d l a p q, cfg_ok c -> tb_plain c -> html_inv d l -> intag l = true ->
  lstart (lz l) = lpos (lz l) -> lpos (lz l) <= a <= p ->
  (forall i, lpos (lz l) <= i < a -> is_ws (getz d i) = true) ->           (* whitespace before the name *)
  (forall i, a <= i < p -> name_plain c d i) ->                            (* name bytes without a delimiter start *)
  is_region c d p q ->
  exists v l', next c l = Ok (AttributeT, Some v, l') /\ lhas l' = true /\ so v = lpos (lz l) /\ q <= so v + sn v.
Proof.
  intros c d l a p q Hc Hplain Hi Hit Hcl Ha Hws Hname Hreg.
  pose proof Hplain as (x & t & Etb & Hxws & Hx62 & Hx47).
  assert (Htb : tb c <> []) by (rewrite Etb; discriminate).
  pose proof Hi as (Hl & Hlen & Hsuf & _). pose proof Hl as [Hw _]. pose proof (inv_pos0 d l Hi) as H0.
  destruct (tmpl_here c d l p q Hc Hi ltac:(lia) Hreg) as (Hatp & Hskp & Hq).
  (* the first byte of the attribute *)
  assert (Hx0 : getz d p = x).
  { pose proof Hreg as (_ & _ & Hpre & _). rewrite Etb in Hpre. apply prefixb_head in Hpre. destruct Hpre as [s' Es].
    unfold getz. rewrite <- (Z.add_0_r p), <- peekz_skipz by lia. rewrite Es, peekz_cons_0. reflexivity. }
  assert (Hfirst : is_ws (getz d a) = false /\ getz d a <> 62 /\ ~ (getz d a = 47 /\ getz d (a + 1) = 62) /\ a < len d).
  { destruct (Z.eq_dec a p) as [->|Hne]; [rewrite Hx0; repeat split; try assumption; try lia; intros [? _]; congruence|].
    destruct (Hname a ltac:(lia)) as ((_ & ?) & _ & ? & _ & ? & ?). tauto. }
  destruct Hfirst as (Hf1 & Hf2 & Hf3 & Hf4).
  destruct (html_total_step_proof c d l Hc Hi) as (ty & tk & l' & Hn & Hi').
  pose proof Hn as Hn0.
  unfold next in Hn. cbn [lz rawtag intag lerr ltext lattr lhas] in Hn. rewrite Hit in Hn.
  unfold next_intag in Hn. cbn [lz rawtag intag lerr ltext lattr lhas] in Hn.
  assert (Hz1 : ws_loop (lz l) = Ok (zat l a)).
  { replace (zat l a) with (mv (lz l) (a - lpos (lz l))) by (unfold zat, mv; f_equal; lia).
    unfold ws_loop. apply (ws_loop_func (Z.to_nat (a - lpos (lz l)))); [reflexivity|lia|unfold fuel_of, lx_len in *; lia| |].
    - intros i Hr. exists (getz d (lpos (lz l) + i)). split; [|apply Hws; lia]. apply (inv_pk d l i Hi); lia.
    - exists (getz d a). split; [|exact Hf1]. replace a with (lpos (lz l) + (a - lpos (lz l))) at 2 by lia.
      apply (inv_pk d l _ Hi); lia. }
  rewrite Hz1 in Hn. cbn [rbind] in Hn.
  rewrite (zat_pkr d l a 0 Hi) in Hn by lia. rewrite Z.add_0_r in Hn. cbn [rbind] in Hn.
  unfold eof0 in Hn. rewrite (at_end_zat d l a Hi Hf4), andb_false_r in Hn.
  replace (getz d a =? 62) with false in Hn by (symmetry; apply Z.eqb_neq; exact Hf2).
  assert (Hisattr : (if getz d a =? 47 then c1 <-- pkr (zat l a) 1;; Ok (negb (c1 =? 62)) else Ok true) = Ok true).
  { destruct (getz d a =? 47) eqn:E47; [|reflexivity]. rewrite (zat_pkr d l a 1 Hi) by lia. cbn [rbind].
    replace (getz d (a + 1) =? 62) with false; [reflexivity|]. symmetry. apply Z.eqb_neq. intros E. apply Hf3. b2p. tauto. }
  rewrite Hisattr in Hn. cbn [rbind] in Hn.
  match type of Hn with rbind ?e _ = _ => destruct e as [[v1 l1]| |] eqn:Ea end; cbn [rbind] in Hn; try discriminate.
  cbn [fst snd] in Hn. injection Hn as <- <- <-.
  assert (Hsa : samele (lz l) (zat l a)) by (split; [split; reflexivity|cbn [zat lpos]; lia]).
  pose proof (fun H => shift_attribute_name_done c _ (zat l a) v1 l1 (lz l) q H Ea) as Hsd. cbn [lhas] in Hsd.
  destruct Hsd as [Hhas Hpos].
  { intros r0 r1 E0 E1. unfold tmpl_rep_guarded in E0. rewrite (has_delims_true c Htb) in E0.
    destruct (tmpl_rep c (zat l a)) as [r| |] eqn:Er; cbn [rbind] in E0; try discriminate. injection E0 as <-. cbn [fst snd orb] in *.
    destruct (Z.eq_dec a p) as [->|Hne].
    - (* the region is the first thing in the token *)
      destruct (zat_wf d l p Hi ltac:(lia)) as [Hwp Hremp]. pose proof Hreg as (_ & _ & Hpre & _).
      destruct (tmpl_rep_first c (zat l p) Hc Htb Hwp ltac:(rewrite Hremp; exact Hpre)) as (r' & Er' & _ & _ & Hrpos & Hrb).
      rewrite Er in Er'. injection Er' as <-. rewrite Hrb in E1.
      assert (Hd0 : done_at (lz l) q (fst r) true).
      { pose proof (tmpl_rep_samele _ _ _ _ _ Er) as Hsr. split; [eapply samele_trans; eauto|]. split; [reflexivity|].
        assert (Eq : region_end_here c (zat l p) = q) by (eapply is_region_fun; [apply region_here; [exact Hi|lia|exact Htb|exact Hpre]|exact Hreg]).
        lia. }
      destruct r as [zr br]. cbn [fst snd] in *. subst br. exact (attrname_done _ _ _ _ _ _ Hd0 E1).
    - (* the name starts with plain bytes *)
      destruct (Hname a ltac:(lia)) as (_ & Hnp & _).
      destruct (zat_wf d l a Hi ltac:(lia)) as [Hwa Hrema].
      assert (Er0 : tmpl_rep c (zat l a) = Ok (zat l a, false)).
      { unfold tmpl_rep, fuel_of. cbn [loop]. unfold tmpl_rep_body. cbn [fst snd].
        rewrite at_rem by (apply Hc || exact Hwa). rewrite Hrema, Hnp. reflexivity. }
      rewrite Er0 in Er. injection Er as <-. cbn [fst snd] in E1.
      eapply (attrname_reach_done c d l p q _ (zat l a) r1 Hc Htb Hi Hreg Hsa); [cbn [zat lpos]; lia| |exact E1].
      cbn [zat lpos]. exact Hname. }
  exists v1, l1. split; [exact Hn0|]. split; [exact Hhas|].
  (* the token starts at the cursor and ends at the new cursor *)
  pose proof (safe_eq _ _ _ (next_spec c l Hc Hl) Hn0) as Hs. cbn [step_post] in Hs.
  destruct Hs as (_ & _ & _ & _ & (T1 & T2 & T3 & T4 & T5 & _ & T7 & _) & _).
  assert (so v1 = lpos (lz l)) by (destruct (Z.eq_dec (so v1) (lpos (lz l))); [assumption|destruct T7 as [T7|T7]; [lia|discriminate|discriminate]]).
  lia.
Qed.

(* ---- (iv''') a region at the start of an attribute value or inside a quoted value ------------------------------------- *)
Lemma zat_ws d l a b : html_inv d l -> lpos (lz l) <= a <= b -> b <= len d ->
  (forall i, a <= i < b -> is_ws (getz d i) = true) -> is_ws (getz d b) = false -> ws_loop (zat l a) = Ok (zat l b).
Proof.
  intros Hi Ha Hb Hws Hnw. pose proof Hi as ((Hw & _) & Hlen & _). pose proof (inv_pos0 d l Hi).
  replace (zat l b) with (mv (zat l a) (b - a)) by (unfold zat, mv; cbn [lbuf lpos lstart]; f_equal; lia).
  assert (Hpk : forall i, 0 <= i -> a + i <= len d -> pk (zat l a) i = Some (getz d (a + i))).
  { intros i H0 Hle. pose proof (zat_pkr d l a i Hi ltac:(lia) H0 Hle) as Hpk. unfold pkr in Hpk. destruct (pk (zat l a) i); cbn in Hpk; congruence. }
  unfold ws_loop. apply (ws_loop_func (Z.to_nat (b - a))); [reflexivity|lia|unfold fuel_of, lx_len, zat in *; cbn [lbuf lpos]; lia| |].
  - intros i Hr. exists (getz d (a + i)). split; [apply Hpk; lia|apply Hws; lia].
  - exists (getz d b). split; [|exact Hnw]. replace b with (a + (b - a)) at 2 by lia. apply Hpk; lia.
Qed.

(* the name loop stops at whitespace or '=' where no delimiter starts *)
Lemma attrname_stop c d l i h : cfg_ok c -> tb c <> [] -> html_inv d l -> lpos (lz l) <= i <= len d ->
  prefixb (tb c) (skipz i d) = false -> (is_ws (getz d i) = true \/ getz d i = 61) ->
  attrname_body c (zat l i, h) = Ok (Brk (zat l i, h)).
Proof.
  intros Hc Htb Hi Ha Hpre Hst. pose proof (inv_pos0 d l Hi).
  destruct (zat_wf d l i Hi ltac:(lia)) as [Hw Hrem].
  unfold attrname_body, tmpl_at. rewrite (has_delims_true c Htb).
  rewrite at_rem by (apply Hc || exact Hw). rewrite Hrem, Hpre. cbn [rbind].
  rewrite (zat_pkr d l i 0 Hi) by lia. rewrite Z.add_0_r. cbn [rbind].
  destruct Hst as [Hws| ->]; [|reflexivity].
  apply is_ws_cases in Hws. destruct Hws as [-> |[-> |[-> |[-> | -> ]]]]; reflexivity.
Qed.

(* a byte inside a quoted value at which no delimiter starts *)
Definition value_plain (c : cfg) (d : list Z) (qc : Z) (i : Z) : Prop :=
  0 <= i < len d /\ prefixb (tb c) (skipz i d) = false /\ getz d i <> qc.

Lemma attrq_step c d l qc i h : cfg_ok c -> tb c <> [] -> html_inv d l -> lpos (lz l) <= i -> value_plain c d qc i ->
  attrq_body c qc (zat l i, h) = Ok (Cont (zat l (i + 1), h)).
Proof.
  intros Hc Htb Hi Ha ((Hi0 & Hi1) & Hpre & Hq).
  destruct (zat_wf d l i Hi ltac:(lia)) as [Hw Hrem].
  unfold attrq_body. rewrite (zat_pkr d l i 0 Hi) by lia. rewrite Z.add_0_r. cbn [rbind].
  unfold tmpl_at. rewrite (has_delims_true c Htb).
  rewrite at_rem by (apply Hc || exact Hw). rewrite Hrem, Hpre. cbn [rbind].
  replace (getz d i =? qc) with false by (symmetry; apply Z.eqb_neq; exact Hq).
  unfold eof0. rewrite (at_end_zat d l i Hi Hi1), andb_false_r. reflexivity.
Qed.

Lemma attrq_reach_done c d l qc p q fuel s r : cfg_ok c -> tb c <> [] -> html_inv d l -> is_region c d p q ->
  samele (lz l) s -> lpos s <= p -> (forall i, lpos s <= i < p -> value_plain c d qc i) ->
  loop fuel (attrq_body c qc) (s, false) = Ok r -> done_at (lz l) q (fst r) (snd r).
Proof.
  intros Hc Htb Hi Hreg Hs0 Hp0 Hpl0 H.
  set (I := fun x : lx * bool => done_at (lz l) q (fst x) (snd x) \/
              (snd x = false /\ samele (lz l) (fst x) /\ lpos (fst x) <= p /\ forall i, lpos (fst x) <= i < p -> value_plain c d qc i)).
  refine (loop_inv I (fun x => done_at (lz l) q (fst x) (snd x)) (attrq_body c qc) _ _ (s, false) r _ H); [|right; cbn [fst snd]; tauto].
  clear H r Hs0 Hp0 Hpl0 s. intros [z hz] x HI Hx. unfold I in *. cbn [fst snd] in *. destruct HI as [Hd|(-> & Hs & Hp & Hpl)].
  - assert (hz = true) by apply Hd. subst hz.
    assert (Hl1 : loop 1 (attrq_body c qc) (z, true) = match x with Cont _ => NoFuel | Brk r => Ok r end).
    { cbn [loop]. rewrite Hx. destruct x; reflexivity. }
    unfold attrq_body in Hx.
    destruct (pkr z 0) as [c0| |]; cbn [rbind] in Hx; try discriminate.
    destruct (tmpl_at c z) as [a| |] eqn:Ea; cbn [rbind] in Hx; try discriminate.
    destruct a.
    + destruct (tmpl_skip c z) as [z1| |] eqn:E; cbn [rbind] in Hx; try discriminate.
      destruct (tmpl_rep c z1) as [r1| |] eqn:Er; cbn [rbind] in Hx; try discriminate. injection Hx as <-. left. cbn [fst snd].
      destruct Hd as (S1 & S2 & S3). pose proof (tmpl_skip_run _ _ _ E) as Hk. pose proof (tmpl_rep_samele _ _ _ _ _ Er) as Hr.
      split; [eapply samele_trans; [exact S1|eapply samele_trans; eauto]|]. split; [reflexivity|destruct Hk, Hr; lia].
    + destruct (c0 =? qc); [injection Hx as <-; cbn [fst snd]; eapply done_keep; [exact Hd|apply samele_mv; lia]|].
      destruct (eof0 z c0); injection Hx as <-; cbn [fst snd]; [exact Hd|]. left. eapply done_keep; [exact Hd|apply samele_mv; lia].
  - destruct Hs as [Hsm Hle]. rewrite (same_zat l z Hsm) in Hx.
    destruct (Z.eq_dec (lpos z) p) as [E|E].
    + destruct (tmpl_here c d l p q Hc Hi ltac:(lia) Hreg) as (Hat & Hsk & Hq). rewrite E in Hx.
      unfold attrq_body in Hx. rewrite (zat_pkr d l p 0 Hi) in Hx by lia. cbn [rbind] in Hx.
      unfold tmpl_at in Hx. rewrite (has_delims_true c Htb), Hat in Hx. cbn [rbind] in Hx. rewrite Hsk in Hx. cbn [rbind] in Hx.
      destruct (tmpl_rep c (zat l q)) as [r1| |] eqn:Er; cbn [rbind] in Hx; try discriminate. injection Hx as <-. left. cbn [fst snd].
      pose proof (tmpl_rep_samele _ _ _ _ _ Er) as Hr. destruct Hr as [Hr1 Hr2]. unfold zat in Hr1, Hr2. cbn [lpos] in Hr2.
      split; [split; [eapply same_trans; [|exact Hr1]; split; reflexivity|lia]|]. split; [reflexivity|lia].
    + rewrite (attrq_step c d l qc (lpos z) false Hc Htb Hi Hle (Hpl (lpos z) ltac:(lia))) in Hx. injection Hx as <-. right. cbn [fst snd].
      split; [reflexivity|]. split; [split; [split; reflexivity|unfold zat; cbn [lpos]; lia]|]. unfold zat; cbn [lpos]. split; [lia|]. intros i Hr. apply Hpl. lia.
Qed.

(* the name loop over name bytes up to b, where it stops *)
Lemma attrname_run_stop c d l b fuel s r : cfg_ok c -> tb c <> [] -> html_inv d l -> b <= len d ->
  prefixb (tb c) (skipz b d) = false -> (is_ws (getz d b) = true \/ getz d b = 61) ->
  samele (lz l) s -> lpos s <= b -> (forall i, lpos s <= i < b -> name_plain c d i) ->
  loop fuel (attrname_body c) (s, false) = Ok r -> r = (zat l b, false).
Proof.
  intros Hc Htb Hi Hb Hpre Hst Hs0 Hp0 Hpl0 H.
  set (I := fun x : lx * bool => snd x = false /\ samele (lz l) (fst x) /\ lpos (fst x) <= b /\ forall i, lpos (fst x) <= i < b -> name_plain c d i).
  refine (loop_inv I (fun x => x = (zat l b, false)) (attrname_body c) _ _ (s, false) r _ H); [|cbn [fst snd]; unfold I; cbn [fst snd]; tauto].
  clear H r Hs0 Hp0 Hpl0 s. intros [z hz] x HI Hx. unfold I in *. cbn [fst snd] in *. destruct HI as (-> & Hs & Hp & Hpl).
  destruct Hs as [Hsm Hle]. rewrite (same_zat l z Hsm) in Hx.
  destruct (Z.eq_dec (lpos z) b) as [E|E].
  - rewrite E in Hx. rewrite (attrname_stop c d l b false Hc Htb Hi ltac:(lia) Hpre Hst) in Hx. injection Hx as <-. reflexivity.
  - rewrite (attrname_step c d l (lpos z) false Hc Htb Hi Hle (Hpl (lpos z) ltac:(lia))) in Hx. injection Hx as <-. cbn [fst snd].
    split; [reflexivity|]. split; [split; [split; reflexivity|unfold zat; cbn [lpos]; lia]|]. unfold zat; cbn [lpos]. split; [lia|]. intros i Hr. apply Hpl. lia.
Qed.

(* the shape: ws [lpos,a) name [a,b) ws [b,e) '=' at e, ws (e,v), then at v either the region (p = v) or a quote qc
   followed by value bytes [v+1,p) without delimiter start and without the quote *)
Lemma html_template_attr_value_proof : forall c d l a b e v p q, cfg_ok c -> tb_plain c -> html_inv d l -> intag l = true ->
  lstart (lz l) = lpos (lz l) -> lpos (lz l) <= a -> a < b -> b <= e -> e < v -> v <= p ->
  (forall i, lpos (lz l) <= i < a -> is_ws (getz d i) = true) ->
  (forall i, a <= i < b -> name_plain c d i) ->
  prefixb (tb c) (skipz b d) = false ->
  (forall i, b <= i < e -> is_ws (getz d i) = true) -> getz d e = 61 ->
  (forall i, e < i < v -> is_ws (getz d i) = true) ->
  (v = p \/ (prefixb (tb c) (skipz v d) = false /\ (getz d v = 34 \/ getz d v = 39) /\
             forall i, v < i < p -> value_plain c d (getz d v) i)) ->
  is_region c d p q ->
  exists tk l', next c l = Ok (AttributeT, Some tk, l') /\ lhas l' = true /\ so tk = lpos (lz l) /\ q <= so tk + sn tk.
Proof.
  intros c d l a b e v p q Hc Hplain Hi Hit Hcl Ha Hab Hbe Hev Hvp Hws Hname Hpreb Hws2 He61 Hws3 Hval Hreg.
  pose proof Hplain as (x & t & Etb & Hxws & Hx62 & Hx47).
  assert (Htb : tb c <> []) by (rewrite Etb; discriminate).
  pose proof Hi as (Hl & Hlen & Hsuf & _). pose proof Hl as [Hw _]. pose proof (inv_pos0 d l Hi) as H0.
  destruct (tmpl_here c d l p q Hc Hi ltac:(lia) Hreg) as (Hatp & Hskp & Hq).
  assert (Hx0 : getz d p = x).
  { pose proof Hreg as (_ & _ & Hpre & _). rewrite Etb in Hpre. apply prefixb_head in Hpre. destruct Hpre as [s' Es].
    unfold getz. rewrite <- (Z.add_0_r p), <- peekz_skipz by lia. rewrite Es, peekz_cons_0. reflexivity. }
  destruct (Hname a ltac:(lia)) as ((_ & Hf4) & Hnpa & Hf1 & _ & Hf2 & Hf3).
  assert (Hvnw : is_ws (getz d v) = false).
  { destruct Hval as [->|(_ & [E|E] & _)]; [rewrite Hx0; exact Hxws|rewrite E; reflexivity|rewrite E; reflexivity]. }
  destruct (html_total_step_proof c d l Hc Hi) as (ty & tk & l' & Hn & Hi').
  pose proof Hn as Hn0.
  unfold next in Hn. cbn [lz rawtag intag lerr ltext lattr lhas] in Hn. rewrite Hit in Hn.
  unfold next_intag in Hn. cbn [lz rawtag intag lerr ltext lattr lhas] in Hn.
  assert (Hz1 : ws_loop (lz l) = Ok (zat l a)).
  { rewrite <- (zat_here l) at 1. apply (zat_ws d l _ a Hi); try lia; assumption. }
  rewrite Hz1 in Hn. cbn [rbind] in Hn.
  rewrite (zat_pkr d l a 0 Hi) in Hn by lia. rewrite Z.add_0_r in Hn. cbn [rbind] in Hn.
  unfold eof0 in Hn. rewrite (at_end_zat d l a Hi Hf4), andb_false_r in Hn.
  replace (getz d a =? 62) with false in Hn by (symmetry; apply Z.eqb_neq; exact Hf2).
  assert (Hisattr : (if getz d a =? 47 then c1 <-- pkr (zat l a) 1;; Ok (negb (c1 =? 62)) else Ok true) = Ok true).
  { destruct (getz d a =? 47) eqn:E47; [|reflexivity]. rewrite (zat_pkr d l a 1 Hi) by lia. cbn [rbind].
    replace (getz d (a + 1) =? 62) with false; [reflexivity|]. symmetry. apply Z.eqb_neq. intros E. apply Hf3. b2p. tauto. }
  rewrite Hisattr in Hn. cbn [rbind] in Hn.
  match type of Hn with rbind ?e _ = _ => destruct e as [[v1 l1]| |] eqn:Ea end; cbn [rbind] in Hn; try discriminate.
  cbn [fst snd] in Hn. injection Hn as <- <- <-.
  assert (Hsa : samele (lz l) (zat l a)) by (split; [split; reflexivity|unfold zat; cbn [lpos]; lia]).
  (* through shift_attribute *)
  assert (Hfin : lhas l1 = true /\ q <= lpos (lz l1)).
  { unfold shift_attribute in Ea. cbn [lhas] in Ea.
    destruct (zat_wf d l a Hi ltac:(lia)) as [Hwa Hrema].
    assert (Er0 : tmpl_rep_guarded c (zat l a) false = Ok (zat l a, false)).
    { unfold tmpl_rep_guarded. rewrite (has_delims_true c Htb). unfold tmpl_rep, fuel_of. cbn [loop]. unfold tmpl_rep_body. cbn [fst snd].
      rewrite at_rem by (apply Hc || exact Hwa). rewrite Hrema, Hnpa. reflexivity. }
    rewrite Er0 in Ea. cbn [rbind fst snd] in Ea.
    destruct (loop (fuel_of (zat l a)) (attrname_body c) (zat l a, false)) as [r1| |] eqn:E1; cbn [rbind] in Ea; try discriminate.
    assert (Hr1 : r1 = (zat l b, false)).
    { eapply (attrname_run_stop c d l b _ (zat l a) r1 Hc Htb Hi ltac:(lia) Hpreb); [| exact Hsa|unfold zat; cbn [lpos]; lia|unfold zat; cbn [lpos]; exact Hname|exact E1].
      destruct (Z.eq_dec b e) as [->|Hne]; [right; exact He61|left; apply Hws2; lia]. }
    subst r1. cbn [fst snd] in Ea.
    rewrite (zat_ws d l b e Hi ltac:(lia) ltac:(lia) Hws2 ltac:(rewrite He61; reflexivity)) in Ea. cbn [rbind] in Ea.
    rewrite (zat_pkr d l e 0 Hi) in Ea by lia. rewrite Z.add_0_r, He61 in Ea. cbn [rbind Z.eqb] in Ea.
    replace (mv (zat l e) 1) with (zat l (e + 1)) in Ea by reflexivity.
    rewrite (zat_ws d l (e + 1) v Hi ltac:(lia) ltac:(lia) ltac:(intros i Hr; apply Hws3; lia) Hvnw) in Ea. cbn [rbind] in Ea.
    rewrite (zat_pkr d l v 0 Hi) in Ea by lia. rewrite Z.add_0_r in Ea. cbn [rbind Pos.eqb] in Ea.
    match type of Ea with rbind ?e _ = _ => destruct e as [[[z5 has5] av]| |] eqn:E3 end; cbn [rbind] in Ea; try discriminate.
    assert (H5 : done_at (lz l) q z5 has5).
    { unfold tmpl_at in E3. rewrite (has_delims_true c Htb) in E3.
      destruct Hval as [->|(Hprev & Hqc & Hvp')].
      - rewrite Hatp in E3. cbn [rbind] in E3. rewrite Hskp in E3. cbn [rbind] in E3.
        destruct (tmpl_rep c (zat l q)) as [r4| |] eqn:Er4; cbn [rbind] in E3; try discriminate. cbn [fst snd] in E3.
        destruct (lexeme_from (fst r4) (mark (zat l p))) as [vv| |]; cbn [rbind] in E3; try discriminate. injection E3 as <- <- _.
        pose proof (tmpl_rep_samele _ _ _ _ _ Er4) as [Hr1 Hr2]. unfold zat in Hr1, Hr2. cbn [lpos] in Hr2.
        split; [split; [eapply same_trans; [|exact Hr1]; split; reflexivity|lia]|]. split; [reflexivity|lia].
      - destruct (zat_wf d l v Hi ltac:(lia)) as [Hwv Hremv].
        rewrite at_rem in E3 by (apply Hc || exact Hwv). rewrite Hremv, Hprev in E3. cbn [rbind] in E3.
        replace ((getz d v =? 34) || (getz d v =? 39)) with true in E3 by (destruct Hqc as [-> | ->]; reflexivity).
        replace (mv (zat l v) 1) with (zat l (v + 1)) in E3 by reflexivity.
        destruct (loop (fuel_of (zat l v)) (attrq_body c (getz d v)) (zat l (v + 1), false)) as [r| |] eqn:Er; cbn [rbind] in E3; try discriminate.
        destruct (lexeme_from (fst r) (mark (zat l v))) as [vv| |]; cbn [rbind] in E3; try discriminate. injection E3 as <- <- _.
        eapply (attrq_reach_done c d l (getz d v) p q _ (zat l (v + 1)) r Hc Htb Hi Hreg); [| | |exact Er].
        + split; [split; reflexivity|unfold zat; cbn [lpos]; lia].
        + unfold zat; cbn [lpos]. destruct (Z.eq_dec v p); [|lia]. subst p. exfalso.
          destruct Hreg as (_ & _ & Hpp & _). congruence.
        + unfold zat; cbn [lpos]. intros i Hr. apply Hvp'. lia. }
    assert (Hh5 : has5 = true) by apply H5. subst has5.
    destruct (tmpl_rep_guarded c z5 true) as [r6| |] eqn:E6; cbn [rbind] in Ea; try discriminate.
    pose proof (guarded_done _ _ _ _ _ H5 E6) as H6.
    match type of Ea with rbind ?e _ = _ => destruct e as [tt| |] end; cbn [rbind] in Ea; try discriminate.
    unfold shiftv in Ea. match type of Ea with rbind (if ?b then _ else _) _ = _ => destruct b end; cbn [rbind] in Ea; try discriminate.
    injection Ea as _ <-. cbn [lhas lz fst snd skip lpos]. destruct H6 as (_ & H6a & H6b). split; assumption. }
  destruct Hfin as [Hhas Hpos].
  exists v1, l1. split; [exact Hn0|]. split; [exact Hhas|].
  pose proof (safe_eq _ _ _ (next_spec c l Hc Hl) Hn0) as Hs. cbn [step_post] in Hs.
  destruct Hs as (_ & _ & _ & _ & (T1 & T2 & T3 & T4 & T5 & _ & T7 & _) & _).
  assert (so v1 = lpos (lz l)) by (destruct (Z.eq_dec (so v1) (lpos (lz l))); [assumption|destruct T7 as [T7|T7]; [lia|discriminate|discriminate]]).
  lia.
Qed.

(* non-vacuity of the further step: <script>a</b{{y}}</script> : from 8 over "a" and "</b" to the region at 12 *)
Example html_template_rawtext_reach_nonvacuous2 :
  let d := [60;115;99;114;105;112;116;62; 97; 60;47;98; 123;123;121;125;125; 60;47;115;99;114;105;112;116;62] in
  raw_reach go_tmpl html_hash_Script d 8 12 /\ is_region go_tmpl d 12 17.
Proof.
  split.
  - apply rr_byte; [split; [vm_compute; split; [discriminate|reflexivity]|split; [vm_compute; reflexivity|left; vm_compute; discriminate]]|].
    apply rr_endtag; [vm_compute; reflexivity|vm_compute; reflexivity|vm_compute; reflexivity|vm_compute; reflexivity|].
    change (9 + 2 + len (letter_run (skipz (9 + 2) [60;115;99;114;105;112;116;62; 97; 60;47;98; 123;123;121;125;125; 60;47;115;99;114;105;112;116;62]))) with 12.
    apply rr_refl.
  - split; [lia|]. split; [discriminate|]. split; vm_compute; reflexivity.
Qed.
