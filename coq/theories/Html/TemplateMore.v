(* Html/TemplateMore.v — template regions in raw text beyond the first byte of the content, and the converse
   (HasTemplate() = true only if a region lies inside the token). *)
From Verif Require Import Common.Base Common.Tactics Common.Lx Gen.Tables Html.Model Html.Lemmas Html.ListLemmas
     Html.Hash Html.Safety Html.Step Html.Spec Html.RawText Html.Func Html.Proofs Html.Template Html.Wf.
From Coq Require Import ZifyBool.

(* ---- cursors at a position of the input ----------------------------------------------------------------------------- *)
Definition zat (l : lexer) (a : Z) : lx := mkLx (lbuf (lz l)) a (lstart (lz l)).

Lemma zat_here l : zat l (lpos (lz l)) = lz l.
Proof. unfold zat. destruct (lz l); reflexivity. Qed.

Lemma same_zat l s : same (lz l) s -> s = zat l (lpos s).
Proof. intros [Hb Hs]. unfold zat. destruct s as [b p st]. cbn in *. subst. reflexivity. Qed.

Lemma inv_pos0 d l : html_inv d l -> 0 <= lpos (lz l).
Proof. intros ((Hw & _) & _). destruct Hw as (_ & ? & _). lia. Qed.

Lemma zat_wf d l a : html_inv d l -> lpos (lz l) <= a <= len d -> lx_wf (zat l a) /\ rem (zat l a) = skipz a d.
Proof.
  intros Hi Ha. pose proof Hi as ((Hw & _) & Hlen & _).
  assert (E : zat l a = mv (lz l) (a - lpos (lz l))) by (unfold zat, mv; f_equal; lia).
  destruct (rem_mv (lz l) (a - lpos (lz l)) Hw) as [Hr Hw']; [rewrite len_rem by exact Hw; lia|].
  rewrite E. split; [exact Hw'|]. rewrite Hr, (rem_inv d l Hi).
  assert (0 <= lpos (lz l)) by (destruct Hw as (_ & ? & _); lia).
  rewrite skipz_skipz by lia. f_equal. lia.
Qed.

Lemma getz_app0 (d : list Z) j : j <= len d -> getz (d ++ [0]) j = getz d j.
Proof.
  intros Hj. destruct (Z.lt_ge_cases j 0) as [Hn|Hn]; [unfold getz; rewrite !peekz_neg by lia; reflexivity|].
  destruct (Z.eq_dec j (len d)) as [->|Hne]; [|apply getz_app_l; lia].
  unfold getz. rewrite peekz_app_r by lia. replace (len d - len d) with 0 by lia.
  rewrite (proj2 (peekz_none_iff d (len d))) by lia. reflexivity.
Qed.

Lemma zat_pkr d l a i : html_inv d l -> lpos (lz l) <= a -> 0 <= i -> a + i <= len d -> pkr (zat l a) i = Ok (getz d (a + i)).
Proof.
  intros ((Hw & _) & _ & Hsuf & _) Ha Hi Hle. unfold pkr, pk, zat. cbn [lbuf lpos]. rewrite Hsuf by lia.
  assert (0 <= lpos (lz l)) by (destruct Hw as (_ & ? & _); lia).
  rewrite <- getz_app0 by lia. unfold getz.
  destruct (peekz_in_range (d ++ [0]) (a + i)) as [c ->]; [|reflexivity].
  rewrite len_app. change (len [0]) with 1. lia.
Qed.

(* the region that starts at a cursor is the declarative one *)
Lemma region_here c d l a : html_inv d l -> lpos (lz l) <= a <= len d -> tb c <> [] ->
  prefixb (tb c) (skipz a d) = true -> is_region c d a (region_end_here c (zat l a)).
Proof.
  intros Hi Ha Htb Hpre. destruct (zat_wf d l a Hi Ha) as [Hw Hrem].
  pose proof Hi as ((Hwl & _) & _). assert (0 <= lpos (lz l)) by (destruct Hwl as (_ & ? & _); lia).
  split; [lia|]. split; [exact Htb|]. split; [exact Hpre|].
  unfold region_end_here. rewrite Hrem. cbn [zat lpos].
  rewrite (region_len_fuel (te c) (length (skipz a d)) (length d)).
  2: apply length_skipz_le'.
  2: { eapply Nat.le_trans; [apply length_skipz_le'|apply length_skipz_le']. }
  rewrite skipz_skipz by (pose proof (len_nonneg (tb c)); lia). reflexivity.
Qed.

Lemma is_region_fun c d p q q' : is_region c d p q -> is_region c d p q' -> q = q'.
Proof. intros (_ & _ & _ & ->) (_ & _ & _ & ->). reflexivity. Qed.

Lemma is_region_in c d p q : is_region c d p q -> p + len (tb c) <= len d /\ p < q.
Proof.
  intros (Hp & Htb & Hpre & ->). destruct (tb c) as [|x t] eqn:Etb; [congruence|].
  pose proof (prefixb_len _ _ Hpre) as Hl. rewrite len_cons in *. pose proof (len_nonneg t).
  pose proof (region_len_bound (te c) (length d) (skipz (p + (1 + len t)) d)).
  split; [|lia].
  destruct (Z.le_gt_cases p (len d)) as [Hle|Hgt]; [rewrite len_skipz in Hl by lia; lia|].
  exfalso. apply prefixb_head in Hpre. destruct Hpre as [s' Es].
  assert (E0 : skipz p d = []) by (unfold skipz; apply skipn_all2; unfold len in *; lia). congruence.
Qed.

(* ---- one iteration of the raw-text loop at a position --------------------------------------------------------------- *)
(* a byte the scanner steps over: not a delimiter start, and if it is '<' then not "</" and (in script) not "<!" *)
Definition raw_plain (c : cfg) (raw : Z) (d : list Z) (a : Z) : Prop :=
  0 <= a < len d /\
  ((getz d a <> 60 /\ prefixb (tb c) (skipz a d) = false) \/
   (getz d a = 60 /\ getz d (a + 1) <> 47 /\ (raw <> html_hash_Script \/ getz d (a + 1) <> 33))).

(* p is reached from a over plain bytes and whole regions *)
Inductive raw_reach (c : cfg) (raw : Z) (d : list Z) : Z -> Z -> Prop :=
| rr_refl a : raw_reach c raw d a a
| rr_byte a p : raw_plain c raw d a -> raw_reach c raw d (a + 1) p -> raw_reach c raw d a p
| rr_region a q p : is_region c d a q -> raw_reach c raw d q p -> raw_reach c raw d a p.

Lemma at_end_zat d l a : html_inv d l -> a < len d -> at_end (zat l a) = false.
Proof. intros (_ & Hlen & _) Ha. unfold at_end, zat, lx_len in *. cbn [lbuf lpos]. apply Z.leb_gt. lia. Qed.

Lemma raw_step_plain c raw d l a h x t : cfg_ok c -> html_inv d l -> tb c = x :: t -> x <> 60 ->
  lpos (lz l) <= a -> raw_plain c raw d a ->
  rawtext_body c raw (zat l a, h) = Ok (Cont (zat l (a + 1), h)).
Proof.
  intros Hc Hi Etb Hx Ha ((Ha0 & Ha1) & Hcase).
  destruct (zat_wf d l a Hi ltac:(lia)) as [Hw Hrem].
  unfold rawtext_body. rewrite (zat_pkr d l a 0 Hi) by lia. rewrite Z.add_0_r. cbn [rbind].
  destruct Hcase as [(H60 & Hpre)|(H60 & H47 & Hsc)].
  - replace (getz d a =? 60) with false by (symmetry; apply Z.eqb_neq; exact H60).
    unfold tmpl_at. replace (has_delims c) with true by (unfold has_delims; rewrite Etb; reflexivity).
    rewrite at_rem by (apply Hc || exact Hw). rewrite Hrem, Hpre. cbn [rbind].
    unfold eof0. rewrite (at_end_zat d l a Hi Ha1), andb_false_r. reflexivity.
  - rewrite H60. cbn [Z.eqb]. rewrite (zat_pkr d l a 1 Hi) by lia. cbn [rbind].
    replace (getz d (a + 1) =? 47) with false by (symmetry; apply Z.eqb_neq; exact H47).
    replace ((raw =? html_hash_Script) && (getz d (a + 1) =? 33)) with false.
    + cbn [rbind]. reflexivity.
    + symmetry. apply andb_false_iff. destruct Hsc as [Hs|Hs]; [left|right]; apply Z.eqb_neq; exact Hs.
Qed.

Lemma raw_step_region c raw d l a q h x t : cfg_ok c -> html_inv d l -> tb c = x :: t -> x <> 60 ->
  lpos (lz l) <= a -> is_region c d a q ->
  rawtext_body c raw (zat l a, h) = Ok (Cont (zat l q, true)) /\ a < q <= len d.
Proof.
  intros Hc Hi Etb Hx Ha Hreg. destruct (is_region_in _ _ _ _ Hreg) as [Hin Hlt]. pose proof (inv_pos0 d l Hi) as Hp0.
  assert (Hlt0 : 0 < len (tb c)) by (rewrite Etb, len_cons; pose proof (len_nonneg t); lia).
  destruct (zat_wf d l a Hi ltac:(lia)) as [Hw Hrem].
  pose proof Hreg as (_ & Htb & Hpre & _).
  assert (Hpre' : prefixb (tb c) (rem (zat l a)) = true) by (rewrite Hrem; exact Hpre).
  destruct (tmpl_skip_here c (zat l a) Hc Hw Hpre') as [Hsk Hle].
  assert (Eq : region_end_here c (zat l a) = q).
  { eapply is_region_fun; [|exact Hreg]. apply region_here; [exact Hi|lia|exact Htb|exact Hpre]. }
  rewrite Eq in *.
  pose proof Hi as (_ & Hlen & _). split; [|unfold lx_len, zat in *; cbn [lbuf] in *; lia].
  assert (Hc0 : getz d a = x).
  { rewrite Etb in Hpre. apply prefixb_head in Hpre. destruct Hpre as [s' Es].
    unfold getz. rewrite <- (Z.add_0_r a), <- peekz_skipz by lia. rewrite Es, peekz_cons_0. reflexivity. }
  unfold rawtext_body. rewrite (zat_pkr d l a 0 Hi) by lia. rewrite Z.add_0_r, Hc0. cbn [rbind].
  replace (x =? 60) with false by (symmetry; apply Z.eqb_neq; exact Hx).
  unfold tmpl_at. replace (has_delims c) with true by (unfold has_delims; rewrite Etb; reflexivity).
  rewrite at_rem by (apply Hc || exact Hw). rewrite Hpre'. cbn [rbind]. rewrite Hsk. cbn [rbind]. reflexivity.
Qed.

Lemma loop_step {S R} (body : S -> res (lp S R)) fuel s s' r :
  body s = Ok (Cont s') -> loop fuel body s' = Ok r -> loop (Datatypes.S fuel) body s = Ok r.
Proof. intros Hb Hl. cbn [loop]. rewrite Hb. exact Hl. Qed.

Lemma zat_loop_step {F R} (body : lx * F -> res (lp (lx * F) R)) d l a a' (h h' : F) r : html_inv d l ->
  lpos (lz l) <= a -> a < a' <= len d ->
  body (zat l a, h) = Ok (Cont (zat l a', h')) -> loop (fuel_of (zat l a')) body (zat l a', h') = Ok r ->
  loop (fuel_of (zat l a)) body (zat l a, h) = Ok r.
Proof.
  intros Hi Ha Ha' Hb Hl. pose proof Hi as ((Hw & _) & Hlen & _). pose proof (lx_wf_len _ Hw) as [Hbl _].
  unfold fuel_of at 1. eapply loop_step; [exact Hb|]. eapply loop_fuel_mono; [exact Hl|].
  unfold fuel_of, zat. cbn [lbuf lpos]. lia.
Qed.

Lemma raw_reach_loop c raw d l x t : cfg_ok c -> html_inv d l -> tb c = x :: t -> x <> 60 ->
  forall a p, raw_reach c raw d a p -> lpos (lz l) <= a <= len d ->
  a <= p <= len d /\
  forall h, exists h', (h = true -> h' = true) /\
    forall r, loop (fuel_of (zat l p)) (rawtext_body c raw) (zat l p, h') = Ok r ->
              loop (fuel_of (zat l a)) (rawtext_body c raw) (zat l a, h) = Ok r.
Proof.
  intros Hc Hi Etb Hx a p Hr. induction Hr as [a|a p Hpl Hr IH|a q p Hreg Hr IH]; intros Ha.
  - split; [lia|]. intros h. exists h. split; [tauto|]. intros r Hl. exact Hl.
  - pose proof Hpl as ((_ & Ha1) & _). destruct (IH ltac:(lia)) as [Hp IH'].
    split; [lia|]. intros h. destruct (IH' h) as (h' & Hh & Hl). exists h'. split; [exact Hh|].
    intros r Hlr. eapply (zat_loop_step _ d l a (a + 1)); [exact Hi|lia|lia| |apply Hl; exact Hlr].
    apply (raw_step_plain c raw d l a h x t); assumption || lia.
  - destruct (raw_step_region c raw d l a q true x t Hc Hi Etb Hx ltac:(lia) Hreg) as [_ Hq].
    destruct (IH ltac:(lia)) as [Hp IH'].
    split; [lia|]. intros h. destruct (IH' true) as (h' & Hh & Hl). exists h'. split; [intros _; apply Hh; reflexivity|].
    intros r Hlr. destruct (raw_step_region c raw d l a q h x t Hc Hi Etb Hx ltac:(lia) Hreg) as [Hb _].
    eapply (zat_loop_step _ d l a q); [exact Hi|lia|lia|exact Hb|apply Hl; exact Hlr].
Qed.

(* ---- (v') a region reached over plain bytes and earlier regions lies inside the Text token ------------------------ *)
Lemma html_template_rawtext_reach_proof : forall c d l p q, cfg_ok c -> html_inv d l -> intag l = false ->
  rawtag l <> 0 -> rawtag l <> html_hash_Plaintext -> (exists x t, tb c = x :: t /\ x <> 60) ->
  raw_reach c (rawtag l) d (lpos (lz l)) p -> is_region c d p q ->
  exists v l', next c l = Ok (TextT, Some v, l') /\ lhas l' = true /\ so v = lpos (lz l) /\ q <= so v + sn v.
Proof.
  intros c d l p q Hc Hi Hit Hraw Hnpl (x & t & Etb & Hx60) Hreach Hreg.
  pose proof Hi as (Hl & Hlen & Hsuf & _). pose proof Hl as [Hw _].
  pose proof (lwf_clean l Hl Hit) as Hcl.
  assert (Hpos : lpos (lz l) <= lpos (lz l) <= len d) by (destruct Hw as (_ & ? & ?); lia).
  destruct (raw_reach_loop c (rawtag l) d l x t Hc Hi Etb Hx60 _ _ Hreach Hpos) as [Hp Hloop].
  destruct (Hloop false) as (h' & _ & Hl1).
  destruct (raw_step_region c (rawtag l) d l p q h' x t Hc Hi Etb Hx60 ltac:(lia) Hreg) as [Hb Hq].
  destruct (zat_wf d l q Hi ltac:(lia)) as [Hwq _].
  destruct (safe_inv _ _ (rawtext_loop_spec c (rawtag l) (zat l q) true Hc Hwq)) as (r & Er & Har).
  pose proof (rawtext_loop_has _ _ _ _ _ Er eq_refl) as Hhas.
  assert (Hl2 : loop (fuel_of (lz l)) (rawtext_body c (rawtag l)) (lz l, false) = Ok r).
  { rewrite <- (zat_here l). apply Hl1. eapply (zat_loop_step _ d l p q); [exact Hi|lia|lia|exact Hb|exact Er]. }
  unfold next. cbn [lz rawtag intag lerr ltext lattr lhas]. rewrite Hit.
  replace (negb (rawtag l =? 0)) with true by (symmetry; apply negb_true_iff, Z.eqb_neq; exact Hraw).
  unfold shift_rawtext. replace (rawtag l =? html_hash_Plaintext) with false by (symmetry; apply Z.eqb_neq; exact Hnpl).
  rewrite Hl2. cbn [rbind].
  pose proof Har as (A1 & A2 & A3). cbn [zat lbuf lstart lpos] in A1, A2, A3.
  assert (Hwr : lx_wf (fst r)) by eauto using adv_wf.
  rewrite shiftv_spec by exact Hwr. cbn [rbind fst snd sn].
  replace (0 <? lpos (fst r) - lstart (fst r)) with true by (symmetry; apply Z.ltb_lt; lia).
  eexists. eexists. split; [reflexivity|]. cbn [lhas so sn]. split; [exact Hhas|]. split; lia.
Qed.

(* ---- (v'') the converse: HasTemplate() = true on the raw-text token only if a region lies inside it --------------- *)
Lemma rawtext_loop_regions c raw d l fuel r : cfg_ok c -> tb c <> [] -> html_inv d l ->
  loop fuel (rawtext_body c raw) (lz l, false) = Ok r -> snd r = true ->
  exists p q, lpos (lz l) <= p /\ q <= lpos (fst r) /\ is_region c d p q.
Proof.
  intros Hc Htb Hi H. pose proof Hi as ((Hw & _) & Hlen & _).
  set (I := fun s : lx * bool => samele (lz l) (fst s) /\
              (snd s = true -> exists p q, lpos (lz l) <= p /\ q <= lpos (fst s) /\ is_region c d p q)).
  assert (HI : I r); [|intros Hr; exact (proj2 HI Hr)].
  refine (loop_inv I I (rawtext_body c raw) _ _ (lz l, false) r _ H); [|split; [apply samele_refl|cbn; discriminate]].
  clear H r. intros [s h0] x (Hs & Hreg) Hx. cbn [fst snd] in *.
  (* moving on with the same flag *)
  assert (Hkeep : forall s', samele s s' -> I (s', h0)).
  { intros s' Hs'. split; [eapply samele_trans; eauto|]. cbn [fst snd]. intros Hh. destruct (Hreg Hh) as (p & q & ? & ? & ?).
    exists p, q. destruct Hs' as [_ ?]. split; [assumption|split; [lia|assumption]]. }
  unfold rawtext_body in Hx.
  destruct (pkr s 0) as [c0| |] eqn:E0; cbn [rbind] in Hx; try discriminate.
  destruct (c0 =? 60).
  - destruct (pkr s 1) as [c1| |]; cbn [rbind] in Hx; try discriminate.
    destruct (c1 =? 47).
    + destruct (letters_loop (mv s 2)) as [z2| |] eqn:El; cbn [rbind] in Hx; try discriminate.
      destruct (letters_loop_run _ _ El) as (Hs2 & Hle2 & _). cbn [mv lpos] in Hle2.
      assert (Hsz2 : samele s z2) by (split; [eapply same_trans; [apply (same_mv s 2)|exact Hs2]|lia]).
      destruct (hash_lexeme_from z2 (mark s + 2)) as [h| |]; cbn [rbind] in Hx; try discriminate.
      destruct (h =? raw); [|injection Hx as <-; apply Hkeep; exact Hsz2].
      destruct (pkr z2 0) as [cz| |]; cbn [rbind] in Hx; try discriminate.
      destruct (is_tagend cz || eof0 z2 cz); injection Hx as <-; [|apply Hkeep; exact Hsz2].
      apply Hkeep. split; [eapply same_trans; [apply Hsz2|apply same_rewind]|].
      unfold rewind, mark. cbn [lpos]. destruct Hs2 as [_ Hst2]. cbn [mv lstart] in Hst2. lia.
    + destruct (if (raw =? html_hash_Script) && (c1 =? 33)
                then c2 <-- pkr s 2;; (if c2 =? 45 then c3 <-- pkr s 3;; Ok (c3 =? 45) else Ok false)
                else Ok false) as [sc| |]; cbn [rbind] in Hx; try discriminate.
      destruct sc; [|injection Hx as <-; apply Hkeep, samele_mv; lia].
      destruct (loop (fuel_of s) script_comment_body (mv s 4, false)) as [r2| |] eqn:Er2; cbn [rbind] in Hx; try discriminate.
      pose proof (script_comment_run _ _ _ _ Er2) as Hr2.
      destruct r2 as [z'|z']; injection Hx as <-; apply Hkeep.
      * eapply samele_trans; [apply (samele_mv s 4); lia|exact Hr2].
      * eapply samele_trans; [apply (samele_mv s 4); lia|apply Hr2].
  - destruct (tmpl_at c s) as [t| |] eqn:Et; cbn [rbind] in Hx; try discriminate.
    destruct t.
    + destruct (tmpl_skip c s) as [z'| |] eqn:Ez'; cbn [rbind] in Hx; try discriminate. injection Hx as <-.
      (* the cursor is inside the input *)
      assert (Hp0 : pk s 0 = Some c0) by (unfold pkr in E0; destruct (pk s 0); cbn in E0; congruence).
      destruct Hs as [Hsm Hle].
      assert (Ha : lpos s <= len d).
      { unfold pk in Hp0. apply peekz_some in Hp0. destruct Hsm as [Hb _]. rewrite Hb in Hp0. unfold lx_len in Hlen. lia. }
      rewrite (same_zat l s Hsm) in Et, Ez'.
      destruct (zat_wf d l (lpos s) Hi ltac:(lia)) as [Hws Hrem].
      unfold tmpl_at in Et. replace (has_delims c) with true in Et by (unfold has_delims; destruct (tb c); congruence).
      rewrite at_rem in Et by (apply Hc || exact Hws). injection Et as Hpre.
      destruct (tmpl_skip_here c _ Hc Hws Hpre) as [Hsk Hle']. rewrite Hsk in Ez'. injection Ez' as <-.
      pose proof (region_here c d l (lpos s) Hi ltac:(lia) Htb ltac:(rewrite <- Hrem; exact Hpre)) as Hreg'.
      destruct (is_region_in _ _ _ _ Hreg') as [_ Hlt].
      split; cbn [fst snd].
      * split; [split; reflexivity|cbn [lpos]; lia].
      * intros _. exists (lpos s), (region_end_here c (zat l (lpos s))). cbn [lpos]. split; [lia|]. split; [lia|exact Hreg'].
    + destruct (eof0 s c0); injection Hx as <-; [apply Hkeep, samele_refl|apply Hkeep, samele_mv; lia].
Qed.

Lemma html_template_rawtext_converse_proof : forall c d l ty tk l', cfg_ok c -> tb c <> [] -> html_inv d l ->
  intag l = false -> rawtag l <> 0 ->
  lpos (lz l) < len d -> ~ end_tag_at (rawtag l) (d ++ [0]) (lpos (lz l)) ->        (* the content is not empty *)
  next c l = Ok (ty, tk, l') -> lhas l' = true ->
  exists p q, lpos (lz l) <= p /\ q <= lpos (lz l') /\ is_region c d p q.
Proof.
  intros c d l ty tk l' Hc Htb Hi Hit Hraw Hne Hnoend Hn Hhas.
  pose proof Hi as (Hl & Hlen & Hsuf & _). pose proof Hl as [Hw _].
  pose proof (lwf_clean l Hl Hit) as Hcl.
  assert (H0 : 0 <= lpos (lz l)) by (destruct Hw as (_ & ? & _); lia).
  unfold next in Hn. cbn [lz rawtag intag lerr ltext lattr lhas] in Hn. rewrite Hit in Hn.
  replace (negb (rawtag l =? 0)) with true in Hn by (symmetry; apply negb_true_iff; apply Z.eqb_neq; exact Hraw).
  unfold shift_rawtext in Hn.
  destruct (rawtag l =? html_hash_Plaintext) eqn:Epl.
  - exfalso. destruct (safe_inv _ _ (plaintext_loop_spec _ Hw)) as (zp & Ez & Ha). rewrite Ez in Hn. cbn [rbind] in Hn.
    pose proof (plaintext_loop_run _ _ _ Ez) as Hend. apply at_end_true in Hend; [|eauto using adv_wf].
    rewrite (adv_len _ _ Ha), Hlen in Hend.
    rewrite shiftv_spec in Hn by eauto using adv_wf. cbn [rbind fst snd] in Hn.
    destruct Ha as (A1 & A2 & A3). cbn [sn] in Hn.
    replace (0 <? lpos zp - lstart zp) with true in Hn by (symmetry; apply Z.ltb_lt; lia).
    injection Hn as <- <- <-. cbn [lhas] in Hhas. discriminate.
  - destruct (safe_inv _ _ (rawtext_loop_spec c (rawtag l) (lz l) false Hc Hw)) as (s & Es & Ha). rewrite Es in Hn. cbn [rbind] in Hn.
    destruct (rawtext_loop_run _ _ _ _ _ _ Es) as (_ & _ & Hend & _).
    rewrite shiftv_spec in Hn by eauto using adv_wf. cbn [rbind fst snd] in Hn.
    pose proof Ha as (A1 & A2 & A3). rewrite Hlen in A3.
    assert (Hlt : lpos (lz l) < lpos (fst s)).
    { destruct (Z.eq_dec (lpos (fst s)) (lpos (lz l))) as [E|E]; [exfalso|lia].
      destruct Hend as [Hend|Hend].
      - apply at_end_true in Hend; [|eauto using adv_wf]. rewrite (adv_len _ _ Ha), Hlen in Hend. lia.
      - apply Hnoend. rewrite <- E.
        assert (Hblen : len (lbuf (lz l)) = len (d ++ [0])).
        { pose proof (lx_wf_len _ Hw) as [Hbl _]. rewrite len_app. change (len [0]) with 1. lia. }
        eapply (end_tag_at_ext true _ _ _ (lpos (lz l))); eauto. lia. }
    cbn [sn] in Hn. replace (0 <? lpos (fst s) - lstart (fst s)) with true in Hn by (symmetry; apply Z.ltb_lt; lia).
    injection Hn as <- <- <-. cbn [lhas lz skip lpos] in *.
    exact (rawtext_loop_regions c (rawtag l) d l _ s Hc Htb Hi Es Hhas).
Qed.

(* non-vacuity: <style>a{{x}}b{{y}}c</style> with the Go delimiters: the second region is reached over "a", a region, "b" *)
Example html_template_rawtext_reach_nonvacuous :
  let d := [60;115;116;121;108;101;62;97;123;123;120;125;125;98;123;123;121;125;125;99;60;47;115;116;121;108;101;62] in
  raw_reach go_tmpl html_hash_Style d 7 14 /\ is_region go_tmpl d 14 19.
Proof.
  assert (R : forall p q, 0 <= p -> prefixb [123; 123] (skipz p [60;115;116;121;108;101;62;97;123;123;120;125;125;98;123;123;121;125;125;99;60;47;115;116;121;108;101;62]) = true ->
              q = p + 2 + region_len 28 [125; 125] (skipz (p + 2) [60;115;116;121;108;101;62;97;123;123;120;125;125;98;123;123;121;125;125;99;60;47;115;116;121;108;101;62]) ->
              is_region go_tmpl [60;115;116;121;108;101;62;97;123;123;120;125;125;98;123;123;121;125;125;99;60;47;115;116;121;108;101;62] p q).
  { intros p q Hp Hpre Hq. split; [exact Hp|]. split; [discriminate|]. split; [exact Hpre|exact Hq]. }
  split.
  - apply rr_byte; [split; [vm_compute; split; [discriminate|reflexivity]|left; split; [vm_compute; discriminate|vm_compute; reflexivity]]|].
    apply (rr_region _ _ _ 8 13); [apply R; [lia|vm_compute; reflexivity|vm_compute; reflexivity]|].
    apply rr_byte; [split; [vm_compute; split; [discriminate|reflexivity]|left; split; [vm_compute; discriminate|vm_compute; reflexivity]]|].
    apply rr_refl.
  - apply R; [lia|vm_compute; reflexivity|vm_compute; reflexivity].
Qed.

(* ---- (iv') attributes, converse: HasTemplate() = true on an Attribute token only if a region lies inside it ------- *)
Section AttrConverse.
Variables (c : cfg) (d : list Z) (l0 : lexer).
Hypothesis Hc : cfg_ok c.
Hypothesis Htb : tb c <> [].
Hypothesis Hi : html_inv d l0.

(* the cursor s is at or after the call's cursor; if the flag is set, a region lies between the two *)
Definition RI (s : lx) (h : bool) : Prop :=
  samele (lz l0) s /\ (h = true -> exists p q, lpos (lz l0) <= p /\ q <= lpos s /\ is_region c d p q).

Lemma RI_keep s s' h : RI s h -> samele s s' -> RI s' h.
Proof.
  intros [Hs Hr] Hs'. split; [eapply samele_trans; eauto|]. intros Hh. destruct (Hr Hh) as (p & q & ? & ? & ?).
  exists p, q. destruct Hs' as [_ ?]. split; [assumption|split; [lia|assumption]].
Qed.

Lemma RI_weaken s h : RI s h -> RI s false.
Proof. intros [Hs _]. split; [exact Hs|discriminate]. Qed.

Lemma has_delims_true : has_delims c = true.
Proof. unfold has_delims. destruct (tb c); congruence. Qed.

Lemma tmpl_step s z' h : RI s h -> at_ s (tb c) = Ok true -> tmpl_skip c s = Ok z' -> RI z' true.
Proof.
  intros [[Hsm Hle] _] Hat Hsk. pose proof Hi as ((Hw & _) & Hlen & _). pose proof (inv_pos0 d l0 Hi) as H0.
  assert (Ha : lpos s <= len d).
  { apply at_from_buf in Hat; [|exact Htb]. rewrite Z.add_0_r in Hat. destruct Hsm as [Hb _]. rewrite Hb in Hat.
    destruct (tb c) as [|x t] eqn:E; [congruence|]. symmetry in Hat. apply prefixb_head in Hat. destruct Hat as [s' Es].
    destruct (Z.le_gt_cases (lpos s) (len d)) as [?|Hgt]; [assumption|exfalso].
    assert (E0 : skipz (lpos s) (lbuf (lz l0)) = []) by (unfold skipz; apply skipn_all2; unfold lx_len, len in *; lia).
    congruence. }
  rewrite (same_zat l0 s Hsm) in Hat, Hsk.
  destruct (zat_wf d l0 (lpos s) Hi ltac:(lia)) as [Hws Hrem].
  rewrite at_rem in Hat by (apply Hc || exact Hws). injection Hat as Hpre.
  destruct (tmpl_skip_here c _ Hc Hws Hpre) as [Hsk' Hle']. rewrite Hsk' in Hsk. injection Hsk as <-.
  pose proof (region_here c d l0 (lpos s) Hi ltac:(lia) Htb ltac:(rewrite <- Hrem; exact Hpre)) as Hreg.
  destruct (is_region_in _ _ _ _ Hreg) as [_ Hlt].
  split; [split; [split; reflexivity|cbn [lpos]; lia]|].
  intros _. exists (lpos s), (region_end_here c (zat l0 (lpos s))). cbn [lpos]. split; [lia|]. split; [lia|exact Hreg].
Qed.

Lemma tmpl_rep_samele fuel s b r : loop fuel (tmpl_rep_body c) (s, b) = Ok r -> samele s (fst r).
Proof.
  intros H.
  refine (loop_inv (fun x => samele s (fst x)) (fun x => samele s (fst x)) (tmpl_rep_body c) _ _ (s, b) r _ H); [|apply samele_refl].
  clear. intros [z h] x Hs Hx. unfold tmpl_rep_body in Hx. cbn [fst snd] in *.
  destruct (at_ z (tb c)) as [a| |]; cbn [rbind] in Hx; try discriminate.
  destruct a; [|injection Hx as <-; exact Hs].
  destruct (tmpl_skip c z) as [z'| |] eqn:E; cbn [rbind] in Hx; try discriminate. injection Hx as <-. cbn [fst].
  eapply samele_trans; [exact Hs|apply (tmpl_skip_run _ _ _ E)].
Qed.

Lemma tmpl_rep_regions fuel s b r : RI s b -> loop fuel (tmpl_rep_body c) (s, b) = Ok r -> RI (fst r) (snd r).
Proof.
  intros H0 H.
  refine (loop_inv (fun x => RI (fst x) (snd x)) (fun x => RI (fst x) (snd x)) (tmpl_rep_body c) _ _ (s, b) r H0 H).
  clear H0 H. intros [z h] x Hs Hx. unfold tmpl_rep_body in Hx. cbn [fst snd] in *.
  destruct (at_ z (tb c)) as [a| |] eqn:Ea; cbn [rbind] in Hx; try discriminate.
  destruct a; [|injection Hx as <-; exact Hs].
  destruct (tmpl_skip c z) as [z'| |] eqn:E; cbn [rbind] in Hx; try discriminate. injection Hx as <-. cbn [fst snd].
  eapply tmpl_step; eauto.
Qed.

Lemma guarded_regions z h r0 : RI z h -> tmpl_rep_guarded c z h = Ok r0 -> RI (fst r0) (snd r0).
Proof.
  intros H0 H. unfold tmpl_rep_guarded in H. rewrite has_delims_true in H.
  destruct (tmpl_rep c z) as [r| |] eqn:Er; cbn [rbind] in H; try discriminate. injection H as <-. cbn [fst snd].
  unfold tmpl_rep in Er. destruct h; cbn [orb].
  - eapply RI_keep; [exact H0|]. apply (tmpl_rep_samele _ _ _ _ Er).
  - apply (tmpl_rep_regions _ _ _ _ H0 Er).
Qed.

Lemma ws_loop_samele z z' : ws_loop z = Ok z' -> samele z z'.
Proof.
  unfold ws_loop. intros H.
  refine (loop_inv (fun x => samele z x) (fun x => samele z x) ws_body _ _ z z' (samele_refl z) H).
  clear. intros s x Hs Hx. unfold ws_body in Hx. destruct (pkr s 0) as [c0| |]; cbn [rbind] in Hx; try discriminate.
  destruct (is_ws c0); injection Hx as <-; [eapply samele_trans; [exact Hs|apply samele_mv; lia]|exact Hs].
Qed.

Lemma attru_loop_samele fuel z z' : loop fuel attru_body z = Ok z' -> samele z z'.
Proof.
  intros H.
  refine (loop_inv (fun x => samele z x) (fun x => samele z x) attru_body _ _ z z' (samele_refl z) H).
  clear. intros s x Hs Hx. unfold attru_body in Hx. destruct (pkr s 0) as [c0| |]; cbn [rbind] in Hx; try discriminate.
  destruct ((c0 =? 32) || (c0 =? 62) || (c0 =? 9) || (c0 =? 10) || (c0 =? 13) || (c0 =? 12) || eof0 s c0); injection Hx as <-;
    [exact Hs|eapply samele_trans; [exact Hs|apply samele_mv; lia]].
Qed.

Lemma attrname_regions fuel s h r : RI s h -> loop fuel (attrname_body c) (s, h) = Ok r -> RI (fst r) (snd r).
Proof.
  intros H0 H.
  refine (loop_inv (fun x => RI (fst x) (snd x)) (fun x => RI (fst x) (snd x)) (attrname_body c) _ _ (s, h) r H0 H).
  clear H0 H. intros [z hz] x Hs Hx. unfold attrname_body in Hx. cbn [fst snd] in *.
  unfold tmpl_at in Hx. rewrite has_delims_true in Hx.
  destruct (at_ z (tb c)) as [a| |] eqn:Ea; cbn [rbind] in Hx; try discriminate.
  destruct a.
  - destruct (tmpl_skip c z) as [z'| |] eqn:E; cbn [rbind] in Hx; try discriminate. injection Hx as <-. cbn [fst snd].
    eapply tmpl_step; eauto.
  - destruct (pkr z 0) as [c0| |]; cbn [rbind] in Hx; try discriminate.
    match type of Hx with rbind ?e _ = _ => destruct e as [b| |] end; cbn [rbind] in Hx; try discriminate.
    destruct b; injection Hx as <-; cbn [fst snd]; [exact Hs|]. eapply RI_keep; [exact Hs|apply samele_mv; lia].
Qed.

Lemma attrq_regions fuel delim s h r : RI s h -> loop fuel (attrq_body c delim) (s, h) = Ok r -> RI (fst r) (snd r).
Proof.
  intros H0 H.
  refine (loop_inv (fun x => RI (fst x) (snd x)) (fun x => RI (fst x) (snd x)) (attrq_body c delim) _ _ (s, h) r H0 H).
  clear H0 H. intros [z hz] x Hs Hx. unfold attrq_body in Hx. cbn [fst snd] in *.
  destruct (pkr z 0) as [c0| |]; cbn [rbind] in Hx; try discriminate.
  unfold tmpl_at in Hx. rewrite has_delims_true in Hx.
  destruct (at_ z (tb c)) as [a| |] eqn:Ea; cbn [rbind] in Hx; try discriminate.
  destruct a.
  - destruct (tmpl_skip c z) as [z1| |] eqn:E; cbn [rbind] in Hx; try discriminate.
    destruct (tmpl_rep c z1) as [r1| |] eqn:Er; cbn [rbind] in Hx; try discriminate. injection Hx as <-. cbn [fst snd].
    eapply RI_keep; [eapply tmpl_step; eauto|]. apply (tmpl_rep_samele _ _ _ _ Er).
  - destruct (c0 =? delim); [injection Hx as <-; cbn [fst snd]; eapply RI_keep; [exact Hs|apply samele_mv; lia]|].
    destruct (eof0 z c0); injection Hx as <-; cbn [fst snd]; [exact Hs|]. eapply RI_keep; [exact Hs|apply samele_mv; lia].
Qed.

Lemma shift_attribute_regions l z v l' : RI z (lhas l) -> shift_attribute c l z = Ok (v, l') ->
  lhas l' = true -> exists p q, lpos (lz l0) <= p /\ q <= lpos (lz l') /\ is_region c d p q.
Proof.
  intros H0 Hx. unfold shift_attribute in Hx.
  destruct (tmpl_rep_guarded c z (lhas l)) as [r0| |] eqn:E0; cbn [rbind] in Hx; try discriminate.
  pose proof (guarded_regions _ _ _ H0 E0) as H1.
  destruct (loop (fuel_of (fst r0)) (attrname_body c) r0) as [r1| |] eqn:E1; cbn [rbind] in Hx; try discriminate.
  assert (H2 : RI (fst r1) (snd r1)) by (destruct r0 as [a b]; exact (attrname_regions _ _ _ _ H1 E1)).
  destruct (ws_loop (fst r1)) as [z2| |] eqn:E2; cbn [rbind] in Hx; try discriminate.
  pose proof (ws_loop_samele _ _ E2) as Hs2.
  destruct (pkr z2 0) as [c0| |]; cbn [rbind] in Hx; try discriminate.
  match type of Hx with rbind ?e _ = _ => destruct e as [[[z5 has5] av]| |] eqn:E3 end; cbn [rbind] in Hx; try discriminate.
  assert (H5 : RI z5 has5).
  { destruct (c0 =? 61).
    - destruct (ws_loop (mv z2 1)) as [z3| |] eqn:E4; cbn [rbind] in E3; try discriminate.
      pose proof (ws_loop_samele _ _ E4) as Hs3.
      assert (H3 : RI z3 (snd r1)).
      { eapply RI_keep; [exact H2|]. eapply samele_trans; [exact Hs2|]. eapply samele_trans; [apply (samele_mv z2 1); lia|exact Hs3]. }
      destruct (pkr z3 0) as [c1| |]; cbn [rbind] in E3; try discriminate.
      unfold tmpl_at in E3. rewrite has_delims_true in E3.
      destruct (at_ z3 (tb c)) as [t| |] eqn:Et; cbn [rbind] in E3; try discriminate.
      match type of E3 with rbind ?e _ = _ => destruct e as [r| |] eqn:Er end; cbn [rbind] in E3; try discriminate.
      destruct (lexeme_from (fst r) (mark z3)) as [vv| |]; cbn [rbind] in E3; try discriminate.
      injection E3 as <- <- _.
      destruct t.
      + destruct (tmpl_skip c z3) as [z4| |] eqn:Ek; cbn [rbind] in Er; try discriminate.
        destruct (tmpl_rep c z4) as [r4| |] eqn:Er4; cbn [rbind] in Er; try discriminate. injection Er as <-. cbn [fst snd].
        eapply RI_keep; [eapply tmpl_step; eauto|]. apply (tmpl_rep_samele _ _ _ _ Er4).
      + destruct ((c1 =? 34) || (c1 =? 39)).
        * eapply attrq_regions; [|exact Er]. eapply RI_keep; [exact H3|apply samele_mv; lia].
        * destruct (loop (fuel_of z3) attru_body z3) as [z4| |] eqn:Eu; cbn [rbind] in Er; try discriminate. injection Er as <-. cbn [fst snd].
          eapply RI_keep; [exact H3|apply (attru_loop_samele _ _ _ Eu)].
    - injection E3 as <- <- _. eapply RI_keep; [exact H2|].
      destruct Hs2 as [[Hb2 Hst2] Hle2]. split; [split; [exact Hb2|exact Hst2]|]. unfold rewind, mark. cbn [lpos]. lia. }
  destruct (tmpl_rep_guarded c z5 has5) as [r6| |] eqn:E6; cbn [rbind] in Hx; try discriminate.
  pose proof (guarded_regions _ _ _ H5 E6) as H6.
  destruct (lexeme_sub (fst r6) (mark z) (mark (fst r1))) as [t| |]; cbn [rbind] in Hx; try discriminate.
  match type of Hx with rbind (shiftv ?zz) _ = _ => set (z7 := zz) in * end.
  assert (Hp7 : lpos z7 = lpos (fst r6)) by (unfold z7; destruct (snd r1); reflexivity).
  unfold shiftv in Hx. destruct (lexeme_ok z7); cbn [rbind] in Hx; try discriminate. injection Hx as _ <-. cbn [lhas lz fst snd skip lpos].
  intros Hh. destruct H6 as [_ H6]. destruct (H6 Hh) as (p & q & ? & ? & ?). exists p, q. rewrite Hp7. tauto.
Qed.

End AttrConverse.

Lemma html_template_attr_converse_proof : forall c d l v l', cfg_ok c -> tb c <> [] -> html_inv d l -> intag l = true ->
  next c l = Ok (AttributeT, Some v, l') -> lhas l' = true ->
  exists p q, lpos (lz l) <= p /\ q <= lpos (lz l') /\ is_region c d p q.
Proof.
  intros c d l v l' Hc Htb Hi Hit Hn Hhas.
  unfold next in Hn. cbn [lz rawtag intag lerr ltext lattr lhas] in Hn. rewrite Hit in Hn.
  unfold next_intag in Hn. cbn [lz rawtag intag lerr ltext lattr lhas] in Hn.
  destruct (ws_loop (lz l)) as [z1| |] eqn:E1; cbn [rbind] in Hn; try discriminate.
  pose proof (ws_loop_samele _ _ E1) as Hs1.
  destruct (pkr z1 0) as [c0| |]; cbn [rbind] in Hn; try discriminate.
  destruct (eof0 z1 c0); [discriminate|].
  match type of Hn with rbind ?e _ = _ => destruct e as [isattr| |] end; cbn [rbind] in Hn; try discriminate.
  destruct isattr.
  - match type of Hn with rbind ?e _ = _ => destruct e as [[v1 l1]| |] eqn:Ea end; cbn [rbind] in Hn; try discriminate.
    cbn [fst snd] in Hn. injection Hn as _ <-.
    eapply (shift_attribute_regions c d l Hc Htb Hi _ z1 v1 l1); [|exact Ea|exact Hhas].
    cbn [lhas]. split; [exact Hs1|discriminate].
  - match type of Hn with rbind ?e _ = _ => destruct e as [s| |] end; cbn [rbind] in Hn; try discriminate.
    destruct (c0 =? 47); discriminate.
Qed.
