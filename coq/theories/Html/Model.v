(* Html/Model.v — executable model of html.Lexer (/repo/html/lex.go) and html.ToHash
   (/repo/html/hash.go over the generated table), statement by statement, quirks included.
   Definitions only.

   Conventions: the cursor is Common/Lx.v (checked peeks: a read outside data ++ [0] is where Go
   indexes outside the buffer).  Every function returns [res]: [Ok v], [Panic] (Go panics) or
   [NoFuel] (a Go loop that would not terminate; every loop gets the fuel "bytes left + 1" and the
   theorems show that it is never exhausted).  Slices handed to the caller ([]byte results,
   l.text, l.attrVal) are views (offset, length) into the buffer, read at observation time, which
   is exactly Go's aliasing: the in-place ToLower calls are writes into the model buffer. *)
From Verif Require Import Common.Base Common.Lx Gen.Tables.

(* ---- result monad -------------------------------------------------------------------- *)
Inductive res (A : Type) : Type := Ok (a : A) | Panic | NoFuel.
Arguments Ok {A} a.
Arguments Panic {A}.
Arguments NoFuel {A}.

Definition rbind {A B} (r : res A) (f : A -> res B) : res B :=
  match r with Ok a => f a | Panic => Panic | NoFuel => NoFuel end.
Notation "x <-- e ;; k" := (rbind e (fun x => k)) (at level 61, e at next level, right associativity).

(* "for { ... }" loops: the body says continue-with-state or break-with-result *)
Inductive lp (S R : Type) : Type := Cont (s : S) | Brk (r : R).
Arguments Cont {S R} s.
Arguments Brk {S R} r.

Fixpoint loop {S R} (fuel : nat) (body : S -> res (lp S R)) (s : S) : res R :=
  match fuel with
  | O => NoFuel
  | Datatypes.S k =>
      x <-- body s ;;
      match x with Cont s' => loop k body s' | Brk r => Ok r end
  end.

Definition fuel_of (z : lx) : nat := S (Z.to_nat (len (lbuf z) - lpos z)).

(* ---- token types (iota order of lex.go) ------------------------------------------------ *)
Definition ErrorT := 0.        Definition CommentT := 1.      Definition DoctypeT := 2.
Definition StartTagT := 3.     Definition StartTagCloseT := 4. Definition StartTagVoidT := 5.
Definition EndTagT := 6.       Definition AttributeT := 7.    Definition TextT := 8.
Definition SvgT := 9.          Definition MathT := 10.        Definition XmlT := 11.
Definition TemplateT := 12.

(* ---- bytes ------------------------------------------------------------------------------ *)
Definition is_ws (c : Z) : bool := (c =? 32) || (c =? 9) || (c =? 10) || (c =? 13) || (c =? 12).
Definition is_letter (c : Z) : bool := ((97 <=? c) && (c <=? 122)) || ((65 <=? c) && (c <=? 90)).
(* c == ' ' || c == '>' || c == '/' || c == '\t' || c == '\n' || c == '\r' || c == '\f' *)
Definition is_tagend (c : Z) : bool := is_ws c || (c =? 62) || (c =? 47).
Definition lower (c : Z) : Z := if (65 <=? c) && (c <=? 90) then c + 32 else c.   (* parse.ToLower *)

(* ---- html.ToHash over the generated tables ---------------------------------------------- *)
Definition fnv_step (h c : Z) : Z := ((Z.lxor h c) * 16777619) mod 4294967296.
Definition fnv (s : list Z) : Z := fold_left fnv_step s html_hash_hash0.

Definition opt_res {A} (o : option A) : res A := match o with Some a => Ok a | None => Panic end.

(* t := _Hash_text[i>>8 : i>>8+i&0xff]; for k < len(s) { if t[k] != s[k] -> differs } *)
Fixpoint hash_cmp (t s : list Z) {struct s} : res bool :=
  match s with
  | [] => Ok true
  | c :: s' => match t with
               | [] => Panic
               | x :: t' => if x =? c then hash_cmp t' s' else Ok false
               end
  end.

Definition hash_text_slice (i : Z) : res (list Z) :=
  let lo := Z.shiftr i 8 in
  let hi := lo + Z.land i 255 in
  if slice_ok lo hi (len html_hash_text) then Ok (slice html_hash_text lo hi) else Panic.

Definition hash_probe (slot : Z) (s : list Z) : res (option Z) :=
  i <-- opt_res (peekz html_hash_table slot) ;;
  if Z.land i 255 =? len s then
    t <-- hash_text_slice i ;;
    e <-- hash_cmp t s ;;
    Ok (if e then Some i else None)
  else Ok None.

Definition to_hash (s : list Z) : res Z :=
  if (len s =? 0) || (html_hash_maxlen <? len s) then Ok 0 else
  let h := fnv s in
  let m := len html_hash_table - 1 in
  r1 <-- hash_probe (Z.land h m) s ;;
  match r1 with
  | Some i => Ok i
  | None =>                                             (* NEXT: *)
      r2 <-- hash_probe (Z.land (Z.shiftr h 16) m) s ;;
      Ok (match r2 with Some i => i | None => 0 end)
  end.

Definition is_raw_hash (h : Z) : bool :=
  (h =? html_hash_Textarea) || (h =? html_hash_Title) || (h =? html_hash_Style) || (h =? html_hash_Xmp)
  || (h =? html_hash_Iframe) || (h =? html_hash_Script) || (h =? html_hash_Plaintext)
  || (h =? html_hash_Svg) || (h =? html_hash_Math) || (h =? html_hash_Xml).
Definition is_xml_hash (h : Z) : bool :=
  (h =? html_hash_Svg) || (h =? html_hash_Math) || (h =? html_hash_Xml).

(* ---- views and the cursor -------------------------------------------------------------- *)
Record sl := mkSl { so : Z; sn : Z }.       (* buf[so : so+sn] *)

Definition view_bytes (buf : list Z) (v : sl) : list Z := slice buf (so v) (so v + sn v).

Definition pkr (z : lx) (i : Z) : res Z := opt_res (pk z i).

(* c == 0 && l.r.Err() != nil *)
Definition eof0 (z : lx) (c : Z) : bool := (c =? 0) && at_end z.

(* l.r.Lexeme(): buf[start:pos:pos] *)
Definition lexeme_ok (z : lx) : bool := slice_ok (lstart z) (lpos z) (len (lbuf z)).

(* l.r.Lexeme()[a:] *)
Definition lexeme_from (z : lx) (a : Z) : res sl :=
  if lexeme_ok z && (0 <=? a) && (a <=? lpos z - lstart z)
  then Ok (mkSl (lstart z + a) (lpos z - lstart z - a)) else Panic.

(* l.r.Lexeme()[a:b] *)
Definition lexeme_sub (z : lx) (a b : Z) : res sl :=
  if lexeme_ok z && (0 <=? a) && (a <=? b) && (b <=? lpos z - lstart z)
  then Ok (mkSl (lstart z + a) (b - a)) else Panic.

(* l.r.Shift() *)
Definition shiftv (z : lx) : res (sl * lx) :=
  if lexeme_ok z then Ok (mkSl (lstart z) (lpos z - lstart z), skip z) else Panic.

(* parse.ToLower(view): in-place write *)
Definition lower_view (buf : list Z) (v : sl) : list Z :=
  firstz (so v) buf ++ map lower (view_bytes buf v) ++ skipz (so v + sn v) buf.
Definition lx_lower (z : lx) (v : sl) : lx := mkLx (lower_view (lbuf z) v) (lpos z) (lstart z).

(* l.at(b...) *)
Fixpoint at_from (z : lx) (i : Z) (bs : list Z) : res bool :=
  match bs with
  | [] => Ok true
  | c :: t => x <-- pkr z i ;; if x =? c then at_from z (i + 1) t else Ok false
  end.
Definition at_ (z : lx) (bs : list Z) : res bool := at_from z 0 bs.

(* l.atCaseInsensitive(b...): Peek(i) != c && Peek(i)+('a'-'A') != c  (byte arithmetic) *)
Fixpoint atci_from (z : lx) (i : Z) (bs : list Z) : res bool :=
  match bs with
  | [] => Ok true
  | c :: t => x <-- pkr z i ;;
              if (x =? c) || ((x + 32) mod 256 =? c) then atci_from z (i + 1) t else Ok false
  end.

(* ---- configuration and lexer state ------------------------------------------------------ *)
Record cfg := mkCfg { tb : list Z; te : list Z }.      (* tmplBegin, tmplEnd; [] = none *)
Definition no_tmpl : cfg := mkCfg [] [].
Definition has_delims (c : cfg) : bool := match tb c with [] => false | _ => true end.   (* 0 < len(l.tmplBegin) *)

Record lexer := mkL {
  lz : lx;
  rawtag : Z;                (* l.rawTag *)
  intag : bool;              (* l.inTag *)
  lerr : bool;               (* l.err != nil *)
  ltext : option sl;         (* l.text (None = nil) *)
  lattr : option sl;         (* l.attrVal *)
  lhas : bool                (* l.hasTmpl *)
}.

Definition new_lexer (d : list Z) : lexer := mkL (lx_init d) 0 false false None None false.

(* Err(): 0 nil, 1 io.EOF, 2 the lexer's own error *)
Definition err_kind (l : lexer) : Z := if lerr l then 2 else if at_end (lz l) then 1 else 0.

(* ---- small loops -------------------------------------------------------------------------- *)
(* for { if c = Peek(0); isws(c) { Move(1); continue }; break } *)
Definition ws_body (z : lx) : res (lp lx lx) :=
  c <-- pkr z 0 ;; if is_ws c then Ok (Cont (mv z 1)) else Ok (Brk z).
Definition ws_loop (z : lx) : res lx := loop (fuel_of z) ws_body z.

(* for { if c = Peek(0); !letter(c) { break }; Move(1) } *)
Definition letters_body (z : lx) : res (lp lx lx) :=
  c <-- pkr z 0 ;; if is_letter c then Ok (Cont (mv z 1)) else Ok (Brk z).
Definition letters_loop (z : lx) : res lx := loop (fuel_of z) letters_body z.

(* ToHash(parse.ToLower(parse.Copy(l.r.Lexeme()[a:]))) *)
Definition hash_lexeme_from (z : lx) (a : Z) : res Z :=
  v <-- lexeme_from z a ;; to_hash (map lower (view_bytes (lbuf z) v)).

(* ---- moveTemplate ----------------------------------------------------------------------- *)
(* the quoted-string loop; result (z, true) = "return", (z, false) = "break" *)
Definition mt_str_body (q : Z) (s : lx * bool) : res (lp (lx * bool) (lx * bool)) :=
  let '(z, esc) := s in
  c2 <-- pkr z 0 ;;
  if eof0 z c2 then Ok (Brk (z, true))
  else if negb esc && (c2 =? q) then Ok (Brk (mv z 1, false))
  else if c2 =? 92 then Ok (Cont (mv z 1, negb esc))
  else Ok (Cont (mv z 1, false)).

Definition mt_body (c : cfg) (z : lx) : res (lp lx lx) :=
  c0 <-- pkr z 0 ;;
  if eof0 z c0 then Ok (Brk z) else
  e <-- at_ z (te c) ;;
  if e then Ok (Brk (mv z (len (te c)))) else
  if (c0 =? 34) || (c0 =? 39) then
    r <-- loop (fuel_of z) (mt_str_body c0) (mv z 1, false) ;;
    if snd r then Ok (Brk (fst r)) else Ok (Cont (fst r))
  else Ok (Cont (mv z 1)).

Definition move_template (c : cfg) (z : lx) : res lx := loop (fuel_of z) (mt_body c) z.

(* 0 < len(l.tmplBegin) && l.at(l.tmplBegin...) *)
Definition tmpl_at (c : cfg) (z : lx) : res bool := if has_delims c then at_ z (tb c) else Ok false.

(* l.r.Move(len(l.tmplBegin)); l.moveTemplate() *)
Definition tmpl_skip (c : cfg) (z : lx) : res lx := move_template c (mv z (len (tb c))).

(* for l.at(l.tmplBegin...) { Move(len(tmplBegin)); moveTemplate() } ; the flag says "ran at least once" *)
Definition tmpl_rep_body (c : cfg) (s : lx * bool) : res (lp (lx * bool) (lx * bool)) :=
  a <-- at_ (fst s) (tb c) ;;
  if a then z' <-- tmpl_skip c (fst s) ;; Ok (Cont (z', true)) else Ok (Brk s).
Definition tmpl_rep (c : cfg) (z : lx) : res (lx * bool) := loop (fuel_of z) (tmpl_rep_body c) (z, false).

(* l.skipTemplate(): if a template begins here, move over it (and l.hasTmpl = true); Some z' = "true" *)
Definition skip_tmpl (c : cfg) (z : lx) : res (option lx) :=
  t <-- tmpl_at c z ;; if t then z' <-- tmpl_skip c z ;; Ok (Some z') else Ok None.

(* "if l.skipTemplate() { continue } else <body>" as the first test of a loop: the state s has the cursor cur s; the flag
   l.hasTmpl is carried along (set by a skipped template, otherwise unchanged) *)
Definition with_tmpl {S R} (c : cfg) (cur : S -> lx) (setc : S -> lx -> S) (body : S -> res (lp S R))
    (sh : S * bool) : res (lp (S * bool) (R * bool)) :=
  let '(s, has) := sh in
  sk <-- skip_tmpl c (cur s) ;;
  match sk with
  | Some z' => Ok (Cont (setc s z', true))
  | None => x <-- body s ;; Ok (match x with Cont s' => Cont (s', has) | Brk r => Brk (r, has) end)
  end.
Definition with_tmpl_lx {R} (c : cfg) (body : lx -> res (lp lx R)) := with_tmpl c (fun z : lx => z) (fun _ z' => z') body.

(* ---- shiftRawText ------------------------------------------------------------------------ *)
Definition plaintext_body (z : lx) : res (lp lx lx) :=
  c <-- pkr z 0 ;; if eof0 z c then Ok (Brk z) else Ok (Cont (mv z 1)).

(* the loop after "<!--" inside script; result inl z = break (back to the outer loop),
   inr z = "return l.r.Shift()" at z *)
Definition script_comment_body (s : lx * bool) : res (lp (lx * bool) (lx + lx)) :=
  let '(z, inscript) := s in
  c <-- pkr z 0 ;;
  if c =? 45 then
    c1 <-- pkr z 1 ;;
    if c1 =? 45 then
      c2 <-- pkr z 2 ;;
      if c2 =? 62 then Ok (Brk (inl (mv z 3))) else Ok (Cont (mv z 1, inscript))
    else Ok (Cont (mv z 1, inscript))
  else if c =? 60 then
    c1 <-- pkr z 1 ;;
    let isend := c1 =? 47 in
    let z1 := mv z (if isend then 2 else 1) in
    let mk := mark z1 in
    z2 <-- letters_loop z1 ;;
    h <-- hash_lexeme_from z2 mk ;;
    if h =? html_hash_Script then
      cz <-- pkr z2 0 ;;                               (* the byte that stopped the letter loop *)
      if is_tagend cz || eof0 z2 cz then               (* <script-x and </script-x do not count *)
        if negb isend then Ok (Cont (z2, true))
        else if negb inscript then Ok (Brk (inr (rewind z2 (mk - 2))))
        else Ok (Cont (z2, false))
      else Ok (Cont (z2, inscript))
    else Ok (Cont (z2, inscript))
  else if eof0 z c then Ok (Brk (inr z))
  else Ok (Cont (mv z 1, inscript)).

(* the inner loop with l.skipTemplate() first; state ((z, inscript), hasTmpl) *)
Definition script_comment_loop_body (c : cfg) := with_tmpl c (fun s : lx * bool => fst s) (fun s z' => (z', snd s)) script_comment_body.

(* state: (z, hasTmpl); result: (z, hasTmpl) at which "return l.r.Shift()" happens *)
Definition rawtext_body (c : cfg) (raw : Z) (s : lx * bool) : res (lp (lx * bool) (lx * bool)) :=
  let '(z, has) := s in
  c0 <-- pkr z 0 ;;
  sk <-- skip_tmpl c z ;;
  match sk with
  | Some z' => Ok (Cont (z', true))
  | None =>
  if c0 =? 60 then
    c1 <-- pkr z 1 ;;
    if c1 =? 47 then
      let mk := mark z in
      z2 <-- letters_loop (mv z 2) ;;
      h <-- hash_lexeme_from z2 (mk + 2) ;;
      if h =? raw then
        c <-- pkr z2 0 ;;                             (* the byte that stopped the letter loop *)
        if is_tagend c || eof0 z2 c then Ok (Brk (rewind z2 mk, has))     (* e.g. </title-x> is not an end tag *)
        else Ok (Cont (z2, has))
      else Ok (Cont (z2, has))
    else
      sc <-- (if (raw =? html_hash_Script) && (c1 =? 33) then
                c2 <-- pkr z 2 ;;
                if c2 =? 45 then c3 <-- pkr z 3 ;; Ok (c3 =? 45) else Ok false
              else Ok false) ;;
      if sc then
        r <-- loop (fuel_of z) (script_comment_loop_body c) (mv z 4, false, has) ;;
        match r with
        | (inl z', has') => Ok (Cont (z', has'))
        | (inr z', has') => Ok (Brk (z', has'))
        end
      else Ok (Cont (mv z 1, has))
  else if eof0 z c0 then Ok (Brk (z, has))
  else Ok (Cont (mv z 1, has))
  end.

(* returns the view, the cursor and l.hasTmpl *)
Definition shift_rawtext (c : cfg) (raw : Z) (z : lx) (has : bool) : res (sl * lx * bool) :=
  if raw =? html_hash_Plaintext then
    rh <-- loop (fuel_of z) (with_tmpl_lx c plaintext_body) (z, has) ;;
    r <-- shiftv (fst rh) ;; Ok (fst r, snd r, snd rh)
  else
    s <-- loop (fuel_of z) (rawtext_body c raw) (z, has) ;;
    r <-- shiftv (fst s) ;; Ok (fst r, snd r, snd s).

(* ---- shiftBogusComment ------------------------------------------------------------------ *)
(* result: number of bytes to Move after l.text = Lexeme()[2:] *)
Definition bogus_body (z : lx) : res (lp lx (lx * Z)) :=
  c <-- pkr z 0 ;;
  if c =? 62 then Ok (Brk (z, 1))
  else if eof0 z c then Ok (Brk (z, 0))
  else Ok (Cont (mv z 1)).

(* returns (token view, text view, cursor, l.hasTmpl) *)
Definition shift_bogus (c : cfg) (z : lx) (has : bool) : res (sl * sl * lx * bool) :=
  rh <-- loop (fuel_of z) (with_tmpl_lx c bogus_body) (z, has) ;;
  let r := fst rh in
  t <-- lexeme_from (fst r) 2 ;;
  s <-- shiftv (mv (fst r) (snd r)) ;;
  Ok (fst s, t, snd s, snd rh).

(* ---- readMarkup --------------------------------------------------------------------------- *)
Definition comment_body (z : lx) : res (lp lx (lx * Z)) :=
  c <-- pkr z 0 ;;
  if eof0 z c then Ok (Brk (z, 0)) else
  a3 <-- at_ z [45; 45; 62] ;;
  if a3 then Ok (Brk (z, 3)) else
  a4 <-- at_ z [45; 45; 33; 62] ;;
  if a4 then Ok (Brk (z, 4)) else Ok (Cont (mv z 1)).

Definition cdata_body (z : lx) : res (lp lx (lx * Z)) :=
  c <-- pkr z 0 ;;
  if eof0 z c then Ok (Brk (z, 0)) else
  a3 <-- at_ z [93; 93; 62] ;;
  if a3 then Ok (Brk (z, 3)) else Ok (Cont (mv z 1)).

Definition doctype_body (z : lx) : res (lp lx (lx * Z)) :=
  c <-- pkr z 0 ;;
  if (c =? 62) || eof0 z c then Ok (Brk (z, if c =? 62 then 1 else 0))
  else Ok (Cont (mv z 1)).

(* returns (type, token view, text view, cursor, l.hasTmpl) *)
Definition read_markup (c : cfg) (z : lx) (has : bool) : res (Z * sl * sl * lx * bool) :=
  a <-- at_ z [45; 45] ;;
  if a then
    rh <-- loop (fuel_of z) (with_tmpl_lx c comment_body) (mv z 2, has) ;;
    let r := fst rh in
    t <-- lexeme_from (fst r) 4 ;;
    s <-- shiftv (mv (fst r) (snd r)) ;;
    Ok (CommentT, fst s, t, snd s, snd rh)
  else
    a <-- at_ z [91; 67; 68; 65; 84; 65; 91] ;;
    if a then
      rh <-- loop (fuel_of z) (with_tmpl_lx c cdata_body) (mv z 7, has) ;;
      let r := fst rh in
      t <-- lexeme_from (fst r) 9 ;;
      s <-- shiftv (mv (fst r) (snd r)) ;;
      Ok (TextT, fst s, t, snd s, snd rh)
    else
      a <-- atci_from z 0 [100; 111; 99; 116; 121; 112; 101] ;;
      if a then
        let z1 := mv z 7 in
        c0 <-- pkr z1 0 ;;
        let z2 := if c0 =? 32 then mv z1 1 else z1 in
        rh <-- loop (fuel_of z2) (with_tmpl_lx c doctype_body) (z2, has) ;;
        let r := fst rh in
        t <-- lexeme_from (fst r) 9 ;;
        s <-- shiftv (mv (fst r) (snd r)) ;;
        Ok (DoctypeT, fst s, t, snd s, snd rh)
      else
        b <-- shift_bogus c z has ;;
        Ok (CommentT, fst (fst (fst b)), snd (fst (fst b)), snd (fst b), snd b).

(* ---- shiftXML ------------------------------------------------------------------------------ *)
(* first loop: state (z, inTag, quote, skip) with quote = 0 for "none", skip = 0 none / 1 comment / 2 CDATA section /
   3 processing instruction; result inl z = break, inr z = "c == 0": maybe set l.err, return Shift() *)
Definition xml_body (raw : Z) (s : lx * bool * Z * Z) : res (lp (lx * bool * Z * Z) (lx + lx)) :=
  let '(z, intg, q, sk) := s in
  c <-- pkr z 0 ;;
  if negb (sk =? 0) && negb (c =? 0) then
    (* inside a comment, CDATA section or processing instruction, where an end tag is not an end tag *)
    a <-- (if sk =? 1 then at_ z [45; 45; 62] else if sk =? 2 then at_ z [93; 93; 62] else Ok false) ;;
    if a then Ok (Cont (mv z 3, intg, q, 0))
    else
      b <-- (if sk =? 3 then at_ z [63; 62] else Ok false) ;;
      if b then Ok (Cont (mv z 2, intg, q, 0)) else Ok (Cont (mv z 1, intg, q, sk))
  else if negb (q =? 0) && negb (c =? 0) then
    Ok (Cont (mv z 1, intg, (if c =? q then 0 else q), sk))
  else if intg && negb (c =? 0) then
    (* quotes are only significant inside a tag *)
    Ok (Cont (mv z 1, (if c =? 62 then false else intg), (if (c =? 34) || (c =? 39) then c else q), sk))
  else if c =? 60 then
    c1 <-- pkr z 1 ;;
    if negb (c1 =? 47) then
      a1 <-- at_ z [60; 33; 45; 45] ;;
      if a1 then Ok (Cont (mv z 4, intg, q, 1)) else
      a2 <-- at_ z [60; 33; 91; 67; 68; 65; 84; 65; 91] ;;
      if a2 then Ok (Cont (mv z 9, intg, q, 2)) else
      if c1 =? 63 then Ok (Cont (mv z 2, intg, q, 3))
      else Ok (Cont (mv z 1, negb (c1 =? 33), q, sk))
    else
      let mk := mark z in
      z2 <-- letters_loop (mv z 2) ;;
      h <-- hash_lexeme_from z2 (mk + 2) ;;
      if h =? raw then Ok (Brk (inl z2)) else Ok (Cont (z2, intg, q, sk))
  else if c =? 0 then Ok (Brk (inr z))
  else Ok (Cont (mv z 1, intg, q, sk)).

(* second loop: to '>' (inl, after Move(1)) or NUL (inr) *)
Definition xml_close_body (z : lx) : res (lp lx (lx + lx)) :=
  c <-- pkr z 0 ;;
  if c =? 62 then Ok (Brk (inl (mv z 1)))
  else if c =? 0 then Ok (Brk (inr z))
  else Ok (Cont (mv z 1)).

(* returns (data view, cursor, l.err after, l.hasTmpl) *)
Definition xml_cur (s : lx * bool * Z * Z) : lx := fst (fst (fst s)).
Definition xml_setc (s : lx * bool * Z * Z) (z' : lx) : lx * bool * Z * Z := (z', snd (fst (fst s)), snd (fst s), snd s).
Definition shift_xml (c : cfg) (raw : Z) (z : lx) (err has : bool) : res (sl * lx * bool * bool) :=
  rh <-- loop (fuel_of z) (with_tmpl c xml_cur xml_setc (xml_body raw)) (z, true, 0, 0, has) ;;
  match fst rh with
  | inr z' => s <-- shiftv z' ;; Ok (fst s, snd s, err || negb (at_end z'), snd rh)
  | inl z' =>
      rh2 <-- loop (fuel_of z') (with_tmpl_lx c xml_close_body) (z', snd rh) ;;
      match fst rh2 with
      | inr z'' => s <-- shiftv z'' ;; Ok (fst s, snd s, err || negb (at_end z''), snd rh2)
      | inl z'' => s <-- shiftv z'' ;; Ok (fst s, snd s, err, snd rh2)
      end
  end.

(* ---- shiftStartTag ------------------------------------------------------------------------- *)
Definition starttag_body (c : cfg) (z : lx) : res (lp lx lx) :=
  c0 <-- pkr z 0 ;;
  b <-- (if (c0 =? 32) || (c0 =? 62) then Ok true else
         s <-- (if c0 =? 47 then c1 <-- pkr z 1 ;; Ok (c1 =? 62) else Ok false) ;;
         if s then Ok true else
         if (c0 =? 9) || (c0 =? 10) || (c0 =? 13) || (c0 =? 12) || eof0 z c0 then Ok true
         else tmpl_at c z) ;;
  if b then Ok (Brk z) else Ok (Cont (mv z 1)).

(* returns (type, token or nil, lexer); the cursor is just after "<" + first letter... (Move(1) done by Next) *)
Definition shift_starttag (c : cfg) (l : lexer) (z : lx) : res (Z * option sl * lexer) :=
  z1 <-- loop (fuel_of z) (starttag_body c) z ;;
  t <-- lexeme_from z1 1 ;;
  let z2 := lx_lower z1 t in                       (* l.text = parse.ToLower(l.r.Lexeme()[1:]) *)
  h <-- to_hash (view_bytes (lbuf z2) t) ;;
  if is_raw_hash h then
    if is_xml_hash h then
      x <-- shift_xml c h z2 (lerr l) (lhas l) ;;
      let '(d, z3, e, has) := x in
      if e then Ok (ErrorT, None, mkL z3 (rawtag l) true e (Some t) (lattr l) has)
      else Ok (if h =? html_hash_Svg then SvgT else if h =? html_hash_Math then MathT else XmlT,
               Some d, mkL z3 (rawtag l) false e (Some t) (lattr l) has)
    else
      s <-- shiftv z2 ;;
      Ok (StartTagT, Some (fst s), mkL (snd s) h true (lerr l) (Some t) (lattr l) (lhas l))
  else
    s <-- shiftv z2 ;;
    Ok (StartTagT, Some (fst s), mkL (snd s) (rawtag l) true (lerr l) (Some t) (lattr l) (lhas l)).

(* ---- shiftAttribute ------------------------------------------------------------------------ *)
(* guarded: if 0 < len(l.tmplBegin) { for l.at(...) {...; l.hasTmpl = true} } *)
Definition tmpl_rep_guarded (c : cfg) (z : lx) (has : bool) : res (lx * bool) :=
  if has_delims c then r <-- tmpl_rep c z ;; Ok (fst r, has || snd r) else Ok (z, has).

Definition attrname_body (c : cfg) (s : lx * bool) : res (lp (lx * bool) (lx * bool)) :=
  let '(z, has) := s in
  t <-- tmpl_at c z ;;
  if t then z' <-- tmpl_skip c z ;; Ok (Cont (z', true)) else
  c0 <-- pkr z 0 ;;
  b <-- (if (c0 =? 32) || (c0 =? 61) || (c0 =? 62) then Ok true else
         s <-- (if c0 =? 47 then c1 <-- pkr z 1 ;; Ok (c1 =? 62) else Ok false) ;;
         if s then Ok true else
         Ok ((c0 =? 9) || (c0 =? 10) || (c0 =? 13) || (c0 =? 12) || eof0 z c0)) ;;
  if b then Ok (Brk (z, has)) else Ok (Cont (mv z 1, has)).

Definition attrq_body (c : cfg) (delim : Z) (s : lx * bool) : res (lp (lx * bool) (lx * bool)) :=
  let '(z, has) := s in
  c0 <-- pkr z 0 ;;
  t <-- tmpl_at c z ;;
  if t then
    z1 <-- tmpl_skip c z ;;
    r <-- tmpl_rep c z1 ;;
    Ok (Cont (fst r, true))
  else if c0 =? delim then Ok (Brk (mv z 1, has))
  else if eof0 z c0 then Ok (Brk (z, has))
  else Ok (Cont (mv z 1, has)).

Definition attru_body (z : lx) : res (lp lx lx) :=
  c0 <-- pkr z 0 ;;
  if (c0 =? 32) || (c0 =? 62) || (c0 =? 9) || (c0 =? 10) || (c0 =? 13) || (c0 =? 12) || eof0 z c0
  then Ok (Brk z) else Ok (Cont (mv z 1)).

(* returns (token view, lexer) *)
Definition shift_attribute (c : cfg) (l : lexer) (z : lx) : res (sl * lexer) :=
  let name_start := mark z in
  r0 <-- tmpl_rep_guarded c z (lhas l) ;;
  r1 <-- loop (fuel_of (fst r0)) (attrname_body c) r0 ;;
  let name_end := mark (fst r1) in
  z2 <-- ws_loop (fst r1) ;;
  c0 <-- pkr z2 0 ;;
  let name_has := snd r1 in
  r3 <-- (if c0 =? 61 then
            z3 <-- ws_loop (mv z2 1) ;;
            c1 <-- pkr z3 0 ;;
            let attr_pos := mark z3 in
            t <-- tmpl_at c z3 ;;
            r <-- (if t then
                     z4 <-- tmpl_skip c z3 ;;
                     r <-- tmpl_rep c z4 ;;
                     Ok (fst r, true)
                   else if (c1 =? 34) || (c1 =? 39) then
                     loop (fuel_of z3) (attrq_body c c1) (mv z3 1, name_has)
                   else
                     loop (fuel_of z3) (with_tmpl_lx c attru_body) (z3, name_has)) ;;
            v <-- lexeme_from (fst r) attr_pos ;;
            Ok (fst r, snd r, Some v)
          else Ok (rewind z2 name_end, name_has, None)) ;;
  let '(z5, has5, av) := r3 in
  r6 <-- tmpl_rep_guarded c z5 has5 ;;
  t <-- lexeme_sub (fst r6) name_start name_end ;;
  let z7 := if name_has then fst r6 else lx_lower (fst r6) t in
  s <-- shiftv z7 ;;
  Ok (fst s, mkL (snd s) (rawtag l) (intag l) (lerr l) (Some t) av (snd r6)).

(* ---- shiftEndTag --------------------------------------------------------------------------- *)
Definition endtag_body (z : lx) : res (lp lx (lx * Z)) :=
  c <-- pkr z 0 ;;
  if c =? 62 then Ok (Brk (z, 1))
  else if eof0 z c then Ok (Brk (z, 0))
  else Ok (Cont (mv z 1)).

(* end := len(text); for end > 0 { if ws(text[end-1]) { end--; continue }; break }   (ws: ' ' \t \n \r \f) *)
Fixpoint trim_rev (r : list Z) : list Z :=
  match r with
  | c :: t => if is_ws c then trim_rev t else r
  | [] => []
  end.
Definition trim_end_len (bs : list Z) : Z := len (trim_rev (rev bs)).

(* n := 2; for n < len(data) { if tagend(data[n]) { break }; n++ } : the length n-2 of the tag name, on data[2:] *)
Fixpoint prefixb (p s : list Z) : bool :=
  match p with
  | [] => true
  | x :: p' => match s with
               | [] => false
               | y :: s' => (x =? y) && prefixb p' s'
               end
  end.

(* ... and at the start of a template delimiter, if delimiters are configured (tb = l.tmplBegin): a template is not part of the name *)
Fixpoint name_run (tb : list Z) (bs : list Z) : Z :=
  match bs with
  | [] => 0
  | c :: t => if is_tagend c then 0
              else if match tb with [] => false | _ => prefixb tb bs end then 0
              else 1 + name_run tb t
  end.

(* returns (token view, text view, cursor with the tag name lower-cased: parse.ToLower(data[2:n])) *)
Definition shift_endtag (c : cfg) (z : lx) (has : bool) : res (sl * sl * lx * bool) :=
  rh <-- loop (fuel_of z) (with_tmpl_lx c endtag_body) (z, has) ;;
  let r := fst rh in
  t <-- lexeme_from (fst r) 2 ;;
  let e := trim_end_len (view_bytes (lbuf z) t) in
  s <-- shiftv (mv (fst r) (snd r)) ;;
  let data := fst s in
  if 2 <=? sn data then                                  (* data[2:n] with len(data) < 2 would panic *)
    let n := name_run (tb c) (skipz 2 (view_bytes (lbuf z) data)) in
    Ok (data, mkSl (so t) e, lx_lower (snd s) (mkSl (so data + 2) n), snd rh)
  else Panic.

(* ---- Next ------------------------------------------------------------------------------------ *)
Inductive dispatch := DText | DTmpl | DEndTag | DStartTag | DMarkup | DBogusQ | DEof.

Definition text_body (c : cfg) (z : lx) : res (lp lx (lx * dispatch)) :=
  c0 <-- pkr z 0 ;;
  t <-- tmpl_at c z ;;
  if t then Ok (Brk (z, if 0 <? mark z then DText else DTmpl))
  else if c0 =? 60 then
    c1 <-- pkr z 1 ;;
    isend <-- (if c1 =? 47 then
                 c2 <-- pkr z 2 ;;
                 Ok (negb (c2 =? 62) && (negb (c2 =? 0) || negb (at_end_i z 2)))
               else Ok false) ;;
    if negb isend && negb (is_letter c1) && negb (c1 =? 33) && negb (c1 =? 63) then Ok (Cont (mv z 1))
    else if 0 <? mark z then Ok (Brk (z, DText))
    else if isend then Ok (Brk (z, DEndTag))
    else if is_letter c1 then Ok (Brk (z, DStartTag))
    else if c1 =? 33 then Ok (Brk (z, DMarkup))
    else if c1 =? 63 then Ok (Brk (z, DBogusQ))
    else Ok (Cont z)                                  (* no branch taken: the Go loop iterates again *)
  else if eof0 z c0 then Ok (Brk (z, if 0 <? mark z then DText else DEof))
  else Ok (Cont (mv z 1)).

Definition next_content (c : cfg) (l : lexer) : res (Z * option sl * lexer) :=
  r <-- loop (fuel_of (lz l)) (text_body c) (lz l) ;;
  let '(z, d) := r in
  match d with
  | DText =>
      s <-- shiftv z ;;
      Ok (TextT, Some (fst s), mkL (snd s) (rawtag l) (intag l) (lerr l) (Some (fst s)) (lattr l) (lhas l))
  | DTmpl =>
      z1 <-- tmpl_skip c z ;;
      s <-- shiftv z1 ;;
      Ok (TemplateT, Some (fst s), mkL (snd s) (rawtag l) (intag l) (lerr l) (ltext l) (lattr l) true)
  | DEndTag =>
      let z1 := mv z 2 in
      c0 <-- pkr z1 0 ;;
      if negb (is_letter c0) then
        b <-- shift_bogus c z1 (lhas l) ;;
        Ok (CommentT, Some (fst (fst (fst b))),
            mkL (snd (fst b)) (rawtag l) (intag l) (lerr l) (Some (snd (fst (fst b)))) (lattr l) (snd b))
      else
        b <-- shift_endtag c z1 (lhas l) ;;
        Ok (EndTagT, Some (fst (fst (fst b))),
            mkL (snd (fst b)) (rawtag l) (intag l) (lerr l) (Some (snd (fst (fst b)))) (lattr l) (snd b))
  | DStartTag =>
      shift_starttag c (mkL (lz l) (rawtag l) true (lerr l) (ltext l) (lattr l) (lhas l)) (mv z 1)
  | DMarkup =>
      m <-- read_markup c (mv z 2) (lhas l) ;;
      let '(ty, tk, tx, z', has) := m in
      Ok (ty, Some tk, mkL z' (rawtag l) (intag l) (lerr l) (Some tx) (lattr l) has)
  | DBogusQ =>
      b <-- shift_bogus c (mv z 1) (lhas l) ;;
      Ok (CommentT, Some (fst (fst (fst b))),
          mkL (snd (fst b)) (rawtag l) (intag l) (lerr l) (Some (snd (fst (fst b)))) (lattr l) (snd b))
  | DEof => Ok (ErrorT, None, mkL z (rawtag l) (intag l) (lerr l) (ltext l) (lattr l) (lhas l))
  end.

Definition next_intag (c : cfg) (l : lexer) : res (Z * option sl * lexer) :=
  let l := mkL (lz l) (rawtag l) (intag l) (lerr l) (ltext l) None (lhas l) in      (* l.attrVal = nil *)
  z1 <-- ws_loop (lz l) ;;
  c0 <-- pkr z1 0 ;;
  if eof0 z1 c0 then Ok (ErrorT, None, mkL z1 (rawtag l) (intag l) (lerr l) (ltext l) (lattr l) (lhas l))
  else
    isattr <-- (if c0 =? 62 then Ok false
                else if c0 =? 47 then c1 <-- pkr z1 1 ;; Ok (negb (c1 =? 62))
                else Ok true) ;;
    if isattr then
      a <-- shift_attribute c l z1 ;;
      Ok (AttributeT, Some (fst a), snd a)
    else
      let z2 := skip z1 in
      s <-- shiftv (mv z2 (if c0 =? 47 then 2 else 1)) ;;
      Ok (if c0 =? 47 then StartTagVoidT else StartTagCloseT, Some (fst s),
          mkL (snd s) (rawtag l) false (lerr l) (ltext l) (lattr l) (lhas l)).

Definition next (c : cfg) (l0 : lexer) : res (Z * option sl * lexer) :=
  let l := mkL (lz l0) (rawtag l0) (intag l0) (lerr l0) None (lattr l0) false in   (* l.text = nil; l.hasTmpl = false *)
  if intag l then next_intag c l
  else if negb (rawtag l =? 0) then
    r <-- shift_rawtext c (rawtag l) (lz l) (lhas l) ;;
    let '(v, z, has) := r in
    if 0 <? sn v then
      Ok (TextT, Some v, mkL z 0 (intag l) (lerr l) (Some v) (lattr l) has)
    else
      next_content c (mkL z 0 (intag l) (lerr l) (ltext l) (lattr l) has)
  else next_content c l.

(* ---- a caller: n calls of Next, whatever they return -------------------------------------------------- *)
Fixpoint run (c : cfg) (n : nat) (l : lexer) : res (list (Z * option sl * lexer)) :=
  match n with
  | O => Ok []
  | S k => r <-- next c l ;; rest <-- run c k (snd r) ;; Ok (r :: rest)
  end.
