(* Html/WfTmpl.v — well-formed documents with template regions, for any delimiter pair: the tokens of the constructs
   (HasTemplate() false) and one Template token per region (HasTemplate() true). *)
From Verif Require Import Common.Base Common.Tactics Common.Lx Gen.Tables Html.Model Html.Lemmas Html.ListLemmas
     Html.Hash Html.Safety Html.Step Html.Spec Html.RawText Html.Func Html.Proofs Html.Views Html.Template Html.Wf Html.Script
     Html.TemplateMore Html.TemplateAll Html.WfDoc Html.Sim.
From Coq Require Import ZifyBool.

(* ---- the Template token, with the state after it ------------------------------------------------------------------------ *)
Lemma template_token_full : forall c d l p q, cfg_ok c -> html_inv d l -> intag l = false -> rawtag l = 0 ->
  p = lpos (lz l) -> is_region c d p q ->
  exists l', next c l = Ok (TemplateT, Some (mkSl p (q - p)), l') /\ lhas l' = true /\ lpos (lz l') = q /\
    intag l' = false /\ rawtag l' = 0 /\ lerr l' = lerr l /\ ltext l' = None /\ lbuf (lz l') = lbuf (lz l) /\ lstart (lz l') = lpos (lz l').
Proof.
  intros c d l p q Hc Hi Hit Hraw -> (Hp0 & Htb & Hpre & ->).
  pose proof Hi as (Hl & Hlen & _). pose proof Hl as [Hw _]. pose proof (lwf_clean l Hl Hit) as Hcl.
  pose proof (rem_inv d l Hi) as Hrem. destruct Hc as [Hntb Hnte].
  unfold next. cbn [lz rawtag intag lerr ltext lattr lhas]. rewrite Hit, Hraw. cbn [Z.eqb negb].
  unfold next_content. cbn [lz rawtag intag lerr ltext lattr lhas].
  (* the text loop stops at once *)
  assert (Hloop : loop (fuel_of (lz l)) (text_body c) (lz l) = Ok (lz l, DTmpl)).
  { unfold fuel_of. cbn [loop]. unfold text_body at 1.
    destruct (pkr0 _ Hw) as (c0 & Hc0 & _). rewrite Hc0. cbn [rbind].
    unfold tmpl_at. replace (has_delims c) with true by (unfold has_delims; destruct (tb c); congruence).
    rewrite at_rem by assumption. rewrite Hrem, Hpre. cbn [rbind].
    unfold mark. replace (0 <? lpos (lz l) - lstart (lz l)) with false by (symmetry; apply Z.ltb_ge; lia). reflexivity. }
  rewrite Hloop. cbn [rbind].
  (* the region is skipped as a whole *)
  pose proof (prefixb_len _ _ Hpre) as Hlen_tb. rewrite <- Hrem in Hlen_tb.
  destruct (rem_mv (lz l) (len (tb c)) Hw) as [Hr1 Hw1]; [pose proof (len_nonneg (tb c)); lia|].
  unfold tmpl_skip. rewrite (move_template_region c _ (conj Hntb Hnte) Hw1). cbn [rbind].
  rewrite Hr1, Hrem. rewrite skipz_skipz by (lia || apply len_nonneg).
  set (s2 := skipz (lpos (lz l) + len (tb c)) d).
  rewrite (region_len_fuel (te c) (length s2) (length d) s2) by (try lia; apply length_skipz_le').
  set (n := region_len (length d) (te c) s2).
  assert (Hn : 0 <= n <= len s2) by apply region_len_bound.
  assert (Hs2 : len s2 = len (rem (lz l)) - len (tb c)).
  { unfold s2. rewrite Hrem. rewrite <- skipz_skipz by (lia || apply len_nonneg).
    apply len_skipz. rewrite <- Hrem. pose proof (len_nonneg (tb c)). lia. }
  destruct (rem_mv (mv (lz l) (len (tb c))) n Hw1) as [_ Hw2]; [rewrite Hr1, Hrem; fold s2; rewrite skipz_skipz by (lia || apply len_nonneg); fold s2; lia|].
  rewrite shiftv_spec by exact Hw2. cbn [rbind fst snd].
  eexists. split.
  - unfold mv, skip. cbn [lbuf lstart lpos so sn]. rewrite Hcl. reflexivity.
  - cbn [lz skip mv lpos lhas intag rawtag lerr ltext lbuf lstart]. repeat split; try reflexivity; try assumption; try lia.
Qed.

(* ---- a run without delimiters over clean bytes is a run with delimiters -------------------------------------------------- *)
Definition clean_range (c : cfg) (d : list Z) (a b : Z) : Prop := forall i, a <= i < b -> prefixb (tb c) (skipz i d) = false.
(* the token types whose scanning looks at the byte after the token *)
Definition looks_end (ty : Z) : Prop := ty = TextT \/ ty = AttributeT \/ ty = ErrorT.

Lemma final_cons l r rest : final l (r :: rest) = final (snd r) rest.
Proof. change (r :: rest) with ([r] ++ rest). rewrite final_app. reflexivity. Qed.

Lemma chain_pos : forall tr l, chain l tr -> lpos (lz l) <= lpos (lz (final l tr)).
Proof.
  induction tr as [|r rest IH]; intros l H; [unfold final; cbn; lia|]. cbn [chain] in H. destruct H as [Hs Hc].
  rewrite final_cons. specialize (IH _ Hc). destruct r as [[ty tk] l1]. cbn [step_post snd] in *.
  destruct Hs as (_ & _ & _ & Hp & _). lia.
Qed.

Lemma run_sim c d E : cfg_ok c -> tb c <> [] -> forall tr n l, html_inv d l -> lstart (lz l) = lpos (lz l) ->
  run no_tmpl n l = Ok tr -> Forall (fun r => fst (fst r) <> ErrorT) tr -> lpos (lz (final l tr)) = E ->
  clean_range c d (lpos (lz l)) E ->
  (prefixb (tb c) (skipz E d) = false \/ forall r0, tr <> [] -> ~ looks_end (fst (fst (last tr r0)))) ->
  run c n l = Ok tr.
Proof.
  intros Hc Htb. induction tr as [|r rest IH]; intros n l Hi Hcl H Hne HE Hcr Hlast.
  - destruct n; [reflexivity|]. cbn [run] in H. destruct (next no_tmpl l) as [r0| |]; cbn [rbind] in H; try discriminate.
    destruct (run no_tmpl n (snd r0)); cbn [rbind] in H; discriminate.
  - destruct n as [|k]; [discriminate|]. cbn [run] in H. destruct (next no_tmpl l) as [r'| |] eqn:En; cbn [rbind] in H; try discriminate.
    destruct (run no_tmpl k (snd r')) as [rest'| |] eqn:Er; cbn [rbind] in H; try discriminate. injection H as -> ->.
    pose proof Hi as (Hl & _). destruct r as [[ty tk] l1]. cbn [snd fst] in *.
    pose proof (safe_eq _ _ _ (next_spec no_tmpl l cfg_ok_no_tmpl Hl) En) as Hs.
    pose proof (html_inv_step d l ty tk l1 Hi Hs) as Hi1. apply Forall_cons_iff in Hne. destruct Hne as [Hty Hne']. cbn [fst] in Hty.
    cbn [step_post] in Hs. destruct Hs as (Hl1 & _ & _ & Hp & Htk & _).
    destruct tk as [v|]; [|destruct Htk as [Htk _]; congruence]. destruct Htk as (_ & Hv1 & Hv2 & Hv3 & Hcl1 & _).
    destruct (run_inv_chain no_tmpl k l1 rest cfg_ok_no_tmpl Hl1 Er) as [_ Hch]. pose proof (chain_pos rest l1 Hch) as Hmono.
    rewrite final_cons in HE. cbn [snd] in HE.
    pose proof Hi1 as ((Hw1 & _) & Hlen1 & _). assert (Hed : lpos (lz l1) <= len d) by (destruct Hw1 as (_ & _ & ?); lia).
    pose proof (binv_of_inv d l Hi) as Hb.
    assert (Hn : next c l = Ok (ty, Some v, l1)).
    { destruct rest as [|r2 rest'].
      - unfold final in HE. cbn in HE. destruct Hlast as [Hend|Hl0].
        + apply (next_sim c d l E Hc Htb Hb); [|exact Hcl|lia|exact En|cbn [snd lz]; lia|cbn [snd lz]; intros _; lia|exact Hed].
          intros i Hir. destruct (Z.eq_dec i E) as [->|Hne2]; [exact Hend|apply Hcr; lia].
        + apply (next_sim c d l (E - 1) Hc Htb Hb); [|exact Hcl|lia|exact En|cbn [snd lz]; lia| |exact Hed].
          * intros i Hir. apply Hcr. lia.
          * cbn [fst snd]. intros Hle. exfalso. apply (Hl0 (ty, Some v, l1) ltac:(discriminate)). cbn [last fst]. unfold looks_end. tauto.
      - (* a later token exists: this one ends before E *)
        cbn [chain] in Hch. destruct Hch as [Hs2 Hch2]. destruct r2 as [[ty2 tk2] l2]. cbn [step_post snd] in Hs2.
        pose proof (proj1 (proj1 (Forall_cons_iff _ _ _) Hne')) as Hty2. cbn [fst] in Hty2.
        destruct Hs2 as (_ & _ & _ & Hp2 & Htk2 & _). destruct tk2 as [v2|]; [|destruct Htk2 as [Htk2 _]; congruence].
        destruct Htk2 as (_ & Hw1' & Hw2 & Hw3 & _).
        pose proof (chain_pos rest' l2 Hch2) as Hmono2. rewrite final_cons in HE, Hmono. cbn [snd] in HE, Hmono.
        apply (next_sim c d l (lpos (lz l1)) Hc Htb Hb); [|exact Hcl|lia|exact En|cbn [snd lz]; lia|cbn [snd lz]; intros _; lia|exact Hed].
        intros i Hir. apply Hcr. lia. }
    cbn [run]. rewrite Hn. cbn [rbind snd].
    rewrite (IH k l1 Hi1 Hcl1 Er Hne' HE).
    + reflexivity.
    + intros i Hir. apply Hcr. lia.
    + destruct Hlast as [Hend|Hl0]; [left; exact Hend|]. destruct rest as [|r2 rest']; [right; intros r0 Hn0; congruence|right; intros r0 _; exact (Hl0 r0 ltac:(discriminate))].
Qed.

(* ---- observations with HasTemplate() ------------------------------------------------------------------------------------- *)
Definition observe_h (r : Z * option sl * lexer) : obs * bool := (observe r, lhas (snd r)).

Definition lexesC (c : cfg) (d : list Z) (l : lexer) (pre X rest : list Z) (os : list (obs * bool)) (l' : lexer) : Prop :=
  exists tr, run c (length os) l = Ok tr /\ map observe_h tr = os /\ final l tr = l' /\ at_input d l' (pre ++ X) rest.

Lemma lexesC_nil c d l pre rest : at_input d l pre rest -> lexesC c d l pre [] rest [] l.
Proof. intros H. exists []. cbn. rewrite app_nil_r. tauto. Qed.

Lemma lexesC_app c d l pre X1 X2 rest os1 os2 l1 l2 :
  lexesC c d l pre X1 (X2 ++ rest) os1 l1 -> lexesC c d l1 (pre ++ X1) X2 rest os2 l2 ->
  lexesC c d l pre (X1 ++ X2) rest (os1 ++ os2) l2.
Proof.
  intros (tr1 & R1 & O1 & F1 & A1) (tr2 & R2 & O2 & F2 & A2).
  exists (tr1 ++ tr2). rewrite app_length, run_app, R1. cbn [rbind]. rewrite F1, R2. cbn [rbind].
  split; [reflexivity|]. split; [rewrite map_app, O1, O2; reflexivity|]. split; [rewrite final_app, F1; exact F2|].
  rewrite app_assoc. exact A2.
Qed.

Lemma last_map' {A B} (f : A -> B) : forall (x : list A) a, last (map f x) (f a) = f (last x a).
Proof. induction x as [|y x IH]; intros a; [reflexivity|]. destruct x as [|y2 x]; [reflexivity|]. exact (IH a). Qed.

Lemma observe_ty r : o_ty (observe r) = fst (fst r).
Proof. destruct r as [[ty tk] l1]. reflexivity. Qed.

Lemma lexes_to_c c d l pre X rest os l' : cfg_ok c -> tb c <> [] -> at_input d l pre (X ++ rest) ->
  lexes d l pre X rest os l' -> Forall (fun o => o_ty o <> ErrorT) os ->
  clean_range c d (len pre) (len pre + len X) ->
  (prefixb (tb c) (skipz (len pre + len X) d) = false \/ forall o0, os <> [] -> ~ looks_end (o_ty (last os o0))) ->
  lexesC c d l pre X rest (map (fun o => (o, false)) os) l'.
Proof.
  intros Hc Htb Hat (tr & Hr & Ho & Hf & Hat') Hne Hcr Hlast. destruct Hat as (Hi & Hcl & Hd & Hp).
  assert (HE : lpos (lz (final l tr)) = len pre + len X) by (rewrite Hf; destruct Hat' as (_ & _ & _ & Hp'); rewrite Hp', len_app; reflexivity).
  assert (Hne' : Forall (fun r => fst (fst r) <> ErrorT) tr).
  { rewrite <- Ho in Hne. rewrite Forall_map in Hne. eapply Forall_impl; [|exact Hne]. intros r Hr0. cbn beta in Hr0. rewrite observe_ty in Hr0. exact Hr0. }
  assert (Hlast' : prefixb (tb c) (skipz (len pre + len X) d) = false \/ forall r0, tr <> [] -> ~ looks_end (fst (fst (last tr r0)))).
  { destruct Hlast as [H1|H2]; [left; exact H1|right]. intros r0 Hn0. specialize (H2 (observe r0)).
    rewrite <- Ho in H2. rewrite last_map', observe_ty in H2. apply H2. destruct tr; [congruence|discriminate]. }
  pose proof (run_sim c d (len pre + len X) Hc Htb tr (length os) l Hi Hcl Hr Hne' HE ltac:(rewrite Hp; exact Hcr) Hlast') as Hrc.
  exists tr. rewrite map_length. split; [exact Hrc|]. split; [|split; [exact Hf|exact Hat']].
  rewrite <- Ho, map_map. apply map_ext_in. intros r Hin. unfold observe_h. f_equal.
  pose proof (run_no_tmpl_has _ _ _ Hr) as Hh. rewrite Forall_forall in Hh. exact (Hh r Hin).
Qed.

(* ---- text that ends where a delimiter starts ------------------------------------------------------------------------------- *)
Lemma text_loop_text_c c z t rest : cfg_ok c -> tb c <> [] -> reads z (t ++ rest) -> lstart z = lpos z -> t <> [] -> Forall (fun c => c <> 60) t ->
  (forall i, 0 <= i < len t -> prefixb (tb c) (skipz i (t ++ rest)) = false) -> prefixb (tb c) rest = true ->
  loop (fuel_of z) (text_body c) z = Ok (mv z (len t), DText).
Proof.
  intros [Hntb _] Htb Hr Hcl Hne Ht Hclean Hend. pose proof (len_nonneg t) as Hlt.
  assert (Hpos : 0 < len t) by (destruct t; [congruence|rewrite len_cons; pose proof (len_nonneg t); lia]).
  assert (Hta : forall k, 0 <= k <= len t -> tmpl_at c (mv z k) = Ok (prefixb (tb c) (skipz k (t ++ rest)))).
  { intros k Hk. unfold tmpl_at. rewrite (has_delims_true c Htb). apply (reads_at z _ k _ Hr Hntb). rewrite len_app. pose proof (len_nonneg rest). lia. }
  apply (loop_scan _ z (len t)); [lia| | |eapply fuel_of_enough; [exact Hr|rewrite len_app; pose proof (len_nonneg rest); lia]].
  - intros i Hi. destruct (peekz_in t i Hi) as (c0 & Hc0 & Hin).
    rewrite Forall_forall in Ht. specialize (Ht c0 Hin).
    unfold text_body. rewrite pkr_mv0, (reads_pkr z _ i c0 Hr (peekz_app_l' _ _ _ _ Hc0)). cbn [rbind].
    rewrite (Hta i ltac:(lia)), (Hclean i Hi). cbn [rbind].
    replace (c0 =? 60) with false by (symmetry; apply Z.eqb_neq; exact Ht).
    rewrite (reads_eof0_in z _ i c0 Hr (peekz_app_l' _ _ _ _ Hc0)). rewrite mv_mv. reflexivity.
  - assert (Hmark : (0 <? mark (mv z (len t))) = true) by (unfold mark; cbn [mv lpos lstart]; apply Z.ltb_lt; lia).
    unfold text_body. rewrite pkr_mv0.
    assert (Hpk : exists c0, pkr z (len t) = Ok c0).
    { destruct rest as [|c1 r]; [destruct (tb c); [congruence|discriminate]|]. exists c1. apply (reads_pkr z _ (len t) c1 Hr). rewrite peekz_app_r0. apply peekz_cons_0. }
    destruct Hpk as (c0 & ->). cbn [rbind]. rewrite (Hta (len t) ltac:(lia)), skipz_app_len, Hend. cbn [rbind]. rewrite Hmark. reflexivity.
Qed.

Lemma next_text_c c d l pre t rest : cfg_ok c -> tb c <> [] -> at_input d l pre (t ++ rest) -> intag l = false -> rawtag l = 0 ->
  t <> [] -> Forall (fun c => c <> 60) t -> clean_range c d (len pre) (len pre + len t) -> prefixb (tb c) rest = true ->
  exists l', next c l = Ok (TextT, Some (mkSl (len pre) (len t)), l') /\
    ltext l' = Some (mkSl (len pre) (len t)) /\ lbuf (lz l') = lbuf (lz l) /\
    intag l' = false /\ rawtag l' = 0 /\ lerr l' = lerr l /\ lhas l' = false.
Proof.
  intros Hc Htb Hat Hit Hraw Hne Ht Hcr Hend. pose proof (at_input_reads _ _ _ _ Hat) as Hr.
  destruct Hat as (Hi & Hcl & Hd & Hp). pose proof (len_nonneg pre).
  unfold next. cbn [lz rawtag intag lerr ltext lattr lhas]. rewrite Hit, Hraw. cbn [Z.eqb negb].
  unfold next_content. cbn [lz rawtag intag lerr ltext lattr lhas].
  rewrite (text_loop_text_c c _ t rest Hc Htb Hr Hcl Hne Ht); [| |exact Hend].
  2:{ intros i Hir. specialize (Hcr (len pre + i) ltac:(lia)). rewrite Hd in Hcr. rewrite <- skipz_skipz in Hcr by lia. rewrite skipz_app_len in Hcr. exact Hcr. }
  cbn [rbind].
  destruct (reads_mv _ _ (len t) Hr) as [Hw2 _]; [rewrite len_app; pose proof (len_nonneg t); pose proof (len_nonneg rest); lia|].
  rewrite shiftv_spec by exact Hw2. cbn [rbind fst snd mv lstart lpos].
  rewrite Hcl, Hp. replace (len pre + len t - len pre) with (len t) by lia.
  eexists. split; [reflexivity|]. cbn [ltext lz intag rawtag lerr lhas skip lbuf mv]. repeat split.
Qed.

(* ---- documents with template regions --------------------------------------------------------------------------------------- *)
Inductive titem := TI (i : item) | TT (reg : list Z).       (* a construct of the grammar WfDoc.item, or a delimited region *)
Definition titem_bytes (t : titem) : list Z := match t with TI i => item_bytes i | TT reg => reg end.
Definition titem_obs (t : titem) : list (obs * bool) :=
  match t with TI i => map (fun o => (o, false)) (item_obs i) | TT reg => [(mkObs TemplateT reg [] [], true)] end.
Definition tdoc_bytes (its : list titem) : list Z := concat (map titem_bytes its).
Definition tdoc_obs (its : list titem) : list (obs * bool) := concat (map titem_obs its).

(* what may follow a construct that ends at E *)
Definition follows_ok (c : cfg) (d : list Z) (E : Z) (i : item) (rest : list titem) : Prop :=
  match rest with
  | [] => True
  | TI j :: _ => is_plain i = false /\ (is_text i = true -> is_text j = false) /\ prefixb (tb c) (skipz E d) = false
  | TT _ :: _ => is_plain i = false /\ (is_text i = true \/ forall o0, ~ looks_end (o_ty (last (item_obs i) o0)))
  end.

Fixpoint wf_tdoc (c : cfg) (d : list Z) (pre : list Z) (its : list titem) : Prop :=
  match its with
  | [] => True
  | TT reg :: rest => is_region c d (len pre) (len pre + len reg) /\ wf_tdoc c d (pre ++ reg) rest
  | TI i :: rest => wf_item i /\ clean_range c d (len pre) (len pre + len (item_bytes i)) /\
                    follows_ok c d (len pre + len (item_bytes i)) i rest /\ wf_tdoc c d (pre ++ item_bytes i) rest
  end.

Lemma lexesC_one c d l pre X rest ty v l' o : at_input d l pre (X ++ rest) -> html_inv d l' -> lstart (lz l') = lpos (lz l') ->
  next c l = Ok (ty, Some v, l') -> lpos (lz l') = len pre + len X -> observe_h (ty, Some v, l') = o ->
  lexesC c d l pre X rest [o] l'.
Proof.
  intros (Hi & Hcl & Hd & Hp) Hi' Hcl' Hn Hpos Ho. exists [(ty, Some v, l')]. cbn [length run]. rewrite Hn. cbn [rbind snd map].
  split; [reflexivity|]. split; [rewrite Ho; reflexivity|]. split; [reflexivity|].
  split; [exact Hi'|]. split; [exact Hcl'|]. split; [rewrite Hd, app_assoc; reflexivity|rewrite len_app; exact Hpos].
Qed.

Lemma lexes_tdoc c d : cfg_ok c -> tb c <> [] -> forall its l pre, at_input d l pre (tdoc_bytes its) -> intag l = false -> rawtag l = 0 -> lerr l = false ->
  wf_tdoc c d pre its -> exists l', lexesC c d l pre (tdoc_bytes its) [] (tdoc_obs its) l'.
Proof.
  intros Hc Htb. induction its as [|it rest IH]; intros l pre Hat Hit Hraw Hlerr Hwf.
  - exists l. apply lexesC_nil. exact Hat.
  - unfold tdoc_bytes, tdoc_obs in *. cbn [map concat] in *. fold (tdoc_bytes rest) in *. fold (tdoc_obs rest) in *.
    pose proof Hat as (Hi & Hcl & Hd & Hp). pose proof Hi as (Hl & _).
    destruct it as [i|reg]; cbn [titem_bytes titem_obs wf_tdoc] in *.
    + destruct Hwf as (Hwi & Hcr & Hfol & Hwr).
      (* text directly followed by a region *)
      assert (Hcase : (exists t reg rest', i = IText t /\ rest = TT reg :: rest') \/
                      (is_text i = true -> match rest with TT _ :: _ => False | _ => True end)).
      { destruct rest as [|[j|reg] rest']; [right; tauto|right; tauto|]. cbn [follows_ok] in Hfol. destruct Hfol as [Hnp _].
        destruct i; cbn [is_text is_plain] in *; try (right; discriminate); try discriminate; left; eauto. }
      destruct Hcase as [(t & reg & rest' & -> & ->)|Hcase].
      * cbn [item_bytes item_obs wf_item map] in *. destruct Hwi as [Hne Ht]. cbn [wf_tdoc] in Hwr. destruct Hwr as [Hreg Hwr'].
        assert (Hend : prefixb (tb c) (tdoc_bytes (TT reg :: rest')) = true).
        { destruct Hreg as (_ & _ & Hpre & _). rewrite len_app in Hpre. rewrite Hd in Hpre. pose proof (len_nonneg pre). pose proof (len_nonneg t).
          rewrite <- skipz_skipz in Hpre by lia. rewrite skipz_app_len in Hpre. rewrite skipz_app_len in Hpre. exact Hpre. }
        destruct (next_text_c c d l pre t _ Hc Htb Hat Hit Hraw Hne Ht Hcr Hend) as (l1 & Hn & Htx & Hbf & Hi1 & Hr1 & He1 & Hh1).
        pose proof (html_inv_step d l _ _ _ Hi (safe_eq _ _ _ (next_spec c l Hc Hl) Hn)) as Hinv1.
        pose proof (safe_eq _ _ _ (next_spec c l Hc Hl) Hn) as Hs. cbn [step_post] in Hs. destruct Hs as (_ & _ & _ & _ & (_ & _ & _ & Hv3 & Hcl1 & _) & _).
        cbn [so sn] in Hv3.
        assert (Hl1 : lexesC c d l pre t (tdoc_bytes (TT reg :: rest') ++ []) [(mkObs TextT t t [], false)] l1).
        { rewrite app_nil_r. eapply lexesC_one; [exact Hat|exact Hinv1|exact Hcl1|exact Hn|lia|].
          unfold observe_h. cbn [snd]. rewrite Hh1. f_equal. cbn [observe]. rewrite Htx, Hbf. cbn [opt_bytes]. change (TextT =? AttributeT) with false.
          pose proof (len_nonneg t). rewrite (at_input_view0 d l pre _ (len t) Hat) by (rewrite ?len_app; pose proof (len_nonneg (tdoc_bytes (TT reg :: rest'))); lia).
          rewrite slice_first. reflexivity. }
        assert (Hat1 : at_input d l1 (pre ++ t) (tdoc_bytes (TT reg :: rest'))) by (destruct Hl1 as (tr & _ & _ & _ & A); rewrite app_nil_r in A; exact A).
        destruct (IH l1 (pre ++ t) Hat1 Hi1 Hr1 ltac:(congruence) (conj Hreg Hwr')) as (l2 & Hl2).
        exists l2. change ((mkObs TextT t t [], false) :: tdoc_obs (TT reg :: rest')) with ([(mkObs TextT t t [], false)] ++ tdoc_obs (TT reg :: rest')).
        eapply lexesC_app; [exact Hl1|exact Hl2].
      * assert (Hnext : is_text i = true -> tdoc_bytes rest = [] \/ tag_start (tdoc_bytes rest)).
        { intros Ht. specialize (Hcase Ht). destruct rest as [|[j|reg] rest']; [left; reflexivity| |contradiction]. right.
          cbn [follows_ok] in Hfol. destruct Hfol as (_ & Hnt & _). cbn [wf_tdoc] in Hwr. destruct Hwr as (Hwj & _).
          unfold tdoc_bytes. cbn [map concat titem_bytes]. apply nontext_tag_start; [exact Hwj|exact (Hnt Ht)]. }
        assert (Hlast : is_plain i = true -> tdoc_bytes rest = []).
        { intros Hpl. destruct rest as [|[j|reg] rest']; [reflexivity| |]; cbn [follows_ok] in Hfol; destruct Hfol as [Hnp _]; congruence. }
        destruct (lexes_item i d l pre (tdoc_bytes rest) Hat Hit Hraw Hlerr Hwi Hnext Hlast) as (l1 & Hlx & Hst).
        assert (Hend : prefixb (tb c) (skipz (len pre + len (item_bytes i)) d) = false \/
                       forall o0, item_obs i <> [] -> ~ looks_end (o_ty (last (item_obs i) o0))).
        { destruct rest as [|[j|reg] rest'].
          - left. rewrite Hd. unfold tdoc_bytes. cbn [map concat]. rewrite app_nil_r, <- len_app, skipz_len_nil. destruct (tb c); [congruence|reflexivity].
          - left. cbn [follows_ok] in Hfol. tauto.
          - right. cbn [follows_ok] in Hfol. destruct Hfol as (_ & [Ht|Hl0]); [exfalso; exact (Hcase Ht)|intros o0 _; exact (Hl0 o0)]. }
        pose proof (lexes_to_c c d l pre (item_bytes i) (tdoc_bytes rest) (item_obs i) l1 Hc Htb Hat Hlx (item_obs_noerr i) Hcr Hend) as Hlc.
        destruct rest as [|it2 rest'].
        -- exists l1. unfold tdoc_bytes, tdoc_obs in *. cbn [map concat] in *. rewrite !app_nil_r in *. exact Hlc.
        -- assert (Hnp : is_plain i = false) by (destruct it2; cbn [follows_ok] in Hfol; tauto).
           destruct (Hst Hnp) as [Hi1 Hr1].
           assert (Hat1 : at_input d l1 (pre ++ item_bytes i) (tdoc_bytes (it2 :: rest'))) by (destruct Hlx as (tr & _ & _ & _ & A); exact A).
           assert (Hlerr1 : lerr l1 = false) by (rewrite (lexes_lerr _ _ _ _ _ _ _ Hl Hlx (item_obs_noerr i)); exact Hlerr).
           destruct (IH l1 (pre ++ item_bytes i) Hat1 Hi1 Hr1 Hlerr1 Hwr) as (l2 & Hl2).
           exists l2. eapply lexesC_app; [|exact Hl2]. rewrite app_nil_r. exact Hlc.
    + destruct Hwf as [Hreg Hwr].
      destruct (template_token_full c d l (len pre) (len pre + len reg) Hc Hi Hit Hraw (eq_sym Hp) Hreg)
        as (l1 & Hn & Hh1 & Hpos & Hi1 & Hr1 & He1 & Htx & Hbf & Hcl1).
      pose proof (html_inv_step d l _ _ _ Hi (safe_eq _ _ _ (next_spec c l Hc Hl) Hn)) as Hinv1.
      assert (Hl1 : lexesC c d l pre reg (tdoc_bytes rest ++ []) [(mkObs TemplateT reg [] [], true)] l1).
      { rewrite app_nil_r. eapply lexesC_one; [exact Hat|exact Hinv1|exact Hcl1|exact Hn|exact Hpos|].
        unfold observe_h. cbn [snd]. rewrite Hh1. f_equal. cbn [observe]. rewrite Htx, Hbf. cbn [opt_bytes]. change (TemplateT =? AttributeT) with false.
        pose proof (len_nonneg reg). replace (len pre + len reg - len pre) with (len reg) by lia.
        rewrite (at_input_view0 d l pre _ (len reg) Hat) by (rewrite ?len_app; pose proof (len_nonneg (tdoc_bytes rest)); lia).
        rewrite slice_first. reflexivity. }
      assert (Hat1 : at_input d l1 (pre ++ reg) (tdoc_bytes rest)) by (destruct Hl1 as (tr & _ & _ & _ & A); rewrite app_nil_r in A; exact A).
      destruct (IH l1 (pre ++ reg) Hat1 Hi1 Hr1 ltac:(congruence) Hwr) as (l2 & Hl2).
      exists l2. change ((mkObs TemplateT reg [] [], true) :: tdoc_obs rest) with ([(mkObs TemplateT reg [] [], true)] ++ tdoc_obs rest).
      eapply lexesC_app; [exact Hl1|exact Hl2].
Qed.

(* the whole document: the tokens of the constructs with HasTemplate() = false, one Template token with HasTemplate() = true
   per region, then the end-of-input report *)
Lemma html_wellformed_templates_proof : forall c its, cfg_ok c -> tb c <> [] -> wf_tdoc c (tdoc_bytes its) [] its ->
  exists tr, run c (length (tdoc_obs its) + 1) (new_lexer (tdoc_bytes its)) = Ok tr /\
             map observe_h tr = tdoc_obs its ++ [(mkObs ErrorT [] [] [], false)].
Proof.
  intros c its Hc Htb Hwf. set (d := tdoc_bytes its) in *.
  destruct (lexes_tdoc c d Hc Htb its (new_lexer d) [] (at_input_init d) eq_refl eq_refl eq_refl Hwf) as (l' & (tr & Hr & Ho & Hf & Hat)).
  cbn [app] in Hat. destruct Hat as (Hinv & Hcl & Hd & Hp). fold d in Hp.
  destruct (html_eof_sticky_step_proof c d l' Hc Hinv Hp) as (l2 & Hn2 & Hinv2 & Hp2 & _).
  exists (tr ++ [(ErrorT, None, l2)]). rewrite run_app, Hr. cbn [rbind]. rewrite Hf. cbn [run]. rewrite Hn2. cbn [rbind].
  split; [reflexivity|]. rewrite map_app, Ho. f_equal. cbn [map]. unfold observe_h. cbn [snd]. f_equal. f_equal.
  - cbn [observe opt_bytes]. change (ErrorT =? AttributeT) with false. f_equal.
    pose proof Hinv as (Hl & _).
    pose proof (safe_eq _ _ _ (next_spec c l' Hc Hl) Hn2) as Hs. cbn [step_post] in Hs.
    destruct Hs as (_ & (Vt & _) & _). destruct (ltext l2) as [t|]; [|reflexivity]. cbn [opt_within opt_bytes] in *.
    unfold view_bytes, slice, firstz. replace (so t + sn t - so t) with 0 by lia. reflexivity.
  - destruct (lhas l2) eqn:E; [exfalso|reflexivity].
    destruct (html_template_flag_sound_proof c d Hc Htb l' ErrorT None l2 Hinv Hn2 E) as (p & q & Hp1 & Hq & Hreg).
    destruct (is_region_in _ _ _ _ Hreg) as [_ Hlt]. lia.
Qed.

(* cleanliness of a range, by computation *)
Definition clean_b (c : cfg) (d : list Z) (a : Z) (n : nat) : bool :=
  forallb (fun k => negb (prefixb (tb c) (skipz (a + Z.of_nat k) d))) (seq 0 n).

Lemma clean_b_ok c d a n : clean_b c d a n = true -> clean_range c d a (a + Z.of_nat n).
Proof.
  intros H i Hi. unfold clean_b in H. rewrite forallb_forall in H.
  specialize (H (Z.to_nat (i - a)) ltac:(apply in_seq; lia)). apply negb_true_iff in H. replace (a + Z.of_nat (Z.to_nat (i - a))) with i in H by lia. exact H.
Qed.

(* non-vacuity: <p>{{x}}</p>a{{y}} with the Go delimiters *)
Example html_wellformed_templates_nonvacuous :
  let its := [ TI (ITag [112] [] [] false); TT [123; 123; 120; 125; 125]; TI (IEnd [112] []); TI (IText [97]); TT [123; 123; 121; 125; 125] ] in
  wf_tdoc go_tmpl (tdoc_bytes its) [] its /\
  exists tr, run go_tmpl 7 (new_lexer (tdoc_bytes its)) = Ok tr /\ map observe_h tr = tdoc_obs its ++ [(mkObs ErrorT [] [] [], false)].
Proof.
  intros its. split; [|eexists; split; vm_compute; reflexivity].
  set (d := tdoc_bytes its). unfold its. cbn [wf_tdoc].
  split.
  { cbn [wf_item]. split; [eexists _, _; split; reflexivity|]. split; [repeat constructor; vm_compute; repeat split; discriminate|].
    split; [eexists; split; vm_compute; reflexivity|]. split; [constructor|exact I]. }
  split; [exact (clean_b_ok go_tmpl d 0 3 eq_refl)|].
  split; [cbn [follows_ok]; split; [reflexivity|right; intros o0; cbn; unfold looks_end; intros [E|[E|E]]; discriminate]|].
  split; [change (is_region go_tmpl d 3 8); split; [lia|split; [discriminate|split; vm_compute; reflexivity]]|].
  split; [cbn [wf_item]; split; [eexists _, _; split; reflexivity|]; split; [repeat constructor; vm_compute; reflexivity|constructor]|].
  split; [exact (clean_b_ok go_tmpl d 8 4 eq_refl)|].
  split; [cbn [follows_ok]; split; [reflexivity|split; [discriminate|reflexivity]]|].
  split; [cbn [wf_item]; split; [discriminate|repeat constructor; discriminate]|].
  split; [exact (clean_b_ok go_tmpl d 12 1 eq_refl)|].
  split; [cbn [follows_ok]; split; [reflexivity|left; reflexivity]|].
  split; [change (is_region go_tmpl d 13 18); split; [lia|split; [discriminate|split; vm_compute; reflexivity]]|exact I].
Qed.

(* ---- one call, stated over the input ----------------------------------------------------------------------------------------- *)
Lemma html_template_transparent_proof : forall c d l ty tk l', cfg_ok c -> tb c <> [] -> html_inv d l -> lstart (lz l) = lpos (lz l) ->
  next no_tmpl l = Ok (ty, tk, l') -> clean_range c d (lpos (lz l)) (lpos (lz l')) ->
  (looks_end ty -> prefixb (tb c) (skipz (lpos (lz l')) d) = false) ->
  next c l = Ok (ty, tk, l') /\ lhas l' = false.
Proof.
  intros c d l ty tk l' Hc Htb Hi Hcl Hn Hcr Hend. split; [|exact (next_no_tmpl_has l _ Hn)].
  pose proof Hi as (Hl & _). pose proof (safe_eq _ _ _ (next_spec no_tmpl l cfg_ok_no_tmpl Hl) Hn) as Hs.
  pose proof (html_inv_step d l ty tk l' Hi Hs) as Hi1. pose proof Hi1 as ((Hw1 & _) & Hlen1 & _).
  assert (Hed : lpos (lz l') <= len d) by (destruct Hw1 as (_ & _ & ?); lia).
  cbn [step_post] in Hs. destruct Hs as (_ & _ & _ & Hp & Htk & _).
  pose proof (binv_of_inv d l Hi) as Hb.
  assert (Hdec : looks_end ty \/ ~ looks_end ty).
  { unfold looks_end. destruct (Z.eq_dec ty TextT); [tauto|]. destruct (Z.eq_dec ty AttributeT); [tauto|]. destruct (Z.eq_dec ty ErrorT); tauto. }
  destruct Hdec as [Hle|Hnl].
  - apply (next_sim c d l (lpos (lz l')) Hc Htb Hb); [|exact Hcl|lia|exact Hn|cbn [snd lz]; lia|cbn [snd lz]; intros _; lia|exact Hed].
    intros i Hir. destruct (Z.eq_dec i (lpos (lz l'))) as [->|Hne]; [exact (Hend Hle)|apply Hcr; lia].
  - assert (Hlt : lpos (lz l) < lpos (lz l')).
    { destruct tk as [v|]; [destruct Htk as (_ & ? & ? & ? & _); lia|destruct Htk as [-> _]; exfalso; apply Hnl; unfold looks_end; tauto]. }
    apply (next_sim c d l (lpos (lz l') - 1) Hc Htb Hb); [|exact Hcl|lia|exact Hn|cbn [snd lz]; lia| |exact Hed].
    + intros i Hir. apply Hcr. lia.
    + cbn [fst snd]. intros Hty. exfalso. apply Hnl. exact Hty.
Qed.
