(* Xml/Proofs.v — the structural theorems about the XML lexer model: totality, progress, stickiness of
   the terminal report, no over-read, tiling, sub-slices, attribute bracketing, NUL handling. *)
From Verif Require Import Common.Base Common.Tactics Common.Lx Xml.Model Xml.Lemmas Xml.Step.
From Coq Require Import ZifyBool.

Definition ws3 (c : Z) : Prop := c = 9 \/ c = 10 \/ c = 13.

(* ---- the invariant of every reachable state ------------------------------------------------------- *)
Record xinv (d : list Z) (s : xst) : Prop := {
  i_wf : lx_wf (xr s);
  i_len : lx_len (xr s) = len d;
  i_unread : forall i, lpos (xr s) <= i -> getz (lbuf (xr s)) i = getz d i;
  i_rewr : forall i, getz (lbuf (xr s)) i = getz d i \/ (ws3 (getz d i) /\ getz (lbuf (xr s)) i = 32);
  i_nz : nzr (lbuf (xr s)) 0 (lpos (xr s));
  i_err : xerr s = true -> getz (lbuf (xr s)) (lpos (xr s)) = 0 /\ lpos (xr s) < lx_len (xr s);
  i_sync : lstart (xr s) = lpos (xr s) \/ (xin s = true /\ getz (lbuf (xr s)) (lpos (xr s)) = 0);
  i_attr : xin s = false -> xattr s = None
}.

Lemma getz_snoc0 d i : getz (d ++ [0]) i = getz d i.
Proof.
  destruct (Z.lt_ge_cases i (len d)) as [H|H].
  - apply getz_app1. exact H.
  - rewrite (getz_overflow d) by lia. rewrite getz_app2 by lia.
    destruct (Z.eq_dec i (len d)) as [->|]; [replace (len d - len d) with 0 by lia; reflexivity|].
    apply getz_overflow. change (len [0]) with 1. lia.
Qed.

Lemma xinv_init d : xinv d (xml_init d).
Proof.
  unfold xml_init. constructor; cbn [xr xerr xin xattr]; try apply lx_init_wf; unfold lx_init; cbn [lbuf lpos lstart].
  - unfold lx_len. cbn [lbuf]. rewrite (len_app d [0]). change (len [0]) with 1. lia.
  - intros i _. apply getz_snoc0.
  - intros i. left. apply getz_snoc0.
  - intros i Hi. lia.
  - discriminate.
  - left. reflexivity.
  - reflexivity.
Qed.

(* determinism: the view describes the result of next *)
Lemma next_inv s ty tok s' : lx_wf (xr s) -> next s = Some (ty, tok, s') -> view s ty tok s'.
Proof.
  intros H Hn. destruct (next_view s H) as (ty0 & tok0 & s0 & Hn0 & V). rewrite Hn in Hn0.
  injection Hn0 as <- <- <-. exact V.
Qed.

(* nothing moves from a NUL byte (or from the terminator) *)
Lemma adv_at_nul z z' : getz (lbuf z) (lpos z) = 0 -> adv z z' -> z' = z.
Proof.
  intros H0 (A1 & A2 & A3 & A4 & A5).
  assert (lpos z' = lpos z).
  { destruct (Z.eq_dec (lpos z') (lpos z)); [assumption|]. exfalso. apply (A5 (lpos z)); [lia|exact H0]. }
  destruct z as [b p st], z' as [b' p' st']. cbn [lbuf lpos lstart] in *. subst. reflexivity.
Qed.

Lemma adv_first_nz z z' : adv z z' -> lpos z < lpos z' -> getz (lbuf z) (lpos z) <> 0.
Proof. intros (_ & _ & _ & _ & A5) H. apply A5. lia. Qed.

Lemma advw_first_nz z z' lo hi : advw z z' lo hi -> lpos z < lpos z' -> getz (lbuf z) (lpos z) <> 0.
Proof. intros (_ & _ & _ & _ & _ & _ & A7) H. apply A7. lia. Qed.

(* a token is only returned when the cursor is at a non-NUL byte and start = pos *)
Lemma view_token d s ty tok s' : xinv d s -> view s ty tok s' -> ty <> TError ->
  getz (lbuf (xr s)) (lpos (xr s)) <> 0 /\ lstart (xr s) = lpos (xr s).
Proof.
  intros I V Hty.
  assert (Hnz : getz (lbuf (xr s)) (lpos (xr s)) <> 0 -> getz (lbuf (xr s)) (lpos (xr s)) <> 0 /\ lstart (xr s) = lpos (xr s)).
  { intros Hn. split; [exact Hn|]. destruct (i_sync d s I) as [E|(_ & E)]; [exact E|congruence]. }
  destruct V as [z1 Hin A W0 H0|z1 t a zf lo hi Hin A W0 Aw Hp T1 T2 Q|z1 ty k Hin A W0 Ak Hk|z1 Hin A Hp Hc N60|ty zf t Hin Hs Hc Hm A Hp T|Hin Hs H0];
    try congruence; apply Hnz.
  - intros E0. rewrite (adv_at_nul _ _ E0 A) in *. apply (advw_first_nz _ _ _ _ Aw Hp). exact E0.
  - intros E0. rewrite (adv_at_nul _ _ E0 A) in *.
    assert (0 < k) by (destruct Hk as [(_ & -> & _)|[(_ & -> & _)|(_ & -> & _)]]; lia).
    apply (adv_first_nz _ _ Ak); [cbn [lpos mv]; lia|exact E0].
  - destruct (i_sync d s I) as [E|(E & _)]; [|congruence].
    apply (adv_first_nz _ _ A). lia.
  - rewrite Hc. lia.
Qed.

Lemma null_err_idem z e : null_err z (null_err z e) = null_err z e.
Proof. unfold null_err. destruct (at_end z); reflexivity. Qed.

Lemma getz_norm_same b lo hi i : 0 <= lo <= hi -> hi <= len b -> ~ (lo <= i < hi) -> getz (norm_range b lo hi) i = getz b i.
Proof.
  intros H1 H2 H3. rewrite getz_norm_range by assumption.
  destruct (Z.leb_spec lo i); destruct (Z.ltb_spec i hi); cbn [andb]; try reflexivity. lia.
Qed.

Lemma ws2sp_cases c : ws2sp c = c \/ (ws3 c /\ ws2sp c = 32).
Proof.
  unfold ws2sp, ws3. destruct ((c =? 9) || (c =? 10) || (c =? 13)) eqn:E; [right|left; reflexivity].
  split; [lia|reflexivity].
Qed.

(* preservation of the invariant: the cursor moves forward over non-NUL bytes, the buffer is
   normalised on [lo,hi) inside the bytes moved over (lo = hi: unchanged), start is anywhere <= pos *)
Lemma xinv_move d s zr lo hi e i p t a :
  xinv d s ->
  lbuf zr = norm_range (lbuf (xr s)) lo hi -> lpos (xr s) <= lo <= hi -> hi <= lpos zr -> lpos zr <= lx_len (xr s) ->
  nzr (lbuf (xr s)) (lpos (xr s)) (lpos zr) ->
  0 <= lstart zr <= lpos zr ->
  (e = true -> getz (lbuf zr) (lpos zr) = 0 /\ lpos zr < lx_len (xr s)) ->
  (lstart zr = lpos zr \/ (i = true /\ getz (lbuf zr) (lpos zr) = 0)) ->
  (i = false -> a = None) ->
  xinv d (mkX zr e i p t a).
Proof.
  intros I Hb Hlo Hhi Hp Hz Hst He Hs Ha.
  pose proof (i_wf d s I) as W. pose proof (wf_range _ W) as Hr. destruct (wf_buf _ W) as (b & Eb & Lb).
  assert (Hlen : len (lbuf (xr s)) = lx_len (xr s) + 1) by (unfold lx_len; lia).
  assert (El : lx_len zr = lx_len (xr s)).
  { unfold lx_len. rewrite Hb, len_norm_range by lia. reflexivity. }
  assert (Hg : forall j, getz (lbuf zr) j = if (lo <=? j) && (j <? hi) then ws2sp (getz (lbuf (xr s)) j) else getz (lbuf (xr s)) j).
  { intros j. rewrite Hb. apply getz_norm_range; lia. }
  constructor; cbn [xr xerr xin xattr].
  - unfold lx_wf. rewrite El. split; [|lia]. exists (norm_range b lo hi). rewrite Hb, Eb.
    apply norm_range_snoc; lia.
  - rewrite El. apply (i_len d s I).
  - intros j Hj. rewrite Hg. destruct (Z.ltb_spec j hi); [lia|]. rewrite andb_false_r.
    apply (i_unread d s I). lia.
  - intros j. rewrite Hg. destruct ((lo <=? j) && (j <? hi)) eqn:E; [|apply (i_rewr d s I)].
    rewrite (i_unread d s I) by lia. apply ws2sp_cases.
  - intros j Hj. rewrite Hg.
    assert (getz (lbuf (xr s)) j <> 0).
    { destruct (Z.lt_ge_cases j (lpos (xr s))); [apply (i_nz d s I); lia|apply Hz; lia]. }
    destruct ((lo <=? j) && (j <? hi)); [apply ws2sp_nz|]; assumption.
  - rewrite El. exact He.
  - exact Hs.
  - exact Ha.
Qed.

Lemma norm_range_id_eq b b' p : b' = b -> b' = norm_range b p p.
Proof. intros ->. symmetry. apply norm_range_empty. Qed.

(* a token was returned: the new cursor is [skip zf] *)
Lemma xinv_token d s zf lo hi i p t a :
  xinv d s -> getz (lbuf (xr s)) (lpos (xr s)) <> 0 ->
  lbuf zf = norm_range (lbuf (xr s)) lo hi -> lpos (xr s) <= lo <= hi -> hi <= lpos zf -> lpos zf <= lx_len (xr s) ->
  nzr (lbuf (xr s)) (lpos (xr s)) (lpos zf) ->
  (i = false -> a = None) ->
  xinv d (mkX (skip zf) (xerr s) i p t a).
Proof.
  intros I Hnz Hb Hlo Hhi Hp Hz Ha. pose proof (wf_range _ (i_wf d s I)) as Hr.
  apply (xinv_move d s (skip zf) lo hi); cbn [lbuf lpos lstart skip]; try assumption; try lia.
  intros He. destruct (i_err d s I He) as (E0 & _). congruence.
Qed.

Theorem xinv_step d s ty tok s' : xinv d s -> next s = Some (ty, tok, s') -> xinv d s'.
Proof.
  intros I Hn. pose proof (i_wf d s I) as W. pose proof (wf_range _ W) as Hr.
  pose proof (next_inv _ _ _ _ W Hn) as V.
  pose proof (view_token d s ty tok s' I V) as Htok.
  destruct V as [z1 Hin A W0 H0|z1 t a zf lo hi Hin A W0 Aw Hp T1 T2 Q|z1 ty k Hin A W0 Ak Hk|z1 Hin A Hp Hc N60|ty zf t Hin Hs Hc Hm A Hp T|Hin Hs H0].
  - (* error inside a tag *)
    destruct A as (A1 & A2 & A3 & A4 & A5).
    apply (xinv_move d s z1 (lpos (xr s)) (lpos (xr s))); try assumption; try lia.
    + apply norm_range_id_eq. exact A1.
    + rewrite A1. intros He. split; [exact H0|]. unfold null_err, at_end in He.
      destruct (Z.leb_spec (lx_len z1) (lpos z1)) as [L|L].
      * destruct (i_err d s I He) as (E0 & E1).
        assert (z1 = xr s) as -> by (apply adv_at_nul; [exact E0|unfold adv; auto]). exact E1.
      * rewrite (lx_len_eq _ _ A1) in L. exact L.
    + right. rewrite A1. auto.
  - (* attribute *)
    destruct (Htok ltac:(discriminate)) as (Hnz & Hsy).
    destruct A as (A1 & A2 & A3 & A4 & A5). destruct Aw as (B1 & B2 & B3 & B4 & B5 & B6 & B7).
    rewrite A1 in *. rewrite (lx_len_eq _ _ A1) in *.
    apply (xinv_token d s zf lo hi); try assumption; try lia; try discriminate.
    intros j Hj. destruct (Z.lt_ge_cases j (lpos z1)); [apply A5|apply B7]; lia.
  - (* closer *)
    destruct (Htok ltac:(destruct Hk as [(-> & _)|[(-> & _)|(-> & _)]]; discriminate)) as (Hnz & Hsy).
    destruct A as (A1 & A2 & A3 & A4 & A5). destruct Ak as (B1 & B2 & B3 & B4 & B5).
    rewrite A1 in *. rewrite (lx_len_eq _ _ A1) in *. cbn [lpos mv] in *.
    assert (E : skip (mv (skip z1) k) = skip (mv z1 k)) by reflexivity. rewrite E.
    apply (xinv_token d s (mv z1 k) (lpos (xr s)) (lpos (xr s))); cbn [lbuf lpos mv]; try assumption; try lia; try reflexivity.
    + apply norm_range_id_eq. exact A1.
    + intros j Hj. destruct (Z.lt_ge_cases j (lpos z1)); [apply A5|apply B5]; lia.
  - (* text *)
    destruct (Htok ltac:(discriminate)) as (Hnz & Hsy). destruct A as (A1 & A2 & A3 & A4 & A5).
    apply (xinv_token d s z1 (lpos (xr s)) (lpos (xr s))); try assumption; try lia.
    + apply norm_range_id_eq. exact A1.
    + intros _. apply (i_attr d s I Hin).
  - (* markup *)
    destruct (Htok ltac:(destruct ty; discriminate)) as (Hnz & Hsy). destruct A as (A1 & A2 & A3 & A4 & A5).
    apply (xinv_token d s zf (lpos (xr s)) (lpos (xr s))); try assumption; try lia.
    + apply norm_range_id_eq. exact A1.
    + intros _. apply (i_attr d s I Hin).
  - (* error in character data *)
    apply (xinv_move d s (xr s) (lpos (xr s)) (lpos (xr s))); try assumption; try lia;
      try (symmetry; apply norm_range_empty); try (intros _; apply (i_attr d s I Hin)); try (intros j Hj; lia).
    intros He. split; [exact H0|]. unfold null_err, at_end in He.
    destruct (Z.leb_spec (lx_len (xr s)) (lpos (xr s))) as [L|L]; [|exact L].
    apply (i_err d s I He).
Qed.

Lemma after_inv d n : forall s s', xinv d s -> after n s = Some s' -> xinv d s'.
Proof.
  induction n as [|n IH]; intros s s' I H; cbn [after] in H.
  - injection H as <-. exact I.
  - destruct (next s) as [[[ty tok] s1]|] eqn:Hn; [|discriminate]. cbn [option_bind snd] in H.
    apply (IH s1 s'); [|exact H]. eapply xinv_step; eassumption.
Qed.

Lemma reach_inv d s : reach d s -> xinv d s.
Proof. intros (n & H). eapply after_inv; [apply xinv_init|exact H]. Qed.

(* ---- totality --------------------------------------------------------------------------------------------- *)
Lemma next_total_inv d s : xinv d s -> exists ty tok s', next s = Some (ty, tok, s') /\ xinv d s'.
Proof.
  intros I. destruct (next_view s (i_wf d s I)) as (ty & tok & s' & Hn & _).
  exists ty, tok, s'. split; [exact Hn|]. eapply xinv_step; eassumption.
Qed.

Lemma run_total_inv d n : forall s, xinv d s -> exists tr, run n s = Some tr /\ length tr = n.
Proof.
  induction n as [|n IH]; intros s I; cbn [run]; [eauto|].
  destruct (next_total_inv d s I) as (ty & tok & s' & Hn & I'). rewrite Hn. cbn [option_bind snd].
  destruct (IH s' I') as (tr & Hr & Hl). rewrite Hr. cbn [option_bind]. eexists. split; [reflexivity|].
  cbn [length]. lia.
Qed.

Theorem xml_total_proof : forall d n, exists tr, run n (xml_init d) = Some tr /\ length tr = n.
Proof. intros d n. apply (run_total_inv d n). apply xinv_init. Qed.

Theorem xml_step_total_proof : forall d s, reach d s -> exists ty tok s', next s = Some (ty, tok, s') /\ reach d s'.
Proof.
  intros d s R. destruct (next_total_inv d s (reach_inv d s R)) as (ty & tok & s' & Hn & _).
  exists ty, tok, s'. split; [exact Hn|]. destruct R as (n & Hr). exists (S n).
  clear - Hr Hn. revert Hr. generalize (xml_init d). induction n as [|n IH]; intros s0 Hr; cbn [after] in *.
  - injection Hr as ->. rewrite Hn. reflexivity.
  - destruct (next s0) as [r|]; [|discriminate]. cbn [option_bind] in *. apply IH. exact Hr.
Qed.

(* ---- what a returned token looks like ---------------------------------------------------------------- *)
Lemma token_facts d s ty tok s' : xinv d s -> next s = Some (ty, tok, s') -> ty <> TError ->
  exists lo hi, tok = Some (lo, hi) /\ lpos (xr s) <= lo /\ lo < hi /\ hi = lpos (xr s') /\ hi <= len d /\
    lstart (xr s') = hi /\ xerr s' = xerr s /\
    ws_run d (lpos (xr s)) lo /\ (lpos (xr s) < lo -> is_closer ty = true) /\
    sl_in (xtext s') lo hi /\ sl_in (xattr s') lo hi /\ (ty <> TAttribute -> xattr s' = None) /\
    (forall i, i < lo -> getz (lbuf (xr s')) i = getz (lbuf (xr s)) i) /\
    (forall i, lo <= i < hi ->
       getz (lbuf (xr s')) i = getz d i \/
       (ty = TAttribute /\ exists aa ab, xattr s' = Some (aa, ab) /\ aa < i < ab /\ is_quote (getz d aa) /\
                                        ws3 (getz d i) /\ getz (lbuf (xr s')) i = 32)).
Proof.
  intros Inv Hn Hty. pose proof (i_wf d s Inv) as W. pose proof (wf_range _ W) as Hr.
  pose proof (next_inv _ _ _ _ W Hn) as V.
  destruct (view_token d s ty tok s' Inv V Hty) as (Hnz & Hsy).
  pose proof (i_len d s Inv) as Hl. pose proof (i_unread d s Inv) as Hu.
  destruct V as [z1 Hin A W0 H0|z1 t a zf lo hi Hin A W0 Aw Hp T1 T2 Q|z1 ty k Hin A W0 Ak Hk|z1 Hin A Hp Hc N60|ty zf t Hin Hs Hc Hm A Hp T|Hin Hs H0];
    try congruence; cbn [xr xtext xattr xerr lbuf lpos lstart skip mv].
  - (* attribute *)
    destruct A as (A1 & A2 & A3 & A4 & A5). destruct Aw as (B1 & B2 & B3 & B4 & B5 & B6 & B7).
    rewrite A1 in *. rewrite (lx_len_eq _ _ A1) in *.
    assert (Hlen : len (lbuf (xr s)) = lx_len (xr s) + 1) by (unfold lx_len; lia).
    destruct t as [ta tb]. exists (lstart (xr s)), (lpos zf). unfold sl_in in *.
    split; [reflexivity|]. split; [lia|]. split; [lia|]. split; [reflexivity|]. split; [lia|].
    split; [reflexivity|]. split; [reflexivity|].
    split; [intros j Hj; lia|]. split; [lia|]. split; [lia|]. split; [destruct a as [[aa ab]|]; [lia|exact I]|].
    split; [congruence|]. split.
    + intros j Hj. rewrite B1. apply getz_norm_same; lia.
    + intros j Hj. rewrite B1, getz_norm_range by lia.
      destruct ((lo <=? j) && (j <? hi)) eqn:E; [|left; apply Hu; lia].
      rewrite Hu by lia. destruct (ws2sp_cases (getz d j)) as [->|(Hw & ->)]; [left; reflexivity|right].
      split; [reflexivity|]. destruct (Q ltac:(lia)) as (aa & ab & -> & Hlo & Hhi & Hq).
      exists aa, ab. split; [reflexivity|]. split; [lia|]. split; [|auto].
      rewrite <- Hu by (cbn [sl_in] in T2; lia). exact Hq.
  - (* closer *)
    destruct A as (A1 & A2 & A3 & A4 & A5). destruct Ak as (B1 & B2 & B3 & B4 & B5).
    rewrite A1 in *. rewrite (lx_len_eq _ _ A1) in *. cbn [lpos mv] in *.
    assert (0 < k) by (destruct Hk as [(_ & -> & _)|[(_ & -> & _)|(_ & -> & _)]]; lia).
    exists (lpos z1), (lpos z1 + k).
    split; [reflexivity|]. split; [lia|]. split; [lia|]. split; [reflexivity|]. split; [lia|].
    split; [reflexivity|]. split; [reflexivity|]. split.
    { intros j Hj. rewrite <- Hu by lia. apply W0. exact Hj. }
    split; [intros _; destruct Hk as [(-> & _)|[(-> & _)|(-> & _)]]; reflexivity|].
    split; [exact I|]. split; [exact I|]. split; [reflexivity|].
    split; [intros j Hj; reflexivity|]. intros j Hj. left. apply Hu. lia.
  - (* text *)
    destruct A as (A1 & A2 & A3 & A4 & A5). rewrite A1.
    exists (lstart (xr s)), (lpos z1). unfold sl_in.
    split; [reflexivity|]. split; [lia|]. split; [lia|]. split; [reflexivity|]. split; [lia|].
    split; [reflexivity|]. split; [reflexivity|].
    split; [intros j Hj; lia|]. split; [lia|]. split; [lia|].
    rewrite (i_attr d s Inv Hin). split; [exact I|]. split; [reflexivity|].
    split; [reflexivity|]. intros j Hj. left. apply Hu. lia.
  - (* markup *)
    destruct A as (A1 & A2 & A3 & A4 & A5). rewrite A1.
    exists (lstart (xr s)), (lpos zf).
    split; [reflexivity|]. split; [lia|]. split; [lia|]. split; [reflexivity|]. split; [lia|].
    split; [reflexivity|]. split; [reflexivity|].
    split; [intros j Hj; lia|]. split; [lia|]. split; [exact T|].
    rewrite (i_attr d s Inv Hin). split; [exact I|]. split; [reflexivity|].
    split; [reflexivity|]. intros j Hj. left. apply Hu. lia.
Qed.

(* what an ErrorToken looks like *)
Lemma error_facts d s tok s' : xinv d s -> next s = Some (TError, tok, s') ->
  tok = None /\ adv (xr s) (xr s') /\ getz (lbuf (xr s')) (lpos (xr s')) = 0 /\
  ws_run d (lpos (xr s)) (lpos (xr s')) /\ (lpos (xr s) < lpos (xr s') -> xin s = true) /\
  s' = mkX (xr s') (null_err (xr s') (xerr s)) (xin s) (xpi s) None (if xin s then None else xattr s).
Proof.
  intros Inv Hn. pose proof (i_wf d s Inv) as W. pose proof (next_inv _ _ _ _ W Hn) as V.
  pose proof (i_unread d s Inv) as Hu. clear Hn.
  remember TError as ty eqn:Ety.
  destruct V as [z1 Hin A W0 H0|z1 t a zf lo hi Hin A W0 Aw Hp T1 T2 Q|z1 ty k Hin A W0 Ak Hk|z1 Hin A Hp Hc N60|ty zf t Hin Hs Hc Hm A Hp T|Hin Hs H0];
    try discriminate.
  - rewrite Hin. cbn [xr]. pose proof A as (A1 & _).
    split; [reflexivity|]. split; [exact A|]. split; [rewrite A1; exact H0|].
    split; [|split; [auto|reflexivity]].
    intros j Hj. rewrite <- Hu by lia. apply W0. exact Hj.
  - subst ty. destruct Hk as [(? & _)|[(? & _)|(? & _)]]; discriminate.
  - subst ty. discriminate.
  - rewrite Hin. cbn [xr].
    split; [reflexivity|]. split; [apply adv_refl; exact W|]. split; [exact H0|].
    split; [intros j Hj; lia|]. split; [lia|reflexivity].
Qed.

(* ---- progress and the call bound ------------------------------------------------------------------------ *)
Theorem xml_progress_proof : forall d s ty tok s', reach d s -> next s = Some (ty, tok, s') ->
  (ty <> TError -> lpos (xr s) < lpos (xr s') <= len d) /\
  (ty = TError -> lpos (xr s) <= lpos (xr s') <= len d /\ lstart (xr s') = lstart (xr s)).
Proof.
  intros d s ty tok s' R Hn. pose proof (reach_inv d s R) as Inv. split.
  - intros Hty. destruct (token_facts d s ty tok s' Inv Hn Hty) as (lo & hi & _ & H1 & H2 & H3 & H4 & _). lia.
  - intros ->. destruct (error_facts d s tok s' Inv Hn) as (_ & (A1 & A2 & A3 & A4 & A5) & _).
    rewrite <- (i_len d s Inv). lia.
Qed.

(* if the cursor of every reachable state stays <= L, the terminal report comes within L - pos + 1 calls *)
Lemma bound_from d L : (forall s, xinv d s -> lpos (xr s) <= L) ->
  forall k s, xinv d s -> L - lpos (xr s) <= Z.of_nat k ->
  exists n s1 tok s2, (n <= k)%nat /\ after n s = Some s1 /\ next s1 = Some (TError, tok, s2).
Proof.
  intros HL. induction k as [|k IH]; intros s Inv Hk.
  - destruct (next_total_inv d s Inv) as (ty & tok & s' & Hn & Inv').
    destruct ty; try (exfalso; destruct (token_facts d s _ tok s' Inv Hn ltac:(discriminate)) as (lo & hi & _ & H1 & H2 & H3 & _);
                      pose proof (HL s' Inv'); lia).
    exists 0%nat, s, tok, s'. split; [lia|]. split; [reflexivity|exact Hn].
  - destruct (next_total_inv d s Inv) as (ty & tok & s' & Hn & Inv').
    assert (Hc : ty = TError \/ ty <> TError) by (destruct ty; auto; right; discriminate).
    destruct Hc as [->|Hty].
    + exists 0%nat, s, tok, s'. split; [lia|]. split; [reflexivity|exact Hn].
    + destruct (token_facts d s ty tok s' Inv Hn Hty) as (lo & hi & _ & H1 & H2 & H3 & _).
      destruct (IH s' Inv' ltac:(lia)) as (n & s1 & tok1 & s2 & Hle & Ha & Hn1).
      exists (S n), s1, tok1, s2. split; [lia|]. split; [|exact Hn1].
      cbn [after]. rewrite Hn. cbn [option_bind snd]. exact Ha.
Qed.

Theorem xml_terminates_proof : forall d,
  exists n s tok s', (n <= length d)%nat /\ after n (xml_init d) = Some s /\ next s = Some (TError, tok, s').
Proof.
  intros d. apply (bound_from d (len d)).
  - intros s Inv. pose proof (wf_range _ (i_wf d s Inv)). rewrite <- (i_len d s Inv). lia.
  - apply xinv_init.
  - cbn [xml_init xr]. unfold lx_init. cbn [lpos]. unfold len. lia.
Qed.

(* ---- the terminal report is sticky ------------------------------------------------------------------------ *)
Theorem xml_error_sticky_proof : forall d s tok s', reach d s -> next s = Some (TError, tok, s') ->
  tok = None /\ xtext s' = None /\ next s' = Some (TError, None, s') /\
  (xml_err s' = 1 /\ lpos (xr s') = len d \/
   xml_err s' = 2 /\ lpos (xr s') < len d /\ getz d (lpos (xr s')) = 0).
Proof.
  intros d s tok s' R Hn. pose proof (reach_inv d s R) as Inv.
  pose proof (xinv_step d s _ _ _ Inv Hn) as Inv'.
  destruct (error_facts d s tok s' Inv Hn) as (-> & A & H0 & _ & _ & Es).
  split; [reflexivity|]. split; [rewrite Es; reflexivity|]. split.
  - destruct (next_total_inv d s' Inv') as (ty2 & tok2 & s2 & Hn2 & Inv2).
    assert (ty2 = TError).
    { destruct ty2; try reflexivity;
        destruct (view_token d s' _ tok2 s2 Inv' (next_inv _ _ _ _ (i_wf d s' Inv') Hn2) ltac:(discriminate)) as (Hnz & _);
        congruence. }
    subst ty2. destruct (error_facts d s' tok2 s2 Inv' Hn2) as (-> & A2 & _ & _ & _ & Es2).
    rewrite Hn2. do 2 f_equal. rewrite Es2.
    rewrite (adv_at_nul _ _ H0 A2). rewrite Es at 5. rewrite Es. cbn [xr xerr xin xattr].
    rewrite null_err_idem. destruct (xin s); reflexivity.
  - pose proof (wf_range _ (i_wf d s' Inv')) as Hr. pose proof (i_len d s' Inv') as Hl.
    unfold xml_err. destruct (xerr s') eqn:Ee.
    + right. destruct (i_err d s' Inv' Ee) as (E0 & E1). split; [reflexivity|]. split; [lia|].
      rewrite <- (i_unread d s' Inv') by lia. exact E0.
    + unfold at_end. destruct (Z.leb_spec (lx_len (xr s')) (lpos (xr s'))) as [L|L]; [left; split; [reflexivity|lia]|].
      exfalso. rewrite Es in Ee. cbn [xerr] in Ee. unfold null_err, at_end in Ee. rewrite Es in L. cbn [xr] in L.
      destruct (Z.leb_spec (lx_len (xr s')) (lpos (xr s'))); [lia|discriminate].
Qed.

(* ---- no over-read: every slice handed out lies inside the data (never includes the terminator) ---------- *)
Theorem xml_no_overread_proof : forall d s ty tok s', reach d s -> next s = Some (ty, tok, s') ->
  sl_in tok 0 (len d) /\ sl_in (xtext s') 0 (len d) /\ sl_in (xattr s') 0 (len d) /\
  0 <= lpos (xr s') <= len d.
Proof.
  intros d s ty tok s' R Hn. pose proof (reach_inv d s R) as Inv.
  pose proof (xinv_step d s _ _ _ Inv Hn) as Inv'.
  pose proof (wf_range _ (i_wf d s Inv)) as Hr. pose proof (wf_range _ (i_wf d s' Inv')) as Hr'.
  pose proof (i_len d s' Inv') as Hl'.
  assert (Hc : ty = TError \/ ty <> TError) by (destruct ty; auto; right; discriminate).
  destruct Hc as [->|Hty].
  - destruct (error_facts d s tok s' Inv Hn) as (-> & _ & _ & _ & _ & Es).
    rewrite Es. cbn [xtext xattr xr sl_in]. split; [exact I|]. split; [exact I|]. split; [|lia].
    destruct (xin s) eqn:Hin; [exact I|]. rewrite (i_attr d s Inv Hin). exact I.
  - destruct (token_facts d s ty tok s' Inv Hn Hty) as (lo & hi & -> & H1 & H2 & H3 & H4 & _ & _ & _ & _ & T1 & T2 & _).
    unfold sl_in in *. split; [lia|].
    split; [destruct (xtext s') as [[a b]|]; [lia|exact I]|].
    split; [destruct (xattr s') as [[a b]|]; [lia|exact I]|lia].
Qed.

(* ---- sub-slices -------------------------------------------------------------------------------------------- *)
Theorem xml_subslices_proof : forall d s ty lo hi s', reach d s -> next s = Some (ty, Some (lo, hi), s') ->
  sl_in (xtext s') lo hi /\ sl_in (xattr s') lo hi /\ (ty <> TAttribute -> xattr s' = None).
Proof.
  intros d s ty lo hi s' R Hn. pose proof (reach_inv d s R) as Inv.
  assert (Hty : ty <> TError).
  { intros ->. destruct (error_facts d s _ s' Inv Hn) as (E & _). discriminate. }
  destruct (token_facts d s ty _ s' Inv Hn Hty) as (lo' & hi' & E & _ & _ & _ & _ & _ & _ & _ & _ & T1 & T2 & T3 & _).
  injection E as <- <-. auto.
Qed.

(* ---- tiling -------------------------------------------------------------------------------------------------- *)
(* the non-error tokens of a run, with the cursor offsets, tile the input: each token starts at the
   previous offset, or after skipped whitespace when it is a tag closer; it is non-empty and ends at
   the new offset *)
Fixpoint tiled (d : list Z) (off : Z) (tr : list (ttype * sl * xst)) : Prop :=
  match tr with
  | [] => True
  | (ty, tok, s') :: rest =>
      match ty with
      | TError => tok = None /\ ws_run d off (lpos (xr s')) /\ tiled d (lpos (xr s')) rest
      | _ => exists lo hi, tok = Some (lo, hi) /\ off <= lo /\ lo < hi /\ hi = lpos (xr s') /\ hi <= len d /\
                           ws_run d off lo /\ (off < lo -> is_closer ty = true) /\ tiled d hi rest
      end
  end.

Lemma tiled_inv d n : forall s tr, xinv d s -> run n s = Some tr -> tiled d (lpos (xr s)) tr.
Proof.
  induction n as [|n IH]; intros s tr Inv H; cbn [run] in H.
  - injection H as <-. exact I.
  - destruct (next s) as [[[ty tok] s']|] eqn:Hn; [|discriminate]. cbn [option_bind snd] in H.
    destruct (run n s') as [rest|] eqn:Hr; [|discriminate]. cbn [option_bind] in H. injection H as <-.
    pose proof (xinv_step d s _ _ _ Inv Hn) as Inv'. specialize (IH s' rest Inv' Hr).
    cbn [tiled].
    assert (Hc : ty = TError \/ ty <> TError) by (destruct ty; auto; right; discriminate).
    destruct Hc as [->|Hty].
    + destruct (error_facts d s tok s' Inv Hn) as (-> & _ & _ & Hw & _). auto.
    + destruct (token_facts d s ty tok s' Inv Hn Hty) as (lo & hi & -> & H1 & H2 & H3 & H4 & _ & _ & Hw & Hcl & _).
      assert (G : exists lo0 hi0, Some (lo, hi) = Some (lo0, hi0) /\ lpos (xr s) <= lo0 /\ lo0 < hi0 /\ hi0 = lpos (xr s') /\
                    hi0 <= len d /\ ws_run d (lpos (xr s)) lo0 /\ (lpos (xr s) < lo0 -> is_closer ty = true) /\ tiled d hi0 rest).
      { exists lo, hi. subst hi. repeat split; try assumption; lia. }
      destruct ty; try exact G. congruence.
Qed.

Theorem xml_tiling_proof : forall d n tr, run n (xml_init d) = Some tr -> tiled d 0 tr.
Proof. intros d n tr H. apply (tiled_inv d n (xml_init d) tr (xinv_init d) H). Qed.

(* the bytes of a token are the input's bytes, except TAB/LF/CR rewritten to a space strictly inside a
   quoted attribute value; bytes before the token are not touched by the call *)
Theorem xml_bytes_faithful_proof : forall d s ty lo hi s', reach d s -> next s = Some (ty, Some (lo, hi), s') ->
  (forall i, i < lo -> getz (lbuf (xr s')) i = getz (lbuf (xr s)) i) /\
  (forall i, lo <= i < hi ->
     getz (lbuf (xr s')) i = getz d i \/
     (ty = TAttribute /\ exists aa ab, xattr s' = Some (aa, ab) /\ aa < i < ab /\ is_quote (getz d aa) /\
                                      ws3 (getz d i) /\ getz (lbuf (xr s')) i = 32)).
Proof.
  intros d s ty lo hi s' R Hn. pose proof (reach_inv d s R) as Inv.
  assert (Hty : ty <> TError).
  { intros ->. destruct (error_facts d s _ s' Inv Hn) as (E & _). discriminate. }
  destruct (token_facts d s ty _ s' Inv Hn Hty) as (lo' & hi' & E & _ & _ & _ & _ & _ & _ & _ & _ & _ & _ & _ & B1 & B2).
  injection E as <- <-. auto.
Qed.

(* ---- attribute bracketing ------------------------------------------------------------------------------------ *)
Definition tag_after (inTag : bool) (ty : ttype) : bool :=
  match ty with
  | TError => inTag
  | TAttribute | TStartTag | TStartTagPI => true
  | _ => false
  end.

Definition allowed (inTag : bool) (ty : ttype) : bool :=
  match ty with
  | TError => true
  | TAttribute | TStartTagClose | TStartTagCloseVoid | TStartTagClosePI => inTag
  | _ => negb inTag
  end.

Fixpoint bracketed (inTag : bool) (tys : list ttype) : bool :=
  match tys with
  | [] => true
  | ty :: rest => allowed inTag ty && bracketed (tag_after inTag ty) rest
  end.

Lemma view_bracket s ty tok s' : view s ty tok s' -> allowed (xin s) ty = true /\ xin s' = tag_after (xin s) ty.
Proof.
  intros V.
  destruct V as [z1 Hin A W0 H0|z1 t a zf lo hi Hin A W0 Aw Hp T1 T2 Q|z1 ty k Hin A W0 Ak Hk|z1 Hin A Hp Hc N60|ty zf t Hin Hs Hc Hm A Hp T|Hin Hs H0];
    cbn [xin]; rewrite ?Hin; try (split; reflexivity).
  - destruct Hk as [(-> & _)|[(-> & _)|(-> & _)]]; split; reflexivity.
  - destruct ty; try discriminate; split; reflexivity.
Qed.

Lemma bracketed_inv d n : forall s tr, xinv d s -> run n s = Some tr ->
  bracketed (xin s) (map (fun r => fst (fst r)) tr) = true.
Proof.
  induction n as [|n IH]; intros s tr Inv H; cbn [run] in H.
  - injection H as <-. reflexivity.
  - destruct (next s) as [[[ty tok] s']|] eqn:Hn; [|discriminate]. cbn [option_bind snd] in H.
    destruct (run n s') as [rest|] eqn:Hr; [|discriminate]. cbn [option_bind] in H. injection H as <-.
    pose proof (xinv_step d s _ _ _ Inv Hn) as Inv'. specialize (IH s' rest Inv' Hr).
    destruct (view_bracket _ _ _ _ (next_inv _ _ _ _ (i_wf d s Inv) Hn)) as (Ha & Hx).
    cbn [map bracketed fst]. rewrite Ha, <- Hx, IH. reflexivity.
Qed.

Theorem xml_attr_bracketing_proof : forall d n tr, run n (xml_init d) = Some tr ->
  bracketed false (map (fun r => fst (fst r)) tr) = true.
Proof. intros d n tr H. apply (bracketed_inv d n (xml_init d) tr (xinv_init d) H). Qed.

(* ---- NUL --------------------------------------------------------------------------------------------------------- *)
Lemma inv_before_nul d p s : getz d p = 0 -> 0 <= p -> xinv d s -> lpos (xr s) <= p.
Proof.
  intros H0 Hp Inv. destruct (Z.le_gt_cases (lpos (xr s)) p) as [L|L]; [exact L|]. exfalso.
  apply (i_nz d s Inv p); [lia|]. destruct (i_rewr d s Inv p) as [E|([E|[E|E]] & _)]; congruence.
Qed.

Theorem xml_nul_is_error_proof : forall d p, 0 <= p < len d -> getz d p = 0 -> (forall i, 0 <= i < p -> getz d i <> 0) ->
  (forall s, reach d s -> lpos (xr s) <= p) /\
  (forall s tok s', reach d s -> next s = Some (TError, tok, s') -> lpos (xr s') = p /\ xml_err s' = 2) /\
  (exists n s tok s', (n <= Z.to_nat p)%nat /\ after n (xml_init d) = Some s /\ next s = Some (TError, tok, s')).
Proof.
  intros d p Hp H0 Hfirst. split; [|split].
  - intros s R. apply (inv_before_nul d p s H0); [lia|apply reach_inv; exact R].
  - intros s tok s' R Hn. pose proof (reach_inv d s R) as Inv.
    pose proof (xinv_step d s _ _ _ Inv Hn) as Inv'.
    pose proof (inv_before_nul d p s' H0 ltac:(lia) Inv') as Hle.
    pose proof (wf_range _ (i_wf d s' Inv')) as Hr.
    destruct (xml_error_sticky_proof d s tok s' R Hn) as (_ & _ & _ & [(E1 & E2)|(E1 & E2 & E3)]); [lia|].
    split; [|exact E1]. destruct (Z.eq_dec (lpos (xr s')) p); [assumption|]. exfalso.
    apply (Hfirst (lpos (xr s'))); [lia|exact E3].
  - apply (bound_from d p).
    + intros s Inv. apply (inv_before_nul d p s H0); [lia|exact Inv].
    + apply xinv_init.
    + cbn [xml_init xr]. unfold lx_init. cbn [lpos]. lia.
Qed.

(* without a NUL byte in the input the terminal report is io.EOF at the end of the input *)
Theorem xml_eof_at_end_proof : forall d s tok s', (forall i, 0 <= i < len d -> getz d i <> 0) ->
  reach d s -> next s = Some (TError, tok, s') -> xml_err s' = 1 /\ lpos (xr s') = len d.
Proof.
  intros d s tok s' Hnz R Hn. pose proof (reach_inv d s R) as Inv.
  pose proof (xinv_step d s _ _ _ Inv Hn) as Inv'. pose proof (wf_range _ (i_wf d s' Inv')) as Hr.
  destruct (xml_error_sticky_proof d s tok s' R Hn) as (_ & _ & _ & [E|(E1 & E2 & E3)]); [exact E|].
  exfalso. apply (Hnz (lpos (xr s'))); [lia|exact E3].
Qed.

(* ---- non-vacuity: concrete runs meeting the hypotheses of the theorems above ------------------------------ *)
(* <a b="c	d">x</a>   (a TAB inside the quoted value) *)
Definition ex_doc : list Z := [60; 97; 32; 98; 61; 34; 99; 9; 100; 34; 62; 120; 60; 47; 97; 62].
(* <a \0>  : an embedded NUL inside a tag *)
Definition ex_nul : list Z := [60; 97; 32; 0; 62].

Definition types_of (tr : list (ttype * sl * xst)) : list ttype := map (fun r => fst (fst r)) tr.

Example ex_run_types :
  option_map types_of (run 8 (xml_init ex_doc)) =
  Some [TStartTag; TAttribute; TStartTagClose; TText; TEndTag; TError; TError; TError].
Proof. vm_compute. reflexivity. Qed.

Example ex_run_tokens :
  option_map (map (fun r => snd (fst r))) (run 6 (xml_init ex_doc)) =
  Some [Some (0, 2); Some (2, 10); Some (10, 11); Some (11, 12); Some (12, 16); None].
Proof. vm_compute. reflexivity. Qed.

(* the attribute step: Text = b, AttrVal = "c d" with the TAB rewritten *)
Example ex_attr_step :
  exists s s', after 1 (xml_init ex_doc) = Some s /\ reach ex_doc s /\
    next s = Some (TAttribute, Some (2, 10), s') /\ xtext s' = Some (3, 4) /\ xattr s' = Some (5, 10) /\
    slice (lbuf (xr s')) 5 10 = [34; 99; 32; 100; 34].
Proof.
  destruct (after 1 (xml_init ex_doc)) as [s|] eqn:E; [|vm_compute in E; discriminate].
  destruct (next s) as [[[ty tok] s']|] eqn:En.
  - exists s, s'. split; [reflexivity|]. split; [exists 1%nat; exact E|].
    vm_compute in E. injection E as <-. vm_compute in En. injection En as <- <- <-.
    vm_compute. repeat split; reflexivity.
  - vm_compute in E. injection E as <-. vm_compute in En. discriminate.
Qed.

(* the terminal report of ex_doc: io.EOF at offset 16 *)
Example ex_eof_step :
  exists s s', reach ex_doc s /\ next s = Some (TError, None, s') /\ xml_err s' = 1 /\ lpos (xr s') = 16.
Proof.
  destruct (after 5 (xml_init ex_doc)) as [s|] eqn:E; [|vm_compute in E; discriminate].
  destruct (next s) as [[[ty tok] s']|] eqn:En.
  - exists s, s'. split; [exists 5%nat; exact E|].
    vm_compute in E. injection E as <-. vm_compute in En. injection En as <- <- <-.
    vm_compute. repeat split; reflexivity.
  - vm_compute in E. injection E as <-. vm_compute in En. discriminate.
Qed.

(* the embedded NUL: first NUL at 3, reported as the parse error (kind 2) at offset 3, '>' never lexed *)
Example ex_nul_hyp : 0 <= 3 < len ex_nul /\ getz ex_nul 3 = 0 /\ (forall i, 0 <= i < 3 -> getz ex_nul i <> 0).
Proof.
  split; [vm_compute; split; congruence|]. split; [reflexivity|].
  intros i Hi. assert (i = 0 \/ i = 1 \/ i = 2) as [->|[->| ->]] by lia; vm_compute; congruence.
Qed.

Example ex_nul_run :
  option_map (map (fun r => (fst (fst r), lpos (xr (snd r)), xml_err (snd r)))) (run 3 (xml_init ex_nul)) =
  Some [(TStartTag, 2, 0); (TError, 3, 2); (TError, 3, 2)].
Proof. vm_compute. reflexivity. Qed.

(* ---- contents of tokens ------------------------------------------------------------------------------------------- *)
(* no token contains a NUL byte; a Text token contains no '<' and is maximal: the next byte is '<', an
   embedded NUL or the end of the input *)
Theorem xml_token_contents_proof : forall d s ty lo hi s', reach d s -> next s = Some (ty, Some (lo, hi), s') ->
  (forall i, lo <= i < hi -> getz d i <> 0) /\
  (ty = TText -> (forall i, lo <= i < hi -> getz d i <> 60) /\ (getz d hi = 60 \/ getz d hi = 0)).
Proof.
  intros d s ty lo hi s' R Hn. pose proof (reach_inv d s R) as Inv.
  pose proof (i_wf d s Inv) as W. pose proof (i_unread d s Inv) as Hu.
  pose proof (next_inv _ _ _ _ W Hn) as V.
  assert (Hty : ty <> TError).
  { intros ->. destruct (error_facts d s _ s' Inv Hn) as (E & _). discriminate. }
  destruct (view_token d s ty _ s' Inv V Hty) as (Hnz & Hsy).
  remember (Some (lo, hi)) as tok eqn:Etok.
  destruct V as [z1 Hin A W0 H0|z1 t a zf lo' hi' Hin A W0 Aw Hp T1 T2 Q|z1 ty k Hin A W0 Ak Hk|z1 Hin A Hp Hc N60|ty zf t Hin Hs Hc Hm A Hp T|Hin Hs H0];
    try discriminate; injection Etok as <- <-.
  - destruct A as (A1 & A2 & A3 & A4 & A5). destruct Aw as (B1 & B2 & B3 & B4 & B5 & B6 & B7).
    rewrite A1 in *. split; [|discriminate].
    intros i Hi. rewrite <- Hu by lia. destruct (Z.lt_ge_cases i (lpos z1)); [apply A5|apply B7]; lia.
  - destruct A as (A1 & A2 & A3 & A4 & A5). destruct Ak as (B1 & B2 & B3 & B4 & B5).
    rewrite A1 in *. cbn [lpos mv] in *. split.
    + intros i Hi. rewrite <- Hu by lia. apply B5. lia.
    + intros ->. destruct Hk as [(? & _)|[(? & _)|(? & _)]]; discriminate.
  - destruct A as (A1 & A2 & A3 & A4 & A5). split.
    + intros i Hi. rewrite <- Hu by lia. apply A5. lia.
    + intros _. split.
      * intros i Hi. rewrite <- Hu by lia. apply N60. lia.
      * rewrite <- !Hu by lia. exact Hc.
  - destruct A as (A1 & A2 & A3 & A4 & A5). split.
    + intros i Hi. rewrite <- Hu by lia. apply A5. lia.
    + intros ->. discriminate.
Qed.

Example ex_doc_no_nul : forall i, 0 <= i < len ex_doc -> getz ex_doc i <> 0.
Proof.
  intros i Hi. change (len ex_doc) with 16 in Hi.
  assert (H : forallb (fun j => negb (getz ex_doc j =? 0)) (zrange 0 15) = true) by (vm_compute; reflexivity).
  pose proof (zrange_forall _ 0 15 H i ltac:(lia)) as Hj. cbv beta in Hj. lia.
Qed.

(* ---- the buffer as a whole ---------------------------------------------------------------------------------------- *)
(* at every moment the buffer is the input followed by the NUL terminator, except that some TAB/LF/CR bytes
   already read have become spaces; nothing at or beyond the cursor has been touched *)
Theorem xml_buffer_rewrites_proof : forall d s, reach d s ->
  len (lbuf (xr s)) = len d + 1 /\
  (forall i, getz (lbuf (xr s)) i = getz d i \/ (ws3 (getz d i) /\ getz (lbuf (xr s)) i = 32)) /\
  (forall i, lpos (xr s) <= i -> getz (lbuf (xr s)) i = getz d i).
Proof.
  intros d s R. pose proof (reach_inv d s R) as Inv. split; [|split].
  - pose proof (i_len d s Inv) as H. unfold lx_len in H. lia.
  - apply (i_rewr d s Inv).
  - apply (i_unread d s Inv).
Qed.
