(* Xml/WellFormed.v — an inductive grammar of the XML subset of property C11 (prolog / processing
   instructions with pseudo-attributes, DOCTYPE with internal subset and double-quoted literals, comments,
   CDATA sections, start / empty-element / end tags with single- or double-quoted attributes, character
   data) and the theorem that the lexer model returns one token per construct with the prescribed type,
   bytes, Text() and AttrVal(). *)
From Verif Require Import Common.Base Common.Tactics Common.Lx Xml.Model Xml.Lemmas Xml.Step Xml.Sym.
From Coq Require Import ZifyBool.

(* ---- what is observed of a token ---------------------------------------------------------------------------- *)
(* type, token bytes, Text() bytes, AttrVal() bytes (None = nil), read off the buffer right after the call *)
Definition etok : Type := ttype * option (list Z) * option (list Z) * option (list Z).

Definition obs_sl (b : list Z) (s : sl) : option (list Z) :=
  match s with None => None | Some (lo, hi) => Some (slice b lo hi) end.

Definition etok_of (ty : ttype) (tok : sl) (s' : xst) : etok :=
  (ty, obs_sl (lbuf (xr s')) tok, obs_sl (lbuf (xr s')) (xtext s'), obs_sl (lbuf (xr s')) (xattr s')).

(* s lexes to the tokens l followed by the terminal report with Err() kind e *)
Inductive lexes : xst -> list etok -> Z -> Prop :=
| lexes_end s tok s' : next s = Some (TError, tok, s') -> lexes s [] (xml_err s')
| lexes_tok s ty tok s' l e :
    next s = Some (ty, tok, s') -> ty <> TError -> lexes s' l e -> lexes s (etok_of ty tok s' :: l) e.

(* s1 lexes to the tokens l and is then in state s2 *)
Inductive steps : xst -> list etok -> xst -> Prop :=
| steps_nil s : steps s [] s
| steps_cons s ty tok s1 l s2 :
    next s = Some (ty, tok, s1) -> ty <> TError -> steps s1 l s2 -> steps s (etok_of ty tok s1 :: l) s2.

Lemma steps_one s ty tok s1 : next s = Some (ty, tok, s1) -> ty <> TError -> steps s [etok_of ty tok s1] s1.
Proof. intros H1 H2. eapply steps_cons; [exact H1|exact H2|apply steps_nil]. Qed.

Lemma steps_app s1 l1 s2 l2 s3 : steps s1 l1 s2 -> steps s2 l2 s3 -> steps s1 (l1 ++ l2) s3.
Proof.
  intros H1 H2. induction H1 as [|s ty tok sa l sb Hn Hty H1 IH]; [exact H2|].
  cbn [app]. eapply steps_cons; [exact Hn|exact Hty|]. apply IH. exact H2.
Qed.

Lemma lexes_steps s1 l1 s2 l2 e : steps s1 l1 s2 -> lexes s2 l2 e -> lexes s1 (l1 ++ l2) e.
Proof.
  intros H1 H2. induction H1 as [|s ty tok sa l sb Hn Hty H1 IH]; [exact H2|].
  cbn [app]. eapply lexes_tok; [exact Hn|exact Hty|]. apply IH. exact H2.
Qed.

(* ---- the grammar -------------------------------------------------------------------------------------------------- *)
Definition all_ws (l : list Z) : Prop := Forall (fun c => is_ws c = true) l.
Definition is_name (eq : bool) (l : list Z) : Prop := l <> [] /\ Forall (fun c => name_char eq c = true) l.

(* an attribute: S Name S? '=' S? quote value quote *)
Record attr := mkAttr { a_lead : list Z; a_name : list Z; a_ws1 : list Z; a_ws2 : list Z; a_q : Z; a_val : list Z }.

Definition attr_ok (a : attr) : Prop :=
  a_lead a <> [] /\ all_ws (a_lead a) /\ is_name true (a_name a) /\ all_ws (a_ws1 a) /\ all_ws (a_ws2 a) /\
  (a_q a = 34 \/ a_q a = 39) /\ Forall (fun c => c <> a_q a /\ c <> 0) (a_val a).

Definition render_attr (a : attr) : list Z :=
  a_lead a ++ a_name a ++ a_ws1 a ++ [61] ++ a_ws2 a ++ [a_q a] ++ a_val a ++ [a_q a].

(* the quoted value as the lexer leaves it: TAB/LF/CR rewritten to space *)
Definition attr_value (a : attr) : list Z := [a_q a] ++ map ws2sp (a_val a) ++ [a_q a].
Definition norm_attr (a : attr) : list Z :=
  a_lead a ++ a_name a ++ a_ws1 a ++ [61] ++ a_ws2 a ++ attr_value a.

Definition expect_attr (a : attr) : etok := (TAttribute, Some (norm_attr a), Some (a_name a), Some (attr_value a)).


(* pat occurs in l at i / nowhere in l *)
Definition occurs_at (pat l : list Z) (i : Z) : Prop := forall j, 0 <= j < len pat -> getz l (i + j) = getz pat j.
Definition no_occurrence (pat l : list Z) : Prop := forall i, 0 <= i -> i + len pat <= len l -> ~ occurs_at pat l i.

(* DOCTYPE body: plain bytes, double- and single-quoted literals (which may contain '>' '[' ']' and the
   other quote), internal subsets '[' ... ']' whose content may contain '>', such literals, comments
   (any body without the three bytes - - >) and processing instructions (any body without ? >), and
   declarations opened by '<' *)
Definition pat_pi_end : list Z := [63; 62].
Inductive dinner :=
| DIChar (c : Z) | DIStr (s : list Z) | DIStrS (s : list Z)
| DILt (k : list Z)            (* '<' followed by the bytes k that show it opens neither a comment nor a PI *)
| DIComment (b : list Z) | DIPI (b : list Z).
Inductive dpiece := DChar (c : Z) | DStr (s : list Z) | DStrS (s : list Z) | DSub (inner : list dinner).

(* the content of a literal quoted by q *)
Definition lit_ok (q : Z) (s : list Z) : Prop := Forall (fun c => c <> q /\ c <> 0) s.
Definition plain_inner (c : Z) : Prop := c <> 34 /\ c <> 39 /\ c <> 93 /\ c <> 0 /\ c <> 60.
Definition dinner_ok (p : dinner) : Prop :=
  match p with
  | DIChar c => plain_inner c
  | DIStr s => lit_ok 34 s
  | DIStrS s => lit_ok 39 s
  | DILt k => Forall plain_inner k /\ at_l [33; 45; 45] k = Some false /\ getz k 0 <> 63
  | DIComment b => Forall (fun c => c <> 0) b /\ no_occurrence pat_comment_end b
  | DIPI b => Forall (fun c => c <> 0) b /\ no_occurrence pat_pi_end b
  end.
Definition dpiece_ok (p : dpiece) : Prop :=
  match p with
  | DChar c => c <> 34 /\ c <> 39 /\ c <> 91 /\ c <> 93 /\ c <> 62 /\ c <> 0
  | DStr s => lit_ok 34 s
  | DStrS s => lit_ok 39 s
  | DSub inner => Forall dinner_ok inner
  end.

Definition render_dinner (p : dinner) : list Z :=
  match p with
  | DIChar c => [c]
  | DIStr s => [34] ++ s ++ [34]
  | DIStrS s => [39] ++ s ++ [39]
  | DILt k => [60] ++ k
  | DIComment b => dt_comment_open ++ b ++ pat_comment_end
  | DIPI b => [60; 63] ++ b ++ pat_pi_end
  end.
Definition render_dpiece (p : dpiece) : list Z :=
  match p with
  | DChar c => [c]
  | DStr s => [34] ++ s ++ [34]
  | DStrS s => [39] ++ s ++ [39]
  | DSub inner => [91] ++ concat (map render_dinner inner) ++ [93]
  end.
Definition render_dt (ps : list dpiece) : list Z := concat (map render_dpiece ps).

Definition closer_bytes (k : ttype) : list Z :=
  match k with TStartTagCloseVoid => [47; 62] | TStartTagClosePI => [63; 62] | _ => [62] end.
Definition is_closer_ty (k : ttype) : Prop := k = TStartTagClose \/ k = TStartTagCloseVoid \/ k = TStartTagClosePI.

(* what may follow a name inside a tag: whitespace, '>', '/>', '?>' (and '=' after an attribute name) *)
Definition name_end (pi eq : bool) (l : list Z) : Prop :=
  exists c t, l = c :: t /\ name_stop pi eq c (getz t 0) = true /\ ((c = 47 \/ c = 63) -> t <> []).

(* ---- the general shape of what the lexer returns inside a tag (start tag or processing instruction) ------- *)
(* a piece: optional whitespace, a name (bytes that do not stop the name loop: '/' and '?' are allowed unless
   followed by '>'), then nothing, or '=' and an unquoted value, or '=' and a quoted value *)
(* the two bytes ? > do not occur in l *)
Fixpoint no_pi_end (l : list Z) : Prop :=
  match l with
  | c :: ((c1 :: _) as t) => ~ (c = 63 /\ c1 = 62) /\ no_pi_end t
  | _ => True
  end.

Inductive gval :=
| VNone
| VUnq (ws1 ws2 val : list Z)
| VQuo (ws1 ws2 : list Z) (q : Z) (val : list Z)
(* in a processing instruction: a quoted value that is not closed before the instruction's ?> *)
| VQuoCut (ws1 ws2 : list Z) (q : Z) (val : list Z).
Record gattr := mkG { g_lead : list Z; g_name : list Z; g_val : gval }.

Definition render_gval (v : gval) : list Z :=
  match v with
  | VNone => []
  | VUnq w1 w2 x => w1 ++ [61] ++ w2 ++ x
  | VQuo w1 w2 q x => w1 ++ [61] ++ w2 ++ [q] ++ x ++ [q]
  | VQuoCut w1 w2 q x => w1 ++ [61] ++ w2 ++ [q] ++ x
  end.
Definition norm_gval (v : gval) : list Z :=
  match v with
  | VQuo w1 w2 q x => w1 ++ [61] ++ w2 ++ [q] ++ map ws2sp x ++ [q]
  | VQuoCut w1 w2 q x => w1 ++ [61] ++ w2 ++ [q] ++ map ws2sp x
  | _ => render_gval v
  end.
Definition gval_obs (v : gval) : option (list Z) :=
  match v with
  | VNone => None
  | VUnq _ _ x => Some x
  | VQuo _ _ q x => Some ([q] ++ map ws2sp x ++ [q])
  | VQuoCut _ _ q x => Some ([q] ++ map ws2sp x)
  end.
Definition render_gattr (a : gattr) : list Z := g_lead a ++ g_name a ++ render_gval (g_val a).
Definition norm_gattr (a : gattr) : list Z := g_lead a ++ g_name a ++ norm_gval (g_val a).
Definition expect_gattr (a : gattr) : etok := (TAttribute, Some (norm_gattr a), Some (g_name a), gval_obs (g_val a)).
Definition render_gattrs (l : list gattr) : list Z := concat (map render_gattr l).
Definition norm_gattrs (l : list gattr) : list Z := concat (map norm_gattr l).

(* no byte of n stops the name loop; nxt is the byte after n *)
Fixpoint name_run (pi eq : bool) (n : list Z) (nxt : Z) : Prop :=
  match n with
  | [] => True
  | c :: t => name_stop pi eq c (match t with [] => nxt | c1 :: _ => c1 end) = false /\ name_run pi eq t nxt
  end.

(* the first byte of rest that is not whitespace exists and is not '=' *)
Definition next_not_eq (rest : list Z) : Prop :=
  exists w c t, rest = w ++ c :: t /\ Forall (fun x => is_ws x = true) w /\ is_ws c = false /\ c <> 61.

(* side conditions of a piece followed (inside the tag) by rest *)
Definition gattr_ok (pi : bool) (a : gattr) (rest : list Z) : Prop :=
  Forall (fun x => is_ws x = true) (g_lead a) /\
  match g_val a with
  | VNone => g_name a <> [] /\ name_run pi true (g_name a) (getz rest 0) /\ name_end pi true rest /\ next_not_eq rest
  | VUnq w1 w2 x =>
      Forall (fun c => is_ws c = true) w1 /\ Forall (fun c => is_ws c = true) w2 /\ (g_name a = [] -> w1 = []) /\
      name_run pi true (g_name a) (getz (w1 ++ [61]) 0) /\
      name_run pi false x (getz rest 0) /\ name_end pi false rest /\
      is_ws (getz (x ++ rest) 0) = false /\ getz (x ++ rest) 0 <> 34 /\ getz (x ++ rest) 0 <> 39
  | VQuo w1 w2 q x =>
      Forall (fun c => is_ws c = true) w1 /\ Forall (fun c => is_ws c = true) w2 /\ (g_name a = [] -> w1 = []) /\
      name_run pi true (g_name a) (getz (w1 ++ [61]) 0) /\
      (q = 34 \/ q = 39) /\ Forall (fun c => c <> q /\ c <> 0) x /\ (pi = true -> no_pi_end x)
  | VQuoCut w1 w2 q x =>
      Forall (fun c => is_ws c = true) w1 /\ Forall (fun c => is_ws c = true) w2 /\ (g_name a = [] -> w1 = []) /\
      name_run pi true (g_name a) (getz (w1 ++ [61]) 0) /\
      (q = 34 \/ q = 39) /\ Forall (fun c => c <> q /\ c <> 0) x /\ no_pi_end x /\
      pi = true /\ exists t, rest = 63 :: 62 :: t
  end.

Fixpoint gattrs_ok (pi : bool) (l : list gattr) (tail : list Z) : Prop :=
  match l with
  | [] => True
  | a :: t => gattr_ok pi a (render_gattrs t ++ tail) /\ gattrs_ok pi t tail
  end.

Inductive item :=
| IText (t : list Z)
| IComment (body : list Z)
| ICdata (body : list Z)
| IDoctype (body : list dpiece)
| IPI (target : list Z) (attrs : list attr) (ws : list Z)
| IStart (name : list Z) (attrs : list attr) (ws : list Z) (void : bool)
| IEnd (name : list Z) (ws : list Z)
(* the general tag opener: '<' or '<?', a name, pieces, whitespace, any of the three closers *)
| ITag (pi : bool) (name : list Z) (pieces : list gattr) (ws : list Z) (k : ttype).

Definition lt_bang : list Z := [60; 33].
Definition open_comment : list Z := [60; 33; 45; 45].
Definition open_cdata : list Z := [60; 33; 91; 67; 68; 65; 84; 65; 91].
Definition open_doctype : list Z := [60; 33; 68; 79; 67; 84; 89; 80; 69].

Definition render_attrs (l : list attr) : list Z := concat (map render_attr l).
Definition norm_attrs (l : list attr) : list Z := concat (map norm_attr l).

Definition render_item (it : item) : list Z :=
  match it with
  | IText t => t
  | IComment b => open_comment ++ b ++ pat_comment_end
  | ICdata b => open_cdata ++ b ++ pat_cdata_end
  | IDoctype ps => open_doctype ++ render_dt ps ++ [62]
  | IPI t attrs ws => [60; 63] ++ t ++ render_attrs attrs ++ ws ++ [63; 62]
  | IStart n attrs ws void => [60] ++ n ++ render_attrs attrs ++ ws ++ (if void then [47; 62] else [62])
  | IEnd n ws => [60; 47] ++ n ++ ws ++ [62]
  | ITag pi n ps ws k => (if pi then [60; 63] else [60]) ++ n ++ render_gattrs ps ++ ws ++ closer_bytes k
  end.

(* the same bytes as the buffer holds them afterwards *)
Definition norm_item (it : item) : list Z :=
  match it with
  | IPI t attrs ws => [60; 63] ++ t ++ norm_attrs attrs ++ ws ++ [63; 62]
  | IStart n attrs ws void => [60] ++ n ++ norm_attrs attrs ++ ws ++ (if void then [47; 62] else [62])
  | ITag pi n ps ws k => (if pi then [60; 63] else [60]) ++ n ++ norm_gattrs ps ++ ws ++ closer_bytes k
  | _ => render_item it
  end.

Definition expect_item (it : item) : list etok :=
  match it with
  | IText t => [(TText, Some t, Some t, None)]
  | IComment b => [(TComment, Some (render_item it), Some b, None)]
  | ICdata b => [(TCdata, Some (render_item it), Some b, None)]
  | IDoctype ps => [(TDoctype, Some (render_item it), Some (render_dt ps), None)]
  | IPI t attrs ws =>
      (TStartTagPI, Some ([60; 63] ++ t), Some t, None) :: map expect_attr attrs
      ++ [(TStartTagClosePI, Some [63; 62], None, None)]
  | IStart n attrs ws void =>
      (TStartTag, Some ([60] ++ n), Some n, None) :: map expect_attr attrs
      ++ [if void then (TStartTagCloseVoid, Some [47; 62], None, None) else (TStartTagClose, Some [62], None, None)]
  | IEnd n ws => [(TEndTag, Some (render_item it), Some n, None)]
  | ITag pi n ps ws k =>
      ((if pi then TStartTagPI else TStartTag), Some ((if pi then [60; 63] else [60]) ++ n), Some n, None)
      :: map expect_gattr ps ++ [(k, Some (closer_bytes k), None, None)]
  end.

(* the closer does not start inside body (even when completed by the closer's own bytes) *)
Definition no_closer (pat body : list Z) : Prop :=
  forall i, 0 <= i < len body -> no_match_at pat (body ++ pat) i.


Definition item_ok (it : item) : Prop :=
  match it with
  | IText t => t <> [] /\ Forall (fun c => c <> 60 /\ c <> 0) t
  | IComment b => Forall (fun c => c <> 0) b /\ no_occurrence pat_comment_end b
  | ICdata b => Forall (fun c => c <> 0) b /\ no_occurrence pat_cdata_end b
  | IDoctype ps => Forall dpiece_ok ps
  | IPI t attrs ws => is_name false t /\ Forall attr_ok attrs /\ all_ws ws /\ Forall (fun a => no_pi_end (a_val a)) attrs
  | IStart n attrs ws void => is_name false n /\ getz n 0 <> 33 /\ Forall attr_ok attrs /\ all_ws ws
  | IEnd n ws => is_name false n /\ all_ws ws
  | ITag pi n ps ws k =>
      is_name false n /\ (pi = false -> getz n 0 <> 33) /\ all_ws ws /\ is_closer_ty k /\ (pi = true -> k = TStartTagClosePI) /\
      gattrs_ok pi ps (ws ++ closer_bytes k) /\ name_end pi false (render_gattrs ps ++ ws ++ closer_bytes k)
  end.

Definition is_text (it : item) : bool := match it with IText _ => true | _ => false end.

(* character data is maximal: two IText items are never adjacent *)
Fixpoint no_adjacent_text (l : list item) : Prop :=
  match l with
  | a :: ((b :: _) as rest) => (is_text a = true -> is_text b = false) /\ no_adjacent_text rest
  | _ => True
  end.

Definition render_doc (l : list item) : list Z := concat (map render_item l).
Definition expect_doc (l : list item) : list etok := concat (map expect_item l).
Definition doc_ok (l : list item) : Prop := Forall item_ok l /\ no_adjacent_text l.

(* ---- states ------------------------------------------------------------------------------------------------------------ *)
(* outside / inside a tag, everything before [pre] shifted, [suf] still to read *)
Definition sout (pre suf : list Z) (tx : sl) : xst := mkX (cur pre [] suf) false false false tx None.
Definition sin (pi : bool) (pre suf : list Z) (tx ax : sl) : xst := mkX (cur pre [] suf) false true pi tx ax.

Lemma obs_cur pre tok suf : obs_sl (lbuf (cur (pre ++ tok) [] suf)) (Some (len pre, len pre + len tok)) = Some tok.
Proof.
  unfold obs_sl, cur. cbn [lbuf app]. rewrite <- app_assoc. rewrite slice_mid. reflexivity.
Qed.

Lemma obs_cur_in pre a b c suf lo hi : lo = len pre + len a -> hi = len pre + len a + len b ->
  obs_sl (lbuf (cur (pre ++ a ++ b ++ c) [] suf)) (Some (lo, hi)) = Some b.
Proof.
  intros -> ->. unfold obs_sl, cur. cbn [lbuf app].
  replace ((pre ++ a ++ b ++ c) ++ suf) with ((pre ++ a) ++ b ++ (c ++ suf)) by (rewrite <- !app_assoc; reflexivity).
  rewrite <- len_app. rewrite slice_mid. reflexivity.
Qed.

Lemma obs_cur_in2 pre a b suf lo hi : lo = len pre + len a -> hi = len pre + len a + len b ->
  obs_sl (lbuf (cur (pre ++ a ++ b) [] suf)) (Some (lo, hi)) = Some b.
Proof.
  intros Hlo Hhi. pose proof (obs_cur_in pre a b [] suf lo hi Hlo Hhi) as H. rewrite app_nil_r in H. exact H.
Qed.

Lemma forall_until stop t : Forall (fun c => c <> stop /\ c <> 0) t -> Forall (fun x => until stop x = true) t.
Proof. intros H. eapply Forall_impl; [|exact H]. intros c (H1 & H2). unfold until. lia. Qed.

(* for a closer p p q with p <> q: it starts inside body only if it occurs in body *)
Lemma no_closer_ppq p q body : p <> q -> no_occurrence [p; p; q] body -> no_closer [p; p; q] body.
Proof.
  intros Hpq Hno i Hi. unfold no_match_at. change (len [p; p; q]) with 3.
  assert (G : forall j, 0 <= j < 3 -> getz [p; p; q] j = if j =? 2 then q else p).
  { intros j Hj. assert (j = 0 \/ j = 1 \/ j = 2) as [->|[->| ->]] by lia; reflexivity. }
  destruct (Z.le_gt_cases (i + 3) (len body)) as [Hin|Hout].
  - (* entirely inside body *)
    destruct (Z.eq_dec (getz body i) p) as [E0|E0].
    2:{ exists 0. split; [lia|]. rewrite getz_app1 by lia. replace (i + 0) with i by lia. exact E0. }
    destruct (Z.eq_dec (getz body (i + 1)) p) as [E1|E1].
    2:{ exists 1. split; [lia|]. rewrite getz_app1 by lia. exact E1. }
    destruct (Z.eq_dec (getz body (i + 2)) q) as [E2|E2].
    2:{ exists 2. split; [lia|]. rewrite getz_app1 by lia. exact E2. }
    exfalso. apply (Hno i); [lia|change (len [p; p; q]) with 3; lia|].
    intros j Hj. change (len [p; p; q]) with 3 in Hj. rewrite G by lia.
    assert (j = 0 \/ j = 1 \/ j = 2) as [->|[->| ->]] by lia; cbn [Z.eqb];
      [replace (i + 0) with i by lia; exact E0|exact E1|exact E2].
  - (* the third byte would be one of the closer's first two, which are p, not q *)
    exists 2. split; [lia|]. rewrite getz_app2 by lia.
    assert (Hk : i + 2 - len body = 0 \/ i + 2 - len body = 1) by lia.
    destruct Hk as [-> | ->]; rewrite !G by lia; cbn [Z.eqb]; exact Hpq.
Qed.

(* ---- character data ------------------------------------------------------------------------------------------------ *)
Lemma lex_text pre t c r tx : t <> [] -> Forall (fun c => c <> 60 /\ c <> 0) t -> (c = 60 \/ c = 0) ->
  exists tx', steps (sout pre (t ++ c :: r) tx) [(TText, Some t, Some t, None)] (sout (pre ++ t) (c :: r) tx').
Proof.
  intros Hne Ht Hc. eexists.
  assert (Hn : next (sout pre (t ++ c :: r) tx) =
               Some (TText, Some (len pre, len pre + len t), sout (pre ++ t) (c :: r) (Some (len pre, len pre + len t)))).
  { unfold sout, next. cbn [xin xpi xr xerr xattr xtext]. rewrite suffix_cur.
    rewrite (scan_while_app (until 60) t c r) by (try apply forall_until; try assumption; unfold until; lia).
    cbn [option_bind]. rewrite mv_cur by reflexivity. cbn [app]. rewrite pk_cur0. cbn [option_bind].
    rewrite mark_cur. assert (0 < len t) by (destruct t; [congruence|rewrite len_cons; pose proof (len_nonneg t); lia]).
    destruct (Z.ltb_spec 0 (len t)); [|lia]. rewrite shift_c_cur. reflexivity. }
  pose proof (steps_one _ _ _ _ Hn ltac:(discriminate)) as S.
  unfold etok_of, sout in S. cbn [xr xtext xattr] in S. rewrite obs_cur in S. exact S.
Qed.

(* ---- the markup dispatch of Next on  '<' c1 ... ------------------------------------------------------------------ *)
Lemma mv_cur1 pre tk c suf : mv (cur pre tk (c :: suf)) 1 = cur pre (tk ++ [c]) suf.
Proof. change (c :: suf) with ([c] ++ suf). apply mv_cur. reflexivity. Qed.

Lemma mv_cur2 pre tk c1 c2 suf : mv (cur pre tk (c1 :: c2 :: suf)) 2 = cur pre (tk ++ [c1; c2]) suf.
Proof. change (c1 :: c2 :: suf) with ([c1; c2] ++ suf). apply mv_cur. reflexivity. Qed.

Definition markup_result (ty : ttype) (inTag inPI : bool) (r : option sres) : option (ttype * sl * xst) :=
  r <- r ;; Some (ty, Some (snd (fst r)), mkX (snd r) false inTag inPI (fst (fst r)) None).

Lemma next_markup pre c1 r tx :
  next (sout pre (60 :: c1 :: r) tx) =
  if c1 =? 47 then markup_result TEndTag false false (shift_end_tag (cur pre [60; 47] r))
  else
    sp <- (if c1 =? 33 then bang (cur pre [60; 33] r) else Some None) ;;
    match sp with
    | Some (ty, res) => markup_result ty false false (Some res)
    | None =>
        if c1 =? 63 then markup_result TStartTagPI true true (shift_start_tag true (cur pre [60; 63] r))
        else markup_result TStartTag true false (shift_start_tag false (cur pre [60] (c1 :: r)))
    end.
Proof.
  unfold sout, next, markup_result. cbn [xin xpi xr xerr xattr xtext]. rewrite suffix_cur.
  change (scan_while (until 60) (60 :: c1 :: r)) with (Some 0). cbn [option_bind].
  rewrite mv_cur0, pk_cur0. cbn [option_bind]. rewrite mark_cur. change (len (@nil Z)) with 0.
  change (0 <? 0) with false. change (60 =? 60) with true. cbv iota.
  rewrite pk_cur1. cbn [option_bind]. rewrite mv_cur2, mv_cur1. cbn [app].
  destruct (Z.eqb_spec c1 47) as [->|N1]; [reflexivity|].
  destruct (Z.eqb_spec c1 33) as [->|N2].
  - destruct (bang (cur pre [60; 33] r)) as [[[ty res]|]|]; reflexivity.
  - cbn [option_bind]. destruct (Z.eqb_spec c1 63) as [->|N3]; reflexivity.
Qed.

(* a token produced by a shift* function, as observed *)
Lemma steps_markup pre suf tx ty inTag inPI res tokb textb pre' suf' :
  next (sout pre suf tx) = markup_result ty inTag inPI (Some res) -> ty <> TError ->
  snd res = cur pre' [] suf' ->
  obs_sl (lbuf (cur pre' [] suf')) (Some (snd (fst res))) = Some tokb ->
  obs_sl (lbuf (cur pre' [] suf')) (fst (fst res)) = textb ->
  steps (sout pre suf tx) [(ty, Some tokb, textb, None)] (mkX (cur pre' [] suf') false inTag inPI (fst (fst res)) None).
Proof.
  intros Hn Hty E1 E2 E3. unfold markup_result in Hn. cbn [option_bind] in Hn.
  pose proof (steps_one _ _ _ _ Hn Hty) as S. unfold etok_of in S. cbn [xr xtext xattr] in S.
  rewrite E1 in S. rewrite E2, E3 in S. cbn [obs_sl] in S. exact S.
Qed.

(* ---- comments and CDATA sections ----------------------------------------------------------------------------------- *)
Lemma len4 (a b c d : Z) : len [a; b; c; d] = 4. Proof. reflexivity. Qed.

Lemma lex_comment pre b r tx : Forall (fun c => c <> 0) b -> no_closer pat_comment_end b ->
  exists tx', steps (sout pre (open_comment ++ b ++ pat_comment_end ++ r) tx)
                    [(TComment, Some (open_comment ++ b ++ pat_comment_end), Some b, None)]
                    (sout (pre ++ open_comment ++ b ++ pat_comment_end) r tx').
Proof.
  intros Hz Hno. eexists. unfold open_comment. cbn [app].
  set (res := (Some (len pre + 4, len pre + 4 + len b), (len pre, len pre + len ([60; 33; 45; 45] ++ b ++ pat_comment_end)),
               cur (pre ++ [60; 33; 45; 45] ++ b ++ pat_comment_end) [] r) : sres).
  assert (Hn : next (sout pre (60 :: 33 :: 45 :: 45 :: b ++ pat_comment_end ++ r) tx) = markup_result TComment false false (Some res)).
  { rewrite next_markup. change (33 =? 47) with false. change (33 =? 33) with true. cbv iota.
    unfold bang. rewrite suffix_cur. change (at_l pat_comment (45 :: 45 :: b ++ pat_comment_end ++ r)) with (Some true).
    cbn [option_bind]. rewrite mv_cur2. cbn [app].
    unfold shift_comment. rewrite suffix_cur. rewrite scan_until_app by (try assumption; discriminate).
    cbn [option_bind fst snd]. rewrite mv_cur by reflexivity.
    rewrite lex_sub_cur by (rewrite mark_cur, ?len_app, ?len4; pose proof (len_nonneg b); lia).
    cbn [option_bind]. change (pat_comment_end ++ r) with ([45; 45; 62] ++ r). rewrite mv_cur by reflexivity.
    rewrite shift_c_cur. cbn [option_bind fst snd]. unfold markup_result, res. cbn [option_bind fst snd].
    rewrite mark_cur. rewrite <- !app_assoc. rewrite !len_app, len4.
    replace (len pre + (4 + len b)) with (len pre + 4 + len b) by lia. reflexivity. }
  eapply (steps_markup pre _ tx TComment false false res); [exact Hn|discriminate|reflexivity| |].
  - unfold res. cbn [fst snd]. apply obs_cur.
  - unfold res. cbn [fst snd]. change ([60; 33; 45; 45] ++ b ++ pat_comment_end) with ([60; 33; 45; 45] ++ b ++ pat_comment_end).
    apply (obs_cur_in pre [60; 33; 45; 45] b pat_comment_end r); rewrite ?len4; lia.
Qed.

Lemma len9 (a b c d e f g h i : Z) : len [a; b; c; d; e; f; g; h; i] = 9. Proof. reflexivity. Qed.

Lemma lex_cdata pre b r tx : Forall (fun c => c <> 0) b -> no_closer pat_cdata_end b ->
  exists tx', steps (sout pre (open_cdata ++ b ++ pat_cdata_end ++ r) tx)
                    [(TCdata, Some (open_cdata ++ b ++ pat_cdata_end), Some b, None)]
                    (sout (pre ++ open_cdata ++ b ++ pat_cdata_end) r tx').
Proof.
  intros Hz Hno. eexists. unfold open_cdata. cbn [app].
  set (res := (Some (len pre + 9, len pre + 9 + len b),
               (len pre, len pre + len ([60; 33; 91; 67; 68; 65; 84; 65; 91] ++ b ++ pat_cdata_end)),
               cur (pre ++ [60; 33; 91; 67; 68; 65; 84; 65; 91] ++ b ++ pat_cdata_end) [] r) : sres).
  assert (Hn : next (sout pre (60 :: 33 :: 91 :: 67 :: 68 :: 65 :: 84 :: 65 :: 91 :: b ++ pat_cdata_end ++ r) tx)
               = markup_result TCdata false false (Some res)).
  { rewrite next_markup. change (33 =? 47) with false. change (33 =? 33) with true. cbv iota.
    unfold bang. rewrite suffix_cur.
    change (at_l pat_comment (91 :: 67 :: 68 :: 65 :: 84 :: 65 :: 91 :: b ++ pat_cdata_end ++ r)) with (Some false).
    cbn [option_bind].
    change (at_l pat_cdata (91 :: 67 :: 68 :: 65 :: 84 :: 65 :: 91 :: b ++ pat_cdata_end ++ r)) with (Some true).
    cbn [option_bind].
    change (91 :: 67 :: 68 :: 65 :: 84 :: 65 :: 91 :: b ++ pat_cdata_end ++ r)
      with ([91; 67; 68; 65; 84; 65; 91] ++ b ++ pat_cdata_end ++ r).
    rewrite mv_cur by reflexivity. cbn [app].
    unfold shift_cdata. rewrite suffix_cur. rewrite scan_until_app by (try assumption; discriminate).
    cbn [option_bind fst snd]. rewrite mv_cur by reflexivity.
    rewrite lex_sub_cur by (rewrite mark_cur, ?len_app, ?len9; pose proof (len_nonneg b); lia).
    cbn [option_bind]. change (pat_cdata_end ++ r) with ([93; 93; 62] ++ r). rewrite mv_cur by reflexivity.
    rewrite shift_c_cur. cbn [option_bind fst snd]. unfold markup_result, res. cbn [option_bind fst snd].
    rewrite mark_cur. rewrite <- !app_assoc. rewrite !len_app, len9.
    replace (len pre + (9 + len b)) with (len pre + 9 + len b) by lia. reflexivity. }
  eapply (steps_markup pre _ tx TCdata false false res); [exact Hn|discriminate|reflexivity| |].
  - unfold res. cbn [fst snd]. apply obs_cur.
  - unfold res. cbn [fst snd].
    apply (obs_cur_in pre [60; 33; 91; 67; 68; 65; 84; 65; 91] b pat_cdata_end r); rewrite ?len9; lia.
Qed.

(* ---- DOCTYPE --------------------------------------------------------------------------------------------------------------- *)
(* add a to the count of a scan result *)
Definition shiftn (a : Z) (o : option (Z * bool)) : option (Z * bool) := rr <- o ;; Some (a + fst rr, snd rr).

Lemma bump_shiftn o : bump o = shiftn 1 o. Proof. reflexivity. Qed.
Lemma shiftn_shiftn a b o : shiftn a (shiftn b o) = shiftn (a + b) o.
Proof. destruct o as [[n f]|]; cbn [shiftn option_bind fst snd]; [|reflexivity]. do 2 f_equal; lia. Qed.
Lemma shiftn_0 o : shiftn 0 o = o.
Proof. destruct o as [[n f]|]; reflexivity. Qed.
Lemma shiftn_eq a b o : a = b -> shiftn a o = shiftn b o. Proof. intros ->. reflexivity. Qed.

(* x is moved over without changing the state (not in a literal, not in a comment / PI, inBrackets = inB) *)
Definition dt_skip (inB : bool) (x : list Z) : Prop :=
  forall r, scan_doctype 0 0 inB 0 (x ++ r) = shiftn (len x) (scan_doctype 0 0 inB 0 r).

Lemma dt_skip_nil inB : dt_skip inB [].
Proof. intros r. cbn [app]. change (len (@nil Z)) with 0. rewrite shiftn_0. reflexivity. Qed.

Lemma dt_skip_app inB x y : dt_skip inB x -> dt_skip inB y -> dt_skip inB (x ++ y).
Proof.
  intros Hx Hy r. rewrite <- app_assoc. rewrite Hx, Hy. rewrite shiftn_shiftn. rewrite len_app. reflexivity.
Qed.

Lemma dt_skip_concat {A} inB (f : A -> list Z) l : Forall (fun a => dt_skip inB (f a)) l -> dt_skip inB (concat (map f l)).
Proof.
  intros H. induction H as [|a l Ha Hl IH]; cbn [map concat]; [apply dt_skip_nil|].
  apply dt_skip_app; assumption.
Qed.

(* the pending bytes of a matched keyword are moved over blindly *)
Lemma scan_pend x : forall q inB sk r,
  scan_doctype (length x) q inB sk (x ++ r) = shiftn (len x) (scan_doctype 0 q inB sk r).
Proof.
  induction x as [|c x IH]; intros q inB sk r; cbn [length app].
  - change (len (@nil Z)) with 0. rewrite shiftn_0. reflexivity.
  - rewrite scan_doctype_stepS, IH, bump_shiftn, shiftn_shiftn, len_cons. reflexivity.
Qed.

(* inside a literal opened by q everything but q and NUL is moved over *)
Lemma scan_dt_lit q inB s r : q <> 0 -> lit_ok q s ->
  scan_doctype 0 q inB 0 (s ++ q :: r) = shiftn (len s + 1) (scan_doctype 0 0 inB 0 r).
Proof.
  intros Hq Hs. assert (Eq : (q =? 0) = false) by lia.
  induction Hs as [|c s (Hc1 & Hc2) Hs IH]; cbn [app].
  - rewrite scan_doctype_step0. rewrite Eq. change (0 =? 0) with true. rewrite (Z.eqb_refl q).
    cbn [negb andb]. cbv iota. rewrite bump_shiftn. change (len (@nil Z)) with 0. apply shiftn_eq. lia.
  - rewrite scan_doctype_step0. rewrite Eq. change (0 =? 0) with true. cbn [negb]. rewrite !andb_false_r. cbn [andb].
    destruct (Z.eqb_spec c 0); [congruence|]. destruct (Z.eqb_spec c q); [congruence|]. cbn [andb option_bind].
    cbv iota. rewrite IH, bump_shiftn, shiftn_shiftn, len_cons. apply shiftn_eq. lia.
Qed.

Lemma dt_skip_lit q inB s : q = 34 \/ q = 39 -> lit_ok q s -> dt_skip inB ([q] ++ s ++ [q]).
Proof.
  intros Hq Hs r. cbn [app]. rewrite scan_doctype_step0. change (0 =? 0) with true. cbn [negb].
  destruct (Z.eqb_spec q 0); [lia|]. rewrite andb_false_r. replace ((q =? 34) || (q =? 39)) with true by lia. cbn [andb].
  cbv iota. rewrite <- app_assoc. cbn [app]. rewrite scan_dt_lit by (try assumption; lia).
  rewrite bump_shiftn, shiftn_shiftn. apply shiftn_eq. rewrite len_cons, len_app. change (len [q]) with 1. lia.
Qed.

(* a byte that is looked at on its own: not a quote, not special at this nesting *)
Lemma dt_skip_plain inB c : c <> 34 -> c <> 39 -> c <> 93 -> c <> 0 -> (inB = true -> c <> 60) ->
  (inB = false -> c <> 91 /\ c <> 62) -> dt_skip inB [c].
Proof.
  intros H1 H2 H3 H5 H6 H7 r. cbn [app]. rewrite scan_doctype_step0. change (0 =? 0) with true. cbn [negb].
  rewrite andb_false_r.
  destruct (Z.eqb_spec c 0); [congruence|]. destruct (Z.eqb_spec c 34); [congruence|]. destruct (Z.eqb_spec c 39); [congruence|].
  cbn [orb andb]. rewrite !andb_true_r.
  assert (E60 : (c =? 60) && inB = false) by (destruct inB; [specialize (H6 eq_refl); lia|apply andb_false_r]).
  rewrite E60. cbn [option_bind]. cbv iota.
  destruct (Z.eqb_spec c 93); [congruence|]. rewrite orb_false_r.
  destruct inB.
  - destruct (Z.eqb_spec c 91) as [->|]; cbn [andb negb]; rewrite ?andb_false_r; rewrite bump_shiftn; reflexivity.
  - destruct (H7 eq_refl) as (N91 & N62). destruct (Z.eqb_spec c 91); [congruence|]. destruct (Z.eqb_spec c 62); [congruence|].
    cbn [andb]. rewrite bump_shiftn. reflexivity.
Qed.

Lemma dt_skip_char c : c <> 34 -> c <> 39 -> c <> 91 -> c <> 93 -> c <> 62 -> c <> 0 -> dt_skip false [c].
Proof. intros. apply dt_skip_plain; try assumption; [discriminate|auto]. Qed.

Lemma dt_skip_ichar c : plain_inner c -> dt_skip true [c].
Proof. intros (H1 & H2 & H3 & H4 & H5). apply dt_skip_plain; try assumption; [auto|discriminate]. Qed.

Lemma dt_skip_ichars k : Forall plain_inner k -> dt_skip true k.
Proof.
  intros H. induction H as [|c k Hc Hk IH]; [apply dt_skip_nil|].
  change (c :: k) with ([c] ++ k). apply dt_skip_app; [apply dt_skip_ichar; exact Hc|exact IH].
Qed.

Lemma at_l_app_false pat : forall k r, at_l pat k = Some false -> at_l pat (k ++ r) = Some false.
Proof.
  induction pat as [|p pt IH]; intros k r H; [discriminate|].
  destruct k as [|c k]; [discriminate|]. cbn [app at_l] in *. destruct (c =? p); [apply IH; exact H|exact H].
Qed.

(* '<' inside the subset that opens neither a comment nor a processing instruction *)
Lemma scan_dt_lt k r : Forall plain_inner k -> at_l [33; 45; 45] k = Some false -> getz k 0 <> 63 ->
  scan_doctype 0 0 true 0 (60 :: k ++ r) = shiftn (1 + len k) (scan_doctype 0 0 true 0 r).
Proof.
  intros Hk Hat H63. rewrite scan_doctype_step0. change (60 =? 0) with false. change (0 =? 0) with true.
  cbn [negb andb orb]. change (60 =? 34) with false. change (60 =? 39) with false. cbn [orb andb].
  change (60 =? 60) with true. cbn [andb].
  change (at_l dt_comment_open (60 :: k ++ r)) with (at_l [33; 45; 45] (k ++ r)).
  rewrite (at_l_app_false _ _ r Hat). cbn [option_bind]. cbv iota.
  destruct k as [|c1 k']; [discriminate|]. cbn [app]. rewrite getz_cons_0 in H63.
  destruct (Z.eqb_spec c1 63); [congruence|]. cbn [option_bind]. cbv iota.
  change (60 =? 91) with false. change (60 =? 93) with false. change (60 =? 62) with false. cbn [orb andb].
  change (c1 :: k' ++ r) with ((c1 :: k') ++ r). rewrite (dt_skip_ichars _ Hk). rewrite bump_shiftn, shiftn_shiftn. reflexivity.
Qed.

Lemma dt_skip_lt k : Forall plain_inner k -> at_l [33; 45; 45] k = Some false -> getz k 0 <> 63 -> dt_skip true ([60] ++ k).
Proof.
  intros Hk Hat H63 r. cbn [app]. rewrite scan_dt_lt by assumption. apply shiftn_eq. rewrite len_cons. reflexivity.
Qed.

(* for a closer p q with p <> q: it starts inside body only if it occurs in body *)
Lemma no_closer_pq p q body : p <> q -> no_occurrence [p; q] body -> no_closer [p; q] body.
Proof.
  intros Hpq Hno i Hi. unfold no_match_at. change (len [p; q]) with 2.
  destruct (Z.le_gt_cases (i + 2) (len body)) as [Hin|Hout].
  - destruct (Z.eq_dec (getz body i) p) as [E0|E0].
    2:{ exists 0. split; [lia|]. rewrite getz_app1 by lia. replace (i + 0) with i by lia. exact E0. }
    destruct (Z.eq_dec (getz body (i + 1)) q) as [E1|E1].
    2:{ exists 1. split; [lia|]. rewrite getz_app1 by lia. exact E1. }
    exfalso. apply (Hno i); [lia|change (len [p; q]) with 2; lia|].
    intros j Hj. change (len [p; q]) with 2 in Hj.
    assert (j = 0 \/ j = 1) as [->| ->] by lia; [replace (i + 0) with i by lia; exact E0|exact E1].
  - exists 1. split; [lia|]. rewrite getz_app2 by lia. replace (i + 1 - len body) with 0 by lia.
    change (getz [p; q] 0) with p. change (getz [p; q] 1) with q. exact Hpq.
Qed.

(* inside a comment / PI of the subset everything up to the closer is moved over *)
Lemma scan_dt_skipto sk q inB body r : sk = 1 \/ sk = 2 -> Forall (fun x => x <> 0) body ->
  no_closer (dt_skip_pat sk) body ->
  scan_doctype 0 q inB sk (body ++ dt_skip_pat sk ++ r) =
  shiftn (len body + len (dt_skip_pat sk)) (scan_doctype 0 q inB 0 r).
Proof.
  intros Hsk Hz. assert (Esk : negb (sk =? 0) = true) by lia.
  induction Hz as [|x body Hx Hz IH]; intros Hno; cbn [app].
  - change (len (@nil Z)) with 0.
    destruct Hsk as [-> | ->].
    + change (dt_skip_pat 1) with [45; 45; 62]. cbn [app]. rewrite scan_doctype_step0.
      change (45 =? 0) with false. change (negb (1 =? 0)) with true. cbv iota.
      change (dt_skip_pat 1) with [45; 45; 62]. change (at_l [45; 45; 62] (45 :: 45 :: 62 :: r)) with (Some true).
      cbn [option_bind length Nat.sub]. rewrite !scan_doctype_stepS. unfold bump, shiftn.
      destruct (scan_doctype 0 q inB 0 r) as [[m f]|]; cbn [option_bind fst snd]; [|reflexivity].
      do 2 f_equal. unfold len. cbn [length]. lia.
    + change (dt_skip_pat 2) with [63; 62]. cbn [app]. rewrite scan_doctype_step0.
      change (63 =? 0) with false. change (negb (2 =? 0)) with true. cbv iota.
      change (dt_skip_pat 2) with [63; 62]. change (at_l [63; 62] (63 :: 62 :: r)) with (Some true).
      cbn [option_bind length Nat.sub]. rewrite !scan_doctype_stepS. unfold bump, shiftn.
      destruct (scan_doctype 0 q inB 0 r) as [[m f]|]; cbn [option_bind fst snd]; [|reflexivity].
      do 2 f_equal. unfold len. cbn [length]. lia.
  - rewrite scan_doctype_step0. destruct (Z.eqb_spec x 0); [congruence|]. rewrite Esk.
    assert (Hf : at_l (dt_skip_pat sk) (x :: body ++ dt_skip_pat sk ++ r) = Some false).
    { apply at_l_false; [discriminate| |].
      - intros j Hj. rewrite len_cons, !len_app. pose proof (len_nonneg body). pose proof (len_nonneg r). lia.
      - destruct (Hno 0 ltac:(rewrite len_cons; pose proof (len_nonneg body); lia)) as (j & Hj & Hd).
        exists j. split; [exact Hj|]. cbn [app] in Hd.
        replace (x :: body ++ dt_skip_pat sk ++ r) with ((x :: body ++ dt_skip_pat sk) ++ r)
          by (cbn [app]; rewrite <- app_assoc; reflexivity).
        rewrite getz_app1; [exact Hd|]. rewrite len_cons, len_app. pose proof (len_nonneg body). lia. }
    rewrite Hf. cbn [option_bind]. rewrite IH.
    + rewrite bump_shiftn, shiftn_shiftn, len_cons. apply shiftn_eq. lia.
    + intros i Hi. destruct (Hno (1 + i) ltac:(rewrite len_cons; lia)) as (j & Hj & Hd).
      exists j. split; [exact Hj|]. cbn [app] in Hd. replace (1 + i + j) with (1 + (i + j)) in Hd by lia.
      rewrite getz_cons_succ in Hd by lia. exact Hd.
Qed.

Lemma dt_skip_comment b : Forall (fun c => c <> 0) b -> no_occurrence pat_comment_end b ->
  dt_skip true (dt_comment_open ++ b ++ pat_comment_end).
Proof.
  intros Hz Hno r. unfold dt_comment_open. cbn [app]. rewrite scan_doctype_step0.
  change (60 =? 0) with false. change (0 =? 0) with true. cbn [negb andb orb].
  change (60 =? 34) with false. change (60 =? 39) with false. cbn [orb andb]. change (60 =? 60) with true. cbn [andb].
  change (at_l dt_comment_open (60 :: 33 :: 45 :: 45 :: (b ++ pat_comment_end) ++ r)) with (Some true).
  cbn [option_bind]. cbv iota.
  change (33 :: 45 :: 45 :: (b ++ pat_comment_end) ++ r) with ([33; 45; 45] ++ (b ++ pat_comment_end) ++ r).
  change 3%nat with (length [33; 45; 45]). rewrite scan_pend. rewrite <- app_assoc.
  change pat_comment_end with (dt_skip_pat 1).
  rewrite (scan_dt_skipto 1 0 true b r) by (first [left; reflexivity | assumption | (apply (no_closer_ppq 45 62); [lia|exact Hno])]).
  rewrite bump_shiftn, !shiftn_shiftn. apply shiftn_eq.
  rewrite !len_cons, len_app. change (len (@nil Z)) with 0. lia.
Qed.

Lemma dt_skip_pi b : Forall (fun c => c <> 0) b -> no_occurrence pat_pi_end b ->
  dt_skip true ([60; 63] ++ b ++ pat_pi_end).
Proof.
  intros Hz Hno r. cbn [app]. rewrite scan_doctype_step0.
  change (60 =? 0) with false. change (0 =? 0) with true. cbn [negb andb orb].
  change (60 =? 34) with false. change (60 =? 39) with false. cbn [orb andb]. change (60 =? 60) with true. cbn [andb].
  change (at_l dt_comment_open (60 :: 63 :: (b ++ pat_pi_end) ++ r)) with (Some false).
  cbn [option_bind]. cbv iota. change (63 =? 63) with true. cbv iota.
  rewrite scan_doctype_stepS. rewrite <- app_assoc.
  change pat_pi_end with (dt_skip_pat 2).
  rewrite (scan_dt_skipto 2 0 true b r) by (first [right; reflexivity | assumption | (apply (no_closer_pq 63 62); [lia|exact Hno])]).
  rewrite bump_shiftn, (bump_shiftn (shiftn _ _)), !shiftn_shiftn. apply shiftn_eq.
  rewrite !len_cons, len_app. lia.
Qed.

Lemma dt_skip_dinner p : dinner_ok p -> dt_skip true (render_dinner p).
Proof.
  destruct p as [c|s|s|k|b|b]; cbn [dinner_ok render_dinner].
  - apply dt_skip_ichar.
  - apply dt_skip_lit. auto.
  - apply dt_skip_lit. auto.
  - intros (H1 & H2 & H3). apply dt_skip_lt; assumption.
  - intros (H1 & H2). apply dt_skip_comment; assumption.
  - intros (H1 & H2). apply dt_skip_pi; assumption.
Qed.

Lemma dt_skip_sub inner : Forall dinner_ok inner -> dt_skip false ([91] ++ concat (map render_dinner inner) ++ [93]).
Proof.
  intros H r. cbn [app]. rewrite scan_doctype_step0. change (0 =? 0) with true.
  change (91 =? 0) with false. change (91 =? 34) with false. change (91 =? 39) with false. change (91 =? 60) with false.
  change (91 =? 91) with true. cbn [orb andb negb option_bind]. cbv iota. rewrite <- app_assoc.
  assert (Hs : dt_skip true (concat (map render_dinner inner))).
  { apply dt_skip_concat. eapply Forall_impl; [|exact H]. intros p. apply dt_skip_dinner. }
  rewrite Hs. cbn [app]. rewrite scan_doctype_step0. change (0 =? 0) with true.
  change (93 =? 0) with false. change (93 =? 34) with false. change (93 =? 39) with false. change (93 =? 60) with false.
  change (93 =? 93) with true. change (93 =? 91) with false. cbn [orb andb negb option_bind]. cbv iota.
  unfold bump, shiftn. destruct (scan_doctype 0 0 false 0 r) as [[m f]|]; cbn [option_bind fst snd]; [|reflexivity].
  do 2 f_equal. rewrite len_cons, len_app. change (len [93]) with 1. lia.
Qed.

Lemma dt_skip_dpiece p : dpiece_ok p -> dt_skip false (render_dpiece p).
Proof.
  destruct p as [c|s|s|inner]; cbn [dpiece_ok render_dpiece].
  - intros (H1 & H2 & H3 & H4 & H5 & H6). apply dt_skip_char; assumption.
  - apply dt_skip_lit. auto.
  - apply dt_skip_lit. auto.
  - apply dt_skip_sub.
Qed.

Lemma scan_doctype_dt ps r : Forall dpiece_ok ps ->
  scan_doctype 0 0 false 0 (render_dt ps ++ 62 :: r) = Some (len (render_dt ps), true).
Proof.
  intros H. assert (Hs : dt_skip false (render_dt ps)).
  { apply dt_skip_concat. eapply Forall_impl; [|exact H]. intros p. apply dt_skip_dpiece. }
  rewrite Hs. rewrite scan_doctype_step0. change (0 =? 0) with true. change (62 =? 0) with false.
  change (62 =? 34) with false. change (62 =? 39) with false. change (62 =? 60) with false. change (62 =? 91) with false.
  change (62 =? 93) with false. change (62 =? 62) with true. cbn [orb andb negb option_bind shiftn fst snd]. cbv iota.
  do 2 f_equal; lia.
Qed.

Lemma lex_doctype pre ps r tx : Forall dpiece_ok ps ->
  exists tx', steps (sout pre (open_doctype ++ render_dt ps ++ [62] ++ r) tx)
                    [(TDoctype, Some (open_doctype ++ render_dt ps ++ [62]), Some (render_dt ps), None)]
                    (sout (pre ++ open_doctype ++ render_dt ps ++ [62]) r tx').
Proof.
  intros Hok. eexists. unfold open_doctype. cbn [app]. set (b := render_dt ps).
  set (res := (Some (len pre + 9, len pre + 9 + len b),
               (len pre, len pre + len ([60; 33; 68; 79; 67; 84; 89; 80; 69] ++ b ++ [62])),
               cur (pre ++ [60; 33; 68; 79; 67; 84; 89; 80; 69] ++ b ++ [62]) [] r) : sres).
  assert (Hn : next (sout pre (60 :: 33 :: 68 :: 79 :: 67 :: 84 :: 89 :: 80 :: 69 :: b ++ 62 :: r) tx)
               = markup_result TDoctype false false (Some res)).
  { rewrite next_markup. change (33 =? 47) with false. change (33 =? 33) with true. cbv iota.
    unfold bang. rewrite suffix_cur.
    change (at_l pat_comment (68 :: 79 :: 67 :: 84 :: 89 :: 80 :: 69 :: b ++ 62 :: r)) with (Some false).
    cbn [option_bind].
    change (at_l pat_cdata (68 :: 79 :: 67 :: 84 :: 89 :: 80 :: 69 :: b ++ 62 :: r)) with (Some false).
    cbn [option_bind].
    change (at_l pat_doctype (68 :: 79 :: 67 :: 84 :: 89 :: 80 :: 69 :: b ++ 62 :: r)) with (Some true).
    cbn [option_bind].
    change (68 :: 79 :: 67 :: 84 :: 89 :: 80 :: 69 :: b ++ 62 :: r) with ([68; 79; 67; 84; 89; 80; 69] ++ b ++ 62 :: r).
    rewrite mv_cur by reflexivity. cbn [app].
    unfold shift_doctype. rewrite suffix_cur. unfold b. rewrite scan_doctype_dt by exact Hok. fold b.
    cbn [option_bind fst snd]. rewrite mv_cur by reflexivity.
    rewrite lex_sub_cur by (rewrite mark_cur, ?len_app, ?len9; pose proof (len_nonneg b); lia).
    cbn [option_bind]. rewrite mv_cur1.
    rewrite shift_c_cur. cbn [option_bind fst snd]. unfold markup_result, res. cbn [option_bind fst snd].
    rewrite mark_cur. rewrite <- !app_assoc. rewrite !len_app, len9.
    replace (len pre + (9 + len b)) with (len pre + 9 + len b) by lia. reflexivity. }
  eapply (steps_markup pre _ tx TDoctype false false res); [exact Hn|discriminate|reflexivity| |].
  - unfold res. cbn [fst snd]. apply obs_cur.
  - unfold res. cbn [fst snd].
    apply (obs_cur_in pre [60; 33; 68; 79; 67; 84; 89; 80; 69] b [62] r); rewrite ?len9; lia.
Qed.

(* ---- end tags ------------------------------------------------------------------------------------------------------------- *)
Lemma name_char_facts eq c : name_char eq c = true ->
  is_ws c = false /\ c <> 62 /\ c <> 0 /\ c <> 47 /\ c <> 63 /\ (eq = true -> c <> 61).
Proof. unfold name_char, is_ws. destruct eq; cbn [andb]; intros H; repeat split; try lia; intros _; lia. Qed.

Lemma count_ws_app a b : all_ws a -> count_ws (a ++ b) = len a + count_ws b.
Proof.
  intros H. induction H as [|c a Hc Ha IH]; cbn [app count_ws]; [change (len (@nil Z)) with 0; lia|].
  rewrite Hc, IH, len_cons. lia.
Qed.

Lemma all_ws_rev l : all_ws l -> all_ws (rev l).
Proof. intros H. apply Forall_rev. exact H. Qed.

Lemma count_ws_rev_name eq n ws : is_name eq n -> all_ws ws -> count_ws (rev (n ++ ws)) = len ws.
Proof.
  intros (Hne & Hn) Hw. rewrite rev_app_distr. rewrite count_ws_app by (apply all_ws_rev; exact Hw).
  rewrite len_rev. destruct (exists_last Hne) as (n' & x & ->). rewrite rev_app_distr. cbn [rev app count_ws].
  assert (Hx : name_char eq x = true).
  { rewrite Forall_forall in Hn. apply Hn. apply in_or_app. right. left. reflexivity. }
  destruct (name_char_facts eq x Hx) as (-> & _). lia.
Qed.

Lemma forall_app_until stop (n ws : list Z) eq : Forall (fun c => name_char eq c = true) n -> all_ws ws -> stop = 62 ->
  Forall (fun x => until stop x = true) (n ++ ws).
Proof.
  intros Hn Hw ->. apply Forall_app. split.
  - eapply Forall_impl; [|exact Hn]. intros c Hc. destruct (name_char_facts eq c Hc) as (_ & H1 & H2 & _). unfold until. lia.
  - eapply Forall_impl; [|exact Hw]. intros c Hc. unfold until, is_ws in *. lia.
Qed.

Lemma lex_endtag pre n ws r tx : is_name false n -> all_ws ws ->
  exists tx', steps (sout pre ([60; 47] ++ n ++ ws ++ [62] ++ r) tx)
                    [(TEndTag, Some ([60; 47] ++ n ++ ws ++ [62]), Some n, None)]
                    (sout (pre ++ [60; 47] ++ n ++ ws ++ [62]) r tx').
Proof.
  intros Hn Hw. eexists. cbn [app].
  set (res := (Some (len pre + 2, len pre + 2 + len n),
               (len pre, len pre + len ([60; 47] ++ n ++ ws ++ [62])),
               cur (pre ++ [60; 47] ++ n ++ ws ++ [62]) [] r) : sres).
  assert (Hnx : next (sout pre (60 :: 47 :: n ++ ws ++ 62 :: r) tx) = markup_result TEndTag false false (Some res)).
  { rewrite next_markup. change (47 =? 47) with true. cbv iota.
    unfold shift_end_tag. rewrite suffix_cur. rewrite app_assoc.
    rewrite (scan_while_app (until 62) (n ++ ws) 62 r)
      by (try (apply (forall_app_until 62 n ws false); try reflexivity; try apply Hn; assumption); reflexivity).
    cbn [option_bind]. rewrite mv_cur by reflexivity. rewrite pk_cur0. cbn [option_bind].
    rewrite lex_sub_cur by (rewrite mark_cur, ?len_app; pose proof (len_nonneg n); pose proof (len_nonneg ws);
                            change (len [60; 47]) with 2; lia).
    cbn [option_bind fst snd]. change (62 =? 62) with true. cbv iota. rewrite mv_cur1.
    rewrite shift_c_cur. cbn [option_bind fst snd].
    (* the text is n ++ ws; its trailing whitespace is trimmed *)
    assert (Esl : slice (lbuf (cur pre ([60; 47] ++ n ++ ws) (62 :: r))) (len pre + 2)
                        (len pre + mark (cur pre ([60; 47] ++ n ++ ws) (62 :: r))) = n ++ ws).
    { rewrite mark_cur. unfold cur. cbn [lbuf].
      replace (pre ++ ([60; 47] ++ n ++ ws) ++ 62 :: r) with ((pre ++ [60; 47]) ++ (n ++ ws) ++ 62 :: r)
        by (rewrite <- !app_assoc; reflexivity).
      replace (len pre + 2) with (len (pre ++ [60; 47])) by (rewrite len_app; reflexivity).
      replace (len pre + len ([60; 47] ++ n ++ ws)) with (len (pre ++ [60; 47]) + len (n ++ ws))
        by (rewrite !len_app; change (len [60; 47]) with 2; lia).
      apply slice_mid. }
    rewrite Esl. rewrite (count_ws_rev_name false n ws Hn Hw).
    unfold markup_result, res. cbn [option_bind fst snd]. rewrite mark_cur.
    rewrite <- !app_assoc. rewrite !len_app. change (len [60; 47]) with 2.
    replace (len pre + (2 + (len n + len ws)) - len ws) with (len pre + 2 + len n) by lia. reflexivity. }
  eapply (steps_markup pre _ tx TEndTag false false res); [exact Hnx|discriminate|reflexivity| |].
  - unfold res. cbn [fst snd]. apply obs_cur.
  - unfold res. cbn [fst snd].
    apply (obs_cur_in pre [60; 47] n (ws ++ [62]) r); change (len [60; 47]) with 2; lia.
Qed.

(* ---- start tags and processing-instruction targets ------------------------------------------------------------------- *)
(* what may follow a name inside a tag: whitespace, '>', "/>", "?>" (and '=' after an attribute name) *)

Lemma scan_name_end pi eq n l : Forall (fun c => name_char eq c = true) n -> name_end pi eq l ->
  scan_name pi eq (n ++ l) = Some (len n).
Proof. intros Hn (c & t & -> & H1 & H2). apply scan_name_app; assumption. Qed.

Lemma name_end_ws pi eq c t : is_ws c = true -> name_end pi eq (c :: t).
Proof.
  intros H. exists c, t. split; [reflexivity|]. unfold is_ws, name_stop in *. split; [lia|]. intros [->| ->]; discriminate.
Qed.


Lemma name_end_closer pi eq k r : is_closer_ty k -> (pi = true -> k = TStartTagClosePI) ->
  name_end pi eq (closer_bytes k ++ r).
Proof.
  intros Hk Hpi. destruct pi.
  - rewrite (Hpi eq_refl). cbn [closer_bytes app]. exists 63, (62 :: r). split; [reflexivity|]. rewrite getz_cons_0.
    split; [destruct eq; reflexivity|]. intros _. discriminate.
  - destruct Hk as [->|[->| ->]]; cbn [closer_bytes app]; eexists _, _; (split; [reflexivity|]); rewrite ?getz_cons_0;
      (split; [destruct eq; reflexivity|]); intros Hc; first [discriminate | destruct Hc; discriminate].
Qed.

(* the rest of a tag after a name: attributes, whitespace, closer *)
Lemma name_end_tag_rest pi attrs ws k r : Forall attr_ok attrs -> all_ws ws -> is_closer_ty k ->
  (pi = true -> k = TStartTagClosePI) ->
  name_end pi false (render_attrs attrs ++ ws ++ closer_bytes k ++ r).
Proof.
  intros Ha Hw Hk Hpi. destruct attrs as [|a attrs].
  - cbn [render_attrs map concat app]. destruct ws as [|w ws]; cbn [app].
    + apply name_end_closer; assumption.
    + apply name_end_ws. inversion Hw; assumption.
  - inversion Ha as [|? ? (Hl & Hlw & _) _]; subst. unfold render_attrs. cbn [map concat]. unfold render_attr.
    destruct (a_lead a) as [|w l]; [congruence|]. cbn [app]. apply name_end_ws. inversion Hlw; assumption.
Qed.

Lemma lex_starttag pre n rest tx : is_name false n -> getz n 0 <> 33 -> name_end false false rest ->
  exists tx', steps (sout pre ([60] ++ n ++ rest) tx) [(TStartTag, Some ([60] ++ n), Some n, None)]
                    (sin false (pre ++ [60] ++ n) rest tx' None).
Proof.
  intros (Hne & Hn) H33 Hend. eexists. destruct n as [|c1 n']; [congruence|]. cbn [app].
  inversion Hn as [|? ? Hc1 Hn']; subst. destruct (name_char_facts false c1 Hc1) as (_ & _ & _ & N47 & N63 & _).
  rewrite getz_cons_0 in H33.
  set (res := (Some (len pre + 1, len pre + 1 + len (c1 :: n')), (len pre, len pre + len ([60] ++ c1 :: n')),
               cur (pre ++ [60] ++ c1 :: n') [] rest) : sres).
  assert (Hnx : next (sout pre (60 :: c1 :: n' ++ rest) tx) = markup_result TStartTag true false (Some res)).
  { rewrite next_markup. destruct (Z.eqb_spec c1 47); [congruence|]. destruct (Z.eqb_spec c1 33); [congruence|].
    cbn [option_bind]. destruct (Z.eqb_spec c1 63); [congruence|].
    unfold shift_start_tag. rewrite suffix_cur. change (c1 :: n' ++ rest) with ((c1 :: n') ++ rest).
    rewrite scan_name_end by assumption. cbn [option_bind]. rewrite mv_cur by reflexivity.
    rewrite lex_sub_cur by (rewrite !mark_cur, ?len_app; change (len [60]) with 1; pose proof (len_nonneg (c1 :: n')); lia).
    cbn [option_bind]. rewrite shift_c_cur. cbn [option_bind fst snd].
    unfold markup_result, res. cbn [option_bind fst snd]. rewrite !mark_cur, !len_app. change (len [60]) with 1.
    replace (len pre + (1 + len (c1 :: n'))) with (len pre + 1 + len (c1 :: n')) by lia. reflexivity. }
  unfold sin. eapply (steps_markup pre _ tx TStartTag true false res); [exact Hnx|discriminate|reflexivity| |].
  - unfold res. cbn [fst snd]. apply obs_cur.
  - unfold res. cbn [fst snd].
    apply (obs_cur_in2 pre [60] (c1 :: n') rest); change (len [60]) with 1; lia.
Qed.

Lemma lex_pitarget pre n rest tx : is_name false n -> name_end true false rest ->
  exists tx', steps (sout pre ([60; 63] ++ n ++ rest) tx) [(TStartTagPI, Some ([60; 63] ++ n), Some n, None)]
                    (sin true (pre ++ [60; 63] ++ n) rest tx' None).
Proof.
  intros (Hne & Hn) Hend. eexists. cbn [app].
  set (res := (Some (len pre + 2, len pre + 2 + len n), (len pre, len pre + len ([60; 63] ++ n)),
               cur (pre ++ [60; 63] ++ n) [] rest) : sres).
  assert (Hnx : next (sout pre (60 :: 63 :: n ++ rest) tx) = markup_result TStartTagPI true true (Some res)).
  { rewrite next_markup. change (63 =? 47) with false. change (63 =? 33) with false. change (63 =? 63) with true.
    cbn [option_bind]. cbv iota.
    unfold shift_start_tag. rewrite suffix_cur.
    rewrite scan_name_end by assumption. cbn [option_bind]. rewrite mv_cur by reflexivity.
    rewrite lex_sub_cur by (rewrite !mark_cur, ?len_app; change (len [60; 63]) with 2; pose proof (len_nonneg n); lia).
    cbn [option_bind]. rewrite shift_c_cur. cbn [option_bind fst snd].
    unfold markup_result, res. cbn [option_bind fst snd]. rewrite !mark_cur, !len_app. change (len [60; 63]) with 2.
    replace (len pre + (2 + len n)) with (len pre + 2 + len n) by lia. reflexivity. }
  unfold sin. eapply (steps_markup pre _ tx TStartTagPI true true res); [exact Hnx|discriminate|reflexivity| |].
  - unfold res. cbn [fst snd]. apply obs_cur.
  - unfold res. cbn [fst snd].
    apply (obs_cur_in2 pre [60; 63] n rest); change (len [60; 63]) with 2; lia.
Qed.

(* ---- inside a tag: attributes and closers --------------------------------------------------------------------------- *)
Lemma norm_range_mid a v c : norm_range (a ++ v ++ c) (len a) (len a + len v) = a ++ map ws2sp v ++ c.
Proof.
  unfold norm_range. rewrite firstz_app_exact, slice_mid. f_equal. f_equal.
  rewrite app_assoc, <- len_app. apply skipz_app_exact.
Qed.

Lemma scan_quoted_app pi q val r : Forall (fun c => c <> q /\ c <> 0) val -> q <> 62 -> (pi = true -> no_pi_end val) ->
  scan_quoted pi q (val ++ q :: r) = Some (len val).
Proof.
  intros Hv Hq. induction Hv as [|x v (Hx1 & Hx2) Hv IH]; intros Hn; cbn [app]; rewrite scan_quoted_step.
  - rewrite Z.eqb_refl. reflexivity.
  - destruct (Z.eqb_spec x q); [congruence|]. destruct (Z.eqb_spec x 0); [congruence|].
    assert (Ht : (if pi then tag_end true x (v ++ q :: r) else Some false) = Some false).
    { destruct pi; [|reflexivity]. rewrite tag_end_eq by (left; destruct v; discriminate).
      unfold tag_end_b. destruct (Z.eqb_spec x 63) as [->|]; [|reflexivity]. cbn [andb]. f_equal.
      specialize (Hn eq_refl). destruct v as [|y v']; cbn [app]; rewrite getz_cons_0.
      - lia.
      - destruct Hn as (Hn & _). destruct (Z.eqb_spec y 62); [exfalso; apply Hn; auto|reflexivity]. }
    rewrite Ht. cbn [option_bind orb]. rewrite IH.
    + cbn [option_bind]. rewrite len_cons. reflexivity.
    + intros Hp. specialize (Hn Hp). destruct v; [exact I|]. destruct Hn as (_ & Hn). exact Hn.
Qed.

Lemma quoted_norm_cur pre tk val X :
  mkLx (norm_range (lbuf (cur pre tk (val ++ X))) (lpos (cur pre tk (val ++ X))) (lpos (cur pre tk (val ++ X)) + len val))
       (lpos (cur pre tk (val ++ X)) + len val) (lstart (cur pre tk (val ++ X)))
  = cur pre (tk ++ map ws2sp val) X.
Proof.
  unfold cur. cbn [lbuf lpos lstart]. f_equal.
  - replace (pre ++ tk ++ val ++ X) with ((pre ++ tk) ++ val ++ X) by (rewrite <- app_assoc; reflexivity).
    rewrite <- len_app. rewrite norm_range_mid. rewrite <- !app_assoc. reflexivity.
  - rewrite len_app, len_map. lia.
Qed.

Lemma quoted_value_cur pi pre tk val q r : Forall (fun c => c <> q /\ c <> 0) val -> q = 34 \/ q = 39 ->
  (pi = true -> no_pi_end val) ->
  quoted_value pi q (cur pre tk (val ++ q :: r)) = Some (cur pre ((tk ++ map ws2sp val) ++ [q]) r).
Proof.
  intros Hv Hq Hn. unfold quoted_value. rewrite suffix_cur.
  rewrite scan_quoted_app by (try assumption; lia). cbn [option_bind].
  rewrite quoted_norm_cur. rewrite pk_cur0. cbn [option_bind]. rewrite Z.eqb_refl. rewrite mv_cur1. reflexivity.
Qed.

Lemma is_ws_false_of c : c = 61 \/ c = 34 \/ c = 39 \/ c = 62 \/ c = 47 \/ c = 63 -> is_ws c = false.
Proof. unfold is_ws. lia. Qed.

Lemma name_end_eq pi ws1 rest : all_ws ws1 -> name_end pi true (ws1 ++ 61 :: rest).
Proof.
  intros Hw. destruct ws1 as [|w ws1]; cbn [app].
  - exists 61, rest. split; [reflexivity|]. split; [reflexivity|]. intros [H|H]; discriminate.
  - apply name_end_ws. inversion Hw; assumption.
Qed.

Lemma lex_attr pi pre a r tx ax : attr_ok a -> (pi = true -> no_pi_end (a_val a)) ->
  exists tx' ax', steps (sin pi pre (render_attr a ++ r) tx ax) [expect_attr a] (sin pi (pre ++ norm_attr a) r tx' ax').
Proof.
  intros (Hl & Hlw & (Hnne & Hn) & Hw1 & Hw2 & Hq & Hv) Hnp.
  destruct a as [lead name ws1 ws2 q val]. cbn [a_lead a_name a_ws1 a_ws2 a_q a_val] in *.
  unfold render_attr, expect_attr, norm_attr, attr_value. cbn [a_lead a_name a_ws1 a_ws2 a_q a_val].
  destruct name as [|c n']; [congruence|].
  inversion Hn as [|? ? Hc Hn']; subst.
  destruct (name_char_facts true c Hc) as (Cws & C62 & C0 & C47 & C63 & _).
  assert (Hq0 : q <> 0) by lia.
  set (name := c :: n') in *.
  set (tk4 := (((lead ++ name) ++ ws1) ++ [61]) ++ ws2).
  set (tk6 := ((tk4 ++ [q]) ++ map ws2sp val) ++ [q]).
  assert (Hnx : next (sin pi pre (lead ++ name ++ ws1 ++ [61] ++ ws2 ++ [q] ++ val ++ [q] ++ r) tx ax) =
                Some (TAttribute, Some (len pre, len pre + len tk6),
                      mkX (cur (pre ++ tk6) [] r) false true pi
                          (Some (len pre + len lead, len pre + len (lead ++ name)))
                          (Some (len pre + len tk4, len pre + len tk6)))).
  { unfold sin, next. cbn [xin xpi xr xerr xattr xtext]. rewrite suffix_cur.
    unfold name at 1. cbn [app].
    rewrite (scan_while_app is_ws lead c _ Hlw Cws). cbn [option_bind].
    rewrite mv_cur by reflexivity. unfold name at 1 2 3 4 5 6. cbn [app]. rewrite pk_cur0. cbn [option_bind].
    destruct (Z.eqb_spec c 0); [congruence|]. destruct (Z.eqb_spec c 62); [congruence|].
    destruct (Z.eqb_spec c 47); [congruence|]. destruct (Z.eqb_spec c 63); [congruence|].
    cbn [orb]. replace (if pi then Some true else Some true) with (Some true) by (destruct pi; reflexivity).
    cbn [option_bind].
    (* shiftAttribute *)
    unfold shift_attribute. rewrite suffix_cur.
    change (c :: n' ++ ws1 ++ 61 :: ws2 ++ q :: val ++ q :: r) with (name ++ ws1 ++ 61 :: ws2 ++ q :: val ++ q :: r).
    rewrite scan_name_end by (try exact Hn; apply name_end_eq; exact Hw1).
    cbn [option_bind]. rewrite mv_cur by reflexivity. rewrite suffix_cur.
    rewrite (scan_while_app is_ws ws1 61 _ Hw1 eq_refl). cbn [option_bind]. rewrite mv_cur by reflexivity.
    rewrite pk_cur0. cbn [option_bind]. change (61 =? 61) with true. cbv iota.
    rewrite mv_cur1. rewrite suffix_cur.
    rewrite (scan_while_app is_ws ws2 q _ Hw2) by (apply is_ws_false_of; lia).
    cbn [option_bind]. rewrite mv_cur by reflexivity. fold tk4. rewrite pk_cur0. cbn [option_bind].
    replace ((q =? 34) || (q =? 39)) with true by lia.
    rewrite mv_cur1. rewrite quoted_value_cur by assumption. cbn [option_bind]. fold tk6.
    rewrite !mark_cur.
    assert (L46 : len tk4 <= len tk6).
    { unfold tk6. rewrite !len_app. pose proof (len_nonneg (map ws2sp val)). change (len [q]) with 1. lia. }
    assert (L6 : len (lead ++ name) <= len tk6).
    { pose proof (len_nonneg ws1). pose proof (len_nonneg ws2). unfold tk4 in L46. rewrite !len_app in L46.
      rewrite len_app. change (len [61]) with 1 in L46. lia. }
    rewrite lex_sub_cur by (pose proof (len_nonneg tk4); lia). cbn [option_bind fst snd].
    rewrite lex_sub_cur by (rewrite ?len_app; pose proof (len_nonneg lead); pose proof (len_nonneg name); try lia;
                            rewrite len_app in L6; lia).
    cbn [option_bind]. rewrite shift_c_cur. cbn [option_bind fst snd]. reflexivity. }
  assert (E6 : tk6 = lead ++ name ++ ws1 ++ [61] ++ ws2 ++ [q] ++ map ws2sp val ++ [q]).
  { unfold tk6, tk4. rewrite <- !app_assoc. reflexivity. }
  assert (E64 : tk6 = tk4 ++ ([q] ++ map ws2sp val ++ [q])).
  { unfold tk6. rewrite <- !app_assoc. reflexivity. }
  do 2 eexists.
  pose proof (steps_one _ _ _ _ Hnx ltac:(discriminate)) as S.
  unfold etok_of in S. cbn [xr xtext xattr] in S.
  rewrite obs_cur in S.
  assert (Ea : obs_sl (lbuf (cur (pre ++ tk6) [] r)) (Some (len pre + len tk4, len pre + len tk6))
               = Some ([q] ++ map ws2sp val ++ [q])).
  { rewrite E64. apply (obs_cur_in2 pre tk4 ([q] ++ map ws2sp val ++ [q]) r); [reflexivity|].
    rewrite len_app. lia. }
  rewrite Ea in S. clear Ea. rewrite E6 in S.
  rewrite (obs_cur_in pre lead name (ws1 ++ [61] ++ ws2 ++ [q] ++ map ws2sp val ++ [q]) r) in S
    by (rewrite ?len_app; lia).
  unfold sin. rewrite <- !app_assoc. exact S.
Qed.

Lemma lex_closer pi pre ws k r tx ax : all_ws ws -> is_closer_ty k -> (pi = true -> k = TStartTagClosePI) ->
  steps (sin pi pre (ws ++ closer_bytes k ++ r) tx ax) [(k, Some (closer_bytes k), None, None)]
        (sout (pre ++ ws ++ closer_bytes k) r None).
Proof.
  intros Hw Hk Hpi.
  assert (Hnx : next (sin pi pre (ws ++ closer_bytes k ++ r) tx ax) =
                Some (k, Some (len (pre ++ ws), len (pre ++ ws) + len (closer_bytes k)),
                      mkX (cur ((pre ++ ws) ++ closer_bytes k) [] r) false false false None None)).
  { unfold sin, next. cbn [xin xpi xr xerr xattr xtext]. rewrite suffix_cur.
    assert (Hk' : pi = false \/ k = TStartTagClosePI) by (destruct pi; [right; apply Hpi; reflexivity|left; reflexivity]).
    destruct Hk as [->|[->| ->]]; cbn [closer_bytes app];
      [destruct Hk' as [-> |?]; [|discriminate] | destruct Hk' as [-> |?]; [|discriminate] | ].
    - rewrite (scan_while_app is_ws ws 62 r Hw eq_refl). cbn [option_bind].
      rewrite mv_cur by reflexivity. cbn [app]. rewrite pk_cur0. cbn [option_bind].
      change (62 =? 0) with false. change (62 =? 62) with true. cbn [option_bind]. cbv iota.
      rewrite skip_cur. change (62 =? 47) with false. change (62 =? 63) with false. cbv iota.
      rewrite mv_cur1. cbn [app]. rewrite shift_c_cur. reflexivity.
    - rewrite (scan_while_app is_ws ws 47 _ Hw eq_refl). cbn [option_bind].
      rewrite mv_cur by reflexivity. cbn [app]. rewrite pk_cur0. cbn [option_bind].
      change (47 =? 0) with false. change (47 =? 62) with false. change (47 =? 47) with true. cbn [orb]. cbv iota.
      rewrite pk_cur1. cbn [option_bind]. change (62 =? 62) with true. cbn [negb]. cbv iota.
      rewrite skip_cur. rewrite mv_cur2. cbn [app]. rewrite shift_c_cur. reflexivity.
    - rewrite (scan_while_app is_ws ws 63 _ Hw eq_refl). cbn [option_bind].
      rewrite mv_cur by reflexivity. cbn [app]. rewrite pk_cur0. cbn [option_bind].
      change (63 =? 0) with false. change (63 =? 62) with false. change (63 =? 47) with false.
      change (63 =? 63) with true. cbn [orb]. cbv iota.
      rewrite pk_cur1. cbn [option_bind]. change (62 =? 62) with true. cbn [negb].
      replace (if pi then Some false else Some false) with (Some false) by (destruct pi; reflexivity).
      cbn [option_bind]. cbv iota.
      rewrite skip_cur. rewrite mv_cur2. cbn [app]. rewrite shift_c_cur. reflexivity. }
  assert (Hty : k <> TError) by (destruct Hk as [->|[->| ->]]; discriminate).
  pose proof (steps_one _ _ _ _ Hnx Hty) as S.
  unfold etok_of in S. cbn [xr xtext xattr] in S. rewrite obs_cur in S. cbn [obs_sl] in S.
  unfold sout. rewrite <- app_assoc in S. exact S.
Qed.

(* ---- the general pieces inside a tag --------------------------------------------------------------------------- *)
Lemma scan_name_cons pi eq c t : t <> [] ->
  scan_name pi eq (c :: t) = if name_stop pi eq c (getz t 0) then Some 0 else n <- scan_name pi eq t ;; Some (1 + n).
Proof. intros Ht. apply scan_name_cons'. left. exact Ht. Qed.

Lemma getz_app_hd (a b : list Z) : a <> [] -> getz (a ++ b) 0 = getz a 0.
Proof. intros H. destruct a; [congruence|]. reflexivity. Qed.

Lemma scan_name_run pi eq n : forall Y, Y <> [] -> name_run pi eq n (getz Y 0) -> name_end pi eq Y ->
  scan_name pi eq (n ++ Y) = Some (len n).
Proof.
  induction n as [|c n IH]; intros Y HY Hr He.
  - destruct He as (c & t & -> & H1 & H2). apply (scan_name_app pi eq [] c t); [constructor|exact H1|exact H2].
  - cbn [app]. destruct Hr as (Hc & Hr). rewrite scan_name_cons by (destruct n; [exact HY|discriminate]).
    assert (E : getz (n ++ Y) 0 = match n with [] => getz Y 0 | c1 :: _ => c1 end) by (destruct n; reflexivity).
    rewrite E, Hc. rewrite IH by assumption. cbn [option_bind]. rewrite len_cons. reflexivity.
Qed.

Lemma name_stop_indep pi eq c x y : c <> 47 -> c <> 63 -> name_stop pi eq c x = name_stop pi eq c y.
Proof.
  intros H1 H2. unfold name_stop, tag_end_b. destruct (Z.eqb_spec c 47); [congruence|]. destruct (Z.eqb_spec c 63); [congruence|].
  destruct pi; reflexivity.
Qed.

Lemma name_end_app pi eq rest r : name_end pi eq rest -> name_end pi eq (rest ++ r).
Proof.
  intros (c & t & -> & H1 & H2). exists c, (t ++ r). split; [reflexivity|]. split.
  - destruct (Z.eq_dec c 47) as [E|E]; [|destruct (Z.eq_dec c 63) as [E'|E']].
    + rewrite getz_app_hd by (apply H2; auto). exact H1.
    + rewrite getz_app_hd by (apply H2; auto). exact H1.
    + rewrite (name_stop_indep pi eq c _ (getz t 0)) by assumption. exact H1.
  - intros Hc Hn. apply app_eq_nil in Hn. destruct Hn as (Hn & _). exact (H2 Hc Hn).
Qed.

Lemma name_end_nonnil pi eq l : name_end pi eq l -> l <> [].
Proof. intros (c & t & -> & _). discriminate. Qed.

(* the dispatch of Next inside a tag on a byte that starts an attribute *)
Lemma next_intag_attr pi pre lead c X' tx ax : Forall (fun x => is_ws x = true) lead -> is_ws c = false ->
  c <> 0 -> tag_end_b pi c (getz X' 0) = false -> ((c = 47 \/ c = 63) -> X' <> []) ->
  next (sin pi pre (lead ++ c :: X') tx ax) =
  (r <- shift_attribute pi (cur pre lead (c :: X')) ;;
   Some (TAttribute, Some (snd (fst r)), mkX (snd r) false true pi (fst (fst (fst r))) (snd (fst (fst r))))).
Proof.
  intros Hl Hws H0 Hte Hc. unfold sin, next. cbn [xin xpi xr xerr xattr xtext]. rewrite suffix_cur.
  rewrite (scan_while_app is_ws lead c X' Hl Hws). cbn [option_bind]. rewrite mv_cur by reflexivity. cbn [app].
  rewrite pk_cur0. cbn [option_bind]. destruct (Z.eqb_spec c 0); [congruence|].
  unfold tag_end_b in Hte. destruct pi.
  - destruct (Z.eqb_spec c 63) as [E|E]; [|reflexivity].
    destruct X' as [|c1 X'']; [exfalso; apply Hc; [auto|reflexivity]|]. rewrite getz_cons_0 in Hte.
    rewrite pk_cur1. cbn [option_bind andb] in *. rewrite Hte. reflexivity.
  - destruct (Z.eqb_spec c 62) as [E|E]; [discriminate|]. cbn [orb] in Hte.
    destruct ((c =? 47) || (c =? 63)) eqn:E2; [|reflexivity].
    destruct X' as [|c1 X'']; [exfalso; apply Hc; [lia|reflexivity]|]. rewrite getz_cons_0 in Hte.
    rewrite pk_cur1. cbn [option_bind andb] in *. rewrite Hte. reflexivity.
Qed.

Lemma name_run_head pi eq c n nxt : name_run pi eq (c :: n) nxt ->
  name_stop pi eq c (match n with [] => nxt | c1 :: _ => c1 end) = false.
Proof. intros (H & _). exact H. Qed.

(* entry facts for a piece whose first byte after the whitespace is c, followed by c1 *)
Lemma stop_false_facts pi c c1 : name_stop pi true c c1 = false ->
  is_ws c = false /\ c <> 0 /\ c <> 61 /\ tag_end_b pi c c1 = false.
Proof.
  unfold name_stop, is_ws. intros H. destruct (tag_end_b pi c c1); [rewrite !orb_true_r in H; cbn in H; discriminate|].
  repeat split; lia.
Qed.

Lemma ws_false_61 : is_ws 61 = false. Proof. reflexivity. Qed.

Lemma all_ws_61 pi w1 rest : Forall (fun c => is_ws c = true) w1 -> name_end pi true (w1 ++ 61 :: rest).
Proof. apply name_end_eq. Qed.

(* name = value, value quoted, general name *)
Lemma lex_gattr_quo pi pre lead name w1 w2 q val R tx ax :
  gattr_ok pi (mkG lead name (VQuo w1 w2 q val)) R ->
  exists tx' ax', steps (sin pi pre (render_gattr (mkG lead name (VQuo w1 w2 q val)) ++ R) tx ax)
                        [expect_gattr (mkG lead name (VQuo w1 w2 q val))]
                        (sin pi (pre ++ norm_gattr (mkG lead name (VQuo w1 w2 q val))) R tx' ax').
Proof.
  intros (Hlw & Hw1 & Hw2 & Hne & Hn & Hq & Hv & Hnp). cbn [g_lead g_name g_val] in *.
  unfold render_gattr, expect_gattr, norm_gattr. cbn [g_lead g_name g_val render_gval norm_gval gval_obs].
  assert (Hq0 : q <> 0) by lia.
  set (tk4 := (((lead ++ name) ++ w1) ++ [61]) ++ w2).
  set (tk6 := ((tk4 ++ [q]) ++ map ws2sp val) ++ [q]).
  set (Y := w1 ++ 61 :: w2 ++ q :: val ++ q :: R).
  assert (HY : Y <> []) by (unfold Y; destruct w1; discriminate).
  assert (EY : getz Y 0 = getz (w1 ++ [61]) 0) by (unfold Y; destruct w1; reflexivity).
  assert (Hdisp : exists c X', name ++ Y = c :: X' /\ is_ws c = false /\ c <> 0 /\
                   tag_end_b pi c (getz X' 0) = false /\ ((c = 47 \/ c = 63) -> X' <> [])).
  { destruct name as [|c n'].
    - pose proof (Hne eq_refl) as Ew. exists 61, (w2 ++ q :: val ++ q :: R). unfold Y. rewrite Ew. cbn [app].
      split; [reflexivity|]. split; [reflexivity|]. split; [lia|]. split; [destruct pi; reflexivity|]. intros [H|H]; discriminate.
    - exists c, (n' ++ Y). split; [reflexivity|]. pose proof (name_run_head _ _ _ _ _ Hn) as Hs.
      assert (E : match n' with [] => getz (w1 ++ [61]) 0 | c1 :: _ => c1 end = getz (n' ++ Y) 0)
        by (destruct n'; [cbn [app]; rewrite EY|]; reflexivity).
      rewrite E in Hs. destruct (stop_false_facts _ _ _ Hs) as (F1 & F2 & F3 & F4).
      split; [exact F1|]. split; [exact F2|]. split; [exact F4|]. intros Hc.
      destruct n'; [exact HY|discriminate]. }
  destruct Hdisp as (c & X' & EX & D1 & D2 & D3 & D4).
  assert (Hnx : next (sin pi pre (lead ++ name ++ Y) tx ax) =
                Some (TAttribute, Some (len pre, len pre + len tk6),
                      mkX (cur (pre ++ tk6) [] R) false true pi
                          (Some (len pre + len lead, len pre + len (lead ++ name)))
                          (Some (len pre + len tk4, len pre + len tk6)))).
  { rewrite EX. rewrite next_intag_attr by assumption. rewrite <- EX.
    unfold shift_attribute. rewrite suffix_cur.
    rewrite scan_name_run by (first [assumption | (rewrite EY; exact Hn) | (apply name_end_eq; exact Hw1)]).
    cbn [option_bind]. rewrite mv_cur by reflexivity. rewrite suffix_cur. unfold Y.
    rewrite (scan_while_app is_ws w1 61 _ Hw1 eq_refl). cbn [option_bind]. rewrite mv_cur by reflexivity.
    rewrite pk_cur0. cbn [option_bind]. change (61 =? 61) with true. cbv iota.
    rewrite mv_cur1. rewrite suffix_cur.
    rewrite (scan_while_app is_ws w2 q _ Hw2) by (apply is_ws_false_of; lia).
    cbn [option_bind]. rewrite mv_cur by reflexivity. fold tk4. rewrite pk_cur0. cbn [option_bind].
    replace ((q =? 34) || (q =? 39)) with true by lia.
    rewrite mv_cur1. rewrite quoted_value_cur by assumption. cbn [option_bind]. fold tk6.
    rewrite !mark_cur.
    assert (L46 : len tk4 <= len tk6).
    { unfold tk6. rewrite !len_app. pose proof (len_nonneg (map ws2sp val)). change (len [q]) with 1. lia. }
    assert (L6 : len (lead ++ name) <= len tk6).
    { pose proof (len_nonneg w1). pose proof (len_nonneg w2). unfold tk4 in L46. rewrite !len_app in L46.
      rewrite len_app. change (len [61]) with 1 in L46. lia. }
    rewrite lex_sub_cur by (pose proof (len_nonneg tk4); lia). cbn [option_bind fst snd].
    rewrite lex_sub_cur by (rewrite ?len_app; pose proof (len_nonneg lead); pose proof (len_nonneg name); try lia;
                            rewrite len_app in L6; lia).
    cbn [option_bind]. rewrite shift_c_cur. cbn [option_bind fst snd]. reflexivity. }
  assert (E6 : tk6 = lead ++ name ++ w1 ++ [61] ++ w2 ++ [q] ++ map ws2sp val ++ [q]).
  { unfold tk6, tk4. rewrite <- !app_assoc. reflexivity. }
  assert (E64 : tk6 = tk4 ++ ([q] ++ map ws2sp val ++ [q])).
  { unfold tk6. rewrite <- !app_assoc. reflexivity. }
  do 2 eexists.
  pose proof (steps_one _ _ _ _ Hnx ltac:(discriminate)) as S.
  unfold etok_of in S. cbn [xr xtext xattr] in S.
  rewrite obs_cur in S.
  assert (Ea : obs_sl (lbuf (cur (pre ++ tk6) [] R)) (Some (len pre + len tk4, len pre + len tk6))
               = Some ([q] ++ map ws2sp val ++ [q])).
  { rewrite E64. apply (obs_cur_in2 pre tk4 ([q] ++ map ws2sp val ++ [q]) R); [reflexivity|].
    rewrite len_app. lia. }
  rewrite Ea in S. clear Ea. rewrite E6 in S.
  rewrite (obs_cur_in pre lead name (w1 ++ [61] ++ w2 ++ [q] ++ map ws2sp val ++ [q]) R) in S
    by (rewrite ?len_app; lia).
  unfold sin, Y in *. rewrite <- !app_assoc. cbn [app] in *. exact S.
Qed.

(* a quoted value cut by the ?> of the processing instruction *)
Lemma scan_quoted_cut q val r : Forall (fun c => c <> q /\ c <> 0) val -> q = 34 \/ q = 39 -> no_pi_end val ->
  scan_quoted true q (val ++ 63 :: 62 :: r) = Some (len val).
Proof.
  intros Hv Hq. induction Hv as [|x v (Hx1 & Hx2) Hv IH]; intros Hn; cbn [app]; rewrite scan_quoted_step.
  - destruct (Z.eqb_spec 63 q); [lia|]. reflexivity.
  - destruct (Z.eqb_spec x q); [congruence|]. destruct (Z.eqb_spec x 0); [congruence|].
    assert (Ht : tag_end true x (v ++ 63 :: 62 :: r) = Some false).
    { rewrite tag_end_eq by (left; destruct v; discriminate).
      unfold tag_end_b. destruct (Z.eqb_spec x 63) as [->|]; [|reflexivity]. cbn [andb]. f_equal.
      destruct v as [|y v']; cbn [app]; rewrite getz_cons_0; [reflexivity|].
      destruct Hn as (Hn & _). destruct (Z.eqb_spec y 62); [exfalso; apply Hn; auto|reflexivity]. }
    rewrite Ht. cbn [option_bind orb]. rewrite IH.
    + cbn [option_bind]. rewrite len_cons. reflexivity.
    + destruct v; [exact I|]. destruct Hn as (_ & Hn). exact Hn.
Qed.

Lemma quoted_value_cut pre tk val q r : Forall (fun c => c <> q /\ c <> 0) val -> q = 34 \/ q = 39 -> no_pi_end val ->
  quoted_value true q (cur pre tk (val ++ 63 :: 62 :: r)) = Some (cur pre (tk ++ map ws2sp val) (63 :: 62 :: r)).
Proof.
  intros Hv Hq Hn. unfold quoted_value. rewrite suffix_cur.
  rewrite scan_quoted_cut by assumption. cbn [option_bind].
  rewrite quoted_norm_cur. rewrite pk_cur0. cbn [option_bind]. destruct (Z.eqb_spec 63 q); [lia|]. reflexivity.
Qed.

Lemma lex_gattr_cut pre lead name w1 w2 q val R tx ax :
  gattr_ok true (mkG lead name (VQuoCut w1 w2 q val)) R ->
  exists tx' ax', steps (sin true pre (render_gattr (mkG lead name (VQuoCut w1 w2 q val)) ++ R) tx ax)
                        [expect_gattr (mkG lead name (VQuoCut w1 w2 q val))]
                        (sin true (pre ++ norm_gattr (mkG lead name (VQuoCut w1 w2 q val))) R tx' ax').
Proof.
  intros (Hlw & Hw1 & Hw2 & Hne & Hn & Hq & Hv & Hnp & Hpi & (t & ER)). cbn [g_lead g_name g_val] in *. subst R.
  unfold render_gattr, expect_gattr, norm_gattr. cbn [g_lead g_name g_val render_gval norm_gval gval_obs].
  assert (Hq0 : q <> 0) by lia.
  set (tk4 := (((lead ++ name) ++ w1) ++ [61]) ++ w2).
  set (tk6 := (tk4 ++ [q]) ++ map ws2sp val).
  set (R := 63 :: 62 :: t). set (Y := w1 ++ 61 :: w2 ++ q :: val ++ R).
  assert (HY : Y <> []) by (unfold Y; destruct w1; discriminate).
  assert (EY : getz Y 0 = getz (w1 ++ [61]) 0) by (unfold Y; destruct w1; reflexivity).
  assert (Hdisp : exists c X', name ++ Y = c :: X' /\ is_ws c = false /\ c <> 0 /\
                   tag_end_b true c (getz X' 0) = false /\ ((c = 47 \/ c = 63) -> X' <> [])).
  { destruct name as [|c n'].
    - pose proof (Hne eq_refl) as Ew. exists 61, (w2 ++ q :: val ++ R). unfold Y. rewrite Ew. cbn [app].
      split; [reflexivity|]. split; [reflexivity|]. split; [lia|]. split; [reflexivity|]. intros [H|H]; discriminate.
    - exists c, (n' ++ Y). split; [reflexivity|]. pose proof (name_run_head _ _ _ _ _ Hn) as Hs.
      assert (E : match n' with [] => getz (w1 ++ [61]) 0 | c1 :: _ => c1 end = getz (n' ++ Y) 0)
        by (destruct n'; [cbn [app]; rewrite EY|]; reflexivity).
      rewrite E in Hs. destruct (stop_false_facts _ _ _ Hs) as (F1 & F2 & F3 & F4).
      split; [exact F1|]. split; [exact F2|]. split; [exact F4|]. intros Hc.
      destruct n'; [exact HY|discriminate]. }
  destruct Hdisp as (c & X' & EX & D1 & D2 & D3 & D4).
  assert (Hnx : next (sin true pre (lead ++ name ++ Y) tx ax) =
                Some (TAttribute, Some (len pre, len pre + len tk6),
                      mkX (cur (pre ++ tk6) [] R) false true true
                          (Some (len pre + len lead, len pre + len (lead ++ name)))
                          (Some (len pre + len tk4, len pre + len tk6)))).
  { rewrite EX. rewrite next_intag_attr by assumption. rewrite <- EX.
    unfold shift_attribute. rewrite suffix_cur.
    rewrite scan_name_run by (first [assumption | (rewrite EY; exact Hn) | (apply name_end_eq; exact Hw1)]).
    cbn [option_bind]. rewrite mv_cur by reflexivity. rewrite suffix_cur. unfold Y.
    rewrite (scan_while_app is_ws w1 61 _ Hw1 eq_refl). cbn [option_bind]. rewrite mv_cur by reflexivity.
    rewrite pk_cur0. cbn [option_bind]. change (61 =? 61) with true. cbv iota.
    rewrite mv_cur1. rewrite suffix_cur.
    rewrite (scan_while_app is_ws w2 q _ Hw2) by (apply is_ws_false_of; lia).
    cbn [option_bind]. rewrite mv_cur by reflexivity. fold tk4. rewrite pk_cur0. cbn [option_bind].
    replace ((q =? 34) || (q =? 39)) with true by lia.
    rewrite mv_cur1. unfold R. rewrite quoted_value_cut by assumption. cbn [option_bind]. fold tk6. fold R.
    rewrite !mark_cur.
    assert (L46 : len tk4 <= len tk6).
    { unfold tk6. rewrite !len_app. pose proof (len_nonneg (map ws2sp val)). change (len [q]) with 1. lia. }
    assert (L6 : len (lead ++ name) <= len tk6).
    { pose proof (len_nonneg w1). pose proof (len_nonneg w2). unfold tk4 in L46. rewrite !len_app in L46.
      rewrite len_app. change (len [61]) with 1 in L46. lia. }
    rewrite lex_sub_cur by (pose proof (len_nonneg tk4); lia). cbn [option_bind fst snd].
    rewrite lex_sub_cur by (rewrite ?len_app; pose proof (len_nonneg lead); pose proof (len_nonneg name); try lia;
                            rewrite len_app in L6; lia).
    cbn [option_bind]. rewrite shift_c_cur. cbn [option_bind fst snd]. reflexivity. }
  assert (E6 : tk6 = lead ++ name ++ w1 ++ [61] ++ w2 ++ [q] ++ map ws2sp val).
  { unfold tk6, tk4. rewrite <- !app_assoc. reflexivity. }
  assert (E64 : tk6 = tk4 ++ ([q] ++ map ws2sp val)).
  { unfold tk6. rewrite <- !app_assoc. reflexivity. }
  do 2 eexists.
  pose proof (steps_one _ _ _ _ Hnx ltac:(discriminate)) as S.
  unfold etok_of in S. cbn [xr xtext xattr] in S.
  rewrite obs_cur in S.
  assert (Ea : obs_sl (lbuf (cur (pre ++ tk6) [] R)) (Some (len pre + len tk4, len pre + len tk6))
               = Some ([q] ++ map ws2sp val)).
  { rewrite E64. apply (obs_cur_in2 pre tk4 ([q] ++ map ws2sp val) R); [reflexivity|].
    rewrite len_app. lia. }
  rewrite Ea in S. clear Ea. rewrite E6 in S.
  rewrite (obs_cur_in pre lead name (w1 ++ [61] ++ w2 ++ [q] ++ map ws2sp val) R) in S
    by (rewrite ?len_app; lia).
  unfold sin, Y in *. rewrite <- !app_assoc. cbn [app] in *. exact S.
Qed.

(* name = unquoted value *)
Lemma lex_gattr_unq pi pre lead name w1 w2 x R tx ax :
  gattr_ok pi (mkG lead name (VUnq w1 w2 x)) R ->
  exists tx' ax', steps (sin pi pre (render_gattr (mkG lead name (VUnq w1 w2 x)) ++ R) tx ax)
                        [expect_gattr (mkG lead name (VUnq w1 w2 x))]
                        (sin pi (pre ++ norm_gattr (mkG lead name (VUnq w1 w2 x))) R tx' ax').
Proof.
  intros (Hlw & Hw1 & Hw2 & Hne & Hn & Hx & HeR & Dws & D34 & D39). cbn [g_lead g_name g_val] in *.
  unfold render_gattr, expect_gattr, norm_gattr. cbn [g_lead g_name g_val render_gval norm_gval gval_obs].
  pose proof (name_end_nonnil _ _ _ HeR) as HR.
  set (tk4 := (((lead ++ name) ++ w1) ++ [61]) ++ w2).
  set (tk6 := tk4 ++ x).
  remember (x ++ R) as Z2 eqn:EZ2. destruct Z2 as [|d Z2']; [symmetry in EZ2; apply app_eq_nil in EZ2; destruct EZ2; congruence|].
  rewrite getz_cons_0 in *.
  set (Y := w1 ++ 61 :: w2 ++ d :: Z2').
  assert (HY : Y <> []) by (unfold Y; destruct w1; discriminate).
  assert (EY : getz Y 0 = getz (w1 ++ [61]) 0) by (unfold Y; destruct w1; reflexivity).
  assert (Hdisp : exists c X', name ++ Y = c :: X' /\ is_ws c = false /\ c <> 0 /\
                   tag_end_b pi c (getz X' 0) = false /\ ((c = 47 \/ c = 63) -> X' <> [])).
  { destruct name as [|c n'].
    - pose proof (Hne eq_refl) as Ew. exists 61, (w2 ++ d :: Z2'). unfold Y. rewrite Ew. cbn [app].
      split; [reflexivity|]. split; [reflexivity|]. split; [lia|]. split; [destruct pi; reflexivity|]. intros [H|H]; discriminate.
    - exists c, (n' ++ Y). split; [reflexivity|]. pose proof (name_run_head _ _ _ _ _ Hn) as Hs.
      assert (E : match n' with [] => getz (w1 ++ [61]) 0 | c1 :: _ => c1 end = getz (n' ++ Y) 0)
        by (destruct n'; [cbn [app]; rewrite EY|]; reflexivity).
      rewrite E in Hs. destruct (stop_false_facts _ _ _ Hs) as (F1 & F2 & F3 & F4).
      split; [exact F1|]. split; [exact F2|]. split; [exact F4|]. intros Hc.
      destruct n'; [exact HY|discriminate]. }
  destruct Hdisp as (c & X' & EX & E1 & E2 & E3 & E4).
  assert (Hnx : next (sin pi pre (lead ++ name ++ Y) tx ax) =
                Some (TAttribute, Some (len pre, len pre + len tk6),
                      mkX (cur (pre ++ tk6) [] R) false true pi
                          (Some (len pre + len lead, len pre + len (lead ++ name)))
                          (Some (len pre + len tk4, len pre + len tk6)))).
  { rewrite EX. rewrite next_intag_attr by assumption. rewrite <- EX.
    unfold shift_attribute. rewrite suffix_cur.
    rewrite scan_name_run by (first [assumption | (rewrite EY; exact Hn) | (apply name_end_eq; exact Hw1)]).
    cbn [option_bind]. rewrite mv_cur by reflexivity. rewrite suffix_cur. unfold Y.
    rewrite (scan_while_app is_ws w1 61 _ Hw1 eq_refl). cbn [option_bind]. rewrite mv_cur by reflexivity.
    rewrite pk_cur0. cbn [option_bind]. change (61 =? 61) with true. cbv iota.
    rewrite mv_cur1. rewrite suffix_cur.
    rewrite (scan_while_app is_ws w2 d _ Hw2 Dws).
    cbn [option_bind]. rewrite mv_cur by reflexivity. fold tk4. rewrite pk_cur0. cbn [option_bind].
    destruct (Z.eqb_spec d 34); [congruence|]. destruct (Z.eqb_spec d 39); [congruence|]. cbn [orb].
    rewrite suffix_cur. rewrite EZ2.
    rewrite scan_name_run by assumption. cbn [option_bind]. rewrite mv_cur by reflexivity. fold tk6.
    rewrite !mark_cur.
    assert (L46 : len tk4 <= len tk6) by (unfold tk6; rewrite len_app; pose proof (len_nonneg x); lia).
    assert (L6 : len (lead ++ name) <= len tk6).
    { pose proof (len_nonneg w1). pose proof (len_nonneg w2). unfold tk4 in L46. rewrite !len_app in L46.
      rewrite len_app. change (len [61]) with 1 in L46. lia. }
    rewrite lex_sub_cur by (pose proof (len_nonneg tk4); lia). cbn [option_bind fst snd].
    rewrite lex_sub_cur by (rewrite ?len_app; pose proof (len_nonneg lead); pose proof (len_nonneg name); try lia;
                            rewrite len_app in L6; lia).
    cbn [option_bind]. rewrite shift_c_cur. cbn [option_bind fst snd]. reflexivity. }
  assert (E6 : tk6 = lead ++ name ++ w1 ++ [61] ++ w2 ++ x).
  { unfold tk6, tk4. rewrite <- !app_assoc. reflexivity. }
  do 2 eexists.
  pose proof (steps_one _ _ _ _ Hnx ltac:(discriminate)) as S.
  unfold etok_of in S. cbn [xr xtext xattr] in S.
  rewrite obs_cur in S.
  assert (Ea : obs_sl (lbuf (cur (pre ++ tk6) [] R)) (Some (len pre + len tk4, len pre + len tk6)) = Some x).
  { unfold tk6. apply (obs_cur_in2 pre tk4 x R); [reflexivity|]. rewrite len_app. lia. }
  rewrite Ea in S. clear Ea. rewrite E6 in S.
  rewrite (obs_cur_in pre lead name (w1 ++ [61] ++ w2 ++ x) R) in S by (rewrite ?len_app; lia).
  unfold sin, Y in *. rewrite <- !app_assoc. cbn [app] in *. rewrite <- EZ2 in *. exact S.
Qed.

(* a name only: the whitespace after it is not part of the token *)
Lemma lex_gattr_none pi pre lead name R tx ax :
  gattr_ok pi (mkG lead name VNone) R ->
  exists tx' ax', steps (sin pi pre (render_gattr (mkG lead name VNone) ++ R) tx ax)
                        [expect_gattr (mkG lead name VNone)]
                        (sin pi (pre ++ norm_gattr (mkG lead name VNone)) R tx' ax').
Proof.
  intros (Hlw & Hnn & Hn & HeR & (w & c2 & t & ER & Hw & Hc2 & H61)). cbn [g_lead g_name g_val] in *.
  unfold render_gattr, expect_gattr, norm_gattr. cbn [g_lead g_name g_val render_gval norm_gval gval_obs].
  rewrite !app_nil_r.
  pose proof (name_end_nonnil _ _ _ HeR) as HR.
  destruct name as [|c n']; [congruence|].
  pose proof (name_run_head _ _ _ _ _ Hn) as Hs.
  assert (E : match n' with [] => getz R 0 | c1 :: _ => c1 end = getz (n' ++ R) 0) by (destruct n'; reflexivity).
  rewrite E in Hs. destruct (stop_false_facts _ _ _ Hs) as (F1 & F2 & F3 & F4).
  set (name := c :: n') in *.
  assert (Hnx : next (sin pi pre (lead ++ name ++ R) tx ax) =
                Some (TAttribute, Some (len pre, len pre + len (lead ++ name)),
                      mkX (cur (pre ++ lead ++ name) [] R) false true pi
                          (Some (len pre + len lead, len pre + len (lead ++ name))) None)).
  { unfold name at 1. cbn [app]. rewrite next_intag_attr; try assumption.
    2:{ intros Hc. destruct n'; [exact HR|discriminate]. }
    change (c :: n' ++ R) with (name ++ R).
    unfold shift_attribute. rewrite suffix_cur.
    rewrite scan_name_run by assumption. cbn [option_bind]. rewrite mv_cur by reflexivity. rewrite suffix_cur.
    rewrite ER. rewrite (scan_while_app is_ws w c2 t Hw Hc2). cbn [option_bind]. rewrite mv_cur by reflexivity.
    rewrite pk_cur0. cbn [option_bind]. destruct (Z.eqb_spec c2 61); [congruence|].
    rewrite !mark_cur. rewrite rewind_cur. cbn [option_bind fst snd].
    rewrite lex_sub_cur by (rewrite ?len_app; pose proof (len_nonneg lead); pose proof (len_nonneg name); lia).
    cbn [option_bind]. rewrite shift_c_cur. cbn [option_bind fst snd]. reflexivity. }
  do 2 eexists.
  pose proof (steps_one _ _ _ _ Hnx ltac:(discriminate)) as S.
  unfold etok_of in S. cbn [xr xtext xattr obs_sl] in S.
  assert (E1 : slice (lbuf (cur (pre ++ lead ++ name) [] R)) (len pre) (len pre + len (lead ++ name)) = lead ++ name).
  { pose proof (obs_cur pre (lead ++ name) R) as H. unfold obs_sl in H. injection H as H. exact H. }
  assert (E2 : slice (lbuf (cur (pre ++ lead ++ name) [] R)) (len pre + len lead) (len pre + len (lead ++ name)) = name).
  { pose proof (obs_cur_in2 pre lead name R (len pre + len lead) (len pre + len (lead ++ name)) eq_refl
                  ltac:(rewrite len_app; lia)) as H. unfold obs_sl in H. injection H as H. exact H. }
  rewrite E1, E2 in S. unfold sin. rewrite <- !app_assoc. exact S.
Qed.

Lemma lex_gattr pi pre a R tx ax : gattr_ok pi a R ->
  exists tx' ax', steps (sin pi pre (render_gattr a ++ R) tx ax) [expect_gattr a] (sin pi (pre ++ norm_gattr a) R tx' ax').
Proof.
  destruct a as [lead name [|w1 w2 x|w1 w2 q x|w1 w2 q x]]; [apply lex_gattr_none|apply lex_gattr_unq|apply lex_gattr_quo|].
  intros Hok. assert (pi = true) as -> by (destruct Hok as (_ & _ & _ & _ & _ & _ & _ & _ & Hp & _); exact Hp).
  apply lex_gattr_cut. exact Hok.
Qed.

Lemma next_not_eq_app rest r : next_not_eq rest -> next_not_eq (rest ++ r).
Proof.
  intros (w & c & t & -> & H1 & H2 & H3). exists w, c, (t ++ r). rewrite <- app_assoc. cbn [app]. auto.
Qed.

(* the side conditions only look at the beginning of what follows *)
Lemma gattr_ok_app pi a rest r : rest <> [] -> gattr_ok pi a rest -> gattr_ok pi a (rest ++ r).
Proof.
  intros Hne (Hl & Hv). split; [exact Hl|]. destruct (g_val a) as [|w1 w2 x|w1 w2 q x|w1 w2 q x].
  - destruct Hv as (H1 & H2 & H3 & H4). rewrite (getz_app_hd rest r) by exact Hne.
    repeat split; try assumption; [apply name_end_app; exact H3|apply next_not_eq_app; exact H4].
  - destruct Hv as (H1 & H2 & H3 & H4 & H5 & H6 & H7 & H8 & H9).
    rewrite (getz_app_hd rest r) by exact Hne. rewrite (app_assoc x rest r). rewrite (getz_app_hd (x ++ rest)) by (destruct x; [exact Hne|discriminate]).
    repeat split; try assumption. apply name_end_app; exact H6.
  - exact Hv.
  - destruct Hv as (H1 & H2 & H3 & H4 & H5 & H6 & H7 & H8 & (t & ->)). repeat split; try assumption. exists (t ++ r). reflexivity.
Qed.

Lemma lex_gattrs pi ps : forall pre tail r tx ax, tail <> [] -> gattrs_ok pi ps tail ->
  exists tx' ax', steps (sin pi pre (render_gattrs ps ++ tail ++ r) tx ax) (map expect_gattr ps)
                        (sin pi (pre ++ norm_gattrs ps) (tail ++ r) tx' ax').
Proof.
  induction ps as [|a ps IH]; intros pre tail r tx ax Ht Hok.
  - exists tx, ax. cbn [render_gattrs norm_gattrs map concat app]. rewrite app_nil_r. apply steps_nil.
  - destruct Hok as (Ha & Hrest).
    unfold render_gattrs, norm_gattrs. cbn [map concat]. rewrite <- app_assoc.
    assert (Ha' : gattr_ok pi a ((render_gattrs ps ++ tail) ++ r)).
    { apply gattr_ok_app; [|exact Ha]. intros E. apply app_eq_nil in E. destruct E as (_ & E). exact (Ht E). }
    rewrite <- app_assoc in Ha'.
    destruct (lex_gattr pi pre a _ tx ax Ha') as (tx1 & ax1 & S1).
    destruct (IH (pre ++ norm_gattr a) tail r tx1 ax1 Ht Hrest) as (tx2 & ax2 & S2).
    exists tx2, ax2. rewrite (app_assoc pre (norm_gattr a)).
    change (expect_gattr a :: map expect_gattr ps) with ([expect_gattr a] ++ map expect_gattr ps).
    eapply steps_app; [exact S1|]. unfold render_gattrs, norm_gattrs in S2. exact S2.
Qed.

(* ---- whole tags, items, documents ------------------------------------------------------------------------------------ *)
Lemma lex_attrs pi attrs : forall pre r tx ax, Forall attr_ok attrs ->
  (pi = true -> Forall (fun a => no_pi_end (a_val a)) attrs) ->
  exists tx' ax', steps (sin pi pre (render_attrs attrs ++ r) tx ax) (map expect_attr attrs)
                        (sin pi (pre ++ norm_attrs attrs) r tx' ax').
Proof.
  induction attrs as [|a attrs IH]; intros pre r tx ax Hok Hnp.
  - exists tx, ax. cbn [render_attrs norm_attrs map concat app]. rewrite app_nil_r. apply steps_nil.
  - inversion Hok as [|? ? Ha Hrest]; subst.
    unfold render_attrs, norm_attrs. cbn [map concat]. rewrite <- app_assoc.
    destruct (lex_attr pi pre a (concat (map render_attr attrs) ++ r) tx ax Ha) as (tx1 & ax1 & S1).
    { intros Hp. specialize (Hnp Hp). inversion Hnp; assumption. }
    destruct (IH (pre ++ norm_attr a) r tx1 ax1 Hrest) as (tx2 & ax2 & S2).
    { intros Hp. specialize (Hnp Hp). inversion Hnp; assumption. }
    exists tx2, ax2. rewrite (app_assoc pre (norm_attr a)).
    change (expect_attr a :: map expect_attr attrs) with ([expect_attr a] ++ map expect_attr attrs).
    eapply steps_app; [exact S1|]. unfold render_attrs, norm_attrs in S2. exact S2.
Qed.

Lemma lex_tag_rest pi pre attrs ws k r tx ax : Forall attr_ok attrs -> all_ws ws -> is_closer_ty k ->
  (pi = true -> k = TStartTagClosePI) -> (pi = true -> Forall (fun a => no_pi_end (a_val a)) attrs) ->
  steps (sin pi pre (render_attrs attrs ++ ws ++ closer_bytes k ++ r) tx ax)
        (map expect_attr attrs ++ [(k, Some (closer_bytes k), None, None)])
        (sout (pre ++ norm_attrs attrs ++ ws ++ closer_bytes k) r None).
Proof.
  intros Ha Hw Hk Hpi Hnp.
  destruct (lex_attrs pi attrs pre (ws ++ closer_bytes k ++ r) tx ax Ha Hnp) as (tx1 & ax1 & S1).
  eapply steps_app; [exact S1|].
  pose proof (lex_closer pi (pre ++ norm_attrs attrs) ws k r tx1 ax1 Hw Hk Hpi) as S2.
  rewrite <- app_assoc in S2. exact S2.
Qed.

Lemma render_nontext_head it : item_ok it -> is_text it = false -> exists r', render_item it = 60 :: r'.
Proof.
  destruct it as [t|b|b|ps|n attrs ws|n attrs ws void|n ws|pi n ps ws k]; cbn [is_text render_item]; intros _ H;
    try discriminate; try (eexists; reflexivity). destruct pi; eexists; reflexivity.
Qed.

Lemma lex_item it pre r tx : item_ok it ->
  (is_text it = true -> exists c r', r = c :: r' /\ (c = 60 \/ c = 0)) ->
  exists tx', steps (sout pre (render_item it ++ r) tx) (expect_item it) (sout (pre ++ norm_item it) r tx').
Proof.
  intros Hok Htxt. destruct it as [t|b|b|ps|n attrs ws|n attrs ws void|n ws|pi n gs ws k]; cbn [item_ok] in Hok;
    cbn [render_item norm_item expect_item].
  - destruct Hok as (Hne & Ht). destruct (Htxt eq_refl) as (c & r' & -> & Hc). apply lex_text; assumption.
  - destruct Hok as (Hz & Hno). rewrite <- !app_assoc. apply lex_comment; [assumption|].
    apply (no_closer_ppq 45 62); [lia|exact Hno].
  - destruct Hok as (Hz & Hno). rewrite <- !app_assoc. apply lex_cdata; [assumption|].
    apply (no_closer_ppq 93 62); [lia|exact Hno].
  - rewrite <- !app_assoc. apply lex_doctype; assumption.
  - destruct Hok as (Hn & Ha & Hw & Hnp). rewrite <- !app_assoc.
    change ([63; 62] ++ r) with (closer_bytes TStartTagClosePI ++ r).
    destruct (lex_pitarget pre n (render_attrs attrs ++ ws ++ closer_bytes TStartTagClosePI ++ r) tx Hn) as (tx1 & S1).
    { apply name_end_tag_rest; unfold is_closer_ty; auto. }
    exists None.
    change ((TStartTagPI, Some ([60; 63] ++ n), Some n, None) :: map expect_attr attrs ++ [(TStartTagClosePI, Some [63; 62], None, None)])
      with ([(TStartTagPI, Some ([60; 63] ++ n), Some n, None)] ++ (map expect_attr attrs ++ [(TStartTagClosePI, Some (closer_bytes TStartTagClosePI), None, None)])).
    eapply steps_app; [exact S1|].
    pose proof (lex_tag_rest true (pre ++ [60; 63] ++ n) attrs ws TStartTagClosePI r tx1 None Ha Hw ltac:(unfold is_closer_ty; auto) ltac:(auto) ltac:(auto)) as S2.
    rewrite <- !app_assoc in S2. exact S2.
  - destruct Hok as (Hn & H33 & Ha & Hw). rewrite <- !app_assoc.
    set (k := if void then TStartTagCloseVoid else TStartTagClose).
    assert (Hk : is_closer_ty k) by (unfold is_closer_ty, k; destruct void; auto).
    assert (Ek : (if void then [47; 62] else [62]) = closer_bytes k) by (unfold k; destruct void; reflexivity).
    rewrite Ek.
    destruct (lex_starttag pre n (render_attrs attrs ++ ws ++ closer_bytes k ++ r) tx Hn H33) as (tx1 & S1).
    { apply name_end_tag_rest; try assumption. discriminate. }
    exists None.
    assert (Ee : (if void then (TStartTagCloseVoid, Some [47; 62], None, None) else (TStartTagClose, Some [62], None, None))
                 = ((k, Some (closer_bytes k), None, None) : etok)) by (unfold k; destruct void; reflexivity).
    rewrite Ee.
    change ((TStartTag, Some ([60] ++ n), Some n, None) :: map expect_attr attrs ++ [(k, Some (closer_bytes k), None, None)])
      with ([(TStartTag, Some ([60] ++ n), Some n, None)] ++ (map expect_attr attrs ++ [(k, Some (closer_bytes k), None, None)])).
    eapply steps_app; [exact S1|].
    pose proof (lex_tag_rest false (pre ++ [60] ++ n) attrs ws k r tx1 None Ha Hw Hk ltac:(discriminate) ltac:(discriminate)) as S2.
    rewrite <- !app_assoc in S2. exact S2.
  - destruct Hok as (Hn & Hw). rewrite <- !app_assoc. apply lex_endtag; assumption.
  - destruct Hok as (Hn & H33 & Hw & Hk & Hpi & Hgs & Hend).
    assert (Htail : ws ++ closer_bytes k <> []).
    { intros E. apply app_eq_nil in E. destruct E as (_ & E). destruct Hk as [->|[->| ->]]; discriminate. }
    assert (Hend' : name_end pi false (render_gattrs gs ++ (ws ++ closer_bytes k) ++ r)).
    { pose proof (name_end_app pi false _ r Hend) as H. rewrite <- !app_assoc in H. rewrite <- app_assoc. exact H. }
    assert (Hopen : exists tx1, steps (sout pre (((if pi then [60; 63] else [60]) ++ n) ++ render_gattrs gs ++ (ws ++ closer_bytes k) ++ r) tx)
                      [((if pi then TStartTagPI else TStartTag), Some ((if pi then [60; 63] else [60]) ++ n), Some n, None)]
                      (sin pi (pre ++ (if pi then [60; 63] else [60]) ++ n) (render_gattrs gs ++ (ws ++ closer_bytes k) ++ r) tx1 None)).
    { destruct pi; rewrite <- app_assoc.
      - apply lex_pitarget; assumption.
      - apply lex_starttag; [assumption|apply H33; reflexivity|assumption]. }
    destruct Hopen as (tx1 & S1).
    destruct (lex_gattrs pi gs (pre ++ (if pi then [60; 63] else [60]) ++ n) (ws ++ closer_bytes k) r tx1 None Htail Hgs) as (tx2 & ax2 & S2).
    pose proof (lex_closer pi ((pre ++ (if pi then [60; 63] else [60]) ++ n) ++ norm_gattrs gs) ws k r tx2 ax2 Hw Hk Hpi) as S3.
    exists None.
    replace (((if pi then [60; 63] else [60]) ++ n ++ render_gattrs gs ++ ws ++ closer_bytes k) ++ r)
      with (((if pi then [60; 63] else [60]) ++ n) ++ render_gattrs gs ++ (ws ++ closer_bytes k) ++ r)
      by (rewrite <- !app_assoc; reflexivity).
    replace (pre ++ (if pi then [60; 63] else [60]) ++ n ++ norm_gattrs gs ++ ws ++ closer_bytes k)
      with (((pre ++ (if pi then [60; 63] else [60]) ++ n) ++ norm_gattrs gs) ++ ws ++ closer_bytes k)
      by (rewrite <- !app_assoc; reflexivity).
    change (((if pi then TStartTagPI else TStartTag), Some ((if pi then [60; 63] else [60]) ++ n), Some n, None)
            :: map expect_gattr gs ++ [(k, Some (closer_bytes k), None, None)])
      with ([((if pi then TStartTagPI else TStartTag), Some ((if pi then [60; 63] else [60]) ++ n), Some n, None)]
            ++ (map expect_gattr gs ++ [(k, Some (closer_bytes k), None, None)])).
    eapply steps_app; [exact S1|]. eapply steps_app; [exact S2|].
    rewrite <- (app_assoc ws (closer_bytes k) r). exact S3.
Qed.

(* the terminal report at the end of the input is io.EOF *)
Lemma lex_eof pre tx : lexes (sout pre [0] tx) [] 1.
Proof.
  assert (Hn : next (sout pre [0] tx) = Some (TError, None, mkX (cur pre [] [0]) false false false None None)).
  { unfold sout, next. cbn [xin xpi xr xerr xattr xtext]. rewrite suffix_cur.
    change (scan_while (until 60) [0]) with (Some 0). cbn [option_bind]. rewrite mv_cur0, pk_cur0.
    cbn [option_bind]. rewrite mark_cur. change (len (@nil Z)) with 0. change (0 <? 0) with false.
    change (0 =? 60) with false. cbv iota. unfold null_err. rewrite at_end_cur_end. reflexivity. }
  pose proof (lexes_end _ _ _ Hn) as L. unfold xml_err in L. cbn [xerr xr] in L.
  rewrite at_end_cur_end in L. exact L.
Qed.

Lemma lex_doc items : forall pre tx, doc_ok items ->
  lexes (sout pre (render_doc items ++ [0]) tx) (expect_doc items) 1.
Proof.
  induction items as [|it rest IH]; intros pre tx (Hok & Hadj).
  - cbn [render_doc expect_doc map concat app]. apply lex_eof.
  - inversion Hok as [|? ? Hit Hrest]; subst.
    unfold render_doc, expect_doc. cbn [map concat]. rewrite <- app_assoc.
    destruct (lex_item it pre (concat (map render_item rest) ++ [0]) tx Hit) as (tx1 & S1).
    { intros Htx. destruct rest as [|b rest'].
      - cbn [map concat app]. exists 0, []. auto.
      - destruct Hadj as (Hab & _). inversion Hrest as [|? ? Hb _]; subst.
        destruct (render_nontext_head b Hb (Hab Htx)) as (r' & Er). cbn [map concat]. rewrite Er. cbn [app].
        eexists _, _. split; [reflexivity|left; reflexivity]. }
    eapply lexes_steps; [exact S1|]. apply IH. split; [exact Hrest|].
    destruct rest as [|b rest']; [exact I|]. destruct Hadj as (_ & Hadj). exact Hadj.
Qed.

Theorem xml_wellformed_tokens_proof : forall items, doc_ok items ->
  lexes (xml_init (render_doc items)) (expect_doc items) 1.
Proof. intros items Hok. apply (lex_doc items [] None Hok). Qed.

(* ---- non-vacuity: a document of the grammar ------------------------------------------------------------------------- *)
(* prolog; DOCTYPE a with an internal subset holding an ENTITY declaration (literal x>y), a comment whose body
   is  ] dquote  and a PI  p ]'>  ; start tag a with b='c TAB d' and e = f; comment; CDATA ]]; text; empty
   element; text; end tag.  (doc_ok of it is proved in Xml/Checker.v by evaluating the executable check) *)
Definition ex_items : list item :=
  [ IPI [120; 109; 108] [mkAttr [32] [118; 101; 114; 115; 105; 111; 110] [] [] 34 [49; 46; 48]] [];
    IDoctype (map DChar [32; 97; 32] ++
              [DSub ([DILt [33; 69]] ++ map DIChar [78; 84; 73; 84; 89; 32; 101; 32] ++ [DIStr [120; 62; 121]] ++ [DIChar 62] ++
                     [DIComment [32; 93; 34; 32]] ++ [DIPI [112; 32; 93; 39; 62]])]);
    IStart [97] [mkAttr [32] [98] [] [] 39 [99; 9; 100]; mkAttr [32] [101] [32] [32] 34 [102]] [] false;
    IComment [32; 99; 32];
    ICdata [93; 93];
    IText [116];
    IStart [101] [] [32] true;
    IText [117];
    IEnd [97] [32] ].

Example ex_items_bytes :
  render_doc ex_items =
  [60; 63; 120; 109; 108; 32; 118; 101; 114; 115; 105; 111; 110; 61; 34; 49; 46; 48; 34; 63; 62; 60; 33; 68; 79; 67; 84; 89; 80; 69; 32; 97; 32; 91; 60; 33; 69; 78; 84; 73; 84; 89; 32; 101; 32; 34; 120; 62; 121; 34; 62; 60; 33; 45; 45; 32; 93; 34; 32; 45; 45; 62; 60; 63; 112; 32; 93; 39; 62; 63; 62; 93; 62; 60; 97; 32; 98; 61; 39; 99; 9; 100; 39; 32; 101; 32; 61; 32; 34; 102; 34; 62; 60; 33; 45; 45; 32; 99; 32; 45; 45; 62; 60; 33; 91; 67; 68; 65; 84; 65; 91; 93; 93; 93; 93; 62; 116; 60; 101; 32; 47; 62; 117; 60; 47; 97; 32; 62].
Proof. vm_compute. reflexivity. Qed.

Example ex_items_tokens : map (fun t => fst (fst (fst t))) (expect_doc ex_items) =
  [TStartTagPI; TAttribute; TStartTagClosePI; TDoctype; TStartTag; TAttribute; TAttribute; TStartTagClose;
   TComment; TCdata; TText; TStartTag; TStartTagCloseVoid; TText; TEndTag].
Proof. vm_compute. reflexivity. Qed.

(* ---- constructs of XML 1.0 on which the lexer's rules are simpler than the grammar's: witnesses ---------------- *)
(* <!DOCTYPE a SYSTEM 'x>y'><a/> : before the fix b994372 of /repo the DOCTYPE token ended at the '>' inside
   the single-quoted literal; now the document is in the grammar *)
Definition ex_doctype_squote : list Z :=
  [60; 33; 68; 79; 67; 84; 89; 80; 69; 32; 97; 32; 83; 89; 83; 84; 69; 77; 32; 39; 120; 62; 121; 39; 62; 60; 97; 47; 62].

Definition ex_squote_items : list item :=
  [ IDoctype (map DChar [32; 97; 32; 83; 89; 83; 84; 69; 77; 32] ++ [DStrS [120; 62; 121]]); IStart [97] [] [] true ].

Example ex_squote_items_bytes : render_doc ex_squote_items = ex_doctype_squote.
Proof. vm_compute. reflexivity. Qed.

(* <!DOCTYPE a PUBLIC 'p"[' "it's" [<!ENTITY e ']">['>]><a/> : both quote styles, each containing the other
   quote, brackets and '>' *)
Definition ex_squote_items2 : list item :=
  [ IDoctype (map DChar [32; 97; 32; 80; 85; 66; 76; 73; 67; 32] ++ [DStrS [112; 34; 91]] ++ [DChar 32] ++
              [DStr [105; 116; 39; 115]] ++ [DChar 32] ++
              [DSub ([DILt [33; 69]] ++ map DIChar [78; 84; 73; 84; 89; 32; 101; 32] ++ [DIStrS [93; 34; 62; 91]] ++ [DIChar 62])]);
    IStart [97] [] [] true ].

(* <?p a>b?><a/> : before the fix 2f59676 of /repo the '>' closed the instruction like a start tag; now only
   ?> does, and a>b is one piece *)
Definition ex_pi_gt : list Z := [60; 63; 112; 32; 97; 62; 98; 63; 62; 60; 97; 47; 62].
