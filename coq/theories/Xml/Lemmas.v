(* Xml/Lemmas.v — list, cursor and scanning-loop lemmas used by the proofs about the XML lexer model. *)
From Verif Require Import Common.Base Common.Tactics Common.Lx Xml.Model.
From Coq Require Import ZifyBool.

(* ---- getz ------------------------------------------------------------------------------------ *)
Lemma getz_nth l i : 0 <= i -> getz l i = nth (Z.to_nat i) l 0.
Proof.
  intros H. unfold getz, peekz.
  destruct (Z.leb_spec 0 i) as [_|]; [|lia].
  destruct (Z.ltb_spec i (len l)) as [H2|H2]; cbn [andb].
  - destruct (nth_error l (Z.to_nat i)) eqn:E.
    + symmetry. apply nth_error_nth. exact E.
    + apply nth_error_None in E. unfold len in H2. lia.
  - symmetry. apply nth_overflow. unfold len in H2. lia.
Qed.

Lemma getz_neg l i : i < 0 -> getz l i = 0.
Proof.
  intros H. unfold getz, peekz. destruct (Z.leb_spec 0 i); [lia|]. reflexivity.
Qed.

Lemma getz_overflow l i : len l <= i -> getz l i = 0.
Proof.
  intros H. unfold getz, peekz. destruct (Z.ltb_spec i (len l)); [lia|].
  rewrite andb_false_r. reflexivity.
Qed.

Lemma getz_cons_0 c t : getz (c :: t) 0 = c.
Proof. reflexivity. Qed.

Lemma getz_cons_pos c t i : 0 < i -> getz (c :: t) i = getz t (i - 1).
Proof.
  intros H. rewrite !getz_nth by lia.
  replace (Z.to_nat i) with (S (Z.to_nat (i - 1))) by lia. reflexivity.
Qed.

Lemma getz_cons_succ c t i : 0 <= i -> getz (c :: t) (1 + i) = getz t i.
Proof. intros H. rewrite getz_cons_pos by lia. f_equal. lia. Qed.

Lemma nth_skipn_add {A} (l : list A) m n d : nth n (skipn m l) d = nth (m + n) l d.
Proof.
  revert l. induction m as [|m IH]; intros l; [reflexivity|].
  destruct l as [|x l]; [destruct n; reflexivity|]. cbn [skipn plus nth]. apply IH.
Qed.

Lemma getz_skipz l p i : 0 <= p -> 0 <= i -> getz (skipz p l) i = getz l (p + i).
Proof.
  intros Hp Hi. rewrite !getz_nth by lia. unfold skipz. rewrite nth_skipn_add. f_equal. lia.
Qed.

Lemma getz_app1 a b i : i < len a -> getz (a ++ b) i = getz a i.
Proof.
  intros H. destruct (Z.ltb_spec i 0) as [Hn|Hn].
  - rewrite !getz_neg by lia. reflexivity.
  - apply getz_app_l. lia.
Qed.

Lemma getz_app2 a b i : len a <= i -> getz (a ++ b) i = getz b (i - len a).
Proof.
  intros H. pose proof (len_nonneg a). rewrite !getz_nth by lia.
  rewrite app_nth2 by (unfold len in *; lia). f_equal. unfold len. lia.
Qed.

Lemma getz_sentinel b : getz (b ++ [0]) (len b) = 0.
Proof. rewrite getz_app2 by lia. replace (len b - len b) with 0 by lia. reflexivity. Qed.

Lemma peekz_getz l i : 0 <= i < len l -> peekz l i = Some (getz l i).
Proof.
  intros H. unfold getz. destruct (peekz_in_range l i H) as [c Hc]. rewrite Hc. reflexivity.
Qed.

Lemma len_skipz_le {A} n (l : list A) : 0 <= n <= len l -> len (skipz n l) = len l - n.
Proof. apply len_skipz. Qed.

Lemma skipz_app_le {A} n (a b : list A) : 0 <= n <= len a -> skipz n (a ++ b) = skipz n a ++ b.
Proof.
  intros H. unfold skipz, len in *. rewrite skipn_app.
  replace (Z.to_nat n - length a)%nat with 0%nat by lia. reflexivity.
Qed.

Lemma skipz_0 {A} (l : list A) : skipz 0 l = l.
Proof. reflexivity. Qed.

Lemma skipn_skipn' {A} a b (l : list A) : skipn a (skipn b l) = skipn (b + a) l.
Proof.
  revert l. induction b as [|b IH]; intros l; [reflexivity|].
  destruct l as [|x l]; [cbn; apply skipn_nil|]. cbn [skipn plus]. apply IH.
Qed.

Lemma skipz_skipz {A} a b (l : list A) : 0 <= a -> 0 <= b -> skipz a (skipz b l) = skipz (b + a) l.
Proof.
  intros Ha Hb. unfold skipz. rewrite skipn_skipn'. f_equal. lia.
Qed.

(* ---- the cursor -------------------------------------------------------------------------------- *)
Lemma wf_buf z : lx_wf z -> exists b, lbuf z = b ++ [0] /\ len b = lx_len z.
Proof.
  intros ((b & Hb) & _). exists b. split; [exact Hb|]. unfold lx_len. rewrite Hb, len_app.
  change (len [0]) with 1. lia.
Qed.

Lemma wf_range z : lx_wf z -> 0 <= lstart z <= lpos z /\ lpos z <= lx_len z.
Proof. intros (_ & H). exact H. Qed.

Lemma wf_sentinel z : lx_wf z -> getz (lbuf z) (lx_len z) = 0.
Proof.
  intros H. destruct (wf_buf z H) as (b & Hb & Hl). rewrite Hb, <- Hl. apply getz_sentinel.
Qed.

Lemma nz_lt z j : lx_wf z -> j <= lx_len z -> getz (lbuf z) j <> 0 -> j < lx_len z.
Proof.
  intros H Hj Hn. destruct (Z.eq_dec j (lx_len z)) as [->|]; [|lia].
  rewrite wf_sentinel in Hn by assumption. congruence.
Qed.

Lemma wf_suffix z : lx_wf z -> exists a, suffix z = a ++ [0] /\ len a = lx_len z - lpos z.
Proof.
  intros H. destruct (wf_buf z H) as (b & Hb & Hl). pose proof (wf_range z H) as Hr.
  exists (skipz (lpos z) b). unfold suffix. rewrite Hb. split.
  - apply skipz_app_le. lia.
  - rewrite len_skipz by lia. lia.
Qed.

Lemma getz_suffix z i : 0 <= lpos z -> 0 <= i -> getz (suffix z) i = getz (lbuf z) (lpos z + i).
Proof. intros. unfold suffix. apply getz_skipz; assumption. Qed.

Lemma len_suffix z : lx_wf z -> len (suffix z) = lx_len z + 1 - lpos z.
Proof.
  intros H. destruct (wf_suffix z H) as (a & Ha & Hl). rewrite Ha, len_app. change (len [0]) with 1. lia.
Qed.

Lemma pk_getz z i : lx_wf z -> 0 <= lpos z + i <= lx_len z -> pk z i = Some (getz (lbuf z) (lpos z + i)).
Proof.
  intros H Hr. unfold pk. apply peekz_getz. unfold lx_len in Hr. lia.
Qed.

Lemma suffix_mv z n : suffix (mv z n) = skipz (lpos z + n) (lbuf z).
Proof. reflexivity. Qed.

(* ---- bind ---------------------------------------------------------------------------------------- *)
(* reduce option_bind / fst / snd on constructors without touching arithmetic *)
Ltac bsimpl_in H := unfold option_bind in H; cbv beta iota in H; unfold fst, snd in H; cbv beta iota in H.
Lemma some_pair_inj {A B} (a c : A) (b d : B) : Some (a, b) = Some (c, d) -> c = a /\ d = b.
Proof. intros H. split; congruence. Qed.
(* injection may normalise 1 + m: use this instead *)
Ltac spinj H := apply some_pair_inj in H; destruct H as [-> ->].
Ltac bsimpl := unfold option_bind; cbv beta iota; unfold fst, snd; cbv beta iota.

Lemma bind_some {A B} (e : option A) (f : A -> option B) a : e = Some a -> option_bind e f = f a.
Proof. intros ->. reflexivity. Qed.

(* ---- scan_while ------------------------------------------------------------------------------------ *)
Lemma scan_while_spec p l n : scan_while p l = Some n ->
  0 <= n < len l /\ (forall i, 0 <= i < n -> p (getz l i) = true) /\ p (getz l n) = false.
Proof.
  revert n. induction l as [|c t IH]; intros n H; cbn [scan_while] in H; [discriminate|].
  rewrite len_cons. destruct (p c) eqn:Hc.
  - destruct (scan_while p t) as [m|] eqn:Hm; [|discriminate].
    assert (n = 1 + m) by congruence. subst n. destruct (IH m eq_refl) as (H1 & H2 & H3).
    split; [lia|]. split.
    + intros i Hi. destruct (Z.eq_dec i 0) as [->|]; [exact Hc|].
      rewrite getz_cons_pos by lia. apply H2. lia.
    + rewrite getz_cons_succ by lia. exact H3.
  - assert (n = 0) by congruence. subst n. pose proof (len_nonneg t).
    split; [lia|]. split; [intros; lia|]. exact Hc.
Qed.

(* on a well-formed cursor a loop whose condition rejects 0 stops inside the buffer *)
Lemma scan_while_lx p z : lx_wf z -> p 0 = false ->
  exists n, scan_while p (suffix z) = Some n /\ 0 <= n /\ lpos z + n <= lx_len z /\
    (forall i, lpos z <= i < lpos z + n -> p (getz (lbuf z) i) = true) /\
    p (getz (lbuf z) (lpos z + n)) = false.
Proof.
  intros H Hp. destruct (wf_suffix z H) as (a & Ha & Hl). pose proof (wf_range z H) as Hr.
  destruct (scan_while_total p a Hp) as (n & Hn). rewrite <- Ha in Hn.
  exists n. split; [exact Hn|]. destruct (scan_while_spec _ _ _ Hn) as (H1 & H2 & H3).
  rewrite len_suffix in H1 by assumption.
  split; [lia|]. split; [lia|]. split.
  - intros i Hi. specialize (H2 (i - lpos z)). rewrite getz_suffix in H2 by lia.
    replace (lpos z + (i - lpos z)) with i in H2 by lia. apply H2. lia.
  - rewrite getz_suffix in H3 by lia. exact H3.
Qed.

(* ---- at_l ------------------------------------------------------------------------------------------ *)
Definition nzl (pat : list Z) : Prop := Forall (fun p => p <> 0) pat.

Lemma nzl_getz pat j : nzl pat -> 0 <= j < len pat -> getz pat j <> 0.
Proof.
  revert j. induction pat as [|p pt IH]; intros j H Hj.
  - change (len (@nil Z)) with 0 in Hj. lia.
  - inversion H; subst. destruct (Z.eq_dec j 0) as [->|]; [exact H2|].
    rewrite getz_cons_pos by lia. apply IH; [assumption|]. rewrite len_cons in Hj. lia.
Qed.

Lemma at_l_true pat l : at_l pat l = Some true ->
  len pat <= len l /\ forall j, 0 <= j < len pat -> getz l j = getz pat j.
Proof.
  revert l. induction pat as [|p pt IH]; intros l H.
  - change (len (@nil Z)) with 0. split; [apply len_nonneg|intros; lia].
  - cbn [at_l] in H. destruct l as [|c t]; [discriminate|].
    destruct (Z.eqb_spec c p) as [->|]; [|discriminate].
    destruct (IH t H) as (H1 & H2). rewrite !len_cons. split; [lia|].
    intros j Hj. destruct (Z.eq_dec j 0) as [->|]; [reflexivity|].
    rewrite !getz_cons_pos by lia. apply H2. lia.
Qed.

Lemma at_l_total pat a : nzl pat -> exists b, at_l pat (a ++ [0]) = Some b.
Proof.
  intros H. revert a. induction H as [|p pt Hp Hpt IH]; intros a; [cbn; eauto|].
  destruct a as [|c a]; cbn [app at_l].
  - destruct (Z.eqb_spec 0 p); [congruence|eauto].
  - destruct (c =? p); [apply IH|eauto].
Qed.

Lemma at_l_lx pat z : lx_wf z -> nzl pat ->
  exists b, at_l pat (suffix z) = Some b /\
    (b = true -> lpos z + len pat <= lx_len z /\
                 forall j, 0 <= j < len pat -> getz (lbuf z) (lpos z + j) = getz pat j).
Proof.
  intros H Hp. destruct (wf_suffix z H) as (a & Ha & Hl). pose proof (wf_range z H) as Hr.
  destruct (at_l_total pat a Hp) as (b & Hb). rewrite <- Ha in Hb. exists b. split; [exact Hb|].
  intros ->. destruct (at_l_true _ _ Hb) as (H1 & H2). rewrite len_suffix in H1 by assumption.
  assert (H3 : forall j, 0 <= j < len pat -> getz (lbuf z) (lpos z + j) = getz pat j).
  { intros j Hj. rewrite <- getz_suffix by lia. apply H2. exact Hj. }
  split; [|exact H3].
  destruct (Z.eq_dec (len pat) (lx_len z + 1 - lpos z)) as [E|]; [|lia].
  exfalso. pose proof (len_nonneg pat).
  assert (Hz : getz pat (len pat - 1) <> 0) by (apply nzl_getz; [assumption|lia]).
  rewrite <- H3 in Hz by lia. replace (lpos z + (len pat - 1)) with (lx_len z) in Hz by lia.
  rewrite wf_sentinel in Hz by assumption. congruence.
Qed.

(* ---- scan_name ------------------------------------------------------------------------------------ *)
(* l.atTagEnd on the byte c and the byte c1 after it *)
Definition tag_end_b (pi : bool) (c c1 : Z) : bool :=
  if pi then (c =? 63) && (c1 =? 62)
  else (c =? 62) || (((c =? 47) || (c =? 63)) && (c1 =? 62)).

(* the stop condition of the three name loops, on the byte c and the byte c1 after it *)
Definition name_stop (pi eq : bool) (c c1 : Z) : bool :=
  (c =? 32) || (eq && (c =? 61)) || tag_end_b pi c c1 || (c =? 9) || (c =? 10) || (c =? 13) || (c =? 0).

Lemma name_stop_false_nz pi eq c c1 : name_stop pi eq c c1 = false -> c <> 0.
Proof. unfold name_stop. intros H ->. rewrite !orb_false_iff in H. cbn in H. intuition discriminate. Qed.

Lemma tag_end_spec pi c t b : tag_end pi c t = Some b -> b = tag_end_b pi c (getz t 0).
Proof.
  unfold tag_end, tag_end_b. destruct pi.
  - destruct (c =? 63); [|intros H; injection H as <-; reflexivity].
    destruct t as [|c1 t']; [discriminate|]. intros H. injection H as <-. reflexivity.
  - destruct (c =? 62); [intros H; injection H as <-; reflexivity|].
    destruct ((c =? 47) || (c =? 63)); [|intros H; injection H as <-; reflexivity].
    destruct t as [|c1 t']; [discriminate|]. intros H. injection H as <-. reflexivity.
Qed.

Lemma tag_end_total pi c t : t <> [] -> exists b, tag_end pi c t = Some b.
Proof.
  intros Ht. destruct t as [|c1 t']; [congruence|]. unfold tag_end.
  destruct pi; [destruct (c =? 63); eauto|]. destruct (c =? 62); [eauto|]. destruct ((c =? 47) || (c =? 63)); eauto.
Qed.

Lemma scan_name_step pi eq c t :
  scan_name pi eq (c :: t) =
  (te <- tag_end pi c t ;;
   if (c =? 32) || (eq && (c =? 61)) || te || (c =? 9) || (c =? 10) || (c =? 13) || (c =? 0)
   then Some 0 else n <- scan_name pi eq t ;; Some (1 + n)).
Proof. reflexivity. Qed.

Lemma scan_name_spec pi eq l n : scan_name pi eq l = Some n ->
  0 <= n < len l /\
  (forall i, 0 <= i < n -> name_stop pi eq (getz l i) (getz l (i + 1)) = false) /\
  name_stop pi eq (getz l n) (getz l (n + 1)) = true.
Proof.
  revert n. induction l as [|c t IH]; intros n H; [discriminate|].
  rewrite scan_name_step in H. rewrite len_cons. pose proof (len_nonneg t).
  destruct (tag_end pi c t) as [te|] eqn:Hte; [|discriminate]. cbn [option_bind] in H.
  apply tag_end_spec in Hte.
  assert (Hst : name_stop pi eq c (getz t 0) =
                ((c =? 32) || (eq && (c =? 61)) || te || (c =? 9) || (c =? 10) || (c =? 13) || (c =? 0)))
    by (unfold name_stop; rewrite Hte; reflexivity).
  rewrite <- Hst in H.
  destruct (name_stop pi eq c (getz t 0)) eqn:Hs.
  - assert (n = 0) by congruence. subst n. split; [lia|]. split; [intros; lia|].
    rewrite getz_cons_0. replace (0 + 1) with (1 + 0) by lia. rewrite getz_cons_succ by lia. exact Hs.
  - destruct (scan_name pi eq t) as [m|] eqn:Hm; [|discriminate]. cbn [option_bind] in H.
    assert (n = 1 + m) by congruence. subst n. destruct (IH m eq_refl) as (H1 & H2 & H3).
    split; [lia|]. split.
    + intros i Hi. destruct (Z.eq_dec i 0) as [->|].
      * rewrite getz_cons_0. replace (0 + 1) with (1 + 0) by lia. rewrite getz_cons_succ by lia. exact Hs.
      * rewrite (getz_cons_pos c t i) by lia. rewrite (getz_cons_pos c t (i + 1)) by lia.
        replace (i + 1 - 1) with (i - 1 + 1) by lia. apply H2. lia.
    + rewrite getz_cons_succ by lia. replace (1 + m + 1) with (1 + (m + 1)) by lia.
      rewrite getz_cons_succ by lia. exact H3.
Qed.

Lemma scan_name_total pi eq a : exists n, scan_name pi eq (a ++ [0]) = Some n.
Proof.
  induction a as [|c a (n & IH)]; cbn [app]; rewrite scan_name_step.
  - unfold tag_end. change (0 =? 63) with false. change (0 =? 62) with false. change (0 =? 47) with false.
    cbn [orb]. destruct pi; cbn [option_bind]; change (0 =? 0) with true; rewrite !orb_true_r; eauto.
  - destruct (tag_end_total pi c (a ++ [0])) as (te & Hte); [destruct a; discriminate|].
    rewrite Hte. cbn [option_bind]. rewrite IH. cbn [option_bind].
    destruct ((c =? 32) || (eq && (c =? 61)) || te || (c =? 9) || (c =? 10) || (c =? 13) || (c =? 0)); eauto.
Qed.

Lemma scan_name_lx pi eq z : lx_wf z ->
  exists n, scan_name pi eq (suffix z) = Some n /\ 0 <= n /\ lpos z + n <= lx_len z /\
    (forall i, lpos z <= i < lpos z + n -> name_stop pi eq (getz (lbuf z) i) (getz (lbuf z) (i + 1)) = false) /\
    name_stop pi eq (getz (lbuf z) (lpos z + n)) (getz (lbuf z) (lpos z + n + 1)) = true.
Proof.
  intros H. destruct (wf_suffix z H) as (a & Ha & Hl). pose proof (wf_range z H) as Hr.
  destruct (scan_name_total pi eq a) as (n & Hn). rewrite <- Ha in Hn. exists n. split; [exact Hn|].
  destruct (scan_name_spec _ _ _ _ Hn) as (H1 & H2 & H3). rewrite len_suffix in H1 by assumption.
  split; [lia|]. split; [lia|]. split.
  - intros i Hi. specialize (H2 (i - lpos z)). rewrite !getz_suffix in H2 by lia.
    replace (lpos z + (i - lpos z)) with i in H2 by lia.
    replace (lpos z + (i - lpos z + 1)) with (i + 1) in H2 by lia. apply H2. lia.
  - rewrite !getz_suffix in H3 by lia. replace (lpos z + (n + 1)) with (lpos z + n + 1) in H3 by lia. exact H3.
Qed.

(* ---- scan_quoted ---------------------------------------------------------------------------------- *)
Lemma scan_quoted_step pi delim c t :
  scan_quoted pi delim (c :: t) =
  (if c =? delim then Some 0
   else te <- (if pi then tag_end true c t else Some false) ;;
        if (c =? 0) || te then Some 0 else n <- scan_quoted pi delim t ;; Some (1 + n)).
Proof. reflexivity. Qed.

(* the byte the quoted-value loop stops at: the quote, NUL, or (in a processing instruction) the '?' of "?>" *)
Definition quoted_stop (pi : bool) (delim c c1 : Z) : bool :=
  (c =? delim) || (c =? 0) || (pi && (c =? 63) && (c1 =? 62)).

Lemma scan_quoted_spec pi delim l n : scan_quoted pi delim l = Some n ->
  0 <= n < len l /\
  (forall i, 0 <= i < n -> quoted_stop pi delim (getz l i) (getz l (i + 1)) = false) /\
  quoted_stop pi delim (getz l n) (getz l (n + 1)) = true.
Proof.
  revert n. induction l as [|c t IH]; intros n H; [discriminate|].
  rewrite scan_quoted_step in H. rewrite len_cons. pose proof (len_nonneg t).
  assert (G0 : getz (c :: t) (0 + 1) = getz t 0) by (replace (0 + 1) with (1 + 0) by lia; apply getz_cons_succ; lia).
  destruct (Z.eqb_spec c delim) as [E|E].
  { assert (n = 0) by congruence. subst n. split; [lia|]. split; [intros; lia|].
    rewrite getz_cons_0. unfold quoted_stop. subst c. rewrite Z.eqb_refl. reflexivity. }
  destruct (if pi then tag_end true c t else Some false) as [te|] eqn:Hte; [|discriminate]. cbn [option_bind] in H.
  assert (Ete : te = pi && (c =? 63) && (getz t 0 =? 62)).
  { destruct pi; [|injection Hte as <-; reflexivity]. apply tag_end_spec in Hte. rewrite Hte. reflexivity. }
  assert (Hst : quoted_stop pi delim c (getz t 0) = ((c =? 0) || te)).
  { unfold quoted_stop. rewrite Ete. destruct (Z.eqb_spec c delim); [congruence|]. cbn [orb]. reflexivity. }
  rewrite <- Hst in H. destruct (quoted_stop pi delim c (getz t 0)) eqn:Hs.
  - assert (n = 0) by congruence. subst n. split; [lia|]. split; [intros; lia|]. rewrite getz_cons_0, G0. exact Hs.
  - destruct (scan_quoted pi delim t) as [m|] eqn:Hm; [|discriminate]. cbn [option_bind] in H.
    assert (n = 1 + m) by congruence. subst n. destruct (IH m eq_refl) as (H1 & H2 & H3).
    split; [lia|]. split.
    + intros i Hi. destruct (Z.eq_dec i 0) as [->|]; [rewrite getz_cons_0, G0; exact Hs|].
      rewrite (getz_cons_pos c t i) by lia. rewrite (getz_cons_pos c t (i + 1)) by lia.
      replace (i + 1 - 1) with (i - 1 + 1) by lia. apply H2. lia.
    + rewrite getz_cons_succ by lia. replace (1 + m + 1) with (1 + (m + 1)) by lia.
      rewrite getz_cons_succ by lia. exact H3.
Qed.

Lemma scan_quoted_total pi delim a : exists n, scan_quoted pi delim (a ++ [0]) = Some n.
Proof.
  induction a as [|c a (n & IH)]; cbn [app]; rewrite scan_quoted_step.
  - destruct (0 =? delim); [eauto|]. destruct pi; cbn; eauto.
  - destruct (c =? delim); [eauto|].
    assert (exists te, (if pi then tag_end true c (a ++ [0]) else Some false) = Some te) as (te & ->).
    { destruct pi; [|eauto]. apply tag_end_total. destruct a; discriminate. }
    cbn [option_bind]. rewrite IH. cbn [option_bind]. destruct ((c =? 0) || te); eauto.
Qed.

Lemma quoted_stop_false_nz pi delim c c1 : quoted_stop pi delim c c1 = false -> c <> 0.
Proof. unfold quoted_stop. intros H ->. rewrite orb_true_r in H. discriminate. Qed.

Lemma scan_quoted_lx pi delim z : lx_wf z ->
  exists n, scan_quoted pi delim (suffix z) = Some n /\ 0 <= n /\ lpos z + n <= lx_len z /\
    (forall i, lpos z <= i < lpos z + n -> getz (lbuf z) i <> 0) /\
    quoted_stop pi delim (getz (lbuf z) (lpos z + n)) (getz (lbuf z) (lpos z + n + 1)) = true.
Proof.
  intros H. destruct (wf_suffix z H) as (a & Ha & Hl). pose proof (wf_range z H) as Hr.
  destruct (scan_quoted_total pi delim a) as (n & Hn). rewrite <- Ha in Hn. exists n. split; [exact Hn|].
  destruct (scan_quoted_spec _ _ _ _ Hn) as (H1 & H2 & H3). rewrite len_suffix in H1 by assumption.
  split; [lia|]. split; [lia|]. split.
  - intros i Hi. specialize (H2 (i - lpos z) ltac:(lia)). apply quoted_stop_false_nz in H2.
    rewrite getz_suffix in H2 by lia. replace (lpos z + (i - lpos z)) with i in H2 by lia. exact H2.
  - rewrite !getz_suffix in H3 by lia. replace (lpos z + (n + 1)) with (lpos z + n + 1) in H3 by lia. exact H3.
Qed.

(* ---- scan_until ------------------------------------------------------------------------------------ *)
Lemma scan_until_step pat c t :
  scan_until pat (c :: t) =
  (m <- at_l pat (c :: t) ;;
   if m then Some (0, true) else if c =? 0 then Some (0, false)
   else r <- scan_until pat t ;; Some (1 + fst r, snd r)).
Proof. reflexivity. Qed.

Lemma scan_until_spec pat l n f : scan_until pat l = Some (n, f) ->
  0 <= n < len l /\ (forall i, 0 <= i < n -> getz l i <> 0) /\
  (if f then len pat <= len l - n /\ forall j, 0 <= j < len pat -> getz l (n + j) = getz pat j
   else getz l n = 0).
Proof.
  revert n. induction l as [|c t IH]; intros n H; [discriminate|].
  rewrite scan_until_step in H. rewrite len_cons. pose proof (len_nonneg t).
  destruct (at_l pat (c :: t)) as [m|] eqn:Hm; [|discriminate]. cbn [option_bind] in H.
  destruct m.
  - injection H as <- <-. split; [lia|]. split; [intros; lia|].
    destruct (at_l_true _ _ Hm) as (H1 & H2). rewrite len_cons in H1. split; [lia|].
    intros j Hj. replace (0 + j) with j by lia. apply H2. exact Hj.
  - destruct (Z.eqb_spec c 0) as [->|Hc].
    + injection H as <- <-. split; [lia|]. split; [intros; lia|]. reflexivity.
    + destruct (scan_until pat t) as [[m g]|] eqn:Hr; [|discriminate]. bsimpl_in H.
      spinj H. destruct (IH m eq_refl) as (H1 & H2 & H3).
      split; [lia|]. split.
      * intros i Hi. destruct (Z.eq_dec i 0) as [->|]; [exact Hc|].
        rewrite getz_cons_pos by lia. apply H2. lia.
      * destruct g.
        -- destruct H3 as (H3 & H4). split; [lia|]. intros j Hj.
           replace (1 + m + j) with (1 + (m + j)) by lia. rewrite getz_cons_succ by lia. apply H4. exact Hj.
        -- rewrite getz_cons_succ by lia. exact H3.
Qed.

Lemma scan_until_total pat a : nzl pat -> exists r, scan_until pat (a ++ [0]) = Some r.
Proof.
  intros Hp. induction a as [|c a (r & IH)]; cbn [app]; rewrite scan_until_step.
  - destruct (at_l_total pat [] Hp) as (b & Hb). cbn [app] in Hb. rewrite Hb. cbn [option_bind].
    destruct b; [eauto|]. change (0 =? 0) with true. cbv iota. eauto.
  - destruct (at_l_total pat (c :: a) Hp) as (b & Hb). cbn [app] in Hb. rewrite Hb. cbn [option_bind].
    destruct b; [eauto|]. destruct (c =? 0); [eauto|]. rewrite IH. cbn [option_bind]. eauto.
Qed.

Lemma scan_until_lx pat z : lx_wf z -> nzl pat ->
  exists n f, scan_until pat (suffix z) = Some (n, f) /\ 0 <= n /\ lpos z + n <= lx_len z /\
    (forall i, lpos z <= i < lpos z + n -> getz (lbuf z) i <> 0) /\
    (if f then lpos z + n + len pat <= lx_len z /\
               forall j, 0 <= j < len pat -> getz (lbuf z) (lpos z + n + j) = getz pat j
     else getz (lbuf z) (lpos z + n) = 0).
Proof.
  intros H Hp. destruct (wf_suffix z H) as (a & Ha & Hl). pose proof (wf_range z H) as Hr.
  destruct (scan_until_total pat a Hp) as ([n f] & Hn). rewrite <- Ha in Hn. exists n, f.
  split; [exact Hn|]. destruct (scan_until_spec _ _ _ _ Hn) as (H1 & H2 & H3).
  rewrite len_suffix in * by assumption.
  split; [lia|]. split; [lia|]. split.
  - intros i Hi. specialize (H2 (i - lpos z)). rewrite getz_suffix in H2 by lia.
    replace (lpos z + (i - lpos z)) with i in H2 by lia. apply H2. lia.
  - destruct f.
    + destruct H3 as (H3 & H4).
      assert (H5 : forall j, 0 <= j < len pat -> getz (lbuf z) (lpos z + n + j) = getz pat j).
      { intros j Hj. rewrite <- H4 by assumption. rewrite getz_suffix by lia. f_equal. lia. }
      split; [|exact H5].
      destruct (Z.eq_dec (len pat) (lx_len z + 1 - lpos z - n)) as [E|]; [|lia].
      exfalso. pose proof (len_nonneg pat).
      destruct (Z.eq_dec (len pat) 0) as [E0|]; [lia|].
      assert (Hz : getz pat (len pat - 1) <> 0) by (apply nzl_getz; [assumption|lia]).
      rewrite <- H5 in Hz by lia. replace (lpos z + n + (len pat - 1)) with (lx_len z) in Hz by lia.
      rewrite wf_sentinel in Hz by assumption. congruence.
    + rewrite getz_suffix in H3 by lia. exact H3.
Qed.

(* ---- scan_doctype ------------------------------------------------------------------------------------ *)
Lemma nzl_dt_comment_open : nzl dt_comment_open. Proof. repeat constructor; lia. Qed.
Lemma nzl_dt_skip_pat sk : nzl (dt_skip_pat sk).
Proof. unfold dt_skip_pat. destruct (sk =? 1); repeat constructor; lia. Qed.

Lemma len_dt_skip_pat sk : Z.of_nat (length (dt_skip_pat sk) - 1) = len (dt_skip_pat sk) - 1.
Proof. unfold dt_skip_pat. destruct (sk =? 1); reflexivity. Qed.

Lemma at_l_true_len pat : forall x, nzl pat -> at_l pat (x ++ [0]) = Some true -> len pat <= len x.
Proof.
  induction pat as [|p pt IH]; intros x Hp H.
  - change (len (@nil Z)) with 0. apply len_nonneg.
  - inversion Hp; subst. destruct x as [|c x]; cbn [app at_l] in H.
    + destruct (Z.eqb_spec 0 p); [congruence|discriminate].
    + destruct (c =? p); [|discriminate]. rewrite !len_cons. specialize (IH x ltac:(assumption) H). lia.
Qed.

Lemma scan_doctype_step0 q inB sk c t :
  scan_doctype 0 q inB sk (c :: t) =
  (if c =? 0 then Some (0, false)
   else if negb (sk =? 0) then
     m <- at_l (dt_skip_pat sk) (c :: t) ;;
     if m then bump (scan_doctype (length (dt_skip_pat sk) - 1) q inB 0 t)
     else bump (scan_doctype 0 q inB sk t)
   else if (c =? q) && negb (q =? 0) then bump (scan_doctype 0 0 inB 0 t)
   else if ((c =? 34) || (c =? 39)) && negb (negb (q =? 0)) then bump (scan_doctype 0 c inB 0 t)
   else
     mc <- (if (c =? 60) && inB && negb (negb (q =? 0)) then at_l dt_comment_open (c :: t) else Some false) ;;
     if mc then bump (scan_doctype 3 q inB 1 t)
     else
       mp <- (if (c =? 60) && inB && negb (negb (q =? 0))
              then match t with [] => None | c1 :: _ => Some (c1 =? 63) end
              else Some false) ;;
       if mp then bump (scan_doctype 1 q inB 2 t)
       else if ((c =? 91) || (c =? 93)) && negb (negb (q =? 0)) then bump (scan_doctype 0 q (c =? 91) 0 t)
       else if (c =? 62) && negb (negb (q =? 0)) && negb inB then Some (0, true)
       else bump (scan_doctype 0 q inB 0 t)).
Proof. reflexivity. Qed.

Lemma scan_doctype_stepS p q inB sk c t :
  scan_doctype (S p) q inB sk (c :: t) = bump (scan_doctype p q inB sk t).
Proof. reflexivity. Qed.

Lemma scan_doctype_spec l : forall pend q inB sk n f,
  (forall i, 0 <= i < Z.of_nat pend -> getz l i <> 0) ->
  scan_doctype pend q inB sk l = Some (n, f) ->
  0 <= n < len l /\ (forall i, 0 <= i < n -> getz l i <> 0) /\ getz l n = (if f then 62 else 0).
Proof.
  induction l as [|c t IH]; intros pend q inB sk n f Hpend H; [discriminate|].
  rewrite len_cons. pose proof (len_nonneg t).
  assert (Hrec : forall p' a b s', c <> 0 -> (forall i, 0 <= i < Z.of_nat p' -> getz t i <> 0) ->
            bump (scan_doctype p' a b s' t) = Some (n, f) ->
            0 <= n < 1 + len t /\ (forall i, 0 <= i < n -> getz (c :: t) i <> 0) /\
            getz (c :: t) n = (if f then 62 else 0)).
  { intros p' a b s' Hc Hp Hr. unfold bump in Hr.
    destruct (scan_doctype p' a b s' t) as [[m g]|] eqn:Hm; [|discriminate].
    bsimpl_in Hr. spinj Hr.
    destruct (IH _ _ _ _ _ _ Hp Hm) as (H1 & H2 & H3). split; [lia|]. split.
    - intros i Hi. destruct (Z.eq_dec i 0) as [->|]; [exact Hc|].
      rewrite getz_cons_pos by lia. apply H2. lia.
    - rewrite getz_cons_succ by lia. exact H3. }
  destruct pend as [|p].
  2:{ rewrite scan_doctype_stepS in H. apply (Hrec p q inB sk); [| |exact H].
      - specialize (Hpend 0 ltac:(lia)). exact Hpend.
      - intros i Hi. specialize (Hpend (1 + i) ltac:(lia)). rewrite getz_cons_succ in Hpend by lia. exact Hpend. }
  rewrite scan_doctype_step0 in H.
  assert (H0p : forall i, 0 <= i < Z.of_nat 0 -> getz t i <> 0) by (intros; lia).
  destruct (Z.eqb_spec c 0) as [->|N0].
  { apply some_pair_inj in H. destruct H as [-> ->]. split; [lia|]. split; [intros; lia|]. reflexivity. }
  destruct (negb (sk =? 0)) eqn:Esk.
  { destruct (at_l (dt_skip_pat sk) (c :: t)) as [m|] eqn:Hm; [|discriminate]. cbn [option_bind] in H.
    destruct m; [|apply (Hrec 0%nat q inB sk N0 H0p H)].
    apply (Hrec (length (dt_skip_pat sk) - 1)%nat q inB 0 N0); [|exact H].
    destruct (at_l_true _ _ Hm) as (_ & Hg). intros i Hi. rewrite len_dt_skip_pat in Hi.
    specialize (Hg (1 + i) ltac:(lia)). rewrite getz_cons_succ in Hg by lia. rewrite Hg.
    apply nzl_getz; [apply nzl_dt_skip_pat|lia]. }
  destruct ((c =? q) && negb (q =? 0)); [apply (Hrec 0%nat 0 inB 0 N0 H0p H)|].
  destruct (((c =? 34) || (c =? 39)) && negb (negb (q =? 0))); [apply (Hrec 0%nat c inB 0 N0 H0p H)|].
  destruct (if (c =? 60) && inB && negb (negb (q =? 0)) then at_l dt_comment_open (c :: t) else Some false) as [mc|] eqn:Hmc;
    [|discriminate]. cbn [option_bind] in H.
  destruct mc.
  { apply (Hrec 3%nat q inB 1 N0); [|exact H].
    destruct ((c =? 60) && inB && negb (negb (q =? 0))); [|discriminate].
    destruct (at_l_true _ _ Hmc) as (_ & Hg). intros i Hi. change (Z.of_nat 3) with 3 in Hi.
    specialize (Hg (1 + i) ltac:(change (len dt_comment_open) with 4; lia)). rewrite getz_cons_succ in Hg by lia. rewrite Hg.
    apply nzl_getz; [apply nzl_dt_comment_open|change (len dt_comment_open) with 4; lia]. }
  destruct (if (c =? 60) && inB && negb (negb (q =? 0)) then match t with [] => None | c1 :: _ => Some (c1 =? 63) end else Some false)
    as [mp|] eqn:Hmp; [|discriminate]. cbn [option_bind] in H.
  destruct mp.
  { apply (Hrec 1%nat q inB 2 N0); [|exact H].
    destruct ((c =? 60) && inB && negb (negb (q =? 0))); [|discriminate].
    destruct t as [|c1 t']; [discriminate|]. intros i Hi. assert (i = 0) by lia. subst i. rewrite getz_cons_0.
    assert (c1 = 63) by (injection Hmp as E; lia). lia. }
  destruct (((c =? 91) || (c =? 93)) && negb (negb (q =? 0))); [apply (Hrec 0%nat q (c =? 91) 0 N0 H0p H)|].
  destruct ((c =? 62) && negb (negb (q =? 0)) && negb inB) eqn:E4.
  { apply some_pair_inj in H. destruct H as [-> ->]. assert (c = 62) by lia. subst c.
    split; [lia|]. split; [intros; lia|]. reflexivity. }
  apply (Hrec 0%nat q inB 0 N0 H0p H).
Qed.

Lemma bump_some o : (exists r, o = Some r) -> exists r, bump o = Some r.
Proof. intros (r & ->). cbn. eauto. Qed.

Lemma scan_doctype_total a : forall pend q inB sk, Z.of_nat pend <= len a ->
  exists r, scan_doctype pend q inB sk (a ++ [0]) = Some r.
Proof.
  induction a as [|c a IH]; intros pend q inB sk Hp; cbn [app].
  - change (len (@nil Z)) with 0 in Hp. destruct pend; [|lia]. rewrite scan_doctype_step0. cbn. eauto.
  - rewrite len_cons in Hp. destruct pend as [|p].
    2:{ rewrite scan_doctype_stepS. apply bump_some. apply IH. lia. }
    pose proof (len_nonneg a).
    rewrite scan_doctype_step0. destruct (c =? 0); [eauto|].
    destruct (negb (sk =? 0)).
    { destruct (at_l_total (dt_skip_pat sk) (c :: a) (nzl_dt_skip_pat sk)) as (m & Hm). cbn [app] in Hm.
      rewrite Hm. cbn [option_bind]. destruct m; apply bump_some; apply IH; [|lia].
      pose proof (at_l_true_len (dt_skip_pat sk) (c :: a) (nzl_dt_skip_pat sk) Hm) as Hl.
      rewrite len_cons in Hl. rewrite len_dt_skip_pat. lia. }
    destruct ((c =? q) && negb (q =? 0)); [apply bump_some; apply IH; lia|].
    destruct (((c =? 34) || (c =? 39)) && negb (negb (q =? 0))); [apply bump_some; apply IH; lia|].
    assert (Hmc : exists mc, (if (c =? 60) && inB && negb (negb (q =? 0)) then at_l dt_comment_open (c :: a ++ [0]) else Some false) = Some mc
                  /\ (mc = true -> 3 <= len a)).
    { destruct ((c =? 60) && inB && negb (negb (q =? 0))); [|eexists; split; [reflexivity|discriminate]].
      destruct (at_l_total dt_comment_open (c :: a) nzl_dt_comment_open) as (m & Hm). cbn [app] in Hm.
      exists m. split; [exact Hm|]. intros ->.
      pose proof (at_l_true_len dt_comment_open (c :: a) nzl_dt_comment_open Hm) as Hl.
      rewrite len_cons in Hl. change (len dt_comment_open) with 4 in Hl. lia. }
    destruct Hmc as (mc & -> & Hmc). cbn [option_bind].
    destruct mc; [apply bump_some; apply IH; specialize (Hmc eq_refl); change (Z.of_nat 3) with 3; lia|].
    assert (Hmp : exists mp, (if (c =? 60) && inB && negb (negb (q =? 0))
                              then match a ++ [0] with [] => None | c1 :: _ => Some (c1 =? 63) end else Some false) = Some mp
                  /\ (mp = true -> 1 <= len a)).
    { destruct ((c =? 60) && inB && negb (negb (q =? 0))); [|eexists; split; [reflexivity|discriminate]].
      destruct a as [|c1 a']; cbn [app].
      - eexists. split; [reflexivity|]. cbn. discriminate.
      - eexists. split; [reflexivity|]. intros _. rewrite len_cons. pose proof (len_nonneg a'). lia. }
    destruct Hmp as (mp & -> & Hmp). cbn [option_bind].
    destruct mp; [apply bump_some; apply IH; specialize (Hmp eq_refl); change (Z.of_nat 1) with 1; lia|].
    destruct (((c =? 91) || (c =? 93)) && negb (negb (q =? 0))); [apply bump_some; apply IH; lia|].
    destruct ((c =? 62) && negb (negb (q =? 0)) && negb inB); [eauto|].
    apply bump_some; apply IH; lia.
Qed.

Lemma scan_doctype_lx z : lx_wf z ->
  exists n f, scan_doctype 0 0 false 0 (suffix z) = Some (n, f) /\ 0 <= n /\ lpos z + n <= lx_len z /\
    (forall i, lpos z <= i < lpos z + n -> getz (lbuf z) i <> 0) /\
    getz (lbuf z) (lpos z + n) = (if f then 62 else 0).
Proof.
  intros H. destruct (wf_suffix z H) as (a & Ha & Hl). pose proof (wf_range z H) as Hr.
  destruct (scan_doctype_total a 0%nat 0 false 0) as ([n f] & Hn); [pose proof (len_nonneg a); lia|].
  rewrite <- Ha in Hn. exists n, f.
  split; [exact Hn|].
  assert (Hp0 : forall i, 0 <= i < Z.of_nat 0 -> getz (suffix z) i <> 0) by (intros; lia).
  destruct (scan_doctype_spec _ _ _ _ _ _ _ Hp0 Hn) as (H1 & H2 & H3).
  rewrite len_suffix in * by assumption.
  split; [lia|]. split; [lia|]. split.
  - intros i Hi. specialize (H2 (i - lpos z)). rewrite getz_suffix in H2 by lia.
    replace (lpos z + (i - lpos z)) with i in H2 by lia. apply H2. lia.
  - rewrite getz_suffix in H3 by lia. exact H3.
Qed.
