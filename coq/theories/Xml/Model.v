(* Xml/Model.v — executable model of the XML lexer (xml/lex.go), on the lexer-level cursor Common/Lx.v.
   Definitions only.  A Go panic (index or slice out of range) is [None].
   Every read goes through the checked peek [pk] or through structural recursion on [suffix]
   (the bytes from the cursor to the end of the buffer data ++ [0]); running off that list is [None].
   Slices handed to the caller (token, Text(), AttrVal()) are absolute coordinates [lo,hi) in the
   buffer; [None] is Go's nil slice. *)
From Verif Require Import Common.Base Common.Lx.

(* xml.TokenType, in the order of the const block *)
Inductive ttype :=
| TError | TComment | TDoctype | TCdata | TStartTag | TStartTagPI
| TStartTagClose | TStartTagCloseVoid | TStartTagClosePI | TEndTag | TAttribute | TText.

Definition tt_code (t : ttype) : Z :=
  match t with
  | TError => 0 | TComment => 1 | TDoctype => 2 | TCdata => 3 | TStartTag => 4 | TStartTagPI => 5
  | TStartTagClose => 6 | TStartTagCloseVoid => 7 | TStartTagClosePI => 8 | TEndTag => 9
  | TAttribute => 10 | TText => 11
  end.

Definition sl := option (Z * Z).

(* Lexer: r, err (true = the "unexpected NULL character" error is stored), inTag, inPI, text, attrVal *)
Record xst := mkX { xr : lx; xerr : bool; xin : bool; xpi : bool; xtext : sl; xattr : sl }.

Definition xml_init (data : list Z) : xst := mkX (lx_init data) false false false None None.

(* Lexer.Err(): 0 = nil, 1 = io.EOF (from the Input), 2 = the stored parse error *)
Definition xml_err (s : xst) : Z := if xerr s then 2 else if at_end (xr s) then 1 else 0.

(* ' ' '\t' '\n' '\r' *)
Definition is_ws (c : Z) : bool := (c =? 32) || (c =? 9) || (c =? 10) || (c =? 13).

(* "for { c := Peek(0); if c == stop {..break} else if c == 0 {break}; Move(1) }": bytes moved *)
Definition until (stop : Z) (c : Z) : bool := negb ((c =? stop) || (c =? 0)).

(* l.at(b...) on the remaining bytes: compares left to right and stops at the first mismatch;
   None = a Peek beyond the buffer *)
Fixpoint at_l (pat l : list Z) : option bool :=
  match pat with
  | [] => Some true
  | p :: pt => match l with
               | [] => None
               | c :: t => if c =? p then at_l pt t else Some false
               end
  end.

(* l.atTagEnd(c) on the byte c and the bytes t after it: inside a processing instruction (pi) only "?>"
   ends the tag, otherwise '>', "/>" and "?>" do; Peek(1) is read only for '?' resp. '/' and '?' *)
Definition tag_end (pi : bool) (c : Z) (t : list Z) : option bool :=
  if pi then
    if c =? 63 then match t with [] => None | c1 :: _ => Some (c1 =? 62) end else Some false
  else if c =? 62 then Some true
  else if (c =? 47) || (c =? 63) then match t with [] => None | c1 :: _ => Some (c1 =? 62) end
  else Some false.

(* the name loops of shiftStartTag (eq=false), shiftAttribute's name (eq=true: also stops at '=')
   and the unquoted attribute value (eq=false): bytes moved *)
Fixpoint scan_name (pi eq : bool) (l : list Z) : option Z :=
  match l with
  | [] => None
  | c :: t =>
      te <- tag_end pi c t ;;
      if (c =? 32) || (eq && (c =? 61)) || te || (c =? 9) || (c =? 10) || (c =? 13) || (c =? 0)
      then Some 0
      else n <- scan_name pi eq t ;; Some (1 + n)
  end.

(* loops of shiftCommentText / shiftCDATAText: stop at the 3-byte closer (true) or at a 0 byte (false) *)
Fixpoint scan_until (pat : list Z) (l : list Z) : option (Z * bool) :=
  match l with
  | [] => None
  | c :: t =>
      m <- at_l pat l ;;
      if m then Some (0, true)
      else if c =? 0 then Some (0, false)
      else r <- scan_until pat t ;; Some (1 + fst r, snd r)
  end.

(* loop of shiftDOCTYPEText.  State: q = the quote character of the literal the scan is in (0 = none),
   inB = inBrackets, sk = skipTo (0 = nil, 1 = "-->", 2 = "?>"), pend = bytes of an already matched
   keyword still to be moved over (the Move(3) / Move(1) / Move(len(skipTo)-1) before the final Move(1)). *)
Definition dt_comment_open : list Z := [60; 33; 45; 45].       (* <!-- *)
Definition dt_skip_pat (sk : Z) : list Z := if sk =? 1 then [45; 45; 62] else [63; 62].   (* --> or ?> *)
Definition bump (o : option (Z * bool)) : option (Z * bool) := r <- o ;; Some (1 + fst r, snd r).

Fixpoint scan_doctype (pend : nat) (q : Z) (inB : bool) (sk : Z) (l : list Z) : option (Z * bool) :=
  match l with
  | [] => None
  | c :: t =>
      match pend with
      | S p => bump (scan_doctype p q inB sk t)
      | O =>
          let inS := negb (q =? 0) in
          if c =? 0 then Some (0, false)
          else if negb (sk =? 0) then
            m <- at_l (dt_skip_pat sk) l ;;
            if m then bump (scan_doctype (length (dt_skip_pat sk) - 1) q inB 0 t)
            else bump (scan_doctype 0 q inB sk t)
          else if (c =? q) && inS then bump (scan_doctype 0 0 inB 0 t)
          else if ((c =? 34) || (c =? 39)) && negb inS then bump (scan_doctype 0 c inB 0 t)
          else
            mc <- (if (c =? 60) && inB && negb inS then at_l dt_comment_open l else Some false) ;;
            if mc then bump (scan_doctype 3 q inB 1 t)
            else
              mp <- (if (c =? 60) && inB && negb inS
                     then match t with [] => None | c1 :: _ => Some (c1 =? 63) end
                     else Some false) ;;
              if mp then bump (scan_doctype 1 q inB 2 t)
              else if ((c =? 91) || (c =? 93)) && negb inS then bump (scan_doctype 0 q (c =? 91) 0 t)
              else if (c =? 62) && negb inS && negb inB then Some (0, true)
              else bump (scan_doctype 0 q inB 0 t)
      end
  end.

(* number of leading whitespace bytes (the backwards loop of shiftEndTag runs on the reversed text) *)
Fixpoint count_ws (l : list Z) : Z :=
  match l with
  | [] => 0
  | c :: t => if is_ws c then 1 + count_ws t else 0
  end.

(* coordinates of Lexeme()[a:b]; Lexeme() has cap = len *)
Definition lex_sub (z : lx) (a b : Z) : option (Z * Z) :=
  u <- lexeme z ;;
  if slice_ok a b (mark z) then Some (lstart z + a, lstart z + b) else None.

(* Shift(): coordinates of the lexeme, then start := pos *)
Definition shift_c (z : lx) : option ((Z * Z) * lx) :=
  u <- lexeme z ;; Some ((lstart z, lpos z), skip z).

(* the write "Lexeme()[Pos()-1] = ' '" for every TAB/LF/CR moved over in a quoted value *)
Definition ws2sp (c : Z) : Z := if (c =? 9) || (c =? 10) || (c =? 13) then 32 else c.
Definition norm_range (b : list Z) (lo hi : Z) : list Z :=
  firstz lo b ++ map ws2sp (slice b lo hi) ++ skipz hi b.

(* result of a shift* function: text, token coordinates, cursor afterwards *)
Definition sres : Type := sl * (Z * Z) * lx.

Definition shift_start_tag (pi : bool) (z : lx) : option sres :=
  let nameStart := mark z in
  n <- scan_name pi false (suffix z) ;;
  let z1 := mv z n in
  t <- lex_sub z1 nameStart (mark z1) ;;
  sh <- shift_c z1 ;;
  Some (Some t, fst sh, snd sh).

Definition shift_end_tag (z : lx) : option sres :=
  n <- scan_while (until 62) (suffix z) ;;
  let z1 := mv z n in
  c <- pk z1 0 ;;
  t <- lex_sub z1 2 (mark z1) ;;
  let z2 := if c =? 62 then mv z1 1 else z1 in
  let k := count_ws (rev (slice (lbuf z1) (fst t) (snd t))) in
  sh <- shift_c z2 ;;
  Some (Some (fst t, snd t - k), fst sh, snd sh).

Definition pat_comment_end : list Z := [45; 45; 62].          (* --> *)
Definition pat_cdata_end : list Z := [93; 93; 62].            (* ]]> *)
Definition pat_comment : list Z := [45; 45].                  (* -- *)
Definition pat_cdata : list Z := [91; 67; 68; 65; 84; 65; 91].  (* [CDATA[ *)
Definition pat_doctype : list Z := [68; 79; 67; 84; 89; 80; 69]. (* DOCTYPE *)

Definition shift_comment (z : lx) : option sres :=
  r <- scan_until pat_comment_end (suffix z) ;;
  let z1 := mv z (fst r) in
  if snd r then
    t <- lex_sub z1 4 (mark z1) ;;
    sh <- shift_c (mv z1 3) ;;
    Some (Some t, fst sh, snd sh)
  else
    sh <- shift_c z1 ;; Some (None, fst sh, snd sh).

Definition shift_cdata (z : lx) : option sres :=
  r <- scan_until pat_cdata_end (suffix z) ;;
  let z1 := mv z (fst r) in
  t <- lex_sub z1 9 (mark z1) ;;
  sh <- shift_c (if snd r then mv z1 3 else z1) ;;
  Some (Some t, fst sh, snd sh).

Definition shift_doctype (z : lx) : option sres :=
  r <- scan_doctype 0 0 false 0 (suffix z) ;;
  let z1 := mv z (fst r) in
  t <- lex_sub z1 9 (mark z1) ;;
  sh <- shift_c (if snd r then mv z1 1 else z1) ;;
  Some (Some t, fst sh, snd sh).

(* the quoted attribute value: cursor is just after the opening quote *)
(* the loop of the quoted value: stops at the closing quote, at a 0 byte, and inside a processing
   instruction at "?>" (c == 0 || l.inPI && l.atTagEnd(c)): bytes moved *)
Fixpoint scan_quoted (pi : bool) (delim : Z) (l : list Z) : option Z :=
  match l with
  | [] => None
  | c :: t =>
      if c =? delim then Some 0
      else
        te <- (if pi then tag_end true c t else Some false) ;;
        if (c =? 0) || te then Some 0
        else n <- scan_quoted pi delim t ;; Some (1 + n)
  end.

Definition quoted_value (pi : bool) (delim : Z) (z : lx) : option lx :=
  n <- scan_quoted pi delim (suffix z) ;;
  let z1 := mkLx (norm_range (lbuf z) (lpos z) (lpos z + n)) (lpos z + n) (lstart z) in
  c <- pk z1 0 ;;
  Some (if c =? delim then mv z1 1 else z1).

(* shiftAttribute: text, attrVal, token coordinates, cursor *)
Definition shift_attribute (pi : bool) (z : lx) : option (sl * sl * (Z * Z) * lx) :=
  let nameStart := mark z in
  n1 <- scan_name pi true (suffix z) ;;
  let z1 := mv z n1 in
  let nameEnd := mark z1 in
  n2 <- scan_while is_ws (suffix z1) ;;
  let z2 := mv z1 n2 in
  c <- pk z2 0 ;;
  r <- (if c =? 61 then
          let z3 := mv z2 1 in
          n3 <- scan_while is_ws (suffix z3) ;;
          let z4 := mv z3 n3 in
          delim <- pk z4 0 ;;
          let attrPos := mark z4 in
          z6 <- (if (delim =? 34) || (delim =? 39)
                 then quoted_value pi delim (mv z4 1)
                 else n4 <- scan_name pi false (suffix z4) ;; Some (mv z4 n4)) ;;
          a <- lex_sub z6 attrPos (mark z6) ;;
          Some (z6, Some a)
        else Some (rewind z2 nameEnd, None)) ;;
  t <- lex_sub (fst r) nameStart nameEnd ;;
  sh <- shift_c (fst r) ;;
  Some (Some t, snd r, fst sh, snd sh).

(* "if l.r.Err() == nil { l.err = NewErrorLexer(...) }" *)
Definition null_err (z : lx) (e : bool) : bool := if at_end z then e else true.

(* the "<!" dispatch: Some (type, result) for comment / CDATA / DOCTYPE, None = fall through *)
Definition bang (z : lx) : option (option (ttype * sres)) :=
  m1 <- at_l pat_comment (suffix z) ;;
  if m1 then r <- shift_comment (mv z 2) ;; Some (Some (TComment, r)) else
  m2 <- at_l pat_cdata (suffix z) ;;
  if m2 then r <- shift_cdata (mv z 7) ;; Some (Some (TCdata, r)) else
  m3 <- at_l pat_doctype (suffix z) ;;
  if m3 then r <- shift_doctype (mv z 7) ;; Some (Some (TDoctype, r)) else
  Some None.

(* Lexer.Next(): token type, token slice, new state *)
Definition next (s : xst) : option (ttype * sl * xst) :=
  let z := xr s in
  if xin s then
    n <- scan_while is_ws (suffix z) ;;
    let z1 := mv z n in
    c <- pk z1 0 ;;
    if c =? 0 then Some (TError, None, mkX z1 (null_err z1 (xerr s)) true (xpi s) None None)
    else
      isattr <- (if xpi s then (if c =? 63 then c1 <- pk z1 1 ;; Some (negb (c1 =? 62)) else Some true)
                 else if c =? 62 then Some false
                 else if (c =? 47) || (c =? 63) then c1 <- pk z1 1 ;; Some (negb (c1 =? 62))
                 else Some true) ;;
      if isattr then
        r <- shift_attribute (xpi s) z1 ;;
        Some (TAttribute, Some (snd (fst r)), mkX (snd r) (xerr s) true (xpi s) (fst (fst (fst r))) (snd (fst (fst r))))
      else
        let z2 := skip z1 in
        if c =? 47 then
          sh <- shift_c (mv z2 2) ;; Some (TStartTagCloseVoid, Some (fst sh), mkX (snd sh) (xerr s) false false None None)
        else if c =? 63 then
          sh <- shift_c (mv z2 2) ;; Some (TStartTagClosePI, Some (fst sh), mkX (snd sh) (xerr s) false false None None)
        else
          sh <- shift_c (mv z2 1) ;; Some (TStartTagClose, Some (fst sh), mkX (snd sh) (xerr s) false false None None)
  else
    n <- scan_while (until 60) (suffix z) ;;
    let z1 := mv z n in
    c <- pk z1 0 ;;
    if 0 <? mark z1 then
      sh <- shift_c z1 ;;
      Some (TText, Some (fst sh), mkX (snd sh) (xerr s) false (xpi s) (Some (fst sh)) (xattr s))
    else if c =? 60 then
      c1 <- pk z1 1 ;;
      if c1 =? 47 then
        r <- shift_end_tag (mv z1 2) ;;
        Some (TEndTag, Some (snd (fst r)), mkX (snd r) (xerr s) false (xpi s) (fst (fst r)) (xattr s))
      else
        sp <- (if c1 =? 33 then bang (mv z1 2) else Some None) ;;
        match sp with
        | Some (ty, r) => Some (ty, Some (snd (fst r)), mkX (snd r) (xerr s) false (xpi s) (fst (fst r)) (xattr s))
        | None =>
            if c1 =? 63 then
              r <- shift_start_tag true (mv z1 2) ;;
              Some (TStartTagPI, Some (snd (fst r)), mkX (snd r) (xerr s) true true (fst (fst r)) (xattr s))
            else
              r <- shift_start_tag (xpi s) (mv z1 1) ;;
              Some (TStartTag, Some (snd (fst r)), mkX (snd r) (xerr s) true (xpi s) (fst (fst r)) (xattr s))
        end
    else
      Some (TError, None, mkX z1 (null_err z1 (xerr s)) false (xpi s) None (xattr s)).

(* Drive Next: the trace of (type, token, state after) for at most [fuel] calls, stopping after the
   first ErrorToken; [None] = a panic somewhere. *)
Fixpoint drive (fuel : nat) (s : xst) : option (list (ttype * sl * xst)) :=
  match fuel with
  | O => Some []
  | S k =>
      r <- next s ;;
      match fst (fst r) with
      | TError => Some [r]
      | _ => rest <- drive k (snd r) ;; Some (r :: rest)
      end
  end.

(* The state after n calls of Next, whatever they returned (a caller that keeps calling after an
   ErrorToken included); None = some call panicked. *)
Fixpoint after (n : nat) (s : xst) : option xst :=
  match n with
  | O => Some s
  | S k => r <- next s ;; after k (snd r)
  end.

(* the results of the first n calls *)
Fixpoint run (n : nat) (s : xst) : option (list (ttype * sl * xst)) :=
  match n with
  | O => Some []
  | S k => r <- next s ;; rest <- run k (snd r) ;; Some (r :: rest)
  end.

(* s is a state the lexer can be in while lexing d *)
Definition reach (d : list Z) (s : xst) : Prop := exists n, after n (xml_init d) = Some s.
