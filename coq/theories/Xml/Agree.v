(* Xml/Agree.v — the agreement clause of C11: a small reference semantics of what an XML processor reports
   for the documents of the grammar (element names, attribute names, attribute values after line-end and
   attribute-value normalisation, PI targets), and the proof that the lexer's tokens, projected to the
   same events, equal it for every grammar document whose attribute values contain no CR LF pair. *)
From Verif Require Import Common.Base Common.Tactics Common.Lx Xml.Model Xml.Lemmas Xml.Step Xml.Sym Xml.WellFormed Xml.Checker.
From Coq Require Import ZifyBool.

Inductive xevent :=
| EStart (name : list Z) (attrs : list (list Z * list Z))
| EEnd (name : list Z)
| EPI (target : list Z).

(* ---- reference semantics (XML 1.0 2.11 line ends, 3.3.3 attribute-value normalisation; entity-free values) ---- *)
(* prev_cr: the previous byte was a CR (which already produced its space) *)
Fixpoint xml_norm_aux (prev_cr : bool) (l : list Z) : list Z :=
  match l with
  | [] => []
  | c :: t =>
      if (c =? 10) && prev_cr then xml_norm_aux false t
      else ws2sp c :: xml_norm_aux (c =? 13) t
  end.
Definition xml_norm (l : list Z) : list Z := xml_norm_aux false l.

Definition ref_attr (a : attr) : list Z * list Z := (a_name a, xml_norm (a_val a)).

Definition ref_item (it : item) : list xevent :=
  match it with
  | IStart n attrs _ void => EStart n (map ref_attr attrs) :: (if void then [EEnd n] else [])
  | IEnd n _ => [EEnd n]
  | IPI t _ _ => [EPI t]
  | ITag true t _ _ _ => [EPI t]      (* a processing instruction with free-form content *)
  | _ => []
  end.
Definition ref_events (l : list item) : list xevent := concat (map ref_item l).

(* ---- the same events read off the lexer's tokens ------------------------------------------------------------- *)
Definition strip_quotes (v : list Z) : list Z := removelast (tl v).
Definition olist (o : option (list Z)) : list Z := match o with Some l => l | None => [] end.

(* cur: the element whose start tag is being read (name, attributes so far) *)
Fixpoint tok_events (cur : option (list Z * list (list Z * list Z))) (toks : list etok) : list xevent :=
  match toks with
  | [] => []
  | (ty, _, tx, av) :: rest =>
      match ty with
      | TStartTag => tok_events (Some (olist tx, [])) rest
      | TStartTagPI => EPI (olist tx) :: tok_events None rest
      | TAttribute =>
          match cur with
          | Some (n, acc) => tok_events (Some (n, acc ++ [(olist tx, strip_quotes (olist av))])) rest
          | None => tok_events None rest
          end
      | TStartTagClose =>
          match cur with Some (n, acc) => EStart n acc :: tok_events None rest | None => tok_events None rest end
      | TStartTagCloseVoid =>
          match cur with Some (n, acc) => EStart n acc :: EEnd n :: tok_events None rest | None => tok_events None rest end
      | TEndTag => EEnd (olist tx) :: tok_events None rest
      | _ => tok_events cur rest
      end
  end.

(* ---- no CR LF pair ------------------------------------------------------------------------------------------- *)
Fixpoint no_crlf (l : list Z) : Prop :=
  match l with
  | c :: ((c1 :: _) as t) => ~ (c = 13 /\ c1 = 10) /\ no_crlf t
  | _ => True
  end.

Definition item_no_crlf (it : item) : Prop :=
  match it with
  | IStart _ attrs _ _ => Forall (fun a => no_crlf (a_val a)) attrs
  | ITag pi _ _ _ k => pi = true /\ k = TStartTagClosePI   (* the general opener is XML only as a processing instruction *)
  | _ => True
  end.

Lemma xml_norm_aux_map prev l : no_crlf l -> (prev = true -> getz l 0 <> 10) -> xml_norm_aux prev l = map ws2sp l.
Proof.
  revert prev. induction l as [|c t IH]; intros prev Hn Hp; [reflexivity|].
  cbn [xml_norm_aux map]. rewrite getz_cons_0 in Hp.
  assert (E : (c =? 10) && prev = false) by (destruct prev; [specialize (Hp eq_refl); lia|apply andb_false_r]).
  rewrite E. f_equal. apply IH.
  - destruct t; [exact I|]. destruct Hn as (_ & Hn). exact Hn.
  - intros Hc. destruct t as [|c1 t']; [rewrite getz_nth by lia; cbn; lia|]. rewrite getz_cons_0.
    destruct Hn as (Hn & _). intros ->. apply Hn. split; [lia|reflexivity].
Qed.

Lemma xml_norm_map l : no_crlf l -> xml_norm l = map ws2sp l.
Proof. intros H. apply xml_norm_aux_map; [exact H|discriminate]. Qed.

Lemma strip_attr_value a : strip_quotes (attr_value a) = map ws2sp (a_val a).
Proof.
  unfold strip_quotes, attr_value. cbn [app tl]. apply removelast_last.
Qed.

(* ---- agreement ------------------------------------------------------------------------------------------------- *)
Lemma tok_events_attrs n attrs : forall acc rest, Forall (fun a => no_crlf (a_val a)) attrs ->
  tok_events (Some (n, acc)) (map expect_attr attrs ++ rest) =
  tok_events (Some (n, acc ++ map ref_attr attrs)) rest.
Proof.
  induction attrs as [|a attrs IH]; intros acc rest H; cbn [map app].
  - rewrite app_nil_r. reflexivity.
  - inversion H as [|? ? Ha Hr]; subst. unfold expect_attr at 1. cbn [tok_events olist].
    rewrite strip_attr_value. rewrite IH by exact Hr. rewrite <- app_assoc. cbn [app].
    unfold ref_attr at 2. rewrite xml_norm_map by exact Ha. reflexivity.
Qed.

Lemma tok_events_pi_attrs attrs : forall rest,
  tok_events None (map expect_attr attrs ++ rest) = tok_events None rest.
Proof. induction attrs as [|a attrs IH]; intros rest; cbn [map app]; [reflexivity|]. unfold expect_attr at 1. cbn [tok_events]. apply IH. Qed.

Lemma tok_events_pi_gattrs gs : forall rest,
  tok_events None (map expect_gattr gs ++ rest) = tok_events None rest.
Proof. induction gs as [|a gs IH]; intros rest; cbn [map app]; [reflexivity|]. unfold expect_gattr at 1. cbn [tok_events]. apply IH. Qed.

Lemma tok_events_item it rest : item_no_crlf it ->
  tok_events None (expect_item it ++ rest) = ref_item it ++ tok_events None rest.
Proof.
  intros H. destruct it as [t|b|b|ps|n attrs ws|n attrs ws void|n ws|pi n gs ws k]; cbn [expect_item ref_item app tok_events olist item_no_crlf] in *;
    try reflexivity; try contradiction.
  3:{ destruct H as (-> & ->). cbn [tok_events olist]. rewrite <- app_assoc. rewrite tok_events_pi_gattrs. reflexivity. }
  - rewrite <- app_assoc. rewrite tok_events_pi_attrs. reflexivity.
  - rewrite <- app_assoc. rewrite tok_events_attrs by exact H. cbn [app]. destruct void; reflexivity.
Qed.

Lemma tok_events_doc items : Forall item_no_crlf items -> tok_events None (expect_doc items) = ref_events items.
Proof.
  intros H. induction H as [|it items Hit Hr IH]; [reflexivity|].
  unfold expect_doc, ref_events. cbn [map concat]. rewrite tok_events_item by exact Hit. f_equal. exact IH.
Qed.

(* the lexer's tokens of a grammar document without CR LF in attribute values report the reference events *)
Theorem xml_agrees_with_reference_proof : forall items, doc_ok items -> Forall item_no_crlf items ->
  exists toks, lexes (xml_init (render_doc items)) toks 1 /\ tok_events None toks = ref_events items.
Proof.
  intros items Hok Hn. exists (expect_doc items). split; [apply xml_wellformed_tokens_proof; exact Hok|].
  apply tok_events_doc. exact Hn.
Qed.

(* the exact exception: a CR LF pair inside a quoted value.  <a b="x CR LF y"/> : the reference reports the
   value x SP y, the lexer's AttrVal (quotes stripped) is x SP SP y *)
Definition ex_crlf_items : list item := [IStart [97] [mkAttr [32] [98] [] [] 34 [120; 13; 10; 121]] [] true].

Theorem xml_attr_crlf_refuted_proof :
  exists toks, lexes (xml_init (render_doc ex_crlf_items)) toks 1 /\
    ref_events ex_crlf_items = [EStart [97] [([98], [120; 32; 121])]; EEnd [97]] /\
    tok_events None toks = [EStart [97] [([98], [120; 32; 32; 121])]; EEnd [97]].
Proof.
  exists (expect_doc ex_crlf_items). split; [|split; vm_compute; reflexivity].
  apply xml_wellformed_checked_proof. vm_compute. reflexivity.
Qed.

Example ex_agree_hyp : Forall item_no_crlf ex_items.
Proof. unfold ex_items. repeat constructor; cbn; intuition lia. Qed.
