(* Xml/Harness.v — correspondence driver for the XML lexer model (C11). *)
From Verif Require Import Common.Base Common.Codec Common.Lx Xml.Model.

(* a slice as observed: nil = -1 -1; empty = -2 -2 (Go keeps no reliable address for a
   zero-capacity slice); otherwise lo hi bytes... *)
Definition enc_sl (b : list Z) (s : sl) : list Z :=
  match s with
  | None => [-1; -1]
  | Some (lo, hi) => if lo =? hi then [-2; -2] else lo :: hi :: slice b lo hi
  end.

(* the token itself additionally reports cap - len (0: three-index slices) *)
Definition enc_tok (b : list Z) (s : sl) : list Z :=
  match s with
  | None => [-1; -1]
  | Some (lo, hi) => if lo =? hi then [-2; -2] else lo :: hi :: 0 :: slice b lo hi
  end.

(* per call: type, token, Text(), AttrVal(), Offset(), Err() kind.  After the first ErrorToken
   [extra] more calls are made.  -1 = panic, -3 = out of fuel, at the end -2 then the buffer. *)
Fixpoint run_enc (fuel : nat) (extra : Z) (s : xst) : list Z :=
  match fuel with
  | O => [-3]
  | S k =>
      match next s with
      | None => [-1]
      | Some (ty, d, s') =>
          let b := lbuf (xr s') in
          tt_code ty :: enc_tok b d ++ enc_sl b (xtext s') ++ enc_sl b (xattr s')
            ++ [lpos (xr s'); xml_err s']
            ++ (match ty with
                | TError => if extra <=? 0 then -2 :: firstz (lx_len (xr s')) b else run_enc k (extra - 1) s'
                | _ => run_enc k extra s'
                end)
      end
  end.

(* case: extra |d| d *)
Definition run_xmllex (l : list Z) : list Z :=
  let extra := hdz l in
  let '(d, _) := take_list (tlz l) in
  run_enc (length d + 5) extra (xml_init d).
