(* Xml/Harness.v — correspondence driver for the XML lexer model (C11). *)
From Verif Require Import Common.Base Common.Codec Common.Lx Xml.Model Xml.WellFormed Xml.Checker Xml.Agree.

(* a slice as observed: nil = -1 -1; empty = -2 -2 (Go keeps no reliable address for a
   zero-capacity slice); otherwise lo hi bytes... *)
Definition enc_sl (b : list Z) (s : sl) : list Z :=
  match s with
  | None => [-1; -1]
  | Some (lo, hi) => if lo =? hi then [-2; -2] else lo :: hi :: slice b lo hi
  end.

(* the token itself additionally reports cap - len (0: three-index slices) *)
Definition enc_tok (b : list Z) (s : sl) : list Z :=
  match s with
  | None => [-1; -1]
  | Some (lo, hi) => if lo =? hi then [-2; -2] else lo :: hi :: 0 :: slice b lo hi
  end.

(* per call: type, token, Text(), AttrVal(), Offset(), Err() kind.  After the first ErrorToken
   [extra] more calls are made.  -1 = panic, -3 = out of fuel, at the end -2 then the buffer. *)
Fixpoint run_enc (fuel : nat) (extra : Z) (s : xst) : list Z :=
  match fuel with
  | O => [-3]
  | S k =>
      match next s with
      | None => [-1]
      | Some (ty, d, s') =>
          let b := lbuf (xr s') in
          tt_code ty :: enc_tok b d ++ enc_sl b (xtext s') ++ enc_sl b (xattr s')
            ++ [lpos (xr s'); xml_err s']
            ++ (match ty with
                | TError => if extra <=? 0 then -2 :: firstz (lx_len (xr s')) b else run_enc k (extra - 1) s'
                | _ => run_enc k extra s'
                end)
      end
  end.

(* case: extra |d| d *)
Definition run_xmllex (l : list Z) : list Z :=
  let extra := hdz l in
  let '(d, _) := take_list (tlz l) in
  run_enc (length d + 5) extra (xml_init d).

(* ---- second entry point: the specification (grammar, render_doc, expect_doc, doc_okb) -------------------- *)
(* case: a document as a list of constructs (encoding: see harness/c11spec.go encItems).
   output: -9 undecodable; -5 the grammar's side conditions fail; otherwise
   -4 |bytes| bytes ntokens (type data text attr)* 1   with nil = -1 and bytes = len b1..bn *)
Definition dec_bytes (l : list Z) : option (list Z * list Z) :=
  match l with
  | [] => None
  | n :: t => if (0 <=? n) && (n <=? len t) then Some (firstz n t, skipz n t) else None
  end.

Definition dec_count (l : list Z) : option (nat * list Z) :=
  match l with
  | [] => None
  | n :: t => if (0 <=? n) && (n <=? len t) then Some (Z.to_nat n, t) else None
  end.

Fixpoint dec_n {A} (dec1 : list Z -> option (A * list Z)) (n : nat) (l : list Z) : option (list A * list Z) :=
  match n with
  | O => Some ([], l)
  | S k => r <- dec1 l ;; rs <- dec_n dec1 k (snd r) ;; Some (fst r :: fst rs, snd rs)
  end.

Definition dec_attr (l : list Z) : option (attr * list Z) :=
  lead <- dec_bytes l ;; name <- dec_bytes (snd lead) ;; ws1 <- dec_bytes (snd name) ;; ws2 <- dec_bytes (snd ws1) ;;
  match snd ws2 with
  | [] => None
  | q :: t => val <- dec_bytes t ;; Some (mkAttr (fst lead) (fst name) (fst ws1) (fst ws2) q (fst val), snd val)
  end.

(* a general piece: lead name vkind [w1 w2 [q] val]   vkind: 0 none, 1 unquoted, 2 quoted, 3 quoted and cut by ?> *)
Definition dec_gattr (l : list Z) : option (gattr * list Z) :=
  lead <- dec_bytes l ;; name <- dec_bytes (snd lead) ;;
  match snd name with
  | [] => None
  | vk :: t =>
      if vk =? 0 then Some (mkG (fst lead) (fst name) VNone, t)
      else
        w1 <- dec_bytes t ;; w2 <- dec_bytes (snd w1) ;;
        if vk =? 1 then x <- dec_bytes (snd w2) ;; Some (mkG (fst lead) (fst name) (VUnq (fst w1) (fst w2) (fst x)), snd x)
        else match snd w2 with
             | [] => None
             | q :: t' =>
                 x <- dec_bytes t' ;;
                 Some (mkG (fst lead) (fst name)
                           (if vk =? 3 then VQuoCut (fst w1) (fst w2) q (fst x) else VQuo (fst w1) (fst w2) q (fst x)), snd x)
             end
  end.

Definition dec_dinner (l : list Z) : option (dinner * list Z) :=
  match l with
  | [] => None
  | k :: t =>
      if k =? 0 then match t with [] => None | c :: t' => Some (DIChar c, t') end
      else if k =? 1 then s <- dec_bytes t ;; Some (DIStr (fst s), snd s)
      else if k =? 3 then s <- dec_bytes t ;; Some (DIStrS (fst s), snd s)
      else if k =? 4 then s <- dec_bytes t ;; Some (DILt (fst s), snd s)
      else if k =? 5 then s <- dec_bytes t ;; Some (DIComment (fst s), snd s)
      else if k =? 6 then s <- dec_bytes t ;; Some (DIPI (fst s), snd s)
      else None
  end.

Definition dec_dpiece (l : list Z) : option (dpiece * list Z) :=
  match l with
  | [] => None
  | k :: t =>
      if k =? 0 then match t with [] => None | c :: t' => Some (DChar c, t') end
      else if k =? 1 then s <- dec_bytes t ;; Some (DStr (fst s), snd s)
      else if k =? 3 then s <- dec_bytes t ;; Some (DStrS (fst s), snd s)
      else c <- dec_count t ;; r <- dec_n dec_dinner (fst c) (snd c) ;; Some (DSub (fst r), snd r)
  end.

Definition dec_item (l : list Z) : option (item * list Z) :=
  match l with
  | [] => None
  | k :: t =>
      if k =? 0 then b <- dec_bytes t ;; Some (IText (fst b), snd b)
      else if k =? 1 then b <- dec_bytes t ;; Some (IComment (fst b), snd b)
      else if k =? 2 then b <- dec_bytes t ;; Some (ICdata (fst b), snd b)
      else if k =? 3 then c <- dec_count t ;; r <- dec_n dec_dpiece (fst c) (snd c) ;; Some (IDoctype (fst r), snd r)
      else if (k =? 4) || (k =? 5) then
        n <- dec_bytes t ;; c <- dec_count (snd n) ;; ats <- dec_n dec_attr (fst c) (snd c) ;;
        ws <- dec_bytes (snd ats) ;;
        if k =? 4 then Some (IPI (fst n) (fst ats) (fst ws), snd ws)
        else match snd ws with
             | [] => None
             | v :: t' => Some (IStart (fst n) (fst ats) (fst ws) (negb (v =? 0)), t')
             end
      else if k =? 6 then n <- dec_bytes t ;; ws <- dec_bytes (snd n) ;; Some (IEnd (fst n) (fst ws), snd ws)
      else if k =? 7 then
        match t with
        | [] => None
        | pi :: t1 =>
            n <- dec_bytes t1 ;; c <- dec_count (snd n) ;; gs <- dec_n dec_gattr (fst c) (snd c) ;;
            ws <- dec_bytes (snd gs) ;;
            match snd ws with
            | [] => None
            | kc :: t' =>
                let kt := if kc =? 7 then TStartTagCloseVoid else if kc =? 8 then TStartTagClosePI else TStartTagClose in
                Some (ITag (negb (pi =? 0)) (fst n) (fst gs) (fst ws) kt, t')
            end
        end
      else None
  end.

Definition enc_bytes (b : list Z) : list Z := len b :: b.
Definition enc_opt (o : option (list Z)) : list Z := match o with None => [-1] | Some b => enc_bytes b end.
Definition enc_etok (t : etok) : list Z :=
  tt_code (fst (fst (fst t))) :: enc_opt (snd (fst (fst t))) ++ enc_opt (snd (fst t)) ++ enc_opt (snd t).

Definition run_xmlspec (l : list Z) : list Z :=
  match (c <- dec_count l ;; dec_n dec_item (fst c) (snd c)) with
  | None => [-9]
  | Some (items, _) =>
      if doc_okb items
      then -4 :: enc_bytes (render_doc items) ++ len (expect_doc items) :: concat (map enc_etok (expect_doc items)) ++ [1]
      else [-5]
  end.

(* ---- third entry point: the reference semantics (Xml/Agree.v) ---------------------------------------------------- *)
(* case: a document as for xmlspec.  output: -9 / -5 as above, otherwise
   -4 nevents (kind name [nattrs (name value)*])*   kind: 0 start, 1 end, 2 processing instruction *)
Definition enc_xevent (e : xevent) : list Z :=
  match e with
  | EStart n attrs => 0 :: enc_bytes n ++ len attrs :: concat (map (fun a => enc_bytes (fst a) ++ enc_bytes (snd a)) attrs)
  | EEnd n => 1 :: enc_bytes n
  | EPI t => 2 :: enc_bytes t
  end.

Definition run_xmlref (l : list Z) : list Z :=
  match (c <- dec_count l ;; dec_n dec_item (fst c) (snd c)) with
  | None => [-9]
  | Some (items, _) =>
      if doc_okb items
      then -4 :: len (ref_events items) :: concat (map enc_xevent (ref_events items))
      else [-5]
  end.
