(* Xml/Step.v — what one call of Next does on a well-formed state: a case view with the facts the
   structural theorems need (totality, progress, tiling, sub-slices, bracketing, NUL). *)
From Verif Require Import Common.Base Common.Tactics Common.Lx Xml.Model Xml.Lemmas.
From Coq Require Import ZifyBool.

(* bytes lo..hi-1 of b are not NUL *)
Definition nzr (b : list Z) (lo hi : Z) : Prop := forall i, lo <= i < hi -> getz b i <> 0.

(* z' is z moved forward over non-NUL bytes: same buffer, same start *)
Definition adv (z z' : lx) : Prop :=
  lbuf z' = lbuf z /\ lstart z' = lstart z /\ lpos z <= lpos z' /\ lpos z' <= lx_len z /\
  nzr (lbuf z) (lpos z) (lpos z').

Lemma lx_len_eq z z' : lbuf z' = lbuf z -> lx_len z' = lx_len z.
Proof. unfold lx_len. intros ->. reflexivity. Qed.

Lemma adv_refl z : lx_wf z -> adv z z.
Proof.
  intros H. pose proof (wf_range z H). unfold adv, nzr. repeat split; try lia.
Qed.

Lemma adv_len z z' : adv z z' -> lx_len z' = lx_len z.
Proof. intros (H & _). apply lx_len_eq. exact H. Qed.

Lemma adv_trans z1 z2 z3 : adv z1 z2 -> adv z2 z3 -> adv z1 z3.
Proof.
  intros (A1 & A2 & A3 & A4 & A5) (B1 & B2 & B3 & B4 & B5).
  pose proof (lx_len_eq _ _ A1) as E. unfold adv, nzr in *. rewrite B1, A1, B2, A2.
  repeat split; try lia. intros i Hi. destruct (Z.lt_ge_cases i (lpos z2)).
  - apply A5. lia.
  - rewrite <- A1. apply B5. lia.
Qed.

Lemma adv_wf z z' : lx_wf z -> adv z z' -> lx_wf z'.
Proof.
  intros H (A1 & A2 & A3 & A4 & A5). pose proof (wf_range z H). destruct H as ((b & Hb) & _).
  unfold lx_wf. rewrite (lx_len_eq _ _ A1), A1, A2. split; [eauto|lia].
Qed.

Lemma adv_mv z n : lx_wf z -> 0 <= n -> lpos z + n <= lx_len z ->
  nzr (lbuf z) (lpos z) (lpos z + n) -> adv z (mv z n).
Proof.
  intros H Hn Hl Hz. unfold adv. cbn [lbuf lstart lpos mv]. repeat split; try lia. exact Hz.
Qed.

(* k bytes known to be non-NUL can be moved over *)
Lemma nz_run z k : lx_wf z -> 0 <= k ->
  (forall j, 0 <= j < k -> getz (lbuf z) (lpos z + j) <> 0) -> lpos z + k <= lx_len z.
Proof.
  intros H Hk. pose proof (wf_range z H) as Hr. revert k Hk.
  apply (natlike_ind (fun k => (forall j, 0 <= j < k -> getz (lbuf z) (lpos z + j) <> 0) -> lpos z + k <= lx_len z)).
  - intros _. lia.
  - intros k Hk IH Hj. assert (lpos z + k <= lx_len z) by (apply IH; intros; apply Hj; lia).
    assert (lpos z + k < lx_len z) by (apply nz_lt; [assumption|lia|apply Hj; lia]). lia.
Qed.

Lemma adv_mvk z k : lx_wf z -> 0 <= k ->
  (forall j, 0 <= j < k -> getz (lbuf z) (lpos z + j) <> 0) -> adv z (mv z k).
Proof.
  intros H Hk Hj. apply adv_mv; try assumption.
  - apply nz_run; assumption.
  - intros i Hi. replace i with (lpos z + (i - lpos z)) by lia. apply Hj. lia.
Qed.

(* ---- Lexeme / Shift on a well-formed cursor ---------------------------------------------------- *)
Lemma lexeme_wf z : lx_wf z -> exists u, lexeme z = Some u.
Proof.
  intros H. pose proof (wf_range z H). unfold lexeme, slice_ok. unfold lx_len in *. zb. cbn. eauto.
Qed.

Lemma shift_c_wf z : lx_wf z -> shift_c z = Some ((lstart z, lpos z), skip z).
Proof. intros H. unfold shift_c. destruct (lexeme_wf z H) as (u & ->). reflexivity. Qed.

Lemma lex_sub_wf z a b : lx_wf z -> 0 <= a <= b -> b <= mark z ->
  lex_sub z a b = Some (lstart z + a, lstart z + b).
Proof.
  intros H Ha Hb. unfold lex_sub. destruct (lexeme_wf z H) as (u & ->). cbn [option_bind].
  unfold slice_ok. zb. reflexivity.
Qed.

Lemma skip_wf z : lx_wf z -> lx_wf (skip z).
Proof.
  intros H. pose proof (wf_range z H). destruct H as (Hb & _). unfold lx_wf, lx_len in *.
  cbn [lbuf lstart lpos skip]. split; [exact Hb|lia].
Qed.

(* ---- results of the shift* functions ----------------------------------------------------------------- *)
(* r is the result of a shift* function started at z: the token is lstart z .. lpos zf where zf is
   z advanced over non-NUL bytes, Text() lies inside the token *)
Definition sl_in (t : sl) (lo hi : Z) : Prop :=
  match t with None => True | Some (a, b) => lo <= a /\ a <= b /\ b <= hi end.

Definition shifted (z : lx) (r : sres) : Prop :=
  exists zf, adv z zf /\ snd r = skip zf /\ snd (fst r) = (lstart z, lpos zf) /\
             sl_in (fst (fst r)) (lstart z) (lpos zf).

Lemma is_ws_0 : is_ws 0 = false. Proof. reflexivity. Qed.
Lemma until_0 c : until c 0 = false. Proof. unfold until. rewrite orb_true_r. reflexivity. Qed.

Lemma until_nz stop b lo hi : (forall i, lo <= i < hi -> until stop (getz b i) = true) -> nzr b lo hi.
Proof.
  intros H i Hi E. specialize (H i Hi). rewrite E, until_0 in H. discriminate.
Qed.

Lemma is_ws_nz b lo hi : (forall i, lo <= i < hi -> is_ws (getz b i) = true) -> nzr b lo hi.
Proof. intros H i Hi E. specialize (H i Hi). rewrite E in H. discriminate. Qed.

Lemma name_nz pi eq b lo hi : (forall i, lo <= i < hi -> name_stop pi eq (getz b i) (getz b (i + 1)) = false) -> nzr b lo hi.
Proof. intros H i Hi. eapply name_stop_false_nz. apply H. exact Hi. Qed.

Lemma shift_start_tag_spec pi z : lx_wf z ->
  exists r, shift_start_tag pi z = Some r /\ shifted z r.
Proof.
  intros H. pose proof (wf_range z H) as Hr. unfold shift_start_tag.
  destruct (scan_name_lx pi false z H) as (n & Hn & H0 & H1 & H2 & H3). rewrite Hn. cbn [option_bind].
  assert (A : adv z (mv z n)) by (apply adv_mv; try assumption; eapply name_nz; exact H2).
  pose proof (adv_wf _ _ H A) as W.
  rewrite lex_sub_wf by (try assumption; unfold mark; cbn [lpos lstart mv]; lia). cbn [option_bind].
  rewrite shift_c_wf by assumption. cbn [option_bind fst snd].
  eexists. split; [reflexivity|]. exists (mv z n). split; [exact A|]. cbn [fst snd lstart lpos mv]. unfold mark, sl_in.
  repeat split; cbn [lstart lpos mv]; lia.
Qed.

Lemma count_ws_bound l : 0 <= count_ws l <= len l.
Proof.
  induction l as [|c t IH]; cbn [count_ws]; [change (len (@nil Z)) with 0; lia|].
  rewrite len_cons. destruct (is_ws c); lia.
Qed.

Lemma len_rev {A} (l : list A) : len (rev l) = len l.
Proof. unfold len. rewrite rev_length. reflexivity. Qed.

Lemma count_ws_rev_slice b lo hi : 0 <= lo <= hi -> hi <= len b ->
  0 <= count_ws (rev (slice b lo hi)) <= hi - lo.
Proof.
  intros H1 H2. pose proof (count_ws_bound (rev (slice b lo hi))) as Hc.
  rewrite len_rev, len_slice in Hc by lia. exact Hc.
Qed.

Lemma shift_end_tag_spec z : lx_wf z -> 2 <= mark z ->
  exists r, shift_end_tag z = Some r /\ shifted z r.
Proof.
  intros H Hm. pose proof (wf_range z H) as Hr. unfold shift_end_tag, mark in *.
  destruct (scan_while_lx (until 62) z H (until_0 62)) as (n & Hn & H0 & H1 & H2 & H3). rewrite Hn. cbn [option_bind].
  assert (A : adv z (mv z n)) by (apply adv_mv; try assumption; eapply until_nz; exact H2).
  pose proof (adv_wf _ _ H A) as W.
  rewrite (pk_getz (mv z n) 0 W) by (cbn [lpos lbuf mv]; rewrite (adv_len _ _ A); lia). cbn [option_bind].
  rewrite lex_sub_wf by (try assumption; unfold mark; cbn [lpos lstart mv]; lia). cbn [option_bind fst snd].
  set (c := getz (lbuf (mv z n)) (lpos (mv z n) + 0)).
  set (k := count_ws _).
  assert (Hk : 0 <= k <= lpos z + n - (lstart z + 2)).
  { subst k. match goal with |- context [count_ws (rev (slice ?b ?lo ?hi))] =>
      pose proof (count_ws_rev_slice b lo hi) as Hc end.
    cbn [lstart lpos lbuf mv] in *. unfold lx_len in *. lia. }
  assert (A2 : adv z (if c =? 62 then mv (mv z n) 1 else mv z n)).
  { destruct (Z.eqb_spec c 62) as [E|E]; [|exact A]. eapply adv_trans; [exact A|].
    apply adv_mvk; [assumption|lia|]. intros j Hj. replace j with 0 by lia. fold c. lia. }
  rewrite shift_c_wf by (exact (adv_wf _ _ H A2)). cbn [option_bind].
  eexists. split; [reflexivity|]. eexists. split; [exact A2|]. cbn [fst snd].
  destruct A2 as (B1 & B2 & B3 & B4 & B5). rewrite B2. repeat split; try reflexivity.
  all: destruct (c =? 62); cbn [lstart lpos mv] in *; lia.
Qed.

Lemma nzl_comment_end : nzl pat_comment_end. Proof. repeat constructor; lia. Qed.
Lemma nzl_cdata_end : nzl pat_cdata_end. Proof. repeat constructor; lia. Qed.
Lemma nzl_comment : nzl pat_comment. Proof. repeat constructor; lia. Qed.
Lemma nzl_cdata : nzl pat_cdata. Proof. repeat constructor; lia. Qed.
Lemma nzl_doctype : nzl pat_doctype. Proof. repeat constructor; lia. Qed.

(* after a found closer of length 3 the cursor can move over it *)
Lemma adv_pat z pat : lx_wf z -> nzl pat ->
  (forall j, 0 <= j < len pat -> getz (lbuf z) (lpos z + j) = getz pat j) -> adv z (mv z (len pat)).
Proof.
  intros H Hp Hj. apply adv_mvk; [assumption|apply len_nonneg|].
  intros j Hjr. rewrite Hj by assumption. apply nzl_getz; assumption.
Qed.

Lemma shift_comment_spec z : lx_wf z -> 4 <= mark z ->
  exists r, shift_comment z = Some r /\ shifted z r.
Proof.
  intros H Hm. pose proof (wf_range z H) as Hr. unfold shift_comment, mark in *.
  destruct (scan_until_lx pat_comment_end z H nzl_comment_end) as (n & f & Hn & H0 & H1 & H2 & H3).
  rewrite Hn. cbn [option_bind fst snd].
  assert (A : adv z (mv z n)) by (apply adv_mv; assumption).
  pose proof (adv_wf _ _ H A) as W. destruct f.
  - destruct H3 as (H3 & H4).
    rewrite lex_sub_wf by (try assumption; unfold mark; cbn [lpos lstart mv]; lia). cbn [option_bind].
    assert (A2 : adv (mv z n) (mv (mv z n) 3)) by (apply (adv_pat (mv z n) pat_comment_end W nzl_comment_end); exact H4).
    pose proof (adv_trans _ _ _ A A2) as A3.
    rewrite shift_c_wf by (exact (adv_wf _ _ H A3)). cbn [option_bind].
    eexists. split; [reflexivity|]. eexists. split; [exact A3|]. cbn [fst snd lstart lpos mv].
    repeat split; unfold mark; cbn [lstart lpos mv]; lia.
  - rewrite shift_c_wf by assumption. cbn [option_bind].
    eexists. split; [reflexivity|]. eexists. split; [exact A|]. cbn [fst snd lstart lpos mv].
    repeat split.
Qed.

Lemma shift_cdata_spec z : lx_wf z -> 9 <= mark z ->
  exists r, shift_cdata z = Some r /\ shifted z r.
Proof.
  intros H Hm. pose proof (wf_range z H) as Hr. unfold shift_cdata, mark in *.
  destruct (scan_until_lx pat_cdata_end z H nzl_cdata_end) as (n & f & Hn & H0 & H1 & H2 & H3).
  rewrite Hn. cbn [option_bind fst snd].
  assert (A : adv z (mv z n)) by (apply adv_mv; assumption).
  pose proof (adv_wf _ _ H A) as W.
  rewrite lex_sub_wf by (try assumption; unfold mark; cbn [lpos lstart mv]; lia). cbn [option_bind].
  assert (A3 : adv z (if f then mv (mv z n) 3 else mv z n)).
  { destruct f; [|exact A]. destruct H3 as (H3 & H4). eapply adv_trans; [exact A|].
    apply (adv_pat (mv z n) pat_cdata_end W nzl_cdata_end). exact H4. }
  rewrite shift_c_wf by (exact (adv_wf _ _ H A3)). cbn [option_bind].
  eexists. split; [reflexivity|]. eexists. split; [exact A3|]. cbn [fst snd].
  destruct A3 as (B1 & B2 & B3 & B4 & B5). rewrite B2.
  repeat split; unfold mark; cbn [lstart lpos mv] in *; try lia.
  destruct f; cbn [lstart lpos mv] in *; lia.
Qed.

Lemma shift_doctype_spec z : lx_wf z -> 9 <= mark z ->
  exists r, shift_doctype z = Some r /\ shifted z r.
Proof.
  intros H Hm. pose proof (wf_range z H) as Hr. unfold shift_doctype, mark in *.
  destruct (scan_doctype_lx z H) as (n & f & Hn & H0 & H1 & H2 & H3).
  rewrite Hn. cbn [option_bind fst snd].
  assert (A : adv z (mv z n)) by (apply adv_mv; assumption).
  pose proof (adv_wf _ _ H A) as W.
  rewrite lex_sub_wf by (try assumption; unfold mark; cbn [lpos lstart mv]; lia). cbn [option_bind].
  assert (A3 : adv z (if f then mv (mv z n) 1 else mv z n)).
  { destruct f; [|exact A]. eapply adv_trans; [exact A|].
    apply adv_mvk; [assumption|lia|]. intros j Hj. replace j with 0 by lia.
    cbn [lbuf lpos mv]. replace (lpos z + n + 0) with (lpos z + n) by lia. rewrite H3. lia. }
  rewrite shift_c_wf by (exact (adv_wf _ _ H A3)). cbn [option_bind].
  eexists. split; [reflexivity|]. eexists. split; [exact A3|]. cbn [fst snd].
  destruct A3 as (B1 & B2 & B3 & B4 & B5). rewrite B2.
  repeat split; unfold mark; cbn [lstart lpos mv] in *; try lia.
  destruct f; cbn [lstart lpos mv] in *; lia.
Qed.

(* ---- the in-place normalisation of a quoted value ------------------------------------------------- *)
Lemma ws2sp_0 : ws2sp 0 = 0. Proof. reflexivity. Qed.

Lemma ws2sp_nz c : c <> 0 -> ws2sp c <> 0.
Proof. unfold ws2sp. destruct ((c =? 9) || (c =? 10) || (c =? 13)); lia. Qed.

Lemma getz_map_ws2sp l i : getz (map ws2sp l) i = ws2sp (getz l i).
Proof.
  destruct (Z.lt_ge_cases i 0) as [Hn|Hn]; [rewrite !getz_neg by lia; reflexivity|].
  rewrite !getz_nth by lia. rewrite <- ws2sp_0 at 1. apply map_nth.
Qed.

Lemma len_map {A B} (f : A -> B) l : len (map f l) = len l.
Proof. unfold len. rewrite map_length. reflexivity. Qed.

Lemma getz_firstz l n i : i < n -> getz (firstz n l) i = getz l i.
Proof.
  intros H. destruct (Z.lt_ge_cases i 0) as [Hn|Hn]; [rewrite !getz_neg by lia; reflexivity|].
  rewrite !getz_nth by lia. unfold firstz.
  rewrite <- (firstn_skipn (Z.to_nat n) l) at 2.
  destruct (Nat.lt_ge_cases (Z.to_nat i) (length (firstn (Z.to_nat n) l))) as [Hl|Hl].
  - rewrite app_nth1 by exact Hl. reflexivity.
  - rewrite (nth_overflow (firstn _ _)) by lia. rewrite firstn_length in Hl.
    symmetry. rewrite app_nth2 by (rewrite firstn_length; lia). rewrite firstn_length.
    apply nth_overflow. rewrite skipn_length. lia.
Qed.

Lemma getz_slice l lo hi j : 0 <= lo -> 0 <= j < hi - lo -> getz (slice l lo hi) j = getz l (lo + j).
Proof.
  intros Hlo Hj. unfold slice. rewrite getz_firstz by lia. apply getz_skipz; lia.
Qed.

Lemma len_norm_range b lo hi : 0 <= lo <= hi -> hi <= len b -> len (norm_range b lo hi) = len b.
Proof.
  intros H1 H2. unfold norm_range. rewrite !len_app, len_map, len_firstz, len_slice, len_skipz by lia. lia.
Qed.

Lemma getz_norm_range b lo hi i : 0 <= lo <= hi -> hi <= len b ->
  getz (norm_range b lo hi) i = if (lo <=? i) && (i <? hi) then ws2sp (getz b i) else getz b i.
Proof.
  intros H1 H2. unfold norm_range.
  destruct (Z.leb_spec lo i) as [L|L]; cbn [andb].
  - rewrite getz_app2 by (rewrite len_firstz; lia). rewrite len_firstz by lia.
    destruct (Z.ltb_spec i hi) as [R|R].
    + rewrite getz_app1 by (rewrite len_map, len_slice; lia). rewrite getz_map_ws2sp.
      rewrite getz_slice by lia. f_equal. f_equal. lia.
    + rewrite getz_app2 by (rewrite len_map, len_slice; lia). rewrite len_map, len_slice by lia.
      rewrite getz_skipz by lia. f_equal. lia.
  - rewrite getz_app1 by (rewrite len_firstz; lia). apply getz_firstz. lia.
Qed.

Lemma firstz_all {A} (l : list A) n : len l <= n -> firstz n l = l.
Proof. intros H. unfold firstz. apply firstn_all2. unfold len in H. lia. Qed.

Lemma norm_range_empty b lo : norm_range b lo lo = b.
Proof.
  unfold norm_range, slice. replace (lo - lo) with 0 by lia. cbn [firstz Z.to_nat firstn map app].
  apply firstn_skipn.
Qed.

Lemma firstz_app_le {A} n (a b : list A) : n <= len a -> firstz n (a ++ b) = firstz n a.
Proof.
  intros H. unfold firstz, len in *. rewrite firstn_app.
  replace (Z.to_nat n - length a)%nat with 0%nat by lia. cbn. apply app_nil_r.
Qed.

Lemma norm_range_snoc b lo hi : 0 <= lo <= hi -> hi <= len b ->
  norm_range (b ++ [0]) lo hi = norm_range b lo hi ++ [0].
Proof.
  intros H1 H2. unfold norm_range. rewrite firstz_app_le by lia. rewrite slice_app_l by lia.
  rewrite skipz_app_le by lia. rewrite <- !app_assoc. reflexivity.
Qed.

(* z' is z moved forward over non-NUL bytes; the buffer was normalised on [lo,hi), inside the bytes moved over *)
Definition advw (z z' : lx) (lo hi : Z) : Prop :=
  lbuf z' = norm_range (lbuf z) lo hi /\ lstart z' = lstart z /\ lpos z <= lo /\ lo <= hi /\
  hi <= lpos z' /\ lpos z' <= lx_len z /\ nzr (lbuf z) (lpos z) (lpos z').

Lemma adv_advw z z' : adv z z' -> advw z z' (lpos z) (lpos z).
Proof.
  intros (A1 & A2 & A3 & A4 & A5). unfold advw. rewrite norm_range_empty. repeat split; try assumption; lia.
Qed.

Lemma advw_len z z' lo hi : lx_wf z -> advw z z' lo hi -> lx_len z' = lx_len z.
Proof.
  intros H (A1 & A2 & A3 & A4 & A5 & A6 & A7). pose proof (wf_range z H). unfold lx_len in *. rewrite A1.
  rewrite len_norm_range by lia. reflexivity.
Qed.

Lemma advw_wf z z' lo hi : lx_wf z -> advw z z' lo hi -> lx_wf z'.
Proof.
  intros H A. pose proof (advw_len _ _ _ _ H A) as E.
  destruct A as (A1 & A2 & A3 & A4 & A5 & A6 & A7). pose proof (wf_range z H).
  destruct (wf_buf z H) as (b & Hb & Hl).
  unfold lx_wf. rewrite E, A2. split; [|lia].
  exists (norm_range b lo hi). rewrite A1, Hb. apply norm_range_snoc; lia.
Qed.

Lemma advw_trans_adv z1 z2 z3 lo hi : lx_wf z1 -> adv z1 z2 -> advw z2 z3 lo hi -> advw z1 z3 lo hi.
Proof.
  intros H (A1 & A2 & A3 & A4 & A5) (B1 & B2 & B3 & B4 & B5 & B6 & B7).
  pose proof (lx_len_eq _ _ A1) as E. unfold advw. rewrite B1, A1, B2, A2.
  repeat split; try lia. intros i Hi. destruct (Z.lt_ge_cases i (lpos z2)).
  - apply A5. lia.
  - rewrite <- A1. apply B7. lia.
Qed.

Lemma advw_trans_adv_r z1 z2 z3 lo hi : lx_wf z1 -> advw z1 z2 lo hi -> adv z2 z3 -> advw z1 z3 lo hi.
Proof.
  intros H A (B1 & B2 & B3 & B4 & B5). pose proof (advw_len _ _ _ _ H A) as E.
  destruct A as (A1 & A2 & A3 & A4 & A5 & A6 & A7). pose proof (wf_range z1 H).
  unfold advw. rewrite B1, A1, B2, A2. repeat split; try lia.
  intros i Hi. destruct (Z.lt_ge_cases i (lpos z2)).
  - apply A7. lia.
  - specialize (B5 i ltac:(lia)). rewrite A1 in B5. rewrite getz_norm_range in B5 by (unfold lx_len in *; lia).
    destruct ((lo <=? i) && (i <? hi)); [|exact B5]. intros E0. rewrite E0 in B5. apply B5. reflexivity.
Qed.

Lemma quoted_value_spec pi delim z : lx_wf z -> delim <> 0 ->
  exists n z', quoted_value pi delim z = Some z' /\ 0 <= n /\
    advw z z' (lpos z) (lpos z + n) /\
    (lpos z' = lpos z + n + 1 /\ getz (lbuf z) (lpos z + n) = delim \/ lpos z' = lpos z + n).
Proof.
  intros H Hd. pose proof (wf_range z H) as Hr. unfold quoted_value.
  destruct (scan_quoted_lx pi delim z H) as (n & Hn & H0 & H1 & H2 & H3).
  rewrite Hn. cbn [option_bind]. exists n.
  set (z1 := mkLx (norm_range (lbuf z) (lpos z) (lpos z + n)) (lpos z + n) (lstart z)).
  assert (A : advw z z1 (lpos z) (lpos z + n)).
  { unfold advw, z1. cbn [lbuf lstart lpos]. repeat split; try lia. exact H2. }
  pose proof (advw_wf _ _ _ _ H A) as W. pose proof (advw_len _ _ _ _ H A) as E.
  rewrite (pk_getz z1 0 W) by (rewrite E; cbn [lpos z1]; lia). cbn [option_bind].
  assert (Ec : getz (lbuf z1) (lpos z1 + 0) = getz (lbuf z) (lpos z + n)).
  { cbn [lbuf lpos z1]. rewrite getz_norm_range by (unfold lx_len in *; lia).
    replace (lpos z + n + 0) with (lpos z + n) by lia.
    destruct (Z.ltb_spec (lpos z + n) (lpos z + n)); [lia|]. rewrite andb_false_r. reflexivity. }
  rewrite Ec. set (c := getz (lbuf z) (lpos z + n)) in *.
  destruct (Z.eqb_spec c delim) as [E1|E1].
  - eexists. split; [reflexivity|]. split; [exact H0|]. split.
    + eapply advw_trans_adv_r; [exact H|exact A|]. apply adv_mvk; [exact W|lia|].
      intros j Hj. replace j with 0 by lia. rewrite Ec. fold c. lia.
    + left. cbn [lpos mv z1]. split; [lia|exact E1].
  - eexists. split; [reflexivity|]. split; [exact H0|]. split; [exact A|].
    right. reflexivity.
Qed.

(* ---- shiftAttribute ------------------------------------------------------------------------------------ *)
Definition is_quote (c : Z) : Prop := c = 34 \/ c = 39.

Lemma adv_mv1 z : lx_wf z -> getz (lbuf z) (lpos z) <> 0 -> adv z (mv z 1).
Proof.
  intros H Hc. apply adv_mvk; [assumption|lia|]. intros j Hj. replace (lpos z + j) with (lpos z) by lia. exact Hc.
Qed.

Lemma pk0 z : lx_wf z -> pk z 0 = Some (getz (lbuf z) (lpos z)).
Proof.
  intros H. pose proof (wf_range z H). rewrite pk_getz by (try assumption; lia). do 2 f_equal. lia.
Qed.

Lemma shift_attribute_spec pi z : lx_wf z ->
  (name_stop pi true (getz (lbuf z) (lpos z)) (getz (lbuf z) (lpos z + 1)) = false \/ getz (lbuf z) (lpos z) = 61) ->
  exists t a tok z' zf lo hi,
    shift_attribute pi z = Some (Some t, a, tok, z') /\ z' = skip zf /\ tok = (lstart z, lpos zf) /\
    advw z zf lo hi /\ lpos z < lpos zf /\
    sl_in (Some t) (lpos z) (lpos zf) /\ sl_in a (lpos z) (lpos zf) /\
    (lo < hi -> exists aa ab, a = Some (aa, ab) /\ lo = aa + 1 /\ hi <= ab /\ is_quote (getz (lbuf z) aa)).
Proof.
  intros H Hentry. pose proof (wf_range z H) as Hr. unfold shift_attribute.
  destruct (scan_name_lx pi true z H) as (n1 & Hn1 & N0 & N1 & N2 & N3). rewrite Hn1. cbn [option_bind].
  assert (A1 : adv z (mv z n1)) by (apply adv_mv; try assumption; eapply name_nz; exact N2).
  pose proof (adv_wf _ _ H A1) as W1.
  destruct (scan_while_lx is_ws (mv z n1) W1 is_ws_0) as (n2 & Hn2 & M0 & M1 & M2 & M3). rewrite Hn2. cbn [option_bind].
  assert (A2 : adv (mv z n1) (mv (mv z n1) n2)) by (apply adv_mv; try assumption; eapply is_ws_nz; exact M2).
  pose proof (adv_wf _ _ W1 A2) as W2. pose proof (adv_trans _ _ _ A1 A2) as A12.
  rewrite (pk0 _ W2). cbn [option_bind]. cbn [lbuf lpos mv] in *.
  set (c := getz (lbuf z) (lpos z + n1 + n2)) in *.
  (* progress: either the name is non-empty or the first byte is '=' *)
  assert (Hprog : 0 < n1 \/ (n1 = 0 /\ n2 = 0 /\ c = 61)).
  { destruct (Z.eq_dec n1 0) as [E|E]; [right|lia]. subst n1.
    replace (lpos z + 0) with (lpos z) in * by lia.
    destruct Hentry as [He|He]; [congruence|].
    assert (n2 = 0).
    { destruct (Z.eq_dec n2 0); [assumption|]. specialize (M2 (lpos z) ltac:(lia)). rewrite He in M2. discriminate. }
    subst n2. split; [reflexivity|]. split; [reflexivity|]. subst c. rewrite <- He. f_equal. lia. }
  destruct (Z.eqb_spec c 61) as [Ec|Ec].
  - (* name = value *)
    assert (A3 : adv (mv (mv z n1) n2) (mv (mv (mv z n1) n2) 1)).
    { apply adv_mv1; [assumption|]. cbn [lbuf lpos mv]. fold c. lia. }
    pose proof (adv_wf _ _ W2 A3) as W3. pose proof (adv_trans _ _ _ A12 A3) as A13.
    destruct (scan_while_lx is_ws _ W3 is_ws_0) as (n3 & Hn3 & K0 & K1 & K2 & K3). rewrite Hn3. cbn [option_bind].
    set (z4 := mv (mv (mv (mv z n1) n2) 1) n3) in *.
    assert (A4 : adv (mv (mv (mv z n1) n2) 1) z4) by (apply adv_mv; try assumption; eapply is_ws_nz; exact K2).
    pose proof (adv_wf _ _ W3 A4) as W4. pose proof (adv_trans _ _ _ A13 A4) as A14.
    rewrite (pk0 _ W4). cbn [option_bind].
    assert (B4 : lbuf z4 = lbuf z /\ lstart z4 = lstart z /\ lpos z4 = lpos z + n1 + n2 + 1 + n3) by (subst z4; cbn [lbuf lstart lpos mv]; auto).
    destruct B4 as (B4b & B4s & B4p).
    set (delim := getz (lbuf z4) (lpos z4)) in *.
    destruct ((delim =? 34) || (delim =? 39)) eqn:Eq.
    + (* quoted *)
      assert (Hq : is_quote delim) by (unfold is_quote; lia).
      assert (A5 : adv z4 (mv z4 1)) by (apply adv_mv1; [assumption|fold delim; unfold is_quote in Hq; lia]).
      pose proof (adv_wf _ _ W4 A5) as W5. pose proof (adv_trans _ _ _ A14 A5) as A15.
      destruct (quoted_value_spec pi delim (mv z4 1) W5 ltac:(unfold is_quote in Hq; lia)) as (n & z6 & Hqv & Q0 & Q1 & Q2).
      rewrite Hqv. cbn [option_bind].
      pose proof (advw_trans_adv _ _ _ _ _ H A15 Q1) as A16.
      pose proof (advw_wf _ _ _ _ H A16) as W6.
      destruct A16 as (C1 & C2 & C3 & C4 & C5 & C6 & C7). cbn [lpos mv] in *.
      rewrite lex_sub_wf by (try assumption; unfold mark; lia). cbn [option_bind fst snd].
      rewrite lex_sub_wf by (try assumption; unfold mark; cbn [lpos lstart mv]; lia). cbn [option_bind].
      rewrite shift_c_wf by assumption. cbn [option_bind fst snd].
      do 4 eexists. exists z6, (lpos z4 + 1), (lpos z4 + 1 + n).
      split; [reflexivity|]. split; [reflexivity|]. split; [rewrite C2; reflexivity|].
      split; [unfold advw; repeat split; assumption|].
      unfold sl_in, mark. cbn [lstart lpos mv]. rewrite !C2.
      split; [lia|]. split; [lia|]. split; [lia|].
      intros _. do 2 eexists. split; [reflexivity|]. split; [lia|]. split; [lia|].
      replace (lstart z + (lpos z4 - lstart z4)) with (lpos z4) by lia. rewrite <- B4b. exact Hq.
    + (* unquoted *)
      destruct (scan_name_lx pi false z4 W4) as (n4 & Hn4 & L0 & L1 & L2 & L3). rewrite Hn4. cbn [option_bind].
      assert (A5 : adv z4 (mv z4 n4)) by (apply adv_mv; try assumption; eapply name_nz; exact L2).
      pose proof (adv_wf _ _ W4 A5) as W5. pose proof (adv_trans _ _ _ A14 A5) as A15.
      destruct A15 as (C1 & C2 & C3 & C4 & C5). cbn [lpos mv] in *.
      rewrite lex_sub_wf by (try assumption; unfold mark; cbn [lpos lstart mv]; lia). cbn [option_bind fst snd].
      rewrite lex_sub_wf by (try assumption; unfold mark; cbn [lpos lstart mv]; lia). cbn [option_bind].
      rewrite shift_c_wf by assumption. cbn [option_bind fst snd].
      do 4 eexists. exists (mv z4 n4), (lpos z), (lpos z).
      split; [reflexivity|]. split; [reflexivity|]. split; [cbn [lstart lpos mv]; rewrite B4s; reflexivity|].
      split; [apply adv_advw; unfold adv; cbn [lpos mv]; repeat split; assumption|].
      unfold sl_in, mark. cbn [lstart lpos mv]. rewrite !B4s.
      split; [lia|]. split; [lia|]. split; [lia|]. intros; lia.
  - (* name only: the cursor goes back to the end of the name *)
    cbn [fst snd].
    assert (Erw : rewind (mv (mv z n1) n2) (mark (mv z n1)) = mv z n1).
    { unfold rewind, mark, mv. cbn [lbuf lstart lpos]. f_equal. lia. }
    rewrite Erw. cbn [option_bind fst snd].
    rewrite lex_sub_wf by (try assumption; unfold mark; cbn [lpos lstart mv]; lia). cbn [option_bind].
    rewrite shift_c_wf by assumption. cbn [option_bind fst snd].
    do 4 eexists. exists (mv z n1), (lpos z), (lpos z).
    split; [reflexivity|]. split; [reflexivity|]. split; [reflexivity|].
    split; [apply adv_advw; exact A1|].
    unfold sl_in, mark. cbn [lstart lpos mv].
    split; [lia|]. split; [lia|]. split; [exact I|]. intros; lia.
Qed.

(* ---- one call of Next ----------------------------------------------------------------------------------- *)
Lemma shifted_adv z z0 r : adv z z0 -> shifted z0 r -> shifted z r.
Proof.
  intros A (zf & A2 & R1 & R2 & R3). exists zf. pose proof (adv_trans _ _ _ A A2) as A3.
  destruct A as (_ & E & _). rewrite E in *. split; [exact A3|]. split; [exact R1|]. split; [exact R2|exact R3].
Qed.

Lemma bang_spec z : lx_wf z -> 2 <= mark z ->
  exists o, bang z = Some o /\
    match o with
    | None => True
    | Some (ty, r) => (ty = TComment \/ ty = TCdata \/ ty = TDoctype) /\ shifted z r
    end.
Proof.
  intros H Hm. unfold bang.
  destruct (at_l_lx pat_comment z H nzl_comment) as (b1 & Hb1 & P1). rewrite Hb1. cbn [option_bind].
  destruct b1.
  { destruct (P1 eq_refl) as (P1a & P1b).
    assert (A : adv z (mv z 2)) by (apply (adv_pat z pat_comment H nzl_comment); exact P1b).
    destruct (shift_comment_spec (mv z 2) (adv_wf _ _ H A)) as (r & Hr & Sr).
    { unfold mark in *. cbn [lpos lstart mv]. lia. }
    rewrite Hr. cbn [option_bind]. eexists. split; [reflexivity|]. split; [auto|]. eapply shifted_adv; eassumption. }
  destruct (at_l_lx pat_cdata z H nzl_cdata) as (b2 & Hb2 & P2). rewrite Hb2. cbn [option_bind].
  destruct b2.
  { destruct (P2 eq_refl) as (P2a & P2b).
    assert (A : adv z (mv z 7)) by (apply (adv_pat z pat_cdata H nzl_cdata); exact P2b).
    destruct (shift_cdata_spec (mv z 7) (adv_wf _ _ H A)) as (r & Hr & Sr).
    { unfold mark in *. cbn [lpos lstart mv]. lia. }
    rewrite Hr. cbn [option_bind]. eexists. split; [reflexivity|]. split; [auto|]. eapply shifted_adv; eassumption. }
  destruct (at_l_lx pat_doctype z H nzl_doctype) as (b3 & Hb3 & P3). rewrite Hb3. cbn [option_bind].
  destruct b3.
  { destruct (P3 eq_refl) as (P3a & P3b).
    assert (A : adv z (mv z 7)) by (apply (adv_pat z pat_doctype H nzl_doctype); exact P3b).
    destruct (shift_doctype_spec (mv z 7) (adv_wf _ _ H A)) as (r & Hr & Sr).
    { unfold mark in *. cbn [lpos lstart mv]. lia. }
    rewrite Hr. cbn [option_bind]. eexists. split; [reflexivity|]. split; [auto|]. eapply shifted_adv; eassumption. }
  eexists. split; [reflexivity|exact I].
Qed.

Definition is_closer (ty : ttype) : bool :=
  match ty with TStartTagClose | TStartTagCloseVoid | TStartTagClosePI => true | _ => false end.
Definition opens_tag (ty : ttype) : bool :=
  match ty with TStartTag | TStartTagPI => true | _ => false end.
Definition is_markup (ty : ttype) : bool :=
  match ty with TEndTag | TComment | TCdata | TDoctype | TStartTag | TStartTagPI => true | _ => false end.

(* inPI after a markup token *)
Definition pi_after (pi : bool) (ty : ttype) : bool := match ty with TStartTagPI => true | _ => pi end.

Definition ws_run (b : list Z) (lo hi : Z) : Prop := forall i, lo <= i < hi -> is_ws (getz b i) = true.

(* The six ways a call of Next ends, with what each does to the state. *)
Inductive view (s : xst) : ttype -> sl -> xst -> Prop :=
| V_err_tag z1 :
    xin s = true -> adv (xr s) z1 -> ws_run (lbuf (xr s)) (lpos (xr s)) (lpos z1) ->
    getz (lbuf (xr s)) (lpos z1) = 0 ->
    view s TError None (mkX z1 (null_err z1 (xerr s)) true (xpi s) None None)
| V_attr z1 t a zf lo hi :
    xin s = true -> adv (xr s) z1 -> ws_run (lbuf (xr s)) (lpos (xr s)) (lpos z1) ->
    advw z1 zf lo hi -> lpos z1 < lpos zf ->
    sl_in (Some t) (lpos z1) (lpos zf) -> sl_in a (lpos z1) (lpos zf) ->
    (lo < hi -> exists aa ab, a = Some (aa, ab) /\ lo = aa + 1 /\ hi <= ab /\ is_quote (getz (lbuf (xr s)) aa)) ->
    view s TAttribute (Some (lstart (xr s), lpos zf)) (mkX (skip zf) (xerr s) true (xpi s) (Some t) a)
| V_closer z1 ty k :
    xin s = true -> adv (xr s) z1 -> ws_run (lbuf (xr s)) (lpos (xr s)) (lpos z1) ->
    adv z1 (mv z1 k) ->
    (ty = TStartTagClose /\ k = 1 /\ getz (lbuf (xr s)) (lpos z1) = 62 \/
     ty = TStartTagCloseVoid /\ k = 2 /\ getz (lbuf (xr s)) (lpos z1) = 47 /\ getz (lbuf (xr s)) (lpos z1 + 1) = 62 \/
     ty = TStartTagClosePI /\ k = 2 /\ getz (lbuf (xr s)) (lpos z1) = 63 /\ getz (lbuf (xr s)) (lpos z1 + 1) = 62) ->
    view s ty (Some (lpos z1, lpos z1 + k)) (mkX (skip (mv (skip z1) k)) (xerr s) false false None None)
| V_text z1 :
    xin s = false -> adv (xr s) z1 -> lstart (xr s) < lpos z1 ->
    (getz (lbuf (xr s)) (lpos z1) = 60 \/ getz (lbuf (xr s)) (lpos z1) = 0) ->
    (forall i, lpos (xr s) <= i < lpos z1 -> getz (lbuf (xr s)) i <> 60) ->
    view s TText (Some (lstart (xr s), lpos z1))
         (mkX (skip z1) (xerr s) false (xpi s) (Some (lstart (xr s), lpos z1)) (xattr s))
| V_markup ty zf t :
    xin s = false -> lstart (xr s) = lpos (xr s) -> getz (lbuf (xr s)) (lpos (xr s)) = 60 ->
    is_markup ty = true -> adv (xr s) zf -> lpos (xr s) < lpos zf -> sl_in t (lstart (xr s)) (lpos zf) ->
    view s ty (Some (lstart (xr s), lpos zf)) (mkX (skip zf) (xerr s) (opens_tag ty) (pi_after (xpi s) ty) t (xattr s))
| V_err_text :
    xin s = false -> lstart (xr s) = lpos (xr s) -> getz (lbuf (xr s)) (lpos (xr s)) = 0 ->
    view s TError None (mkX (xr s) (null_err (xr s) (xerr s)) false (xpi s) None (xattr s)).

Lemma mv_0 z : mv z 0 = z.
Proof. destruct z as [b p st]. unfold mv. cbn [lbuf lpos lstart]. f_equal. lia. Qed.

(* packaging the result of a shift* function as the markup view *)
Lemma view_markup s ty z0 r :
  xin s = false -> lstart (xr s) = lpos (xr s) -> getz (lbuf (xr s)) (lpos (xr s)) = 60 ->
  is_markup ty = true -> adv (xr s) z0 -> lpos (xr s) < lpos z0 -> shifted z0 r ->
  view s ty (Some (snd (fst r))) (mkX (snd r) (xerr s) (opens_tag ty) (pi_after (xpi s) ty) (fst (fst r)) (xattr s)).
Proof.
  intros Hin Hs Hc Hm A Hp Sr. destruct (shifted_adv _ _ _ A Sr) as (zf & A2 & R1 & R2 & R3).
  destruct Sr as (zf' & B1 & B2 & _). rewrite R1, R2.
  assert (lpos z0 <= lpos zf).
  { rewrite R1 in B2. assert (E : lpos (skip zf) = lpos (skip zf')) by (rewrite B2; reflexivity).
    cbn [lpos skip] in E. rewrite E. destruct B1 as (_ & _ & B3 & _). exact B3. }
  apply V_markup; try assumption. lia.
Qed.

Theorem next_view s : lx_wf (xr s) -> exists ty tok s', next s = Some (ty, tok, s') /\ view s ty tok s'.
Proof.
  destruct s as [z e i p tx ax]. cbn [xr]. intros H. pose proof (wf_range z H) as Hr.
  unfold next. cbn [xr xerr xin xpi xtext xattr]. destruct i.
  - (* inside a tag *)
    destruct (scan_while_lx is_ws z H is_ws_0) as (n & Hn & N0 & N1 & N2 & N3). rewrite Hn. cbn [option_bind].
    assert (A : adv z (mv z n)) by (apply adv_mv; try assumption; eapply is_ws_nz; exact N2).
    pose proof (adv_wf _ _ H A) as W.
    rewrite (pk0 _ W). cbn [option_bind]. cbn [lbuf lpos mv] in *.
    set (c := getz (lbuf z) (lpos z + n)) in *.
    destruct (Z.eqb_spec c 0) as [E0|E0].
    { do 3 eexists. split; [reflexivity|]. apply (V_err_tag (mkX z e true p tx ax)); cbn [xr xin lbuf lpos mv]; try assumption; reflexivity. }
    assert (Hlt : lpos z + n < lx_len z) by (apply nz_lt; [assumption|lia|fold c; assumption]).
    assert (Hpk1 : pk (mv z n) 1 = Some (getz (lbuf z) (lpos z + n + 1))).
    { rewrite pk_getz by (try assumption; rewrite (adv_len _ _ A); cbn [lpos mv]; lia). reflexivity. }
    set (c1 := getz (lbuf z) (lpos z + n + 1)) in *.
    (* the three closers *)
    assert (Hclose : forall ty k,
               (ty = TStartTagClose /\ k = 1 /\ c = 62 \/
                ty = TStartTagCloseVoid /\ k = 2 /\ c = 47 /\ c1 = 62 \/
                ty = TStartTagClosePI /\ k = 2 /\ c = 63 /\ c1 = 62) ->
               exists sh, shift_c (mv (skip (mv z n)) k) = Some sh /\
                 view (mkX z e true p tx ax) ty (Some (fst sh)) (mkX (snd sh) e false false None None)).
    { intros ty k Hk.
      assert (Ak : adv (mv z n) (mv (mv z n) k)).
      { apply adv_mvk; [assumption|lia|]. intros j Hj. cbn [lbuf lpos mv].
        destruct Hk as [(_ & -> & Hc)|[(_ & -> & Hc & Hc1)|(_ & -> & Hc & Hc1)]];
          (assert (j = 0 \/ j = 1) as [-> | ->] by lia;
           [replace (lpos z + n + 0) with (lpos z + n) by lia; fold c; lia | try lia; fold c1; lia]). }
      assert (Wk : lx_wf (mv (skip (mv z n)) k)).
      { pose proof (adv_wf _ _ W Ak) as Wk. pose proof (wf_range _ Wk) as Hrk. destruct Wk as (Hb & _).
        unfold lx_wf, lx_len in *. cbn [lbuf lstart lpos mv skip] in *. split; [exact Hb|lia]. }
      rewrite shift_c_wf by exact Wk. eexists. split; [reflexivity|]. cbn [fst snd lstart lpos mv skip].
      apply (V_closer (mkX z e true p tx ax) (mv z n) ty k); cbn [xr xin lbuf lpos mv]; try assumption; try reflexivity. }
    (* the attribute *)
    assert (Hattr : (name_stop p true c c1 = false \/ c = 61) ->
               exists r, shift_attribute p (mv z n) = Some r /\
                 view (mkX z e true p tx ax) TAttribute (Some (snd (fst r)))
                      (mkX (snd r) e true p (fst (fst (fst r))) (snd (fst (fst r))))).
    { intros Hentry.
      destruct (shift_attribute_spec p (mv z n) W) as (t & a & tok & z' & zf & lo & hi & Hs & -> & -> & B1 & B2 & B3 & B4 & B5).
      { cbn [lbuf lpos mv]. fold c c1. exact Hentry. }
      rewrite Hs. eexists. split; [reflexivity|]. cbn [fst snd lstart mv].
      apply (V_attr (mkX z e true p tx ax) (mv z n) t a zf lo hi); cbn [xr xin lbuf lpos mv] in *; try assumption; reflexivity. }
    assert (Hws : is_ws c = false) by (fold c in N3; exact N3).
    destruct p.
    { (* inside a processing instruction only ?> closes *)
      destruct (Z.eqb_spec c 63) as [E1|E1].
      - rewrite Hpk1. cbn [option_bind]. destruct (Z.eqb_spec c1 62) as [E3|E3]; cbn [negb].
        + destruct (Z.eqb_spec c 47); [lia|]. destruct (Z.eqb_spec c 63); [|lia].
          destruct (Hclose TStartTagClosePI 2) as (sh & Hsh & V); [right; right; repeat split; assumption|]. rewrite Hsh. cbn [option_bind].
          do 3 eexists. split; [reflexivity|exact V].
        + destruct Hattr as (r & Hra & V).
          { left. unfold name_stop, tag_end_b, is_ws in *. lia. }
          rewrite Hra. cbn [option_bind]. do 3 eexists. split; [reflexivity|exact V].
      - cbn [option_bind]. destruct Hattr as (r & Hra & V).
        { destruct (Z.eq_dec c 61); [right; assumption|left]. unfold name_stop, tag_end_b, is_ws in *. lia. }
        rewrite Hra. cbn [option_bind]. do 3 eexists. split; [reflexivity|exact V]. }
    destruct (Z.eqb_spec c 62) as [E1|E1].
    { cbn [option_bind]. destruct (Z.eqb_spec c 47); [lia|]. destruct (Z.eqb_spec c 63); [lia|].
      destruct (Hclose TStartTagClose 1) as (sh & Hsh & V); [left; repeat split; assumption|]. rewrite Hsh. cbn [option_bind].
      do 3 eexists. split; [reflexivity|exact V]. }
    destruct ((c =? 47) || (c =? 63)) eqn:E2.
    + rewrite Hpk1. cbn [option_bind]. destruct (Z.eqb_spec c1 62) as [E3|E3]; cbn [negb].
      * destruct (Z.eqb_spec c 47) as [E4|E4].
        -- destruct (Hclose TStartTagCloseVoid 2) as (sh & Hsh & V); [right; left; repeat split; assumption|]. rewrite Hsh. cbn [option_bind].
           do 3 eexists. split; [reflexivity|exact V].
        -- destruct (Z.eqb_spec c 63) as [E5|E5]; [|lia].
           destruct (Hclose TStartTagClosePI 2) as (sh & Hsh & V); [right; right; repeat split; assumption|]. rewrite Hsh. cbn [option_bind].
           do 3 eexists. split; [reflexivity|exact V].
      * destruct Hattr as (r & Hra & V).
        { left. unfold name_stop, tag_end_b. lia. }
        rewrite Hra. cbn [option_bind]. do 3 eexists. split; [reflexivity|exact V].
    + cbn [option_bind]. destruct Hattr as (r & Hra & V).
      { destruct (Z.eq_dec c 61); [right; assumption|left].
        unfold name_stop, tag_end_b, is_ws in *. lia. }
      rewrite Hra. cbn [option_bind]. do 3 eexists. split; [reflexivity|exact V].
  - (* character data / markup *)
    destruct (scan_while_lx (until 60) z H (until_0 60)) as (n & Hn & N0 & N1 & N2 & N3). rewrite Hn. cbn [option_bind].
    assert (A : adv z (mv z n)) by (apply adv_mv; try assumption; eapply until_nz; exact N2).
    pose proof (adv_wf _ _ H A) as W.
    rewrite (pk0 _ W). cbn [option_bind]. cbn [lbuf lpos mv] in *.
    set (c := getz (lbuf z) (lpos z + n)) in *.
    unfold mark. cbn [lpos lstart mv].
    destruct (Z.ltb_spec 0 (lpos z + n - lstart z)) as [Hpos|Hpos].
    { rewrite shift_c_wf by assumption. cbn [option_bind fst snd lstart lpos mv].
      do 3 eexists. split; [reflexivity|].
      apply (V_text (mkX z e false p tx ax) (mv z n)); cbn [xr xin lbuf lstart lpos mv]; try assumption; try lia.
      - fold c. unfold until in N3. lia.
      - intros j Hj. specialize (N2 j Hj). unfold until in N2. lia. }
    assert (n = 0) by lia. subst n. assert (Hs : lstart z = lpos z) by lia.
    replace (lpos z + 0) with (lpos z) in * by lia. rewrite mv_0 in *.
    assert (Ec : getz (lbuf z) (lpos z) = c) by (unfold c; f_equal; lia).
    destruct (Z.eqb_spec c 60) as [E1|E1].
    + assert (Hlt : lpos z < lx_len z) by (apply nz_lt; [assumption|lia|rewrite Ec; lia]).
      rewrite pk_getz by (try assumption; lia). cbn [option_bind].
      set (c1 := getz (lbuf z) (lpos z + 1)) in *.
      assert (A1 : adv z (mv z 1)) by (apply adv_mv1; [assumption|rewrite Ec; lia]).
      assert (A2 : c1 <> 0 -> adv z (mv z 2)).
      { intros Hc1. apply adv_mvk; [assumption|lia|]. intros j Hj. assert (j = 0 \/ j = 1) as [-> | ->] by lia.
        - replace (lpos z + 0) with (lpos z) by lia. rewrite Ec. lia.
        - fold c1. exact Hc1. }
      assert (Vm : forall ty z0 r, is_markup ty = true -> adv z z0 -> lpos z < lpos z0 -> shifted z0 r ->
                 view (mkX z e false p tx ax) ty (Some (snd (fst r))) (mkX (snd r) e (opens_tag ty) (pi_after p ty) (fst (fst r)) ax)).
      { intros ty z0 r Hm Az Hp Sr. apply (view_markup (mkX z e false p tx ax) ty z0 r); cbn [xr xin]; try assumption; try reflexivity. rewrite Ec. exact E1. }
      destruct (Z.eqb_spec c1 47) as [E2|E2].
      { specialize (A2 ltac:(lia)).
        destruct (shift_end_tag_spec (mv z 2) (adv_wf _ _ H A2)) as (r & Hrs & Sr).
        { unfold mark. cbn [lpos lstart mv]. lia. }
        rewrite Hrs. cbn [option_bind]. do 3 eexists. split; [reflexivity|].
        apply (Vm TEndTag (mv z 2) r); cbn [lpos mv]; try assumption; try reflexivity; lia. }
      assert (Hsp : exists sp, (if c1 =? 33 then bang (mv z 2) else Some None) = Some sp /\
                match sp with
                | None => True
                | Some (ty, r) => view (mkX z e false p tx ax) ty (Some (snd (fst r))) (mkX (snd r) e false p (fst (fst r)) ax)
                end).
      { destruct (Z.eqb_spec c1 33) as [E3|E3]; [|eexists; split; [reflexivity|exact I]].
        specialize (A2 ltac:(lia)).
        destruct (bang_spec (mv z 2) (adv_wf _ _ H A2)) as (o & Ho & Po).
        { unfold mark. cbn [lpos lstart mv]. lia. }
        rewrite Ho. eexists. split; [reflexivity|]. destruct o as [[ty r]|]; [|exact I].
        destruct Po as (Hty & Sr).
        assert (Hm : is_markup ty = true /\ opens_tag ty = false /\ pi_after p ty = p) by (destruct Hty as [-> |[-> | ->]]; repeat split; reflexivity).
        destruct Hm as (Hm1 & Hm2 & Hm3).
        assert (V : view (mkX z e false p tx ax) ty (Some (snd (fst r))) (mkX (snd r) e (opens_tag ty) (pi_after p ty) (fst (fst r)) ax))
          by (apply (Vm ty (mv z 2) r); cbn [lpos mv]; try assumption; lia).
        rewrite Hm2, Hm3 in V. exact V. }
      destruct Hsp as (sp & Hsp & Psp). rewrite Hsp. cbn [option_bind].
      destruct sp as [[ty r]|].
      { do 3 eexists. split; [reflexivity|exact Psp]. }
      destruct (Z.eqb_spec c1 63) as [E4|E4].
      * specialize (A2 ltac:(lia)).
        destruct (shift_start_tag_spec true (mv z 2) (adv_wf _ _ H A2)) as (r & Hrs & Sr).
        rewrite Hrs. cbn [option_bind]. do 3 eexists. split; [reflexivity|].
        apply (Vm TStartTagPI (mv z 2) r); cbn [lpos mv]; try assumption; try reflexivity; lia.
      * destruct (shift_start_tag_spec p (mv z 1) (adv_wf _ _ H A1)) as (r & Hrs & Sr).
        rewrite Hrs. cbn [option_bind]. do 3 eexists. split; [reflexivity|].
        apply (Vm TStartTag (mv z 1) r); cbn [lpos mv]; try assumption; try reflexivity; lia.
    + do 3 eexists. split; [reflexivity|].
      apply (V_err_text (mkX z e false p tx ax)); cbn [xr xin]; try assumption; try reflexivity.
      rewrite Ec. unfold until in N3. lia.
Qed.
