(* Xml/Checker.v — an executable check of the side conditions of the document grammar ([doc_okb]) and
   its soundness, so that the well-formed-document theorem applies to every document the
   correspondence driver generates (the driver evaluates [doc_okb] on each of them). *)
From Verif Require Import Common.Base Common.Tactics Common.Lx Xml.Model Xml.Lemmas Xml.Step Xml.Sym Xml.WellFormed.
From Coq Require Import ZifyBool.

Lemma forallb_Forall {A} (p : A -> bool) (P : A -> Prop) l :
  (forall x, p x = true -> P x) -> forallb p l = true -> Forall P l.
Proof.
  intros H Hf. rewrite forallb_forall in Hf. apply Forall_forall. intros x Hx. apply H. apply Hf. exact Hx.
Qed.

Lemma zrange_from_in_inv lo n x : In x (zrange_from lo n) -> lo <= x < lo + Z.of_nat n.
Proof.
  revert lo. induction n as [|n IH]; intros lo H; cbn [zrange_from] in H; [contradiction|].
  destruct H as [<-|H]; [lia|]. specialize (IH _ H). lia.
Qed.

Lemma zrange_in_inv lo hi x : In x (zrange lo hi) -> lo <= x <= hi.
Proof. unfold zrange. intros H. apply zrange_from_in_inv in H. lia. Qed.

Definition occ_b (pat l : list Z) (i : Z) : bool :=
  forallb (fun j => getz l (i + j) =? getz pat j) (zrange 0 (len pat - 1)).

Definition no_occ_b (pat l : list Z) : bool :=
  forallb (fun i => negb (occ_b pat l i)) (zrange 0 (len l - len pat)).

Lemma no_occ_b_sound pat l : no_occ_b pat l = true -> no_occurrence pat l.
Proof.
  intros H i H0 H1 Hocc. unfold no_occ_b in H. rewrite forallb_forall in H.
  specialize (H i (zrange_in 0 (len l - len pat) i ltac:(lia))). apply negb_true_iff in H.
  assert (occ_b pat l i = true); [|congruence].
  unfold occ_b. apply forallb_forall. intros j Hj. apply zrange_in_inv in Hj.
  apply Z.eqb_eq. apply Hocc. lia.
Qed.

Definition all_ws_b (l : list Z) : bool := forallb is_ws l.
Definition is_name_b (eq : bool) (l : list Z) : bool :=
  match l with [] => false | _ => forallb (name_char eq) l end.
Definition nz_b (l : list Z) : bool := forallb (fun c => negb (c =? 0)) l.

Definition attr_okb (a : attr) : bool :=
  match a_lead a with [] => false | _ => true end && all_ws_b (a_lead a) && is_name_b true (a_name a)
  && all_ws_b (a_ws1 a) && all_ws_b (a_ws2 a) && ((a_q a =? 34) || (a_q a =? 39))
  && forallb (fun c => negb (c =? a_q a) && negb (c =? 0)) (a_val a).

Definition lit_okb (q : Z) (s : list Z) : bool := forallb (fun c => negb (c =? q) && negb (c =? 0)) s.
Definition plain_inner_b (c : Z) : bool :=
  negb (c =? 34) && negb (c =? 39) && negb (c =? 93) && negb (c =? 0) && negb (c =? 60).
Definition dinner_okb (p : dinner) : bool :=
  match p with
  | DIChar c => plain_inner_b c
  | DIStr s => lit_okb 34 s
  | DIStrS s => lit_okb 39 s
  | DILt k => forallb plain_inner_b k
              && match at_l [33; 45; 45] k with Some false => true | _ => false end
              && negb (getz k 0 =? 63)
  | DIComment b => nz_b b && no_occ_b pat_comment_end b
  | DIPI b => nz_b b && no_occ_b pat_pi_end b
  end.
Definition dpiece_okb (p : dpiece) : bool :=
  match p with
  | DChar c => negb (c =? 34) && negb (c =? 39) && negb (c =? 91) && negb (c =? 93) && negb (c =? 62) && negb (c =? 0)
  | DStr s => lit_okb 34 s
  | DStrS s => lit_okb 39 s
  | DSub inner => forallb dinner_okb inner
  end.


(* ---- executable check for the general tag opener -------------------------------------------------------------- *)
Fixpoint name_run_b (pi eq : bool) (n : list Z) (nxt : Z) : bool :=
  match n with
  | [] => true
  | c :: t => negb (name_stop pi eq c (match t with [] => nxt | c1 :: _ => c1 end)) && name_run_b pi eq t nxt
  end.

Definition name_end_b (pi eq : bool) (l : list Z) : bool :=
  match l with
  | [] => false
  | c :: t => name_stop pi eq c (getz t 0) && (negb ((c =? 47) || (c =? 63)) || match t with [] => false | _ => true end)
  end.

Fixpoint next_not_eq_b (l : list Z) : bool :=
  match l with
  | [] => false
  | c :: t => if is_ws c then next_not_eq_b t else negb (c =? 61)
  end.

Fixpoint no_pi_end_b (l : list Z) : bool :=
  match l with
  | c :: ((c1 :: _) as t) => negb ((c =? 63) && (c1 =? 62)) && no_pi_end_b t
  | _ => true
  end.

Lemma no_pi_end_b_sound l : no_pi_end_b l = true -> no_pi_end l.
Proof.
  induction l as [|c t IH]; [intros _; exact I|]. destruct t as [|c1 t']; [intros _; exact I|].
  cbn [no_pi_end_b no_pi_end]. intros H. apply andb_true_iff in H. destruct H as (H1 & H2).
  split; [lia|apply IH; exact H2].
Qed.

Definition nil_b (l : list Z) : bool := match l with [] => true | _ => false end.

Definition gattr_okb (pi : bool) (a : gattr) (rest : list Z) : bool :=
  all_ws_b (g_lead a) &&
  match g_val a with
  | VNone => negb (nil_b (g_name a)) && name_run_b pi true (g_name a) (getz rest 0) && name_end_b pi true rest && next_not_eq_b rest
  | VUnq w1 w2 x =>
      all_ws_b w1 && all_ws_b w2 && (negb (nil_b (g_name a)) || nil_b w1) &&
      name_run_b pi true (g_name a) (getz (w1 ++ [61]) 0) &&
      name_run_b pi false x (getz rest 0) && name_end_b pi false rest &&
      negb (is_ws (getz (x ++ rest) 0)) && negb (getz (x ++ rest) 0 =? 34) && negb (getz (x ++ rest) 0 =? 39)
  | VQuo w1 w2 q x =>
      all_ws_b w1 && all_ws_b w2 && (negb (nil_b (g_name a)) || nil_b w1) &&
      name_run_b pi true (g_name a) (getz (w1 ++ [61]) 0) &&
      ((q =? 34) || (q =? 39)) && forallb (fun c => negb (c =? q) && negb (c =? 0)) x && (negb pi || no_pi_end_b x)
  | VQuoCut w1 w2 q x =>
      all_ws_b w1 && all_ws_b w2 && (negb (nil_b (g_name a)) || nil_b w1) &&
      name_run_b pi true (g_name a) (getz (w1 ++ [61]) 0) &&
      ((q =? 34) || (q =? 39)) && forallb (fun c => negb (c =? q) && negb (c =? 0)) x && no_pi_end_b x &&
      pi && match rest with c :: c1 :: _ => (c =? 63) && (c1 =? 62) | _ => false end
  end.

Fixpoint gattrs_okb (pi : bool) (l : list gattr) (tail : list Z) : bool :=
  match l with
  | [] => true
  | a :: t => gattr_okb pi a (render_gattrs t ++ tail) && gattrs_okb pi t tail
  end.

Definition closer_tyb (k : ttype) : bool :=
  match k with TStartTagClose | TStartTagCloseVoid | TStartTagClosePI => true | _ => false end.

Definition itag_okb (pi : bool) (n : list Z) (gs : list gattr) (ws : list Z) (k : ttype) : bool :=
  is_name_b false n && (pi || negb (getz n 0 =? 33)) && all_ws_b ws && closer_tyb k &&
  (negb pi || match k with TStartTagClosePI => true | _ => false end) &&
  gattrs_okb pi gs (ws ++ closer_bytes k) && name_end_b pi false (render_gattrs gs ++ ws ++ closer_bytes k).


Definition item_okb (it : item) : bool :=
  match it with
  | IText t => match t with [] => false | _ => true end && forallb (fun c => negb (c =? 60) && negb (c =? 0)) t
  | IComment b => nz_b b && no_occ_b pat_comment_end b
  | ICdata b => nz_b b && no_occ_b pat_cdata_end b
  | IDoctype ps => forallb dpiece_okb ps
  | IPI t attrs ws => is_name_b false t && forallb attr_okb attrs && all_ws_b ws && forallb (fun a => no_pi_end_b (a_val a)) attrs
  | IStart n attrs ws void => is_name_b false n && negb (getz n 0 =? 33) && forallb attr_okb attrs && all_ws_b ws
  | IEnd n ws => is_name_b false n && all_ws_b ws
  | ITag pi n gs ws k => itag_okb pi n gs ws k
  end.

Fixpoint no_adjacent_text_b (l : list item) : bool :=
  match l with
  | a :: ((b :: _) as rest) => (negb (is_text a) || negb (is_text b)) && no_adjacent_text_b rest
  | _ => true
  end.

Definition doc_okb (l : list item) : bool := forallb item_okb l && no_adjacent_text_b l.

Lemma all_ws_b_sound l : all_ws_b l = true -> all_ws l.
Proof. apply forallb_Forall. auto. Qed.

Lemma is_name_b_sound eq l : is_name_b eq l = true -> is_name eq l.
Proof.
  unfold is_name_b, is_name. destruct l as [|c t]; [discriminate|]. intros H. split; [discriminate|].
  revert H. apply forallb_Forall. auto.
Qed.

Lemma nz_b_sound l : nz_b l = true -> Forall (fun c => c <> 0) l.
Proof. apply forallb_Forall. intros x H. lia. Qed.

Lemma lit_okb_sound q s : lit_okb q s = true -> lit_ok q s.
Proof. apply forallb_Forall. intros x H. lia. Qed.

Lemma attr_okb_sound a : attr_okb a = true -> attr_ok a.
Proof.
  unfold attr_okb, attr_ok. intros H. b2p.
  repeat split.
  - destruct (a_lead a); [discriminate|discriminate].
  - apply all_ws_b_sound. assumption.
  - apply (is_name_b_sound true). assumption.
  - apply (is_name_b_sound true). assumption.
  - apply all_ws_b_sound. assumption.
  - apply all_ws_b_sound. assumption.
  - lia.
  - match goal with H : forallb _ (a_val a) = true |- _ => revert H end. apply forallb_Forall. intros x Hx. lia.
Qed.

Lemma plain_inner_b_sound c : plain_inner_b c = true -> plain_inner c.
Proof. unfold plain_inner_b, plain_inner. lia. Qed.

Lemma dinner_okb_sound p : dinner_okb p = true -> dinner_ok p.
Proof.
  destruct p as [c|s|s|k|b|b]; cbn [dinner_okb dinner_ok].
  - apply plain_inner_b_sound.
  - apply lit_okb_sound.
  - apply lit_okb_sound.
  - intros H. b2p. split; [|split].
    + match goal with H : forallb plain_inner_b k = true |- _ => revert H end.
      apply forallb_Forall. apply plain_inner_b_sound.
    + destruct (at_l [33; 45; 45] k) as [[|]|]; try discriminate. reflexivity.
    + assumption.
  - intros H. b2p. split; [apply nz_b_sound; assumption|apply no_occ_b_sound; assumption].
  - intros H. b2p. split; [apply nz_b_sound; assumption|apply no_occ_b_sound; assumption].
Qed.

Lemma dpiece_okb_sound p : dpiece_okb p = true -> dpiece_ok p.
Proof.
  destruct p as [c|s|s|inner]; cbn [dpiece_okb dpiece_ok]; [lia|apply lit_okb_sound|apply lit_okb_sound|].
  apply forallb_Forall. apply dinner_okb_sound.
Qed.

Lemma name_run_b_sound pi eq n nxt : name_run_b pi eq n nxt = true -> name_run pi eq n nxt.
Proof.
  induction n as [|c t IH]; cbn [name_run_b name_run]; [auto|]. intros H. b2p. split; [assumption|apply IH; assumption].
Qed.

Lemma name_end_b_sound pi eq l : name_end_b pi eq l = true -> name_end pi eq l.
Proof.
  destruct l as [|c t]; [discriminate|]. cbn [name_end_b]. intros H. b2p. exists c, t.
  split; [reflexivity|]. split; [assumption|]. intros Hc Ht. subst t.
  match goal with H : _ || _ = true |- _ => rewrite orb_false_r in H end. lia.
Qed.

Lemma next_not_eq_b_sound l : next_not_eq_b l = true -> next_not_eq l.
Proof.
  induction l as [|c t IH]; [discriminate|]. cbn [next_not_eq_b]. destruct (is_ws c) eqn:E.
  - intros H. destruct (IH H) as (w & c2 & t2 & -> & H1 & H2 & H3). exists (c :: w), c2, t2.
    split; [reflexivity|]. split; [constructor; assumption|]. auto.
  - intros H. exists [], c, t. split; [reflexivity|]. split; [constructor|]. split; [exact E|lia].
Qed.

Lemma nil_b_false l : negb (nil_b l) = true -> l <> [].
Proof. destruct l; [discriminate|discriminate]. Qed.

Lemma nil_imp name w1 : negb (nil_b name) || nil_b w1 = true -> name = [] -> w1 = [].
Proof. intros H ->. cbn in H. destruct w1; [reflexivity|discriminate]. Qed.

Lemma gattr_okb_sound pi a rest : gattr_okb pi a rest = true -> gattr_ok pi a rest.
Proof.
  unfold gattr_okb, gattr_ok. intros H. apply andb_true_iff in H. destruct H as (Hl & Hv).
  split; [apply all_ws_b_sound; exact Hl|]. destruct (g_val a) as [|w1 w2 x|w1 w2 q x|w1 w2 q x].
  - repeat (apply andb_true_iff in Hv; destruct Hv as (Hv & ?)).
    split; [apply nil_b_false; assumption|]. split; [apply name_run_b_sound; assumption|].
    split; [apply name_end_b_sound; assumption|apply next_not_eq_b_sound; assumption].
  - repeat (apply andb_true_iff in Hv; destruct Hv as (Hv & ?)).
    split; [apply all_ws_b_sound; assumption|]. split; [apply all_ws_b_sound; assumption|].
    split; [apply nil_imp; assumption|]. split; [apply name_run_b_sound; assumption|].
    split; [apply name_run_b_sound; assumption|]. split; [apply name_end_b_sound; assumption|].
    b2p. repeat split; try assumption; lia.
  - repeat (apply andb_true_iff in Hv; destruct Hv as (Hv & ?)).
    split; [apply all_ws_b_sound; assumption|]. split; [apply all_ws_b_sound; assumption|].
    split; [apply nil_imp; assumption|]. split; [apply name_run_b_sound; assumption|].
    split; [lia|]. split.
    + match goal with H : forallb _ x = true |- _ => revert H end. apply forallb_Forall. intros c Hc. lia.
    + intros ->. apply no_pi_end_b_sound. match goal with H : negb true || _ = true |- _ => exact H end.
  - repeat (apply andb_true_iff in Hv; destruct Hv as (Hv & ?)).
    split; [apply all_ws_b_sound; assumption|]. split; [apply all_ws_b_sound; assumption|].
    split; [apply nil_imp; assumption|]. split; [apply name_run_b_sound; assumption|].
    split; [lia|]. split.
    { match goal with H : forallb _ x = true |- _ => revert H end. apply forallb_Forall. intros c Hc. lia. }
    split; [apply no_pi_end_b_sound; assumption|]. split; [assumption|].
    destruct rest as [|c [|c1 t]]; try discriminate. exists t.
    match goal with H : (c =? 63) && (c1 =? 62) = true |- _ => apply andb_true_iff in H; destruct H end.
    f_equal; [lia|f_equal; lia].
Qed.

Lemma gattrs_okb_sound pi l tail : gattrs_okb pi l tail = true -> gattrs_ok pi l tail.
Proof.
  induction l as [|a t IH]; cbn [gattrs_okb gattrs_ok]; [auto|]. intros H. b2p.
  split; [apply gattr_okb_sound; assumption|apply IH; assumption].
Qed.

Lemma itag_okb_sound pi n gs ws k : itag_okb pi n gs ws k = true -> item_ok (ITag pi n gs ws k).
Proof.
  unfold itag_okb. cbn [item_ok]. intros H. repeat (apply andb_true_iff in H; destruct H as (H & ?)).
  split; [apply is_name_b_sound; assumption|]. split.
  { intros ->. cbn [orb] in *. lia. }
  split; [apply all_ws_b_sound; assumption|]. split.
  { unfold is_closer_ty. destruct k; try discriminate; auto. }
  split.
  { intros ->. cbn [negb orb] in *. destruct k; try discriminate; reflexivity. }
  split; [apply gattrs_okb_sound; assumption|apply name_end_b_sound; assumption].
Qed.

Lemma item_okb_sound it : item_okb it = true -> item_ok it.
Proof.
  destruct it as [t|b|b|ps|n attrs ws|n attrs ws void|n ws|pi n gs ws k]; [| | | | | | |apply itag_okb_sound];
    cbn [item_okb item_ok]; intros H; b2p.
  - split; [destruct t; discriminate|]. match goal with H : forallb _ t = true |- _ => revert H end.
    apply forallb_Forall. intros x Hx. lia.
  - split; [apply nz_b_sound; assumption|apply no_occ_b_sound; assumption].
  - split; [apply nz_b_sound; assumption|apply no_occ_b_sound; assumption].
  - revert H. apply forallb_Forall. apply dpiece_okb_sound.
  - split; [apply is_name_b_sound; assumption|]. split; [|split; [apply all_ws_b_sound; assumption|]].
    + match goal with H : forallb attr_okb attrs = true |- _ => revert H end. apply forallb_Forall. apply attr_okb_sound.
    + match goal with H : forallb (fun a => no_pi_end_b (a_val a)) attrs = true |- _ => revert H end.
      apply forallb_Forall. intros a. apply no_pi_end_b_sound.
  - split; [apply is_name_b_sound; assumption|]. split; [assumption|]. split; [|apply all_ws_b_sound; assumption].
    match goal with H : forallb attr_okb attrs = true |- _ => revert H end. apply forallb_Forall. apply attr_okb_sound.
  - split; [apply is_name_b_sound; assumption|apply all_ws_b_sound; assumption].
Qed.

Lemma no_adjacent_text_b_sound l : no_adjacent_text_b l = true -> no_adjacent_text l.
Proof.
  induction l as [|a rest IH]; [intros _; exact I|].
  destruct rest as [|b rest']; [intros _; exact I|].
  cbn [no_adjacent_text_b no_adjacent_text]. intros H. b2p. split; [|apply IH; assumption].
  intros Ha. rewrite Ha in *. cbn [negb orb] in *. destruct (is_text b); [discriminate|reflexivity].
Qed.

Theorem doc_okb_sound l : doc_okb l = true -> doc_ok l.
Proof.
  unfold doc_okb, doc_ok. intros H. b2p. split; [|apply no_adjacent_text_b_sound; assumption].
  match goal with H : forallb item_okb l = true |- _ => revert H end. apply forallb_Forall. apply item_okb_sound.
Qed.

(* the theorem in checked form: what the correspondence driver evaluates is a hypothesis of it *)
Theorem xml_wellformed_checked_proof : forall items, doc_okb items = true ->
  lexes (xml_init (render_doc items)) (expect_doc items) 1.
Proof. intros items H. apply xml_wellformed_tokens_proof. apply doc_okb_sound. exact H. Qed.

Example ex_items_okb : doc_okb ex_items = true.
Proof. vm_compute. reflexivity. Qed.

Example ex_items_ok : doc_ok ex_items.
Proof. apply doc_okb_sound. exact ex_items_okb. Qed.

Example ex_squote_items_okb : doc_okb ex_squote_items = true /\ doc_okb ex_squote_items2 = true.
Proof. vm_compute. split; reflexivity. Qed.

Example ex_squote_items_ok : doc_ok ex_squote_items.
Proof. apply doc_okb_sound. apply ex_squote_items_okb. Qed.

Example ex_squote_items2_ok : doc_ok ex_squote_items2.
Proof. apply doc_okb_sound. apply ex_squote_items_okb. Qed.

Theorem xml_doctype_single_quote_proof :
  render_doc ex_squote_items = ex_doctype_squote /\
  lexes (xml_init ex_doctype_squote) (expect_doc ex_squote_items) 1.
Proof.
  split; [apply ex_squote_items_bytes|]. rewrite <- ex_squote_items_bytes.
  apply xml_wellformed_tokens_proof. apply ex_squote_items_ok.
Qed.

(* ---- the general tag opener: processing instructions whose content is not pseudo-attributes ------------------- *)
(* a conforming attribute is a piece with a quoted value *)
Definition g_of_attr (a : attr) : gattr := mkG (a_lead a) (a_name a) (VQuo (a_ws1 a) (a_ws2 a) (a_q a) (a_val a)).

Lemma render_g_of_attrs attrs : render_gattrs (map g_of_attr attrs) = render_attrs attrs.
Proof. unfold render_gattrs, render_attrs. rewrite map_map. reflexivity. Qed.

Lemma expect_g_of_attrs attrs : map expect_gattr (map g_of_attr attrs) = map expect_attr attrs.
Proof. rewrite map_map. reflexivity. Qed.

(* the property-conforming PI and start tag are the special case of the general opener *)
Theorem xml_tag_opener_conforming_proof : forall t attrs ws,
  render_item (IPI t attrs ws) = render_item (ITag true t (map g_of_attr attrs) ws TStartTagClosePI) /\
  expect_item (IPI t attrs ws) = expect_item (ITag true t (map g_of_attr attrs) ws TStartTagClosePI) /\
  (forall void : bool, let k := if void then TStartTagCloseVoid else TStartTagClose in
     render_item (IStart t attrs ws void) = render_item (ITag false t (map g_of_attr attrs) ws k) /\
     expect_item (IStart t attrs ws void) = expect_item (ITag false t (map g_of_attr attrs) ws k)).
Proof.
  intros t attrs ws. cbn [render_item expect_item]. rewrite render_g_of_attrs, expect_g_of_attrs.
  split; [reflexivity|]. split; [reflexivity|]. intros void. destruct void; split; reflexivity.
Qed.

(* <?p a>b?><a/> as the lexer sees it: the PI opener <?p , the piece " a>b" (a name only: '>' does not end a
   processing instruction), the closer ?> ; then the element *)
Definition ex_pi_gt_items : list item :=
  [ ITag true [112] [mkG [32] [97; 62; 98] VNone] [] TStartTagClosePI; IStart [97] [] [] true ].

Example ex_pi_gt_items_ok : doc_ok ex_pi_gt_items.
Proof. apply doc_okb_sound. vm_compute. reflexivity. Qed.

(* <?php if ($a > $b) echo "x"; ?> : free-form content is returned as one Attribute token per
   whitespace-separated piece *)
Definition ex_php_items : list item :=
  [ ITag true [112; 104; 112]
      [ mkG [32] [105; 102] VNone; mkG [32] [40; 36; 97] VNone; mkG [32] [62] VNone; mkG [32] [36; 98; 41] VNone;
        mkG [32] [101; 99; 104; 111] VNone; mkG [32] [34; 120; 34; 59] VNone ] [32] TStartTagClosePI ].

Example ex_php_items_ok : doc_ok ex_php_items.
Proof. apply doc_okb_sound. vm_compute. reflexivity. Qed.

(* <?p a=QUOTE b?><a/> : the quoted value is cut by the instruction's ?> (fix 5eea3cf of /repo) *)
Definition ex_pi_quote : list Z := [60; 63; 112; 32; 97; 61; 34; 98; 63; 62; 60; 97; 47; 62].
Definition ex_pi_quote_items : list item :=
  [ ITag true [112] [mkG [32] [97] (VQuoCut [] [] 34 [98])] [] TStartTagClosePI; IStart [97] [] [] true ].

Example ex_pi_quote_items_ok : doc_ok ex_pi_quote_items.
Proof. apply doc_okb_sound. vm_compute. reflexivity. Qed.

Theorem xml_pi_quote_exact_proof :
  render_doc ex_pi_quote_items = ex_pi_quote /\
  lexes (xml_init ex_pi_quote) (expect_doc ex_pi_quote_items) 1 /\
  expect_doc ex_pi_quote_items =
    [ (TStartTagPI, Some [60; 63; 112], Some [112], None);
      (TAttribute, Some [32; 97; 61; 34; 98], Some [97], Some [34; 98]);
      (TStartTagClosePI, Some [63; 62], None, None);
      (TStartTag, Some [60; 97], Some [97], None); (TStartTagCloseVoid, Some [47; 62], None, None) ].
Proof.
  assert (E : render_doc ex_pi_quote_items = ex_pi_quote) by (vm_compute; reflexivity).
  split; [exact E|]. split; [|vm_compute; reflexivity]. rewrite <- E.
  apply xml_wellformed_tokens_proof. apply ex_pi_quote_items_ok.
Qed.

Theorem xml_pi_content_exact_proof :
  render_doc ex_pi_gt_items = ex_pi_gt /\
  lexes (xml_init ex_pi_gt) (expect_doc ex_pi_gt_items) 1 /\
  expect_doc ex_pi_gt_items =
    [ (TStartTagPI, Some [60; 63; 112], Some [112], None); (TAttribute, Some [32; 97; 62; 98], Some [97; 62; 98], None);
      (TStartTagClosePI, Some [63; 62], None, None);
      (TStartTag, Some [60; 97], Some [97], None); (TStartTagCloseVoid, Some [47; 62], None, None) ].
Proof.
  assert (E : render_doc ex_pi_gt_items = ex_pi_gt) by (vm_compute; reflexivity).
  split; [exact E|]. split; [|vm_compute; reflexivity]. rewrite <- E.
  apply xml_wellformed_tokens_proof. apply ex_pi_gt_items_ok.
Qed.
