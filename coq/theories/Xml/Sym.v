(* Xml/Sym.v — symbolic execution toolkit: the cursor written as  pre ++ tk ++ suf  (bytes already
   shifted, bytes of the current lexeme, bytes still to read) and exact forward lemmas for the
   scanning loops on inputs given in appended form.  Used by the well-formed-document theorem. *)
From Verif Require Import Common.Base Common.Tactics Common.Lx Xml.Model Xml.Lemmas Xml.Step.
From Coq Require Import ZifyBool.

Definition cur (pre tk suf : list Z) : lx := mkLx (pre ++ tk ++ suf) (len pre + len tk) (len pre).

Lemma skipz_app_exact {A} (a b : list A) : skipz (len a) (a ++ b) = b.
Proof.
  unfold skipz, len. rewrite Nat2Z.id. rewrite skipn_app, skipn_all, Nat.sub_diag. reflexivity.
Qed.

Lemma firstz_app_exact {A} (a b : list A) : firstz (len a) (a ++ b) = a.
Proof.
  unfold firstz, len. rewrite Nat2Z.id. rewrite firstn_app, Nat.sub_diag, firstn_all. cbn. apply app_nil_r.
Qed.

Lemma slice_mid {A} (pre tok r : list A) : slice (pre ++ tok ++ r) (len pre) (len pre + len tok) = tok.
Proof.
  unfold slice. rewrite skipz_app_exact. replace (len pre + len tok - len pre) with (len tok) by lia.
  apply firstz_app_exact.
Qed.

Lemma suffix_cur pre tk suf : suffix (cur pre tk suf) = suf.
Proof.
  unfold suffix, cur. cbn [lbuf lpos]. rewrite app_assoc, <- len_app. apply skipz_app_exact.
Qed.

Lemma mark_cur pre tk suf : mark (cur pre tk suf) = len tk.
Proof. unfold mark, cur. cbn [lpos lstart]. lia. Qed.

Lemma mv_cur pre tk a suf n : n = len a -> mv (cur pre tk (a ++ suf)) n = cur pre (tk ++ a) suf.
Proof.
  intros ->. unfold mv, cur. cbn [lbuf lpos lstart]. f_equal.
  - rewrite <- !app_assoc. reflexivity.
  - rewrite len_app. lia.
Qed.

Lemma mv_cur0 pre tk suf : mv (cur pre tk suf) 0 = cur pre tk suf.
Proof. apply mv_0. Qed.

Lemma skip_cur pre tk suf : skip (cur pre tk suf) = cur (pre ++ tk) [] suf.
Proof.
  unfold skip, cur. cbn [lbuf lpos lstart app]. f_equal.
  - rewrite <- app_assoc. reflexivity.
  - rewrite len_app. change (len (@nil Z)) with 0. lia.
  - rewrite len_app. reflexivity.
Qed.

Lemma lexeme_cur pre tk suf : lexeme (cur pre tk suf) = Some tk.
Proof.
  unfold lexeme, cur, slice_ok. cbn [lbuf lpos lstart]. rewrite !len_app.
  pose proof (len_nonneg pre). pose proof (len_nonneg tk). pose proof (len_nonneg suf).
  zb. cbn [andb]. rewrite slice_mid. reflexivity.
Qed.

Lemma shift_c_cur pre tk suf :
  shift_c (cur pre tk suf) = Some ((len pre, len pre + len tk), cur (pre ++ tk) [] suf).
Proof. unfold shift_c. rewrite lexeme_cur. cbn [option_bind]. rewrite skip_cur. reflexivity. Qed.

Lemma lex_sub_cur pre tk suf a b : 0 <= a <= b -> b <= len tk ->
  lex_sub (cur pre tk suf) a b = Some (len pre + a, len pre + b).
Proof.
  intros Ha Hb. unfold lex_sub. rewrite lexeme_cur. cbn [option_bind]. rewrite mark_cur.
  unfold slice_ok. zb. reflexivity.
Qed.

Lemma pk_cur pre tk suf i : 0 <= i < len suf -> pk (cur pre tk suf) i = Some (getz suf i).
Proof.
  intros H. unfold pk, cur. cbn [lbuf lpos]. pose proof (len_nonneg pre). pose proof (len_nonneg tk).
  rewrite peekz_getz by (rewrite !len_app; lia). f_equal.
  rewrite app_assoc. rewrite getz_app2 by (rewrite len_app; lia). f_equal. rewrite len_app. lia.
Qed.

Lemma pk_cur0 pre tk c r : pk (cur pre tk (c :: r)) 0 = Some c.
Proof. rewrite pk_cur by (rewrite len_cons; pose proof (len_nonneg r); lia). reflexivity. Qed.

Lemma pk_cur1 pre tk c c1 r : pk (cur pre tk (c :: c1 :: r)) 1 = Some c1.
Proof.
  rewrite pk_cur by (rewrite !len_cons; pose proof (len_nonneg r); lia).
  rewrite getz_cons_pos by lia. reflexivity.
Qed.

Lemma rewind_cur pre tk1 tk2 suf : rewind (cur pre (tk1 ++ tk2) suf) (len tk1) = cur pre tk1 (tk2 ++ suf).
Proof.
  unfold rewind, cur. cbn [lbuf lpos lstart]. f_equal. rewrite <- !app_assoc. reflexivity.
Qed.

Lemma lx_len_cur pre tk suf : lx_len (cur pre tk suf) = len pre + len tk + len suf - 1.
Proof. unfold lx_len, cur. cbn [lbuf]. rewrite !len_app. lia. Qed.

Lemma at_end_cur_end pre tk : at_end (cur pre tk [0]) = true.
Proof. unfold at_end. rewrite lx_len_cur. unfold cur. cbn [lpos]. change (len [0]) with 1. zb. reflexivity. Qed.

(* ---- scanning loops on appended inputs -------------------------------------------------------------------- *)
Lemma scan_while_app p a c r : Forall (fun x => p x = true) a -> p c = false ->
  scan_while p (a ++ c :: r) = Some (len a).
Proof.
  intros Ha Hc. induction Ha as [|x a Hx Ha IH]; cbn [app scan_while].
  - rewrite Hc. reflexivity.
  - rewrite Hx, IH. rewrite len_cons. reflexivity.
Qed.

(* bytes that never stop a name loop, whatever follows *)
Definition name_char (eq : bool) (c : Z) : bool :=
  negb ((c =? 32) || (c =? 9) || (c =? 10) || (c =? 13) || (c =? 62) || (c =? 0) || (c =? 47) || (c =? 63)
        || (eq && (c =? 61))).

Lemma tag_end_eq pi c t : (t <> [] \/ (c <> 47 /\ c <> 63)) -> tag_end pi c t = Some (tag_end_b pi c (getz t 0)).
Proof.
  intros H. unfold tag_end, tag_end_b. destruct t as [|c1 t'].
  - destruct H as [H|(H1 & H2)]; [congruence|].
    destruct (Z.eqb_spec c 47); [congruence|]. destruct (Z.eqb_spec c 63); [congruence|].
    destruct pi; [reflexivity|]. destruct (c =? 62); reflexivity.
  - rewrite getz_cons_0. destruct pi; [destruct (c =? 63); reflexivity|].
    destruct (c =? 62); [reflexivity|]. destruct ((c =? 47) || (c =? 63)); reflexivity.
Qed.

Lemma scan_name_cons' pi eq c t : (t <> [] \/ (c <> 47 /\ c <> 63)) ->
  scan_name pi eq (c :: t) = if name_stop pi eq c (getz t 0) then Some 0 else n <- scan_name pi eq t ;; Some (1 + n).
Proof. intros H. rewrite scan_name_step, tag_end_eq by exact H. reflexivity. Qed.

Lemma name_char_stop pi eq c c1 : name_char eq c = true -> name_stop pi eq c c1 = false.
Proof. unfold name_char, name_stop, tag_end_b. destruct pi, eq; cbn [andb]; lia. Qed.

Lemma name_char_step pi eq c t : name_char eq c = true ->
  scan_name pi eq (c :: t) = (n <- scan_name pi eq t ;; Some (1 + n)).
Proof.
  intros H. rewrite scan_name_cons'.
  - rewrite (name_char_stop pi eq c _ H). reflexivity.
  - right. unfold name_char in H. lia.
Qed.

Lemma scan_name_app pi eq a c r : Forall (fun x => name_char eq x = true) a ->
  name_stop pi eq c (getz r 0) = true -> ((c = 47 \/ c = 63) -> r <> []) ->
  scan_name pi eq (a ++ c :: r) = Some (len a).
Proof.
  intros Ha Hc Hr. induction Ha as [|x a Hx Ha IH]; cbn [app].
  - rewrite scan_name_cons'; [rewrite Hc; reflexivity|].
    destruct (Z.eq_dec c 47); [left; apply Hr; auto|]. destruct (Z.eq_dec c 63); [left; apply Hr; auto|]. right. auto.
  - rewrite name_char_step by exact Hx. rewrite IH. cbn [option_bind]. rewrite len_cons. reflexivity.
Qed.

Lemma at_l_app pat r : at_l pat (pat ++ r) = Some true.
Proof.
  induction pat as [|p pt IH]; cbn [app at_l]; [reflexivity|]. rewrite Z.eqb_refl. exact IH.
Qed.

(* pat does not occur at position i of l *)
Definition no_match_at (pat l : list Z) (i : Z) : Prop := exists j, 0 <= j < len pat /\ getz l (i + j) <> getz pat j.

Lemma at_l_false pat l : l <> [] -> (forall j, 0 <= j < len pat -> j < len l) ->
  no_match_at pat l 0 -> at_l pat l = Some false.
Proof.
  revert l. induction pat as [|p pt IH]; intros l Hne Hlen (j & Hj & Hd).
  - change (len (@nil Z)) with 0 in Hj. lia.
  - destruct l as [|c t]; [congruence|]. cbn [at_l]. destruct (Z.eqb_spec c p) as [->|]; [|reflexivity].
    rewrite len_cons in Hj. destruct (Z.eq_dec j 0) as [->|Hj0].
    + exfalso. apply Hd. reflexivity.
    + apply IH.
      * intros ->. specialize (Hlen 1 ltac:(rewrite len_cons; pose proof (len_nonneg pt); lia)).
        rewrite len_cons in Hlen. change (len (@nil Z)) with 0 in Hlen. lia.
      * intros k Hk. specialize (Hlen (k + 1) ltac:(rewrite len_cons; lia)). rewrite len_cons in Hlen. lia.
      * exists (j - 1). split; [lia|]. replace (0 + j) with j in Hd by lia.
        rewrite getz_cons_pos in Hd by lia. rewrite (getz_cons_pos p pt j) in Hd by lia.
        replace (0 + (j - 1)) with (j - 1) by lia. exact Hd.
Qed.

(* body contains no NUL and the closer does not start inside it: the loop stops exactly after body *)
Lemma scan_until_app pat body r : pat <> [] -> Forall (fun x => x <> 0) body ->
  (forall i, 0 <= i < len body -> no_match_at pat (body ++ pat) i) ->
  scan_until pat (body ++ pat ++ r) = Some (len body, true).
Proof.
  intros Hpat Hz. induction Hz as [|x body Hx Hz IH]; intros Hno; cbn [app].
  - destruct (pat ++ r) eqn:E; [destruct pat; [congruence|discriminate]|]. rewrite <- E.
    rewrite E at 1. rewrite scan_until_step. rewrite <- E. rewrite at_l_app. reflexivity.
  - rewrite scan_until_step.
    assert (Hf : at_l pat (x :: body ++ pat ++ r) = Some false).
    { apply at_l_false; [discriminate| |].
      - intros j Hj. rewrite len_cons, !len_app. pose proof (len_nonneg body). pose proof (len_nonneg r). lia.
      - destruct (Hno 0 ltac:(rewrite len_cons; pose proof (len_nonneg body); lia)) as (j & Hj & Hd).
        exists j. split; [exact Hj|]. cbn [app] in Hd.
        replace (x :: body ++ pat ++ r) with ((x :: body ++ pat) ++ r) by (cbn [app]; rewrite <- app_assoc; reflexivity).
        rewrite getz_app1; [exact Hd|]. rewrite len_cons, len_app. pose proof (len_nonneg body). lia. }
    rewrite Hf. cbn [option_bind]. destruct (Z.eqb_spec x 0); [congruence|].
    rewrite IH.
    + cbn [option_bind fst snd]. rewrite len_cons. reflexivity.
    + intros i Hi. destruct (Hno (1 + i) ltac:(rewrite len_cons; lia)) as (j & Hj & Hd).
      exists j. split; [exact Hj|]. cbn [app] in Hd. replace (1 + i + j) with (1 + (i + j)) in Hd by lia.
      rewrite getz_cons_succ in Hd by lia. exact Hd.
Qed.
