(* Props/C04.v — C04: identifier resolution in the JS tree follows ECMAScript scoping.
   Statements only; each is closed by [exact] of a lemma proved in JsScope/*.v. *)
From Verif Require Import Common.Base JsScope.Model JsScope.Spec JsScope.Proofs.

(* declare_twice_rejected (needed by C03), in the three forms Declare implements.
   (1) a parameter / let / const / class / catch-parameter declaration of a name the scope already
   declares (after the loop-head mark), unless the earlier one is a function-expression name:
   (nil, false), nothing changed.  Example: ex_twice_hyps, ex_lexical_twice, ex_var_let, ex_param_let. *)
Theorem declare_twice_rejected :
  forall st s sc decl x v,
    sget st s = Ok sc ->
    FunctionDecl < decl ->
    find_declared st sc x true = Some v ->
    vdecl (vget st v) <> ExprDecl ->
    declare st s decl x = Ok (st, None).
Proof. exact declare_twice_rejected_proof. Qed.
Print Assumptions declare_twice_rejected.

(* (2) var / function in a function scope that has a let/const/class/catch declaration of the name.
   Example: ex_let_var. *)
Theorem declare_var_over_lexical_rejected :
  forall st s sc decl x v,
    sget st s = Ok sc ->
    sfunc sc = Some s ->
    decl = VariableDecl \/ decl = FunctionDecl ->
    find_declared st sc x true = Some v ->
    ArgumentDecl < vdecl (vget st v) -> vdecl (vget st v) <> ExprDecl ->
    declare st s decl x = Ok (st, None).
Proof. exact declare_var_over_lexical_rejected_proof. Qed.
Print Assumptions declare_var_over_lexical_rejected.

(* (3) var / function below a block that declares the name with another kind (not catch): the walk
   towards the function scope meets it, at any depth n.  Example: ex_walk_hyps, ex_let_block_var. *)
Theorem declare_var_through_block_rejected :
  forall st s decl x n,
    decl = VariableDecl \/ decl = FunctionDecl ->
    walk_conflict st decl x s n -> (n <= length (scopes st))%nat ->
    declare st s decl x = Ok (st, None).
Proof. exact declare_var_through_block_rejected_proof. Qed.
Print Assumptions declare_var_through_block_rejected.
