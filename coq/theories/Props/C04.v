(* Props/C04.v — C04: identifier resolution in the JS tree follows ECMAScript scoping.
   Statements only; each is closed by [exact] of a lemma proved in JsScope/*.v. *)
From Verif Require Import Common.Base JsScope.Model JsScope.Spec JsScope.HeapLemmas JsScope.Proofs JsScope.Main
  JsScope.Rename JsScope.Main2 JsScope.Refuted.

(* declare_twice_rejected (needed by C03), in the three forms Declare implements.
   (1) a parameter / let / const / class / catch-parameter declaration of a name the scope already
   declares (after the loop-head mark), unless the earlier one is a function-expression name:
   (nil, false), nothing changed.  Example: ex_twice_hyps, ex_lexical_twice, ex_var_let, ex_param_let. *)
Theorem declare_twice_rejected :
  forall st s sc decl x v,
    sget st s = Ok sc ->
    FunctionDecl < decl ->
    find_declared st sc x true = Some v ->
    vdecl (vget st v) <> ExprDecl ->
    declare st s decl x = Ok (st, None).
Proof. exact declare_twice_rejected_proof. Qed.
Print Assumptions declare_twice_rejected.

(* (2) var / function in a function scope that has a let/const/class/catch declaration of the name.
   Example: ex_let_var. *)
Theorem declare_var_over_lexical_rejected :
  forall st s sc decl x v,
    sget st s = Ok sc ->
    sfunc sc = Some s ->
    decl = VariableDecl \/ decl = FunctionDecl ->
    find_declared st sc x true = Some v ->
    ArgumentDecl < vdecl (vget st v) -> vdecl (vget st v) <> ExprDecl ->
    declare st s decl x = Ok (st, None).
Proof. exact declare_var_over_lexical_rejected_proof. Qed.
Print Assumptions declare_var_over_lexical_rejected.

(* (3) var / function below a block that declares the name with another kind (not catch): the walk
   towards the function scope meets it, at any depth n.  Example: ex_walk_hyps, ex_let_block_var. *)
Theorem declare_var_through_block_rejected :
  forall st s decl x n,
    decl = VariableDecl \/ decl = FunctionDecl ->
    walk_conflict st decl x s n -> (n <= length (scopes st))%nat ->
    declare st s decl x = Ok (st, None).
Proof. exact declare_var_through_block_rejected_proof. Qed.
Print Assumptions declare_var_through_block_rejected.

(* resolution_correct, for the fragment [core_x] = {Block; Func (function declarations and expressions, with or
   without expression name) and parenthesised Arrow whose parameter list consists of plain parameters and of
   default-value expressions (references, and functions / arrows / classes of the same kind, nested to any
   depth) such that no default value mentions a later parameter of its list, and whose expression name is not
   also a parameter or a declaration of the body (the shapes refuted below) - a default value MAY mention a name
   that the function body declares (it is frozen by MarkFuncArgs and resolved outside the function; since /repo
   6a9c7af the body's declaration no longer adopts it); For loops (loop head with let / const / var declarations and arbitrary initialisers, one Scope
   with MarkForStmt) whose body declares lexically no name that the head DECLARES (the head may mention names the
   body declares: frozen by MarkForStmt, /repo 6a9c7af); Catch whose parameter is a name or a pattern with default
   values (references, functions / arrows / classes; a default value may mention a later name of the pattern and any
   name the block declares: mark after the parameter, /repo 8db4a8d) and is not redeclared by var/function in the
   catch block; Class bodies without a class-expression name
   (methods, field values, computed keys, static blocks = function scopes without parameters); Decl var / function / let-const-class /
   parameter / catch parameter; Ref}: arbitrary nesting, shadowing at every level, use before declaration,
   hoisting of var/function through nested and sibling blocks, loops and catch clauses, closures that use names
   declared later, default values that mention earlier parameters, outer bindings or free names
   (MarkFuncArgs / NumArgUses), loop variables captured by closures of the body (MarkForStmt / NumForDecls).
   For every such program without redeclaration error ([program_ok]) and with fewer than 2^16 identifier
   occurrences: the model, run on the parser's events for the program ([run_program] = prun on
   [EEnter true :: linearise p]), does not reject, panic or run out of fuel, and
     (1) two occurrences are in the same Var after following Link iff the declarative resolver
         ([spec_resolve]) gives them the same declaration;
     (2) an occurrence bound nowhere is an undeclared variable (Decl = NoDecl) of the outermost scope's
         Undeclared list, under its own name;
     (3) an occurrence that is bound is a declared variable (Decl <> NoDecl) of that name;
     (4) Uses of the Var of an occurrence is the number of occurrences that share it.
   NOT covered by this theorem (hence _partial):
     - shapes on which /repo deviates from ECMAScript (the _refuted theorems): a default value that mentions a
       later parameter, an expression name redeclared inside the function, a loop body that declares lexically a
       name the loop head DECLARES, var redeclaring a catch parameter;
     - shapes on which model and ECMAScript agree on all sampled programs but which the proof does not reach:
       class-expression names (agreeing since faa3812; the label machine of the proof has no step for the merge of
       the pending uses into the name), x => ... and the arrow cover grammar (UndeclareScope).
   These are checked by the correspondence runs and the oracle only (KNOWN_FINDINGS.txt, keys c04-es:... and
   c04-reject:...); resolution_repaired_witnesses holds the former counterexamples.  That the fragment excludes
   nothing else is checked on every generated program without redeclaration error (oracle key
   c04-harness:fragment-not-exact: in [core_x] iff free of the four syntactic shapes above and of class-expression
   names, x => ... and parenthesised covers; [core_x] itself is compared with the harness's reading on every program
   of the end-to-end correspondence).
   Example (hypotheses satisfiable, non-trivial partition): Main.example_hyps, Main.example_partition,
   Main.example_d_hyps, Main.example_d_partition (default values), Main.example_c_hyps,
   Main.example_c_partition (classes), Main.example_x_hyps, Main.example_x_partition (loops, expression names),
   Main.example_y_hyps, Main.example_y_partition (uses frozen by the marks of loop heads, catch patterns, parameter lists). *)
Theorem resolution_correct_partial :
  forall p : prog,
    core_x p = true -> program_ok p = true -> Z.of_nat (occurrences p) < 65536 ->
    exists ps,
      run_program p = Running ps /\
      let st := pst ps in
      let vs := map (root_of st) (rev (plog ps)) in
      let ts := spec_resolve p in
      length vs = length ts /\
      (forall i j, (i < length vs)%nat -> (j < length vs)%nat ->
         (nth i vs O = nth j vs O <-> nth i ts (TGlobal 0) = nth j ts (TGlobal 0))) /\
      (forall i x, (i < length vs)%nat -> nth i ts (TGlobal 0) = TGlobal x ->
         In (nth i vs O) (sundeclared (sc_of st O)) /\ vdecl (vget st (nth i vs O)) = NoDecl
         /\ vname (vget st (nth i vs O)) = x) /\
      (forall i s a x, (i < length vs)%nat -> nth i ts (TGlobal 0) = TBind s a x ->
         vdecl (vget st (nth i vs O)) <> NoDecl /\ vname (vget st (nth i vs O)) = x) /\
      (forall i, (i < length vs)%nat ->
         vuses (vget st (nth i vs O)) = Z.of_nat (count_occ Nat.eq_dec vs (nth i vs O))).
Proof. exact resolution_correct_x. Qed.
Print Assumptions resolution_correct_partial.

(* rename_alpha (on the fragment of resolution_correct_partial, as its corollary): take any assignment rho of
   new names to Vars that gives distinct names, not occurring in the program, to the declared Vars and leaves
   undeclared Vars alone.  The program in which every identifier occurrence is replaced by rho of its Var
   ([rename_prog], same tree shape) is in the fragment again (and in the smaller fragments [core_d] - no loops,
   no expression names - and [core] - no default values, no classes - if p is) and the declarative resolver
   binds every occurrence of it in the same scope as before, under the new name: the renamed program is
   alpha-equivalent to the original.
   Example: Main2.rename_example, Main2.rename_example_d, Main2.rename_example_x. *)
Theorem rename_alpha :
  forall (p : prog) (rho : nat -> Z),
    core_x p = true -> program_ok p = true -> Z.of_nat (occurrences p) < 65536 ->
    exists ps,
      run_program p = Running ps /\
      let st := pst ps in
      let vs := map (root_of st) (rev (plog ps)) in
      let ts := spec_resolve p in
      (forall i j, (i < length vs)%nat -> (j < length vs)%nat ->
         vdecl (vget st (nth i vs O)) <> NoDecl -> vdecl (vget st (nth j vs O)) <> NoDecl ->
         rho (nth i vs O) = rho (nth j vs O) -> nth i vs O = nth j vs O) ->
      (forall i, (i < length vs)%nat -> vdecl (vget st (nth i vs O)) <> NoDecl -> ~ In (rho (nth i vs O)) (allnames p)) ->
      (forall i, (i < length vs)%nat -> vdecl (vget st (nth i vs O)) = NoDecl -> rho (nth i vs O) = vname (vget st (nth i vs O))) ->
      let p' := rename_prog (map rho vs) p in
      core_x p' = true /\ (core_d p = true -> core_d p' = true) /\ (core p = true -> core p' = true) /\
      spec_resolve p' =
        map (fun vt => match snd vt with TGlobal x => TGlobal x | TBind s a _ => TBind s a (rho (fst vt)) end) (combine vs ts).
Proof. exact rename_alpha_core. Qed.
Print Assumptions rename_alpha.

(* the specification side of rename_alpha, for ALL binding programs (every construct, no fragment): the
   declarative resolver commutes with renaming by declaration.  If f gives every declaration of p (a target
   TBind s a x of [spec_resolve p]) a name, injectively and outside the names of p, then the program whose
   occurrences are renamed after their targets resolves to the same targets under the new names.
   Example: Main2.spec_rename_all_example (loop head, catch, expression names, x => ..., parenthesised list). *)
Theorem rename_alpha_spec :
  forall (p : prog) (f : nat -> bool -> Z -> Z),
    let ts := spec_resolve p in
    (forall s a x t b y, In (TBind s a x) ts -> In (TBind t b y) ts -> f s a x = f t b y -> s = t /\ a = b /\ x = y) ->
    (forall s a x, In (TBind s a x) ts -> ~ In (f s a x) (allnames p)) ->
    spec_resolve (rename_prog (map (newname f) ts) p) = map (retarget f) ts.
Proof. exact spec_rename_all. Qed.
Print Assumptions rename_alpha_spec.

(* ---- clauses of the property text that are FALSE of the faithful model (and of /repo: KNOWN_FINDINGS.txt
   c04-es:..., witnesses also in corpus/C04.txt where model and implementation agree).  [deviates p]: p has
   no redeclaration error, the model resolves it, and its partition by Var differs from the declarative one. *)

(* "parameters and their default-value expressions": a default value that mentions a later parameter *)
Theorem resolution_param_defaults_refuted : deviates w_fwd_param.
Proof. exact w_fwd_param_deviates. Qed.
Print Assumptions resolution_param_defaults_refuted.

(* "function- and class-expression names": a function-expression name redeclared inside the function *)
Theorem resolution_expression_names_refuted : deviates w_funcexpr_name.
Proof. exact w_funcexpr_name_deviates. Qed.
Print Assumptions resolution_expression_names_refuted.

(* "loop heads": head and body share one Scope; a body that declares lexically a name the head DECLARES *)
Theorem resolution_loop_heads_refuted : deviates w_loop_head.
Proof. exact w_loop_head_deviates. Qed.
Print Assumptions resolution_loop_heads_refuted.

(* "catch-parameter block scoping": var redeclaring the parameter in a nested block *)
Theorem resolution_catch_refuted : deviates w_catch_var.
Proof. exact w_catch_var_deviates. Qed.
Print Assumptions resolution_catch_refuted.

(* the counterexamples of three repaired deviations (/repo 6a9c7af, 8db4a8d, faa3812) now resolve as ECMAScript
   says: "var b; function f(a=b){b; var b}",
   "var a; try{}catch([b=a]){let a}" (both inside the fragment of resolution_correct_partial) and "(class a{m(){a}})"
   (outside it).  [agrees p]: no redeclaration error,
   the model resolves p, and its partition by Var is the declarative one. *)
Theorem resolution_repaired_witnesses : agrees w_default_capture /\ agrees w_catch_head /\ agrees w_classexpr_name.
Proof. exact (conj w_default_capture_agrees (conj w_catch_head_agrees w_classexpr_name_agrees)). Qed.
Print Assumptions resolution_repaired_witnesses.
