(* Props/C20.v — C20: distinct parser instances are independent and safe to use concurrently.
   Statements only; each is closed by [exact] of a lemma proved in Conc/*.v.

   Conc/Model.v: a call of the library is an interaction tree [prog] over a shared memory whose
   locations are Global g (package-level state) or Owned t x (data private to goroutine / call t); what
   a call does next may depend on every value it has read.  [safe i p]: call p of owner i writes no
   Global and touches no Owned location of another owner.  [run] executes any schedule of atomic steps.
   The link to the code is translator T5 (Gen/Globals.v, regenerated from the type-checked source on
   every run): the library contains no statement that can write package-level state. *)
From Coq Require Import List ZArith Permutation String.
From Verif Require Import Conc.Model Conc.Proofs Gen.Globals Conc.Whitelist.
Import ListNotations.

(* For every set of calls that keep the discipline, every initial memory and EVERY schedule: each call
   is exactly where its solo run would be after the same number of its own steps and has read exactly the
   same values (hence, once finished, returns the result of its solo run), and no reachable
   configuration has a data race. *)
Theorem noninterference :
  forall (ps : list prog) (m0 : mem) (s : list nat),
    all_safe ps ->
    let c' := fst (run (ps, m0) s) in
    let tr := snd (run (ps, m0) s) in
    (forall i p0, nth_error ps i = Some p0 ->
       exists p mi, nth_error (fst c') i = Some p /\ solo_reach p0 m0 p mi (thread_events i tr)) /\
    (forall i p0 r, nth_error ps i = Some p0 -> nth_error (fst c') i = Some (Done r) ->
       fst (complete p0 m0) = r) /\
    ~ race c'.
Proof. exact noninterference_proof. Qed.
Print Assumptions noninterference.

(* Calls with distinct owners run one after the other on the same memory, in ANY order: every call
   returns what it returns when it runs alone on the initial memory; results do not depend on what was
   run before or on the order of earlier calls. *)
Theorem order_independence :
  forall (calls calls' : list (nat * prog)) (m0 : mem),
    calls_safe calls -> NoDup (map fst calls) -> Permutation calls calls' ->
    forall i p, In (i, p) calls -> In (i, fst (complete p m0)) (fst (run_seq calls' m0)).
Proof. exact order_independence_proof. Qed.
Print Assumptions order_independence.

(* The instance: in the type-checked source of every non-test file of every package of /repo there is
   no assignment, ++/--, op-assign, range-assignment, copy/append destination, delete or pointer-receiver
   method call whose target is rooted at a package-level variable (outside init and the variable's own
   initialiser), and every place where memory of a package-level variable is aliased is on the
   whitelist of read-only uses (Conc/Whitelist.v, one reason per entry). *)
Theorem lib_global_writes_empty :
  global_writes = [] /\ incl global_escapes readonly_whitelist.
Proof. exact lib_global_writes_empty_proof. Qed.
Print Assumptions lib_global_writes_empty.
