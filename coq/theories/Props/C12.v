(* Props/C12.v — C12: Input and buffer.Lexer implement the documented cursor.
   Statements only; each is closed by [exact] of a lemma proved in Cursor/Proofs.v. *)
From Verif Require Import Common.Base Cursor.Model Cursor.Proofs.

(* For both implementations, every constructor, every data and every operation list that keeps
   to the documented contract (spec_run succeeds), the implementation does not panic and returns
   exactly the observations of the abstract cursor over the delivered bytes. *)
Theorem cursor_refines_spec :
  forall (f : flavour) (k : ctor) (d : list Z) (ops : list op) c' outs,
    Forall (op_for f) ops ->
    spec_run (delivered k d) ops = Some (c', outs) ->
    exists z', run f (construct k d) ops = Some (z', outs) /\ R z' c'.
Proof. exact cursor_refines_spec_proof. Qed.
Print Assumptions cursor_refines_spec.

(* PeekRune never panics and never reports a length reaching past the end, for every byte string
   and every position up to and including the terminator. *)
Theorem peekrune_total :
  forall f z d i, buf z = d ++ [0] -> 0 <= pos z + i <= len d ->
    exists r n, peek_rune f z i = Some (r, n) /\ 1 <= n <= 4 /\
                (pos z + i + n <= len d \/ (n = 1 /\ pos z + i = len d)).
Proof. exact peekrune_total_proof. Qed.
Print Assumptions peekrune_total.

(* On a valid UTF-8 sequence PeekRune returns the RFC 3629 code point and length. *)
Theorem peekrune_valid :
  forall f z d i r k, buf z = d ++ [0] -> 0 <= pos z + i ->
    utf8_decode (skipz (pos z + i) d) = Some (r, k) -> peek_rune f z i = Some (r, k).
Proof. exact peek_rune_valid. Qed.
Print Assumptions peekrune_valid.

(* The caller's n bytes are never written, nothing beyond index n is written, and after a final
   Restore the whole array is as the caller left it. *)
Theorem restore_frame :
  forall f d spare ops z' outs,
    run f (new_bytes d spare) ops = Some (z', outs) ->
    firstz (len d) (arr z') = d /\
    skipz (len d + 1) (arr z') = skipz (len d + 1) (d ++ spare) /\
    (forall pre, ops = pre ++ [ORestore] -> arr z' = d ++ spare).
Proof. exact restore_frame_proof. Qed.
Print Assumptions restore_frame.

(* A failing reader: Err is the reader's error, Peek(0) is 0 and Len is 0. *)
Theorem reader_error_spec :
  forall f chunks e, e <> 0 ->
    let z := new_reader chunks e in
    step f z OErr = Some (z, [e]) /\ step f z (OPeek 0) = Some (z, [0]) /\ step f z OLen = Some (z, [0]).
Proof. exact reader_error_spec_proof. Qed.
Print Assumptions reader_error_spec.
