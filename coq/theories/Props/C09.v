(* Props/C09.v — C09 (HTML lexer), with the HTML parts of C01 (no crash / hang / over-read) and C02 (faithful
   slices).  Statements only; each is closed by [exact] of a lemma proved in Html/Proofs.v.
   The model is Html/Model.v (all of /repo/html/lex.go and ToHash over the generated table); [run c n l] is a
   caller that calls Next n times whatever it returns; [cfg_ok c] says the two template delimiters contain no
   NUL byte (c = no_tmpl: NewLexer; the six predefined pairs satisfy it, cfg_ok_predefined). *)
From Verif Require Import Common.Base Common.Lx Gen.Tables Html.Model Html.ListLemmas Html.Safety Html.Step Html.Spec Html.RawText Html.Proofs Html.EndTag.

(* C01 — no panic, no endless loop: n calls of Next succeed on every byte string, with or without template
   delimiters, whatever the caller does after an error. *)
Theorem html_total :
  forall c d n, cfg_ok c -> exists tr, run c n (new_lexer d) = Ok tr /\ length tr = n.
Proof. exact html_total_proof. Qed.
Print Assumptions html_total.

(* C01 — every call that does not return ErrorToken consumes at least one byte and stays inside the input ... *)
Theorem html_progress :
  forall c d l ty tk l', cfg_ok c -> html_inv d l -> next c l = Ok (ty, tk, l') ->
    ty <> ErrorT -> lpos (lz l) < lpos (lz l') <= len d.
Proof. exact html_progress_step_proof. Qed.
Print Assumptions html_progress.

(* ... and whoever keeps calling sees the end-of-input report (ErrorToken, nil, cursor at the end) after at most
   len d + 1 calls. *)
Theorem html_progress_eof :
  forall c d n tr, cfg_ok c -> run c n (new_lexer d) = Ok tr -> (length d < n)%nat ->
    exists k l', (k <= length d)%nat /\ nth_error tr k = Some (ErrorT, None, l') /\ lpos (lz l') = len d.
Proof. exact html_progress_eof_proof. Qed.
Print Assumptions html_progress_eof.

(* C01 — once the cursor is at the end every further call returns ErrorToken, nil, with the same Err(). *)
Theorem html_eof_sticky :
  forall c d l n, cfg_ok c -> html_inv d l -> lpos (lz l) = len d ->
    exists tr, run c n l = Ok tr /\ length tr = n /\
      Forall (fun r => fst (fst r) = ErrorT /\ snd (fst r) = None /\ lpos (lz (snd r)) = len d /\
                       err_kind (snd r) = err_kind l) tr.
Proof. exact html_eof_sticky_proof. Qed.
Print Assumptions html_eof_sticky.

(* C01 — the cursor, every token and every Text()/AttrVal() view lie inside the input (the terminator is never
   handed out); reads outside data ++ [0] are Panic in the model, so html_total is "no over-read". *)
Theorem html_no_overread :
  forall c d n, cfg_ok c -> exists tr, run c n (new_lexer d) = Ok tr /\ Forall (no_overread_at d) tr.
Proof. exact html_no_overread_proof. Qed.
Print Assumptions html_no_overread.

(* C02 — up to the first ErrorToken the tokens are non-empty, in order, inside the input, end at the reported
   offset and cover everything except whitespace before the '>' / '/>' of a tag; their bytes are the input bytes
   with exactly one view lower-cased, which view being fixed by the token type (low_rule: the tag name of start
   tags and svg/math/xml, the attribute name unless it contains a template, the tag NAME of an end tag, nothing else). *)
Theorem html_tiling :
  forall c d n tr, cfg_ok c -> run c n (new_lexer d) = Ok tr -> tiles d 0 tr.
Proof. exact html_tiling_proof. Qed.
Print Assumptions html_tiling.

(* C02 — Text(), AttrKey() and AttrVal() are sub-slices of the token they belong to. *)
Theorem html_subslices :
  forall c d n tr, cfg_ok c -> run c n (new_lexer d) = Ok tr -> Forall subslices_at tr.
Proof. exact html_subslices_proof. Qed.
Print Assumptions html_subslices.

(* C09 — Attribute tokens (and StartTagClose / StartTagVoid) occur only between a StartTag and its closer. *)
Theorem html_attr_bracketing :
  forall c d n tr, cfg_ok c -> run c n (new_lexer d) = Ok tr ->
    bracketed false (map (fun r => fst (fst r)) (until_error tr)).
Proof. exact html_attr_bracketing_proof. Qed.
Print Assumptions html_attr_bracketing.

(* C09 — raw text: after the start tag of a raw-text element (rawtag l <> 0, tag closed) the content up to e is
   returned as ONE Text token and the raw-text mode is left; e is the end of input or the position of an end tag of
   that element (end_tag_at: "</" + a maximal run of letters that hashes to the element, case-insensitively,
   FOLLOWED BY whitespace, '/', '>' or the end of input), as found by the modelled rules (script double escape,
   template regions skipped; after fixes 756382e and 26dd3a3 the same test applies inside the "<!--" section of a
   script); without template delimiters no end tag stands at an earlier position p, provided that (in a script) no
   "<!--" occurs up to p (plain_raw: outside script, or no comment_open in [cursor, p]) — so outside script, and in
   a script up to its first "<!--", e is the FIRST such end tag.  (If the content is empty, e = cursor.) *)
Theorem html_rawtext_never_markup :
  forall c d l ty tk l', cfg_ok c -> html_inv d l -> intag l = false -> rawtag l <> 0 ->
    next c l = Ok (ty, tk, l') ->
    exists e, lpos (lz l) <= e <= len d /\
      (lpos (lz l) < e ->
         ty = TextT /\ tk = Some (mkSl (lpos (lz l)) (e - lpos (lz l))) /\ ltext l' = tk /\
         rawtag l' = 0 /\ intag l' = false /\ lpos (lz l') = e) /\
      (e = len d \/ (rawtag l <> html_hash_Plaintext /\ end_tag_at (rawtag l) (d ++ [0]) e)) /\
      (has_delims c = false -> rawtag l <> html_hash_Plaintext ->
         forall p, lpos (lz l) <= p < e -> plain_raw (rawtag l) (d ++ [0]) (lpos (lz l)) (p + 1) ->
                   ~ end_tag_at (rawtag l) (d ++ [0]) p).
Proof. exact html_rawtext_proof. Qed.
Print Assumptions html_rawtext_never_markup.

(* C02 / C09 — end tags are faithful (full clause, after fixes 980d021 and 7de66fe): for every end-tag token before
   the first error, with nr = the length of its name (the bytes after "</" up to the first whitespace, '>' or '/'),
   the token bytes are the input bytes with exactly the NAME lower-cased — every other byte is returned as it was —;
   Text() starts after "</", does not end in HTML whitespace (space, tab, LF, CR, FF), and only whitespace and the
   closing '>' follow it inside the token. *)
Theorem html_endtag_faithful :
  forall c d n tr, cfg_ok c -> run c n (new_lexer d) = Ok tr -> Forall (endtag_faithful d) (until_error tr).
Proof. exact html_endtag_faithful_proof. Qed.
Print Assumptions html_endtag_faithful.
