(* Props/C09.v — C09 (HTML lexer), with the HTML parts of C01 (no crash / hang / over-read) and C02 (faithful
   slices).  Statements only; each is closed by [exact] of a lemma proved in Html/Proofs.v.
   The model is Html/Model.v (all of /repo/html/lex.go and ToHash over the generated table); [run c n l] is a
   caller that calls Next n times whatever it returns; [cfg_ok c] says the two template delimiters contain no
   NUL byte (c = no_tmpl: NewLexer; the six predefined pairs satisfy it, cfg_ok_predefined). *)
From Verif Require Import Common.Base Common.Lx Gen.Tables Html.Model Html.ListLemmas Html.Safety Html.Step Html.Spec Html.RawText Html.Proofs Html.Template Html.Wf Html.WfDoc Html.Sim Html.WfTmpl Html.EndTag Html.TemplateMore Html.Script Html.TemplateAll.

(* C01 — no panic, no endless loop: n calls of Next succeed on every byte string, with or without template
   delimiters, whatever the caller does after an error. *)
Theorem html_total :
  forall c d n, cfg_ok c -> exists tr, run c n (new_lexer d) = Ok tr /\ length tr = n.
Proof. exact html_total_proof. Qed.
Print Assumptions html_total.

(* C01 — every call that does not return ErrorToken consumes at least one byte and stays inside the input ... *)
Theorem html_progress :
  forall c d l ty tk l', cfg_ok c -> html_inv d l -> next c l = Ok (ty, tk, l') ->
    ty <> ErrorT -> lpos (lz l) < lpos (lz l') <= len d.
Proof. exact html_progress_step_proof. Qed.
Print Assumptions html_progress.

(* ... and whoever keeps calling sees the end-of-input report (ErrorToken, nil, cursor at the end) after at most
   len d + 1 calls. *)
Theorem html_progress_eof :
  forall c d n tr, cfg_ok c -> run c n (new_lexer d) = Ok tr -> (length d < n)%nat ->
    exists k l', (k <= length d)%nat /\ nth_error tr k = Some (ErrorT, None, l') /\ lpos (lz l') = len d.
Proof. exact html_progress_eof_proof. Qed.
Print Assumptions html_progress_eof.

(* C01 — once the cursor is at the end every further call returns ErrorToken, nil, with the same Err(). *)
Theorem html_eof_sticky :
  forall c d l n, cfg_ok c -> html_inv d l -> lpos (lz l) = len d ->
    exists tr, run c n l = Ok tr /\ length tr = n /\
      Forall (fun r => fst (fst r) = ErrorT /\ snd (fst r) = None /\ lpos (lz (snd r)) = len d /\
                       err_kind (snd r) = err_kind l) tr.
Proof. exact html_eof_sticky_proof. Qed.
Print Assumptions html_eof_sticky.

(* C01 — the cursor, every token and every Text()/AttrVal() view lie inside the input (the terminator is never
   handed out); reads outside data ++ [0] are Panic in the model, so html_total is "no over-read". *)
Theorem html_no_overread :
  forall c d n, cfg_ok c -> exists tr, run c n (new_lexer d) = Ok tr /\ Forall (no_overread_at d) tr.
Proof. exact html_no_overread_proof. Qed.
Print Assumptions html_no_overread.

(* C02 — up to the first ErrorToken the tokens are non-empty, in order, inside the input, end at the reported
   offset and cover everything except whitespace before the '>' / '/>' of a tag; their bytes are the input bytes
   with exactly one view lower-cased, which view being fixed by the token type (low_rule: the tag name of start
   tags and svg/math/xml, the attribute name unless it contains a template, the tag NAME of an end tag, nothing else). *)
Theorem html_tiling :
  forall c d n tr, cfg_ok c -> run c n (new_lexer d) = Ok tr -> tiles d 0 tr.
Proof. exact html_tiling_proof. Qed.
Print Assumptions html_tiling.

(* C02 — Text(), AttrKey() and AttrVal() are sub-slices of the token they belong to. *)
Theorem html_subslices :
  forall c d n tr, cfg_ok c -> run c n (new_lexer d) = Ok tr -> Forall subslices_at tr.
Proof. exact html_subslices_proof. Qed.
Print Assumptions html_subslices.

(* C09 — Attribute tokens (and StartTagClose / StartTagVoid) occur only between a StartTag and its closer. *)
Theorem html_attr_bracketing :
  forall c d n tr, cfg_ok c -> run c n (new_lexer d) = Ok tr ->
    bracketed false (map (fun r => fst (fst r)) (until_error tr)).
Proof. exact html_attr_bracketing_proof. Qed.
Print Assumptions html_attr_bracketing.

(* C09 — raw text: after the start tag of a raw-text element (rawtag l <> 0, tag closed) the content up to e is
   returned as ONE Text token and the raw-text mode is left; e is the end of input or the position of an end tag of
   that element (end_tag_at: "</" + a maximal run of letters that hashes to the element, case-insensitively,
   FOLLOWED BY whitespace, '/', '>' or the end of input), as found by the modelled rules (script double escape,
   template regions skipped; after fixes 756382e and 26dd3a3 the same test applies inside the "<!--" section of a
   script); without template delimiters no end tag stands at an earlier position p, provided that (in a script) no
   "<!--" occurs up to p (plain_raw: outside script, or no comment_open in [cursor, p]) — so outside script, and in
   a script up to its first "<!--", e is the FIRST such end tag.  (If the content is empty, e = cursor.) *)
Theorem html_rawtext_never_markup :
  forall c d l ty tk l', cfg_ok c -> html_inv d l -> intag l = false -> rawtag l <> 0 ->
    next c l = Ok (ty, tk, l') ->
    exists e, lpos (lz l) <= e <= len d /\
      (lpos (lz l) < e ->
         ty = TextT /\ tk = Some (mkSl (lpos (lz l)) (e - lpos (lz l))) /\ ltext l' = tk /\
         rawtag l' = 0 /\ intag l' = false /\ lpos (lz l') = e) /\
      (e = len d \/ (rawtag l <> html_hash_Plaintext /\ end_tag_at (rawtag l) (d ++ [0]) e)) /\
      (has_delims c = false -> rawtag l <> html_hash_Plaintext ->
         forall p, lpos (lz l) <= p < e -> plain_raw (rawtag l) (d ++ [0]) (lpos (lz l)) (p + 1) ->
                   ~ end_tag_at (rawtag l) (d ++ [0]) p).
Proof. exact html_rawtext_proof. Qed.
Print Assumptions html_rawtext_never_markup.

(* C09 — script, double escape (full, no template delimiters): the content of a script element is ONE Text token that
   ends exactly where the rules designate.  Script.script_len reads the remaining input as script data: a
   "</script" followed by whitespace, '/', '>' or the end of input ends the content; "<!--" opens a section
   (Script.esc_end) that "-->" closes; inside it "<script" + tag end sets the double-escape flag, and "</script" + tag
   end clears the flag if it is set and otherwise ends the content; other "<", "</" + letters are skipped; the end of
   input ends the content.  (e = cursor: the content is empty.) *)
Theorem html_script_double_escape :
  forall d l ty tk l', html_inv d l -> intag l = false -> rawtag l = html_hash_Script ->
    next no_tmpl l = Ok (ty, tk, l') ->
    let e := lpos (lz l) + script_len (skipz (lpos (lz l)) d) in
    lpos (lz l) <= e <= len d /\
    (lpos (lz l) < e ->
       ty = TextT /\ tk = Some (mkSl (lpos (lz l)) (e - lpos (lz l))) /\ ltext l' = tk /\
       rawtag l' = 0 /\ intag l' = false /\ lpos (lz l') = e).
Proof. exact html_script_end_proof. Qed.
Print Assumptions html_script_double_escape.

(* C09 — raw text, exact end (full, no template delimiters): for every raw-text element other than plaintext the content
   is ONE Text token that ends exactly at cursor + Script.raw_len: the first "</name" + tag end (script: outside
   "<!--" sections, as in html_script_double_escape), or the end of input. *)
Theorem html_rawtext_end_exact :
  forall d l ty tk l', html_inv d l -> intag l = false -> rawtag l <> 0 -> rawtag l <> html_hash_Plaintext ->
    next no_tmpl l = Ok (ty, tk, l') ->
    let e := lpos (lz l) + raw_len (rawtag l) (skipz (lpos (lz l)) d) in
    lpos (lz l) <= e <= len d /\
    (lpos (lz l) < e ->
       ty = TextT /\ tk = Some (mkSl (lpos (lz l)) (e - lpos (lz l))) /\ ltext l' = tk /\
       rawtag l' = 0 /\ intag l' = false /\ lpos (lz l') = e).
Proof. exact html_raw_end_proof. Qed.
Print Assumptions html_rawtext_end_exact.

(* C09 — templates, text: a delimited region [p,q) that starts where the lexer is in text is returned as exactly
   one Template token, HasTemplate() = true (is_region: q is the end of the first closing delimiter outside quoted
   strings, or the end of input). *)
Theorem html_template_atomic :
  forall c d l p q, cfg_ok c -> html_inv d l -> intag l = false -> rawtag l = 0 ->
    p = lpos (lz l) -> is_region c d p q ->
    exists l', next c l = Ok (TemplateT, Some (mkSl p (q - p)), l') /\ lhas l' = true /\ lpos (lz l') = q.
Proof. exact html_template_token_proof. Qed.
Print Assumptions html_template_atomic.

(* C09 — templates, text (converse): an ordinary Text token contains no opening delimiter and reports none. *)
Theorem html_template_text_clean :
  forall c d l v l', cfg_ok c -> tb c <> [] -> html_inv d l -> intag l = false -> rawtag l = 0 ->
    next c l = Ok (TextT, Some v, l') -> ltext l' = Some v ->
    lhas l' = false /\ forall p, so v <= p < so v + sn v -> prefixb (tb c) (skipz p d) = false.
Proof. exact html_text_no_template_proof. Qed.
Print Assumptions html_template_text_clean.

(* C09 — well-formed documents (partial): for every document assembled from the constructs of the grammar
   WfDoc.item (text without '<'; comments; CDATA; doctype in any ASCII case; start tags of ordinary elements with
   valueless / unquoted / single- / double-quoted attributes and any permitted whitespace, closed by '>' or '/>';
   end tags with any HTML whitespace before '>'; the raw-text elements style, title, textarea, xmp, iframe, script in any ASCII case with
   attributes, non-empty content that contains no "</" (script: also no "<!--", or content with "<!--" sections for
   which the double-escape rules designate the element's end tag: WfDoc.script_content), and their end tag; plaintext with
   everything after its tag (last item); bogus comments "<?…>", "<!…>" (not starting with "--", "[CDATA[" or "doctype" in any ASCII case)
   and "</" + non-letter "…>"; svg / math / xml subtrees whose inside is accepted by Wf.xml_wf: read as tags and
   character data, quotes count only inside tags (attribute values may contain '>', "</svg>" and the other quote),
   character data may contain quotes, nested tags and end tags of other elements; comments "<!--…-->", CDATA
   sections "<![CDATA[…]]>" and processing instructions "<?…?>" are skipped whatever they contain (quotes, '<',
   the element's own end tag; after fix f26ca9a); no NUL, and no end tag of the element itself in character data)
   the lexer, without template delimiters, returns exactly one token per construct
   (one per tag part; raw content as ONE Text token; an svg/math subtree as ONE SVG/Math token), with the right
   type, the bytes of the construct, lower-cased Text()/AttrKey() and verbatim AttrVal(), followed by the
   end-of-input report.  [observe] reads type, token bytes, Text() and (for attributes) AttrVal() after each call; the
   last conjunct reads HasTemplate() after each call: false (no delimiters are configured; Wf.next_no_tmpl_has).
   Constructs cut by the end of input (only as the last item; WfDoc.ITextLt and the ICut items): text ending with "<" or "</"
   (the '<' belongs to the text); "<!--" body, "<![CDATA[" body, "<!doctype" after: one Comment / Text / Doctype token
   to the end; "<?" / "<!" / "</"+non-letter body: one bogus Comment; "</" name ws: one EndTag; "<" name attributes:
   StartTag and the Attribute tokens, where the last attribute's quoted value may lack its closing quote
   (Wf.cut_quoted_value: AttrVal() is the opening quote and everything after it); a raw-text element (script with its double-escape rules) whose content has no
   end tag (Script.raw_len = length): the tag tokens and ONE Text to the end; an svg / math / xml element without its end
   tag whose bytes after the name are read by shiftXML's first loop up to the end of input (WfDoc.ICutForeign over the step
   function Wf.xml_step: the cut may fall in character data, inside a tag, a quoted attribute value, a comment, a CDATA
   section or a processing instruction; no NUL): ONE SVG / Math / XML token to the end, no error; the same element cut
   inside its end tag, after "</" name and whitespace (WfDoc.ICutForeignEnd): ONE token to the end, no error.  In each
   case the end-of-input report follows.
   A tag cut inside the whitespace after its name or after an attribute: html_wellformed_cut_tag_ws below.
   NOT covered (correspondence + Go oracle only): raw content that is empty (html_rawtext_end_exact
   says where raw content ends in general); text containing a '<' that opens nothing (other than at the end of input);
   names containing '/'; templates inside constructs (regions between constructs and after text: html_wellformed_templates). *)
Theorem html_wellformed_tokens_partial :
  forall items, wf_doc items ->
    exists tr, run no_tmpl (length (doc_obs items) + 1) (new_lexer (doc_bytes items)) = Ok tr /\
               map observe tr = doc_obs items ++ [mkObs ErrorT [] [] []] /\
               Forall (fun r => lhas (snd r) = false) tr.
Proof. exact html_wellformed_tokens_proof. Qed.
Print Assumptions html_wellformed_tokens_partial.

(* C09 — well-formed documents, a tag cut inside trailing whitespace: complete constructs of the grammar (no plaintext,
   no cut item) followed by "<" name attributes whitespace and the end of input (the name of an element that is not
   svg / math / xml; the attributes as in a tag whose closer is the whitespace tws: an unquoted last value ends at
   it, quoted values are closed): the tokens of the constructs, the StartTag and the Attribute tokens, then the
   end-of-input report with empty Text(); the whitespace belongs to no token. *)
Theorem html_wellformed_cut_tag_ws :
  forall items name attrs tws, wf_doc items -> Forall (fun i => is_plain i = false) items ->
    (exists c nm, name = c :: nm /\ is_letter c = true) -> Forall namechar name ->
    (exists h, to_hash (map lower name) = Ok h /\ is_xml_hash h = false) -> all_ws tws -> wf_attrs attrs tws ->
    let d := doc_bytes items ++ 60 :: name ++ concat (map attr_bytes attrs) ++ tws in
    let os := doc_obs items ++ mkObs StartTagT (60 :: map lower name) (map lower name) [] :: map attr_obs attrs in
    exists tr, run no_tmpl (length os + 1) (new_lexer d) = Ok tr /\ map observe tr = os ++ [mkObs ErrorT [] [] []] /\
               Forall (fun r => lhas (snd r) = false) tr.
Proof. exact html_wellformed_cut_ws_proof. Qed.
Print Assumptions html_wellformed_cut_tag_ws.

(* C09 — templates, transparency (one call, every context, every delimiter pair): if a call of Next made WITHOUT
   delimiters returns (ty, tk, l') from a token boundary, and no opening delimiter starts at any byte the call consumed
   (nor at the byte after the token when the call looks there: Text, Attribute and Error returns), then the same call
   WITH the delimiters configured returns exactly the same token and state, and HasTemplate() is false.  (Sim.next_sim:
   every scanning loop of the lexer, with its l.skipTemplate() / l.at(tmplBegin) tests, behaves as without them on
   clean bytes.) *)
Theorem html_template_transparent :
  forall c d l ty tk l', cfg_ok c -> tb c <> [] -> html_inv d l -> lstart (lz l) = lpos (lz l) ->
    next no_tmpl l = Ok (ty, tk, l') -> clean_range c d (lpos (lz l)) (lpos (lz l')) ->
    (looks_end ty -> prefixb (tb c) (skipz (lpos (lz l')) d) = false) ->
    next c l = Ok (ty, tk, l') /\ lhas l' = false.
Proof. exact html_template_transparent_proof. Qed.
Print Assumptions html_template_transparent.

(* C09 — well-formed documents WITH templates (any delimiter pair): a document made of the constructs of the grammar
   WfDoc.item (as in html_wellformed_tokens_partial, cut constructs included) and of delimited regions (Template.is_region)
   placed between constructs, after text, at the start or at the end, where no opening delimiter starts inside a
   construct's bytes (WfTmpl.wf_tdoc; a region may directly follow any construct whose last token is not a Text or
   Attribute token — that excludes only CDATA sections and cut constructs — and any text): the lexer with the
   delimiters configured returns the tokens of html_wellformed_tokens_partial for the constructs, each with
   HasTemplate() = false, exactly ONE Template token per region (its bytes, empty Text(), HasTemplate() = true), then
   the end-of-input report.  [observe_h] = ([observe], HasTemplate()).
   NOT covered here (token level: html_template_exact and the attr / rawtext theorems; Go oracle c09-templates):
   regions inside tags, attribute values, raw text, comments, CDATA, doctype, svg / math content. *)
Theorem html_wellformed_templates :
  forall c its, cfg_ok c -> tb c <> [] -> wf_tdoc c (tdoc_bytes its) [] its ->
    exists tr, run c (length (tdoc_obs its) + 1) (new_lexer (tdoc_bytes its)) = Ok tr /\
               map observe_h tr = tdoc_obs its ++ [(mkObs ErrorT [] [] [], false)].
Proof. exact html_wellformed_templates_proof. Qed.
Print Assumptions html_wellformed_templates.

(* C02 / C09 — end tags are faithful (full clause, after fixes 980d021 and 7de66fe): for every end-tag token before
   the first error, with nr = the length of its name (the bytes after "</" up to the first whitespace, '>' or '/'),
   the token bytes are the input bytes with exactly the NAME lower-cased — every other byte is returned as it was —;
   Text() starts after "</", does not end in HTML whitespace (space, tab, LF, CR, FF), and only whitespace and the
   closing '>' follow it inside the token. *)
Theorem html_endtag_faithful :
  forall c d n tr, cfg_ok c -> run c n (new_lexer d) = Ok tr -> Forall (endtag_faithful d) (until_error tr).
Proof. exact html_endtag_faithful_proof. Qed.
Print Assumptions html_endtag_faithful.

(* C09 — templates, attribute names (partial): a region [p,q) that follows a tag name or an attribute after
   whitespace [cursor,a) and name bytes [a,p) at which no opening delimiter starts (name_plain: not whitespace,
   '=', '>', "/>"; a = p: the region is the first thing of the attribute) lies inside ONE Attribute token that
   starts at the cursor, HasTemplate() = true. *)
Theorem html_template_atomic_attr_partial :
  forall c d l a p q, cfg_ok c -> tb_plain c -> html_inv d l -> intag l = true ->
    lstart (lz l) = lpos (lz l) -> lpos (lz l) <= a <= p ->
    (forall i, lpos (lz l) <= i < a -> is_ws (getz d i) = true) ->
    (forall i, a <= i < p -> name_plain c d i) ->
    is_region c d p q ->
    exists v l', next c l = Ok (AttributeT, Some v, l') /\ lhas l' = true /\ so v = lpos (lz l) /\ q <= so v + sn v.
Proof. exact html_template_attr_name_proof. Qed.
Print Assumptions html_template_atomic_attr_partial.


(* C09 — templates, attribute values (partial): after whitespace, a non-empty name [a,b) without delimiter start,
   whitespace, '=' at e and whitespace, a region [p,q) that is the whole start of the value (p = v) or lies inside a
   single- or double-quoted value after bytes [v+1,p) that are neither the quote nor a delimiter start, lies inside
   the ONE Attribute token, HasTemplate() = true.
   NOT proved for attributes (correspondence + oracle only): a second or later region of the same attribute.
   Exact exception (known finding c09-template:attrval-unquoted-mid): a region that starts in the middle of an
   UNQUOTED value is not recognised. *)
Theorem html_template_atomic_attr_value_partial :
  forall c d l a b e v p q, cfg_ok c -> tb_plain c -> html_inv d l -> intag l = true ->
    lstart (lz l) = lpos (lz l) -> lpos (lz l) <= a -> a < b -> b <= e -> e < v -> v <= p ->
    (forall i, lpos (lz l) <= i < a -> is_ws (getz d i) = true) ->
    (forall i, a <= i < b -> name_plain c d i) ->
    prefixb (tb c) (skipz b d) = false ->
    (forall i, b <= i < e -> is_ws (getz d i) = true) -> getz d e = 61 ->
    (forall i, e < i < v -> is_ws (getz d i) = true) ->
    (v = p \/ (prefixb (tb c) (skipz v d) = false /\ (getz d v = 34 \/ getz d v = 39) /\
               forall i, v < i < p -> value_plain c d (getz d v) i)) ->
    is_region c d p q ->
    exists tk l', next c l = Ok (AttributeT, Some tk, l') /\ lhas l' = true /\ so tk = lpos (lz l) /\ q <= so tk + sn tk.
Proof. exact html_template_attr_value_proof. Qed.
Print Assumptions html_template_atomic_attr_value_partial.


(* C09 — templates, attributes (converse, full): an Attribute token reports HasTemplate() = true only if a delimited
   region [p,q) lies inside it (between the cursor before the call and the cursor after it). *)
Theorem html_template_attr_converse :
  forall c d l v l', cfg_ok c -> tb c <> [] -> html_inv d l -> intag l = true ->
    next c l = Ok (AttributeT, Some v, l') -> lhas l' = true ->
    exists p q, lpos (lz l) <= p /\ q <= lpos (lz l') /\ is_region c d p q.
Proof. exact html_template_attr_converse_proof. Qed.
Print Assumptions html_template_attr_converse.


(* C09 — templates, raw text (partial): for ANY delimiter pair (after 886e7b1 also those beginning with '<'), a region
   [p,q) in the content of a raw-text element lies inside the Text token, HasTemplate() = true, whenever p is reached
   from the start of the content (raw_reach) over: whole regions; bytes the scanner steps over one at a time (raw_plain:
   no opening delimiter starts there, and a '<' is not followed by '/' nor, in a script, by "!--"); a "</" + letters
   that is not the element's end tag (the scanner jumps over the letters: a delimiter that starts inside them is not seen).
   Regions inside "<!--" sections of a script are now recognised by the code; they are covered by the converse and by
   the oracle, not by raw_reach. *)
Theorem html_template_atomic_rawtext_partial :
  forall c d l p q, cfg_ok c -> html_inv d l -> intag l = false ->
    rawtag l <> 0 -> rawtag l <> html_hash_Plaintext ->
    raw_reach c (rawtag l) d (lpos (lz l)) p -> is_region c d p q ->
    exists v l', next c l = Ok (TextT, Some v, l') /\ lhas l' = true /\ so v = lpos (lz l) /\ q <= so v + sn v.
Proof. exact html_template_rawtext_reach_proof. Qed.
Print Assumptions html_template_atomic_rawtext_partial.


(* C09 — templates, raw text (converse, full): when the content of a raw-text element is not empty (the cursor is
   neither at the end of input nor at an end tag of the element) and the call reports HasTemplate() = true, a
   delimited region [p,q) lies inside the returned Text token (which ends at the new cursor). *)
Theorem html_template_rawtext_converse :
  forall c d l ty tk l', cfg_ok c -> tb c <> [] -> html_inv d l -> intag l = false -> rawtag l <> 0 ->
    lpos (lz l) < len d -> ~ end_tag_at (rawtag l) (d ++ [0]) (lpos (lz l)) ->
    next c l = Ok (ty, tk, l') -> lhas l' = true ->
    exists p q, lpos (lz l) <= p /\ q <= lpos (lz l') /\ is_region c d p q.
Proof. exact html_template_rawtext_converse_proof. Qed.
Print Assumptions html_template_rawtext_converse.

(* C09 — templates, EVERY context (full, the "only if" half of the property's last sentence): for every delimiter
   pair, every input and every state reached, whatever token Next returns (text, template, tag parts, attributes, end
   tags, comments, CDATA, doctype, bogus comments, raw text, script sections, svg / math / xml), if it reports
   HasTemplate() = true then a delimited region [p,q) lies inside the bytes the call consumed.  (Proved by one
   invariant over every loop whose first test is l.skipTemplate(): Model.with_tmpl / Safety.with_tmpl_inv.)
   The "if" half (a region that starts where the lexer looks is never split and sets the flag) is proved per context:
   html_template_atomic (text), html_template_atomic_attr_partial / _attr_value_partial (attributes),
   html_template_atomic_rawtext_partial (raw text), html_template_atomic_comment (comments); for doctype, CDATA, bogus
   comments, end tags and svg / math / xml it is covered by the witnesses and the Go oracle.  Positions at which the lexer does not look:
   the letters it jumps over after '<' or "</" in
   raw text, script "<!--" sections and svg / math content; the bytes of "<!--", "<![CDATA[", "<?" and of the
   terminators "-->", "]]>", "?>" it moves over at once; whitespace, '=' and the closers '>' "/>" inside a tag;
   the first two bytes of "</", "<!", "<?" and the first letter of a tag name. *)
Theorem html_template_flag_sound :
  forall c d l ty tk l', cfg_ok c -> tb c <> [] -> html_inv d l -> next c l = Ok (ty, tk, l') -> lhas l' = true ->
    exists p q, lpos (lz l) <= p /\ q <= lpos (lz l') /\ is_region c d p q.
Proof. exact html_template_flag_sound_stmt. Qed.
Print Assumptions html_template_flag_sound.

(* C09 — templates, comments (the "if" half in a context that was a finding): "<!--" at the cursor (no delimiter starts
   at the '<'), then bytes [a+4,p) at which neither a delimiter nor "-->" / "--!>" starts, then a region [p,q): the ONE
   Comment token starts at the cursor, contains the whole region and reports HasTemplate() = true — also when the
   region contains "-->".  (Proved with a generic rule for every scanning loop that tests l.skipTemplate() first,
   TemplateAll.scan_reach_done; doctype, CDATA, bogus comments and end tags have the same loop shape.) *)
Theorem html_template_atomic_comment :
  forall c d l p q, cfg_ok c -> tb c <> [] -> html_inv d l -> intag l = false -> rawtag l = 0 ->
    let a := lpos (lz l) in
    prefixb (tb c) (skipz a d) = false -> prefixb [60; 33; 45; 45] (skipz a d) = true -> a + 4 <= p ->
    (forall i, a + 4 <= i < p -> comment_plain c d i) -> is_region c d p q ->
    exists v l', next c l = Ok (CommentT, Some v, l') /\ lhas l' = true /\ so v = a /\ q <= so v + sn v.
Proof. exact html_template_comment_proof. Qed.
Print Assumptions html_template_atomic_comment.

(* C09 — templates, both halves in ONE statement (the property's last sentence: "a delimited region is never split
   across tokens and HasTemplate() is true exactly for tokens that contain one"), for every delimiter pair, every input
   and every state:
   (1) if a region [p,q) starts at a position p at which the call looks for a delimiter (TemplateAll.looked: in text;
       after whitespace and attribute-name bytes; at the start of an attribute value or inside a quoted value; in raw
       text reached over plain bytes, regions and non-matching "</"+letters; in plaintext content; in a comment, CDATA
       section, doctype, bogus comment "<?…" / "<!…" / "</"+non-letter or end tag, after bytes that are neither a
       delimiter start nor the construct's terminator; in svg / math / xml content at every loop head of shiftXML
       reached from the end of the start tag's name over steps at which no delimiter starts and over whole regions
       (TemplateAll.xml_reach over the pure step function xml_step: tag / quote / comment / CDATA / PI state, nested
       end tags jumped over), provided no NUL byte follows and no error is pending (else the token is an ErrorToken)),
       then the call returns ONE token that starts at or before p, contains the whole region and has HasTemplate() = true;
   (2) if the returned token has HasTemplate() = true, then a region lies inside the bytes the call consumed.
   Positions at which the lexer does not look (so (1) does not apply): the letters it jumps over after '<' or "</" in
   raw text, script "<!--" sections and svg / math content; the bytes of "<!--", "<![CDATA[", "<?" and of the terminators
   "-->", "]]>", "?>"; the blank after "<!doctype"; whitespace, '=' and the closers inside a tag; the first two bytes of
   "</", "<!", "<?" and the first letter of a tag name.  (The former witness theorem is gone: its inputs are instances,
   e.g. TemplateAll.html_template_xml_looked for <svg>{{"</svg>"}}</svg>.) *)
Theorem html_template_exact :
  forall c d l, cfg_ok c -> tb c <> [] -> html_inv d l ->
    (forall p q, looked c d l p -> is_region c d p q ->
       exists ty v l', next c l = Ok (ty, Some v, l') /\ lhas l' = true /\ so v <= p /\ q <= so v + sn v) /\
    (forall ty tk l', next c l = Ok (ty, tk, l') -> lhas l' = true ->
       exists p q, lpos (lz l) <= p /\ q <= lpos (lz l') /\ is_region c d p q).
Proof. exact html_template_exact_proof. Qed.
Print Assumptions html_template_exact.
