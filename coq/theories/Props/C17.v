(* Props/C17.v — C17: whitespace, entity and attribute normalisation preserves meaning.
   Statements only; each is closed by [exact] of a lemma proved in Normalise/*Proofs.v. *)
From Verif Require Import Common.Base Normalise.Model Normalise.Spec Normalise.WsProofs Normalise.EscProofs Normalise.EntProofs Normalise.AttrProofs Normalise.Compose Normalise.Partial Normalise.Idem Normalise.Dec.

(* ReplaceMultipleWhitespace (the in-place j/k compaction with its three exit cases) neither panics nor
   runs out of fuel and returns the unique o with [Collapse false b o]: b cut into maximal runs of
   SP/TAB/LF/FF/CR and text bytes, every run replaced by LF if it contains LF or CR and by SP otherwise,
   every text byte kept.  [collapse] is that o as a function.  All byte strings. *)
Theorem ws_spec :
  forall b, replace_multiple_ws b = Ok (collapse b) /\ Collapse false b (collapse b) /\
            (forall o, Collapse false b o -> o = collapse b).
Proof. exact ws_spec_proof. Qed.
Print Assumptions ws_spec.

(* ReplaceEntities never lengthens its input (and neither panics nor loops), for every input and all
   entity maps in which no replacement is longer than a reference it can replace. *)
Theorem entities_never_longer :
  forall em rm, maps_ok em rm = true ->
    forall b, exists o, replace_entities em rm b = Ok o /\ len o <= len b.
Proof. exact entities_never_longer_proof. Qed.
Print Assumptions entities_never_longer.

(* ReplaceEntities is idempotent: for every input, a second pass over the result changes nothing.  For all entity
   maps with no replacement longer than a reference (maps_ok) whose replacements are of the shapes HTML entity
   tables use: a name maps to the single byte '&' or to a non-empty string of bytes other than '&' and decimal
   references reaching 128 such as `&#198;` (em_stable); a reverse-map entry c -> q is one terminated reference
   that the decision function of replaceEntities keeps (rm_stable, a boolean check; e.g. '<' -> `&lt;` with
   lt -> '<').  True since the look-behind of /repo 628a240 + c07f47f; before, `&#x&#x41;;` -> `&#xA;` -> LF. *)
Theorem entities_idempotent :
  forall em rm, maps_ok em rm = true -> em_stable em -> rm_stable em rm = true ->
    forall b, exists o, replace_entities em rm b = Ok o /\ replace_entities em rm o = Ok o.
Proof. exact entities_idempotent_proof. Qed.
Print Assumptions entities_idempotent.

(* ReplaceEntities leaves the decoded text unchanged: for every input, the output decodes (hdec: terminated
   decimal and hexadecimal references to their value, `&name;` to what the map's replacement for the name decodes
   to, everything else literal; a reference to NUL decodes to 0, as ReplaceEntities writes it) to the same code
   points as the input.  Same hypotheses on the maps as entities_idempotent, plus: every reverse-map entry c -> q
   decodes back to c (rm_dec_ok, a boolean check).  True since the look-behind of /repo 628a240 + c07f47f; before,
   `&#x&#x41;;` (the text `&#xA;`) became the reference `&#xA;`.  Semicolon-less references and the full HTML name
   table are covered by the Go oracle (html.UnescapeString) only. *)
Theorem entities_preserve_decoding :
  forall em rm, maps_ok em rm = true -> em_stable em -> rm_stable em rm = true -> rm_dec_ok em rm = true ->
    forall b, exists o, replace_entities em rm b = Ok o /\ hdec em o = hdec em b.
Proof. exact entities_preserve_decoding_proof. Qed.
Print Assumptions entities_preserve_decoding.

(* Over-long hexadecimal references are never decoded modulo anything: a reference `&#x` hs `;` whose value
   (as an unbounded number, any number of digits) is 10000 or more, standing in text without other '&', is
   left exactly as it is, for all maps.  (Before the fix a8361dd in /repo the accumulator wrapped modulo 2^64
   and `&#x10000000000000041;` became `A`; the loop now stops once the accumulator reaches 0x10000.) *)
Theorem entities_overlong_hex_unchanged :
  forall em rm pre hs post,
    forallb is_hex hs = true -> 10000 <= hex_num hs -> ~ In 38 pre -> ~ In 38 post ->
    let b := pre ++ 38 :: 35 :: 120 :: hs ++ 59 :: post in
    replace_entities em rm b = Ok b.
Proof. exact entities_overlong_hex_unchanged_proof. Qed.
Print Assumptions entities_overlong_hex_unchanged.

(* ReplaceMultipleWhitespaceAndEntities (one loop doing both, entities replaced before later runs are
   compacted) neither panics nor runs out of fuel and returns exactly what ReplaceEntities returns on the
   result of ReplaceMultipleWhitespace.  All byte strings, all consistent entity maps. *)
Theorem ws_and_entities_compose :
  forall em rm, maps_ok em rm = true -> forall b,
    exists o, replace_ws_and_entities em rm b = Ok o /\
              replace_multiple_ws b = Ok (collapse b) /\ replace_entities em rm (collapse b) = Ok o.
Proof. exact ws_and_entities_compose_proof. Qed.
Print Assumptions ws_and_entities_compose.

(* xml.EscapeCDATAVal either declines (returns its input; exactly when escaping costs more than the
   12 bytes of the CDATA wrapper) or returns text without '<' that un-escapes to its input, for every
   decoder table that reads `&lt;` and `&amp;` as the escaper writes them. *)
Theorem cdata_escape :
  forall tbl b, cdata_tbl tbl ->
    match xml_escape_cdata b with
    | (o, false) => o = b /\ 12 < cdata_extra b
    | (o, true) => decode tbl o = b /\ len o = len b + cdata_extra b /\ cdata_extra b <= 12 /\ ~ In 60 o
    end.
Proof. exact cdata_escape_proof. Qed.
Print Assumptions cdata_escape.

(* html.EscapeAttrVal never panics and returns exactly what the documentation promises: the value as it
   is when it contains no whitespace, quote, backtick, less-than, equals or greater-than byte and quoting is not forced (mustQuote with an
   original quote); otherwise the value between the cheaper quote (the original quote on a tie, double
   by default) with exactly that quote replaced by &#34; / &#39;.  All values, quotes, flags. *)
Theorem html_escape_quote_rule :
  forall v oq mq, html_escape_attr_val v oq mq = Ok (html_expected v oq mq).
Proof. exact html_escape_form. Qed.
Print Assumptions html_escape_quote_rule.

(* Placed after `<a x=` and before `>`, the escaped value is read back by the in-tag html lexer model as
   exactly one attribute (key x) whose value is the escaped value, followed by the tag close; unquoted
   and decoded it gives the decoding of the original value.  For every decoder table that reads &#34;
   and &#39; as written and whose references are '&' followed by bytes other than '&' and the quotes
   (std_refs is one: std_refs_esc_dq, std_refs_esc_sq).  All values (NUL included), quotes, flags. *)
Theorem html_escape_roundtrip :
  forall tbl v oq mq, esc_tbl 34 ent_dq tbl -> esc_tbl 39 ent_sq tbl ->
    let out := html_expected v oq mq in
    html_escape_attr_val v oq mq = Ok out /\
    html_tag_tokens (attr_x out ++ [62]) = [TAttr (attr_x out) [120] (Some out); TClose [62]] /\
    decode tbl (unquote out) = decode tbl v.
Proof. exact html_escape_roundtrip_proof. Qed.
Print Assumptions html_escape_roundtrip.

(* xml.EscapeAttrVal (since /repo a851768, which writes TAB/LF/CR as &#9; &#10; &#13;): for every NUL-free value
   it never panics, returns the value between the cheaper quote (double on a tie) with that quote and TAB/LF/CR
   written as references, never writes more than the size it reserves (xml_reserved), and placed after `<a x=`
   and before `>` is read back by the in-tag xml lexer model as exactly one attribute whose value is the escaped
   value; unquoted and decoded it gives the decoding of the original value, TAB/LF/CR included.  For every
   decoder table that reads the five references as written (std_refs is one: std_refs_esc_dq/sq/tab/lf/cr). *)
Theorem xml_escape_roundtrip :
  forall tbl v, esc_tbl 34 ent_dq tbl -> esc_tbl 39 ent_sq tbl ->
    esc_tbl 9 ent_tab tbl -> esc_tbl 10 ent_lf tbl -> esc_tbl 13 ent_cr tbl -> ~ In 0 v ->
    let out := xquoted (xml_quote v) v in
    xml_escape_attr_val v = Ok out /\ len out <= xml_reserved v /\
    xml_tag_tokens (attr_x out ++ [62]) = [TAttr (attr_x out) [120] (Some out); TClose [62]] /\
    decode tbl (unquote out) = decode tbl v.
Proof. exact xml_escape_roundtrip_proof. Qed.
Print Assumptions xml_escape_roundtrip.
