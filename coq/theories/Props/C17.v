(* Props/C17.v — C17: whitespace, entity and attribute normalisation preserves meaning.
   Statements only; each is closed by [exact] of a lemma proved in Normalise/*Proofs.v. *)
From Verif Require Import Common.Base Normalise.Model Normalise.Spec Normalise.WsProofs Normalise.EscProofs Normalise.EntProofs.

(* ReplaceMultipleWhitespace (the in-place j/k compaction with its three exit cases) neither panics nor
   runs out of fuel and returns the unique o with [Collapse false b o]: b cut into maximal runs of
   SP/TAB/LF/FF/CR and text bytes, every run replaced by LF if it contains LF or CR and by SP otherwise,
   every text byte kept.  [collapse] is that o as a function.  All byte strings. *)
Theorem ws_spec :
  forall b, replace_multiple_ws b = Ok (collapse b) /\ Collapse false b (collapse b) /\
            (forall o, Collapse false b o -> o = collapse b).
Proof. exact ws_spec_proof. Qed.
Print Assumptions ws_spec.

(* ReplaceEntities never lengthens its input (and neither panics nor loops), for every input and all
   entity maps in which no replacement is longer than a reference it can replace. *)
Theorem entities_never_longer :
  forall em rm, maps_ok em rm = true ->
    forall b, exists o, replace_entities em rm b = Ok o /\ len o <= len b.
Proof. exact entities_never_longer_proof. Qed.
Print Assumptions entities_never_longer.

(* Idempotence is FALSE on the current code (no look-behind in replaceEntities, DESIGN D15):
   `&#x&#x41;;` -> `&#xA;` -> LF, with empty maps. *)
Theorem entities_idempotent_refuted :
  exists em rm b o1 o2, maps_ok em rm = true /\
    replace_entities em rm b = Ok o1 /\ replace_entities em rm o1 = Ok o2 /\ o1 <> o2.
Proof. exact entities_idempotent_refuted_proof. Qed.
Print Assumptions entities_idempotent_refuted.

(* "Leaves the decoded text unchanged" is FALSE on the current code: `&#x&#x41;;` decodes to the
   text `&#xA;`, its replacement `&#xA;` decodes to LF (no reference to NUL involved). *)
Theorem entities_preserve_decoding_refuted :
  exists em rm b o, maps_ok em rm = true /\ ~ In 0 (html_decode b) /\
    replace_entities em rm b = Ok o /\ html_decode o <> html_decode b.
Proof. exact entities_preserve_decoding_refuted_proof. Qed.
Print Assumptions entities_preserve_decoding_refuted.

(* xml.EscapeCDATAVal either declines (returns its input; exactly when escaping costs more than the
   12 bytes of the CDATA wrapper) or returns text without '<' that un-escapes to its input, for every
   decoder table that reads `&lt;` and `&amp;` as the escaper writes them. *)
Theorem cdata_escape :
  forall tbl b, cdata_tbl tbl ->
    match xml_escape_cdata b with
    | (o, false) => o = b /\ 12 < cdata_extra b
    | (o, true) => decode tbl o = b /\ len o = len b + cdata_extra b /\ cdata_extra b <= 12 /\ ~ In 60 o
    end.
Proof. exact cdata_escape_proof. Qed.
Print Assumptions cdata_escape.
