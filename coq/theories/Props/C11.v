(* Props/C11.v — C11 (with the XML parts of C01/C02): the XML lexer xml/lex.go.
   Statements only; each is closed by [exact] of a lemma proved in Xml/Proofs.v.
   [next] is Lexer.Next on the model state, [run n] the results of the first n calls (whatever they
   return: a caller that keeps calling after an ErrorToken is included), [reach d s] says s is a state
   the lexer is in after some number of calls on input d.  Slices are coordinates [lo,hi) in the buffer
   d ++ [0]; a Go panic / a read outside the buffer would be [None]. *)
From Verif Require Import Common.Base Common.Lx Xml.Model Xml.Step Xml.Proofs Xml.WellFormed Xml.Checker Xml.Agree.

(* C01 totality: for every byte string and every number of calls, no call panics (no index outside
   data ++ [0] is read, no slice expression is out of range). *)
Theorem xml_total :
  forall d n, exists tr, run n (xml_init d) = Some tr /\ length tr = n.
Proof. exact xml_total_proof. Qed.
Print Assumptions xml_total.

(* C01 progress: every call that returns a token moves the cursor forward by at least one byte and
   stays inside the input; an ErrorToken call never moves it back. *)
Theorem xml_progress :
  forall d s ty tok s', reach d s -> next s = Some (ty, tok, s') ->
    (ty <> TError -> lpos (xr s) < lpos (xr s') <= len d) /\
    (ty = TError -> lpos (xr s) <= lpos (xr s') <= len d /\ lstart (xr s') = lstart (xr s)).
Proof. exact xml_progress_proof. Qed.
Print Assumptions xml_progress.

(* C01 linear bound: the terminal report (first ErrorToken) comes after at most len d token calls. *)
Theorem xml_terminates :
  forall d, exists n s tok s',
    (n <= length d)%nat /\ after n (xml_init d) = Some s /\ next s = Some (TError, tok, s').
Proof. exact xml_terminates_proof. Qed.
Print Assumptions xml_terminates.

(* C01 sticky end, exactly as the code behaves: an ErrorToken carries no data and no Text; the state it
   leaves is a fixed point of Next (every further call returns ErrorToken again, nothing moves, Err()
   keeps its kind); Err() is io.EOF exactly when the cursor is at the end of the input and the
   "unexpected NULL character" error when it stands on an embedded NUL, which is never stepped over. *)
Theorem xml_eof_sticky :
  forall d s tok s', reach d s -> next s = Some (TError, tok, s') ->
    tok = None /\ xtext s' = None /\ next s' = Some (TError, None, s') /\
    (xml_err s' = 1 /\ lpos (xr s') = len d \/
     xml_err s' = 2 /\ lpos (xr s') < len d /\ getz d (lpos (xr s')) = 0).
Proof. exact xml_error_sticky_proof. Qed.
Print Assumptions xml_eof_sticky.

(* C01 no over-read: every slice handed to the caller (token, Text(), AttrVal()) and the cursor lie
   inside the input proper, i.e. never include the NUL terminator.  (That no byte beyond the terminator
   is ever read is part of xml_total: such a read is None in the model.) *)
Theorem xml_no_overread :
  forall d s ty tok s', reach d s -> next s = Some (ty, tok, s') ->
    sl_in tok 0 (len d) /\ sl_in (xtext s') 0 (len d) /\ sl_in (xattr s') 0 (len d) /\
    0 <= lpos (xr s') <= len d.
Proof. exact xml_no_overread_proof. Qed.
Print Assumptions xml_no_overread.

(* C02 tiling: in every run the tokens come in order, are non-empty, each ends at the cursor offset
   reported after the call and starts where the previous one ended, except that whitespace may be
   skipped in front of a tag closer ('>', '/>', '?>'); before the terminal report only whitespace
   (inside a tag) is dropped. *)
Theorem xml_tiling :
  forall d n tr, run n (xml_init d) = Some tr -> tiled d 0 tr.
Proof. exact xml_tiling_proof. Qed.
Print Assumptions xml_tiling.

(* C02 faithful bytes: a call does not touch buffer bytes in front of its token, and the bytes of the
   token are the input's bytes except that TAB/LF/CR strictly inside a quoted attribute value (between
   the quotes of AttrVal()) read as a space. *)
Theorem xml_bytes_faithful :
  forall d s ty lo hi s', reach d s -> next s = Some (ty, Some (lo, hi), s') ->
    (forall i, i < lo -> getz (lbuf (xr s')) i = getz (lbuf (xr s)) i) /\
    (forall i, lo <= i < hi ->
       getz (lbuf (xr s')) i = getz d i \/
       (ty = TAttribute /\ exists aa ab, xattr s' = Some (aa, ab) /\ aa < i < ab /\ is_quote (getz d aa) /\
                                        ws3 (getz d i) /\ getz (lbuf (xr s')) i = 32)).
Proof. exact xml_bytes_faithful_proof. Qed.
Print Assumptions xml_bytes_faithful.

(* C02 the buffer as a whole: at every moment it is the input plus the terminator, except that some
   TAB/LF/CR bytes already read have become spaces; nothing at or beyond the cursor has been written. *)
Theorem xml_buffer_rewrites :
  forall d s, reach d s ->
    len (lbuf (xr s)) = len d + 1 /\
    (forall i, getz (lbuf (xr s)) i = getz d i \/ (ws3 (getz d i) /\ getz (lbuf (xr s)) i = 32)) /\
    (forall i, lpos (xr s) <= i -> getz (lbuf (xr s)) i = getz d i).
Proof. exact xml_buffer_rewrites_proof. Qed.
Print Assumptions xml_buffer_rewrites.

(* C02 sub-slices: Text() and AttrVal() lie inside the token just returned; AttrVal() is nil after
   every token that is not an Attribute. *)
Theorem xml_subslices :
  forall d s ty lo hi s', reach d s -> next s = Some (ty, Some (lo, hi), s') ->
    sl_in (xtext s') lo hi /\ sl_in (xattr s') lo hi /\ (ty <> TAttribute -> xattr s' = None).
Proof. exact xml_subslices_proof. Qed.
Print Assumptions xml_subslices.

(* C02/C11 token contents: no token contains a NUL byte; a Text token contains no '<' and is maximal
   (the byte after it is '<', an embedded NUL, or the end of the input). *)
Theorem xml_token_contents :
  forall d s ty lo hi s', reach d s -> next s = Some (ty, Some (lo, hi), s') ->
    (forall i, lo <= i < hi -> getz d i <> 0) /\
    (ty = TText -> (forall i, lo <= i < hi -> getz d i <> 60) /\ (getz d hi = 60 \/ getz d hi = 0)).
Proof. exact xml_token_contents_proof. Qed.
Print Assumptions xml_token_contents.

(* C11 bracketing: in every run, Attribute tokens and the three closers occur only after a
   StartTag/StartTagPI (and the Attributes following it), every other token only outside a tag. *)
Theorem xml_attr_bracketing :
  forall d n tr, run n (xml_init d) = Some tr -> bracketed false (map (fun r => fst (fst r)) tr) = true.
Proof. exact xml_attr_bracketing_proof. Qed.
Print Assumptions xml_attr_bracketing.

(* C11 NUL: if the first NUL byte of the input is at p, the cursor never passes p, the terminal report
   is the parse error (never io.EOF) at offset exactly p, and it comes within p token calls. *)
Theorem xml_nul_is_error :
  forall d p, 0 <= p < len d -> getz d p = 0 -> (forall i, 0 <= i < p -> getz d i <> 0) ->
    (forall s, reach d s -> lpos (xr s) <= p) /\
    (forall s tok s', reach d s -> next s = Some (TError, tok, s') -> lpos (xr s') = p /\ xml_err s' = 2) /\
    (exists n s tok s', (n <= Z.to_nat p)%nat /\ after n (xml_init d) = Some s /\ next s = Some (TError, tok, s')).
Proof. exact xml_nul_is_error_proof. Qed.
Print Assumptions xml_nul_is_error.

(* ... and conversely an input without NUL ends with io.EOF at its end. *)
Theorem xml_eof_at_end :
  forall d s tok s', (forall i, 0 <= i < len d -> getz d i <> 0) ->
    reach d s -> next s = Some (TError, tok, s') -> xml_err s' = 1 /\ lpos (xr s') = len d.
Proof. exact xml_eof_at_end_proof. Qed.
Print Assumptions xml_eof_at_end.

(* C11 well-formed documents.  [item] / [doc_ok] (Xml/WellFormed.v) is an inductive grammar of the XML 1.0
   subset of the property: processing instructions and the prolog with pseudo-attributes, DOCTYPE with
   external id and internal subset (plain bytes; double- and single-quoted literals that may contain
   '>' '[' ']' and the other quote; bracketed subsets whose content may contain '>', such literals,
   declarations, comments with any body free of the three bytes - - > and processing instructions with
   any body free of ? >, so brackets, quotes and '>' inside them are covered), comments, CDATA sections
   (any body without the three bytes ] ] >), start / empty-element / end tags with names, whitespace
   variations and single- or double-quoted attribute values (any bytes but the quote and NUL, the other
   quote and '>' '/>' '?>' included), maximal character data.  For every such document the lexer returns
   exactly one token per construct, with the prescribed type, the construct's bytes (the DOCTYPE token
   is exactly the declaration), Text() = name / content and AttrVal() = the quoted value with TAB/LF/CR
   read as space, and then io.EOF.
   The grammar also has the general tag opener [ITag pi name pieces ws closer]: '<' or '<?', a name, any
   sequence of pieces (optional whitespace, a name, then nothing, or '=' and an unquoted value, or '=' and a
   quoted value), whitespace, a closer.  In a start tag '/' and '?' may occur in names unless followed by
   '>', and the closer is '>' '/>' or '?>'; in a processing instruction (pi = true) only '?' followed by
   '>' is special, '>' and '/>' are ordinary name bytes, and the closer is '?>'.  The token stream is
   specified exactly: StartTag / StartTagPI (Text = name / target), one Attribute token per piece (Text =
   the piece's name, AttrVal = nil / the unquoted value / the quoted value), the closer's token.
   This is the lexer's treatment of a processing instruction with free-form content: <?target content?>
   gives StartTagPI, one Attribute per whitespace-separated piece of the content, StartTagClosePI.
   What the property's sentence (one token per construct, Text() equal to the name or content) gets for a
   PI is therefore: one bracket StartTagPI ... StartTagClosePI per instruction, Text() of StartTagPI = the
   target; the content is NOT available as one Text(), only as the bytes of the Attribute tokens in
   between (design of the token types, not a defect).
   In a processing instruction a quoted piece ends at its closing quote or at the instruction's first
   ?> (then AttrVal is the opening quote and the bytes up to there), so every instruction ends at its
   first ?> as in XML 1.0 (xml_pi_quote_exact; fixed in /repo by 5eea3cf).
   PARTIAL only in the sense that PI content comes as Attribute pieces, and for CR LF in attribute values
   (xml_attr_crlf_refuted). *)
Theorem xml_wellformed_tokens_partial :
  forall items, doc_ok items -> lexes (xml_init (render_doc items)) (expect_doc items) 1.
Proof. exact xml_wellformed_tokens_proof. Qed.
Print Assumptions xml_wellformed_tokens_partial.

(* The same with the grammar's side conditions as an executable check.  The correspondence driver
   `xmlspec` evaluates doc_okb, render_doc and expect_doc on every generated document and compares the
   bytes and tokens with what the real lexer returns for the same constructs, so the specification
   itself (not only the model) is tied to the code. *)
Theorem xml_wellformed_checked :
  forall items, doc_okb items = true -> lexes (xml_init (render_doc items)) (expect_doc items) 1.
Proof. exact xml_wellformed_checked_proof. Qed.
Print Assumptions xml_wellformed_checked.

(* Formerly refuted (fixed in /repo by b994372): single-quoted DOCTYPE literals.  The old witness
   <!DOCTYPE a SYSTEM 'x>y'><a/> is now a document of the grammar and lexes to one DOCTYPE token
   (whole declaration, Text = the body), StartTag, StartTagCloseVoid, io.EOF. *)
Theorem xml_doctype_single_quote :
  render_doc ex_squote_items = ex_doctype_squote /\
  lexes (xml_init ex_doctype_squote) (expect_doc ex_squote_items) 1.
Proof. exact xml_doctype_single_quote_proof. Qed.
Print Assumptions xml_doctype_single_quote.

(* Processing instructions with free-form content (fixed in /repo by 2f59676: inside a processing
   instruction only ?> closes; a lone '>' or '/>' belongs to a piece).  <?p a>b?><a/> is the general opener
   <?p  with the one piece " a>b" (Text = a>b, no AttrVal) closed by ?>, then the element. *)
Theorem xml_pi_content_exact :
  render_doc ex_pi_gt_items = ex_pi_gt /\
  lexes (xml_init ex_pi_gt) (expect_doc ex_pi_gt_items) 1 /\
  expect_doc ex_pi_gt_items =
    [ (TStartTagPI, Some [60; 63; 112], Some [112], None); (TAttribute, Some [32; 97; 62; 98], Some [97; 62; 98], None);
      (TStartTagClosePI, Some [63; 62], None, None);
      (TStartTag, Some [60; 97], Some [97], None); (TStartTagCloseVoid, Some [47; 62], None, None) ].
Proof. exact xml_pi_content_exact_proof. Qed.
Print Assumptions xml_pi_content_exact.

(* A quote after '=' in PI content no longer carries the instruction beyond its ?> : <?p a=QUOTE b?><a/>
   is the opener <?p , the piece  a=QUOTE b  cut by ?> (Text = a, AttrVal = QUOTE b), the closer ?>, then
   the element. *)
Theorem xml_pi_quote_exact :
  render_doc ex_pi_quote_items = ex_pi_quote /\
  lexes (xml_init ex_pi_quote) (expect_doc ex_pi_quote_items) 1 /\
  expect_doc ex_pi_quote_items =
    [ (TStartTagPI, Some [60; 63; 112], Some [112], None);
      (TAttribute, Some [32; 97; 61; 34; 98], Some [97], Some [34; 98]);
      (TStartTagClosePI, Some [63; 62], None, None);
      (TStartTag, Some [60; 97], Some [97], None); (TStartTagCloseVoid, Some [47; 62], None, None) ].
Proof. exact xml_pi_quote_exact_proof. Qed.
Print Assumptions xml_pi_quote_exact.

(* The conforming processing instruction and start tag (pseudo-attributes / attributes with quoted values)
   are the general opener with quoted pieces: same bytes, same prescribed tokens. *)
Theorem xml_tag_opener_conforming :
  forall t attrs ws,
    render_item (IPI t attrs ws) = render_item (ITag true t (map g_of_attr attrs) ws TStartTagClosePI) /\
    expect_item (IPI t attrs ws) = expect_item (ITag true t (map g_of_attr attrs) ws TStartTagClosePI) /\
    (forall void : bool, let k := if void then TStartTagCloseVoid else TStartTagClose in
       render_item (IStart t attrs ws void) = render_item (ITag false t (map g_of_attr attrs) ws k) /\
       expect_item (IStart t attrs ws void) = expect_item (ITag false t (map g_of_attr attrs) ws k)).
Proof. exact xml_tag_opener_conforming_proof. Qed.
Print Assumptions xml_tag_opener_conforming.

(* C11 agreement clause.  [ref_events] (Xml/Agree.v) is a reference semantics of what an XML processor
   reports for a grammar document: start elements with their attribute names and values after line-end
   and attribute-value normalisation (CR LF -> one space, CR / LF / TAB -> space), end elements (also for
   empty-element tags), PI targets.  [tok_events] reads the same events off a token stream (Text() of
   StartTag / Attribute / EndTag / StartTagPI, AttrVal() with the quotes stripped).  For every grammar
   document made of XML constructs (no general opener) whose attribute values contain no CR LF pair, the
   lexer's tokens report exactly the reference events.  (The xmlref correspondence run compares ref_events
   with encoding/xml's RawToken on every generated document.) *)
Theorem xml_agrees_with_reference :
  forall items, doc_ok items -> Forall item_no_crlf items ->
    exists toks, lexes (xml_init (render_doc items)) toks 1 /\ tok_events None toks = ref_events items.
Proof. exact xml_agrees_with_reference_proof. Qed.
Print Assumptions xml_agrees_with_reference.

(* The exact exception to the agreement: a CR LF pair inside a quoted value.  For <a b="x CR LF y"/> the
   reference value is x SP y, the lexer's AttrVal (quotes stripped) is x SP SP y. *)
Theorem xml_attr_crlf_refuted :
  exists toks, lexes (xml_init (render_doc ex_crlf_items)) toks 1 /\
    ref_events ex_crlf_items = [EStart [97] [([98], [120; 32; 121])]; EEnd [97]] /\
    tok_events None toks = [EStart [97] [([98], [120; 32; 32; 121])]; EEnd [97]].
Proof. exact xml_attr_crlf_refuted_proof. Qed.
Print Assumptions xml_attr_crlf_refuted.
