(* Props/C19.v — C19: BinaryReader / BinaryWriter round-trip and honour the io contracts on every
   backend; BitmapWriter / BitmapReader.  Statements only; each is closed by [exact] of a lemma proved
   in Binary/*.v.  The model (Binary/Model.v) transcribes /repo/binary.go and binary_unix.go; the
   vocabulary (healthy, reachable, allowed, clean, typed_read, read_value, zero_obs, bit_at) is in
   Binary/Spec.v.  Error kinds: E_NIL = nil, E_EOF = io.EOF. *)
From Verif Require Import Common.Base Common.Tactics Binary.Model Binary.Spec Binary.Proofs Binary.Bitmap
  Binary.Legacy.

(* ---- write / read round trip ------------------------------------------------------------------------ *)
(* Every list of typed values (u/i 8,16,24,32,64, byte strings), both byte orders: reading the written
   buffer back on every healthy backend (in-memory bytes; memory map; io.Reader, io.ReadSeeker / file with
   ANY partition of the stream into reads whose runs of empty (0, nil) reads are shorter than 100, io.EOF
   after or together with the last bytes;
   io.ReaderAt, with or without io.EOF on an exact fit) returns the values, then
   Pos() = bytes consumed, Len() = bytes remaining, Err() = nil.  No panic. *)
Theorem write_read_roundtrip :
  forall (s : bstate) (little : bool) (vs1 vs2 : list value),
    healthy s (write_all little (vs1 ++ vs2)) -> Forall valid_value vs1 ->
    exists st' outs,
      run any_backend (new_sys s) (OOrder little :: map read_op vs1 ++ [OPos; OLen; OErr]) =
        Some (st', VNone :: outs ++ [VInt (values_size vs1); VInt (values_size vs2); VInt 0]) /\
      Forall2 returns outs vs1.
Proof. exact write_read_roundtrip_proof. Qed.
Print Assumptions write_read_roundtrip.

(* In particular on the mmap backend, empty byte strings included (a memory map is a healthy source since
   fix c003402). *)
Theorem write_read_roundtrip_mmap :
  forall (little : bool) (vs1 vs2 : list value),
    Forall valid_value vs1 ->
    exists st' outs,
      run any_backend (new_sys (SMmap (mmap_open (write_all little (vs1 ++ vs2)))))
          (OOrder little :: map read_op vs1 ++ [OPos; OLen; OErr]) =
        Some (st', VNone :: outs ++ [VInt (values_size vs1); VInt (values_size vs2); VInt 0]) /\
      Forall2 returns outs vs1.
Proof. exact (fun little vs1 vs2 => write_read_roundtrip_proof _ little vs1 vs2 (H_mmap _)). Qed.
Print Assumptions write_read_roundtrip_mmap.

(* ---- backend independence ----------------------------------------------------------------------------- *)
(* As long as no read has run past the end on the in-memory backend (Err() nil after every step), every
   healthy backend returns exactly the same observations for the same operation sequence (typed reads,
   Read, and - on the seekable backends - Seek, ReadAt, Clone). *)
Theorem backend_independence :
  forall (s : bstate) (d : list Z) (ops : list op),
    healthy s d -> Forall (allowed (random_access s)) ops -> clean bytes_backend (new_sys d) ops ->
    exists st' sb' outs,
      run any_backend (new_sys s) ops = Some (st', outs) /\
      run bytes_backend (new_sys d) ops = Some (sb', outs) /\
      cur st' = cur sb' /\ oth st' = oth sb'.
Proof. exact backend_independence_proof. Qed.
Print Assumptions backend_independence.

(* Past the end as well: for EVERY supported operation sequence (8-bit reads included since fix f2080b8),
   every healthy backend returns what the in-memory backend returns - values, counts, errors, positions -
   up to the nil-ness of the slice ReadBytes returns (obs_eqv). *)
Theorem backend_independence_past_end :
  forall (s : bstate) (d : list Z) (ops : list op),
    healthy s d -> Forall (allowed (random_access s)) ops ->
    exists st' sb' outs outsb,
      run any_backend (new_sys s) ops = Some (st', outs) /\
      run bytes_backend (new_sys d) ops = Some (sb', outsb) /\
      Forall2 obs_eqv outs outsb /\ cur st' = cur sb' /\ oth st' = oth sb'.
Proof. exact backend_independence_past_end_proof. Qed.
Print Assumptions backend_independence_past_end.

(* The constructors build healthy sources: NewBinaryReaderBytes, a reader with Bytes(), a memory map, a file,
   the io.ReadAll path (n < 0; for ANY read schedule, zero-length reads included), io.Reader / io.ReadSeeker
   with fewer than 100 consecutive empty reads (io.EOF after or with the last bytes), io.ReaderAt. *)
Theorem constructors_healthy :
  forall (d sched : list Z),
    (forall ewl failing, construct CBytes d sched ewl failing = Some (SBytes d)) /\
    (forall n ewl failing, construct (CHasBytes n) d sched ewl failing = Some (SBytes d)) /\
    (forall ewl failing, exists s, construct CMmap d sched ewl failing = Some s /\ healthy s d) /\
    (forall ewl failing, exists s, construct (CFile (len d)) d sched ewl failing = Some s /\ healthy s d) /\
    (forall n ewl, n < 0 -> construct (CPlain n) d sched ewl false = Some (SBytes d)) /\
    (forall n ewl, n < 0 -> construct (CReaderAt n) d sched ewl false = Some (SBytes d)) /\
    (tame_sched sched -> forall ewl,
       exists s, construct (CPlain (len d)) d sched ewl false = Some s /\ healthy s d) /\
    (tame_sched sched -> forall n ewl, n = len d \/ n < 0 ->
       exists s, construct (CSeeker n) d sched ewl false = Some s /\ healthy s d) /\
    (forall ewl, exists s, construct (CReaderAt (len d)) d [] ewl false = Some s /\ healthy s d) /\
    healthy (SBytes d) d.
Proof. exact constructors_healthy_proof. Qed.
Print Assumptions constructors_healthy.

(* The mmap backend is the in-memory backend for EVERY operation sequence without Close (zero-length and
   negative-length requests, reads past the end and after errors included): same observations, no panics. *)
Theorem mmap_bytes_identical :
  forall (d : list Z) (ops : list op),
    Forall no_close ops ->
    run any_backend (new_sys (SMmap (mmap_open d))) ops =
    match run any_backend (new_sys (SBytes d)) ops with
    | Some (st', outs) => Some (mkSys (SMmap (mmap_open d)) (cur st') (oth st'), outs)
    | None => None
    end.
Proof. exact mmap_bytes_identical_proof. Qed.
Print Assumptions mmap_bytes_identical.

(* ---- EOF exactly past the end --------------------------------------------------------------------------- *)
(* In every state a healthy source of d can reach (any backend, any supported history: reads past the end,
   seeks, clones ...), EVERY typed read of width w at position p never panics and
   - if p + w <= len d: returns the Go expression applied to d[p:p+w], Pos advances by w, Err() unchanged;
   - if it needs a byte at an index >= len d: returns the zero value (ReadBytes: the bytes left),
     Pos = max p (len d), Err() becomes io.EOF (an earlier error is kept). *)
Theorem eof_exactly_past_end :
  forall (d : list Z) (st : sys bstate) (o : op),
    reachable d st -> typed_read o ->
    let p := rpos (cur st) in
    let w := op_width o in
    exists st' v,
      step any_backend st o = Some (st', v) /\ reachable d st' /\
      (p + w <= len d ->
         v = read_value o (rlittle (cur st)) (slice d p (p + w)) /\
         rpos (cur st') = p + w /\ rerr (cur st') = rerr (cur st)) /\
      (len d < p + w ->
         zero_obs o (slice d p (p + w)) (rerr (cur st')) v /\
         rpos (cur st') = Z.max p (len d) /\
         rerr (cur st') = (if rerr (cur st) =? 0 then E_EOF else rerr (cur st))).
Proof. exact eof_exactly_past_end_proof. Qed.
Print Assumptions eof_exactly_past_end.

(* Sticky: once the reader stands at or past the end, every further sequence of typed reads returns zero
   values, leaves the position, and Err() is io.EOF (or the earlier error) after each of them. *)
Theorem eof_sticky :
  forall (d : list Z) (ops : list op) (st : sys bstate),
    reachable d st -> len d <= rpos (cur st) -> Forall typed_read ops ->
    let e := if rerr (cur st) =? 0 then E_EOF else rerr (cur st) in
    exists st' outs,
      run any_backend st ops = Some (st', outs) /\ reachable d st' /\
      Forall2 (fun o v => zero_obs o [] e v) ops outs /\
      rpos (cur st') = rpos (cur st) /\ (ops <> [] -> rerr (cur st') = e).
Proof. exact eof_sticky_proof. Qed.
Print Assumptions eof_sticky.

(* Formerly read8_past_end_streams_refuted (fixed by f2080b8): ReadUint8 / ReadInt8 / ReadByte at or past the
   end return 0 (ReadByte: 0, io.EOF) on EVERY backend in every reachable state, no panic. *)
Theorem read8_past_end_all_backends :
  forall (d : list Z) (st : sys bstate) (o : op),
    reachable d st -> (o = OU8 \/ o = OI8 \/ o = OReadByte) -> len d <= rpos (cur st) ->
    let e := if rerr (cur st) =? 0 then E_EOF else rerr (cur st) in
    exists st',
      step any_backend st o = Some (st', match o with OReadByte => VIntErr 0 e | _ => VInt 0 end) /\
      reachable d st' /\ rpos (cur st') = rpos (cur st) /\ rerr (cur st') = e.
Proof. exact read8_past_end_all_backends_proof. Qed.
Print Assumptions read8_past_end_all_backends.

(* ... and the three former panic witnesses (io.Reader, file, io.ReaderAt over one byte) now compute 0, io.EOF. *)
Theorem read8_past_end_streams :
  option_map snd (run any_backend (new_sys (SReader (mkR [7] [] false E_EOF 0 1))) [OU8; OErr; OU8; OErr]) =
    Some [VInt 7; VInt 0; VInt 0; VInt E_EOF] /\
  option_map snd (run any_backend (new_sys (SSeeker (mkK [7] [] false E_EOF 1 false true))) [OU8; OErr; OReadByte; OErr]) =
    Some [VInt 7; VInt 0; VIntErr 0 E_EOF; VInt E_EOF] /\
  option_map snd (run any_backend (new_sys (SReaderAt (mkA [7] [] false E_EOF 1))) [OU8; OErr; OI8; OErr]) =
    Some [VInt 7; VInt 0; VInt 0; VInt E_EOF].
Proof. exact read8_past_end_streams_proof. Qed.
Print Assumptions read8_past_end_streams.

(* Formerly eof_with_last_bytes_refuted (fixed by 4fcdee5): sources that deliver io.EOF together with the last
   bytes (iotest.DataErrReader; io.ReaderAt on an exact fit) are healthy sources, so every theorem above
   covers them; the former witnesses leave Err() = nil and report io.EOF only on the next read. *)
Theorem eof_with_last_bytes :
  (forall d sched closer, tame_sched sched ->
     healthy (SReader (mkR d sched true E_EOF 0 (len d))) d /\
     healthy (SSeeker (mkK d sched true E_EOF (len d) false closer)) d /\
     healthy (SReaderAt (mkA d [] true E_EOF (len d))) d) /\
  option_map snd (run any_backend (new_sys (SReader (mkR [1; 2] [] true E_EOF 0 2))) [OU16; OErr; OPos; OLen; OU8; OErr]) =
    Some [VInt 258; VInt 0; VInt 2; VInt 0; VInt 0; VInt E_EOF] /\
  option_map snd (run any_backend (new_sys (SSeeker (mkK [1; 2] [] true E_EOF 2 false false))) [OU16; OErr]) =
    Some [VInt 258; VInt 0] /\
  option_map snd (run any_backend (new_sys (SReaderAt (mkA [1; 2] [] true E_EOF 2))) [OU16; OErr]) =
    Some [VInt 258; VInt 0].
Proof. exact eof_with_last_bytes_proof. Qed.
Print Assumptions eof_with_last_bytes.

(* Formerly zero_length_read_refuted (fixed by f857ad9): (0, nil) reads are retried.  The full clause: over
   EVERY read script whose runs of consecutive empty reads are shorter than 100 (tame_sched), with io.EOF
   after or together with the last bytes, the sequential reader and the seeking reader return - for every
   supported operation sequence, past the end included - the values, counts, errors and positions of the
   in-memory backend (up to the nil-ness of the slice ReadBytes returns). *)
Theorem empty_reads_tolerated :
  forall (d sched : list Z) (ewl closer : bool) (ops : list op),
    tame_sched sched ->
    (Forall (allowed false) ops ->
     exists st' sb' outs outsb,
       run any_backend (new_sys (SReader (mkR d sched ewl E_EOF 0 (len d)))) ops = Some (st', outs) /\
       run bytes_backend (new_sys d) ops = Some (sb', outsb) /\
       Forall2 obs_eqv outs outsb /\ cur st' = cur sb' /\ oth st' = oth sb') /\
    (Forall (allowed true) ops ->
     exists st' sb' outs outsb,
       run any_backend (new_sys (SSeeker (mkK d sched ewl E_EOF (len d) false closer))) ops = Some (st', outs) /\
       run bytes_backend (new_sys d) ops = Some (sb', outsb) /\
       Forall2 obs_eqv outs outsb /\ cur st' = cur sb' /\ oth st' = oth sb').
Proof. exact empty_reads_tolerated_proof. Qed.
Print Assumptions empty_reads_tolerated.

(* ... the former witnesses (one and 99 empty reads inside the data) now return the values with Err() = nil. *)
Theorem zero_length_reads_retried :
  tame_sched [1; 0] /\ tame_sched [0] /\ tame_sched (repeat 0 99 ++ [1] ++ repeat 0 99 ++ [2]) /\
  option_map snd (run any_backend (new_sys (SReader (mkR [1; 2; 3] [1; 0] false E_EOF 0 3))) [OU16; OErr; OPos]) =
    Some [VInt 258; VInt 0; VInt 2] /\
  option_map snd (run any_backend (new_sys (SSeeker (mkK [1; 2; 3] [0] false E_EOF 3 false false))) [OU8; OErr; OPos]) =
    Some [VInt 1; VInt 0; VInt 1] /\
  option_map snd (run any_backend (new_sys (SReader (mkR [1; 2; 3] (repeat 0 99 ++ [1] ++ repeat 0 99 ++ [2]) false E_EOF 0 3)))
                    [OU24; OErr; OPos]) = Some [VInt 66051; VInt 0; VInt 3].
Proof. exact zero_length_reads_retried_proof. Qed.
Print Assumptions zero_length_reads_retried.

(* The give-up case: when the source answers 100 consecutive times (0, nil) inside one request, Bytes returns
   no data and io.ErrNoProgress (E_NOPROGRESS), for every source state that still has data, every request
   length, both backends; the script entries are consumed, the data is not.  So a typed read returns the zero
   value, Err() = io.ErrNoProgress (sticky), Pos unchanged, and the next request is served (counter restarts);
   99 empty reads are tolerated. *)
Theorem no_progress_gives_up :
  (forall rem sched ewl fe pos size bnil n, rem <> [] -> 0 < n ->
     reader_bytes (mkR rem (repeat 0 100 ++ sched) ewl fe pos size) bnil n pos =
       Some (mkR rem sched ewl fe pos size, mkBR [] false E_NOPROGRESS)) /\
  (forall data sched ewl fe size closer bnil n off, 0 <= off < len data -> 0 < n ->
     seeker_bytes (mkK data (repeat 0 100 ++ sched) ewl fe size false closer) bnil n off =
       Some (mkK data sched ewl fe size false closer, mkBR [] false E_NOPROGRESS)) /\
  option_map snd (run any_backend (new_sys (SReader (mkR [1; 2] (repeat 0 100) false E_EOF 0 2)))
                    [OU16; OErr; OPos; OU16; OErr; OPos]) =
    Some [VInt 0; VInt E_NOPROGRESS; VInt 0; VInt 258; VInt E_NOPROGRESS; VInt 2] /\
  option_map snd (run any_backend (new_sys (SReader (mkR [1; 2] (repeat 0 99) false E_EOF 0 2))) [OU16; OErr; OPos]) =
    Some [VInt 258; VInt 0; VInt 2].
Proof. exact no_progress_gives_up_proof. Qed.
Print Assumptions no_progress_gives_up.

(* Formerly mmap_empty_read_at_end_refuted (fixed by c003402): a memory map is a healthy source; after
   WriteUint8(5), WriteBytes(empty) the reads ReadUint8, ReadBytes(0) leave Err() = nil. *)
Theorem mmap_empty_read_at_end :
  (forall d, healthy (SMmap (mmap_open d)) d) /\
  option_map snd (run any_backend (new_sys (SMmap (mmap_open [5]))) [OU8; OReadBytes 0; OErr]) =
    Some [VInt 5; VData true []; VInt 0] /\
  write_all false [VU8 5; VBytes []] = [5].
Proof. exact mmap_empty_read_at_end_proof. Qed.
Print Assumptions mmap_empty_read_at_end.

(* The in-memory and the mmap backend never panic: every operation sequence with arbitrary arguments
   (negative lengths and offsets, reads after Close, any whence) from any state runs to the end. *)
Theorem memory_backends_never_panic :
  forall (ops : list op) (st : sys bstate),
    mem_state (bst st) -> exists st' outs, run any_backend st ops = Some (st', outs).
Proof. exact memory_backends_never_panic_proof. Qed.
Print Assumptions memory_backends_never_panic.

(* ---- Seek, Read, ReadAt ------------------------------------------------------------------------------------ *)
(* Seek on every backend and in every state: for whence in {0,1,2} and a target base+off inside
   [0, Len] the position becomes the target and the target is returned (bytes.Reader semantics);
   a target outside is rejected and nothing changes; so is any other whence. *)
Theorem seek_spec :
  forall (S : Type) (B : backend S) (st : sys S) (off whence : Z),
    let L := blen B (bst st) in
    let p := rpos (cur st) in
    let t := seek_target L p off whence in
    (0 <= whence <= 2 -> 0 <= t <= L ->
       seek B st off whence =
         (mkSys (bst st) (mkReader t (rerr (cur st)) (rlittle (cur st))) (oth st), VIntErr t E_NIL)) /\
    (0 <= whence <= 2 -> ~ (0 <= t <= L) -> seek B st off whence = (st, VIntErr 0 E_OFFSET)) /\
    (~ (0 <= whence <= 2) -> seek B st off whence = (st, VIntErr 0 E_WHENCE)).
Proof. exact @seek_spec_proof. Qed.
Print Assumptions seek_spec.

(* Read (io.Reader) in every reachable state of every healthy backend: it returns d[p : p+n] clipped at the
   end, the count, io.EOF exactly when n > 0 and fewer than n bytes were left; Pos advances by the count;
   Err() and the clone are untouched. *)
Theorem read_spec :
  forall (d : list Z) (st : sys bstate) (n : Z),
    reachable d st -> 0 <= n ->
    let p := rpos (cur st) in
    let data := slice d p (p + n) in
    exists st',
      step any_backend st (ORead n) =
        Some (st', VRead (len data) (if (0 <? n) && (len d <? p + n) then E_EOF else E_NIL) data) /\
      reachable d st' /\ rpos (cur st') = p + len data /\ rerr (cur st') = rerr (cur st) /\ oth st' = oth st.
Proof. exact read_spec_proof. Qed.
Print Assumptions read_spec.

(* ReadAt (io.ReaderAt) on the seekable backends: d[off : off+n] clipped, io.EOF exactly when fewer than n
   bytes were available, the reader (position, Err) is not touched. *)
Theorem readat_spec :
  forall (d : list Z) (st : sys bstate) (n off : Z),
    reachable d st -> random_access (bst st) = true -> 0 <= n -> 0 <= off ->
    let data := slice d off (off + n) in
    exists st',
      step any_backend st (OReadAt n off) =
        Some (st', VRead (len data) (if (0 <? n) && (len d <? off + n) then E_EOF else E_NIL) data) /\
      reachable d st' /\ cur st' = cur st /\ oth st' = oth st.
Proof. exact readat_spec_proof. Qed.
Print Assumptions readat_spec.

(* ---- bitmaps -------------------------------------------------------------------------------------------------- *)
(* Bits written with BitmapWriter to a fresh writer come back in order from BitmapReader (EOF() false,
   Pos() = i+1 after bit i), the writer never panics.  Missing: bit strings of 2^32 - 8 bits or more
   (BitmapReader.pos is a uint32). *)
Theorem bitmap_roundtrip_partial :
  forall bits : list bool,
    len bits < 2 ^ 32 - 8 ->
    exists w r,
      bmw_writes (bmw_new []) bits = Some w /\
      bmr_reads (length bits) (bmr_new (bw_buf w)) =
        Some (r, map (fun t => (nthb bits t, t + 1, false)) (zrange_from 0 (length bits))) /\
      map (fun x => fst (fst x)) (map (fun t => (nthb bits t, t + 1, false)) (zrange_from 0 (length bits))) = bits.
Proof. exact bitmap_roundtrip_proof. Qed.
Print Assumptions bitmap_roundtrip_partial.

(* BitmapWriter on any initial buffer and any bit string (shorter than 2^64): no panic, Pos = number of bits,
   and bit j of the result is bit j of the initial buffer OR the j-th written bit. *)
Theorem bitmap_writer_spec :
  forall (init : list Z) (bits : list bool),
    len bits < 2 ^ 64 ->
    exists w, bmw_writes (bmw_new init) bits = Some w /\
      bw_pos w = len bits /\
      forall j, bit_at (bw_buf w) j = bit_at init j || nthb bits j.
Proof. exact bitmap_writer_spec_proof. Qed.
Print Assumptions bitmap_writer_spec.

(* BitmapReader yields exactly the 8 * len buf bits of the buffer, most significant bit first, with
   EOF() = false and Pos() = i+1; every later read returns false with EOF() = true and the position stays.
   Missing: buffers of 2^29 bytes or more (false there, see bitmap_all_bits_huge_refuted). *)
Theorem bitmap_all_bits_partial :
  forall (buf : list Z) (m : nat),
    len buf < 2 ^ 29 ->
    let n := Z.to_nat (8 * len buf) in
    bmr_reads (n + m) (bmr_new buf) =
      Some (mkBmr buf (8 * len buf) (negb (Nat.eqb m 0)),
            map (fun t => (bit_at buf t, t + 1, false)) (zrange_from 0 n) ++ repeat (false, 8 * len buf, true) m).
Proof. exact bitmap_all_bits_proof. Qed.
Print Assumptions bitmap_all_bits_partial.

(* REFUTED for "any buffer": BitmapReader.pos is a uint32, so on a buffer of 2^29 bytes (2^32 bits) the
   position wraps to 0 and no number of reads ever reports EOF. *)
Theorem bitmap_all_bits_huge_refuted :
  exists buf, len buf = 2 ^ 29 /\
    forall k, exists r outs, bmr_reads k (bmr_new buf) = Some (r, outs) /\ bm_eof r = false /\
                             Forall (fun x => snd x = false) outs.
Proof. exact bitmap_all_bits_huge_refuted_proof. Qed.
Print Assumptions bitmap_all_bits_huge_refuted.

(* ---- the repaired defects ------------------------------------------------------------------------------------ *)
(* The four lines as they were before the fix: commits, on the inputs of DESIGN section 2 (D11, D12, D13 and
   the ReadInt24 sign), against what the current model computes: a revert of any of them contradicts
   seek_spec / write_read_roundtrip_mmap / bitmap_all_bits_partial / write_read_roundtrip. *)
Theorem prefix_defects_legacy_refuted :
  seek_end_legacy 10 (-3) = 13 /\
  snd (seek bytes_backend (new_sys [1; 2; 3; 4; 5; 6; 7; 8; 9; 10]) (-3) 2) = VIntErr 7 E_NIL /\
  br_err (mmap_bytes_legacy [1; 2; 3; 4] 4 0) = E_EOF /\
  option_map (fun x => br_err (snd x)) (mmap_bytes (mmap_open [1; 2; 3; 4]) true 4 0) = Some E_NIL /\
  bmr_reads_legacy 8 (bmr_new [255]) = Some ([true; true; true; true; true; true; true; false], true) /\
  option_map (fun x => bm_eof (fst x)) (bmr_reads 8 (bmr_new [255])) = Some false /\
  int24_legacy 16777215 = 16777215 /\ sext24 16777215 = -1.
Proof. exact prefix_defects_legacy_refuted_proof. Qed.
Print Assumptions prefix_defects_legacy_refuted.
