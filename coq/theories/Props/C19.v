(* Props/C19.v — C19: BinaryReader / BinaryWriter round-trip and honour the io contracts on every
   backend; BitmapWriter / BitmapReader.  Statements only; each is closed by [exact] of a lemma proved
   in Binary/*.v.  The model (Binary/Model.v) transcribes /repo/binary.go and binary_unix.go. *)
From Verif Require Import Common.Base Binary.Model Binary.Spec Binary.Proofs.

(* Every list of typed values (u/i 8,16,24,32,64, byte strings), both byte orders: reading the written
   buffer back on every healthy backend (in-memory bytes; io.Reader, io.ReadSeeker / file with ANY
   partition of the stream into non-empty reads; io.ReaderAt) returns the values, then
   Pos() = bytes consumed, Len() = bytes remaining, Err() = nil.  No panic. *)
Theorem write_read_roundtrip :
  forall (s : bstate) (little : bool) (vs1 vs2 : list value),
    healthy s (write_all little (vs1 ++ vs2)) -> Forall valid_value vs1 ->
    exists st' outs,
      run any_backend (new_sys s) (OOrder little :: map read_op vs1 ++ [OPos; OLen; OErr]) =
        Some (st', VNone :: outs ++ [VInt (values_size vs1); VInt (values_size vs2); VInt 0]) /\
      Forall2 returns outs vs1.
Proof. exact write_read_roundtrip_proof. Qed.
Print Assumptions write_read_roundtrip.

(* As long as no read has run past the end on the in-memory backend (Err() nil after every step), every
   healthy backend returns exactly the same observations for the same operation sequence (typed reads,
   Read, and - on the seekable backends - Seek, ReadAt, Clone). *)
Theorem backend_independence :
  forall (s : bstate) (d : list Z) (ops : list op),
    healthy s d -> Forall (allowed (random_access s)) ops -> clean bytes_backend (new_sys d) ops ->
    exists st' sb' outs,
      run any_backend (new_sys s) ops = Some (st', outs) /\
      run bytes_backend (new_sys d) ops = Some (sb', outs) /\
      cur st' = cur sb' /\ oth st' = oth sb'.
Proof. exact backend_independence_proof. Qed.
Print Assumptions backend_independence.

(* Seek on every backend and in every state: for whence in {0,1,2} and a target base+off inside
   [0, Len] the position becomes the target and the target is returned (bytes.Reader semantics);
   a target outside is rejected and nothing changes; so is any other whence. *)
Theorem seek_spec :
  forall (S : Type) (B : backend S) (st : sys S) (off whence : Z),
    let L := blen B (bst st) in
    let p := rpos (cur st) in
    let t := seek_target L p off whence in
    (0 <= whence <= 2 -> 0 <= t <= L ->
       seek B st off whence =
         (mkSys (bst st) (mkReader t (rerr (cur st)) (rlittle (cur st))) (oth st), VIntErr t E_NIL)) /\
    (0 <= whence <= 2 -> ~ (0 <= t <= L) -> seek B st off whence = (st, VIntErr 0 E_OFFSET)) /\
    (~ (0 <= whence <= 2) -> seek B st off whence = (st, VIntErr 0 E_WHENCE)).
Proof. exact @seek_spec_proof. Qed.
Print Assumptions seek_spec.
