(* Props/C18.v — C18: Walk visits every node of the tree once with balanced Enter/Exit.
   Statements only; each is closed by [exact] of a lemma proved in Walk/*.v.

   gen_spec = the tables translator T2 generates from js/ast.go and js/walk.go on every run
   (Gen/WalkSchema.v).  walk_p is the executable model of js.Walk (Walk/Model.v): it returns the
   sequence of Enter/Exit calls and whether Go would have panicked.  The visitor is ARBITRARY:
   [enter h v p a fl] is what the visitor object v answers to Enter for the node at path p of type a
   after having seen the calls h (None = nil).  Trees are identified with what Go holds in memory by
   the exporter of harness/c18.go (checked on every run against the real Walk). *)
From Coq Require Import List Arith Bool Permutation.
From Verif Require Import Walk.Schema Walk.Model Walk.Trace Gen.WalkSchema Walk.Harness Walk.Proofs.
Import ListNotations.

(* Finite check on the generated file: for every node type the fields visited by its switch arm are
   a permutation of its node-valued fields (scope tables and Var.Link excluded by name, see the header
   of Gen/WalkSchema.v). *)
Theorem walk_covers_schema :
  forallb (fun t => perm_eqb (visited gen_spec t) (node_fields gen_spec t)) (seq 0 (ntypes gen_spec)) = true.
Proof. exact gen_covers_fields. Qed.
Print Assumptions walk_covers_schema.

(* Every visit has a shape that is safe for the kind of its field (pointer fields under a nil guard,
   struct fields by address, ...) and every type with children has an arm. *)
Theorem walk_arms_wellformed :
  forallb (fun t => forallb (visit_ok gen_spec t) (visits_of gen_spec t) &&
                    match arm_of gen_spec t with
                    | Some _ => true
                    | None => match fields_of gen_spec t with [] => true | _ => false end
                    end)
          (seq 0 (ntypes gen_spec)) = true.
Proof. exact gen_arms_normal. Qed.
Print Assumptions walk_arms_wellformed.

(* For ALL trees (well-typed or not) and all visitors the walk never panics and never hands the
   visitor a typed nil or a struct copy made by a wrong call shape: the faithful model equals the
   plain walk. *)
Theorem walk_no_panic :
  forall (V : Type) (enter : list (event V) -> V -> path -> ty -> flavour -> option V) (v0 : V) (t : tree),
    walk_p gen_spec V enter v0 t = (walk gen_spec V enter v0 t, false).
Proof. exact walk_no_panic_proof. Qed.
Print Assumptions walk_no_panic.

(* Descend everywhere: the nodes passed to Enter are exactly the nodes of the tree, each once. *)
Theorem walk_visits_each_once :
  forall (V : Type) (enter : list (event V) -> V -> path -> ty -> flavour -> option V) (v0 : V) (t : tree),
    (forall h v p a fl, enter h v p a fl <> None) ->
    well_typed gen_spec t = true ->
    Permutation (entered V (fst (walk_p gen_spec V enter v0 t))) (all_nodes gen_spec t) /\
    NoDup (all_nodes gen_spec t).
Proof. exact walk_visits_each_once_proof. Qed.
Print Assumptions walk_visits_each_once.

(* Any visitor, any tree: the trace is well nested (see [bal] in Walk/Trace.v): Exit exactly for the
   nodes whose Enter returned a visitor, delivered to that visitor, after everything below the node;
   the children are entered through the visitor their parent's Enter returned; nothing happens below a
   node whose Enter returned nil. *)
Theorem walk_enter_exit_balanced :
  forall (V : Type) (enter : list (event V) -> V -> path -> ty -> flavour -> option V) (v0 : V) (t : tree),
    bal V enter v0 [] (fst (walk_p gen_spec V enter v0 t)).
Proof. exact walk_balanced_proof. Qed.
Print Assumptions walk_enter_exit_balanced.

(* Any visitor: whatever is passed to Enter or Exit is a node of the tree. *)
Theorem walk_nothing_else :
  forall (V : Type) (enter : list (event V) -> V -> path -> ty -> flavour -> option V) (v0 : V) (t : tree) e,
    well_typed gen_spec t = true ->
    In e (fst (walk_p gen_spec V enter v0 t)) -> In (e_path e) (all_nodes gen_spec t).
Proof. exact walk_nothing_else_proof. Qed.
Print Assumptions walk_nothing_else.
