(* Props/C18.v — C18: Walk visits every node of the tree once with balanced Enter/Exit.
   Statements only; each is closed by [exact] of a lemma proved in Walk/Proofs.v. *)
From Coq Require Import List Arith Bool Permutation.
From Verif Require Import Walk.Schema Walk.Model Gen.WalkSchema Walk.Harness Walk.Proofs.
Import ListNotations.

(* Finite check on the generated file (translator T2 over js/ast.go and js/walk.go): for every node
   type the fields visited by its switch arm are a permutation of its node-valued fields. *)
Theorem walk_covers_schema :
  forallb (fun t => perm_eqb (visited gen_spec t) (node_fields gen_spec t)) (seq 0 (ntypes gen_spec)) = true.
Proof. exact gen_covers_fields. Qed.
Print Assumptions walk_covers_schema.
