(* Props/C18.v — C18: Walk visits every node of the tree once with balanced Enter/Exit.
   Statements only; each is closed by [exact] of a lemma proved in Walk/*.v.

   gen_spec = the tables translator T2 generates from js/ast.go and js/walk.go on every run
   (Gen/WalkSchema.v).  walk_p is the executable model of js.Walk (Walk/Model.v): it returns the
   sequence of Enter/Exit calls and whether Go would have panicked.  The visitor is ARBITRARY:
   [enter h v p a fl] is what the visitor object v answers to Enter for the node at path p of type a
   after having seen the calls h (None = nil).  Trees are identified with what Go holds in memory by
   the exporter of harness/c18.go (checked on every run against the real Walk). *)
From Coq Require Import List Arith Bool Permutation.
From Verif Require Import Walk.Schema Walk.Model Walk.Trace Walk.Prune Gen.WalkSchema Walk.Harness Walk.Proofs.
Import ListNotations.

(* Finite check on the generated file: for every node type the fields visited by its switch arm are
   a permutation of its node-valued fields (scope tables and Var.Link excluded by name, see the header
   of Gen/WalkSchema.v). *)
Theorem walk_covers_schema :
  forallb (fun t => perm_eqb (visited gen_spec t) (node_fields gen_spec t)) (seq 0 (ntypes gen_spec)) = true.
Proof. exact gen_covers_fields. Qed.
Print Assumptions walk_covers_schema.

(* Every visit has a shape that is safe for the kind of its field (pointer fields under a nil guard,
   struct fields by address, ...) and every type with children has an arm. *)
Theorem walk_arms_wellformed :
  forallb (fun t => forallb (visit_ok gen_spec t) (visits_of gen_spec t) &&
                    match arm_of gen_spec t with
                    | Some _ => true
                    | None => match fields_of gen_spec t with [] => true | _ => false end
                    end)
          (seq 0 (ntypes gen_spec)) = true.
Proof. exact gen_arms_normal. Qed.
Print Assumptions walk_arms_wellformed.

(* For ALL trees (well-typed or not) and all visitors the walk never panics and never hands the
   visitor a typed nil or a struct copy made by a wrong call shape: the faithful model equals the
   plain walk. *)
Theorem walk_no_panic :
  forall (V : Type) (enter : list (event V) -> V -> path -> ty -> flavour -> option V) (v0 : V) (t : tree),
    walk_p gen_spec V enter v0 t = (walk gen_spec V enter v0 t, false).
Proof. exact walk_no_panic_proof. Qed.
Print Assumptions walk_no_panic.

(* What "the nodes of the tree" means: the paths at which a subtree sits that is not a wrapper element
   (ClassElement, which Walk handles inline and never passes to Enter).  Scope tables and Var.Link are
   not fields of the schema, so nothing reachable only through them is a node. *)
Theorem all_nodes_spec :
  forall (t : tree) (q : path),
    well_typed gen_spec t = true ->
    (In q (all_nodes gen_spec t) <->
     exists c, subtree_at t q = Some c /\ is_wrapper gen_spec (tree_ty c) = false).
Proof. exact all_nodes_spec_proof. Qed.
Print Assumptions all_nodes_spec.

(* Descend everywhere: the nodes passed to Enter are exactly the nodes of the tree, each once. *)
Theorem walk_visits_each_once :
  forall (V : Type) (enter : list (event V) -> V -> path -> ty -> flavour -> option V) (v0 : V) (t : tree),
    (forall h v p a fl, enter h v p a fl <> None) ->
    well_typed gen_spec t = true ->
    Permutation (entered V (fst (walk_p gen_spec V enter v0 t))) (all_nodes gen_spec t) /\
    NoDup (all_nodes gen_spec t).
Proof. exact walk_visits_each_once_proof. Qed.
Print Assumptions walk_visits_each_once.

(* Any visitor, any tree: the trace is well nested (see [bal] in Walk/Trace.v): Exit exactly for the
   nodes whose Enter returned a visitor, delivered to that visitor, after everything below the node;
   the children are entered through the visitor their parent's Enter returned; nothing happens below a
   node whose Enter returned nil. *)
Theorem walk_enter_exit_balanced :
  forall (V : Type) (enter : list (event V) -> V -> path -> ty -> flavour -> option V) (v0 : V) (t : tree),
    bal V enter v0 [] (fst (walk_p gen_spec V enter v0 t)).
Proof. exact walk_balanced_proof. Qed.
Print Assumptions walk_enter_exit_balanced.

(* Any visitor: whatever is passed to Enter or Exit is a node of the tree. *)
Theorem walk_nothing_else :
  forall (V : Type) (enter : list (event V) -> V -> path -> ty -> flavour -> option V) (v0 : V) (t : tree) e,
    well_typed gen_spec t = true ->
    In e (fst (walk_p gen_spec V enter v0 t)) -> In (e_path e) (all_nodes gen_spec t).
Proof. exact walk_nothing_else_proof. Qed.
Print Assumptions walk_nothing_else.

(* Any visitor: a child never before its parent.  When a node is passed to Enter, every node of the
   tree that lies above it has been passed to Enter earlier and has not been exited yet. *)
Theorem walk_parent_first :
  forall (V : Type) (enter : list (event V) -> V -> path -> ty -> flavour -> option V) (v0 : V) (t : tree)
         pre e post,
    well_typed gen_spec t = true ->
    fst (walk_p gen_spec V enter v0 t) = pre ++ e :: post -> e_k e = KEnter ->
    forall a, In a (all_nodes gen_spec t) -> sprefix a (e_path e) ->
      (exists e', In e' pre /\ e_k e' = KEnter /\ e_path e' = a) /\
      (forall e', In e' pre -> e_k e' = KExit -> e_path e' <> a).
Proof. exact walk_parent_first_proof. Qed.
Print Assumptions walk_parent_first.

(* Any visitor (even one whose answers depend on everything it has seen): no node is entered twice,
   and a node is entered iff it is a node of the tree all of whose ancestors were exited, i.e. (by
   walk_enter_exit_balanced) their Enter returned a visitor.  A nil-returning Enter removes exactly
   the subtree below that node. *)
Theorem walk_prunes_exactly :
  forall (V : Type) (enter : list (event V) -> V -> path -> ty -> flavour -> option V) (v0 : V) (t : tree),
    well_typed gen_spec t = true ->
    let evs := fst (walk_p gen_spec V enter v0 t) in
    NoDup (entered V evs) /\
    forall q, In q (entered V evs) <->
              In q (all_nodes gen_spec t) /\
              (forall a, In a (all_nodes gen_spec t) -> sprefix a q -> In a (exited V evs)).
Proof. exact walk_prunes_exactly_proof. Qed.
Print Assumptions walk_prunes_exactly.

(* Stop-set visitors (Enter returns nil exactly on the nodes of an arbitrary set): the entered nodes
   are, up to order, the nodes of the tree that have no stopped proper ancestor. *)
Theorem walk_prunes_stop_set :
  forall (V : Type) (stop : path -> bool) (v0 : V) (t : tree),
    well_typed gen_spec t = true ->
    Permutation (entered V (fst (walk_p gen_spec V (stop_enter V stop) v0 t)))
                (nodes_not_below_stopped stop t).
Proof. exact walk_prunes_stop_set_proof. Qed.
Print Assumptions walk_prunes_stop_set.

(* All trees, any visitor: an event at path p is about the subtree at p and reports its type. *)
Theorem walk_identity :
  forall (V : Type) (enter : list (event V) -> V -> path -> ty -> flavour -> option V) (v0 : V) (t : tree) e,
    In e (fst (walk_p gen_spec V enter v0 t)) ->
    exists c, subtree_at t (e_path e) = Some c /\ tree_ty c = e_ty e.
Proof. exact walk_identity_proof. Qed.
Print Assumptions walk_identity.

(* "Nothing is visited that is not part of the tree", read for ADDRESSES: for all trees and all
   visitors, every node that the tree holds by address is handed to Enter/Exit by that address (never
   the address of a copy, a typed nil or a struct value); the leaves the tree itself stores by value
   (DotExpr.Y) are handed over by value.  (False before fix 3931a8d: the ClassDecl arm ranged over
   n.List by value; that table is kept as [legacy_spec] in Walk/Proofs.v with its witness.) *)
Theorem walk_hands_over_tree_addresses :
  forall (V : Type) (enter : list (event V) -> V -> path -> ty -> flavour -> option V) (v0 : V) (t : tree) e,
    In e (fst (walk_p gen_spec V enter v0 t)) ->
    (by_value gen_spec (e_ty e) = false /\ e_fl e = Orig) \/
    (by_value gen_spec (e_ty e) = true /\ e_fl e = ByVal).
Proof. exact walk_hands_over_tree_addresses_proof. Qed.
Print Assumptions walk_hands_over_tree_addresses.
