(* Props/C13.v — C13: StreamLexer is chunking-independent; Err; ShiftLen; slice stability.
   Statements only; each is closed by [exact] of a lemma proved in Stream/Proofs.v. *)
From Verif Require Import Common.Base Stream.Model Stream.Spec Stream.Proofs Stream.Pool Stream.Stable Stream.Memory.

(* However the reader splits the data (any schedule of Read results: any chunk sizes, zero-length reads,
   EOF or a failure delivered with or after the last bytes) and whatever initial buffer size >= 0 is chosen,
   every contract-respecting history of Peek, PeekRune (on valid UTF-8: the RFC 3629 code point and length;
   (0,1) at or past the end), Move, Rewind, Skip, Shift, Lexeme, Pos, Free and ShiftLen
   (sspec_run succeeds: moves stay within what Peek has returned, Free releases at most what was shifted)
   runs without panic and without a non-terminating refill, and returns exactly the observations of a cursor
   over the completely read input [delivered sch] — which does not depend on the chunking or the size.
   ShiftLen's observation in the specification is (bytes shifted or skipped since its previous call). *)
Theorem stream_refines_cursor :
  forall (sch : list event) (size : Z) (ops : list sop) c' outs,
    0 <= size ->
    sspec_run (sc_init (delivered sch)) ops = Some (c', outs) ->
    exists s', srun (new_stream sch size) ops = Some (s', outs).
Proof. exact stream_refines_cursor_proof. Qed.
Print Assumptions stream_refines_cursor.

(* Err() after any such history: nil while unread data remain and the reader has not failed;
   io.EOF (1) only once the position has reached the end of the data; any other value is the reader's error. *)
Theorem err_spec :
  forall (sch : list event) (size : Z) (ops : list sop) c' outs s',
    0 <= size ->
    sspec_run (sc_init (delivered sch)) ops = Some (c', outs) ->
    srun (new_stream sch size) ops = Some (s', outs) ->
    (final_err sch = 1 -> cps c' < len (delivered sch) -> stream_err s' = 0) /\
    (stream_err s' = 1 -> len (delivered sch) <= cps c') /\
    (stream_err s' <> 0 -> stream_err s' = final_err sch).
Proof. exact err_spec_proof. Qed.
Print Assumptions err_spec.

(* A slice returned by Shift stays unchanged until at least as many bytes have been released with Free as had
   been shifted up to its end: for every read schedule, every initial size >= 0, every contract-respecting history
   and hence every Free discipline (never, immediately, delayed, in any amounts the contract allows).  [intact s c h]
   is: total bytes freed < absolute end offset of the slice -> its bytes in the final heap are the bytes it had when
   it was handed out.  Proved over the pool as an index-linked queue with the absolute-offset accounting
   T + ppos + pending = bytes freed (Stream/Pool.v, Stream/Stable.v). *)
Theorem shift_slice_stable :
  forall (sch : list event) (size : Z) (ops : list sop) s c outs h,
    0 <= size ->
    srun2 (new_stream sch size) (sc_init (delivered sch)) [] ops = Some (s, c, outs) ->
    In h outs -> hshift h = true -> intact s c h.
Proof. exact shift_slice_stable_proof. Qed.
Print Assumptions shift_slice_stable.

(* Memory, part 1 — whatever the Free discipline: no array the lexer ever allocates (current buffer or pool) is
   larger than max(size, 5*(L+1)), where L bounds how far any Peek/PeekRune looks ahead of the start of the
   current token ([look_ok L] at every step of the history). *)
Theorem capacity_bound :
  forall (sch : list event) (size L : Z) (ops : list sop) s c outs,
    0 <= size -> 0 <= L ->
    all_steps (look_ok L) (sc_init (delivered sch)) ops ->
    srun2 (new_stream sch size) (sc_init (delivered sch)) [] ops = Some (s, c, outs) ->
    Forall (fun a => len a <= Z.max size (5 * (L + 1))) (sheap s).
Proof. exact capacity_bound_proof. Qed.
Print Assumptions capacity_bound.

(* Memory, part 2 — when every shifted token has been freed by the time the lexer looks ahead again ([freed_all]:
   bytes freed = bytes shifted at every Peek/PeekRune), a refill reuses the current buffer in place unless the buffer
   has to grow, every growth more than doubles the capacity, and therefore the capacities of ALL arrays ever allocated
   sum to at most 2*max(size, 5*(L+1)): bounded by the buffer size and the longest token, not by the stream.
   (With delayed Free the pool legitimately holds the unfreed tokens; part 1 still bounds every single array.) *)
Theorem memory_bound :
  forall (sch : list event) (size L : Z) (ops : list sop) s c outs,
    0 <= size -> 0 <= L ->
    all_steps (look_ok L) (sc_init (delivered sch)) ops ->
    all_steps freed_all (sc_init (delivered sch)) ops ->
    srun2 (new_stream sch size) (sc_init (delivered sch)) [] ops = Some (s, c, outs) ->
    sumz (caps (sheap s)) <= 2 * Z.max size (5 * (L + 1)).
Proof. exact memory_bound_proof. Qed.
Print Assumptions memory_bound.

(* REFUTED on the current tree (known finding, KNOWN_FINDINGS.txt c13-stable:lexeme): a slice returned by
   Lexeme() changes although fewer bytes were released than had been shifted up to its end. *)
Theorem lexeme_slice_stable_refuted :
  exists sch size ops s c outs h,
    srun2 (new_stream sch size) (sc_init (delivered sch)) [] ops = Some (s, c, outs) /\
    In h outs /\ hshift h = false /\ cfreed c < hend h /\ uslice_bytes (sheap s) (hu h) <> hbytes h.
Proof. exact lexeme_slice_stable_refuted_proof. Qed.
Print Assumptions lexeme_slice_stable_refuted.
