(* Props/C02.v — C02: tokens are faithful, ordered, non-empty slices of the input.
   Statements only.  The clauses are theorems of the individual lexer models; this file collects them.
   (CSS, JS and HTML clauses are added as their models are merged; see props.d/C02.json.) *)
From Verif Require Import Common.Base Common.Lx Cursor.Model Cursor.Proofs Xml.Model Xml.Step Xml.Proofs.

(* Every slice the cursor hands out (Lexeme, Shift, Bytes — this is what every lexer returns as a token)
   is observed as lo, hi, cap, bytes with cap = hi - lo = its length: three-index slicing, so appending to
   a token reallocates and never overwrites input bytes. *)
Theorem token_slices_cap_eq_len :
  forall b lo hi o, obs_slice b lo hi = Some o ->
    exists bytes, o = lo :: hi :: (hi - lo) :: bytes /\ len bytes = hi - lo.
Proof. exact obs_slice_cap. Qed.
Print Assumptions token_slices_cap_eq_len.

(* XML, all byte strings: tokens in order, non-empty, each ends at the cursor offset reported after the call
   and starts where the previous one ended, except that whitespace may be skipped in front of a tag closer. *)
Theorem xml_tokens_tile :
  forall d n tr, run n (xml_init d) = Some tr -> tiled d 0 tr.
Proof. exact xml_tiling_proof. Qed.
Print Assumptions xml_tokens_tile.

(* XML: the only bytes altered are TAB/LF/CR strictly inside a quoted attribute value, which read as a space. *)
Theorem xml_only_quoted_whitespace_altered :
  forall d s ty lo hi s', reach d s -> next s = Some (ty, Some (lo, hi), s') ->
    (forall i, i < lo -> getz (lbuf (xr s')) i = getz (lbuf (xr s)) i) /\
    (forall i, lo <= i < hi ->
       getz (lbuf (xr s')) i = getz d i \/
       (ty = TAttribute /\ exists aa ab, xattr s' = Some (aa, ab) /\ aa < i < ab /\ is_quote (getz d aa) /\
                                        ws3 (getz d i) /\ getz (lbuf (xr s')) i = 32)).
Proof. exact xml_bytes_faithful_proof. Qed.
Print Assumptions xml_only_quoted_whitespace_altered.

(* XML: Text() and AttrVal() are sub-slices of the token they belong to. *)
Theorem xml_text_attrval_subslices :
  forall d s ty lo hi s', reach d s -> next s = Some (ty, Some (lo, hi), s') ->
    sl_in (xtext s') lo hi /\ sl_in (xattr s') lo hi /\ (ty <> TAttribute -> xattr s' = None).
Proof. exact xml_subslices_proof. Qed.
Print Assumptions xml_text_attrval_subslices.
