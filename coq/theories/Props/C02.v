(* Props/C02.v — C02: tokens are faithful, ordered, non-empty slices of the input.
   Statements only.  The clauses are theorems of the individual lexer models; this file collects them, one module
   per lexer (the models share names).  CSS and JS clauses are added as their models are merged (props.d/C02.json). *)
From Verif Require Import Common.Base.
From Verif Require Common.Lx Cursor.Model Cursor.Proofs Xml.Model Xml.Step Xml.Proofs.
From Verif Require Gen.Tables Html.Model Html.ListLemmas Html.Safety Html.Step Html.Proofs Html.EndTag.
From Verif Require Css.Model Css.Proofs Css.Relex.
From Verif Require JsLex.Model JsLex.Lemmas JsLex.Next JsLex.Proofs JsLex.Relex JsLex.RelexNext.

Module Cursor.
  Import Verif.Cursor.Model Verif.Cursor.Proofs.
  (* Every slice the cursor hands out (Lexeme, Shift, Bytes — this is what every lexer returns as a token) is observed
     as lo, hi, cap, bytes with cap = hi - lo = its length: three-index slicing, so appending to a token reallocates
     and never overwrites input bytes. *)
  Theorem token_slices_cap_eq_len :
    forall b lo hi o, obs_slice b lo hi = Some o ->
      exists bytes, o = lo :: hi :: (hi - lo) :: bytes /\ len bytes = hi - lo.
  Proof. exact obs_slice_cap. Qed.
  Print Assumptions token_slices_cap_eq_len.
End Cursor.

Module Xml.
  Import Verif.Common.Lx Verif.Xml.Model Verif.Xml.Step Verif.Xml.Proofs.
  (* all byte strings: tokens in order, non-empty, each ends at the cursor offset reported after the call and starts
     where the previous one ended, except that whitespace may be skipped in front of a tag closer *)
  Theorem xml_tokens_tile :
    forall d n tr, run n (xml_init d) = Some tr -> tiled d 0 tr.
  Proof. exact xml_tiling_proof. Qed.
  Print Assumptions xml_tokens_tile.
  (* the only bytes altered are TAB/LF/CR strictly inside a quoted attribute value, which read as a space *)
  Theorem xml_only_quoted_whitespace_altered :
    forall d s ty lo hi s', reach d s -> next s = Some (ty, Some (lo, hi), s') ->
      (forall i, i < lo -> getz (lbuf (xr s')) i = getz (lbuf (xr s)) i) /\
      (forall i, lo <= i < hi ->
         getz (lbuf (xr s')) i = getz d i \/
         (ty = TAttribute /\ exists aa ab, xattr s' = Some (aa, ab) /\ aa < i < ab /\ is_quote (getz d aa) /\
                                          ws3 (getz d i) /\ getz (lbuf (xr s')) i = 32)).
  Proof. exact xml_bytes_faithful_proof. Qed.
  Print Assumptions xml_only_quoted_whitespace_altered.
  (* Text() and AttrVal() are sub-slices of the token they belong to *)
  Theorem xml_text_attrval_subslices :
    forall d s ty lo hi s', reach d s -> next s = Some (ty, Some (lo, hi), s') ->
      sl_in (xtext s') lo hi /\ sl_in (xattr s') lo hi /\ (ty <> TAttribute -> xattr s' = None).
  Proof. exact xml_subslices_proof. Qed.
  Print Assumptions xml_text_attrval_subslices.
End Xml.

Module Html.
  Import Verif.Common.Lx Verif.Gen.Tables Verif.Html.Model Verif.Html.ListLemmas Verif.Html.Safety Verif.Html.Step Verif.Html.Proofs Verif.Html.EndTag.
  (* up to the first ErrorToken the tokens are non-empty, in order, inside the input, end at the reported offset and
     cover everything except whitespace before the '>' / '/>' of a tag; their bytes are the input bytes with exactly
     one view lower-cased, fixed by the token type (the tag name of start tags and svg/math/xml, the attribute name
     unless it contains a template, the tag name of end tags, nothing else) *)
  Theorem html_tokens_tile :
    forall c d n tr, cfg_ok c -> run c n (new_lexer d) = Ok tr -> tiles d 0 tr.
  Proof. exact html_tiling_proof. Qed.
  Print Assumptions html_tokens_tile.
  (* Text(), AttrKey() and AttrVal() are sub-slices of the token they belong to *)
  Theorem html_text_attr_subslices :
    forall c d n tr, cfg_ok c -> run c n (new_lexer d) = Ok tr -> Forall subslices_at tr.
  Proof. exact html_subslices_proof. Qed.
  Print Assumptions html_text_attr_subslices.
  (* "the only bytes altered are the ASCII case of tag and attribute names": for every EndTag token before the first
     error the token bytes are the input bytes with only the tag name (the bytes after "</" up to the first
     whitespace, '>' or '/') lower-cased, all other bytes as they were (repaired by /repo 980d021; before it the whole
     end tag was lower-cased) *)
  Theorem html_endtag_only_name_lowercased :
    forall c d n tr, cfg_ok c -> run c n (new_lexer d) = Ok tr -> Forall (endtag_faithful d) (until_error tr).
  Proof. exact html_endtag_faithful_proof. Qed.
  Print Assumptions html_endtag_only_name_lowercased.
End Html.

Module JsLex.
  Import Verif.Common.Lx Verif.Gen.Tables Verif.JsLex.Model Verif.JsLex.Lemmas Verif.JsLex.Next Verif.JsLex.Proofs Verif.JsLex.Relex Verif.JsLex.RelexNext.
  (* ALL byte strings, any number of calls: the token texts concatenate to data[0:start]; every returned slice is
     non-empty; as long as no call returned the nil slice the tokens tile exactly the bytes consumed *)
  Theorem jslex_tokens_tile :
    forall (ids idc zs : Z -> bool) d n,
      exists ts s', next_n ids idc zs n (js_init d) = Ok (ts, s') /\
        0 <= lstart (jcur s') <= lpos (jcur s') /\ lpos (jcur s') <= len d /\
        concat (map tok_bytes ts) = firstz (lstart (jcur s')) d /\
        Forall (fun t => match snd t with Some b => b <> [] | None => fst t = ErrorToken end) ts /\
        (Forall (fun t => snd t <> None) ts ->
           lstart (jcur s') = lpos (jcur s') /\ concat (map tok_bytes ts) = firstz (lpos (jcur s')) d).
  Proof. exact jslex_tiling_proof. Qed.
  Print Assumptions jslex_tokens_tile.
  (* lexing the text of any single token on its own yields that same token again (all kinds except template
     continuations; on valid UTF-8 the side condition no_trunc holds: relex_valid_utf8 in Props/C06.v) *)
  Theorem jslex_relex :
    forall (ids idc zs : Z -> bool) s ty b s',
      js_wf s -> lstart (jcur s) = lpos (jcur s) ->
      next ids idc zs s = Ok ((ty, Some b), s') ->
      ty <> ErrorToken -> ty <> TemplateMiddleToken -> ty <> TemplateEndToken -> no_trunc b = true ->
      exists s2 s3, next ids idc zs (js_init b) = Ok ((ty, Some b), s2) /\
        next ids idc zs s2 = Ok ((ErrorToken, None), s3) /\ js_err s3 = 1.
  Proof. exact jslex_relex_proof. Qed.
  Print Assumptions jslex_relex.
  (* REFUTED for template continuations (known findings c02-js-relex:TemplateMiddle / TemplateEnd) *)
  Theorem jslex_relex_template_refuted :
    forall (ids idc zs : Z -> bool) ty, ty = TemplateMiddleToken \/ ty = TemplateEndToken ->
      exists d t0 s1 t s2,
        next ids idc zs (js_init d) = Ok (t0, s1) /\ next ids idc zs s1 = Ok (t, s2) /\
        fst t = ty /\ ~ relex_same ids idc zs t.
  Proof. exact jslex_relex_template_refuted_proof. Qed.
  Print Assumptions jslex_relex_template_refuted.
End JsLex.

Module Css.
  Import Verif.Common.Lx Verif.Css.Model Verif.Css.Proofs Verif.Css.Relex.
  (* ALL byte strings: the tokens up to the end concatenate to exactly the input (nothing skipped, nothing invented; the
     css lexer has no lexical error other than the end of input), every token is non-empty, and each token is the slice
     of the input that starts where its predecessors end *)
  Theorem css_tokens_tile : forall d toks, css_lex d = LexDone toks ->
    concat (map snd toks) = d /\
    Forall (fun t => snd t <> [] /\ fst t <> TError) toks /\
    (forall pre ty b post, toks = pre ++ (ty, b) :: post ->
       b = slice d (len (concat (map snd pre))) (len (concat (map snd pre)) + len b)).
  Proof. exact css_tiling_proof. Qed.
  Print Assumptions css_tokens_tile.
  (* the token returned by a call is the piece of the input that ends at the offset reported right after the call *)
  Theorem css_token_ends_at_offset : forall z ty b z', css_inv z -> css_next z = Some (ty, b, z') ->
    lpos z <= lpos z' <= lx_len z /\ b = slice (lx_data z) (lpos z) (lpos z') /\ lx_data z' = lx_data z.
  Proof. exact css_no_overread_proof. Qed.
  Print Assumptions css_token_ends_at_offset.
  (* lexing the text of any single token of any input on its own yields that same token again *)
  Theorem css_relex : forall d toks ty b, css_lex d = LexDone toks -> In (ty, b) toks ->
    css_lex b = LexDone [(ty, b)].
  Proof. exact css_relex_proof. Qed.
  Print Assumptions css_relex.
End Css.
