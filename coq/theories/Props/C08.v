(* Props/C08.v — C08: the CSS parser emits a well-nested, token-conserving grammar stream.
   Statements only; each is closed by [exact] of a lemma proved under CssParse/. *)
From Verif Require Import Common.Base Common.Lx Css.Model CssParse.Model CssParse.Hash CssParse.Proofs CssParse.Trace CssParse.Conserve CssParse.Order CssParse.WellFormed.

(* parseAtRule classifies at-rules through css.ToHash: over the table generated from /repo/css/hash.go, ToHash
   never indexes out of range and returns the constant of the name for exactly the seven names of the table
   (document, font-face, keyframes, layer, media, page, supports) and 0 for every other byte string. *)
Theorem csshash_exact : forall s,
  exists h, to_hash s = Some h /\
    ((h = 0 /\ ~ In s (map fst at_names)) \/ (h <> 0 /\ In (s, h) at_names)).
Proof. exact to_hash_exact_proof. Qed.
Print Assumptions csshash_exact.

(* C01/C08: from every state reachable from NewParser, Next returns (no panic: no index outside the input, the
   state stack, the token or the buffer; the model's loop fuel is never exhausted), the state stack is never
   empty (pinv: a bottom state under the states pushed by Begin units) and the invariant is kept. *)
Theorem cssparse_total : forall p, pinv p ->
  exists g p', parse_next p = POk (g, p') /\ pinv p' /\ pst p' <> [] /\ lbuf (pl p') = lbuf (pl p).
Proof. exact cssparse_total_proof. Qed.
Print Assumptions cssparse_total.

(* C01: in both modes and for every input, a caller that keeps calling Next — also after parse errors — gets the
   end-of-input report (ErrorGrammar, no parse error pending, Err() = io.EOF) after at most 2*len+1 calls
   (each call that is not that report lowers 2*unread + stack depth + pending '}' by at least one). *)
Theorem cssparse_progress : forall d inline,
  exists k tr g p', (k <= 2 * length d)%nat /\ parse_run (S k) (new_parser d inline) = POk (tr ++ [(g, p')]) /\
    length tr = k /\ eof_report g p'.
Proof. exact cssparse_progress_proof. Qed.
Print Assumptions cssparse_progress.

(* C08/C01: the stream ends with ErrorGrammar whose Err() is io.EOF, and once it has been reported (phi = 1: nothing
   unread, nothing open, nothing pending) every further call reports it again without moving. *)
Theorem cssparse_ends_with_eof : forall p, pinv p -> phi p = 1 ->
  exists p', parse_next p = POk (GError, p') /\ eof_report GError p' /\ pinv p' /\ phi p' = 1 /\
    lpos (pl p') = lpos (pl p) /\ pst p' = pst p.
Proof. exact cssparse_eof_sticky_proof. Qed.
Print Assumptions cssparse_ends_with_eof.

(* C08: on every input and in both modes, as long as no parse error has been reported, the Begin/End stream is a
   prefix of a well-nested stream with matching kinds (nest never fails: every End closes the innermost open unit,
   which is of its kind; the depth never becomes negative), and whenever ErrorGrammar (the end-of-input report)
   is returned every Begin unit has been closed. *)
Theorem cssparse_nesting : forall d inline n tr, parse_run n (new_parser d inline) = POk tr ->
  Forall (fun r => perr (snd r) = false) tr ->
  (exists stk, nest [] (map fst tr) = Some stk) /\
  (forall tr1 g p' tr2, tr = tr1 ++ (g, p') :: tr2 -> g = GError -> nest [] (map fst tr1) = Some []).
Proof. exact cssparse_nesting_proof. Qed.
Print Assumptions cssparse_nesting.

(* C08: on every input, in both modes and for every number of calls, every token reported through data or
   Values() is (rep_tok) a token the lexer returns on the input - same type, same bytes; by lexer_tok_in_lex an
   element of css_lex d - or one of the synthesised forms: the single space, the empty token of a ruleset, the '}'
   that ended the previous unit, ErrorToken/nil, a lower-cased copy, the IE-hack token ('*' glued to the following
   lexer token), or, for a custom property, a value that is an exact slice of the source text.
   The source order of these tokens, and that none is reported twice, is cssparse_source_order below. *)
Theorem cssparse_conservation : forall d inline n tr, parse_run n (new_parser d inline) = POk tr ->
  Forall (fun r => reported_ok d (snd r)) tr.
Proof. exact cssparse_conservation_proof. Qed.
Print Assumptions cssparse_conservation.

(* C08 (source order): on every input, in both modes and for every number of calls, the tokens reported along the
   run - for every unit its data, then its Values() (Next clears the buffer first, so they are the unit's own; reported,
   Order.v) - form a chain: dropping the synthesised ones (space, empty, the '}' that
   ended the previous unit, ErrorToken/nil), each stems from an interval [a, b) of the input (src): a lexer token is
   the token the lexer returns at position a and ends at b, a lower-cased copy has the interval of its original, a
   custom-property value is exactly the bytes [a, b), and the IE-hack token spans its '*' and the token glued to it
   (the known finding conservation-iehack, stated as the exact exception S_glued); these intervals are pairwise
   disjoint and increase along the run.  So the reported source tokens are a subsequence of the lexer's tokens in
   source order and none is reported twice.  The exact exception: of an ErrorGrammar unit only Values() are taken -
   when a declaration is in error (erroneous input only) parseDeclarationError sets data to the offending token and
   also appends it to Values(), so data repeats a token of Values(); for the other ErrorGrammar units data is
   ErrorToken/nil, the empty token of a ruleset, or the name of the at-rule / custom property that is in error. *)
Theorem cssparse_source_order : forall d inline n tr, parse_run n (new_parser d inline) = POk tr ->
  chain d 0 (concat (map reported tr)) (len d).
Proof. exact cssparse_source_order_proof. Qed.
Print Assumptions cssparse_source_order.

(* ... where a lexer token of d is an element of the lexer's token list of d *)
Theorem cssparse_lexer_tok_in_lex : forall d t b, lexer_tok d t b ->
  exists toks, css_lex d = LexDone toks /\ In (t, b) toks.
Proof. exact lexer_tok_in_lex. Qed.
Print Assumptions cssparse_lexer_tok_in_lex.

(* C08: a stylesheet whose lexer token list is, in document order, a sequence of events (ev, WellFormed.v)
       EOpen:    (ws? selector-token)+ ws? '{'                                      EClose:  ws? '}'
       EDecl:    ws? ident ws? ':' (ws? value-token)+ [ws? ';']
       ECustom:  ws? custom-property-name ws? ':' raw-token* [';']
       EAtRule:  ws? at-keyword (ws? prelude-token)* [ws? ';']
       EBeginAtRule: ws? at-keyword (ws? prelude-token)* ws? '{'                    EEndAtRule:  ws? '}'
       EUTok:    a token inside the block of an unknown at-rule
       EComment: ws? comment          EToken: ws? CDO | ws? CDC          ESemi: ws? ';'  (a stray semicolon in a
                 declaration block)
   where ws? is a gap (ws_t): any sequence of Whitespace and Comment tokens inside a block, Whitespace only at the top
   level (there a comment is a unit of its own),
   that nest properly (evs_ok over the stack of open blocks - ruleset, rule block of @media / @supports / @layer /
   @keyframes / @document, declaration block of @font-face / @page, token block of any other at-rule; the kind is
   decided by the hash parseAtRule computes from the lower-cased name without vendor prefix, at_st; ToHash is total):
   declarations and custom properties inside a ruleset or a declaration block (custom properties also at the top
   level); rulesets anywhere but in a token block (nested ones inside rulesets and declaration blocks); at-rules
   anywhere but in a token block; comments, CDO and CDC at the top level; a unit written without its ';' is followed
   directly by the '}' of its block (the usual way to write the last declaration: the parser reads the '}' with
   that unit and reports the end of the block on the next call with the synthesised "}"); inside the block of an
   unknown at-rule every lexer token but comments is an event (the whitespace directly after the '{' is skipped,
   keepWS being switched on by the first call; later whitespace tokens are events; a '}' inside nested brackets is a
   token, the one at bracket level 0 ends the block); every '}' closes the innermost block; everything closed at the
   end; any depth), followed by ws?
   (ws: a Whitespace token; selector-/value-/prelude-token: any token but whitespace, comment, '{', '}', ';', with
   brackets and function parentheses balanced - toks_ok / lv_after; raw tokens include whitespace and comments, no
   ';' '}' ')' ']' at bracket level 0 - raw_ok / raw_lv; the first token of a top-level selector is none of CDO,
   CDC, at-keyword, custom-property name - sel_first; the first token of a nested selector is an identifier, a hash,
   ':', '[' or a delimiter other than '*' - nest_first)
   yields exactly one unit per event - none for a stray semicolon, which the parser skips (units) -, in order:
   - BeginRuleset with Values() = expected_sel: the selector tokens in order with a single space token exactly where
     the source has a separating gap between two tokens neither of which is a combinator  , > + ~  and that are not
     inside an attribute selector [ ]; a separating gap is one with whitespace for a top-level selector (a comment
     alone gives no space: a/**/b gives a b) and any non-empty gap for the selector of a nested ruleset, which
     parseDeclaration collects (x/**/y gives x " " y); EndRuleset;
   - Declaration with the lower-cased property name and Values() = expected_vals: the value tokens in order with a
     single space token exactly where the source has a non-empty gap - whitespace or a dropped comment - between two
     value tokens neither of which is one of the punctuation bytes  , / : ! = ; the value may be empty (b:; is a
     Declaration without values);
   - CustomProperty with the name as data and Values() = one CustomPropertyValue token whose bytes are the
     concatenation of the raw tokens, i.e. the exact source text after ':' up to the ';' or '}';
   - AtRule / BeginAtRule with the lower-cased at-keyword as data and Values() = at_buf: the prelude tokens in order
     with a single space token exactly where the source has whitespace (a comment alone gives none) before a token
     that is not ',' ':' or ')',
     does not follow ',' ':' or '(' and is not a '(' or '[' directly after the at-keyword; EndAtRule;
   - Token with the token as data for every token of an unknown at-rule block and for CDO / CDC; Comment with the
     comment as data;
   and then the end-of-input report; no parse error is reported.  Units without values have Values() = [].
   Exact exceptions (not in the grammar, because the code deviates there):
   - a nested selector that starts with '*': the IE-hack path of parseDeclarationList glues '*' to the next token
     (finding conservation-iehack);
   - declarations directly inside an at-rule that is nested in a ruleset (a{@media x{b:c}}): the block of @media ...
     is always a rule list, the declaration is a parse error (finding wellformed-nested-at-decl, pinned by the
     suite); rulesets inside such a block are in the grammar.
   - the space that a dropped comment produces between two value tokens or two tokens of a nested selector is a token
     that is not in the input (finding wellformed-comment-space); the statement says exactly where it appears.
   Nothing of a well-formed stylesheet is outside the statement except what the named findings exclude. *)
Theorem cssparse_wellformed : forall d evs w,
  css_lex d = LexDone (concat (map ev_toks evs) ++ optws w) -> evs_ok [] evs -> iscm w = false ->
  exists tr, parse_run (length (units evs) + 1) (new_parser d false) = POk tr /\
    map view tr = units evs ++ [(GError, TError, [], [])] /\ no_err tr.
Proof. exact cssparse_wellformed_proof. Qed.
Print Assumptions cssparse_wellformed.
