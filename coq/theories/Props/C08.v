(* Props/C08.v — C08: the CSS parser emits a well-nested, token-conserving grammar stream.
   Statements only; each is closed by [exact] of a lemma proved under CssParse/. *)
From Verif Require Import Common.Base Common.Lx Css.Model CssParse.Model CssParse.Hash.

(* parseAtRule classifies at-rules through css.ToHash: over the table generated from /repo/css/hash.go, ToHash
   never indexes out of range and returns the constant of the name for exactly the seven names of the table
   (document, font-face, keyframes, layer, media, page, supports) and 0 for every other byte string. *)
Theorem csshash_exact : forall s,
  exists h, to_hash s = Some h /\
    ((h = 0 /\ ~ In s (map fst at_names)) \/ (h <> 0 /\ In (s, h) at_names)).
Proof. exact to_hash_exact_proof. Qed.
Print Assumptions csshash_exact.
