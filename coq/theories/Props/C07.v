(* Props/C07.v — C07: the CSS lexer follows the CSS Syntax token grammar; IsIdent / IsURLUnquoted agree
   with it.  Also holds the CSS-lexer instances of C01 (no crash / hang / over-read) and C02 (tokens are
   faithful slices).  Statements only; each is closed by [exact] of a lemma proved under Css/. *)
From Verif Require Import Common.Base Common.Lx Css.Model Css.Proofs Css.Agree Css.Relex Css.Classes Css.Shape.

(* C01: from every state reachable between two calls, Next returns (no panic: no read outside the
   buffer data ++ [0]) and re-establishes the invariant. *)
Theorem css_total : forall z, css_inv z ->
  exists ty b z', css_next z = Some (ty, b, z') /\ css_inv z'.
Proof. exact css_total_proof. Qed.
Print Assumptions css_total.

(* C01/C02: a token other than ErrorToken is non-empty and moves the cursor forward, never past the end. *)
Theorem css_progress : forall z ty b z', css_inv z -> css_next z = Some (ty, b, z') -> ty <> TError ->
  lpos z < lpos z' <= lx_len z /\ lbuf z' = lbuf z /\ lstart z' = lpos z' /\ b <> [].
Proof. exact css_progress_proof. Qed.
Print Assumptions css_progress.

(* C01: ErrorToken is reported exactly at the end of the input, with nil data and an unchanged cursor,
   and every further call reports it again. *)
Theorem css_eof_sticky : forall z, css_inv z ->
  (lpos z = lx_len z -> css_next z = Some (TError, [], z)) /\
  (forall b z', css_next z = Some (TError, b, z') ->
     lpos z = lx_len z /\ b = [] /\ z' = z /\ css_next z' = Some (TError, [], z')).
Proof. exact css_eof_sticky_proof. Qed.
Print Assumptions css_eof_sticky.

(* C01/C02: the bytes handed to the caller are the slice of the input between the cursor offsets before and
   after the call; the offset never exceeds the input length. *)
Theorem css_no_overread : forall z ty b z', css_inv z -> css_next z = Some (ty, b, z') ->
  lpos z <= lpos z' <= lx_len z /\ b = slice (lx_data z) (lpos z) (lpos z') /\ lx_data z' = lx_data z.
Proof. exact css_no_overread_proof. Qed.
Print Assumptions css_no_overread.

(* C01: driving Next from the start reaches the end-of-input report after at most len d tokens
   (the driver's budget of len d + 1 calls is never exhausted, and no call panics). *)
Theorem css_lex_done : forall d, exists toks, css_lex d = LexDone toks /\ len toks <= len d.
Proof. exact css_lex_done_proof. Qed.
Print Assumptions css_lex_done.

(* C02: the tokens up to the end concatenate to exactly the input (nothing skipped, nothing invented; the
   lexer has no other lexical error than the end of input), every token is non-empty, and each token is the
   slice of the input that starts where its predecessors end (increasing, non-overlapping order). *)
Theorem css_tiling : forall d toks, css_lex d = LexDone toks ->
  concat (map snd toks) = d /\
  Forall (fun t => snd t <> [] /\ fst t <> TError) toks /\
  (forall pre ty b post, toks = pre ++ (ty, b) :: post ->
     b = slice d (len (concat (map snd pre))) (len (concat (map snd pre)) + len b)).
Proof. exact css_tiling_proof. Qed.
Print Assumptions css_tiling.

(* C07: IsIdent never panics, and for a non-empty argument it is true exactly when the whole argument lexes
   as one Ident or CustomPropertyName token. *)
Theorem isident_agrees : forall b,
  (exists r, is_ident b = Some r) /\
  (b <> [] ->
   (is_ident b = Some true <->
    exists ty, css_lex b = LexDone [(ty, b)] /\ (ty = TIdent \/ ty = TCustomPropertyName))).
Proof. exact isident_agrees_full. Qed.
Print Assumptions isident_agrees.

(* C07: IsURLUnquoted never panics, and it is true only if "url(" ++ b ++ ")" lexes as one URL token
   (url_open = "url("; 41 = ')'). *)
Theorem isurl_sound : forall b,
  (exists r, is_url_unquoted b = Some r) /\
  (is_url_unquoted b = Some true ->
   css_lex (url_open ++ b ++ [41]) = LexDone [(TURL, url_open ++ b ++ [41])]).
Proof. exact isurl_sound_full. Qed.
Print Assumptions isurl_sound.

(* C02: lexing the text of any single token of any input on its own yields that same token again (the lexer
   is stateless and no decision depends on bytes past the token end except to stop). *)
Theorem css_relex_idempotent : forall d toks ty b, css_lex d = LexDone toks -> In (ty, b) toks ->
  css_lex b = LexDone [(ty, b)].
Proof. exact css_relex_proof. Qed.
Print Assumptions css_relex_idempotent.

(* C07: a sequence of tokens, each written according to the railroad diagram of its class
   (tok_spec, Css/Classes.v) and followed by texts that do not merge with it (the follower condition carried by
   tok_spec: the CSS Syntax separation rules), lexes to exactly that sequence of token types and texts.
   Every token type has its constructors, each proved by a maximal-munch lemma: whitespace; colon, semicolon,
   comma, brackets, the five match operators, column, CDO, CDC; comments (closed, or cut by the end of input);
   identifiers, custom-property names, functions, at-keywords, hashes and dimension units with escapes (esc_text:
   backslash + non-hex byte, backslash + UTF-8 sequence, backslash + 1..6 hex digits + one optional whitespace (one
   byte, or CR LF; a lone CR must not be followed by LF),
   each with the follower it tolerates: fewer than six hex digits must not be followed by a hex digit, and no hex
   escape without its whitespace by whitespace); numbers, percentages and dimensions including the back-off of a
   '.' or 'e' that cannot continue the number; strings and bad strings with escapes and line continuations, and
   strings cut by the end of input; url( ) with an unquoted or quoted argument (name "url" in any case, also
   written with backslashes), closed by ")" or by the end of input; bad-url in its four shapes (forbidden byte,
   whitespace then more text, text after the string, bad string) with the remnants up to the first ")" that is
   not part of an escape; unicode-range (1..6 hex digits and "?", or two hex runs of 1..6 around "-");
   every delimiter byte with exactly the followers that leave it a delimiter ("#", "@", "+", "-", ".", "/", "<",
   the match characters, "|", backslash before a line break or the end, NUL inside the input, the rest).
   The two corner texts are covered as well: a backslash followed by a UTF-8 lead byte whose continuation bytes are
   cut by the end of the input is an escape that must be followed by nothing (Esc_rune_cut, follower at_end); the
   identifier "u"/"U" may be followed by "+" exactly when what follows the "+" is not a unicode range (range_fails:
   no or more than six hex digits/"?", or a "-" with no or more than six hex digits on either side) - the lexer
   then returns the identifier "u" alone.
   The converse is css_tokens_shaped below. *)
Theorem css_token_sequences : forall toks, seq_ok toks ->
  css_lex (concat (map snd toks)) = LexDone toks.
Proof. exact css_token_sequences_proof. Qed.
Print Assumptions css_token_sequences.

(* C07 (converse of css_token_sequences): every token the lexer returns has the shape of its type, tok_shape, a
   predicate on the token's bytes alone (tok_spec's constructor bodies without the conditions on what follows the
   token; inside the token every escape is followed by a byte it tolerates):
   Whitespace: a non-empty run of whitespace bytes; Comment: "/*", a body without "*/", and then either "*/" or
   nothing (only the last token of the input can be of the second form, by css_tiling and css_relex_idempotent);
   Colon, Semicolon, Comma, the six brackets, the five match operators, Column, CDO, CDC: exactly their bytes
   (fixed_tokens); Delim: one byte; Number: the number diagram num_text ([+-]? (digits ('.' digits)? | '.' digits)
   ([eE] [+-]? digits)?); Percentage: num_text followed by "%"; Dimension: num_text followed by an ident_text or
   custom_text (dim_shape); UnicodeRange: [uU] "+" and either 1..6 hex digits and "?" (hex digits first), or two
   runs of 1..6 hex digits around "-" (ur_shape); String: a quote, a string body (plain bytes, escapes,
   backslash-line-break continuations) and then the same quote, or nothing, or a lone backslash (the last two only
   at the end of the input) (str_shape); BadString: a quote, a string body and a line-break byte (badstr_shape);
   Ident: the name diagram ident_text (optional "-", a name-start byte or escape, then name bytes and escapes);
   CustomPropertyName: "--" and a name body (custom_text); Function: an ident_text that is not "url" followed by
   "(" (func_shape); AtKeyword: "@" and an ident_text or custom_text (at_shape); Hash: "#" and a non-empty name
   body (hash_shape); URL: a name that reads "url", "(", whitespace, then an unquoted body or a quoted string,
   whitespace, and ")" or the end of the input; BadURL: the four bad-url shapes of tok_spec (forbidden byte,
   whitespace then more text, text after the string, bad string) with the remnants up to ")" or the end of the
   input (url_like/arg_shape). The types the lexer never returns (Error, Empty, CustomPropertyValue) have shape
   False.  Nothing is missing: the statement has no side condition on the type. *)
Theorem css_tokens_shaped : forall d toks ty b, css_lex d = LexDone toks -> In (ty, b) toks -> tok_shape ty b.
Proof. exact css_tokens_shaped_proof. Qed.
Print Assumptions css_tokens_shaped.
