(* Props/C06.v — wip *)
From Verif Require Import Common.Base JsLex.Model.
