(* Props/C06.v — C06 (and the JS-lexer clauses of C01/C02): the JS lexer model of js/lex.go.
   Statements only; each is closed by [exact] of a lemma proved in JsLex/*.v.
   Everywhere: ids / idc / zs are unicode.IsOneOf(identifierStart), unicode.IsOneOf(identifierContinue)
   and unicode.Is(Zs) as arbitrary predicates on runes; s ranges over lexer states whose cursor is
   inside its input (js_wf), in particular every state reachable from js_init d. *)
From Verif Require Import Common.Base Common.Lx Gen.Tables JsLex.Model JsLex.Lemmas JsLex.Next JsLex.Proofs JsLex.Canon
  JsLex.Comment JsLex.Regexp JsLex.RegexSound JsLex.Relex JsLex.RelexNext JsLex.Exchange JsLex.Exchange3 JsLex.NumExchange JsLex.Stops JsLex.SeqRegex JsLex.SeqNext.

(* C01: Next and RegExp never panic (no read outside data ++ [0], templateLevels never sliced empty),
   no loop runs out of fuel, and the cursor stays inside [0, len] — also on the error path. *)
Theorem jslex_total :
  forall (ids idc zs : Z -> bool) (s : jst), js_wf s ->
    (exists t s', next ids idc zs s = Ok (t, s') /\ js_wf s' /\ lbuf (jcur s') = lbuf (jcur s)) /\
    (exists t s', regexp idc s = Ok (t, s') /\ js_wf s' /\ lbuf (jcur s') = lbuf (jcur s)).
Proof. exact jslex_total_proof. Qed.
Print Assumptions jslex_total.

(* C01, for whole histories: every sequence of Next / RegExp calls on every byte string succeeds,
   returns one token per call and leaves 0 <= start <= pos <= len. *)
Theorem jslex_total_run :
  forall (ids idc zs : Z -> bool) (d : list Z) (ops : list jop),
    exists ts s', jrun ids idc zs ops (js_init d) = Ok (ts, s') /\ length ts = length ops /\
      lbuf (jcur s') = d ++ [0] /\ 0 <= lstart (jcur s') <= lpos (jcur s') /\ lpos (jcur s') <= len d.
Proof. exact jslex_total_run_proof. Qed.
Print Assumptions jslex_total_run.

(* C01: a call that returns a token other than ErrorToken consumes at least one byte; a call that
   consumes nothing is either the end-of-input report or the one ErrorToken that flushes bytes kept
   from an earlier error (then start catches up with pos). *)
Theorem jslex_progress :
  forall (ids idc zs : Z -> bool) s t s', js_wf s -> next ids idc zs s = Ok (t, s') ->
    (fst t <> ErrorToken -> lpos (jcur s) < lpos (jcur s') <= lx_len (jcur s)) /\
    (lpos (jcur s) < lpos (jcur s') \/
     fst t = ErrorToken /\ lpos (jcur s') = lpos (jcur s) /\
     ((snd t = None /\ at_end (jcur s) = true /\ jerr s' = ENone) \/
      (snd t <> None /\ mark (jcur s) <> 0 /\ mark (jcur s') = 0))).
Proof. exact jslex_progress_proof. Qed.
Print Assumptions jslex_progress.

(* C01, linear bound: jmeasure = 2 * (bytes left) + (1 if bytes are pending) strictly decreases with
   every call, except for the end-of-input report (ErrorToken, nil, io.EOF, cursor unchanged). *)
Theorem jslex_progress_measure :
  forall (ids idc zs : Z -> bool) s t s', js_wf s -> next ids idc zs s = Ok (t, s') ->
    jmeasure s' < jmeasure s \/
    (t = (ErrorToken, None) /\ at_end (jcur s) = true /\ js_err s' = 1 /\ jcur s' = jcur s).
Proof. exact jslex_progress_measure_proof. Qed.
Print Assumptions jslex_progress_measure.

(* C01: at the end of the input Next returns (ErrorToken, nil) with Err() = io.EOF, does not move,
   and the state it leaves is a fixed point of Next. *)
Theorem jslex_eof_sticky :
  forall (ids idc zs : Z -> bool) s, js_wf s -> at_end (jcur s) = true ->
    exists s', next ids idc zs s = Ok ((ErrorToken, None), s') /\
      jcur s' = jcur s /\ js_err s' = 1 /\ next ids idc zs s' = Ok ((ErrorToken, None), s').
Proof. exact jslex_eof_sticky_proof. Qed.
Print Assumptions jslex_eof_sticky.

(* C01/C02: every slice handed out by Next or RegExp is data[lo:pos'] with 0 <= lo <= pos' <= len
   (never the terminator, never a byte outside the input); for Next lo is the previous start. *)
Theorem jslex_no_overread :
  forall (ids idc zs : Z -> bool) d s o ty b s',
    js_wf s -> lbuf (jcur s) = d ++ [0] -> jstep ids idc zs o s = Ok ((ty, Some b), s') ->
    exists lo, 0 <= lo <= lpos (jcur s') /\ lpos (jcur s') <= len d /\ b = slice d lo (lpos (jcur s')) /\
      lstart (jcur s') = lpos (jcur s') /\ (o = ONext -> lo = lstart (jcur s)).
Proof. exact jslex_no_overread_proof. Qed.
Print Assumptions jslex_no_overread.

(* C02 tiling, for ALL byte strings (valid UTF-8 or not) and any number of calls: the token texts
   concatenate to data[0:start]; every returned slice is non-empty; as long as no call returned the
   nil slice (the lexical errors that keep their bytes) start = pos, i.e. the tokens tile exactly
   the bytes consumed. *)
Theorem jslex_tiling :
  forall (ids idc zs : Z -> bool) d n,
    exists ts s', next_n ids idc zs n (js_init d) = Ok (ts, s') /\
      0 <= lstart (jcur s') <= lpos (jcur s') /\ lpos (jcur s') <= len d /\
      concat (map tok_bytes ts) = firstz (lstart (jcur s')) d /\
      Forall (fun t => match snd t with Some b => b <> [] | None => fst t = ErrorToken end) ts /\
      (Forall (fun t => snd t <> None) ts ->
         lstart (jcur s') = lpos (jcur s') /\ concat (map tok_bytes ts) = firstz (lpos (jcur s')) d).
Proof. exact jslex_tiling_proof. Qed.
Print Assumptions jslex_tiling.

(* C06 canonical types: a token of a keyword / punctuator / operator type (every type above 0x200
   except IdentifierToken) has exactly the text TokenType.Bytes() gives for its type (generated table
   js_token_bytes); an IdentifierToken is never the spelling of a keyword. *)
Theorem op_canonical :
  forall (ids idc zs : Z -> bool) s ty b s',
    js_wf s -> lstart (jcur s) = lpos (jcur s) ->
    next ids idc zs s = Ok ((ty, Some b), s') ->
    (is_canon ty = true -> token_bytes ty = Some b) /\
    (ty = IdentifierToken -> lookup_kw js_keywords b = None).
Proof. exact next_canonical. Qed.
Print Assumptions op_canonical.

(* the longest-match core of op_canonical: whatever bytes follow (up to 3 are inspected), the type
   consumeOperatorToken returns spells exactly the bytes it consumed *)
Theorem op_canonical_longest_match :
  forall l n ty, op l = Ok (n, ty) -> ty <> ErrorToken -> token_bytes ty = Some (firstz n l).
Proof. exact op_canonical_op. Qed.
Print Assumptions op_canonical_longest_match.

(* C02 re-lexing, for every token kind except the template continuations: if Next returns (ty, b) with
   ty not ErrorToken / TemplateMiddle / TemplateEnd — from ANY state inside any input (any
   prevLineTerminator, brace level, open templates) — then a fresh lexer on the text b alone returns
   exactly (ty, b) and then the end-of-input report.  no_trunc b: no multi-byte sequence of b is cut
   off by the end of b; every valid UTF-8 text satisfies it (relex_valid_utf8). *)
Theorem jslex_relex :
  forall (ids idc zs : Z -> bool) s ty b s',
    js_wf s -> lstart (jcur s) = lpos (jcur s) ->
    next ids idc zs s = Ok ((ty, Some b), s') ->
    ty <> ErrorToken -> ty <> TemplateMiddleToken -> ty <> TemplateEndToken -> no_trunc b = true ->
    exists s2 s3, next ids idc zs (js_init b) = Ok ((ty, Some b), s2) /\
      next ids idc zs s2 = Ok ((ErrorToken, None), s3) /\ js_err s3 = 1.
Proof. exact jslex_relex_proof. Qed.
Print Assumptions jslex_relex.

Theorem relex_valid_utf8 : forall b, valid_utf8 b -> no_trunc b = true.
Proof. exact valid_utf8_no_trunc. Qed.
Print Assumptions relex_valid_utf8.

(* C02 re-lexing, template continuations: refuted.  For both TemplateMiddle and TemplateEnd there is
   an input whose second token, lexed on its own by a fresh lexer, is not that token (known finding
   c06-relex:TemplateMiddle / c06-relex:TemplateEnd). *)
Theorem jslex_relex_template_refuted :
  forall (ids idc zs : Z -> bool) ty, ty = TemplateMiddleToken \/ ty = TemplateEndToken ->
    exists d t0 s1 t s2,
      next ids idc zs (js_init d) = Ok (t0, s1) /\ next ids idc zs s1 = Ok (t, s2) /\
      fst t = ty /\ ~ relex_same ids idc zs t.
Proof. exact jslex_relex_template_refuted_proof. Qed.
Print Assumptions jslex_relex_template_refuted.

(* C06 comment kind: a comment token returned by Next (//, <!--, -->, or /* */) is a
   CommentLineTerminatorToken exactly when its text contains a line terminator (LF, CR, U+2028,
   U+2029); has_lt is the specification "some suffix of the text starts with a line terminator". *)
Theorem comment_lt :
  forall (ids idc zs : Z -> bool) s ty b s',
    js_wf s -> lstart (jcur s) = lpos (jcur s) ->
    next ids idc zs s = Ok ((ty, Some b), s') ->
    (ty = CommentLineTerminatorToken -> has_lt b = true) /\ (ty = CommentToken -> has_lt b = false).
Proof. exact next_comment_lt. Qed.
Print Assumptions comment_lt.

(* C06 regexp re-read: for every well-formed RegularExpressionLiteral /body/flags (re_body: the
   ECMA-262 grammar at byte level, with '/' allowed inside a class and after a backslash; first
   character not '*'; flags ASCII identifier characters) placed anywhere in an input and followed by a
   byte that cannot continue the flags, Next returns '/' (or '/=' when the body starts with '=') and
   RegExp() then returns exactly the literal as one RegExpToken with the cursor right behind it. *)
Theorem regexp_reread :
  forall (ids idc zs : Z -> bool) pre body flags r0 rest0 s,
    re_body false body -> body <> [] -> hd 0 body <> 42 ->
    Forall (fun c => tab_cont c = true) flags -> tab_cont r0 = false -> r0 < 192 -> wfl (r0 :: rest0) ->
    lbuf (jcur s) = pre ++ re_lit body flags ++ r0 :: rest0 ->
    lpos (jcur s) = len pre -> lstart (jcur s) = len pre ->
    exists t1 s1 s2,
      next ids idc zs s = Ok (t1, s1) /\
      (t1 = (DivToken, Some [47]) \/ t1 = (DivEqToken, Some [47; 61])) /\
      regexp idc s1 = Ok ((RegExpToken, Some (re_lit body flags)), s2) /\
      lpos (jcur s2) = len pre + len (re_lit body flags) /\ lstart (jcur s2) = lpos (jcur s2).
Proof. exact regexp_reread_proof. Qed.
Print Assumptions regexp_reread.

(* C06 regexp re-read, converse: whatever RegExp() returns as a RegExpToken — in any state inside any
   input — is "/" body "/" flags with a well-formed body (re_body).  So a literal that is not closed
   before the end of its line or of the input (a '/' inside a class or after a backslash does not
   close it) is an ErrorToken (RegExp returns one of the two: jslex_total / regexp_good). *)
Theorem regexp_sound :
  forall (idc : Z -> bool) s b s', js_wf s ->
    regexp idc s = Ok ((RegExpToken, Some b), s') ->
    exists body flags, b = re_lit body flags /\ re_body false body.
Proof. exact regexp_sound_proof. Qed.
Print Assumptions regexp_sound.

(* C06 token sequences, for every token class of the property — punctuators / operators (all 57
   spellings), numeric literals (all radixes, separators, BigInt suffix, exponents), string literals
   (escapes, line continuations), identifiers + keywords + private identifiers (ASCII, Unicode letters,
   \u escapes, ZWNJ/ZWJ), template literals with nested substitutions to any depth (heads, middles,
   tails, braces and parentheses inside substitutions: step_state is the specification of the level
   bookkeeping), multi-line comments, the single-line comments "//", "<!--" and "-->" ended by LF, CR,
   U+2028, U+2029 or the end of input, whitespace (incl. non-ASCII spaces), line terminators (LF, CR,
   CRLF, U+2028, U+2029) and regular expression literals (item IRegex body flags: re_body as in
   regexp_reread, with '/' in classes and escaped; flags re_flags: ASCII identifier characters and
   non-ASCII ID_Continue characters; the caller calls Next, which returns '/' or — when the body starts
   with '=' — '/=', and then RegExp, which returns the literal).
   seq_exact false true 0 [] its (no numeric literal before, at the start of a line, brace level 0, no
   open template): every ITok ty T of its is a token of one of these classes (it lexes on its own to
   exactly that token: relexes; a comment text starts with "/*", "//", "<!--", or with "-->" where
   only whitespace and multi-line comments containing a line terminator separate it from the last line
   terminator or the start of input: plt_after is the specification of prevLineTerminator; a template
   continuation "}body${" / "}body`" is one whose head "`body${" / "`body`" is a TemplateStart /
   Template token and that arrives where a template is waiting at the current brace level), contains
   no truncated multi-byte sequence, no identifier directly follows a numeric literal, and what follows
   each token does not extend it — stops, the exact condition "separated wherever two adjacent tokens
   would otherwise merge":
     punctuator T (punct_stop): no punctuator of the generated token table that properly extends T is a
       prefix of T and what follows (so '-' may follow '=', but '+' may not follow '+'), except that "?."
       before a digit is no punctuator ('?' may be followed by ".5", "?." not by a digit); '.' is not
       followed by a digit (".5" is a number), '/' not by '/' or '*', '<' not by "!--", and "--" at the
       start of a line not by '>' (comment openers);
     identifier / keyword (ident_stop): the next byte is no ASCII identifier character and no '\', and
       where it is a lead byte >= 0xC0 the rune PeekRune decodes is not ID_Continue, ZWNJ or ZWJ;
     whitespace (ws_stop): the next byte is not SP, TAB, VT, FF and the rune decoded there is not
       U+00A0, U+FEFF or of category Zs;  line terminator (lt_stop): no line terminator follows;
     numeric literal: the next byte is no ASCII identifier character (a digit, letter, '_' or '$' either
       continues the literal or is forbidden after a NumericLiteral by ECMA-262 12.9.3), and '.' only
       follows a literal that it cannot continue (every literal but a plain decimal integer:
       is_dec_int), e.g. "0x1F.a", "1.5.toFixed";
     string, template, multi-line comment: closed, any follower; single-line comments run to a line
       terminator or the end of input;  regular expression flags (flag_stop): as for identifiers.
   Then the calls ops_of its return exactly the tokens toks_of its, in order, and end at the end of
   input.  (seq_ok / stop_for in SeqNext.v are the earlier sufficient conditions; seq_ok_exact shows
   that they imply these, and JsPrint/LexBack.v uses them.)
   DEVIATIONS of the lexer from ECMA-262 found while proving, outside the sequences specified here:
   finding c06-htmlclose:after-comment — the grammar (B.1.1) also makes "-->" a comment when a line
   terminator, optional whitespace and then multi-line-style comments that contain no line terminator
   precede it; the lexer (and therefore text_ok / plt_after) does not: prevLineTerminator is cleared by
   such a comment, and "-->" is then the two punctuators "--" ">".
   finding c06-numeric-follow:digit — a decimal digit directly after a numeric literal that it does
   not continue ("1n2", "0b12", "0o78") is a lexical error in the grammar (12.9.3) but two numeric
   tokens in the lexer; the condition above excludes it. *)
Theorem jslex_token_sequences :
  forall (ids idc zs : Z -> bool) (its : list item), seq_exact ids idc zs false true 0 [] its ->
    exists s', jrun ids idc zs (ops_of its) (js_init (texts its)) = Ok (toks_of its, s') /\
      at_end (jcur s') = true /\ lstart (jcur s') = lpos (jcur s').
Proof. exact jslex_token_sequences_proof. Qed.
Print Assumptions jslex_token_sequences.
