(* Props/C15.v — C15: reported line, column and context locate the offending byte.
   Statements only; each is closed by [exact] of a lemma proved under Position/. *)
From Verif Require Import Common.Base Cursor.Model Position.Model Position.Spec Position.Total Position.Proofs.

(* Position never panics and never exhausts its fuel: for every IsGraphic predicate, every byte
   string (valid UTF-8 or not) and every offset it returns a line >= 1, a column >= 1 and a context. *)
Theorem position_total :
  forall (graphic : Z -> bool) (data : list Z) (offset : Z),
    exists line col ctx, position graphic data offset = Done (line, col, ctx) /\ 1 <= line /\ 1 <= col.
Proof. exact position_total_proof. Qed.
Print Assumptions position_total.

(* Line and column.  A valid UTF-8 text is the concatenation of the encodings (RFC 3629, utf8_decode) of
   its code points cps.  Every offset 0 <= off <= len falls into exactly one unit cur of the text
   (a code point, an unsplit \r\n pair, or nothing at the very end: [located]); pre is everything before
   that unit, i.e. the code points and breaks that end at or before off.  Then
     line = 1 + number of breaks (\n, \r, \r\n, U+2028, U+2029) in pre,
     col  = 1 + number of code points of pre after its last break.
   An offset inside a multi-byte character or on the \n of \r\n resolves to that character / pair. *)
Theorem position_line_col :
  forall (graphic : Z -> bool) (cps : list cp) (off : Z),
    Forall cp_ok cps -> 0 <= off <= len (bytes cps) ->
    (exists pre cur post, located cps off pre cur post) /\
    (forall pre cur post, located cps off pre cur post ->
       exists ctx, position graphic (bytes cps) off =
                     Done (1 + breaks (runes pre), 1 + len (last_line (runes pre)), ctx)).
Proof. exact position_line_col_full. Qed.
Print Assumptions position_line_col.

(* Offsets outside the text (the quantifier includes -1 and len+1): every offset <= 0 behaves as 0 and
   every offset >= len as len — for all byte strings, not only valid UTF-8. *)
Theorem position_clamp :
  forall (graphic : Z -> bool) (data : list Z) (offset : Z),
    (offset <= 0 -> position graphic data offset = position graphic data 0) /\
    (len data <= offset -> position graphic data offset = position graphic data (len data)).
Proof. exact position_clamp_proof. Qed.
Print Assumptions position_clamp.

(* A failing reader is reported as line 1, column 1 with the context of an empty line. *)
Theorem position_reader_error :
  forall (graphic : Z -> bool) chunks e offset, e <> 0 ->
    position_reader graphic chunks e offset =
      Done (1, 1, [32; 32; 32; 32; 49; 58; 32; 10; 32; 32; 32; 32; 32; 32; 32; 94]).
Proof. exact position_reader_error_proof. Qed.
Print Assumptions position_reader_error.

(* NewErrorLexer never panics, wherever the cursor stands, and carries exactly what Position computes
   for the cursor's offset on the cursor's bytes. *)
Theorem error_lexer_carries_position :
  forall (graphic : Z -> bool) z d, buf z = d ++ [0] ->
    exists line col ctx, new_error_lexer graphic z = Done (line, col, ctx) /\
                         new_error_lexer graphic z = position graphic d (pos z).
Proof. exact new_error_lexer_total_proof. Qed.
Print Assumptions error_lexer_carries_position.
