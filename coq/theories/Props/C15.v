(* Props/C15.v — C15: reported line, column and context locate the offending byte.
   Statements only; each is closed by [exact] of a lemma proved under Position/. *)
From Verif Require Import Common.Base Cursor.Model Position.Model Position.Spec Position.Lemmas Position.Total Position.LineCol
  Position.Context Position.Caret Position.Proofs.

(* Position never panics and never exhausts its fuel: for every IsGraphic predicate, every byte
   string (valid UTF-8 or not) and every offset it returns a line >= 1, a column >= 1 and a context. *)
Theorem position_total :
  forall (graphic : Z -> bool) (data : list Z) (offset : Z),
    exists line col ctx, position graphic data offset = Done (line, col, ctx) /\ 1 <= line /\ 1 <= col.
Proof. exact position_total_proof. Qed.
Print Assumptions position_total.

(* Line and column.  A valid UTF-8 text is the concatenation of the encodings (RFC 3629, utf8_decode) of
   its code points cps.  Every offset 0 <= off <= len falls into exactly one unit cur of the text
   (a code point, an unsplit \r\n pair, or nothing at the very end: [located]); pre is everything before
   that unit, i.e. the code points and breaks that end at or before off.  Then
     line = 1 + number of breaks (\n, \r, \r\n, U+2028, U+2029) in pre,
     col  = 1 + number of code points of pre after its last break.
   An offset inside a multi-byte character or on the \n of \r\n resolves to that character / pair. *)
Theorem position_line_col :
  forall (graphic : Z -> bool) (cps : list cp) (off : Z),
    Forall cp_ok cps -> 0 <= off <= len (bytes cps) ->
    (exists pre cur post, located cps off pre cur post) /\
    (forall pre cur post pre' cur' post', located cps off pre cur post -> located cps off pre' cur' post' ->
       pre = pre' /\ cur = cur' /\ post = post') /\
    (forall pre cur post, located cps off pre cur post ->
       exists ctx, position graphic (bytes cps) off =
                     Done (1 + breaks (runes pre), 1 + len (last_line (runes pre)), ctx)).
Proof. exact position_line_col_full. Qed.
Print Assumptions position_line_col.

(* The same for an offset at which valid UTF-8 text ends, WHATEVER bytes follow (the situation of an error at
   an invalid byte): line and column are those of the valid prefix.  (A prefix ending in \r must not be
   followed by \n, which would make the offset the inside of a \r\n pair.) *)
Theorem position_line_col_prefix :
  forall (graphic : Z -> bool) (pre : list cp) (tail : list Z),
    Forall cp_ok pre -> (ends_cr (runes pre) = true -> starts_lf tail = false) ->
    exists ctx, position graphic (bytes pre ++ tail) (len (bytes pre)) =
                  Done (1 + breaks (runes pre), 1 + len (last_line (runes pre)), ctx).
Proof. exact LineCol.position_prefix_proof. Qed.
Print Assumptions position_line_col_prefix.

(* The specification function last_line is what its name says: the suffix after the last break. *)
Theorem last_line_characterised :
  forall rs, exists a, rs = a ++ last_line rs /\ forallb (fun r => negb (is_break r)) (last_line rs) = true /\
                       (a = [] \/ exists a' b, a = a' ++ [b] /\ is_break b = true).
Proof. exact (Lemmas.after_last_spec is_break). Qed.
Print Assumptions last_line_characterised.

(* Offsets outside the text (the quantifier includes -1 and len+1): every offset <= 0 behaves as 0 and
   every offset >= len as len — for all byte strings, not only valid UTF-8. *)
Theorem position_clamp :
  forall (graphic : Z -> bool) (data : list Z) (offset : Z),
    (offset <= 0 -> position graphic data offset = position graphic data 0) /\
    (len data <= offset -> position graphic data offset = position graphic data (len data)).
Proof. exact position_clamp_proof. Qed.
Print Assumptions position_clamp.

(* The caret.  The context is a first line l1 (no line feed in it), a line feed, n spaces and '^'.
   For EVERY line number (the printed width of the number is modelled exactly), in all three elision regimes
   and without elision: the character of the unit at the offset, as displayed (disp: itself if graphic, else
   U+00B7), is at printed index n of l1; when the offset is at the end of its line (on \n, \r, \r\n, U+2028,
   U+2029 or at the end of the text) the caret is just past l1. *)
Theorem context_caret :
  forall (graphic : Z -> bool) cps off pre cur post line col ctx,
    Forall cp_ok cps -> located cps off pre cur post ->
    position graphic (bytes cps) off = Done (line, col, ctx) ->
    exists l1 n, ctx = l1 ++ 10 :: repeat 32 n ++ [94] /\ ~ In 10 l1 /\ caret_under graphic cur l1 n.
Proof. exact context_caret_proof. Qed.
Print Assumptions context_caret.

(* What is shown.  The printed line is line_prefix = "%5d: ", then a window [lo,hi) of the line L the offset is
   in (whole_line: from after the last break before the offset to the next \n, \r, \r\n, U+2028, U+2029 or
   the end of the text), each character displayed as itself if graphic and as U+00B7 otherwise, with "..." in
   front iff lo > 0 and behind iff hi < len L; the window contains the column; with the ellipses it is at most
   60 characters; a line of at most 60 characters is shown in full; the caret column n is the printed index
   of the column's character. *)
Theorem context_window :
  forall (graphic : Z -> bool) cps off pre cur post line col ctx,
    Forall cp_ok cps -> located cps off pre cur post ->
    position graphic (bytes cps) off = Done (line, col, ctx) ->
    exists (front rear : bool) lo hi n,
      let L := whole_line pre cur post in
      ctx = line_prefix line ++ ellipsis front ++ map (disp graphic) (slice L lo hi) ++ ellipsis rear
              ++ [10] ++ repeat 32 n ++ [94] /\
      Z.of_nat n = len (line_prefix line) + len (ellipsis front) + (col - 1 - lo) /\
      0 <= lo <= col - 1 /\ col - 1 <= hi <= len L /\ (col - 1 < len L -> col - 1 < hi) /\
      (front = true <-> 0 < lo) /\ (rear = true <-> hi < len L) /\
      len (ellipsis front) + (hi - lo) + len (ellipsis rear) <= 60 /\
      (len L <= 60 -> lo = 0 /\ hi = len L).
Proof. exact context_window_proof. Qed.
Print Assumptions context_window.

(* "A context made of that line": a line of at most 60 characters — delimited exactly by the terminators
   Position counts (\n, \r, \r\n, U+2028, U+2029) or the ends of the text — is printed exactly and in full,
   the caret under column col. *)
Theorem context_whole_line :
  forall (graphic : Z -> bool) cps off pre cur post line col ctx,
    Forall cp_ok cps -> located cps off pre cur post ->
    position graphic (bytes cps) off = Done (line, col, ctx) ->
    len (whole_line pre cur post) <= 60 ->
    ctx = line_prefix line ++ map (disp graphic) (whole_line pre cur post)
            ++ [10] ++ repeat 32 (Z.to_nat (len (line_prefix line) + (col - 1))) ++ [94].
Proof. exact context_whole_line_proof. Qed.
Print Assumptions context_whole_line.

(* For all byte strings and offsets: between "%5d: " and the end of the first line there are at most 60
   characters (ellipses included), and every shown character is graphic or U+00B7. *)
Theorem context_length :
  forall (graphic : Z -> bool) data off line col ctx,
    position graphic data off = Done (line, col, ctx) ->
    exists (front rear : bool) body n,
      ctx = line_prefix line ++ ellipsis front ++ body ++ ellipsis rear ++ [10] ++ repeat 32 n ++ [94] /\
      len (ellipsis front ++ body ++ ellipsis rear) <= 60 /\
      Forall (fun r => graphic r = true \/ r = 183) body.
Proof. exact context_length_proof. Qed.
Print Assumptions context_length.

(* A failing reader is reported as line 1, column 1 with the context of an empty line. *)
Theorem position_reader_error :
  forall (graphic : Z -> bool) chunks e offset, e <> 0 ->
    position_reader graphic chunks e offset =
      Done (1, 1, [32; 32; 32; 32; 49; 58; 32; 10; 32; 32; 32; 32; 32; 32; 32; 94]).
Proof. exact position_reader_error_proof. Qed.
Print Assumptions position_reader_error.

(* NewErrorLexer never panics, wherever the cursor stands, and carries exactly what Position computes
   for the cursor's offset on the cursor's bytes. *)
Theorem error_lexer_carries_position :
  forall (graphic : Z -> bool) z d, buf z = d ++ [0] ->
    exists line col ctx, new_error_lexer graphic z = Done (line, col, ctx) /\
                         new_error_lexer graphic z = position graphic d (pos z).
Proof. exact new_error_lexer_total_proof. Qed.
Print Assumptions error_lexer_carries_position.

(* The position carried by an error made from a cursor is the position of a byte inside the input (the
   terminator position len included): the cursor's own offset when it is inside, the nearest end otherwise. *)
Theorem error_offset_in_input :
  forall (graphic : Z -> bool) z d, buf z = d ++ [0] ->
    exists k, 0 <= k <= len d /\ new_error_lexer graphic z = position graphic d k /\
              (0 <= pos z <= len d -> k = pos z).
Proof. exact error_offset_in_input_proof. Qed.
Print Assumptions error_offset_in_input.

(* ---- error offsets of the modelled parsers (theorems of their own models, collected here) ---------------- *)
From Verif Require Common.Lx Json.Model Json.Lex Json.Spec Json.Proofs Json.Trace Json.Accept Json.Rejects Xml.Model Xml.Step Xml.Proofs.

Module JsonErrors.
  Import Verif.Common.Lx Verif.Json.Model Verif.Json.Lex Verif.Json.Spec Verif.Json.Proofs Verif.Json.Trace Verif.Json.Accept Verif.Json.Rejects.
  (* every parse error the JSON parser records has 0 <= offset <= len d and is the cursor offset at which the call stopped *)
  Theorem json_error_offset_in_input :
    forall d n tr, trace n (json_init d) = Some tr -> errs_ok d None tr.
  Proof. exact json_error_offset_range_proof. Qed.
  Print Assumptions json_error_offset_in_input.
  (* a byte that cannot start a token is reported at exactly its offset, in every context (any stack, any needComma):
     this is the "single illegal character inserted between two tokens" clause for JSON, per call *)
  Theorem json_error_at_illegal_byte :
    forall p a tok lead c r nd state,
      cur3 (pz p) a tok (lead ++ c :: r) -> lead_ok p lead nd -> top (pst p) = Some state -> prd p = 0 ->
      illegal_start c ->
      rejected_at p (len a + len tok + len lead).
  Proof. exact error_at_illegal_byte_proof. Qed.
  Print Assumptions json_error_at_illegal_byte.
End JsonErrors.

Module XmlErrors.
  Import Verif.Common.Lx Verif.Xml.Model Verif.Xml.Step Verif.Xml.Proofs.
  (* the XML lexer's only parse error (embedded NUL) is reported at exactly the offset of the first NUL *)
  Theorem xml_error_offset_is_first_nul :
    forall d p, 0 <= p < len d -> getz d p = 0 -> (forall i, 0 <= i < p -> getz d i <> 0) ->
      (forall s, reach d s -> lpos (xr s) <= p) /\
      (forall s tok s', reach d s -> next s = Some (TError, tok, s') -> lpos (xr s') = p /\ xml_err s' = 2) /\
      (exists n s tok s', (n <= Z.to_nat p)%nat /\ after n (xml_init d) = Some s /\ next s = Some (TError, tok, s')).
  Proof. exact xml_nul_is_error_proof. Qed.
  Print Assumptions xml_error_offset_is_first_nul.
End XmlErrors.
