(* Props/C15.v — C15: reported line, column and context locate the offending byte.
   Statements only; each is closed by [exact] of a lemma proved under Position/. *)
From Verif Require Import Common.Base Cursor.Model Position.Model Position.Total Position.Proofs.

(* Position never panics and never exhausts its fuel: for every IsGraphic predicate, every byte
   string (valid UTF-8 or not) and every offset it returns a line >= 1, a column >= 1 and a context. *)
Theorem position_total :
  forall (graphic : Z -> bool) (data : list Z) (offset : Z),
    exists line col ctx, position graphic data offset = Done (line, col, ctx) /\ 1 <= line /\ 1 <= col.
Proof. exact position_total_proof. Qed.
Print Assumptions position_total.

(* A failing reader is reported as line 1, column 1 with the context of an empty line. *)
Theorem position_reader_error :
  forall (graphic : Z -> bool) chunks e offset, e <> 0 ->
    position_reader graphic chunks e offset =
      Done (1, 1, [32; 32; 32; 32; 49; 58; 32; 10; 32; 32; 32; 32; 32; 32; 32; 94]).
Proof. exact position_reader_error_proof. Qed.
Print Assumptions position_reader_error.

(* NewErrorLexer never panics, wherever the cursor stands, and carries exactly what Position computes
   for the cursor's offset on the cursor's bytes. *)
Theorem error_lexer_carries_position :
  forall (graphic : Z -> bool) z d, buf z = d ++ [0] ->
    exists line col ctx, new_error_lexer graphic z = Done (line, col, ctx) /\
                         new_error_lexer graphic z = position graphic d (pos z).
Proof. exact new_error_lexer_total_proof. Qed.
Print Assumptions error_lexer_carries_position.
