(* Props/C01.v — C01: no input crashes, hangs or over-reads any lexer, parser or AST method.
   Statements only.  This file collects the C01 clauses that are theorems; see props.d/C01.json for the
   clauses that are search only (panics inside js.Parse beyond the recursion skeleton). *)
From Coq Require Import List Arith.
From Verif Require Common.Lx Css.Model Css.Proofs CssParse.Model CssParse.Proofs CssParse.Trace.
From Verif Require Import Common.Base Depth.Model Depth.Proofs Depth.Instance Gen.CallGraph JsJson.Model JsJson.Proofs.

(* Generic: in a call graph whose unguarded part is acyclic (rank certificate) every call stack that respects the
   guards' counters has at most  (sum of (limit+1)) * (maxrank+2) + maxrank+1  frames. *)
Theorem depth_bounded :
  forall (es : graph) (g : list (option nat)) (limits rank : list nat),
    rank_ok es g rank = true -> guards_in_range g limits = true ->
    forall st, chain es st -> respected g limits st -> (length st <= depth_bound limits rank)%nat.
Proof. exact depth_bounded_proof. Qed.
Print Assumptions depth_bounded.

(* Instance on the call graph of /repo/js/parse.go extracted on this run (Gen/CallGraph.v): no fatal stack
   exhaustion however deeply the input nests. Fails to check when a recursive cycle of the parser does not pass
   through a nesting guard (as parseBinding and parseAsyncExpression did before their fixes). *)
Theorem js_parser_depth_bounded :
  forall st, chain cg_edges st -> respected cg_guard cg_limits st -> (length st <= js_bound)%nat.
Proof. exact js_parser_depth_bounded_proof. Qed.
Print Assumptions js_parser_depth_bounded.

(* UnaryExpr.JSON returns normally for every operator and operand. *)
Theorem unaryexpr_json_total :
  forall neg nt dec int op x,
    (forall ty data, x = Some (ty, data) -> ty = int -> data <> []) ->
    exists r, unary_json neg nt dec int op x = Some r.
Proof. exact unaryexpr_json_total_proof. Qed.
Print Assumptions unaryexpr_json_total.

(* ---- the streaming consumers: totality (no panic: every read outside data ++ [0] is None/Panic in the models),
   progress / linear number of calls, sticky end report, no over-read.  One module per consumer, because the
   models share names (run, next, ...).  Each statement is the one proved in the consumer's own Props file. ---- *)
From Verif Require Common.Lx Cursor.Model Cursor.Proofs.
From Verif Require Xml.Model Xml.Step Xml.Proofs.
From Verif Require Json.Model Json.Spec Json.Proofs Json.Trace Json.Sticky Json.Stuck Json.Congr.
From Verif Require Gen.Tables Html.Model Html.ListLemmas Html.Safety Html.Step Html.Proofs.
From Verif Require JsLex.Model JsLex.Lemmas JsLex.Next JsLex.Proofs.

Module Cursor.
  Import Verif.Cursor.Model Verif.Cursor.Proofs.
  (* PeekRune never panics and never reports a length past the end, any byte string, any position *)
  Theorem cursor_peekrune_total :
    forall f z d i, buf z = d ++ [0] -> 0 <= pos z + i <= len d ->
      exists r n, peek_rune f z i = Some (r, n) /\ 1 <= n <= 4 /\
                  (pos z + i + n <= len d \/ (n = 1 /\ pos z + i = len d)).
  Proof. exact peekrune_total_proof. Qed.
  Print Assumptions cursor_peekrune_total.
End Cursor.

Module Xml.
  Import Verif.Common.Lx Verif.Xml.Model Verif.Xml.Step Verif.Xml.Proofs.
  Theorem xml_total :
    forall d n, exists tr, run n (xml_init d) = Some tr /\ length tr = n.
  Proof. exact xml_total_proof. Qed.
  Print Assumptions xml_total.
  (* the terminal report is reached within len d token calls *)
  Theorem xml_terminates :
    forall d, exists n s tok s',
      (n <= length d)%nat /\ after n (xml_init d) = Some s /\ next s = Some (TError, tok, s').
  Proof. exact xml_terminates_proof. Qed.
  Print Assumptions xml_terminates.
  Theorem xml_no_overread :
    forall d s ty tok s', reach d s -> next s = Some (ty, tok, s') ->
      sl_in tok 0 (len d) /\ sl_in (xtext s') 0 (len d) /\ sl_in (xattr s') 0 (len d) /\
      0 <= lpos (xr s') <= len d.
  Proof. exact xml_no_overread_proof. Qed.
  Print Assumptions xml_no_overread.
End Xml.

Module Json.
  Import Verif.Common.Lx Verif.Json.Model Verif.Json.Spec Verif.Json.Proofs Verif.Json.Trace Verif.Json.Sticky Verif.Json.Stuck Verif.Json.Congr.
  Theorem json_total :
    forall d n, exists tr, trace n (json_init d) = Some tr /\ length tr = n /\
      Forall (fun up => exists s, state (snd up) = Some s /\ 0 <= s <= 3) tr.
  Proof. exact json_total_proof. Qed.
  Print Assumptions json_total.
  (* among the first 2*len+2 calls there is a terminal report (an ErrorGrammar call that every further call repeats) *)
  Theorem json_terminal_within :
    forall d tr, trace (Z.to_nat (2 * len d + 2)) (json_init d) = Some tr ->
      exists pre u p1 post, tr = pre ++ (u, p1) :: post /\ idle (last_parser (json_init d) pre) u p1.
  Proof. exact terminal_within_proof. Qed.
  Print Assumptions json_terminal_within.
  (* once io.EOF has been reported every further call reports it again, state unchanged *)
  Theorem json_eof_sticky :
    forall d p p1 n, json_inv d p -> next p = Some ((G_Error, None), p1) -> err_kind p1 = 1 ->
      exists tr, trace n p1 = Some tr /\ length tr = n /\
        Forall (fun up => fst up = (G_Error, None) /\ err_kind (snd up) = 1 /\ pst (snd up) = pst p1 /\
                          pneed (snd up) = pneed p1 /\ lpos (pz (snd up)) = lpos (pz p1)) tr.
  Proof. exact json_eof_sticky_proof. Qed.
  Print Assumptions json_eof_sticky.
End Json.

Module Html.
  Import Verif.Common.Lx Verif.Gen.Tables Verif.Html.Model Verif.Html.ListLemmas Verif.Html.Safety Verif.Html.Step Verif.Html.Proofs.
  (* with or without template delimiters (cfg_ok: the delimiters contain no NUL; true of the six predefined pairs) *)
  Theorem html_total :
    forall c d n, cfg_ok c -> exists tr, run c n (new_lexer d) = Ok tr /\ length tr = n.
  Proof. exact html_total_proof. Qed.
  Print Assumptions html_total.
  Theorem html_progress_eof :
    forall c d n tr, cfg_ok c -> run c n (new_lexer d) = Ok tr -> (length d < n)%nat ->
      exists k l', (k <= length d)%nat /\ nth_error tr k = Some (ErrorT, None, l') /\ lpos (lz l') = len d.
  Proof. exact html_progress_eof_proof. Qed.
  Print Assumptions html_progress_eof.
  Theorem html_eof_sticky :
    forall c d l n, cfg_ok c -> html_inv d l -> lpos (lz l) = len d ->
      exists tr, run c n l = Ok tr /\ length tr = n /\
        Forall (fun r => fst (fst r) = ErrorT /\ snd (fst r) = None /\ lpos (lz (snd r)) = len d /\
                         err_kind (snd r) = err_kind l) tr.
  Proof. exact html_eof_sticky_proof. Qed.
  Print Assumptions html_eof_sticky.
  Theorem html_no_overread :
    forall c d n, cfg_ok c -> exists tr, run c n (new_lexer d) = Ok tr /\ Forall (no_overread_at d) tr.
  Proof. exact html_no_overread_proof. Qed.
  Print Assumptions html_no_overread.
End Html.

Module JsLex.
  Import Verif.Common.Lx Verif.Gen.Tables Verif.JsLex.Model Verif.JsLex.Lemmas Verif.JsLex.Next Verif.JsLex.Proofs.
  (* every history of Next / RegExp calls on every byte string succeeds (no panic, no endless loop) and the cursor
     stays inside the input; ids/idc/zs are the Unicode classes as arbitrary predicates *)
  Theorem jslex_total_run :
    forall (ids idc zs : Z -> bool) (d : list Z) (ops : list jop),
      exists ts s', jrun ids idc zs ops (js_init d) = Ok (ts, s') /\ length ts = length ops /\
        lbuf (jcur s') = d ++ [0] /\ 0 <= lstart (jcur s') <= lpos (jcur s') /\ lpos (jcur s') <= len d.
  Proof. exact jslex_total_run_proof. Qed.
  Print Assumptions jslex_total_run.
  (* a measure bounded by 2*len+1 strictly decreases with every call that is not the end-of-input report *)
  Theorem jslex_progress_measure :
    forall (ids idc zs : Z -> bool) s t s', js_wf s -> next ids idc zs s = Ok (t, s') ->
      jmeasure s' < jmeasure s \/
      (t = (ErrorToken, None) /\ at_end (jcur s) = true /\ js_err s' = 1 /\ jcur s' = jcur s).
  Proof. exact jslex_progress_measure_proof. Qed.
  Print Assumptions jslex_progress_measure.
  Theorem jslex_eof_sticky :
    forall (ids idc zs : Z -> bool) s, js_wf s -> at_end (jcur s) = true ->
      exists s', next ids idc zs s = Ok ((ErrorToken, None), s') /\
        jcur s' = jcur s /\ js_err s' = 1 /\ next ids idc zs s' = Ok ((ErrorToken, None), s').
  Proof. exact jslex_eof_sticky_proof. Qed.
  Print Assumptions jslex_eof_sticky.
  Theorem jslex_no_overread :
    forall (ids idc zs : Z -> bool) d s o ty b s',
      js_wf s -> lbuf (jcur s) = d ++ [0] -> jstep ids idc zs o s = Ok ((ty, Some b), s') ->
      exists lo, 0 <= lo <= lpos (jcur s') /\ lpos (jcur s') <= len d /\ b = slice d lo (lpos (jcur s')) /\
        lstart (jcur s') = lpos (jcur s') /\ (o = ONext -> lo = lstart (jcur s)).
  Proof. exact jslex_no_overread_proof. Qed.
  Print Assumptions jslex_no_overread.
End JsLex.

Module Css.
  Import Verif.Common.Lx Verif.Css.Model Verif.Css.Proofs.
  (* css lexer: from every reachable state Next returns (no read outside data ++ [0]) and keeps the invariant *)
  Theorem css_total : forall z, css_inv z ->
    exists ty b z', css_next z = Some (ty, b, z') /\ css_inv z'.
  Proof. exact css_total_proof. Qed.
  Print Assumptions css_total.
  (* driving Next from the start reaches the end-of-input report after at most len d tokens *)
  Theorem css_lex_done : forall d, exists toks, css_lex d = LexDone toks /\ len toks <= len d.
  Proof. exact css_lex_done_proof. Qed.
  Print Assumptions css_lex_done.
  (* the end report is given exactly at the end of the input and repeated on every further call *)
  Theorem css_eof_sticky : forall z, css_inv z ->
    (lpos z = lx_len z -> css_next z = Some (TError, [], z)) /\
    (forall b z', css_next z = Some (TError, b, z') ->
       lpos z = lx_len z /\ b = [] /\ z' = z /\ css_next z' = Some (TError, [], z')).
  Proof. exact css_eof_sticky_proof. Qed.
  Print Assumptions css_eof_sticky.
  (* no byte handed to the caller lies outside the input *)
  Theorem css_no_overread : forall z ty b z', css_inv z -> css_next z = Some (ty, b, z') ->
    lpos z <= lpos z' <= lx_len z /\ b = slice (lx_data z) (lpos z) (lpos z') /\ lx_data z' = lx_data z.
  Proof. exact css_no_overread_proof. Qed.
  Print Assumptions css_no_overread.
End Css.

Module CssParse.
  Import Verif.Common.Lx Verif.Css.Model Verif.CssParse.Model Verif.CssParse.Proofs Verif.CssParse.Trace.
  (* css parser, stylesheet and inline mode: Next returns from every reachable state (no index outside the input, the
     state stack, the token or the buffer; the state stack is never empty) *)
  Theorem cssparse_total : forall p, pinv p ->
    exists g p', parse_next p = POk (g, p') /\ pinv p' /\ pst p' <> [] /\ lbuf (pl p') = lbuf (pl p).
  Proof. exact cssparse_total_proof. Qed.
  Print Assumptions cssparse_total.
  (* a caller that keeps calling Next, also after parse errors, gets the end-of-input report within 2*len+1 calls *)
  Theorem cssparse_progress : forall d inline,
    exists k tr g p', (k <= 2 * length d)%nat /\ parse_run (S k) (new_parser d inline) = POk (tr ++ [(g, p')]) /\
      length tr = k /\ eof_report g p'.
  Proof. exact cssparse_progress_proof. Qed.
  Print Assumptions cssparse_progress.
  (* once the end has been reported every further call reports it again without moving *)
  Theorem cssparse_eof_sticky : forall p, pinv p -> phi p = 1 ->
    exists p', parse_next p = POk (GError, p') /\ eof_report GError p' /\ pinv p' /\ phi p' = 1 /\
      lpos (pl p') = lpos (pl p) /\ pst p' = pst p.
  Proof. exact cssparse_eof_sticky_proof. Qed.
  Print Assumptions cssparse_eof_sticky.
End CssParse.
