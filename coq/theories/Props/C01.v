(* Props/C01.v — C01: no input crashes, hangs or over-reads any lexer, parser or AST method.
   Statements only.  This file collects the C01 clauses that are theorems; see props.d/C01.json for the
   clauses that are search only (panics inside js.Parse beyond the recursion skeleton). *)
From Coq Require Import List Arith.
From Verif Require Import Common.Base Depth.Model Depth.Proofs Depth.Instance Gen.CallGraph JsJson.Model JsJson.Proofs.

(* Generic: in a call graph whose unguarded part is acyclic (rank certificate) every call stack that respects the
   guards' counters has at most  (sum of (limit+1)) * (maxrank+2) + maxrank+1  frames. *)
Theorem depth_bounded :
  forall (es : graph) (g : list (option nat)) (limits rank : list nat),
    rank_ok es g rank = true -> guards_in_range g limits = true ->
    forall st, chain es st -> respected g limits st -> (length st <= depth_bound limits rank)%nat.
Proof. exact depth_bounded_proof. Qed.
Print Assumptions depth_bounded.

(* Instance on the call graph of /repo/js/parse.go extracted on this run (Gen/CallGraph.v): no fatal stack
   exhaustion however deeply the input nests. Fails to check when a recursive cycle of the parser does not pass
   through a nesting guard (as parseBinding and parseAsyncExpression did before their fixes). *)
Theorem js_parser_depth_bounded :
  forall st, chain cg_edges st -> respected cg_guard cg_limits st -> (length st <= js_bound)%nat.
Proof. exact js_parser_depth_bounded_proof. Qed.
Print Assumptions js_parser_depth_bounded.

(* UnaryExpr.JSON returns normally for every operator and operand. *)
Theorem unaryexpr_json_total :
  forall neg nt dec int op x,
    (forall ty data, x = Some (ty, data) -> ty = int -> data <> []) ->
    exists r, unary_json neg nt dec int op x = Some r.
Proof. exact unaryexpr_json_total_proof. Qed.
Print Assumptions unaryexpr_json_total.
