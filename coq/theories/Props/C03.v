(* Props/C03.v — C03: js.Parse builds the tree the ECMAScript grammar prescribes; rejects bad code.
   Statements only; each is closed by [exact] of a lemma proved in JsExpr/*.v.

   Model: JsExpr/Pratt.v ([parse inf prec ts], the driver loop of parseExpression / parseExpressionSuffix /
   parseArguments / parseParenthesizedExpression) over the operator rows of Gen/PrattTable.v, which translator T3
   regenerates from js/parse.go on every run.  Specification: JsExpr/Grammar.v ([derives inf N ts t], the productions
   of ECMA-262 clause 13 for the operator fragment; inf is the [In] parameter).  All theorems quantify over all
   token lists / trees; tokens are (type, preceded-by-line-terminator, bytes) as Parser.next() delivers them. *)
From Verif Require Import Common.Base Gen.PrattTable JsExpr.Syntax JsExpr.Pratt JsExpr.Grammar
  JsExpr.Equiv JsExpr.Balance JsExpr.Proofs JsExpr.Stmts JsExpr.StmtModel JsExpr.Stmts2.

(* ---- the generated operator table ----------------------------------------------------------------------------------- *)

(* The table T3 reads off parseExpressionSuffix / parseExpression equals the table computed from the standard's
   productions (every arm: the level at which it applies, the level it demands of its left operand, the level at
   which its right operand is parsed, the level it records). *)
Theorem table_matches_standard : pratt_rows_of_code = pratt_rows_of_ecma262.
Proof. exact table_matches_standard_proof. Qed.
Print Assumptions table_matches_standard.

(* ---- completeness: every grammatical spelling yields the prescribed tree -------------------------------------------------- *)

(* Every derivation of an Expression (minimal or redundant parentheses, any line breaks the grammar allows) is parsed
   to exactly its tree. *)
Theorem pratt_complete :
  forall inf ts t, derives inf Expression ts t -> parse inf prec_OpExpr ts = Ok (t, []).
Proof. exact pratt_complete_proof. Qed.
Print Assumptions pratt_complete.

(* ---- soundness: what is accepted is grammatical, with the grammar's tree ------------------------------------------------------- *)

(* Whatever the model accepts is a derivation of the returned tree from exactly the accepted token list. *)
Theorem pratt_sound :
  forall inf ts t, parse inf prec_OpExpr ts = Ok (t, []) -> derives inf Expression ts t.
Proof. exact pratt_sound_proof. Qed.
Print Assumptions pratt_sound.

(* ---- the listed rejections, for arbitrary operands ------------------------------------------------------------------------------ *)

(* `u x ** anything` is rejected for every unary operator u (delete void typeof + - ~ !) and every UnaryExpression x.
   (`++x ** y` and `--x ** y` are UpdateExpression ** ..., grammatical, and covered by pratt_complete.) *)
Theorem reject_unary_exp :
  forall inf u o xs x e rest,
    In (ty u, o) unary_prods ->
    derives inf Unary xs x -> ty e = tt_ExpToken ->
    parse inf prec_OpExpr (u :: xs ++ e :: rest) = Fail.
Proof. exact reject_unary_exp_proof. Qed.
Print Assumptions reject_unary_exp.

(* `x ?? y || anything`, `x ?? y && anything`, `x || y ?? anything`, `x && y ?? anything` are rejected. *)
Theorem reject_mixed_coalesce :
  forall inf xs x q ys y o rest,
    derives inf BitOR xs x -> derives inf BitOR ys y ->
    ty q = tt_NullishToken -> ty o = tt_OrToken \/ ty o = tt_AndToken ->
    parse inf prec_OpExpr (xs ++ q :: ys ++ o :: rest) = Fail /\
    parse inf prec_OpExpr (xs ++ o :: ys ++ q :: rest) = Fail.
Proof. exact reject_mixed_coalesce_proof. Qed.
Print Assumptions reject_mixed_coalesce.

(* `x op y = anything` is rejected for every binary production (other than assignment itself) and every assignment operator. *)
Theorem reject_assign_to_binary :
  forall inf a l ops r xs x k ys y e rest,
    In (a, l, ops, r) binary_prods -> a <> Assignment -> In (ty k) ops ->
    derives inf l xs x -> derives inf r ys y ->
    In (ty e) assign_ops ->
    parse inf prec_OpExpr (xs ++ k :: ys ++ e :: rest) = Fail.
Proof. exact reject_assign_to_binary_proof. Qed.
Print Assumptions reject_assign_to_binary.

(* `( Expression , )` is rejected unless `=>` follows (then it is an arrow head, outside the fragment), whatever else follows:
   the trailing comma of the arrow cover grammar does not make a ParenthesizedExpression. *)
Theorem reject_paren_trailing_comma :
  forall inf ko xs x km kc rest,
    ty ko = tt_OpenParenToken -> derives true Expression xs x ->
    ty km = tt_CommaToken -> ty kc = tt_CloseParenToken ->
    (forall a r, rest = a :: r -> ty a <> tt_ArrowToken) ->
    parse inf prec_OpExpr (ko :: xs ++ km :: kc :: rest) = Fail.
Proof. exact reject_paren_trailing_comma_proof. Qed.
Print Assumptions reject_paren_trailing_comma.

(* One ( ) [ or ] added anywhere to an accepted token list (read the other way: deleted from one) is never accepted. *)
Theorem reject_unbalanced :
  forall inf a b k t, In (ty k) brackets -> parse inf prec_OpExpr (a ++ b) = Ok (t, []) ->
    forall t', parse inf prec_OpExpr (a ++ k :: b) <> Ok (t', []).
Proof. exact reject_unbalanced_proof. Qed.
Print Assumptions reject_unbalanced.

(* ---- statements: where an ExpressionStatement ends (parseModule / parseStmt, JsExpr/Stmts.v) ---------------------------------- *)

(* ExpressionStatement : [lookahead ∉ { {, function, async function, class, let [ }] Expression ;
   One grammatical expression given as a whole program is parsed to the single ExprStmt with exactly its tree.  Of the
   lookahead set only `let [` can start an expression of the fragment; [let_decl_start] is that restriction (`let`
   followed by '[' — or by an identifier, yield, await, '{', after which no expression continues anyway). *)
Theorem program_of_expression :
  forall ts t, derives true Expression ts t -> let_decl_start ts = false -> parse_program ts = Ok [SExpr t].
Proof. exact program_of_expression_full_proof. Qed.
Print Assumptions program_of_expression.

(* The statement ends at a ';' whether or not a line break precedes it (the second case was repaired by 5e610dc) and
   the ';' is consumed ... *)
Theorem stmt_ends_at_semicolon :
  forall m xs x k rest, derives true Expression xs x -> let_decl_start (xs ++ k :: rest) = false ->
    ty k = tt_SemicolonToken ->
    parse_stmt (S m) (xs ++ k :: rest) = Ok (SExpr x, rest).
Proof. exact stmt_ends_at_semicolon_proof. Qed.
Print Assumptions stmt_ends_at_semicolon.

(* ... at a line break, when the next token cannot continue the expression ([ncont]: it has no arm in the suffix loop, or
   it is a ++ / -- , which a line break separates from its operand) — automatic semicolon insertion, nothing is consumed ... *)
Theorem stmt_ends_at_line_break :
  forall m xs x c rest, derives true Expression xs x -> let_decl_start (xs ++ c :: rest) = false ->
    lt c = true -> Spec.ncont true prec_OpExpr (c :: rest) = true ->
    ty c <> tt_SemicolonToken -> ty c <> tt_ColonToken ->
    parse_stmt (S m) (xs ++ c :: rest) = Ok (SExpr x, c :: rest).
Proof. exact stmt_ends_at_line_break_proof. Qed.
Print Assumptions stmt_ends_at_line_break.

(* ... and at the end of the input. *)
Theorem stmt_ends_at_eof :
  forall m xs x, derives true Expression xs x -> let_decl_start xs = false -> parse_stmt (S m) xs = Ok (SExpr x, []).
Proof. exact stmt_ends_at_eof_proof. Qed.
Print Assumptions stmt_ends_at_eof.

(* Nowhere else: a token on the same line that cannot continue the expression and is neither ';' nor '}' is an error. *)
Theorem stmt_needs_terminator :
  forall m xs x c rest, derives true Expression xs x -> let_decl_start (xs ++ c :: rest) = false ->
    lt c = false -> Spec.ncont true prec_OpExpr (c :: rest) = true ->
    ty c <> tt_SemicolonToken -> ty c <> tt_CloseBraceToken -> ty c <> tt_ColonToken ->
    parse_stmt (S m) (xs ++ c :: rest) = Fail.
Proof. exact stmt_needs_terminator_proof. Qed.
Print Assumptions stmt_needs_terminator.

(* Whole programs: every statement list of expression statements, empty statements and labelled statements ([prog] /
   [one]: each ExpressionStatement ended by ';' on any line, by a line break before a token that cannot continue it, or by
   the end of the input) is parsed to exactly that list.  Missing: an EmptyStatement or LabelledStatement directly
   followed by a ';' on the same line (`;;`, `l: x;;` — the code drops that EmptyStatement, KNOWN_FINDINGS
   c03-tree:empty-statement-same-line; [one] leaves that shape out), and every other statement kind (searched by the
   generator oracle). *)
Theorem program_of_statements_partial : forall ts l, prog ts l -> parse_program ts = Ok l.
Proof. exact program_of_statements_proof. Qed.
Print Assumptions program_of_statements_partial.

(* The statement fragment (JsExpr/StmtModel.v: a second model, of the statement forms of parseStmt that wrap parseExpression,
   tied to js.Parse by its own correspondence run; JsExpr/Stmts2.v).  INSIDE ([xprog] / [xone] / [xlist] / [xvars] / [finit] /
   [fopt]: the productions with their trees): expression statements, empty statements, labelled statements, blocks,
   if / else, while, do-while, for ( [Expression | var ...] ; [Expression] ; [Expression] ) Statement with the In flag off in
   the initialiser (the body is stored as a block), throw (no line break after the keyword), break / continue with an
   optional label on the same line, var declarations with identifier bindings and AssignmentExpression initialisers,
   debugger, with ( Expression ) Statement, try Block with catch [ ( identifier ) ] Block and / or finally Block,
   switch ( Expression ) { case Expression : StatementList ... default : StatementList ... } with at most one default,
   let / const declarations with identifier bindings (const: every binding initialised; only in statement lists, not as the
   body of if / while / do / for / with).
   Terminators: an ExpressionStatement, throw, break / continue, var / let / const or debugger statement ends at ';' on any line, or — automatic
   semicolon insertion — at a line break before a token that cannot continue it, at the '}' of its block or at the end of
   the input; do-while takes its ';' on any line or none.  Every such program is parsed, with Options.WhileToFor off, to
   exactly the statement list the grammar prescribes.
   PARTIAL, MISSING: (1) a statement that ';' does not terminate (block, if, while, for, with, try, switch, labelled, empty) directly followed
   by a ';' on the same line (`{};`, `if(a)b;;`, `;;`): the code drops that EmptyStatement (KNOWN_FINDINGS
   c03-tree:empty-statement-same-line), so [xone] leaves the shape out — the only gap inside the listed forms.
   OUTSIDE the fragment (searched by the generator oracle, not proved): for-in / for-of / for await, return and
   function / class declarations and expressions, import / export, binding patterns
   (destructuring, also as catch parameter), yield / await as names; an expression statement that begins with the
   identifier `let` directly followed by an identifier, yield, await, '[' or '{' token (only possible as the body of
   if / while / do / for / with: `while(a) let <newline> b`): the model follows parseStmt there (`let [` is an error,
   otherwise the identifier `let`, which must end before that token) and the correspondence run covers it, [xone] leaves it out.
   Instance: Stmts2.v x_example_derivable (a twelve-statement program mixing the forms, its derivation) and x_example (its tree). *)
Theorem program_of_statement_fragment_partial :
  forall ts l, xprog ts l -> parse_xprogram false ts = Ok l.
Proof. exact program_of_statement_fragment_proof. Qed.
Print Assumptions program_of_statement_fragment_partial.

(* The same with Options.WhileToFor on: the tree is the prescribed one with every while statement rewritten to
   `for ( ; cond ; ) { body }` ([tw true]: the option's documented effect). *)
Theorem program_of_statement_fragment_whiletofor_partial :
  forall ts l, xprog ts l -> parse_xprogram true ts = Ok (map (tw true) l).
Proof. exact program_of_statement_fragment_w2f_proof. Qed.
Print Assumptions program_of_statement_fragment_whiletofor_partial.

(* ---- the grammar relation ------------------------------------------------------------------------------------------------------------- *)

(* Grammar.v hands the [In] parameter to every operand; for ShiftExpression and tighter nonterminals (which have no such
   parameter in the standard) it is vacuous. *)
Theorem in_parameter_vacuous :
  forall inf inf' n ts t, tight n = true -> derives inf n ts t -> derives inf' n ts t.
Proof. exact derives_in_vacuous. Qed.
Print Assumptions in_parameter_vacuous.

(* ---- totality ----------------------------------------------------------------------------------------------------------------------- *)

(* The fuel of the model never runs out: no theorem above holds because of the out-of-fuel value. *)
Theorem parse_never_out_of_fuel : forall inf prec ts, parse inf prec ts <> NoFuel.
Proof. exact JsExpr.Fuel.parse_has_fuel. Qed.
Print Assumptions parse_never_out_of_fuel.
