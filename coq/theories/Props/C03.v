(* Props/C03.v — C03: js.Parse builds the tree the ECMAScript grammar prescribes; rejects bad code.
   Statements only; each is closed by [exact] of a lemma proved in JsExpr/*.v. *)
From Verif Require Import Common.Base Gen.PrattTable JsExpr.Syntax JsExpr.Pratt JsExpr.Grammar JsExpr.Proofs.

(* The operator table that translator T3 reads off parseExpressionSuffix / parseExpression equals the table
   computed from the productions of the standard (Grammar.v), except for ONE parameter: after a prefix ++/--
   the code records level Unary where the standard's UpdateExpression : ++ UnaryExpression gives Update.
   Missing for the full clause: that parameter (see table_matches_standard_refuted). *)
Theorem table_matches_standard_partial : pratt_rows_of_code = std_rows Unary.
Proof. exact table_matches_standard_partial_proof. Qed.
Print Assumptions table_matches_standard_partial.

(* The code's table is NOT the standard's table (witness: the row of the prefix ++ arm). *)
Theorem table_matches_standard_refuted : pratt_rows_of_code <> pratt_rows_of_ecma262.
Proof. exact table_matches_standard_refuted_proof. Qed.
Print Assumptions table_matches_standard_refuted.

Theorem reject_unary_exp_small :
  forall u a b e, In (ty u) [tt_SubToken; tt_AddToken; tt_NotToken; tt_BitNotToken; tt_TypeofToken; tt_VoidToken; tt_DeleteToken; tt_IncrToken; tt_DecrToken] ->
    is_ident_tok a -> is_ident_tok b -> ty e = tt_ExpToken ->
    parse_all [u; a; e; b] = Fail.
Proof. exact reject_unary_exp_small_proof. Qed.
Print Assumptions reject_unary_exp_small.

Theorem reject_mixed_coalesce_small :
  forall a b c q o, is_ident_tok a -> is_ident_tok b -> is_ident_tok c -> ty q = tt_NullishToken ->
    In (ty o) [tt_OrToken; tt_AndToken] ->
    parse_all [a; q; b; o; c] = Fail /\ parse_all [a; o; b; q; c] = Fail.
Proof. exact reject_mixed_coalesce_small_proof. Qed.
Print Assumptions reject_mixed_coalesce_small.

Theorem reject_assign_to_binary_small :
  forall a b c o e, is_ident_tok a -> is_ident_tok b -> is_ident_tok c ->
    In (ty o) binary_op_tokens -> In (ty e) assign_ops ->
    parse_all [a; o; b; e; c] = Fail.
Proof. exact reject_assign_to_binary_small_proof. Qed.
Print Assumptions reject_assign_to_binary_small.
