(* Props/C16.v — C16: Number/Dimension/URL/data-URI/media-type helpers, folds and the css/html
   hash tables match their definitions.  Statements only; each is closed by [exact] of a lemma
   proved under Helpers/. *)
From Verif Require Import Common.Base Helpers.Model Helpers.Proofs.
From Verif Require Gen.Tables.

(* IsWhitespace / IsNewline (the generated tables) are exactly space, \t, \n, \f, \r and \n, \r. *)
Theorem whitespace_tables_spec :
  forall c, is_byte c -> is_whitespace c = Some (ws_ref c) /\ is_newline c = Some (nl_ref c).
Proof. exact whitespace_tables_spec_proof. Qed.
Print Assumptions whitespace_tables_spec.

(* ToLower keeps the length and maps A-Z to a-z, every other byte to itself. *)
Theorem tolower_spec :
  forall b, len (to_lower b) = len b /\
    forall i c, peekz b i = Some c ->
      peekz (to_lower b) i = Some (if (65 <=? c) && (c <=? 90) then c + 32 else c).
Proof. exact to_lower_spec_proof. Qed.
Print Assumptions tolower_spec.

(* Both generated tables are perfect: every Hash constant has a non-empty text and ToHash maps
   that text back to the constant (finite: 7 css and 10 html constants, re-checked on every run
   against the tables dumped from /repo). *)
Theorem hash_tables_perfect :
  (forall h, In h Tables.css_hash_consts ->
     h <> 0 /\ css_hash_bytes h <> [] /\ css_to_hash (css_hash_bytes h) = Some h) /\
  (forall h, In h Tables.html_hash_consts ->
     h <> 0 /\ html_hash_bytes h <> [] /\ html_to_hash (html_hash_bytes h) = Some h).
Proof. exact hash_tables_perfect_proof. Qed.
Print Assumptions hash_tables_perfect.
