(* Props/C16.v — C16: Number/Dimension/URL/data-URI/media-type helpers, folds and the css/html
   hash tables match their definitions.  Statements only; each is closed by [exact] of a lemma
   proved under Helpers/.  The models are in Helpers/Model.v (a Go panic is None / Panic), the
   reference definitions (is_number, is_unit, encode_ref, unescape, trim_ref, fold_eq, ...) next to
   the proofs.  [is_byte c] is 0 <= c < 256. *)
From Verif Require Import Common.Base Helpers.Model Helpers.Lists Helpers.Proofs Helpers.NumberProofs
  Helpers.UrlProofs Helpers.HashProofs Helpers.Base64Proofs Helpers.DataURIProofs Helpers.MediatypeProofs.
From Verif Require Gen.Tables.

(* ---- Number, Dimension -------------------------------------------------------------------------- *)
(* Number returns the length of the LONGEST prefix that is a number of the documented grammar
   (+|-)?([0-9]+(\.[0-9]+)?|\.[0-9]+)((e|E)(+|-)?[0-9]+)?, and 0 exactly when no non-empty prefix is. *)
Theorem number_longest_prefix :
  forall b n, number b = Some n ->
    0 <= n <= len b /\
    (0 < n -> is_number (firstz n b)) /\
    (forall m, n < m <= len b -> ~ is_number (firstz m b)) /\
    (n = 0 <-> forall m, 0 < m <= len b -> ~ is_number (firstz m b)).
Proof. exact number_longest_prefix_proof. Qed.
Print Assumptions number_longest_prefix.

(* Dimension: the number as above and the length of the longest following unit ('%' or [a-zA-Z]+);
   no unit without a number. *)
Theorem dimension_spec :
  forall b n u, dimension b = Some (n, u) ->
    number b = Some n /\ 0 <= u /\ n + u <= len b /\
    (n = 0 -> u = 0) /\
    (0 < u -> is_unit (slice b n (n + u))) /\
    (0 < n -> forall m, u < m -> n + m <= len b -> ~ is_unit (slice b n (n + m))).
Proof. exact dimension_spec_proof. Qed.
Print Assumptions dimension_spec.

Theorem no_panic_number : forall b, exists n, number b = Some n.
Proof. exact number_no_panic_proof. Qed.
Print Assumptions no_panic_number.

Theorem no_panic_dimension : forall b, exists n u, dimension b = Some (n, u).
Proof. exact dimension_no_panic_proof. Qed.
Print Assumptions no_panic_dimension.

(* ---- EncodeURL / DecodeURL ------------------------------------------------------------------------- *)
(* EncodeURL escapes exactly the bytes its table marks (%HH, upper-case hex), for ANY 256-entry
   table that does not mark a hex digit the function itself writes for a marked byte (EncodeURL
   re-reads the digits it has just written); it neither panics nor runs out of fuel. *)
Theorem encode_exact :
  forall t b, table256 t -> enc_stable t -> Forall is_byte b -> encode_url b t = Ok (encode_ref t b).
Proof. exact encode_exact_proof. Qed.
Print Assumptions encode_exact.

(* both tables of /repo (as generated on this run) satisfy the side condition *)
Theorem encode_exact_repo_tables :
  forall b, Forall is_byte b ->
    encode_url b Tables.url_encoding_table = Ok (encode_ref Tables.url_encoding_table b) /\
    encode_url b Tables.datauri_encoding_table = Ok (encode_ref Tables.datauri_encoding_table b).
Proof. exact UrlProofs.encode_exact_repo_tables. Qed.
Print Assumptions encode_exact_repo_tables.

(* without the side condition the clause is false: with a table that marks '4', EncodeURL("4")
   never terminates (the model runs out of any amount of fuel) *)
Theorem encode_any_table_refuted :
  exists t b, table256 t /\ Forall is_byte b /\ forall fuel, encode_loop fuel t b 0 = OutOfFuel.
Proof. exact encode_any_table_refuted_proof. Qed.
Print Assumptions encode_any_table_refuted.

(* DecodeURL is the left-to-right unescape (what url.QueryUnescape computes where it succeeds),
   for every byte string; it never panics. *)
Theorem decode_spec : forall b, decode_url b = Ok (unescape b).
Proof. exact decode_spec_proof. Qed.
Print Assumptions decode_spec.

(* ... and it equals QueryUnescape wherever that succeeds, QueryUnescape being the reference
   "every '%' is followed by two hex digits, else error" (the real net/url function is compared by
   the Go oracle). *)
Theorem decode_agrees_queryunescape :
  forall b r, query_unescape b = Some r -> decode_url b = Ok r.
Proof. exact decode_agrees_queryunescape_proof. Qed.
Print Assumptions decode_agrees_queryunescape.

(* DecodeURL inverts EncodeURL with the standard URL table (which marks '%' and '+': a fact about
   the generated table). *)
Theorem decode_encode_url :
  forall b, Forall is_byte b ->
    exists r, encode_url b Tables.url_encoding_table = Ok r /\ decode_url r = Ok b.
Proof. exact decode_encode_url_proof. Qed.
Print Assumptions decode_encode_url.

(* ... and for any table with these properties *)
Theorem decode_encode_any_table :
  forall t b r, table256 t -> enc_stable t -> tbl t 37 = Some true -> tbl t 43 = Some true ->
    Forall is_byte b -> encode_url b t = Ok r -> decode_url r = Ok b.
Proof. exact decode_encode_proof. Qed.
Print Assumptions decode_encode_any_table.

(* DecodeURL is the query-string decoder ('+' is a space, as url.QueryUnescape): with a table that
   leaves '+' alone, such as DataURIEncodingTable, everything but '+' comes back.  (DataURI does not
   use it: see pct_decode_encode.) *)
Theorem decode_encode_datauri_table :
  forall b, Forall is_byte b ->
    exists r, encode_url b Tables.datauri_encoding_table = Ok r /\ decode_url r = Ok (map plus_to_space b).
Proof. exact decode_encode_datauri_table_proof. Qed.
Print Assumptions decode_encode_datauri_table.

(* DecodeURL never returns more bytes than it was given *)
Theorem decode_not_longer : forall b r, decode_url b = Ok r -> len r <= len b.
Proof. exact decode_not_longer_proof. Qed.
Print Assumptions decode_not_longer.

(* decodeURL(b, false), the decoder DataURI uses since /repo 52357eb: percent-decoding only, '+' kept *)
Theorem pct_decode_spec : forall b, decode_url_gen false b = Ok (pct_unescape b).
Proof. exact pct_decode_spec_proof. Qed.
Print Assumptions pct_decode_spec.

(* ... it inverts EncodeURL for ANY table that marks '%' (and on which EncodeURL terminates);
   the condition is exact: a table that leaves '%' alone does not round-trip "%41" *)
Theorem pct_decode_encode :
  forall t b r, table256 t -> enc_stable t -> tbl t 37 = Some true -> Forall is_byte b ->
    encode_url b t = Ok r -> decode_url_gen false r = Ok b.
Proof. exact pct_decode_encode_proof. Qed.
Print Assumptions pct_decode_encode.

Theorem pct_needs_percent_marked :
  forall t, table256 t -> tbl t 37 = Some false -> tbl t 52 = Some false -> tbl t 49 = Some false ->
    encode_ref t [37; 52; 49] = [37; 52; 49] /\ pct_unescape [37; 52; 49] = [65].
Proof. exact UrlProofs.pct_needs_percent_marked. Qed.
Print Assumptions pct_needs_percent_marked.

Theorem no_panic_url :
  forall b, Forall is_byte b ->
    (exists r, encode_url b Tables.url_encoding_table = Ok r) /\
    (exists r, encode_url b Tables.datauri_encoding_table = Ok r) /\
    (exists r, decode_url b = Ok r).
Proof. exact no_panic_url_proof. Qed.
Print Assumptions no_panic_url.

(* ---- DataURI ------------------------------------------------------------------------------------------- *)
(* The model of base64.StdEncoding.Decode inverts the RFC 4648 encoder on arbitrary bytes. *)
Theorem base64_roundtrip : forall d, Forall is_byte d -> b64_decode (b64_encode d) = Some d.
Proof. exact b64_roundtrip_proof. Qed.
Print Assumptions base64_roundtrip.

(* EVERY media type  type/subtype *( ";" name "=" value )  -- names and values are arbitrary bytes
   other than = ; , without surrounding whitespace, so they may read "base64" -- and EVERY byte
   string d: DataURI of "data:" mt ";base64," base64(d) and of "data:" mt "," pct(d) returns exactly
   (mt, d), where pct is the percent-encoding under ANY table that marks '%' (nothing else is
   needed: DataURI decodes only %XY, and everything behind the first comma is payload).
   Stated for ANY base64 decoder that inverts its encoder (Section variable, no axiom). *)
Theorem datauri_mediatype_roundtrip :
  forall (b64dec : list Z -> option (list Z)) (b64enc : list Z -> list Z),
    (forall d, Forall is_byte d -> b64dec (b64enc d) = Some d) ->
    forall ty ps d t, plain ty -> In 47 ty -> tight ty -> Forall param_ok ps -> Forall is_byte d ->
      let mt := media_type ty ps in
      data_uri b64dec (data_scheme ++ mt ++ 59 :: base64_bytes ++ 44 :: b64enc d) = Ok (DOk mt d) /\
      (tbl t 37 = Some true ->
       data_uri b64dec (data_scheme ++ mt ++ 44 :: encode_ref t d) = Ok (DOk mt d)).
Proof. exact datauri_mediatype_roundtrip_proof. Qed.
Print Assumptions datauri_mediatype_roundtrip.

(* text/plain when the media type is absent *)
Theorem datauri_no_mediatype :
  forall (b64dec : list Z -> option (list Z)) (b64enc : list Z -> list Z),
    (forall d, Forall is_byte d -> b64dec (b64enc d) = Some d) ->
    forall d t, Forall is_byte d ->
      data_uri b64dec (data_scheme ++ 59 :: base64_bytes ++ 44 :: b64enc d) = Ok (DOk text_mime d) /\
      (tbl t 37 = Some true -> data_uri b64dec (data_scheme ++ 44 :: encode_ref t d) = Ok (DOk text_mime d)).
Proof. exact datauri_no_mediatype_proof. Qed.
Print Assumptions datauri_no_mediatype.

(* The general form behind both: any header p ++ last where p is a list of segments with ';' / '='
   delimiters (params, which threads the previous delimiter) and last a final segment; a segment
   reading "base64" is allowed wherever it is a parameter name (in front of '=') or value (behind
   '='); whitespace around segments is trimmed away; an empty header or one starting with ';' gives
   text/plain (mt_default). *)
Theorem datauri_roundtrip :
  forall (b64dec : list Z -> option (list Z)) (b64enc : list Z -> list Z),
    (forall d, Forall is_byte d -> b64dec (b64enc d) = Some d) ->
    forall p np pv last d t, params 0 p np pv -> plain last -> (pv <> 61 -> trim_ref last <> base64_bytes) -> Forall is_byte d ->
      let mt := mt_default (np ++ trim_ref last) in
      data_uri b64dec (data_scheme ++ (p ++ last) ++ 59 :: base64_bytes ++ 44 :: b64enc d) = Ok (DOk mt d) /\
      (tbl t 37 = Some true ->
       data_uri b64dec (data_scheme ++ (p ++ last) ++ 44 :: encode_ref t d) = Ok (DOk mt d)).
Proof. exact datauri_roundtrip_proof. Qed.
Print Assumptions datauri_roundtrip.

(* the instance that runs in the correspondence check: the executable base64 model, the model of
   EncodeURL itself and BOTH generated tables (DataURIEncodingTable leaves '+' alone; it comes back) *)
Theorem datauri_roundtrip_std :
  forall ty ps d, plain ty -> In 47 ty -> tight ty -> Forall param_ok ps -> Forall is_byte d ->
    let mt := media_type ty ps in
    data_uri b64_decode (data_scheme ++ mt ++ 59 :: base64_bytes ++ 44 :: b64_encode d) = Ok (DOk mt d) /\
    (forall r, encode_url d Tables.datauri_encoding_table = Ok r -> data_uri b64_decode (data_scheme ++ mt ++ 44 :: r) = Ok (DOk mt d)) /\
    (forall r, encode_url d Tables.url_encoding_table = Ok r -> data_uri b64_decode (data_scheme ++ mt ++ 44 :: r) = Ok (DOk mt d)).
Proof. exact datauri_roundtrip_std_proof. Qed.
Print Assumptions datauri_roundtrip_std.

(* DataURI never panics on arbitrary bytes (whatever the base64 decoder does), and it returns
   ErrBadDataURI exactly when the argument is not "data:" followed by something containing a comma;
   otherwise the result is a payload or the base64 decoder's error. *)
Theorem datauri_bad_iff :
  forall b64dec b, Forall is_byte b ->
    exists r, data_uri b64dec b = Ok r /\
      (r = DBad <-> ~ (5 < len b /\ firstz 5 b = data_scheme /\ In 44 (skipz 5 b))).
Proof. exact datauri_total_proof. Qed.
Print Assumptions datauri_bad_iff.

Theorem no_panic_datauri :
  forall b64dec b, Forall is_byte b -> exists r, data_uri b64dec b = Ok r.
Proof. exact no_panic_datauri_proof. Qed.
Print Assumptions no_panic_datauri.

(* ---- Mediatype ----------------------------------------------------------------------------------------- *)
(* For all inputs: no panic, the fuel of the PARAM loop is never exhausted, the mimetype is the
   sub-slice [off, off+mlen) behind the leading spaces, a non-nil map has at least one entry and
   every key and value is a sub-slice of the argument.  (Agreement with mime.ParseMediaType on
   well-formed unquoted values is checked by the Go oracle only.) *)
Theorem mediatype_agrees_partial :
  forall b, exists off mlen ps,
    mediatype b = Ok (off, mlen, ps) /\
    off = run is_sp b /\ 0 <= mlen /\ off + mlen <= len b /\
    match ps with
    | None => True
    | Some l => l <> [] /\ Forall (kv_ok (skipz off b)) l
    end.
Proof. exact mediatype_no_panic_proof. Qed.
Print Assumptions mediatype_agrees_partial.

Theorem no_panic_mediatype : forall b, exists r, mediatype b = Ok r.
Proof. exact no_panic_mediatype_proof. Qed.
Print Assumptions no_panic_mediatype.

(* On well-formed unquoted values without optional spaces -- a mimetype of at least three bytes
   without ';' and ' ', then n >= 1 parameters ";key=value" whose keys and values contain none of
   ; = space -- Mediatype returns the mimetype and exactly these pairs (most recent first). *)
Theorem mediatype_wellformed :
  forall ty kv ps, 3 <= len ty -> Forall (fun c => c <> 59 /\ c <> 32) ty -> Forall kv_token (kv :: ps) ->
    mediatype (ty ++ render (kv :: ps)) = Ok (0, len ty, Some (rev (kv :: ps))).
Proof. exact mediatype_wellformed_proof. Qed.
Print Assumptions mediatype_wellformed.

(* The same with optional spaces, i.e. the grammar of well-formed unquoted values that mime accepts:
   OWS type *( OWS ";" OWS key "=" value ) OWS with non-empty values.  The result is the mimetype
   behind the leading spaces and exactly the (key, value) pairs. *)
Theorem mediatype_wellformed_ows :
  forall sp0 ty sp1 p ps,
    spaces sp0 -> 3 <= len ty -> Forall (fun c => c <> 59 /\ c <> 32) ty -> spaces sp1 -> Forall wp_ok (p :: ps) ->
    mediatype (sp0 ++ ty ++ sp1 ++ render_ows (p :: ps)) = Ok (len sp0, len ty, Some (rev (map wp_kv (p :: ps)))).
Proof. exact mediatype_wellformed_ows_proof. Qed.
Print Assumptions mediatype_wellformed_ows.

(* ---- hash tables -------------------------------------------------------------------------------------- *)
(* Both generated tables are perfect: every Hash constant has a non-empty text and ToHash maps
   that text back to the constant (finite: 7 css and 10 html constants, re-checked on every run
   against the tables dumped from /repo). *)
Theorem hash_tables_perfect :
  (forall h, In h Tables.css_hash_consts ->
     h <> 0 /\ css_hash_bytes h <> [] /\ css_to_hash (css_hash_bytes h) = Some h) /\
  (forall h, In h Tables.html_hash_consts ->
     h <> 0 /\ html_hash_bytes h <> [] /\ html_to_hash (html_hash_bytes h) = Some h).
Proof. exact hash_tables_perfect_proof. Qed.
Print Assumptions hash_tables_perfect.

(* For EVERY byte string and ANY table contents (uint32 entries; hashing is mod 2^32 in the model):
   a non-zero result is a table entry whose text (Hash.Bytes) is the argument.  So a string that
   is not the text of an entry gives 0. *)
Theorem tohash_sound :
  forall text table hash0 maxlen, Forall is_u32 table ->
    forall s h, to_hash text table hash0 maxlen s = Some h -> h <> 0 ->
      In h table /\ hash_bytes text h = s /\ 0 < len s <= maxlen.
Proof. exact tohash_sound_proof. Qed.
Print Assumptions tohash_sound.

(* On the generated tables ToHash never panics, and a non-zero result is a declared constant. *)
Theorem no_panic_tohash :
  (forall s, exists h, css_to_hash s = Some h /\
     (h <> 0 -> In h Tables.css_hash_consts /\ css_hash_bytes h = s)) /\
  (forall s, exists h, html_to_hash s = Some h /\
     (h <> 0 -> In h Tables.html_hash_consts /\ html_hash_bytes h = s)).
Proof. exact tohash_generated_proof. Qed.
Print Assumptions no_panic_tohash.

(* ---- folds, trims, tables -------------------------------------------------------------------------------- *)
(* IsWhitespace / IsNewline (the generated tables) are exactly space, \t, \n, \f, \r and \n, \r. *)
Theorem whitespace_tables_spec :
  forall c, is_byte c -> is_whitespace c = Some (ws_ref c) /\ is_newline c = Some (nl_ref c).
Proof. exact whitespace_tables_spec_proof. Qed.
Print Assumptions whitespace_tables_spec.

(* ToLower keeps the length and maps A-Z to a-z, every other byte to itself. *)
Theorem tolower_spec :
  forall b, len (to_lower b) = len b /\
    forall i c, peekz b i = Some c ->
      peekz (to_lower b) i = Some (if (65 <=? c) && (c <=? 90) then c + 32 else c).
Proof. exact to_lower_spec_proof. Qed.
Print Assumptions tolower_spec.

(* EqualFold(s, target) is true iff the lengths agree and every byte of s equals the target byte
   or is an upper-case letter whose lower-case form is the target byte; for a target without
   upper-case letters (the documented precondition) that is ToLower(s) = target. *)
Theorem equalfold_spec :
  forall s t, exists r, equal_fold s t = Some r /\ (r = true <-> Forall2 fold_eq s t).
Proof. exact equalfold_spec_proof. Qed.
Print Assumptions equalfold_spec.

Theorem equalfold_lower_spec :
  forall s t, Forall (fun c => ~ (65 <= c <= 90)) t ->
    exists r, equal_fold s t = Some r /\ (r = true <-> to_lower s = t).
Proof. exact equalfold_lower_spec_proof. Qed.
Print Assumptions equalfold_lower_spec.

(* TrimWhitespace returns the sub-slice that is the argument without its leading and trailing
   whitespace (trim_ref = rev . drop_ws . rev . drop_ws; characterised by trim_ref_char). *)
Theorem trim_spec :
  forall b, Forall is_byte b ->
    exists lo hi, trim_whitespace b = Some (lo, hi) /\ 0 <= lo <= hi /\ hi <= len b /\
                  slice b lo hi = trim_ref b.
Proof. exact trim_spec_proof. Qed.
Print Assumptions trim_spec.

Theorem trim_ref_is_the_trim :
  forall b, exists pre post, b = pre ++ trim_ref b ++ post /\ Forall ws pre /\ Forall ws post /\
    (forall c t, trim_ref b = c :: t -> ~ ws c) /\ (forall t c, trim_ref b = t ++ [c] -> ~ ws c).
Proof. exact trim_ref_char. Qed.
Print Assumptions trim_ref_is_the_trim.

(* IsAllWhitespace *)
Theorem allws_spec :
  forall b, Forall is_byte b -> exists r, all_ws b = Some r /\ (r = true <-> Forall ws b).
Proof. exact allws_spec_proof. Qed.
Print Assumptions allws_spec.

Theorem no_panic_util :
  forall s t, Forall is_byte s ->
    (exists r, equal_fold s t = Some r) /\
    (exists lo hi, trim_whitespace s = Some (lo, hi)) /\
    (exists r, all_ws s = Some r) /\
    (forall c, is_byte c -> exists w n, is_whitespace c = Some w /\ is_newline c = Some n).
Proof. exact no_panic_util_proof. Qed.
Print Assumptions no_panic_util.
