(* Props/C10.v — C10: the JSON parser (json/parse.go).
   Statements only; each is closed by [exact] of a lemma proved in coq/theories/Json/. *)
From Verif Require Import Common.Base Common.Lx Json.Model Json.Lex Json.Spec Json.Grammar Json.Proofs Json.Trace
  Json.GrammarProofs Json.AcceptLex Json.Accept Json.Sticky Json.Rejects Json.Stuck Json.Congr Json.Tokens.

(* MAIN THEOREM.  Every document of the RFC 8259 grammar (Json/Grammar.v: whitespace explicit at the six
   structural positions; all escape and number forms) is parsed to the end of the input without a parse
   error (Err() is io.EOF, all containers closed: State() is ValueState), and re-joining the units with ':' after keys and ',' between units as State()
   indicates yields the document without insignificant whitespace.  No bound on size or nesting. *)
Theorem json_accepts_valid :
  forall d, value d ->
    exists units final, drive (S (length d)) (json_init d) = Done units final /\
                        err_kind final = 1 /\ state final = Some S_Value /\ rejoin units = strip_ws d.
Proof. exact json_accepts_valid_proof. Qed.
Print Assumptions json_accepts_valid.

(* The executable recogniser valid_b (the function diffed against encoding/json.Valid on every run) accepts
   exactly the documents of the inductive grammar. *)
Theorem json_grammar_valid_b :
  forall d, valid_b d = true <-> value d.
Proof. exact valid_b_value_proof. Qed.
Print Assumptions json_grammar_valid_b.

(* No call of Next or State() panics, for every byte string and any number of calls (also after errors):
   the trace of n calls exists, and State() is defined (the state stack is never empty) after each call. *)
Theorem json_total :
  forall d n, exists tr, trace n (json_init d) = Some tr /\ length tr = n /\
    Forall (fun up => exists s, state (snd up) = Some s /\ 0 <= s <= 3) tr.
Proof. exact json_total_proof. Qed.
Print Assumptions json_total.

(* the same behind an io.Reader that failed *)
Theorem json_total_failed_reader :
  forall e n, exists tr, trace n (json_init_failed e) = Some tr /\ length tr = n /\
    Forall (fun up => exists s, state (snd up) = Some s /\ 0 <= s <= 3) tr.
Proof. exact json_total_failed_reader_proof. Qed.
Print Assumptions json_total_failed_reader.

(* json_inv (the hypothesis of the per-call theorems below) holds of every state reachable by calling Next *)
Theorem json_inv_reachable :
  forall d n tr, trace n (json_init d) = Some tr ->
    json_inv d (json_init d) /\ Forall (fun up => json_inv d (snd up)) tr.
Proof. exact json_inv_reachable_proof. Qed.
Print Assumptions json_inv_reachable.

(* Every call either reports ErrorGrammar or moves the cursor forward by at least one byte; the cursor
   never moves back and never leaves the input. *)
Theorem json_progress :
  forall d p u p', json_inv d p -> next p = Some (u, p') ->
    (fst u = G_Error \/ lpos (pz p) < lpos (pz p')) /\ lpos (pz p) <= lpos (pz p') <= len d.
Proof. exact json_progress_proof. Qed.
Print Assumptions json_progress.

(* hence, however long Next is called (also after errors), at most len d calls return a unit *)
Theorem json_calls_linear :
  forall d n tr, trace n (json_init d) = Some tr -> count_units tr <= len d.
Proof. exact json_calls_linear_proof. Qed.
Print Assumptions json_calls_linear.

(* Every unit is a non-empty contiguous piece of the input lying between the cursor offsets before and
   after its call: units come in increasing, non-overlapping order. *)
Theorem json_units_are_slices :
  forall d n tr, trace n (json_init d) = Some tr -> slices_ok d 0 tr.
Proof. exact json_units_are_slices_proof. Qed.
Print Assumptions json_units_are_slices.

(* Every recorded parse error has 0 <= offset <= len d, is recorded only by a call that returns
   ErrorGrammar, and its offset is the cursor offset at which that call stopped. *)
Theorem json_error_offset_range :
  forall d n tr, trace n (json_init d) = Some tr -> errs_ok d None tr.
Proof. exact json_error_offset_range_proof. Qed.
Print Assumptions json_error_offset_range.

(* ALL byte strings, any number of calls: the Start/End units form a prefix of a Dyck word with matching
   kinds (the independent bracket machine never meets an End for an unopened or differently-typed
   container), and State() describes the innermost open container. *)
Theorem json_nesting :
  forall d n tr, trace n (json_init d) = Some tr ->
    exists stk s, dyck [] (grammars tr) = Some stk /\
                  state (last_parser (json_init d) tr) = Some s /\ describes stk s.
Proof. exact json_nesting_proof. Qed.
Print Assumptions json_nesting.

(* Exactly: the whole state stack (hence State()) after any sequence of calls on any byte string is the
   documented state machine st_run applied to the GrammarTypes returned so far; in particular the machine
   never gets stuck (no End without its own Start, no scalar in key position). *)
Theorem json_state_machine :
  forall d n tr, trace n (json_init d) = Some tr ->
    st_run [S_Value] (grammars tr) = Some (pst (last_parser (json_init d) tr)).
Proof. exact json_state_machine_proof. Qed.
Print Assumptions json_state_machine.

(* ObjectValueState is entered exactly by returning a key (a String unit in ObjectKeyState). *)
Theorem json_key_state :
  forall d p u p', json_inv d p -> next p = Some (u, p') -> fst u <> G_Error ->
    (state p' = Some S_ObjectValue <-> fst u = G_String /\ state p = Some S_ObjectKey).
Proof. exact json_key_state_proof. Qed.
Print Assumptions json_key_state.

(* json_error_sticky, end-of-input clause (full strength, after fix 01dbc08): once Next has returned
   ErrorGrammar with Err() = io.EOF, every further call returns ErrorGrammar with Err() = io.EOF, and the
   state stack, needComma and the offset are unchanged. *)
Theorem json_error_sticky :
  forall d p p1 n, json_inv d p -> next p = Some ((G_Error, None), p1) -> err_kind p1 = 1 ->
    exists tr, trace n p1 = Some tr /\ length tr = n /\
      Forall (fun up => fst up = (G_Error, None) /\ err_kind (snd up) = 1 /\ pst (snd up) = pst p1 /\
                        pneed (snd up) = pneed p1 /\ lpos (pz (snd up)) = lpos (pz p1)) tr.
Proof. exact json_eof_sticky_proof. Qed.
Print Assumptions json_error_sticky.

(* Err() never becomes nil again once it is non-nil (EOF, parse error or reader error). *)
Theorem json_err_stays :
  forall d p u p', json_inv d p -> next p = Some (u, p') -> err_kind p <> 0 -> err_kind p' <> 0.
Proof. exact json_err_stays_proof. Qed.
Print Assumptions json_err_stays.

(* Next does not check p.err on entry: when the caller keeps calling after a parse error, Next goes on and
   may return units again (here: StartObject, ErrorGrammar, String), while Err() keeps the stale error. *)
Theorem json_continues_after_error :
  exists d tr, trace 3 (json_init d) = Some tr /\ grammars tr = [G_StartObject; G_Error; G_String] /\
               map (fun up => err_kind (snd up)) tr = [0; 2; 2].
Proof. exact json_continues_after_error_proof. Qed.
Print Assumptions json_continues_after_error.

(* ---- json_rejects_listed: four lemmas over arbitrary contexts.  The context is any parser p whose cursor
   has consumed a, holds the lexeme tok, and faces the remaining input written in the hypothesis; lead is
   what one call skips before the token: whitespace, or whitespace , whitespace inside an array/object
   (lead_ok).  rejected_at p off: Next returns ErrorGrammar and no unit, records a parse error at offset
   off and leaves the state stack unchanged. ---- *)

(* a closing bracket that does not match the innermost open container, or with no container open
   (json_nesting relates State() to the open containers) *)
Theorem json_rejects_closer :
  forall p a tok lead c r nd state,
    cur3 (pz p) a tok (lead ++ c :: r) -> lead_ok p lead nd -> top (pst p) = Some state ->
    (c = 125 /\ state <> S_ObjectKey) \/ (c = 93 /\ state <> S_Array) ->
    rejected_at p (len a + len tok + len lead).
Proof. exact rejects_closer_proof. Qed.
Print Assumptions json_rejects_closer.

(* needComma holds after every unit that completes a value ... *)
Theorem json_need_after_value :
  forall d p u p', json_inv d p -> next p = Some (u, p') -> completes_value (fst u) (pst p') -> pneed p' = true.
Proof. exact need_after_value_proof. Qed.
Print Assumptions json_need_after_value.

(* ... and then anything other than , ] } or the end of the input is a parse error at that byte *)
Theorem json_rejects_missing_comma :
  forall p a tok w c r state,
    cur3 (pz p) a tok (w ++ c :: r) -> ws w -> pneed p = true -> top (pst p) = Some state ->
    is_ws c = false -> c <> 44 -> c <> 125 -> c <> 93 -> c <> 0 ->
    rejected_at p (len a + len tok + len w).
Proof. exact rejects_missing_comma_proof. Qed.
Print Assumptions json_rejects_missing_comma.

(* in key position: a string followed (after whitespace) by anything but the colon, also the end of input *)
Theorem json_rejects_missing_colon :
  forall p a tok lead k w2 s2 st,
    cur3 (pz p) a tok (lead ++ k ++ w2 ++ s2) -> lead_ok p lead false -> pst p = S_ObjectKey :: st ->
    jstring k -> ws w2 -> is_ws (hd0 s2) = false -> hd0 s2 <> 58 ->
    rejected_at p (len a + len tok + len lead + len k + len w2).
Proof. exact rejects_missing_colon_proof. Qed.
Print Assumptions json_rejects_missing_colon.

(* in key position: EVERY byte other than the quote and } (incl. { [ ] digits NUL and the end of input) is a
   parse error at that byte instead of a unit.  A comma directly in key position is a separator (part of
   lead); a second comma is rejected too (right disjunct).  (True since fix 1c3d0a4.) *)
Theorem json_rejects_nonstring_key :
  forall p a tok lead s2 nd st,
    cur3 (pz p) a tok (lead ++ s2) -> lead_ok p lead nd -> pst p = S_ObjectKey :: st ->
    is_ws (hd0 s2) = false -> hd0 s2 <> 34 -> hd0 s2 <> 125 ->
    (hd0 s2 <> 44 \/ exists w w', ws w /\ ws w' /\ lead = w ++ 44 :: w') ->
    rejected_at p (len a + len tok + len lead).
Proof. exact rejects_nonstring_key_proof. Qed.
Print Assumptions json_rejects_nonstring_key.

(* json_error_offset, second half: a byte that cannot start a token is reported at exactly its offset, in
   every context (any stack, any needComma) *)
Theorem json_error_at_illegal_byte :
  forall p a tok lead c r nd state,
    cur3 (pz p) a tok (lead ++ c :: r) -> lead_ok p lead nd -> top (pst p) = Some state -> prd p = 0 ->
    illegal_start c ->
    rejected_at p (len a + len tok + len lead).
Proof. exact error_at_illegal_byte_proof. Qed.
Print Assumptions json_error_at_illegal_byte.

(* Parse errors that are re-reported forever: in the situations of the listed rejections (stuck_at:
   mismatched or unopened closer, missing comma, stray comma, non-string key, illegal byte) every further
   call returns ErrorGrammar again, with the error at the same offset and the state stack unchanged.
   (What happens after a missing colon is stated exactly below; the general dichotomy is
   json_terminal_report / json_active_calls_linear.) *)
Theorem json_listed_errors_sticky :
  forall n p a tok s, cur3 (pz p) a tok s -> stuck_at (pst p) (pneed p) (prd p) s ->
    exists tr, trace n p = Some tr /\ length tr = n /\
      Forall (fun up => fst up = (G_Error, None) /\ perr (snd up) = Some (len a + len tok) /\
                        pst (snd up) = pst p) tr.
Proof. exact parse_error_stuck_proof. Qed.
Print Assumptions json_listed_errors_sticky.

(* ---- after a missing colon, exactly.  The call records the error at the offending byte and leaves the
   parser in key position (stack unchanged), needComma false, the cursor AT the offending byte; the key that
   was read is dropped (after_missing_colon).  The next call is an ordinary call in key position: ---- *)
Theorem json_missing_colon_exact :
  forall p a tok lead k w2 s2 st,
    cur3 (pz p) a tok (lead ++ k ++ w2 ++ s2) -> lead_ok p lead false -> pst p = S_ObjectKey :: st ->
    jstring k -> ws w2 -> is_ws (hd0 s2) = false -> hd0 s2 <> 58 ->
    exists p1, next p = Some ((G_Error, None), p1) /\ prd p1 = prd p /\
               after_missing_colon p1 (len a + len tok + len lead + len k + len w2) s2 st.
Proof. exact missing_colon_exact_proof. Qed.
Print Assumptions json_missing_colon_exact.

(* (1) offending byte other than the quote, } and , (a value, a bracket, NUL, the end of input, ...): the same
   error at the same offset on every further call *)
Theorem json_missing_colon_then_stuck :
  forall n p1 off s2 st,
    after_missing_colon p1 off s2 st -> is_ws (hd0 s2) = false ->
    hd0 s2 <> 34 -> hd0 s2 <> 44 -> hd0 s2 <> 125 ->
    exists tr, trace n p1 = Some tr /\ length tr = n /\
      Forall (fun up => fst up = (G_Error, None) /\ perr (snd up) = Some off /\ pst (snd up) = pst p1) tr.
Proof. exact missing_colon_then_stuck_proof. Qed.
Print Assumptions json_missing_colon_then_stuck.

(* (2) offending byte } : the next call returns EndObject (Err() keeps the error) *)
Theorem json_missing_colon_then_close :
  forall p1 off r st, after_missing_colon p1 off (125 :: r) st -> st <> [] ->
    exists lo p2, next p1 = Some ((G_EndObject, Some (lo, [125])), p2) /\ pst p2 = valfix st /\ perr p2 = Some off.
Proof. exact missing_colon_then_close_proof. Qed.
Print Assumptions json_missing_colon_then_close.

(* (3) offending byte starts another key with its colon: that key is returned (a comma is consumed as a
   separator and then (1)-(3) apply to what follows) *)
Theorem json_missing_colon_then_key :
  forall p1 off k2 w r st, after_missing_colon p1 off (k2 ++ w ++ 58 :: r) st -> jstring k2 -> ws w ->
    exists lo p2, next p1 = Some ((G_String, Some (lo, k2)), p2) /\ pst p2 = S_ObjectValue :: st /\ perr p2 = Some off.
Proof. exact missing_colon_then_key_proof. Qed.
Print Assumptions json_missing_colon_then_key.

(* ---- the caller keeps calling after errors (C01 reading, DESIGN section 6): terminal reports ----
   A terminal report is an ErrorGrammar call that changes neither the offset nor needComma (ErrorGrammar
   calls never change the state stack).  Next depends only on buffer, offset, stack, needComma and reader
   error (not on p.err or the lexeme start), hence: *)

(* a terminal report is repeated by every further call: same GrammarType, offset, stack, needComma, recorded
   error and kind of Err() *)
Theorem json_terminal_report :
  forall d n p u p1, json_inv d p -> next p = Some (u, p1) -> idle p u p1 ->
    exists tr, trace n p1 = Some tr /\ length tr = n /\
      Forall (fun up => fst up = (G_Error, None) /\ lpos (pz (snd up)) = lpos (pz p1) /\
                        pst (snd up) = pst p1 /\ pneed (snd up) = pneed p1 /\ perr (snd up) = perr p1 /\
                        err_kind (snd up) = err_kind p1) tr.
Proof. exact terminal_report_proof. Qed.
Print Assumptions json_terminal_report.

(* whatever the caller does about errors, at most 2 * len d + 1 calls are not terminal reports (every such
   call consumes a byte or sets needComma) ... *)
Theorem json_active_calls_linear :
  forall d n tr, trace n (json_init d) = Some tr -> count_active (json_init d) tr <= 2 * len d + 1.
Proof. exact active_calls_linear_proof. Qed.
Print Assumptions json_active_calls_linear.

(* ... so among the first 2 * len d + 2 calls there is a terminal report *)
Theorem json_terminal_within :
  forall d tr, trace (Z.to_nat (2 * len d + 2)) (json_init d) = Some tr ->
    exists pre u p1 post, tr = pre ++ (u, p1) :: post /\ idle (last_parser (json_init d) pre) u p1.
Proof. exact terminal_within_proof. Qed.
Print Assumptions json_terminal_within.

(* The terminal report need not be io.EOF: on the input  1 1  every call after the first returns
   ErrorGrammar with the parse error at offset 2, forever and without progress. *)
Theorem json_parse_error_forever :
  forall n, exists tr, trace (2 + n) (json_init [49; 32; 49]) = Some tr /\
    grammars tr = G_Number :: G_Error :: repeat G_Error n /\
    Forall (fun up => perr (snd up) = Some 2 /\ err_kind (snd up) = 2) (skipn 1 tr).
Proof. exact parse_error_forever_proof. Qed.
Print Assumptions json_parse_error_forever.

(* ---- soundness of what is accepted, per call and for ALL inputs (json_state_machine gives the sequence of
   unit types; this gives the bytes).  Every successful call consumes exactly: a gap, a unit, and for a key
   whitespace and the colon.
   tok_exact: a Number unit is exactly an RFC 8259 number, a Literal unit exactly true/false/null, a String
     unit a quoted run without NUL, Start/End a single bracket;
   gapG: the bytes between the old cursor and the unit are whitespace - and then needComma forces the unit
     to be a closer - or whitespace , whitespace with the parser inside an array or in key position;
   unit_end: the unit ends at the new cursor, except a key, which is followed by whitespace and ':' . ---- *)
Theorem json_call_exact :
  forall d p u p', json_inv d p -> next p = Some (u, p') ->
    match snd u with
    | Some (lo, b) => tok_exact (fst u) b /\ gapG d (lpos (pz p)) p (fst u) lo /\ unit_end d p' (fst u) lo b
    | None => fst u = G_Error
    end.
Proof. exact call_exact_proof. Qed.
Print Assumptions json_call_exact.

Theorem json_trace_calls_exact :
  forall d n tr, trace n (json_init d) = Some tr -> calls_exact d (json_init d) tr.
Proof. exact trace_calls_exact_proof. Qed.
Print Assumptions json_trace_calls_exact.

(* the units of json_accepts_valid (and of any run of the driver) are single tokens *)
Theorem json_drive_tokens_exact :
  forall d fuel units final, drive fuel (json_init d) = Done units final ->
    Forall (fun u => tok_exact (sg u) (sbytes u)) units.
Proof. exact drive_tokens_exact_proof. Qed.
Print Assumptions json_drive_tokens_exact.

(* the lexer half of exactness: what consumeNumberToken accepts is an RFC 8259 number (and by
   json_accepts_valid every RFC number, string and literal followed by a separator is one unit) *)
Theorem json_number_token_exact :
  forall s x r, num_split s = Some (x, r) -> jnumber x.
Proof. exact num_split_jnumber. Qed.
Print Assumptions json_number_token_exact.

(* the converse of json_accepts_valid is FALSE: the parser is lenient.  Witnesses (not grammar documents,
   parsed to the end of the input with Err() = io.EOF):  [1,]  [,1]  {,'a':1,}  (single extra comma before an
   element, key or closer);  '\x'  and a raw TAB in a string (string contents unchecked);  the empty input,
   [1  and  ['a  (end of input in value position or after a value, containers or a string left open). *)
Theorem json_lenient_extensions :
  Forall (fun d => ~ value d /\
                   exists units final, drive (S (length d)) (json_init d) = Done units final /\ err_kind final = 1)
         lenient_witnesses.
Proof. exact lenient_extensions_proof. Qed.
Print Assumptions json_lenient_extensions.
