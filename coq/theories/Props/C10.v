(* Props/C10.v — C10: the JSON parser (json/parse.go).
   Statements only; each is closed by [exact] of a lemma proved in coq/theories/Json/. *)
From Verif Require Import Common.Base Common.Lx Json.Model Json.Lex Json.Spec Json.Grammar Json.Proofs Json.Trace
  Json.Accept Json.Sticky.

(* MAIN THEOREM.  Every document of the RFC 8259 grammar (Json/Grammar.v: whitespace explicit at the six
   structural positions; all escape and number forms) is parsed to the end of the input without a parse
   error (Err() is io.EOF), and re-joining the units with ':' after keys and ',' between units as State()
   indicates yields the document without insignificant whitespace.  No bound on size or nesting. *)
Theorem json_accepts_valid :
  forall d, value d ->
    exists units final, drive (S (length d)) (json_init d) = Done units final /\
                        err_kind final = 1 /\ rejoin units = strip_ws d.
Proof. exact json_accepts_valid_proof. Qed.
Print Assumptions json_accepts_valid.

(* No call of Next or State() panics, for every byte string and any number of calls (also after errors):
   the trace of n calls exists, and State() is defined (the state stack is never empty) after each call. *)
Theorem json_total :
  forall d n, exists tr, trace n (json_init d) = Some tr /\ length tr = n /\
    Forall (fun up => exists s, state (snd up) = Some s /\ 0 <= s <= 3) tr.
Proof. exact json_total_proof. Qed.
Print Assumptions json_total.

(* the same behind an io.Reader that failed *)
Theorem json_total_failed_reader :
  forall e n, exists tr, trace n (json_init_failed e) = Some tr /\ length tr = n /\
    Forall (fun up => exists s, state (snd up) = Some s /\ 0 <= s <= 3) tr.
Proof. exact json_total_failed_reader_proof. Qed.
Print Assumptions json_total_failed_reader.

(* Every call either reports ErrorGrammar or moves the cursor forward by at least one byte; the cursor
   never moves back and never leaves the input. *)
Theorem json_progress :
  forall d p u p', json_inv d p -> next p = Some (u, p') ->
    (fst u = G_Error \/ lpos (pz p) < lpos (pz p')) /\ lpos (pz p) <= lpos (pz p') <= len d.
Proof. exact json_progress_proof. Qed.
Print Assumptions json_progress.

(* hence, however long Next is called (also after errors), at most len d calls return a unit *)
Theorem json_calls_linear :
  forall d n tr, trace n (json_init d) = Some tr -> count_units tr <= len d.
Proof. exact json_calls_linear_proof. Qed.
Print Assumptions json_calls_linear.

(* Every unit is a non-empty contiguous piece of the input lying between the cursor offsets before and
   after its call: units come in increasing, non-overlapping order. *)
Theorem json_units_are_slices :
  forall d n tr, trace n (json_init d) = Some tr -> slices_ok d 0 tr.
Proof. exact json_units_are_slices_proof. Qed.
Print Assumptions json_units_are_slices.

(* Every recorded parse error has 0 <= offset <= len d, is recorded only by a call that returns
   ErrorGrammar, and its offset is the cursor offset at which that call stopped. *)
Theorem json_error_offset_range :
  forall d n tr, trace n (json_init d) = Some tr -> errs_ok d None tr.
Proof. exact json_error_offset_range_proof. Qed.
Print Assumptions json_error_offset_range.

(* ALL byte strings, any number of calls: the Start/End units form a prefix of a Dyck word with matching
   kinds (the independent bracket machine never meets an End for an unopened or differently-typed
   container), and State() describes the innermost open container. *)
Theorem json_nesting :
  forall d n tr, trace n (json_init d) = Some tr ->
    exists stk s, dyck [] (grammars tr) = Some stk /\
                  state (last_parser (json_init d) tr) = Some s /\ describes stk s.
Proof. exact json_nesting_proof. Qed.
Print Assumptions json_nesting.

(* ObjectValueState is entered exactly by returning a key (a String unit in ObjectKeyState). *)
Theorem json_key_state :
  forall d p u p', json_inv d p -> next p = Some (u, p') -> fst u <> G_Error ->
    (state p' = Some S_ObjectValue <-> fst u = G_String /\ state p = Some S_ObjectKey).
Proof. exact json_key_state_proof. Qed.
Print Assumptions json_key_state.

(* json_error_sticky, end-of-input clause (full strength, after fix 01dbc08): once Next has returned
   ErrorGrammar with Err() = io.EOF, every further call returns ErrorGrammar with Err() = io.EOF, and the
   state stack, needComma and the offset are unchanged. *)
Theorem json_error_sticky :
  forall d p p1 n, json_inv d p -> next p = Some ((G_Error, None), p1) -> err_kind p1 = 1 ->
    exists tr, trace n p1 = Some tr /\ length tr = n /\
      Forall (fun up => fst up = (G_Error, None) /\ err_kind (snd up) = 1 /\ pst (snd up) = pst p1 /\
                        pneed (snd up) = pneed p1 /\ lpos (pz (snd up)) = lpos (pz p1)) tr.
Proof. exact json_eof_sticky_proof. Qed.
Print Assumptions json_error_sticky.

(* Err() never becomes nil again once it is non-nil (EOF, parse error or reader error). *)
Theorem json_err_stays :
  forall d p u p', json_inv d p -> next p = Some (u, p') -> err_kind p <> 0 -> err_kind p' <> 0.
Proof. exact json_err_stays_proof. Qed.
Print Assumptions json_err_stays.

(* The parse-error clause of stickiness is FALSE of the code: after the expected-colon error on the
   document  { 'a' 'b' : 1 }  (with double quotes) the next call returns the String unit 'b'
   (Err() keeps the old error). *)
Theorem json_parse_error_sticky_refuted :
  exists d tr, trace 3 (json_init d) = Some tr /\ grammars tr = [G_StartObject; G_Error; G_String] /\
               map (fun up => err_kind (snd up)) tr = [0; 2; 2].
Proof. exact json_parse_error_sticky_refuted_proof. Qed.
Print Assumptions json_parse_error_sticky_refuted.
