(* Props/C05.v — placeholder, filled below *)
From Verif Require Import Common.Base.
