(* Props/C05.v — C05: printing a JS tree and parsing the text again gives the same tree.
   Statements only; each is closed by [exact] of a lemma proved in JsPrint/*.v.

   Models: JsPrint/Print.v ([pitems] / [print_js], the JS() methods of the operator fragment of C03: what is written, as
   a list of tokens and single spaces, and its bytes) and JsPrint/Indent.v ([jsE] / [jsS], parse.Indenter and the JS()
   methods that decide what goes through the indenting writer and what bypasses it).  Both are tied to js/ast.go and
   util.go by correspondence runs; the parser is the model of C03 ([parse]). *)
From Verif Require Import Common.Base Gen.PrattTable JsExpr.Syntax JsExpr.Pratt JsExpr.Spec JsExpr.Grammar
  JsPrint.Print JsPrint.Proofs JsPrint.Glue JsPrint.Indent JsPrint.IndentProofs JsPrint.LexBack JsPrint.Separated JsPrint.Names.
From Verif Require Common.Lx JsLex.Model JsLex.Proofs.

(* The parser half, at the level of tokens and without any hypothesis: print the tree of any accepted token list and read
   the written tokens again ([ptoks]: the items without the spaces): they are accepted, the tree is the original one with
   a GroupExpr around each numeric literal that stands before '.' ([ng]) — the same tree modulo GroupExpr — and printing
   that tree gives the same bytes.  (That the written BYTES lex to these tokens is print_round_trip below.) *)
Theorem print_reparses :
  forall inf ts t, parse inf prec_OpExpr ts = Ok (t, []) ->
    parse inf prec_OpExpr (ptoks (pitems t)) = Ok (ng t, []) /\
    strip_groups (ng t) = strip_groups t /\
    print_js (ng t) = print_js t.
Proof. exact print_reparses_proof. Qed.
Print Assumptions print_reparses.

(* The full round trip of the fragment, through the JS lexer model of C06 (JsLex/Model.v; jrun: a sequence of Next calls):
   print the tree of any accepted token list, run the lexer on the BYTES with one Next call per written item; it returns
   exactly the written items as tokens ([litems]: the printer's tokens, a name after '.' under the type the lexer's
   keyword table gives it, and one WhitespaceToken per space) and stops at the end of the input; what the parser sees of
   them ([lexed_view]: whitespace dropped, no line terminators) is accepted again, with the original tree modulo GroupExpr,
   and that tree prints to the same bytes:   parse (lex (print t)) = t modulo GroupExpr,  print of it = the same bytes.
   Built on C06's jslex_token_sequences (exact follower condition [stops]), on JsPrint/Separated.v (the printer's spacing
   rules satisfy that condition at every token boundary of every grammatical tree) and on JsPrint/Names.v (reserved words
   as property names: `a.if` is written as it is read).
   The hypotheses are about the LEAF tokens of the input only (the model's tokens carry arbitrary bytes):
     leaf_tokens_lex: every written token that is not a punctuator / keyword of the fragment with its canonical bytes
       (identifiers, numeric and string literals, property names) is a token of the lexer — lexed alone it is that token
       ([relexes]), of class identifier / numeric / string, no truncated UTF-8 sequence at its end, not beginning with a
       white space rune;
     leaf_tokens_lead (computable): it begins the way its class begins (identifier: letter, '$', '_', '\' or a non-ASCII
       byte; numeric: digit or '.', and a binary / octal / hex literal contains a non-digit; string: a quote) and its type
       is one the parser and the lexer model classify alike.
   (RegExp literals are outside the fragment of the parser model.)  Instances: print_lex_parse_example (LexBack.v),
   round_trip_reserved_name (Names.v). *)
Theorem print_round_trip :
  forall (ids idc zs : Z -> bool) inf ts t,
    parse inf prec_OpExpr ts = Ok (t, []) -> leaf_tokens_lex ids idc zs t -> leaf_tokens_lead t = true ->
    exists toks s',
      JsLex.Proofs.jrun ids idc zs (map (fun _ : pitem => JsLex.Proofs.ONext) (litems t)) (JsLex.Model.js_init (print_js t))
        = JsLex.Model.Ok (toks, s') /\
      Common.Lx.at_end (JsLex.Model.jcur s') = true /\
      toks = map tok_of_item (litems t) /\
      parse inf prec_OpExpr (lexed_view toks) = Ok (ng t, []) /\
      strip_groups (ng t) = strip_groups t /\
      print_js (ng t) = print_js t.
Proof. exact print_round_trip_proof2. Qed.
Print Assumptions print_round_trip.

(* The spacing half on its own: the item list the printer writes for any accepted token list passes the byte-level
   separation check (C06's [stops] at every token boundary), given only how the leaves begin. *)
Theorem printer_separates_tokens :
  forall inf ts t, parse inf prec_OpExpr ts = Ok (t, []) -> leaf_tokens_lead t = true -> c06_separated t = true.
Proof. exact separated_parse. Qed.
Print Assumptions printer_separates_tokens.

(* The same from the grammar: the tree of every derivation of the standard's productions (JsExpr/Grammar.v, any
   nonterminal of the operator fragment) prints to tokens that are accepted and give that tree back (modulo [ng]). *)
Theorem print_reparses_spelling :
  forall inf n ts t, JsExpr.Grammar.derives inf n ts t -> parse inf prec_OpExpr (ptoks (pitems t)) = Ok (ng t, []).
Proof. exact print_reparses_derivation_proof. Qed.
Print Assumptions print_reparses_spelling.

(* Wherever the printer writes two tokens with no space between them ([gaps]), the pair is safe for a longest-match
   lexer ([glue_ok]: not two word-like tokens, not a decimal literal before '.', not two punctuators whose bytes begin
   a longer punctuator or a comment) — for the tree of every accepted token list.  This is what the space in `+ +a`,
   `- --a` and the parentheses in `(1).a` are for; [glue_ok] is a specification of the hazard written from the
   lexical grammar, not the C06 lexer model itself. *)
Theorem unspaced_tokens_safe :
  forall inf ts t, parse inf prec_OpExpr ts = Ok (t, []) -> gaps_ok (gaps (pitems t)) = true.
Proof. exact unspaced_tokens_safe_proof. Qed.
Print Assumptions unspaced_tokens_safe.

(* Printing is idempotent from the first round on, for every tree (parsed or not): the re-parsed tree prints to the
   same bytes, and a second round leaves the tree unchanged. *)
Theorem print_idempotent : forall e, print_js (ng e) = print_js e /\ ng (ng e) = ng e.
Proof. exact print_idempotent_both_proof. Qed.
Print Assumptions print_idempotent.

(* String / template / regexp / numeric literals (LiteralExpr data, the chunks of TemplateExpr) and preserved comments
   reach the underlying writer byte for byte and in order, for every expression and statement, whatever the writer
   (plain, or an Indenter of any width) and however deeply they are nested in blocks, functions and templates. *)
Theorem literal_bypasses_indenter :
  (forall e w, interleaved (litsE e) (jsE w e)) /\ (forall s w, interleaved (litsS s) (jsS w s)).
Proof. exact literals_verbatim. Qed.
Print Assumptions literal_bypasses_indenter.
