(* Props/C05.v — C05: printing a JS tree and parsing the text again gives the same tree.
   Statements only; each is closed by [exact] of a lemma proved in JsPrint/*.v.

   Models: JsPrint/Print.v ([pitems] / [print_js], the JS() methods of the operator fragment of C03: what is written, as
   a list of tokens and single spaces, and its bytes) and JsPrint/Indent.v ([jsE] / [jsS], parse.Indenter and the JS()
   methods that decide what goes through the indenting writer and what bypasses it).  Both are tied to js/ast.go and
   util.go by correspondence runs; the parser is the model of C03 ([parse]). *)
From Verif Require Import Common.Base Gen.PrattTable JsExpr.Syntax JsExpr.Pratt JsExpr.Spec JsExpr.Grammar
  JsPrint.Print JsPrint.Proofs JsPrint.Glue JsPrint.Indent JsPrint.IndentProofs.

(* Print the tree of any accepted token list and read the written tokens again ([ptoks]: the items without the
   spaces): they are accepted, the tree is the original one with a GroupExpr around each numeric literal that stands
   before '.' ([ng]) — the same tree modulo GroupExpr nodes — and printing that tree gives the same bytes.
   Partial: the tokens are the ones the printer writes; that its bytes lex back to exactly these tokens (the
   `+ +a` spacing, `(1).a`) is not proved here — the lexer is C06's model — but checked by the round-trip oracle and
   the byte-for-byte correspondence of [print_js] with JS(). *)
Theorem print_retokenises_partial :
  forall inf ts t, parse inf prec_OpExpr ts = Ok (t, []) ->
    parse inf prec_OpExpr (ptoks (pitems t)) = Ok (ng t, []) /\
    strip_groups (ng t) = strip_groups t /\
    print_js (ng t) = print_js t.
Proof. exact print_reparses_proof. Qed.
Print Assumptions print_retokenises_partial.

(* The same from the grammar: the tree of every derivation of the standard's productions (JsExpr/Grammar.v, any
   nonterminal of the operator fragment) prints to tokens that are accepted and give that tree back (modulo [ng]). *)
Theorem print_reparses_spelling :
  forall inf n ts t, JsExpr.Grammar.derives inf n ts t -> parse inf prec_OpExpr (ptoks (pitems t)) = Ok (ng t, []).
Proof. exact print_reparses_derivation_proof. Qed.
Print Assumptions print_reparses_spelling.

(* Wherever the printer writes two tokens with no space between them ([gaps]), the pair is safe for a longest-match
   lexer ([glue_ok]: not two word-like tokens, not a decimal literal before '.', not two punctuators whose bytes begin
   a longer punctuator or a comment) — for the tree of every accepted token list.  This is what the space in `+ +a`,
   `- --a` and the parentheses in `(1).a` are for; [glue_ok] is a specification of the hazard written from the
   lexical grammar, not the C06 lexer model itself. *)
Theorem unspaced_tokens_safe :
  forall inf ts t, parse inf prec_OpExpr ts = Ok (t, []) -> gaps_ok (gaps (pitems t)) = true.
Proof. exact unspaced_tokens_safe_proof. Qed.
Print Assumptions unspaced_tokens_safe.

(* Printing is idempotent from the first round on, for every tree (parsed or not): the re-parsed tree prints to the
   same bytes, and a second round leaves the tree unchanged. *)
Theorem print_idempotent : forall e, print_js (ng e) = print_js e /\ ng (ng e) = ng e.
Proof. intros e. split; [apply print_idempotent_proof|apply ng_ng]. Qed.
Print Assumptions print_idempotent.

(* String / template / regexp / numeric literals (LiteralExpr data, the chunks of TemplateExpr) and preserved comments
   reach the underlying writer byte for byte and in order, for every expression and statement, whatever the writer
   (plain, or an Indenter of any width) and however deeply they are nested in blocks, functions and templates. *)
Theorem literal_bypasses_indenter :
  (forall e w, interleaved (litsE e) (jsE w e)) /\ (forall s w, interleaved (litsS s) (jsS w s)).
Proof. exact literals_verbatim. Qed.
Print Assumptions literal_bypasses_indenter.
