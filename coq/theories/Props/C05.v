(* Props/C05.v — C05: printing a JS tree and parsing the text again gives the same tree.
   Statements only; each is closed by [exact] of a lemma proved in JsPrint/*.v.

   Models: JsPrint/Print.v ([pitems] / [print_js], the JS() methods of the operator fragment of C03: what is written, as
   a list of tokens and single spaces, and its bytes) and JsPrint/Indent.v ([jsE] / [jsS], parse.Indenter and the JS()
   methods that decide what goes through the indenting writer and what bypasses it).  Both are tied to js/ast.go and
   util.go by correspondence runs; the parser is the model of C03 ([parse]). *)
From Verif Require Import Common.Base Gen.PrattTable JsExpr.Syntax JsExpr.Pratt JsExpr.Spec JsExpr.Grammar
  JsPrint.Print JsPrint.Proofs JsPrint.Glue JsPrint.Indent JsPrint.IndentProofs JsPrint.LexBack.
From Verif Require Common.Lx JsLex.Model JsLex.Proofs.

(* Print the tree of any accepted token list and read the written tokens again ([ptoks]: the items without the
   spaces): they are accepted, the tree is the original one with a GroupExpr around each numeric literal that stands
   before '.' ([ng]) — the same tree modulo GroupExpr nodes — and printing that tree gives the same bytes.
   Partial: this is the parser half — the tokens are the ones the printer writes; that the written BYTES lex back to
   exactly these tokens is print_lex_parse_partial below (through the C06 lexer model, for the outputs its
   token-sequence theorem covers), and is checked for everything by the round-trip oracle and the byte-for-byte
   correspondence of [print_js] with JS(). *)
Theorem print_retokenises_partial :
  forall inf ts t, parse inf prec_OpExpr ts = Ok (t, []) ->
    parse inf prec_OpExpr (ptoks (pitems t)) = Ok (ng t, []) /\
    strip_groups (ng t) = strip_groups t /\
    print_js (ng t) = print_js t.
Proof. exact print_reparses_proof. Qed.
Print Assumptions print_retokenises_partial.

(* The full round trip of the fragment, through the JS lexer model of C06 (JsLex/Model.v; jrun: a sequence of Next calls):
   print the tree of any accepted token list, run the lexer on the BYTES with one Next call per written item; it returns
   exactly the written items as tokens ([tok_of_item]: the printer's tokens and one WhitespaceToken per space) and stops
   at the end of the input; what the parser sees of them ([lexed_view]: whitespace dropped, no line terminators) is
   accepted again, with the original tree modulo GroupExpr, and that tree prints to the same bytes.
   Built on C06's jslex_token_sequences (JsLex/SeqNext.v).  Hypotheses:
     leaf_tokens_real: every written token that is not a punctuator / keyword of the fragment with its canonical bytes
       (identifiers, numeric and string literals, property names) is a token of the lexer — lexed alone it is that token
       ([relexes]), of class identifier / numeric / string, with no truncated UTF-8 sequence at its end;
     c06_separated (a computable check of the written item list, byte by byte): every written token is followed by
       bytes that cannot extend it — C06's exact follower condition [stops] (no longer punctuator of the token table
       begins there, no comment opener, no '.' after a plain decimal integer, no identifier character after a word).
       With the exact condition the printer's own spacing passes in every instance tried (`-1`, `-.5`, `!-a`, `!!a`,
       `+++a`, `a++++`, `0x1F.a`, `a + é`: separated_examples_exact); the check refuses leaves that are no tokens
       (not_separated_examples).  That it holds for EVERY tree of the fragment is not proved here; the jsprint
       correspondence run evaluates it on the tree of every case (JsPrint/Harness.v: the implementation side expects 1).
   PARTIAL, MISSING:
     (1) the proof that c06_separated holds for every accepted tree (it is a hypothesis, decidable per tree, and checked on
         every case of the correspondence run);
     (2) a property name that is a reserved word (`a.if`: the printer's token is an IdentifierToken, the lexer returns
         the keyword type — leaf_tokens_real fails; the parser accepts both), and leaf tokens the lexer does not deliver
         through Next (a RegExpToken literal needs RegExp()).
   LexBack.v has an instance (print_lex_parse_example). *)
Theorem print_lex_parse_partial :
  forall (ids idc zs : Z -> bool) inf ts t,
    parse inf prec_OpExpr ts = Ok (t, []) -> leaf_tokens_real ids idc zs t -> c06_separated t = true ->
    exists toks s',
      JsLex.Proofs.jrun ids idc zs (map (fun _ : pitem => JsLex.Proofs.ONext) (pitems t)) (JsLex.Model.js_init (print_js t))
        = JsLex.Model.Ok (toks, s') /\
      Common.Lx.at_end (JsLex.Model.jcur s') = true /\
      toks = map tok_of_item (pitems t) /\
      parse inf prec_OpExpr (lexed_view toks) = Ok (ng t, []) /\
      strip_groups (ng t) = strip_groups t /\
      print_js (ng t) = print_js t.
Proof. exact print_lex_parse_proof. Qed.
Print Assumptions print_lex_parse_partial.

(* The same from the grammar: the tree of every derivation of the standard's productions (JsExpr/Grammar.v, any
   nonterminal of the operator fragment) prints to tokens that are accepted and give that tree back (modulo [ng]). *)
Theorem print_reparses_spelling :
  forall inf n ts t, JsExpr.Grammar.derives inf n ts t -> parse inf prec_OpExpr (ptoks (pitems t)) = Ok (ng t, []).
Proof. exact print_reparses_derivation_proof. Qed.
Print Assumptions print_reparses_spelling.

(* Wherever the printer writes two tokens with no space between them ([gaps]), the pair is safe for a longest-match
   lexer ([glue_ok]: not two word-like tokens, not a decimal literal before '.', not two punctuators whose bytes begin
   a longer punctuator or a comment) — for the tree of every accepted token list.  This is what the space in `+ +a`,
   `- --a` and the parentheses in `(1).a` are for; [glue_ok] is a specification of the hazard written from the
   lexical grammar, not the C06 lexer model itself. *)
Theorem unspaced_tokens_safe :
  forall inf ts t, parse inf prec_OpExpr ts = Ok (t, []) -> gaps_ok (gaps (pitems t)) = true.
Proof. exact unspaced_tokens_safe_proof. Qed.
Print Assumptions unspaced_tokens_safe.

(* Printing is idempotent from the first round on, for every tree (parsed or not): the re-parsed tree prints to the
   same bytes, and a second round leaves the tree unchanged. *)
Theorem print_idempotent : forall e, print_js (ng e) = print_js e /\ ng (ng e) = ng e.
Proof. intros e. split; [apply print_idempotent_proof|apply ng_ng]. Qed.
Print Assumptions print_idempotent.

(* String / template / regexp / numeric literals (LiteralExpr data, the chunks of TemplateExpr) and preserved comments
   reach the underlying writer byte for byte and in order, for every expression and statement, whatever the writer
   (plain, or an Indenter of any width) and however deeply they are nested in blocks, functions and templates. *)
Theorem literal_bypasses_indenter :
  (forall e w, interleaved (litsE e) (jsE w e)) /\ (forall s w, interleaved (litsS s) (jsS w s)).
Proof. exact literals_verbatim. Qed.
Print Assumptions literal_bypasses_indenter.
