(* Props/C14.v — C14: strconv parses and formats numbers consistently with the standard library.
   Statements only; each is closed by [exact] of a lemma proved in Strconv/*Proofs.v. *)
From Coq Require Import Reals Floats.SpecFloat.
From Flocq Require Import Core.Core IEEE754.BinarySingleNaN.
From Verif Require Import Common.Base Strconv.Model Strconv.FModel Strconv.IntProofs Strconv.NumProofs Strconv.DecProofs Strconv.ScanProofs Strconv.FloatProofs Strconv.DecValueProofs Strconv.DecSideProofs Strconv.AccuracyProofs Strconv.AFProofs Strconv.AFLitProofs Strconv.AFShape Strconv.AFValueProofs Strconv.Legacy.
Open Scope Z_scope.

(* ParseInt, for EVERY byte string: written as sign ++ digits ++ rest (sign = "", "+" or "-";
   rest does not continue the digits; every string has such a decomposition, see
   [int_decomposition_exists]) the result is the signed value of the digits and the length of
   sign ++ digits when there is at least one digit and the value fits int64, (0,0) otherwise. *)
Theorem parse_int_spec : forall sg ds rest,
  sign_ok sg -> all_digits ds -> stops rest -> (sg = [] -> no_sign (ds ++ rest)) ->
  let v := if sign_neg sg then - dec_value ds else dec_value ds in
  parse_int (sg ++ ds ++ rest) =
    if negb (len ds =? 0) && (min_i64 <=? v) && (v <=? max_i64) then (v, len sg + len ds) else (0, 0).
Proof. exact parse_int_spec_proof. Qed.
Print Assumptions parse_int_spec.

Theorem int_decomposition_exists : forall b, exists sg ds rest,
  b = sg ++ ds ++ rest /\ sign_ok sg /\ all_digits ds /\ stops rest /\ (sg = [] -> no_sign (ds ++ rest)).
Proof. exact int_decompose. Qed.
Print Assumptions int_decomposition_exists.

(* ParseUint, for every byte string digits ++ rest: value and length of the longest digit prefix
   when it fits uint64, (0,0) on overflow (and for an empty prefix, whose value and length are 0). *)
Theorem parse_uint_spec : forall ds rest, all_digits ds -> stops rest ->
  parse_uint (ds ++ rest) = if dec_value ds <=? max_u64 then (dec_value ds, len ds) else (0, 0).
Proof. exact parse_uint_spec_proof. Qed.
Print Assumptions parse_uint_spec.

(* AppendInt(b, n) = b ++ decimal n for every int64 and every content of the spare capacity
   (so the bytes already in b are preserved), and LenInt n = length (decimal n).  [decimal] is the
   canonical decimal numeral ([decimal_is_canonical]), i.e. what strconv.AppendInt(b, n, 10) writes. *)
Theorem append_int_spec : forall b spare n, min_i64 <= n <= max_i64 ->
  append_int b spare n = Ok (b ++ decimal n) /\ len_int n = len (decimal n).
Proof. exact append_int_spec_proof. Qed.
Print Assumptions append_int_spec.

(* LenUint n is the number of decimal digits of n, for every uint64 (the 19-way switch of int.go). *)
Theorem len_uint_spec : forall n, 0 <= n < two64 -> len_uint n = len (decimal n).
Proof. exact len_uint_decimal. Qed.
Print Assumptions len_uint_spec.

Theorem decimal_is_canonical : forall n,
  (0 <= n -> all_digits (decimal n) /\ dec_value (decimal n) = n /\
             (n = 0 /\ decimal n = [48] \/ exists c t, decimal n = c :: t /\ c <> 48)) /\
  (n < 0 -> exists ds, decimal n = 45 :: ds /\ all_digits ds /\ dec_value ds = - n /\
                       exists c t, ds = c :: t /\ c <> 48).
Proof. exact decimal_sound. Qed.
Print Assumptions decimal_is_canonical.

(* AppendNumber followed by ParseNumber with the same symbols returns the original integer, the
   decimal count and the full length: for every int64, every dec >= 0, EVERY group size (also <= 0),
   all distinct symbols that are Unicode scalar values (1-4 UTF-8 bytes) other than digits and '-',
   every destination prefix b (preserved) and every content of its spare capacity. *)
Theorem number_roundtrip : forall b spare n dec gsize gs ds,
  min_i64 <= n <= max_i64 -> 0 <= dec -> sym_ok gs -> sym_ok ds -> gs <> ds ->
  exists out, append_number b spare n dec gsize gs ds = Ok (b ++ out) /\
              parse_number out gs ds = Ok (n, dec, len out).
Proof. exact number_roundtrip_proof. Qed.
Print Assumptions number_roundtrip.

(* What AppendNumber writes: optional '-', the integer part of |n| / 10^dec ("0" if it is zero)
   with the group symbol before every gsize-th digit from the right, and for dec > 0 the decimal
   symbol followed by exactly dec digits; no byte of the computed size is left unwritten. *)
Theorem append_number_spec : forall b spare num dec gsize gs ds,
  min_i64 <= num <= max_i64 -> 0 <= dec -> valid_rune gs -> valid_rune ds ->
  append_number b spare num dec gsize gs ds = Ok (b ++ render num dec gsize gs ds).
Proof. exact append_number_spec_proof. Qed.
Print Assumptions append_number_spec.

(* AppendDecimal, for EVERY float64 f (valid_binary; every bit pattern is one, see [float64_bits_valid]) and every
   dec: nothing is appended for NaN and the infinities; otherwise the destination prefix is preserved and what is
   appended is the canonical literal of N / 10^dec: '-' exactly when N < 0, integer digits without leading zeros,
   and only if needed a dot and at most dec digits of which the last is not '0'; "0" for N = 0.  N = [ad_num] is
   int64(f*10^dec +- 0.5) below the threshold 9e18 <= |f|*10^dec (shown to be in the int64 range) and, at or
   above it, +-(|f|*10^dec rounded half-even on the exact value, see [append_decimal_std_value]) as printed by
   the standard library's 'f' format.  (Real-number argument through Flocq for the two range facts.) *)
Theorem append_decimal_shape : forall b spare f dec, valid_binary 53 1024 f = true ->
  (f_finite f = false -> append_decimal b spare f dec = Ok b) /\
  (f_finite f = true ->
   exists out, append_decimal b spare f dec = Ok (b ++ out) /\
               dec_literal out (ad_num f (ad_dec dec)) (ad_dec dec)).
Proof. exact append_decimal_shape_proof. Qed.
Print Assumptions append_decimal_shape.

(* The same without the real-number argument (closed under the global context), the two range facts as a
   decidable side condition [ad_side]. *)
Theorem append_decimal_shape_core : forall b spare f dec,
  (f_finite f = false -> append_decimal b spare f dec = Ok b) /\
  (f_finite f = true -> ad_side f (ad_dec dec) ->
   exists out, append_decimal b spare f dec = Ok (b ++ out) /\
               dec_literal out (ad_num f (ad_dec dec)) (ad_dec dec)).
Proof. exact DecProofs.append_decimal_shape_core. Qed.
Print Assumptions append_decimal_shape_core.

(* The integer printed by the standard-library branch is within half a unit of the last requested digit of the
   exact value |f| * 10^dec = num/den (f = +-m*2^e), ties to even: exact arithmetic on Z. *)
Theorem append_decimal_std_value : forall s m e dec0, 0 <= dec0 ->
  let q := f_scaled_half_even (S754_finite s m e) dec0 in
  let num := if 0 <=? e then Z.pos m * 2 ^ e * 10 ^ dec0 else Z.pos m * 10 ^ dec0 in
  let den := if 0 <=? e then 1 else 2 ^ (- e) in
  2 * Z.abs (q * den - num) <= den /\ (2 * Z.abs (q * den - num) = den -> Z.even q = true).
Proof. exact std_value_proof. Qed.
Print Assumptions append_decimal_std_value.

Theorem float64_bits_valid : forall x, 0 <= x < two64 -> valid_binary 53 1024 (f_of_bits x) = true.
Proof. exact f_of_bits_valid. Qed.
Print Assumptions float64_bits_valid.

(* ParseFloat never panics and, for EVERY byte string, consumes float_prefix_len b bytes: the
   longest prefix of [+-]? mantissa ([eE][+-]?digits)? with at least one mantissa digit (0 if
   there is none); an exponent of any number of digits is consumed. *)
Theorem parse_float_prefix : forall b, exists v, parse_float b = Ok (v, float_prefix_len b).
Proof. exact parse_float_prefix_proof. Qed.
Print Assumptions parse_float_prefix.

(* The exponent ParseFloat uses is the signed value of the exponent digits as long as that value is below the
   saturation bound 10^15 (above it the accumulator stops growing; the result is then 0 or an infinity). *)
Theorem parse_float_exponent_value : forall c sg ds rest i,
  (c = 101 \/ c = 69) -> sign_ok sg -> all_digits ds -> ds <> [] -> stops rest ->
  dec_value ds < 1000000000000000 ->
  fst (pf_exponent (c :: sg ++ ds ++ rest) i) = if sign_neg sg then - dec_value ds else dec_value ds.
Proof. exact pf_exponent_value_proof. Qed.
Print Assumptions parse_float_exponent_value.

(* ParseDecimal never panics and, for every byte string, consumes decimal_consumed b bytes: the
   longest prefix of -? digits ('.' digits)? (digit runs possibly empty), 0 for a lone '.'. *)
Theorem parse_decimal_prefix : forall b, exists v, parse_decimal b = Ok (v, decimal_consumed b).
Proof. exact parse_decimal_prefix_proof. Qed.
Print Assumptions parse_decimal_prefix.

(* ... which for inputs that begin with a decimal number (at least one digit) is the documented
   longest prefix of -? (d+ ('.' d..)? | '.' d+). *)
Theorem parse_decimal_prefix_number : forall b,
  0 < mant_digits (if match b with c :: _ => c =? 45 | [] => false end then tl b else b) ->
  decimal_consumed b = decimal_prefix_len b.
Proof. exact decimal_consumed_number. Qed.
Print Assumptions parse_decimal_prefix_number.

(* ParseFloat's value, PARTIAL: only the exact fast path is proved.  For an input
   sign digits [. digits] [exponent] whose digits denote n < 2^53 and whose decimal exponent
   e = E - (number of decimals) lies in [-22, 22] (and n <= 10^15 when e > 0) the result is finite and
   is the correctly rounded (nearest-even, binary64) value of +-n * 10^e -- relative error <= 2^-53.
   MISSING: the property's bound 1e-14 for all other inputs (longer mantissas, larger exponents);
   it is searched with big-rational oracles, and is false for the extreme inputs listed as findings.
   (Depends on the axioms of the Coq Reals library through Flocq.) *)
Theorem parse_float_exact_fastpath_partial : forall sg ip fp (dot : bool) tail,
  sign_ok sg -> all_digits ip -> all_digits fp -> (dot = false -> fp = []) -> ip ++ fp <> [] ->
  ends_mant dot tail ->
  (sg = [] -> no_sign (ip ++ (if dot then 46 :: fp else []) ++ tail)) ->
  let n := dec_value (ip ++ fp) in
  let e := fst (pf_exponent tail 0) - len fp in
  n < 2 ^ 53 -> -22 <= e <= 22 -> (0 < e -> n <= 10 ^ 15) ->
  exists (v : binary_float 53 1024) k,
    parse_float (sg ++ ip ++ (if dot then 46 :: fp else []) ++ tail) = Ok (B2SF v, k) /\
    is_finite v = true /\ B2R v = round64 (dec_real (sign_neg sg) n e).
Proof. exact parse_float_exact_fastpath_proof. Qed.
Print Assumptions parse_float_exact_fastpath_partial.

(* AppendFloat's layout (everything after mant := int64(f)), for EVERY mantissa 1 <= mant < 10^19, every
   adjusted precision in [-350, 350] (AppendFloat reaches [-331, 348]), either sign, every destination and
   every content of its spare capacity: the destination is preserved and what is appended is a well-formed
   literal  -? (digits [. digits] | . digits) [e -? digits]  with '-' exactly for a negative argument, and the
   literal DENOTES mant * 10^-prec: read as a decimal literal (lit_mant_exp: integer and fraction digits as one
   integer, exponent minus the number of fraction digits) its unsigned part is (q * 10^bb, t0 - prec - bb) with
   mant = q * 10^t0, i.e. the trailing zeros of mant that are not written are compensated in the exponent and the
   zeros that are appended (the exp == 1 / exp == 2 shortcuts, d.d -> dd0 included) are taken back from it.
   (Lockstep argument: the layout is that of a run on the canonical mantissa 1..10..0 with the same length and
   trailing zeros in which the digit cells hold the tag of the digit's position instead of the digit; these tagged
   runs are computed for all 190 shapes x 701 precisions x 2 signs and compared with the expected form
   [-] zeros, tags L-1 .. t0 in this order, zeros, with the dot and the exponent in the right place.) *)
Theorem append_float_layout : forall b spare neg mant prec, 1 <= mant < 10 ^ 19 -> -350 <= prec <= 350 ->
  exists out, af_print b spare neg mant prec = Ok (b ++ out) /\ float_literal neg out /\ lit_neg out = neg /\
    exists q t0 bb, 0 <= t0 /\ 0 <= bb /\ mant = q * 10 ^ t0 /\ lit_mant_exp (lit_body out) = (q * 10 ^ bb, t0 - prec - bb).
Proof. exact af_print_value_proof. Qed.
Print Assumptions append_float_layout.

(* what lit_value computes, on the parts of a literal: sign * (integer and fraction digits as one integer) *
   10^(exponent - number of fraction digits) *)
Theorem literal_value_spec : forall (neg : bool) ip fp ex, all_digits ip -> all_digits fp ->
  (ex = [] \/ exists ds, all_digits ds /\ ds <> [] /\ (ex = 101 :: ds \/ ex = 101 :: 45 :: ds)) ->
  (ip <> [] \/ fp <> []) ->
  lit_value ((if neg then [45] else []) ++ ip ++ (match fp with [] => [] | _ => 46 :: fp end) ++ ex) =
  ((if neg then -1 else 1) * IZR (dec_value (ip ++ fp)) * Rp10 (exp_value ex - len fp))%R.
Proof. exact lit_value_parts. Qed.
Print Assumptions literal_value_spec.

(* AppendFloat, PARTIAL: for every float64 (valid_binary; every bit pattern, see [float64_bits_valid]): nothing is
   appended for NaN and the infinities; for a finite f whose scaled mantissa int64(|f| * 10^prec') fits int64
   (0 <= af_mant) the destination is preserved and what is appended is "0" when the mantissa is 0 and otherwise a
   well-formed literal carrying '-' exactly when f < 0.
   MISSING here: (i) that the scaled mantissa fits int64 and (ii) the parse-back clause; both are proved for every
   NORMAL float64 by append_float_normal below.  For the subnormal f (listed finding class "subnormal") they stay
   search only. *)
Theorem append_float_shape_partial : forall b spare f prec, valid_binary 53 1024 f = true ->
  (f_finite f = false -> append_float b spare f prec = Ok b) /\
  (f_finite f = true ->
   let neg := flt f fzero in
   let g := if neg then fneg f else f in
   0 <= af_mant g prec ->
   exists out, append_float b spare f prec = Ok (b ++ out) /\
               (af_mant g prec = 0 -> out = [48]) /\
               (0 < af_mant g prec -> float_literal neg out)).
Proof. exact append_float_shape_proof. Qed.
Print Assumptions append_float_shape_partial.

(* a zero is written as "0" after the preserved destination *)
Theorem append_float_zero : forall b spare f prec,
  (f_finite f = false -> append_float b spare f prec = Ok b) /\
  (forall s, f = S754_zero s -> append_float b spare f prec = Ok (b ++ [48])).
Proof. exact append_float_trivial_proof. Qed.
Print Assumptions append_float_zero.

(* ParseNumber is total: for every byte string and every pair of symbols it does not panic, does not
   run out of the model's fuel, and the reported length lies within the input. *)
Theorem parse_number_total : forall b gs ds,
  exists num dec n, parse_number b gs ds = Ok (num, dec, n) /\ 0 <= n <= len b /\ 0 <= dec.
Proof. exact parse_number_total_proof. Qed.
Print Assumptions parse_number_total.

(* The code BEFORE the repairs (kept in Strconv/Legacy.v) did not satisfy the statements above:
   AppendNumber(123456, 0, 3, U+00A0, ',') began with a NUL byte, AppendDecimal(-0.096, 6) lost its sign. *)
Theorem append_number_legacy_refuted :
  exists b spare num dec gsize gs ds out,
    min_i64 <= num <= max_i64 /\ 0 <= dec /\ valid_rune gs /\ valid_rune ds /\
    append_number_legacy b spare num dec gsize gs ds = Ok out /\
    out <> b ++ render num dec gsize gs ds /\ hd 1 out = 0.
Proof. exact Legacy.append_number_legacy_refuted. Qed.
Print Assumptions append_number_legacy_refuted.

Theorem append_decimal_legacy_refuted :
  exists num dec out,
    min_i64 < num <= max_i64 /\ num <> 0 /\ 0 <= dec <= 18 /\
    ad_print_legacy [] [] num dec = Ok out /\ out <> dec_text num dec /\ out = [48; 46; 48; 57; 54].
Proof. exact Legacy.append_decimal_legacy_refuted. Qed.
Print Assumptions append_decimal_legacy_refuted.

(* ParseDecimal's value, PARTIAL: the exact fast path.  For  -? 0..0 d1 digits [. digits]  (first non-zero
   digit in front of the dot, or no dot) with at most 18 characters from d1 on and digits denoting
   n < 2^53, the result is the correctly rounded value of +-n / 10^(number of decimals); likewise for
   -? 0..0 . 0..0 d1 digits  with at most 18 significant digits, n < 2^53 and at most 22 decimals in all.
   MISSING: the 1e-14 bound for longer inputs (18-digit truncation, more decimals): search only; false
   beyond 308 decimals (listed finding). *)
Theorem parse_decimal_fastpath_int_partial : forall sg zs d1 ip' fp (dot : bool) tail,
  (sg = [] \/ sg = [45]) -> all_zeros zs -> nonzero_digit d1 -> all_digits ip' -> all_digits fp ->
  (dot = false -> fp = []) -> ends_mant dot tail ->
  len (d1 :: ip') + (if dot then 1 + len fp else 0) <= 18 ->
  let n := dec_value ((d1 :: ip') ++ fp) in
  n < 2 ^ 53 ->
  exists (v : binary_float 53 1024) k,
    parse_decimal (sg ++ zs ++ (d1 :: ip') ++ (if dot then 46 :: fp else []) ++ tail) = Ok (B2SF v, k) /\
    is_finite v = true /\ B2R v = round64 (dec_real (sign_neg sg) n (- len fp)).
Proof. exact parse_decimal_fastpath_int_proof. Qed.
Print Assumptions parse_decimal_fastpath_int_partial.

Theorem parse_decimal_fastpath_frac_partial : forall sg zs1 zs2 d1 sp' tail,
  (sg = [] \/ sg = [45]) -> all_zeros zs1 -> all_zeros zs2 -> nonzero_digit d1 -> all_digits sp' ->
  ends_mant true tail ->
  len (d1 :: sp') <= 18 -> len zs2 + len (d1 :: sp') <= 22 ->
  let n := dec_value (d1 :: sp') in
  n < 2 ^ 53 ->
  exists (v : binary_float 53 1024) k,
    parse_decimal (sg ++ zs1 ++ 46 :: zs2 ++ (d1 :: sp') ++ tail) = Ok (B2SF v, k) /\
    is_finite v = true /\ B2R v = round64 (dec_real (sign_neg sg) n (- (len zs2 + len (d1 :: sp')))).
Proof. exact parse_decimal_fastpath_frac_proof. Qed.
Print Assumptions parse_decimal_fastpath_frac_partial.

(* ---- accuracy of the parsers outside the exact fast paths (Flocq; whitelisted Reals axioms) -----------------------

   uu = 2^-51 (AccuracyProofs.uu); round64 = rounding to nearest-even in binary64; Rp10 k = 10^k as a real.
   "normal path": the kept mantissa n (at most 2^64 - 1), at most 285 decimals / dropped integer digits, an
   exponent E in [-285, 285] and a decimal exponent of the result >= -290 (so that the exact value and every
   intermediate product lie in the normal range of binary64 and math.Pow10 is used inside [-290, 290], where its
   table was checked to be within 2^-51 of the powers of ten).  Outside it: exponents / digit counts beyond these
   bounds (the listed finding class "extreme"), results within 1e-15 of MaxFloat64 ("near-max") and subnormal
   results. *)

(* math.Pow10(k) is within 2^-51 of 10^k for -308 <= k <= 308, i.e. wherever the power is a normal number
   (computed on the table dumped from the toolchain) *)
Theorem math_pow10_accurate : forall k, -308 <= k <= 308 ->
  exists (P : binary_float 53 1024) d, pow10 k = B2SF P /\ is_finite P = true /\
    B2R P = (Rp10 k * (1 + d))%R /\ (Rabs d <= uu)%R.
Proof. exact pow10_rel. Qed.
Print Assumptions math_pow10_accurate.

(* ParseFloat, no mantissa digit dropped (the digits denote n <= 2^64 - 1): on the normal path the result is
   finite, within 6 * 2^-51 (< 2.7e-15) relative of the exact decimal value V = +-n * 10^(E - decimals) and within
   1e-14 relative of its correctly rounded value; a zero mantissa gives a zero. *)
Theorem parse_float_accuracy : forall sg ip fp (dot : bool) tail,
  sign_ok sg -> all_digits ip -> all_digits fp -> (dot = false -> fp = []) -> ip ++ fp <> [] ->
  ends_mant dot tail ->
  (sg = [] -> no_sign (ip ++ (if dot then 46 :: fp else []) ++ tail)) ->
  let n := dec_value (ip ++ fp) in
  let E := fst (pf_exponent tail 0) in
  n <= max_u64 -> len fp <= 285 -> -285 <= E <= 285 -> -290 <= E - len fp ->
  exists (v : binary_float 53 1024) k,
    parse_float (sg ++ ip ++ (if dot then 46 :: fp else []) ++ tail) = Ok (B2SF v, k) /\ is_finite v = true /\
    let V := dec_real (sign_neg sg) n (E - len fp) in
    (n = 0 -> B2R v = 0%R) /\
    (1 <= n -> (Rabs (B2R v - V) <= 6 * uu * Rabs V)%R /\
               (Rabs (B2R v - round64 V) <= / 100000000000000 * Rabs (round64 V))%R).
Proof. exact parse_float_accuracy_proof. Qed.
Print Assumptions parse_float_accuracy.

(* ParseFloat, more mantissa digits than fit uint64, dropped inside the integer part (sign ip1 c ip2 [. fp] [exp]:
   ip1 is kept, n*10+c would overflow): V is the exact value of ALL the digits; within 7 * 2^-51 of V and within
   1e-14 of its correctly rounded value. *)
Theorem parse_float_accuracy_trunc_int : forall sg ip1 c ip2 fp (dot : bool) tail,
  sign_ok sg -> all_digits ip1 -> is_digit c = true -> all_digits ip2 -> all_digits fp -> (dot = false -> fp = []) ->
  ends_mant dot tail ->
  (sg = [] -> no_sign ((ip1 ++ c :: ip2 ++ (if dot then 46 :: fp else [])) ++ tail)) ->
  let n := dec_value ip1 in
  let E := fst (pf_exponent tail 0) in
  n <= max_u64 -> max_u64 < n * 10 + (c - 48) ->
  len ip2 <= 284 -> -285 <= E <= 285 -> E + 1 + len ip2 <= 285 ->
  exists (v : binary_float 53 1024) k,
    parse_float (sg ++ (ip1 ++ c :: ip2 ++ (if dot then 46 :: fp else [])) ++ tail) = Ok (B2SF v, k) /\ is_finite v = true /\
    let D := dec_value (ip1 ++ c :: ip2 ++ fp) in
    let V := ((if sign_neg sg then - IZR D else IZR D) * Rp10 (E - len fp))%R in
    (Rabs (B2R v - V) <= 7 * uu * Rabs V)%R /\ (Rabs (B2R v - round64 V) <= / 100000000000000 * Rabs (round64 V))%R.
Proof. exact parse_float_accuracy_trunc_int_proof. Qed.
Print Assumptions parse_float_accuracy_trunc_int.

(* ... dropped inside the fraction (sign ip . fp1 c fp2 [exp]) *)
Theorem parse_float_accuracy_trunc_frac : forall sg ip fp1 c fp2 tail,
  sign_ok sg -> all_digits ip -> all_digits fp1 -> is_digit c = true -> all_digits fp2 ->
  ends_mant true tail ->
  (sg = [] -> no_sign ((ip ++ 46 :: fp1 ++ c :: fp2) ++ tail)) ->
  let n := dec_value (ip ++ fp1) in
  let E := fst (pf_exponent tail 0) in
  n <= max_u64 -> max_u64 < n * 10 + (c - 48) ->
  len fp1 <= 285 -> -285 <= E <= 285 -> -290 <= E - len fp1 ->
  exists (v : binary_float 53 1024) k,
    parse_float (sg ++ (ip ++ 46 :: fp1 ++ c :: fp2) ++ tail) = Ok (B2SF v, k) /\ is_finite v = true /\
    let D := dec_value (ip ++ fp1 ++ c :: fp2) in
    let V := ((if sign_neg sg then - IZR D else IZR D) * Rp10 (E - len (fp1 ++ c :: fp2)))%R in
    (Rabs (B2R v - V) <= 7 * uu * Rabs V)%R /\ (Rabs (B2R v - round64 V) <= / 100000000000000 * Rabs (round64 V))%R.
Proof. exact parse_float_accuracy_trunc_frac_proof. Qed.
Print Assumptions parse_float_accuracy_trunc_frac.

(* ParseDecimal on its normal path: five theorems, one for each shape of an accepted number with a non-zero digit.
   The code keeps the characters up to the 18th from the first non-zero digit on (the dot counted as a character when
   it comes after that digit) and drops the rest.  Normal path: the exponent of the kept mantissa in -290..285 (at
   most 285 dropped integer digits, at most 285 decimals when nothing is dropped, at most 272 leading zero decimals
   when digits are dropped from 0.000ddd).  Outside it: the listed finding class "extreme" (beyond 300 decimals /
   308 integer digits), search only in between.
   (1) at most 18 characters, dot after the first non-zero digit or absent: nothing dropped, bound 6 * 2^-51. *)
Theorem parse_decimal_accuracy_int : forall sg zs d1 ip' fp (dot : bool) tail,
  (sg = [] \/ sg = [45]) -> all_zeros zs -> nonzero_digit d1 -> all_digits ip' -> all_digits fp ->
  (dot = false -> fp = []) -> ends_mant dot tail ->
  len (d1 :: ip') + (if dot then 1 + len fp else 0) <= 18 ->
  let n := dec_value ((d1 :: ip') ++ fp) in
  exists (v : binary_float 53 1024) k,
    parse_decimal (sg ++ zs ++ (d1 :: ip') ++ (if dot then 46 :: fp else []) ++ tail) = Ok (B2SF v, k) /\
    is_finite v = true /\
    let V := dec_real (sign_neg sg) n (- len fp) in
    (Rabs (B2R v - V) <= 6 * uu * Rabs V)%R /\ (Rabs (B2R v - round64 V) <= / 100000000000000 * Rabs (round64 V))%R.
Proof. exact parse_decimal_accuracy_int_proof. Qed.
Print Assumptions parse_decimal_accuracy_int.

(* (2) 0.000ddd / .ddd with at most 18 significant digits: nothing dropped *)
Theorem parse_decimal_accuracy_frac : forall sg zs1 zs2 d1 sp' tail,
  (sg = [] \/ sg = [45]) -> all_zeros zs1 -> all_zeros zs2 -> nonzero_digit d1 -> all_digits sp' ->
  ends_mant true tail ->
  len (d1 :: sp') <= 18 -> len zs2 + len (d1 :: sp') <= 285 ->
  let n := dec_value (d1 :: sp') in
  exists (v : binary_float 53 1024) k,
    parse_decimal (sg ++ zs1 ++ 46 :: zs2 ++ (d1 :: sp') ++ tail) = Ok (B2SF v, k) /\
    is_finite v = true /\
    let V := dec_real (sign_neg sg) n (- (len zs2 + len (d1 :: sp'))) in
    (Rabs (B2R v - V) <= 6 * uu * Rabs V)%R /\ (Rabs (B2R v - round64 V) <= / 100000000000000 * Rabs (round64 V))%R.
Proof. exact parse_decimal_accuracy_frac_proof. Qed.
Print Assumptions parse_decimal_accuracy_frac.

(* (3) 18 or more integer digits: d1 ip1 (18 digits) kept, the further integer digits ip2 and the whole fraction
   dropped; the value is compared with the number written with ALL its digits: within 7 * 2^-51 of it and 1e-14 of its
   correctly rounded value. *)
Theorem parse_decimal_accuracy_trunc_int : forall sg zs d1 ip1 ip2 fp (dot : bool) tail,
  (sg = [] \/ sg = [45]) -> all_zeros zs -> nonzero_digit d1 -> all_digits ip1 -> len ip1 = 17 ->
  all_digits ip2 -> all_digits fp -> (dot = false -> fp = []) -> ends_mant dot tail -> len ip2 <= 285 ->
  exists (v : binary_float 53 1024) k,
    parse_decimal (sg ++ zs ++ (d1 :: ip1) ++ ip2 ++ (if dot then 46 :: fp else []) ++ tail) = Ok (B2SF v, k) /\
    is_finite v = true /\
    let V := dec_real (sign_neg sg) (dec_value ((d1 :: ip1) ++ ip2 ++ fp)) (- len fp) in
    (Rabs (B2R v - V) <= 7 * uu * Rabs V)%R /\ (Rabs (B2R v - round64 V) <= / 100000000000000 * Rabs (round64 V))%R.
Proof. exact parse_decimal_accuracy_trunc_int_proof. Qed.
Print Assumptions parse_decimal_accuracy_trunc_int.

(* (4) the dot among the first 18 characters: d1 ip' . fp1 kept (18 characters, 17 digits), fp2 dropped *)
Theorem parse_decimal_accuracy_trunc_dot : forall sg zs d1 ip' fp1 fp2 tail,
  (sg = [] \/ sg = [45]) -> all_zeros zs -> nonzero_digit d1 -> all_digits ip' -> all_digits fp1 ->
  len ip' + len fp1 = 16 -> all_digits fp2 -> ends_mant true tail ->
  exists (v : binary_float 53 1024) k,
    parse_decimal (sg ++ zs ++ (d1 :: ip') ++ 46 :: fp1 ++ fp2 ++ tail) = Ok (B2SF v, k) /\
    is_finite v = true /\
    let V := dec_real (sign_neg sg) (dec_value ((d1 :: ip') ++ fp1 ++ fp2)) (- (len fp1 + len fp2)) in
    (Rabs (B2R v - V) <= 7 * uu * Rabs V)%R /\ (Rabs (B2R v - round64 V) <= / 100000000000000 * Rabs (round64 V))%R.
Proof. exact parse_decimal_accuracy_trunc_dot_proof. Qed.
Print Assumptions parse_decimal_accuracy_trunc_dot.

(* (5) 0.000ddd / .ddd with more than 18 significant digits: d1 sp1 (18 digits) kept, sp2 dropped *)
Theorem parse_decimal_accuracy_trunc_frac : forall sg zs1 zs2 d1 sp1 sp2 tail,
  (sg = [] \/ sg = [45]) -> all_zeros zs1 -> all_zeros zs2 -> nonzero_digit d1 -> all_digits sp1 -> len sp1 = 17 ->
  all_digits sp2 -> ends_mant true tail -> len zs2 + 18 <= 290 ->
  exists (v : binary_float 53 1024) k,
    parse_decimal (sg ++ zs1 ++ 46 :: zs2 ++ (d1 :: sp1) ++ sp2 ++ tail) = Ok (B2SF v, k) /\
    is_finite v = true /\
    let V := dec_real (sign_neg sg) (dec_value ((d1 :: sp1) ++ sp2)) (- (len zs2 + 18 + len sp2)) in
    (Rabs (B2R v - V) <= 7 * uu * Rabs V)%R /\ (Rabs (B2R v - round64 V) <= / 100000000000000 * Rabs (round64 V))%R.
Proof. exact parse_decimal_accuracy_trunc_frac_proof. Qed.
Print Assumptions parse_decimal_accuracy_trunc_frac.

(* AppendFloat for EVERY normal float64 (valid_binary, exponent field not 0; the subnormal numbers are the listed
   finding class "subnormal"), every prec, destination and spare capacity.  With p' the adjusted precision
   (prec - exp10 after the correction of 4092954; the number of decimals kept) and mant = int64(|f| * 10^p') the
   scaled mantissa:
   (1) mant fits int64: 0 <= mant < 10^19  (this closes the side condition of append_float_shape_partial);
   (2) the destination is preserved and what is appended is "0" when mant = 0 and otherwise a well-formed literal
       with '-' exactly when f < 0;
   (3) read back as a decimal literal (lit_value, see literal_value_spec) the output is exactly +-mant * 10^-p';
   (4) hence it parses back to the argument within the requested number of digits, truncating:
       |lit_value out - f| <= 10^-p' + 5 * 2^-51 * |f|   (one unit of the last digit kept, plus the binary64 noise
       of the scaling f * 10^p').
   Exceptions, both keyed finding classes: "subnormal" (outside the hypothesis f_normal) and "pow10-boundary": for
   the three float64 around a power of ten whose float64 lies below 10^m, p' is one less than prec + 1 significant
   digits would need, so the theorem holds there with one digit fewer than asked (AppendFloat(1e23,3) = "9.99e22"). *)
Theorem append_float_normal : forall b spare f prec, valid_binary 53 1024 f = true -> f_normal f = true ->
  let neg := flt f fzero in
  let g := if neg then fneg f else f in
  let p' := af_prec g prec in
  let mant := af_mant g prec in
  0 <= mant < 10 ^ 19 /\
  exists out, append_float b spare f prec = Ok (b ++ out) /\
              (mant = 0 -> out = [48]) /\ (0 < mant -> float_literal neg out) /\
              lit_value out = ((if neg then - IZR mant else IZR mant) * Rp10 (- p'))%R /\
              (Rabs (lit_value out - SF2R radix2 f) <= Rp10 (- p') + 5 * uu * Rabs (SF2R radix2 f))%R.
Proof. exact append_float_parse_back_proof. Qed.
Print Assumptions append_float_normal.
