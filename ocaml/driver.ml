(* driver.ml — generic correspondence driver: one case per line "fn z1 z2 ...",
   one observation line per case "z1 z2 ...".  All model logic is in the extracted model.ml. *)
open Model

let rec pos_of_int n =
  if n = 1 then XH else if n land 1 = 1 then XI (pos_of_int (n lsr 1)) else XO (pos_of_int (n lsr 1))
let z_of_int n = if n = 0 then Z0 else if n > 0 then Zpos (pos_of_int n) else Zneg (pos_of_int (-n))

let ten = z_of_int 10

(* exact conversion for integers that do not fit an OCaml int *)
let z_of_string s =
  let n = String.length s in
  if n <= 17 then z_of_int (int_of_string s)
  else begin
    let neg = s.[0] = '-' in
    let acc = ref Z0 in
    for i = (if neg then 1 else 0) to n - 1 do
      acc := Z.add (Z.mul !acc ten) (z_of_int (Char.code s.[i] - 48))
    done;
    if neg then Z.opp !acc else !acc
  end

let rec pos_bits = function XH -> 1 | XO p -> 1 + pos_bits p | XI p -> 1 + pos_bits p
let rec int_of_pos = function XH -> 1 | XO p -> 2 * int_of_pos p | XI p -> 2 * int_of_pos p + 1

let rec big_pos_to_string z =
  (* z > 0 as Z *)
  match z with
  | Z0 -> ""
  | _ ->
    let (q, r) = Z.div_eucl z ten in
    let d = (match r with Z0 -> 0 | Zpos p -> int_of_pos p | Zneg _ -> 0) in
    big_pos_to_string q ^ string_of_int d

let string_of_z = function
  | Z0 -> "0"
  | Zpos p -> if pos_bits p <= 61 then string_of_int (int_of_pos p) else big_pos_to_string (Zpos p)
  | Zneg p -> if pos_bits p <= 61 then string_of_int (- (int_of_pos p)) else "-" ^ big_pos_to_string (Zpos p)

let () =
  let buf = Buffer.create 65536 in
  (try
    while true do
      let line = input_line stdin in
      (match String.split_on_char ' ' line with
       | [] -> print_string "\n"
       | fn :: args ->
         let zs = List.filter_map (fun s -> if s = "" then None else Some (z_of_string s)) args in
         let out =
           (try
              match Dispatch.find fn with
              | Some f -> List.map string_of_z (f zs)
              | None -> ["ERR"; "unknown"; fn]
            with Stack_overflow -> ["ERR"; "stack"]) in
         Buffer.clear buf;
         List.iteri (fun i s -> if i > 0 then Buffer.add_char buf ' '; Buffer.add_string buf s) out;
         Buffer.add_char buf '\n';
         print_string (Buffer.contents buf));
      if line = "FLUSH" then flush stdout
    done
  with End_of_file -> ());
  flush stdout
