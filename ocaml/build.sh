#!/bin/sh
# builds /verif/ocaml/build/modelrun from the extracted models
set -e
cd "$(dirname "$0")"
mkdir -p build
cd build
coqc -Q ../../coq/theories Verif ../../coq/theories/Extract/Extract.v >/dev/null 2>&1 || coqc -Q ../../coq/theories Verif ../../coq/theories/Extract/Extract.v
cp ../driver.ml ../dispatch.ml .
ocamlfind ocamlopt -O3 -w -a model.mli model.ml dispatch.ml driver.ml -o modelrun 2>/dev/null || \
ocamlfind ocamlopt -w -a model.mli model.ml dispatch.ml driver.ml -o modelrun
