(* dispatch.ml — name -> extracted model entry point.  One line per model. *)
open Model
let table : (string * (z list -> z list)) list = [
  ("cursor", run_cursor);
]
let find (n : string) = List.assoc_opt n table
