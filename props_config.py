"""Per-property configuration of ./check, loaded from props.d/<id>.json."""
import glob, json, os

# Axioms of the standard library that may appear under Print Assumptions (named in DESIGN.md section 7).
STD_AXIOMS = {
    "ClassicalDedekindReals.sig_forall_dec",
    "ClassicalDedekindReals.sig_not_dec",
    "FunctionalExtensionality.functional_extensionality_dep",
    "Classical_Prop.classic",
}

PROPS = {}
for _p in sorted(glob.glob(os.path.dirname(os.path.abspath(__file__)) + "/props.d/C*.json")):
    PROPS[os.path.basename(_p)[:-5]] = json.load(open(_p))
