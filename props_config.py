"""Per-property configuration of ./check: translators needed, clause labels, trusted base."""

# Axioms of the standard library that may appear under Print Assumptions (named in DESIGN.md section 7).
STD_AXIOMS = {
    "ClassicalDedekindReals.sig_forall_dec",
    "ClassicalDedekindReals.sig_not_dec",
    "FunctionalExtensionality.functional_extensionality_dep",
    "Classical_Prop.classic",
}

PROPS = {
    "C12": {
        "gen": [],
        "clauses": {
            "cursor_refines_spec": "F: every contract-respecting history on every constructor equals the abstract cursor",
            "peekrune_total": "F: no panic, length never past the end, all byte strings",
            "peekrune_valid": "F: RFC 3629 code point and length on valid sequences",
            "restore_frame": "F: caller's bytes untouched; borrowed byte restored",
            "reader_error_spec": "F: failing reader => Err=its error, Peek 0 = 0, Len = 0",
        },
        "assumptions": [
            "io.ReadAll is modelled as concatenation of the delivered chunks or the reader's error",
            "cap(buf) beyond len(buf) is not modelled: histories keep pos <= len(buf)",
        ],
        "trusted_base": ["hand-written model Cursor/Model.v of input.go and buffer/lexer.go, tied by the correspondence run"],
        "level_text": "Coq theorems over all inputs, constructors and contract-respecting operation histories (refinement of the documented cursor, PeekRune totality/validity, Restore frame, reader errors) about a hand-written executable model of input.go and buffer/lexer.go; the model is tied to the code on every run by a differential run of the extracted model against the implementation on ~25k random and exhaustive small histories, plus a Go oracle written from the documentation.",
        "level_note": "Trusted: Coq kernel, extraction (ExtrOcamlBasic), the Go harness; the correspondence check samples, it does not prove, that model and code agree. cap(buf) beyond len(buf) and io.ReadAll are modelled, not verified.",
        "technique": "Coq refinement proof (induction over operation lists) + extracted-model differential check",
    },
}
