package main

import (
	"bytes"
	"fmt"
	"io"
	"strings"
	"unsafe"

	"github.com/tdewolff/parse/v2"
	"github.com/tdewolff/parse/v2/html"
)

// ---- C09: html.Lexer ---------------------------------------------------------------------------
//
// case "html": k ncalls |d| d [|b| b |e| e]
//   k = 0 NewLexer, 1..6 NewTemplateLexer with the k-th predefined pair, 7 custom pair (b, e).
// observation per Next call: type, token view, Text() view, AttrVal() view, HasTemplate, Offset, Err kind;
// a view is (offset, len, bytes...) or (-1, 0) when empty/nil; -1 ends the run at a panic;
// after the last call -2 and Input.Bytes().

var c09Delims = [][2]string{html.GoTemplate, html.HandlebarsTemplate, html.MustacheTemplate, html.EJSTemplate, html.ASPTemplate, html.PHPTemplate}

func c09CaseDelims(a []int64) (k int64, n int64, d []byte, tmpl *[2]string) {
	k, n = a[0], a[1]
	dv, rest := takeList(a[2:])
	d = toBytes(dv)
	if k >= 1 && k <= 6 {
		t := c09Delims[k-1]
		tmpl = &t
	} else if k == 7 {
		bv, rest2 := takeList(rest)
		ev, _ := takeList(rest2)
		t := [2]string{string(toBytes(bv)), string(toBytes(ev))}
		tmpl = &t
	}
	return
}

func c09NewLexer(d []byte, tmpl *[2]string) (*parse.Input, *html.Lexer) {
	in := parse.NewInputBytes(append(make([]byte, 0, len(d)), d...))
	if tmpl != nil {
		return in, html.NewTemplateLexer(in, *tmpl)
	}
	return in, html.NewLexer(in)
}

func c09ErrKind(e error) int64 {
	if e == nil {
		return 0
	}
	if e == io.EOF {
		return 1
	}
	return 2
}

// c09ViewObs encodes a slice as (offset in the input buffer, len, bytes); offset by pointer identity.
func c09ViewObs(base []byte, s []byte) []int64 {
	if len(s) == 0 {
		return []int64{-1, 0}
	}
	off := int64(-777)
	if len(base) > 0 {
		d := uintptr(unsafe.Pointer(&s[0])) - uintptr(unsafe.Pointer(&base[0]))
		if d < uintptr(len(base)) {
			off = int64(d)
		}
	}
	out := []int64{off, int64(len(s))}
	for _, c := range s {
		out = append(out, int64(c))
	}
	return out
}

func c09Impl(c Case) []int64 {
	_, n, d, tmpl := c09CaseDelims(c.Args)
	in, l := c09NewLexer(d, tmpl)
	base := in.Bytes()
	var out []int64
	for i := int64(0); i < n; i++ {
		var obs []int64
		p := catch(func() {
			tt, data := l.Next()
			obs = append(obs, int64(tt))
			obs = append(obs, c09ViewObs(base, data)...)
			obs = append(obs, c09ViewObs(base, l.Text())...)
			obs = append(obs, c09ViewObs(base, l.AttrVal())...)
			h := int64(0)
			if l.HasTemplate() {
				h = 1
			}
			obs = append(obs, h, int64(in.Offset()), c09ErrKind(l.Err()))
		})
		if p != nil {
			return append(out, -1)
		}
		out = append(out, obs...)
	}
	out = append(out, -2)
	for _, x := range in.Bytes() {
		out = append(out, int64(x))
	}
	return out
}

func c09Case(k int, d []byte, extra int, note string) Case {
	args := []int64{int64(k), int64(len(d) + extra)}
	args = append(args, bytesToArgs(d)...)
	if note == "" {
		note = fmt.Sprintf("k=%d %q", k, d)
	}
	return Case{Fn: "html", Args: args, Note: note}
}

func c09CaseCustom(b, e, d []byte, extra int) Case {
	args := []int64{7, int64(len(d) + extra)}
	args = append(args, bytesToArgs(d)...)
	args = append(args, bytesToArgs(b)...)
	args = append(args, bytesToArgs(e)...)
	return Case{Fn: "html", Args: args, Note: fmt.Sprintf("k=7 b=%q e=%q %q", b, e, d)}
}

// ---- document generator (shared by the correspondence run and the oracle) ------------------------

// c09ExpTok is what the property text promises for one construct.
type c09ExpTok struct {
	ty     html.TokenType
	data   []byte // nil: not checked
	text   []byte // nil: not checked
	val    []byte
	chkVal bool
	ctx    string // construct that produced it
	key    string // violation key to use when this expectation fails (default: by kind and ctx)
}

// c09Region is a delimited template region [p,q) of the document and the context it was put in.
type c09Region struct {
	p, q int
	ctx  string
}

type c09DocGen struct {
	r              *Rng
	tb, te         string // "" = no templates
	buf            []byte
	exp            []c09ExpTok
	regs           []c09Region
	exact          bool            // exp describes the whole document exactly (no construct whose outcome the property leaves open)
	lastTx         bool            // last construct was text (adjacent text constructs merge)
	tmplP          int             // probability (percent) of inserting a region where one is allowed
	allow          map[string]bool // contexts in which regions may be inserted (nil: all)
	quoteInForeign bool            // svg/math content may contain quotes in character data, comments and attribute values
	loose          bool            // correspondence only: keep constructs whose content contains its own terminator etc. (exp is then meaningless)
}

var c09RawNames = []string{"script", "style", "title", "textarea", "xmp", "iframe"}
var c09PlainNames = []string{"a", "p", "div", "b", "img", "br", "h1", "span", "x-y", "table", "scrip", "scripts", "styl", "svgx", "mat", "xm", "input", "textare", "tt"}

func (g *c09DocGen) caseVar(s string) string {
	b := []byte(s)
	mode := g.r.Intn(4)
	for i, c := range b {
		if c >= 'a' && c <= 'z' {
			if mode == 1 || mode == 2 && g.r.Bool() || mode == 3 && i == 0 {
				b[i] = c - 32
			}
		}
	}
	return string(b)
}

func c09LowerASCII(b []byte) []byte {
	o := append([]byte{}, b...)
	for i, c := range o {
		if c >= 'A' && c <= 'Z' {
			o[i] = c + 32
		}
	}
	return o
}

func (g *c09DocGen) ws(min int) string {
	n := min + g.r.Intn(2)
	if g.r.Chance(1, 8) {
		n += g.r.Intn(3)
	}
	var sb strings.Builder
	for i := 0; i < n; i++ {
		sb.WriteByte(g.r.Pick([]byte(" \t\n\r\f ")))
	}
	return sb.String()
}

// tmplBody: region body that does not contain te outside quoted strings; hazards are strings that would
// end the surrounding construct if the region were not skipped.
func (g *c09DocGen) tmplBody(hazards []string) string {
	var sb strings.Builder
	n := g.r.Intn(4)
	for i := 0; i < n; i++ {
		switch g.r.Intn(6) {
		case 0:
			sb.WriteString(" ")
		case 1:
			sb.WriteString(g.r.PickStr([]string{"x", ".y", "if", "1", "$a", "|"}))
		case 2, 3:
			q := g.r.Pick([]byte{'"', '\''})
			sb.WriteByte(q)
			m := g.r.Intn(3)
			for j := 0; j < m; j++ {
				switch g.r.Intn(5) {
				case 0:
					sb.WriteString(g.te)
				case 1:
					if len(hazards) > 0 {
						if h := g.r.PickStr(hazards); !strings.ContainsRune(h, rune(q)) && !strings.Contains(h, "\\") {
							sb.WriteString(h)
						}
					}
				case 2:
					sb.WriteString("\\" + string(q))
				case 3:
					sb.WriteString("\\\\")
				default:
					sb.WriteString("s")
				}
			}
			sb.WriteByte(q)
		default:
			if len(hazards) > 0 && g.r.Chance(1, 3) {
				h := g.r.PickStr(hazards)
				if !strings.Contains(h, g.te) && !strings.ContainsAny(h, "\"'") {
					sb.WriteString(h)
				}
			}
		}
	}
	s := sb.String()
	// the body must end outside a quoted string and must not contain te outside strings
	if c09TmplEndStrict(s+g.te, g.te) != len(s)+len(g.te) {
		return "x"
	}
	return s
}

// c09TmplEndStrict is c09TmplEnd, but -1 when a quoted string is not terminated.
func c09TmplEndStrict(s, te string) int {
	i := 0
	for i < len(s) {
		if strings.HasPrefix(s[i:], te) {
			return i + len(te)
		}
		if s[i] == '"' || s[i] == '\'' {
			q := s[i]
			i++
			closed := false
			for i < len(s) {
				if s[i] == '\\' && i+1 < len(s) {
					i += 2
					continue
				}
				if s[i] == q {
					closed = true
					break
				}
				i++
			}
			if !closed {
				return -1
			}
			i++
			continue
		}
		i++
	}
	return -1
}

// c09TmplEnd returns the length of the region body+te at the start of s: first te outside quoted strings
// (backslash escapes inside strings), written from the description of template regions.
func c09TmplEnd(s, te string) int {
	i := 0
	for i < len(s) {
		if strings.HasPrefix(s[i:], te) {
			return i + len(te)
		}
		if s[i] == '"' || s[i] == '\'' {
			q := s[i]
			i++
			for i < len(s) {
				if s[i] == '\\' && i+1 < len(s) {
					i += 2
					continue
				}
				if s[i] == q {
					break
				}
				i++
			}
			i++
			continue
		}
		i++
	}
	return len(s)
}

// maybeRegion appends a region in context ctx with probability tmplP.
func (g *c09DocGen) maybeRegion(ctx string, hazards []string) bool {
	if g.tb == "" || (g.allow != nil && !g.allow[ctx]) || !g.r.Chance(g.tmplP, 100) {
		return false
	}
	g.region(ctx, hazards)
	return true
}

func (g *c09DocGen) region(ctx string, hazards []string) {
	p := len(g.buf)
	g.buf = append(g.buf, g.tb...)
	g.buf = append(g.buf, g.tmplBody(hazards)...)
	g.buf = append(g.buf, g.te...)
	g.regs = append(g.regs, c09Region{p, len(g.buf), ctx})
}

const c09TextChars = "abcXYZ 019.,;:-_()&#\n\t=/>\"'!?"

func (g *c09DocGen) text() {
	if g.lastTx {
		return
	}
	start := len(g.buf)
	n := 1 + g.r.Intn(6)
	for i := 0; i < n; i++ {
		c := g.r.Pick([]byte(c09TextChars))
		if g.tb != "" && c == g.tb[0] {
			c = 'q'
		}
		g.buf = append(g.buf, c)
		if g.r.Chance(1, 12) {
			// '<' that does not open a tag
			g.buf = append(g.buf, '<')
			g.buf = append(g.buf, g.r.Pick([]byte(" 1=<.-")))
			if g.buf[len(g.buf)-1] == '<' {
				g.buf[len(g.buf)-1] = ' '
			}
		}
	}
	if g.tb != "" && bytes.Contains(g.buf[start:], []byte(g.tb)) {
		g.buf = g.buf[:start]
		g.buf = append(g.buf, "txt"...)
	}
	d := append([]byte{}, g.buf[start:]...)
	g.exp = append(g.exp, c09ExpTok{ty: html.TextToken, data: d, text: d, ctx: "text"})
	g.lastTx = true
}

func (g *c09DocGen) tmplToken() {
	if g.tb == "" || (g.allow != nil && !g.allow["text"]) {
		return
	}
	start := len(g.buf)
	g.region("text", []string{"<a>", "</p>", "<!--"})
	g.exp = append(g.exp, c09ExpTok{ty: html.TemplateToken, data: append([]byte{}, g.buf[start:]...), ctx: "template"})
	g.lastTx = false
}

func (g *c09DocGen) comment() {
	start := len(g.buf)
	g.buf = append(g.buf, "<!--"...)
	n := g.r.Intn(5)
	for i := 0; i < n; i++ {
		g.buf = append(g.buf, g.r.PickStr([]string{"a", " ", "-", "<b>", "->", "--", "!", ">", "<!-", "</script>", "x"})...)
		g.maybeRegion("comment", []string{"-->", "--!>"})
	}
	// the body must not contain a terminator
	body := g.buf[start+4:]
	if g.loose {
		// keep whatever was generated
	} else if bytes.Contains(append(append([]byte{}, body...), "-->"...)[:len(body)+2], []byte("-->")) || bytes.Contains(append(append([]byte{}, body...), "--!>"...)[:len(body)+3], []byte("--!>")) || g.hasRegionHazard(start+4, []string{"-->", "--!>"}) {
		// keep it simple: replace by a safe body (regions are kept only if the body stayed clean)
		g.dropRegionsFrom(start)
		g.buf = append(g.buf[:start+4], " c "...)
		if g.maybeRegion("comment", []string{"-->", "--!>"}) {
			g.buf = append(g.buf, ' ')
		}
	}
	txt := append([]byte{}, g.buf[start+4:]...)
	g.buf = append(g.buf, "-->"...)
	g.exp = append(g.exp, c09ExpTok{ty: html.CommentToken, data: append([]byte{}, g.buf[start:]...), text: txt, ctx: "comment"})
	g.lastTx = false
}

// hasRegionHazard: outside the regions recorded from position `from`, do the plain bytes contain one of the terminators
// (regions may contain them by design)?
func (g *c09DocGen) hasRegionHazard(from int, terms []string) bool {
	plain := g.plainFrom(from)
	for _, t := range terms {
		if strings.Contains(plain, t) {
			return true
		}
	}
	return false
}

// plainFrom returns buf[from:] with every region replaced by a single 0x01 byte.
func (g *c09DocGen) plainFrom(from int) string {
	var sb strings.Builder
	i := from
	for _, rg := range g.regs {
		if rg.p < from {
			continue
		}
		sb.Write(g.buf[i:rg.p])
		sb.WriteByte(1)
		i = rg.q
	}
	sb.Write(g.buf[i:])
	return sb.String()
}

func (g *c09DocGen) dropRegionsFrom(from int) {
	k := len(g.regs)
	for k > 0 && g.regs[k-1].p >= from {
		k--
	}
	g.regs = g.regs[:k]
}

func (g *c09DocGen) doctype() {
	start := len(g.buf)
	g.buf = append(g.buf, "<!"...)
	g.buf = append(g.buf, g.caseVar("doctype")...)
	g.buf = append(g.buf, g.r.PickStr([]string{" html", " HTML", "  html ", " html PUBLIC \"-//W3C//DTD HTML 4.01//EN\"", "", " html SYSTEM 'about:legacy-compat'"})...)
	if g.maybeRegion("doctype", []string{">"}) {
		g.buf = append(g.buf, ' ')
	}
	g.buf = append(g.buf, '>')
	g.exp = append(g.exp, c09ExpTok{ty: html.DoctypeToken, data: append([]byte{}, g.buf[start:]...), ctx: "doctype"})
	g.lastTx = false
}

func (g *c09DocGen) cdata() {
	start := len(g.buf)
	g.buf = append(g.buf, "<![CDATA["...)
	n := g.r.Intn(4)
	for i := 0; i < n; i++ {
		g.buf = append(g.buf, g.r.PickStr([]string{"a", "]", " ", "<b>", "]>", ">", "x"})...)
	}
	if !g.loose && bytes.Contains(g.buf[start+9:], []byte("]]")) {
		g.buf = append(g.buf[:start+9], "d"...)
	}
	if g.maybeRegion("cdata", []string{"]]>"}) {
		g.buf = append(g.buf, ' ')
	}
	g.buf = append(g.buf, "]]>"...)
	d := append([]byte{}, g.buf[start:]...)
	g.exp = append(g.exp, c09ExpTok{ty: html.TextToken, data: d, text: d[9 : len(d)-3], ctx: "cdata"})
	g.lastTx = false // a CDATA text token does not merge with following text
}

func (g *c09DocGen) bogus() {
	start := len(g.buf)
	g.buf = append(g.buf, g.r.PickStr([]string{"<?xml version=\"1.0\"?", "<!ELEMENT br EMPTY", "<!x", "<?", "</ a", "</1"})...)
	g.buf = append(g.buf, '>')
	g.exp = append(g.exp, c09ExpTok{ty: html.CommentToken, data: append([]byte{}, g.buf[start:]...), ctx: "bogus"})
	g.lastTx = false
	if g.tb == "<?" {
		g.exact = false
	}
}

const c09NameTail = "abcXYZ019-_:."
const c09UnqChars = "abcXYZ019-_:./#?&;%+*"

// attrs appends attributes (each preceded by whitespace) and the matching expectations; returns whether the last
// attribute value was unquoted (then whitespace is required before "/>").
func (g *c09DocGen) attrs() (lastUnq bool) {
	n := g.r.Intn(4)
	if g.r.Chance(1, 3) {
		n = 0
	}
	for i := 0; i < n; i++ {
		start := len(g.buf)
		g.buf = append(g.buf, g.ws(1)...)
		ks := len(g.buf)
		keyHasT := false
		if g.maybeRegion("attrname", []string{">", "=", " ", "/>"}) {
			keyHasT = true
		}
		kn := 1 + g.r.Intn(4)
		if keyHasT && g.r.Bool() {
			kn = 0
		}
		for j := 0; j < kn; j++ {
			c := g.r.Pick([]byte(c09NameTail + "abcdefgABCDEFG"))
			if g.tb != "" && c == g.tb[0] {
				c = 'k'
			}
			g.buf = append(g.buf, c)
		}
		if kn > 0 && g.maybeRegion("attrname", []string{">", "=", " ", "/>"}) {
			keyHasT = true
		}
		key := append([]byte{}, g.buf[ks:]...)
		if !keyHasT {
			key = c09LowerASCII(key)
		}
		lastUnq = false
		var val []byte
		switch g.r.Intn(5) {
		case 0: // valueless
			val = nil
		default:
			eq := g.ws(0)
			if g.r.Chance(2, 3) {
				eq = ""
			}
			g.buf = append(g.buf, eq...)
			g.buf = append(g.buf, '=')
			eq2 := g.ws(0)
			if g.r.Chance(2, 3) {
				eq2 = ""
			}
			g.buf = append(g.buf, eq2...)
			vs := len(g.buf)
			switch g.r.Intn(3) {
			case 0: // unquoted
				if g.maybeRegion("attrval-start", []string{">", " ", "/>"}) {
					for g.r.Chance(1, 3) {
						g.region("attrval-start", []string{">", " "})
					}
				} else {
					m := 1 + g.r.Intn(4)
					for j := 0; j < m; j++ {
						c := g.r.Pick([]byte(c09UnqChars))
						if g.tb != "" && c == g.tb[0] {
							c = 'v'
						}
						g.buf = append(g.buf, c)
					}
					if g.maybeRegion("attrval-unquoted-mid", nil) {
						// a region in the middle of an unquoted value (the property makes no exception for it)
					}
					lastUnq = true
				}
			default:
				q := g.r.Pick([]byte{'"', '\''})
				g.buf = append(g.buf, q)
				m := g.r.Intn(5)
				for j := 0; j < m; j++ {
					c := g.r.Pick([]byte(c09UnqChars + " >=<\"'\n"))
					if c == q {
						c = ' '
					}
					if g.tb != "" && c == g.tb[0] {
						c = 'v'
					}
					g.buf = append(g.buf, c)
					g.maybeRegion("attrval-quoted", []string{string(q), ">", string(q) + ">"})
				}
				g.buf = append(g.buf, q)
			}
			val = append([]byte{}, g.buf[vs:]...)
			if len(val) == 0 {
				val = []byte{}
			}
		}
		if val != nil && !lastUnq && g.maybeRegion("attr-after", []string{">", " "}) {
			// region glued to the end of the attribute
		}
		g.exp = append(g.exp, c09ExpTok{ty: html.AttributeToken, data: nil, text: key, val: val, chkVal: true, ctx: "attr"})
		_ = start
	}
	return lastUnq
}

func (g *c09DocGen) tagName(pool []string) string {
	return g.caseVar(g.r.PickStr(pool))
}

// openTag emits "<name attrs>" or "<name attrs/>"; returns whether it was self-closing.
func (g *c09DocGen) openTag(name string, allowVoid bool) bool {
	start := len(g.buf)
	g.buf = append(g.buf, '<')
	g.buf = append(g.buf, name...)
	data := append([]byte{'<'}, c09LowerASCII([]byte(name))...)
	g.exp = append(g.exp, c09ExpTok{ty: html.StartTagToken, data: data, text: c09LowerASCII([]byte(name)), ctx: "starttag"})
	_ = start
	if g.maybeRegion("tagname", []string{">", " "}) {
		// a region glued to the tag name becomes an attribute token of its own
		g.exp = append(g.exp, c09ExpTok{ty: html.AttributeToken, ctx: "tagname-region"})
	}
	lastUnq := g.attrs()
	void := allowVoid && g.r.Chance(1, 4)
	w := g.ws(0)
	if void && lastUnq && w == "" && !g.loose {
		w = " "
	}
	g.buf = append(g.buf, w...)
	if void {
		g.buf = append(g.buf, "/>"...)
		g.exp = append(g.exp, c09ExpTok{ty: html.StartTagVoidToken, data: []byte("/>"), ctx: "void"})
	} else {
		g.buf = append(g.buf, '>')
		g.exp = append(g.exp, c09ExpTok{ty: html.StartTagCloseToken, data: []byte(">"), ctx: "close"})
	}
	g.lastTx = false
	return void
}

func (g *c09DocGen) endTag(name string) {
	start := len(g.buf)
	g.buf = append(g.buf, "</"...)
	g.buf = append(g.buf, name...)
	g.maybeRegion("endtag", []string{">"})
	extra := ""
	if g.r.Chance(1, 6) && len(g.buf) == start+2+len(name) {
		// attributes in an end tag (not allowed in HTML, but they must be returned as they are: only the name is lower-cased)
		extra = g.r.PickStr([]string{" ", "\t", "/"}) + g.caseVar("data-x") + "=" + g.r.PickStr([]string{"Val", "\"A b\"", "'C'", "D/E"})
		g.buf = append(g.buf, extra...)
	}
	w := ""
	if g.r.Chance(1, 4) {
		w = g.r.PickStr([]string{" ", "\t", "\n", " \r", "\f", " \f"})
	}
	g.buf = append(g.buf, w...)
	g.buf = append(g.buf, '>')
	data := append([]byte("</"), c09LowerASCII([]byte(name))...)
	data = append(data, g.buf[start+2+len(name):]...)
	e := c09ExpTok{ty: html.EndTagToken, data: data, text: append(c09LowerASCII([]byte(name)), extra...), ctx: "endtag"}
	if extra != "" {
		e.key = "c09-case:endtag" // only the tag name may change case
	}
	if strings.Contains(w, "\f") {
		e.key = "c09-endtag:formfeed" // shiftEndTag trims ' ', \t, \n, \r from Text() but not \f
	}
	g.exp = append(g.exp, e)
	g.lastTx = false
}

func (g *c09DocGen) element() {
	name := g.tagName(c09PlainNames)
	g.openTag(name, true)
	if g.r.Bool() {
		g.text()
	}
	if g.r.Chance(2, 3) {
		g.endTag(name)
	}
}

// rawContent builds the content of a raw-text element that does not contain its end tag.
func (g *c09DocGen) rawContent(name string) {
	n := g.r.Intn(6)
	lname := strings.ToLower(name)
	for i := 0; i < n; i++ {
		switch g.r.Intn(9) {
		case 0:
			g.buf = append(g.buf, g.r.PickStr([]string{"var a=1;", "x", " ", "\n", "a<b", "a>b", "&amp;", "\"", "'", "<", "</", "<!", "<!-", "-->"})...)
		case 1: // look-alike end tags
			g.buf = append(g.buf, g.r.PickStr([]string{"</" + lname + "x>", "</" + g.caseVar(lname) + "s ", "</ " + lname + ">", "< /" + lname + ">", "<\\/" + lname + ">", "</" + lname[:len(lname)-1] + ">", "</-" + lname + ">", "<" + lname + ">", "</" + lname + "-x>", "</" + g.caseVar(lname) + "1 >", "</" + lname + "=>", "</" + lname + "\x00>"})...)
		case 2: // other end tags and tags
			other := g.r.PickStr([]string{"a", "p", "style", "script", "title", "svg", "b"})
			if other == lname {
				other = "q"
			}
			g.buf = append(g.buf, g.r.PickStr([]string{"</" + other + ">", "<" + other + ">", "</" + g.caseVar(other) + " >"})...)
		case 3:
			if lname == "script" {
				// escaped section: "<!--" ... "-->" in which <script>...</script> pairs are balanced
				g.buf = append(g.buf, "<!--"...)
				m := g.r.Intn(4)
				for j := 0; j < m; j++ {
					switch g.r.Intn(5) {
					case 0:
						g.buf = append(g.buf, "<"+g.caseVar("script")+g.r.PickStr([]string{">", " a>", "/"})...)
						g.buf = append(g.buf, g.r.PickStr([]string{"", "x", "<b>", "</scriptx>"})...)
						g.buf = append(g.buf, "</"+g.caseVar("script")+g.r.PickStr([]string{">", " >", "/"})...)
					case 1:
						g.buf = append(g.buf, g.r.PickStr([]string{"<scriptx>", "</scriptx>", "<p>", "</p>", "<", "</"})...)
					case 2:
						g.buf = append(g.buf, g.r.PickStr([]string{"-", "--", "->", "- ->", " "})...)
						g.maybeRegion("script-comment", []string{"-->", "</script>"})
					default:
						g.buf = append(g.buf, "y"...)
					}
				}
				g.buf = append(g.buf, g.r.PickStr([]string{"-->", "-->", " -->"})...)
			} else {
				g.buf = append(g.buf, "<!-- </"+"x"+lname+"> -->"...)
			}
		case 4:
			ctx := "rawtext"
			if g.tb != "" && g.tb[0] == '<' {
				ctx = "rawtext-lt" // the raw-text scanner looks at '<' before it looks for the delimiter
			}
			g.maybeRegion(ctx, []string{"</" + lname + ">", "</" + strings.ToUpper(lname) + " >"})
		default:
			g.buf = append(g.buf, g.r.PickStr([]string{"t", "1", ";", " "})...)
		}
	}
}

// endsRaw reports whether content contains something the lexer's rules (as described by the property) treat as the
// matching end tag: used to reject generated content, so it is written independently of the lexer, with strings functions.
func c09RawContentClean(content, lname string, script bool) bool {
	lc := strings.ToLower(content)
	i := 0
	for {
		j := strings.Index(lc[i:], "</"+lname)
		if j < 0 {
			return true
		}
		k := i + j + 2 + len(lname)
		isLetter := k < len(lc) && lc[k] >= 'a' && lc[k] <= 'z'
		isEndTag := k >= len(lc) || c09IsWS(lc[k]) || lc[k] == '/' || lc[k] == '>'
		if script && !isLetter && !isEndTag {
			// "</script-x" inside a "<!--" section: not an end tag (fixed 26dd3a3), but keep generated content simple
			pre := lc[:i+j]
			if open := strings.LastIndex(pre, "<!--"); open >= 0 && strings.LastIndex(pre, "-->") < open {
				return false
			}
		}
		if isEndTag {
			if !script {
				return false
			}
			// inside an escaped section the generator balanced things; anything else is rejected
			pre := lc[:i+j]
			open := strings.LastIndex(pre, "<!--")
			closep := strings.LastIndex(pre, "-->")
			if open < 0 || (closep > open+1) {
				return false
			}
		}
		i = k
	}
}

func (g *c09DocGen) rawElement() {
	name := g.tagName(c09RawNames)
	lname := strings.ToLower(name)
	void := g.openTag(name, false)
	_ = void
	start := len(g.buf)
	nregs := len(g.regs)
	g.rawContent(name)
	content := g.plainFrom(start)
	ok := c09RawContentClean(content, lname, lname == "script")
	if lname == "script" && ok {
		ok = c09ScriptContentSafe(content)
	}
	if !ok && !g.loose {
		g.regs = g.regs[:nregs]
		g.buf = append(g.buf[:start], "/* c */"...)
	}
	if len(g.buf) > start {
		d := append([]byte{}, g.buf[start:]...)
		g.exp = append(g.exp, c09ExpTok{ty: html.TextToken, data: d, text: d, ctx: "rawtext:" + lname})
	}
	g.endTag(g.caseVar(lname))
}

// c09ScriptContentSafe: conservative acceptance of generated script content: every "<!--" is closed by "-->" and
// between them the <script / </script occurrences (followed by a non-letter) alternate open, close.
func c09ScriptContentSafe(content string) bool {
	lc := strings.ToLower(content)
	i := 0
	for {
		o := strings.Index(lc[i:], "<!--")
		if o < 0 {
			return true
		}
		o += i
		c := strings.Index(lc[o+4:], "-->")
		if c < 0 {
			return false
		}
		c += o + 4
		sec := lc[o+4 : c]
		depth := 0
		for p := 0; p < len(sec); p++ {
			if strings.HasPrefix(sec[p:], "<script") || strings.HasPrefix(sec[p:], "</script") {
				end := p + 7
				isEnd := sec[p+1] == '/'
				if isEnd {
					end++
				}
				if end < len(sec) && sec[end] >= 'a' && sec[end] <= 'z' {
					continue
				}
				if end >= len(sec) {
					return false // the name would run into the "-->" dashes: fine for the lexer but keep the oracle simple
				}
				if isEnd {
					if depth == 0 {
						return false
					}
					depth--
				} else {
					if depth == 1 {
						return false
					}
					depth++
				}
			}
		}
		if depth != 0 {
			return false
		}
		// "--" + ">" overlaps such as "<!-->" are avoided by the generator's pieces; reject odd shapes
		if strings.HasPrefix(lc[o+4:], ">") || strings.HasPrefix(lc[o+4:], "->") {
			return false
		}
		i = c + 3
	}
}

func (g *c09DocGen) foreign() {
	name := g.r.PickStr([]string{"svg", "math", "svg", "math", "xml"})
	start := len(g.buf)
	g.buf = append(g.buf, '<')
	g.buf = append(g.buf, g.caseVar(name)...)
	if g.r.Bool() {
		g.buf = append(g.buf, g.r.PickStr([]string{" width=\"1\"", " a='b'", " viewBox=\"0 0 1 1\" ", "\n"})...)
	}
	g.buf = append(g.buf, '>')
	n := g.r.Intn(5)
	quote := false
	if g.quoteInForeign && g.r.Chance(1, 3) {
		// quotes in character data, inside an attribute value quoted with the other quote, and in comments,
		// processing instructions and CDATA sections: well-formed XML (the former finding c09-svg:quote, fixed in 5054993)
		for k := 1 + g.r.Intn(3); k > 0; k-- {
			g.buf = append(g.buf, g.r.PickStr([]string{"<text>5\" pipe</text>", "<a title='it\"s'/>", "\"", "'", "it's", "<t>'a\"</t>",
				"<a t='>\"</" + name + ">'/>", "<a t=\">'</" + name + ">\" u='\"'>", "<!-- \" ' -->", "<?pi \"'?>", "<![CDATA[\"']]>", "<b x=\"'\" y='\"'>\"</b>",
				"<!-- </" + name + "> -->", "<![CDATA[</" + name + ">]]>", "<?pi </" + name + ">?>", "<!---->", "<![CDATA[]]]>", "<!-- <a b=\" -->", "<?x?>"})...)
		}
		quote = true
	}
	for i := 0; i < n; i++ {
		g.buf = append(g.buf, g.r.PickStr([]string{"<g>", "</g>", "<path d=\"M0 0</" + name + ">\"/>", "t", " ", "</" + name + "x>", "<a b='c'>", "</" + name[:len(name)-1] + ">", "<!-- c -->", "<" + name + "2>", "&lt;"})...)
		g.maybeRegion(name, []string{"</" + name + ">"})
	}
	g.buf = append(g.buf, "</"...)
	g.buf = append(g.buf, g.caseVar(name)...)
	if g.r.Chance(1, 4) {
		g.buf = append(g.buf, ' ')
	}
	g.buf = append(g.buf, '>')
	d := append([]byte{}, g.buf[start:]...)
	copy(d[1:1+len(name)], name)
	ty := html.SVGToken
	if name == "math" {
		ty = html.MathToken
	} else if name == "xml" {
		ty = html.XMLToken
	}
	e := c09ExpTok{ty: ty, data: d, text: []byte(name), ctx: name}
	if quote {
		e.key = "c09-svg:quote"
	}
	g.exp = append(g.exp, e)
	g.lastTx = false
}

// c09GenDoc builds a document from the construct grammar.
func c09GenDoc(r *Rng, tb, te string, nConstructs int, tmplP int) *c09DocGen {
	return c09GenDocCtx(r, tb, te, nConstructs, tmplP, nil)
}

func c09GenDocCtx(r *Rng, tb, te string, nConstructs int, tmplP int, allow map[string]bool) *c09DocGen {
	g := &c09DocGen{r: r, tb: tb, te: te, exact: true, tmplP: tmplP, allow: allow}
	c09BuildDoc(g, nConstructs)
	return g
}

func c09BuildDoc(g *c09DocGen, nConstructs int) {
	r, tb := g.r, g.tb
	for i := 0; i < nConstructs; i++ {
		switch r.Intn(12) {
		case 0, 1:
			g.text()
		case 2:
			g.comment()
		case 3:
			if i == 0 || r.Chance(1, 4) {
				g.doctype()
			} else {
				g.text()
			}
		case 4:
			g.cdata()
		case 5, 6:
			g.element()
		case 7:
			g.endTag(g.tagName(c09PlainNames))
		case 8, 9:
			g.rawElement()
		case 10:
			g.foreign()
		default:
			if tb != "" {
				g.tmplToken()
			} else if r.Chance(1, 3) {
				g.bogus()
			} else {
				g.text()
			}
		}
	}
	if r.Chance(1, 10) {
		// plaintext swallows the rest of the document
		g.openTag(g.caseVar("plaintext"), false)
		start := len(g.buf)
		g.buf = append(g.buf, r.PickStr([]string{"", "a</plaintext><b>", "<!-- x", "</PLAINTEXT >"})...)
		if len(g.buf) > start {
			d := append([]byte{}, g.buf[start:]...)
			g.exp = append(g.exp, c09ExpTok{ty: html.TextToken, data: d, text: d, ctx: "rawtext:plaintext"})
		}
	}
}

var c09TmplKinds = []struct {
	k      int
	tb, te string
}{{0, "", ""}, {1, "{{", "}}"}, {4, "<%", "%>"}, {6, "<?", "?>"}}

// mutate damages a document: flips, deletions, NUL / invalid UTF-8 insertions, truncation, duplication.
func c09MutateDoc(r *Rng, d []byte) []byte {
	d = append([]byte{}, d...)
	n := 1 + r.Intn(3)
	for i := 0; i < n && len(d) > 0; i++ {
		p := r.Intn(len(d))
		switch r.Intn(7) {
		case 0:
			d[p] ^= byte(1 << uint(r.Intn(8)))
		case 1:
			d = append(d[:p], d[p+1:]...)
		case 2:
			d = append(d[:p], append([]byte{0}, d[p:]...)...)
		case 3:
			d = append(d[:p], append([]byte{r.Pick([]byte{0xC3, 0xFF, 0x80, 0xE2})}, d[p:]...)...)
		case 4:
			d = d[:p]
		case 5:
			d = append(d[:p], append([]byte{r.Pick([]byte("<>/!-=\"' \t{}%?"))}, d[p:]...)...)
		default:
			q := r.Intn(len(d))
			if p > q {
				p, q = q, p
			}
			d = append(d[:q], append(append([]byte{}, d[p:q]...), d[q:]...)...)
		}
	}
	return d
}

var c09Tricky = []string{
	"<a b=c/>", "<a b=c />", "<a/b>", "<a / >", "<a/>", "<a /x>", "</a/>", "</a b='c'>", "<a b='c'd>", "<a b=\"c\"/>", "<a b = c>", "<a b\t=\nc>", "<a b=>", "<a =b>", "<a b==c>",
	"<a b='c", "<a b=\"c", "<a b=c", "<a b", "<a ", "<a", "<", "</", "</>", "</ >", "</a", "</a ", "<!", "<!-", "<!--", "<!-->", "<!--->", "<!---->", "<!--a--!>b", "<!--a--!", "<!--a-->b", "<!--a--b-->",
	"<!doctype", "<!DOCTYPE html>", "<!doctypehtml>", "<!doctype  html>", "<!DocType>", "<!doctyp>", "<![CDATA[", "<![CDATA[]]>", "<![CDATA[]]", "<![CDATA[a]]]>b", "<![cdata[a]]>", "<?php x ?>", "<?>", "<?",
	"<script></SCRIPT>", "<SCRIPT>a</script >", "<script></scriptx></script>", "<script></script-x></script>", "<script><!--<script></script>--></script>", "<script><!--</script>", "<script><!--<script>x</script>y</script>",
	"<script><!--<SCRIPT ></ScRiPt>--></script>", "<script><!-->x</script>", "<script><!--->x</script>", "<script><!--<scriptx></script>", "<script><!--<script</script>", "<script>a<b</script>", "<script/>a</script>",
	"<style></style>", "<style>a</STYLE\n>b", "<title></title-x>b</title>", "<textarea></textarea x>", "<xmp><b></xmp>", "<iframe></iframes></iframe>", "<plaintext>a</plaintext><b>", "<PlainText/>x",
	"<svg><text>5\" pipe</text></svg><p>", "<svg a='>\"</svg>'>x</svg>y", "<svg a=\">'</svg>\">'</svg>y", "<math><!-- \" --></math>x", "<svg><?pi '?></svg>x", "<svg><![CDATA[\"]]></svg>x", "<svg a=\"", "<svg a='\x00'></svg>", "<svg>'<a b=\"</svg>\"></svg>x", "<svg/></svg>x", "<svg '>'></svg>x", "<svg>\"</svg>'</svg>", "<xml a=\"'\" b='\"'>\"'</xml>x", "<svg><</svg>", "<svg><!a \"></svg>", "<svg><a\"></svg>\"></svg>x",
	"<svg><!-- </svg> --><g/></svg>x", "<svg><![CDATA[</svg>]]></svg>x", "<math><!--</math>--></math>", "<svg><?pi </svg>?></svg>",
	"<svg><!--</svg>", "<svg><![CDATA[</svg>]]", "<svg><?pi </svg>?", "<svg><!---></svg>x", "<svg><!----></svg>x", "<svg><!--></svg>--></svg>x", "<svg><![CDATA[]]]></svg>x", "<svg><![CDATA[]]></svg>x", "<svg><![CDATA[", "<svg><![CDAT[</svg>]]>", "<svg><!-- \x00 --></svg>x", "<svg><![CDATA[\x00]]></svg>", "<svg><?\x00?></svg>", "<svg><?></svg>x", "<svg><??></svg>x", "<svg><?", "<svg a='<!--'></svg>x", "<svg><!-- ' \" --><a b='-->'/></svg>x", "<math><?x?><![CDATA[a]]><!----></math>y", "<svg><!-</svg>", "<svg><!></svg>x",
	"<svg></SVG>", "<svg><path d=\"</svg>\"/></svg>x", "<svg>\"</svg>", "<svg></svgx></svg >", "<svg", "<svg>", "<svg></svg", "<svg>\x00</svg><svg></svg>x<math></math>", "<math></MATH>", "<xml></xml>", "<svgx></svgx>",
	"a<b", "a< b", "a<", "a<1", "<a>\x00</a>", "\x00", "a\x00<b>\x00</b>", "<a\x00b=c\x00>", "</a\x00>", "<a b='\x00'>", "</\x00", "</\x00>", "<\x00",
	"</A{{X}}>", "</A{{ X.Y }} {{Z}}>", "</{{X}}>", "</AB{", "</A{{",
	"</A B=C>", "</A X=Y \f>", "</Ab/Cd>", "</A\tB='C D'/>", "</a\f>", "</a \f >", "</a\f", "</A", "</AB>", "</", "<A B=C>",
	"<title>a</title-x>b</title", "<title>a</title", "<title>a</title/>", "<title>a</title\f>", "<title>a</TITLE\n>", "<title></title1></title>", "<title></title=></title >",
	"<script><!--a</script-x>b--></script>c", "<script><!--<script></script-x></script>", "<script><!--<script-x></script>b--></script>c", "<script><!--<SCRIPT\f></script/></script>", "<script><!--<script", "<style></style\x00></style>", "<xmp></xmp\x00", "<a B>", "</a\r>", "</a\f>", "</a \t\n\r>", "<a\fb\f=\fc\f>", "<a b='c'\f/>",
	"{{x}}", "a{{x}}b", "{{", "{{\"}}\"}}", "{{'\\'}}'}}", "{{\"\\\\\"}}", "<a{{x}}>", "<a {{x}}={{y}}>", "<a b={{y}}{{z}}c>", "<a b=\"{{\"}}\"{{x}}>", "<a b='c'{{x}}>", "<script>{{\"</script>\"}}</script>",
	"<%x%>", "a<%x%>b", "<a<%x%>>", "<a b=<%x%>>", "<script><%\"</script>\"%></script>", "<?x?>", "a<?x?>b", "<a <?x?>>", "<!--{{x}}-->", "</a{{x}}>", "<svg>{{x}}</svg>",
}

// symbol alphabet of the exhaustive enumeration; B/E stand for the delimiter pair (or '{' '}' without templates)
func c09Symbols(tb, te string) []string {
	b, e := "{", "}"
	if tb != "" {
		b, e = tb, te
	}
	return []string{"<", ">", "/", "!", "-", "=", "\"", "'", "a", "script", " ", b, e, "\x00"}
}

func c09AllSymbolStrings(syms []string, k int, f func([]byte)) {
	var rec func(prefix []byte, depth int)
	rec = func(prefix []byte, depth int) {
		f(append([]byte{}, prefix...))
		if depth == k {
			return
		}
		for _, s := range syms {
			rec(append(prefix, s...), depth+1)
		}
	}
	rec(nil, 0)
}

var c09Model = &Model{
	Name: "html",
	Gen: func(r *Rng, tier string, emit func(Case)) {
		// (a) exhaustive small scope
		depth := map[int]int{0: 4, 1: 4, 4: 3, 6: 3}
		if tier == "thorough" {
			depth = map[int]int{0: 5, 1: 5, 4: 5, 6: 5}
		}
		for _, tk := range c09TmplKinds {
			c09AllSymbolStrings(c09Symbols(tk.tb, tk.te), depth[tk.k], func(d []byte) {
				emit(c09Case(tk.k, d, 2, ""))
			})
		}
		// fixed cases: one per branch / boundary that a one-line change of lex.go is likely to move
		for _, f := range c09Tricky {
			for _, tk := range c09TmplKinds {
				emit(c09Case(tk.k, []byte(f), 2, ""))
			}
		}
		// (b) structured documents, (c) malformed
		n := 6000
		if tier == "thorough" {
			n = 150000
		}
		for i := 0; i < n; i++ {
			tk := c09TmplKinds[i%len(c09TmplKinds)]
			k := tk.k
			if k == 1 {
				k = 1 + r.Intn(3)
			} else if k == 4 {
				k = 4 + r.Intn(2)
			}
			g := &c09DocGen{r: r, tb: tk.tb, te: tk.te, exact: true, tmplP: 40, loose: i%2 == 0, quoteInForeign: i%3 == 0}
			c09BuildDoc(g, 1+r.Intn(5))
			d := g.buf
			if i%3 == 2 {
				d = c09MutateDoc(r, d)
			}
			if len(d) > 400 {
				d = d[:400]
			}
			emit(c09Case(k, d, 1+r.Intn(2), ""))
		}
		// (d) custom delimiter pairs (the theorems quantify over all NUL-free pairs)
		m := 1500
		if tier == "thorough" {
			m = 40000
		}
		customs := [][2]string{{"{", "}"}, {"[[", "]]"}, {"<!--", "-->"}, {"${", "}"}, {"a", "b"}, {"\"", "\""}, {"<", ">"}, {"{{", ""}, {"{%", "%}"}, {" ", "\n"}, {"</", ">"}, {"=", "="}}
		for i := 0; i < m; i++ {
			cu := customs[i%len(customs)]
			var d []byte
			if i%2 == 0 {
				g := c09GenDoc(r, cu[0], cu[1]+"", 1+r.Intn(3), 40)
				if cu[1] == "" {
					g = c09GenDoc(r, "", "", 1+r.Intn(3), 0)
				}
				d = g.buf
			} else {
				syms := c09Symbols(cu[0], cu[1])
				for j := r.Intn(8); j > 0; j-- {
					d = append(d, r.PickStr(syms)...)
				}
			}
			if len(d) > 300 {
				d = d[:300]
			}
			emit(c09CaseCustom([]byte(cu[0]), []byte(cu[1]), d, 2))
		}
	},
	Impl: c09Impl,
	Shrink: func(c Case) []Case {
		a := c.Args
		dv, rest := takeList(a[2:])
		var out []Case
		mk := func(nd []int64, n int64) {
			args := []int64{a[0], n, int64(len(nd))}
			args = append(args, nd...)
			args = append(args, rest...)
			out = append(out, Case{Fn: c.Fn, Args: args, Note: fmt.Sprintf("k=%d n=%d %q", a[0], n, toBytes(nd))})
		}
		// halves first, then single bytes, then fewer calls
		if len(dv) > 8 {
			mk(dv[:len(dv)/2], a[1])
			mk(dv[len(dv)/2:], a[1])
		}
		for i := range dv {
			nd := append(append([]int64{}, dv[:i]...), dv[i+1:]...)
			mk(nd, a[1])
		}
		if a[1] > 1 {
			mk(dv, a[1]-1)
		}
		return out
	},
	Class: func(c Case, out []int64) string {
		k := c.Args[0]
		s := fmt.Sprintf("k%d", k)
		if len(out) > 0 && out[len(out)-1] == -1 {
			return s + "/panic"
		}
		n := c.Args[2]
		switch {
		case n <= 5:
			s += "/len<=5"
		case n <= 40:
			s += "/len<=40"
		default:
			s += "/len>40"
		}
		return s
	},
}

// ---- oracles: the property text checked directly on the implementation -------------------------------

type c09ObsTok struct {
	ty       html.TokenType
	off, end int // position of data in the input (-1: nil/empty)
	data     []byte
	text     []byte
	textOff  int
	val      []byte
	valOff   int
	has      bool
	offset   int // Input.Offset() after the call
	err      error
}

func c09SliceOff(base, s []byte) int {
	if len(s) == 0 || len(base) == 0 {
		return -1
	}
	d := uintptr(unsafe.Pointer(&s[0])) - uintptr(unsafe.Pointer(&base[0]))
	if d < uintptr(len(base)) {
		return int(d)
	}
	return -2
}

// c09LexAll drives the real lexer: until the first ErrorToken, then `extra` more calls. Returns nil on a panic.
func c09LexAll(d []byte, tmpl *[2]string, extra int) (toks []c09ObsTok, panicked interface{}) {
	in, l := c09NewLexer(d, tmpl)
	base := in.Bytes()
	panicked = catch(func() {
		seenErr := false
		for calls := 0; calls < len(d)+3+extra; calls++ {
			tt, data := l.Next()
			t := c09ObsTok{ty: tt, off: c09SliceOff(base, data), data: append([]byte{}, data...), text: append([]byte{}, l.Text()...), textOff: c09SliceOff(base, l.Text()),
				val: append([]byte{}, l.AttrVal()...), valOff: c09SliceOff(base, l.AttrVal()), has: l.HasTemplate(), offset: in.Offset(), err: l.Err()}
			t.end = t.off + len(data)
			toks = append(toks, t)
			if tt == html.ErrorToken {
				if seenErr {
					extra--
				}
				seenErr = true
				if extra <= 0 {
					return
				}
			}
		}
	})
	return
}

func c09IsWS(c byte) bool { return c == ' ' || c == '\t' || c == '\n' || c == '\r' || c == '\f' }

// c09CheckInvariants: C01/C02 clauses and attribute bracketing on an arbitrary input.
func c09CheckInvariants(rep *Report, kind string, d []byte, tmpl *[2]string) {
	key := fmt.Sprintf("%s:%x", kind, d)
	viol := func(k, msg string) {
		rep.Violate(k, fmt.Sprintf("%s on %q (delims %v)", msg, d, tmpl), map[string]interface{}{"input": hx(d), "delims": fmt.Sprint(tmpl)})
	}
	toks, p := c09LexAll(d, tmpl, 2)
	if p != nil {
		viol("c09-panic:"+key, fmt.Sprintf("panic %v", p))
		return
	}
	pos := 0
	inTag := false
	firstErr := -1
	for i, t := range toks {
		if t.ty == html.ErrorToken {
			firstErr = i
			break
		}
		if len(t.data) == 0 {
			viol("c09-tiling:empty:"+key, fmt.Sprintf("token %d (%v) is empty", i, t.ty))
			return
		}
		if t.off < pos || t.end > len(d) {
			viol("c09-tiling:order:"+key, fmt.Sprintf("token %d (%v) at [%d,%d) after position %d", i, t.ty, t.off, t.end, pos))
			return
		}
		if t.offset != t.end {
			viol("c09-tiling:offset:"+key, fmt.Sprintf("token %d ends at %d but Offset() is %d", i, t.end, t.offset))
		}
		for j := pos; j < t.off; j++ {
			if !c09IsWS(d[j]) || (t.ty != html.StartTagCloseToken && t.ty != html.StartTagVoidToken) {
				viol("c09-tiling:gap:"+key, fmt.Sprintf("byte %d (%q) before token %d (%v) is not covered", j, d[j], i, t.ty))
				return
			}
		}
		// bytes: equal to the input except for the ASCII case of tag and attribute names
		nameLo, nameHi := -1, -1
		switch t.ty {
		case html.StartTagToken, html.SVGToken, html.MathToken, html.XMLToken:
			nameLo, nameHi = t.textOff, t.textOff+len(t.text)
		case html.AttributeToken:
			nameLo, nameHi = t.textOff, t.textOff+len(t.text)
		case html.EndTagToken:
			nameLo = t.off + 2
			nameHi = nameLo
			for nameHi < t.end && !c09IsWS(d[nameHi]) && d[nameHi] != '>' && d[nameHi] != '/' {
				nameHi++
			}
		}
		for j := 0; j < len(t.data); j++ {
			o, n := d[t.off+j], t.data[j]
			if o == n {
				continue
			}
			if !(o >= 'A' && o <= 'Z' && n == o+32) {
				viol("c09-tiling:bytes:"+key, fmt.Sprintf("token %d (%v) byte %d is %q, input has %q", i, t.ty, j, n, o))
				return
			}
			if !(t.off+j >= nameLo && t.off+j < nameHi) {
				if t.ty == html.EndTagToken {
					viol("c09-case:endtag", fmt.Sprintf("end tag %q returned as %q: bytes after the tag name are lower-cased", d[t.off:t.end], t.data))
				} else {
					viol("c09-case:"+key, fmt.Sprintf("token %d (%v): byte %d outside the name is lower-cased", i, t.ty, j))
				}
				break
			}
		}
		// sub-slices
		if len(t.text) > 0 && (t.textOff < t.off || t.textOff+len(t.text) > t.end) {
			viol("c09-subslice:text:"+key, fmt.Sprintf("token %d (%v): Text() [%d,+%d) outside the token [%d,%d)", i, t.ty, t.textOff, len(t.text), t.off, t.end))
		}
		if t.ty == html.AttributeToken && len(t.val) > 0 && (t.valOff < t.off || t.valOff+len(t.val) > t.end) {
			viol("c09-subslice:val:"+key, fmt.Sprintf("token %d: AttrVal() outside the token", i))
		}
		// bracketing
		isAttrish := t.ty == html.AttributeToken || t.ty == html.StartTagCloseToken || t.ty == html.StartTagVoidToken
		if isAttrish != inTag {
			viol("c09-bracketing:"+key, fmt.Sprintf("token %d (%v) with inTag=%v", i, t.ty, inTag))
			return
		}
		inTag = t.ty == html.StartTagToken || t.ty == html.AttributeToken
		pos = t.end
	}
	if firstErr < 0 {
		viol("c09-progress:"+key, fmt.Sprintf("no ErrorToken within %d calls", len(toks)))
		return
	}
	e := toks[firstErr]
	if e.off >= 0 || len(e.data) != 0 {
		viol("c09-error-data:"+key, "ErrorToken with data")
	}
	if e.err == io.EOF {
		for j := pos; j < len(d); j++ {
			if !c09IsWS(d[j]) || !inTag {
				viol("c09-tiling:tail:"+key, fmt.Sprintf("byte %d (%q) is not covered by any token before the end-of-input report", j, d[j]))
				break
			}
		}
		if e.offset != len(d) {
			viol("c09-eof-offset:"+key, fmt.Sprintf("end of input reported at offset %d of %d", e.offset, len(d)))
		}
		// sticky
		for _, t := range toks[firstErr+1:] {
			if t.ty != html.ErrorToken || t.err != io.EOF || t.offset != e.offset || len(t.data) != 0 {
				viol("c09-sticky:"+key, fmt.Sprintf("after the end-of-input report a call returned %v %q err=%v", t.ty, t.data, t.err))
			}
		}
	} else if e.err == nil {
		viol("c09-error-nil:"+key, "ErrorToken with Err()==nil")
	}
	rep.Eval(key, len(toks) > 2, kind)
}

// c09CheckRawText: after the start tag of a raw-text element has been closed, the content is one Text token that
// ends at end of input or right before an end tag of that very element.
func c09CheckRawText(rep *Report, d []byte, tmpl *[2]string) {
	toks, p := c09LexAll(d, tmpl, 0)
	if p != nil {
		return
	}
	viol := func(k, msg string) {
		rep.Violate(k, fmt.Sprintf("%s on %q (delims %v)", msg, d, tmpl), map[string]interface{}{"input": hx(d), "delims": fmt.Sprint(tmpl)})
	}
	raw := ""
	for i := 0; i < len(toks); i++ {
		t := toks[i]
		if t.ty == html.ErrorToken {
			break
		}
		switch t.ty {
		case html.StartTagToken:
			raw = ""
			switch string(t.text) {
			case "script", "style", "title", "textarea", "xmp", "iframe", "plaintext":
				raw = string(t.text)
			}
		case html.StartTagCloseToken, html.StartTagVoidToken:
			if raw == "" || i+1 >= len(toks) {
				continue
			}
			n := toks[i+1]
			j := i + 1
			if n.ty == html.TextToken {
				j = i + 2
			} else if n.ty != html.EndTagToken && n.ty != html.ErrorToken {
				viol("c09-rawtext:markup:"+raw, fmt.Sprintf("content of <%s> tokenised as %v %q", raw, n.ty, n.data))
				raw = ""
				continue
			}
			if j < len(toks) {
				e := toks[j]
				if raw == "plaintext" {
					if e.ty != html.ErrorToken {
						viol("c09-rawtext:plaintext", fmt.Sprintf("token %v after plaintext content", e.ty))
					}
				} else if e.ty == html.EndTagToken {
					if string(e.text) != raw && !bytes.HasPrefix(e.text, []byte(raw+" ")) && !bytes.HasPrefix(e.text, []byte(raw+"\t")) &&
						!bytes.HasPrefix(e.text, []byte(raw+"\n")) && !bytes.HasPrefix(e.text, []byte(raw+"\r")) && !bytes.HasPrefix(e.text, []byte(raw+"\f")) && !bytes.HasPrefix(e.text, []byte(raw+"/")) {
						k := "c09-rawtext:endtag-prefix"
						if raw == "script" && n.ty == html.TextToken && bytes.Contains(n.data, []byte("<!--")) {
							k = "c09-rawtext:endtag-prefix-script-comment" // the check of the byte after the name is missing in the "<!--" branch
						}
						viol(k, fmt.Sprintf("raw text of <%s> ended at the end tag %q whose name is %q", raw, e.data, e.text))
					}
				} else if e.ty != html.ErrorToken {
					viol("c09-rawtext:end:"+raw, fmt.Sprintf("raw text of <%s> followed by %v %q", raw, e.ty, e.data))
				}
			}
			raw = ""
		}
	}
}

func c09TmplPtr(tb, te string) *[2]string {
	if tb == "" {
		return nil
	}
	return &[2]string{tb, te}
}

func c09Invariants(r *Rng, tier string, rep *Report) {
	// fixed witnesses first
	c09CheckInvariants(rep, "witness", []byte("</a X=Y>"), nil)
	c09CheckRawText(rep, []byte("<title>a</title-x>b</title>c"), nil)
	c09CheckRawText(rep, []byte("<script><!--a</script-x>b--></script>c"), nil)
	c09CheckRawText(rep, []byte("<script>a</script-x>b</script>c"), nil)
	for _, w := range []string{"</A X=Y>", "</a\f>", "</a \f >", "</A\tB='C D'/>", "</Ab/Cd>", "<title>a</TITLE-x>b</title", "<title>a</title", "<textarea>a</textarea\f>"} {
		c09CheckInvariants(rep, "witness", []byte(w), nil)
		c09CheckRawText(rep, []byte(w), nil)
	}
	depth := 4
	n := 20000
	if tier == "thorough" {
		depth, n = 5, 600000
	}
	for _, tk := range c09TmplKinds {
		dd := depth
		if tk.k != 0 && tier != "thorough" {
			dd = 3
		}
		c09AllSymbolStrings(c09Symbols(tk.tb, tk.te), dd, func(d []byte) {
			c09CheckInvariants(rep, fmt.Sprintf("exh%d", tk.k), d, c09TmplPtr(tk.tb, tk.te))
		})
	}
	for i := 0; i < n; i++ {
		tk := c09TmplKinds[i%len(c09TmplKinds)]
		g := c09GenDoc(r, tk.tb, tk.te, 1+r.Intn(6), 30)
		d := g.buf
		if i%2 == 1 {
			d = c09MutateDoc(r, d)
		}
		c09CheckInvariants(rep, fmt.Sprintf("doc%d", tk.k), d, c09TmplPtr(tk.tb, tk.te))
		c09CheckRawText(rep, d, c09TmplPtr(tk.tb, tk.te))
	}
}

// c09CompareExp checks the tokens of d against the promised ones; reports the first difference.
func c09CompareExp(rep *Report, d []byte, tb, te string, exp []c09ExpTok) {
	toks, p := c09LexAll(d, c09TmplPtr(tb, te), 0)
	key := fmt.Sprintf("%s:%x", tb, d)
	viol := func(k, msg string) {
		rep.Violate(k, fmt.Sprintf("%s on %q (delims %q %q)", msg, d, tb, te), map[string]interface{}{"input": hx(d), "tb": tb, "te": te})
	}
	if p != nil {
		viol("c09-panic:"+key, fmt.Sprintf("panic %v", p))
		return
	}
	for j, e := range exp {
		k := func(kind string) string {
			if e.key != "" {
				return e.key
			}
			return "c09-constructs:" + kind + ":" + e.ctx
		}
		if j >= len(toks) {
			viol(k("missing"), fmt.Sprintf("token %d (%v, %s) missing", j, e.ty, e.ctx))
			return
		}
		t := toks[j]
		if t.ty != e.ty {
			viol(k("type"), fmt.Sprintf("token %d: got %v %q, want %v (%s)", j, t.ty, t.data, e.ty, e.ctx))
			return
		}
		if e.data != nil && !bytes.Equal(t.data, e.data) {
			viol(k("data"), fmt.Sprintf("token %d (%v): got %q, want %q", j, t.ty, t.data, e.data))
			return
		}
		if e.text != nil && !bytes.Equal(t.text, e.text) {
			viol(k("text"), fmt.Sprintf("token %d (%v %q): Text() %q, want %q", j, t.ty, t.data, t.text, e.text))
			return
		}
		if e.chkVal && !bytes.Equal(t.val, e.val) {
			viol(k("val"), fmt.Sprintf("token %d (%v %q): AttrVal() %q, want %q", j, t.ty, t.data, t.val, e.val))
			return
		}
	}
	if len(toks) != len(exp)+1 || toks[len(toks)-1].ty != html.ErrorToken || toks[len(toks)-1].err != io.EOF {
		viol("c09-constructs:count", fmt.Sprintf("%d tokens, want %d + end of input", len(toks), len(exp)))
	}
}

// c09Constructs: documents from the construct grammar give exactly the promised tokens.
func c09Constructs(r *Rng, tier string, rep *Report) {
	n := 30000
	if tier == "thorough" {
		n = 1000000
	}
	// fixed witnesses found while reading shiftXML / shiftRawText
	c09CompareExp(rep, []byte("<svg><text>5\" pipe</text></svg><p>"), "", "", []c09ExpTok{
		{ty: html.SVGToken, data: []byte("<svg><text>5\" pipe</text></svg>"), ctx: "svg", key: "c09-svg:quote"},
		{ty: html.StartTagToken, data: []byte("<p"), ctx: "starttag"}, {ty: html.StartTagCloseToken, ctx: "close"}})
	// a comment / CDATA section / processing instruction inside svg or math that contains the element's end tag: well-formed XML
	c09CompareExp(rep, []byte("<svg><!-- </svg> --><g/></svg>x"), "", "", []c09ExpTok{
		{ty: html.SVGToken, data: []byte("<svg><!-- </svg> --><g/></svg>"), text: []byte("svg"), ctx: "svg", key: "c09-svg:comment-endtag"},
		{ty: html.TextToken, data: []byte("x"), ctx: "text"}})
	c09CompareExp(rep, []byte("<math><![CDATA[</math>]]></math>"), "", "", []c09ExpTok{
		{ty: html.MathToken, data: []byte("<math><![CDATA[</math>]]></math>"), text: []byte("math"), ctx: "math", key: "c09-svg:comment-endtag"}})
	// a template in the name of an end tag is returned verbatim (fixed in 33be37c)
	c09CompareExp(rep, []byte("</A{{X}}>"), "{{", "}}", []c09ExpTok{{ty: html.EndTagToken, data: []byte("</a{{X}}>"), text: []byte("a{{X}}"), ctx: "endtag", key: "c09-endtag:template-lowercased"}})
	c09CompareExp(rep, []byte("</AB<%X%>C >"), "<%", "%>", []c09ExpTok{{ty: html.EndTagToken, data: []byte("</ab<%X%>C >"), text: []byte("ab<%X%>C"), ctx: "endtag", key: "c09-endtag:template-lowercased"}})
	c09CompareExp(rep, []byte("</A X=Y \f>"), "", "", []c09ExpTok{{ty: html.EndTagToken, data: []byte("</a X=Y \f>"), text: []byte("a X=Y"), ctx: "endtag", key: "c09-case:endtag"}})
	c09CompareExp(rep, []byte("<title>a</title-x>b</title"), "", "", []c09ExpTok{
		{ty: html.StartTagToken, data: []byte("<title"), ctx: "starttag"}, {ty: html.StartTagCloseToken, ctx: "close"},
		{ty: html.TextToken, data: []byte("a</title-x>b"), ctx: "rawtext:title", key: "c09-rawtext:endtag-prefix"},
		{ty: html.EndTagToken, data: []byte("</title"), text: []byte("title"), ctx: "endtag"}})
	c09CompareExp(rep, []byte("<title>a</title-x>b</title>"), "", "", []c09ExpTok{
		{ty: html.StartTagToken, data: []byte("<title"), ctx: "starttag"}, {ty: html.StartTagCloseToken, ctx: "close"},
		{ty: html.TextToken, data: []byte("a</title-x>b"), ctx: "rawtext:title", key: "c09-rawtext:endtag-prefix"},
		{ty: html.EndTagToken, data: []byte("</title>"), ctx: "endtag"}})
	for i := 0; i < n; i++ {
		tk := c09TmplKinds[i%len(c09TmplKinds)]
		// regions only as tokens of their own in text: the other contexts are the business of c09Templates
		g := &c09DocGen{r: r, tb: tk.tb, te: tk.te, exact: true, tmplP: 0, quoteInForeign: i%3 == 1}
		c09BuildDoc(g, 1+r.Intn(6))
		if !g.exact {
			continue
		}
		// an opening delimiter outside the recorded regions (e.g. "<?pi ..." with the "<?" dialect) starts a region of its own
		if tk.tb != "" && strings.Contains(g.plainFrom(0), tk.tb) {
			continue
		}
		c09CompareExp(rep, g.buf, tk.tb, tk.te, g.exp)
		rep.Eval(fmt.Sprintf("k%d:%x", tk.k, g.buf), len(g.exp) >= 3, fmt.Sprintf("k%d", tk.k))
	}
	// template mode, attribute names: AttrKey() is lower-cased exactly when the NAME contains no region, whatever the value
	// contains or is followed by (the case of a template is never changed; a template in the value does not concern the name)
	c09CompareExp(rep, []byte("<a CLASS=\"btn {{.X}}\">"), "{{", "}}", []c09ExpTok{
		{ty: html.StartTagToken, data: []byte("<a"), ctx: "starttag"},
		{ty: html.AttributeToken, text: []byte("class"), val: []byte("\"btn {{.X}}\""), chkVal: true, ctx: "attr-case"},
		{ty: html.StartTagCloseToken, ctx: "close"}})
	for i := 0; i < n/4; i++ {
		tk := c09TmplKinds[1+i%(len(c09TmplKinds)-1)]
		d, exp := c09AttrCaseDoc(r, tk.tb, tk.te)
		c09CompareExp(rep, d, tk.tb, tk.te, exp)
		rep.Eval(fmt.Sprintf("ac%d:%x", tk.k, d), len(exp) >= 4, fmt.Sprintf("attrcase-k%d", tk.k))
	}
}

// c09AttrCaseDoc: one start tag whose attributes have upper / mixed-case names, with regions in the name, in the value
// (quoted and unquoted) or glued behind the value. The expectation is written from the property: names are lower-cased
// unless the name itself contains a region; values are verbatim; a region behind a quoted value is not part of AttrVal().
func c09AttrCaseDoc(r *Rng, tb, te string) ([]byte, []c09ExpTok) {
	region := func() string { return tb + r.PickStr([]string{" .X ", "x", " A.b ", ""}) + te }
	tag := r.PickStr([]string{"a", "DIV", "Input", "p"})
	buf := []byte("<" + tag)
	exp := []c09ExpTok{{ty: html.StartTagToken, data: []byte("<" + strings.ToLower(tag)), ctx: "starttag"}}
	na := 1 + r.Intn(3)
	for i := 0; i < na; i++ {
		buf = append(buf, r.PickStr([]string{" ", "\n", "  ", "\t"})...)
		// the name
		var name []byte
		nameHasT := false
		kn := 1 + r.Intn(5)
		at := -1
		if r.Chance(1, 4) {
			at = r.Intn(kn + 1)
		}
		for j := 0; j <= kn; j++ {
			if j == at {
				name = append(name, region()...)
				nameHasT = true
			}
			if j < kn {
				name = append(name, r.Pick([]byte("ABCDEFXYZabcxyz-_:9")))
			}
		}
		buf = append(buf, name...)
		key := name
		if !nameHasT {
			key = c09LowerASCII(name)
		}
		// the value
		var val []byte
		chk := true
		switch r.Intn(5) {
		case 0: // no value
			val = nil
		case 1: // unquoted, plain bytes with a region in the middle or at the end
			v := "v" + r.PickStr([]string{"", "1", "Ab"})
			if r.Chance(2, 3) {
				v += region() + r.PickStr([]string{"", "w", "Z9"})
			}
			val = []byte(v)
		case 2: // unquoted, regions only
			v := region()
			if r.Chance(1, 3) {
				v += region()
			}
			val = []byte(v)
		default: // quoted, with regions inside
			q := r.PickStr([]string{"\"", "'"})
			v := q + r.PickStr([]string{"", "btn ", "A>b ", "x=y/"})
			if r.Chance(3, 4) {
				v += region() + r.PickStr([]string{"", " c", ">"})
				if r.Chance(1, 4) {
					v += region()
				}
			}
			v += q
			val = []byte(v)
		}
		if val != nil {
			buf = append(buf, r.PickStr([]string{"=", "=", " = ", "=\n"})...)
			buf = append(buf, val...)
			if (val[0] == '"' || val[0] == '\'') && r.Chance(1, 3) {
				buf = append(buf, region()...) // glued behind the closing quote: in the token, not in AttrVal()
			}
		} else {
			val = []byte{}
			chk = false
		}
		exp = append(exp, c09ExpTok{ty: html.AttributeToken, text: key, val: val, chkVal: chk, ctx: "attr-case"})
	}
	closer := r.PickStr([]string{">", " >", "/>"})
	if last := exp[len(exp)-1]; closer == "/>" && last.chkVal && len(last.val) > 0 && last.val[0] != '"' && last.val[0] != '\'' {
		closer = " />" // a '/' directly behind an unquoted value belongs to the value
	}
	buf = append(buf, closer...)
	if buf[len(buf)-2] == '/' {
		exp = append(exp, c09ExpTok{ty: html.StartTagVoidToken, ctx: "close"})
	} else {
		exp = append(exp, c09ExpTok{ty: html.StartTagCloseToken, ctx: "close"})
	}
	return buf, exp
}

// c09Templates: a delimited region is never split and HasTemplate() is true exactly for the tokens that contain one.
func c09Templates(r *Rng, tier string, rep *Report) {
	n := 40000
	if tier == "thorough" {
		n = 1000000
	}
	// fixed witnesses of DESIGN.md section 2
	fixed := []struct{ doc, tb, te, ctx string }{
		{"<!-- {{x}} -->", "{{", "}}", "comment"}, {"<!-- {{ \"-->\" }} -->a", "{{", "}}", "comment"}, {"</a{{x}}>", "{{", "}}", "endtag"},
		{"<svg>{{\"</svg>\"}}</svg>", "{{", "}}", "svg"}, {"<math>{{\"</math>\"}}</math>", "{{", "}}", "math"}, {"<!doctype {{\">\"}}>", "{{", "}}", "doctype"},
		// further contexts in which the lexer does not look for delimiters (found while modelling)
		{"<xml>{{\"</xml>\"}}</xml>", "{{", "}}", "xml"}, {"<![CDATA[{{\"]]>\"}}]]>", "{{", "}}", "cdata"},
		{"<script><% \"</script>\" %></script>", "<%", "%>", "rawtext-lt"}, {"<script><!-- {{ \"-->\" }} --></script>", "{{", "}}", "script-comment"},
		{"<a b=c{{ x }}>", "{{", "}}", "attrval-unquoted-mid"},
		{"<plaintext>a{{x}}b", "{{", "}}", "plaintext"}, {"<PLAINTEXT ><% \"", "<%", "%>", "plaintext"},
		// and the contexts in which it does
		{"a{{ \"<b>\" }}c", "{{", "}}", "text"}, {"<script>{{ \"</script>\" }}</script>", "{{", "}}", "rawtext"}, {"<a{{ \">\" }}>", "{{", "}}", "tagname"},
		{"<a {{ \">\" }}b=c>", "{{", "}}", "attrname"}, {"<a b={{ \">\" }}{{x}}>", "{{", "}}", "attrval-start"}, {"<a b=\"x{{ '\"' }}\">", "{{", "}}", "attrval-quoted"},
		{"<a b='c'{{ \">\" }}>", "{{", "}}", "attr-after"}, {"<a <% \">\" %>b=<? x ?>>", "<%", "%>", "attrname"},
	}
	check := func(d []byte, tb, te string, regs []c09Region) {
		toks, p := c09LexAll(d, c09TmplPtr(tb, te), 0)
		if p != nil {
			rep.Violate(fmt.Sprintf("c09-panic:%x", d), fmt.Sprintf("panic %v on %q", p, d), map[string]interface{}{"input": hx(d)})
			return
		}
		for _, t := range toks {
			if t.ty == html.ErrorToken {
				break
			}
			contains := ""
			for _, rg := range regs {
				if rg.p < t.end && t.end < rg.q {
					rep.Violate("c09-template:"+rg.ctx, fmt.Sprintf("region %q (in %s) is split: token %v %q ends inside it; input %q delims %q %q", d[rg.p:rg.q], rg.ctx, t.ty, t.data, d, tb, te),
						map[string]interface{}{"input": hx(d), "tb": tb, "te": te, "context": rg.ctx})
				}
				if rg.p < t.off && t.off < rg.q {
					rep.Violate("c09-template:"+rg.ctx, fmt.Sprintf("region %q (in %s) is split: token %v %q starts inside it; input %q delims %q %q", d[rg.p:rg.q], rg.ctx, t.ty, t.data, d, tb, te),
						map[string]interface{}{"input": hx(d), "tb": tb, "te": te, "context": rg.ctx})
				}
				if t.off <= rg.p && rg.p < t.end {
					contains = rg.ctx
				}
			}
			if contains != "" && !t.has {
				rep.Violate("c09-template:"+contains, fmt.Sprintf("token %v %q contains a region (in %s) but HasTemplate() is false; input %q delims %q %q", t.ty, t.data, contains, d, tb, te),
					map[string]interface{}{"input": hx(d), "tb": tb, "te": te, "context": contains})
			}
			if contains == "" && t.has {
				rep.Violate("c09-template:spurious", fmt.Sprintf("token %v %q contains no region but HasTemplate() is true; input %q delims %q %q", t.ty, t.data, d, tb, te),
					map[string]interface{}{"input": hx(d), "tb": tb, "te": te})
			}
		}
	}
	for _, f := range fixed {
		d := []byte(f.doc)
		p := bytes.Index(d, []byte(f.tb))
		q := p + len(f.tb) + c09TmplEnd(f.doc[p+len(f.tb):], f.te)
		regs := []c09Region{{p, q, f.ctx}}
		// a second region directly behind the first (attrval-start witness)
		if q < len(d) && bytes.HasPrefix(d[q:], []byte(f.tb)) {
			regs = append(regs, c09Region{q, q + len(f.tb) + c09TmplEnd(f.doc[q+len(f.tb):], f.te), f.ctx})
		}
		check(d, f.tb, f.te, regs)
		rep.Eval("fixed:"+f.doc, true, "fixed")
	}
	// one kind of context per document, so that a failure is attributed to the context that causes it
	ctxSets := [][]string{
		{"text", "tagname", "attrname", "attrval-start", "attrval-quoted", "attr-after"}, // where the lexer looks for delimiters
		{"rawtext", "rawtext-lt"}, {"comment"}, {"doctype"}, {"endtag"}, {"svg"}, {"math"}, {"xml"}, {"cdata"}, {"attrval-unquoted-mid"}, {"script-comment"},
		{"text"}, {"tagname"}, {"attrname"}, {"attrval-start"}, {"attrval-quoted"}, {"attr-after"},
	}
	for i := 0; i < n; i++ {
		tk := c09TmplKinds[1+i%(len(c09TmplKinds)-1)]
		cs := ctxSets[(i/3)%len(ctxSets)]
		allow := map[string]bool{}
		for _, c := range cs {
			allow[c] = true
		}
		g := c09GenDocCtx(r, tk.tb, tk.te, 1+r.Intn(4), 45, allow)
		// regions are exactly the recorded ones only if the rest of the document contains no delimiter: verify
		plain := g.plainFrom(0)
		if strings.Contains(plain, tk.tb) {
			continue
		}
		check(g.buf, tk.tb, tk.te, g.regs)
		ctx := "none"
		if len(g.regs) > 0 {
			ctx = cs[0]
			if len(cs) > 2 {
				ctx = "recognised"
			}
		}
		rep.Eval(fmt.Sprintf("k%d:%x", tk.k, g.buf), len(g.regs) > 0, fmt.Sprintf("k%d/%s", tk.k, ctx))
	}
}

func init() {
	props["C09"] = &PropSpec{
		Models:  []*Model{c09Model},
		Oracles: []*Oracle{{Name: "c09-invariants", Run: c09Invariants}, {Name: "c09-constructs", Run: c09Constructs}, {Name: "c09-templates", Run: c09Templates}},
	}
}
