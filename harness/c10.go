package main

import (
	"bytes"
	stdjson "encoding/json"
	"fmt"
	"io"
	"unsafe"

	"github.com/tdewolff/parse/v2"
	"github.com/tdewolff/parse/v2/json"
)

// ---- C10: JSON parser ----------------------------------------------------------------------
//
// Correspondence case "json":  ctor extra |d| d...
//   ctor 0 NewInputBytes (spare capacity), 1 NewInputString, 2 NewInput(reader), 3 NewInput(failing reader)
//   extra = number of further Next calls after the first ErrorGrammar
// Observation: State() Offset() errkind erroff, then per Next call
//   GrammarType, -1 (nil) | n b1..bn lo, State() Offset() errkind erroff ; -1 panic, -2 end, -3 out of fuel.
// Correspondence case "json_valid": |d| d...  ->  [valid_b d]   (Json/Grammar.v against encoding/json.Valid)
// Correspondence case "json_strip": |d| d...  ->  strip_ws d     (against encoding/json.Compact, valid documents only)

func c10JsonNewInput(ctor int64, d []byte) *parse.Input {
	switch ctor {
	case 0:
		b := make([]byte, len(d), len(d)+1+len(d)%3)
		copy(b, d)
		if cap(b) > len(b) {
			b[:len(b)+1][len(b)] = 0xAA
		}
		return parse.NewInputBytes(b)
	case 1:
		return parse.NewInputString(string(d))
	case 2:
		return parse.NewInput(&chunkReader{data: append([]byte{}, d...), sizes: []int{1 + len(d)%3, 0, 2}})
	default:
		return parse.NewInput(&chunkReader{data: append([]byte{}, d...), sizes: []int{2}, err: errReader, withEr: len(d)%2 == 1})
	}
}

// c10SliceOffset returns the offset of s inside base (by address), or -777 when s is not a sub-slice of base.
func c10SliceOffset(base, s []byte) int64 {
	if len(s) == 0 {
		return -778
	}
	if len(base) == 0 {
		return -777
	}
	lo := int64(uintptr(unsafe.Pointer(&s[0])) - uintptr(unsafe.Pointer(&base[0])))
	if lo < 0 || lo+int64(len(s)) > int64(len(base)) {
		return -777
	}
	return lo
}

// c10ErrTracker recovers the offset a *parse.Error was created at: a new error object appears exactly in the
// Next call that created it, at which time the cursor offset is the offset given to NewErrorLexer; this is
// validated against the line/column stored in the error.
type c10ErrTracker struct {
	data []byte
	last *parse.Error
	off  int64
}

func (t *c10ErrTracker) observe(e error, curOff int) (kind, off int64) {
	switch v := e.(type) {
	case nil:
		return 0, -1
	case *parse.Error:
		if v != t.last {
			t.last = v
			t.off = int64(curOff)
			line, col, _ := parse.Position(bytes.NewReader(t.data), curOff)
			if line != v.Line || col != v.Column {
				t.off = -777
			}
		}
		return 2, t.off
	}
	if e == io.EOF {
		return 1, -1
	}
	return 3, -1
}

func c10JsonImpl(c Case) []int64 {
	ctor, extra := c.Args[0], c.Args[1]
	dv, _ := takeList(c.Args[2:])
	d := toBytes(dv)
	in := c10JsonNewInput(ctor, d)
	p := json.NewParser(in)
	vis := d
	if ctor == 3 {
		vis = nil
	}
	tr := &c10ErrTracker{data: vis}
	var out []int64
	obs := func() bool {
		var st json.State
		if catch(func() { st = p.State() }) != nil {
			out = append(out, -1)
			return false
		}
		k, o := tr.observe(p.Err(), in.Offset())
		out = append(out, int64(st), int64(in.Offset()), k, o)
		return true
	}
	if !obs() {
		return out
	}
	fuel := len(vis) + 2 + int(extra)
	if ctor == 3 {
		fuel = len(d) + 2 + int(extra)
	}
	for ; fuel > 0; fuel-- {
		var g json.GrammarType
		var b []byte
		if catch(func() { g, b = p.Next() }) != nil {
			return append(out, -1)
		}
		out = append(out, int64(g))
		if b == nil {
			out = append(out, -1)
		} else {
			out = append(out, int64(len(b)))
			for _, x := range b {
				out = append(out, int64(x))
			}
			out = append(out, c10SliceOffset(in.Bytes(), b))
		}
		if !obs() {
			return out
		}
		if g == json.ErrorGrammar {
			if extra <= 0 {
				return append(out, -2)
			}
			extra--
		}
	}
	return append(out, -3)
}

func c10JsonCase(ctor, extra int, d []byte, note string) Case {
	args := []int64{int64(ctor), int64(extra)}
	args = append(args, bytesToArgs(d)...)
	return Case{Fn: "json", Args: args, Note: fmt.Sprintf("%s ctor=%d extra=%d %q", note, ctor, extra, d)}
}

// ---- document generator ----------------------------------------------------------------------

// c10Jtok kinds: { } [ ] , :  k(ey string)  s(tring value)  n(umber)  l(iteral)  w(hitespace)
type c10Jtok struct {
	kind byte
	b    []byte
}

func c10JoinToks(ts []c10Jtok) []byte {
	var out []byte
	for _, t := range ts {
		out = append(out, t.b...)
	}
	return out
}

var c10WsBytes = []byte{' ', '\n', '\r', '\t'}

func c10GenWS(r *Rng) c10Jtok {
	var b []byte
	if r.Chance(2, 5) {
		n := 1 + r.Intn(3)
		for i := 0; i < n; i++ {
			b = append(b, r.Pick(c10WsBytes))
		}
	}
	return c10Jtok{'w', b}
}

const c10HexDigits = "0123456789abcdefABCDEF"

func c10GenStringBody(r *Rng) []byte {
	var b []byte
	n := r.Intn(7)
	for i := 0; i < n; i++ {
		switch r.Intn(12) {
		case 0:
			b = append(b, '\\', r.Pick([]byte(`"\/bfnrt`)))
		case 1:
			b = append(b, '\\', 'u', c10HexDigits[r.Intn(22)], c10HexDigits[r.Intn(22)], c10HexDigits[r.Intn(22)], c10HexDigits[r.Intn(22)])
		case 2:
			b = append(b, '\\', '\\')
		case 3:
			b = append(b, '\\', '"')
		case 4:
			b = append(b, byte(0x80+r.Intn(0x80)))
		case 5:
			b = append(b, []byte("é€\U00010348")[r.Intn(9)])
		case 6:
			b = append(b, r.Pick([]byte("{}[],: true-0.5e+")))
		case 7:
			b = append(b, 0x7F)
		default:
			b = append(b, byte('a'+r.Intn(26)))
		}
	}
	// escapes right before the closing quote
	switch r.Intn(8) {
	case 0:
		b = append(b, '\\', '\\')
	case 1:
		b = append(b, '\\', '\\', '\\', '\\')
	case 2:
		b = append(b, '\\', '\\', '\\', '"')
	case 3:
		b = append(b, '\\', '"')
	}
	return b
}

func c10GenString(r *Rng) []byte {
	return append(append([]byte{'"'}, c10GenStringBody(r)...), '"')
}

func c10GenDigits(r *Rng, min int) []byte {
	n := min + r.Intn(3)
	var b []byte
	for i := 0; i < n; i++ {
		b = append(b, byte('0'+r.Intn(10)))
	}
	return b
}

func c10GenNumber(r *Rng) []byte {
	var b []byte
	if r.Chance(1, 3) {
		b = append(b, '-')
	}
	if r.Chance(1, 3) {
		b = append(b, '0')
	} else {
		b = append(b, byte('1'+r.Intn(9)))
		b = append(b, c10GenDigits(r, 0)...)
	}
	if r.Chance(1, 3) {
		b = append(b, '.')
		b = append(b, c10GenDigits(r, 1)...)
	}
	if r.Chance(1, 3) {
		b = append(b, r.Pick([]byte("eE")))
		switch r.Intn(3) {
		case 0:
			b = append(b, '+')
		case 1:
			b = append(b, '-')
		}
		b = append(b, c10GenDigits(r, 1)...)
	}
	return b
}

// c10GenValue appends the tokens of one value (no surrounding whitespace)
func c10GenValue(r *Rng, depth int, ts []c10Jtok) []c10Jtok {
	k := r.Intn(10)
	if depth <= 0 && k >= 6 {
		k = r.Intn(6)
	}
	switch {
	case k < 2:
		return append(ts, c10Jtok{'l', []byte(r.PickStr([]string{"true", "false", "null"}))})
	case k < 4:
		return append(ts, c10Jtok{'n', c10GenNumber(r)})
	case k < 6:
		return append(ts, c10Jtok{'s', c10GenString(r)})
	case k < 8:
		ts = append(ts, c10Jtok{'[', []byte("[")}, c10GenWS(r))
		n := r.Intn(4)
		for i := 0; i < n; i++ {
			if i > 0 {
				ts = append(ts, c10Jtok{',', []byte(",")}, c10GenWS(r))
			}
			ts = c10GenValue(r, depth-1, ts)
			ts = append(ts, c10GenWS(r))
		}
		return append(ts, c10Jtok{']', []byte("]")})
	default:
		ts = append(ts, c10Jtok{'{', []byte("{")}, c10GenWS(r))
		n := r.Intn(4)
		for i := 0; i < n; i++ {
			if i > 0 {
				ts = append(ts, c10Jtok{',', []byte(",")}, c10GenWS(r))
			}
			ts = append(ts, c10Jtok{'k', c10GenString(r)}, c10GenWS(r), c10Jtok{':', []byte(":")}, c10GenWS(r))
			ts = c10GenValue(r, depth-1, ts)
			ts = append(ts, c10GenWS(r))
		}
		return append(ts, c10Jtok{'}', []byte("}")})
	}
}

func c10GenDoc(r *Rng, depth int) []c10Jtok {
	ts := []c10Jtok{c10GenWS(r)}
	ts = c10GenValue(r, depth, ts)
	return append(ts, c10GenWS(r))
}

var c10JsonMutAlphabet = []byte("{}[],:\"\\01-.eEtfn \n\x00\x80+u/")

func c10MutateBytes(r *Rng, d []byte) []byte {
	out := append([]byte{}, d...)
	n := 1 + r.Intn(2)
	for i := 0; i < n; i++ {
		switch r.Intn(5) {
		case 0: // flip
			if len(out) > 0 {
				out[r.Intn(len(out))] = r.Pick(c10JsonMutAlphabet)
			}
		case 1: // delete
			if len(out) > 0 {
				k := r.Intn(len(out))
				out = append(out[:k], out[k+1:]...)
			}
		case 2: // insert
			k := r.Intn(len(out) + 1)
			out = append(out[:k], append([]byte{r.Pick(c10JsonMutAlphabet)}, out[k:]...)...)
		case 3: // truncate
			if len(out) > 0 {
				out = out[:r.Intn(len(out))]
			}
		default: // duplicate a stretch
			if len(out) > 0 {
				a := r.Intn(len(out))
				b := a + r.Intn(len(out)-a+1)
				out = append(out[:b], append(append([]byte{}, out[a:b]...), out[b:]...)...)
			}
		}
	}
	return out
}

var c10JsonAlphabet = []byte("{}[],:\"\\01-.et ")
var c10JsonTokens = []string{"[", "]", "{", "}", ",", ":", `"k"`, "1", " "}

func c10AllTokenStrings(toks []string, k int, f func([]byte)) {
	var rec func(cur []byte, n int)
	rec = func(cur []byte, n int) {
		f(append([]byte{}, cur...))
		if n == k {
			return
		}
		for _, t := range toks {
			rec(append(cur, t...), n+1)
		}
	}
	rec(nil, 0)
}

func c10JsonGenCases(r *Rng, tier string, emit func(Case)) {
	kA, kT, kN, nRand := 4, 5, 5, 9000
	if tier == "thorough" {
		kA, kT, kN, nRand = 5, 6, 6, 200000
	}
	i := 0
	allStrings(c10JsonAlphabet, kA, func(d []byte) {
		i++
		emit(c10JsonCase(i%3, 2, d, "exh"))
	})
	c10AllTokenStrings(c10JsonTokens, kT, func(d []byte) {
		i++
		emit(c10JsonCase(i%3, 1+i%2, d, "tok"))
	})
	allStrings([]byte("-01.eE+"), kN, func(d []byte) {
		i++
		emit(c10JsonCase(1, 1, d, "num"))
	})
	allStrings([]byte("\"\\au\x00"), 5, func(d []byte) {
		i++
		emit(c10JsonCase(1, 1, append([]byte{'"'}, d...), "str"))
	})
	for _, lit := range []string{"true", "false", "null"} {
		for cut := 0; cut <= len(lit); cut++ {
			emit(c10JsonCase(1, 1, []byte(lit[:cut]), "lit"))
			emit(c10JsonCase(1, 1, []byte("["+lit[:cut]+"]"), "lit"))
			emit(c10JsonCase(1, 1, []byte(lit[:cut]+"x"), "lit"))
		}
		for k := 0; k < len(lit); k++ {
			b := []byte(lit)
			b[k] ^= 0x20
			emit(c10JsonCase(1, 1, b, "lit"))
			b[k] = 0
			emit(c10JsonCase(1, 1, b, "lit"))
		}
	}
	// all whitespace bytes at all positions of short token strings
	allStrings([]byte("\t\n\r 1[],"), 4, func(d []byte) {
		i++
		emit(c10JsonCase(i%3, 1, d, "ws"))
	})
	// deep nesting (the state stack), complete and truncated
	for _, depth := range []int{10, 100, 300} {
		a := bytes.Repeat([]byte("["), depth)
		o := bytes.Repeat([]byte(`{"a":`), depth)
		emit(c10JsonCase(1, 1, append(append(append([]byte{}, a...), '1'), bytes.Repeat([]byte("]"), depth)...), "deep"))
		emit(c10JsonCase(1, 1, append(append(append([]byte{}, o...), '1'), bytes.Repeat([]byte("}"), depth)...), "deep"))
		emit(c10JsonCase(1, 1, append(append(append([]byte{}, a...), '1'), bytes.Repeat([]byte("]"), depth-1)...), "deep"))
		emit(c10JsonCase(1, 2, append(append(append([]byte{}, o...), '1'), bytes.Repeat([]byte("}"), depth+1)...), "deep"))
		emit(c10JsonCase(1, 2, append(append([]byte{}, a...), o...), "deep"))
	}
	emit(c10JsonCase(3, 2, []byte("[1]"), "failing reader"))
	emit(c10JsonCase(3, 0, nil, "failing reader"))
	for n := 0; n < nRand; n++ {
		d := c10JoinToks(c10GenDoc(r, 1+n%4))
		note := "doc"
		switch n % 4 {
		case 1, 2:
			d = c10MutateBytes(r, d)
			note = "mut"
		case 3:
			if len(d) > 0 {
				d = d[:r.Intn(len(d)+1)]
				note = "trunc"
			}
		}
		if len(d) > 3000 {
			d = d[:3000]
		}
		emit(c10JsonCase(r.Intn(3), r.Intn(3), d, note))
	}
}

func c10JsonClass(c Case, out []int64) string {
	dv, _ := takeList(c.Args[2:])
	d := toBytes(dv)
	v := "invalid"
	if stdjson.Valid(d) {
		v = "valid"
	}
	// first error kind: scan the observation for the first ErrorGrammar record
	kind := "?"
	i := 4
	units := 0
	for i < len(out) {
		g := out[i]
		if g < 0 {
			break
		}
		i++
		if out[i] == -1 {
			i++
		} else {
			i += int(out[i]) + 2
		}
		if i+3 >= len(out) {
			break
		}
		if g == 0 {
			kind = []string{"nil", "eof", "parse", "reader"}[out[i+2]]
			break
		}
		units++
		i += 4
	}
	if len(out) > 0 && out[len(out)-1] == -1 {
		kind = "panic"
	}
	sz := "len<=4"
	switch {
	case len(d) > 64:
		sz = "len>64"
	case len(d) > 16:
		sz = "len<=64"
	case len(d) > 4:
		sz = "len<=16"
	}
	ub := "units0"
	switch {
	case units > 8:
		ub = "units>8"
	case units > 2:
		ub = "units<=8"
	case units > 0:
		ub = "units<=2"
	}
	return v + ":" + kind + ":" + sz + ":" + ub
}

func c10JsonShrink(c Case) []Case {
	dv, _ := takeList(c.Args[2:])
	d := toBytes(dv)
	var out []Case
	for i := range d {
		nd := append(append([]byte{}, d[:i]...), d[i+1:]...)
		out = append(out, c10JsonCase(int(c.Args[0]), int(c.Args[1]), nd, "shrunk"))
	}
	if c.Args[1] > 0 {
		out = append(out, c10JsonCase(int(c.Args[0]), int(c.Args[1])-1, d, "shrunk"))
	}
	return out
}

var c10JsonModel = &Model{Name: "json", Gen: c10JsonGenCases, Impl: c10JsonImpl, Shrink: c10JsonShrink, Class: c10JsonClass}

// ---- oracle: the property text checked on the implementation ------------------------------------

type c10JUnit struct {
	g       json.GrammarType
	b       []byte
	lo      int64
	state   json.State
	off     int
	errKind int64
	errOff  int64
}

// c10JsonDrive calls Next until ErrorGrammar has been returned 1+extra times (or the call budget is spent).
func c10JsonDrive(d []byte, extra int) (units []c10JUnit, panicked bool, budget bool) {
	in := parse.NewInputBytes(append([]byte{}, d...))
	p := json.NewParser(in)
	tr := &c10ErrTracker{data: d}
	for n := 0; n < len(d)+3+extra; n++ {
		var u c10JUnit
		if catch(func() {
			u.g, u.b = p.Next()
			u.state = p.State()
		}) != nil {
			return units, true, false
		}
		u.off = in.Offset()
		u.lo = c10SliceOffset(in.Bytes(), u.b)
		u.errKind, u.errOff = tr.observe(p.Err(), in.Offset())
		units = append(units, u)
		if u.g == json.ErrorGrammar {
			if extra == 0 {
				return units, false, false
			}
			extra--
		}
	}
	return units, false, true
}

// c10JsonRejoin re-joins units as the property text says: ':' after a key (a String unit after which State()
// is ObjectValueState), ',' between two units unless the first is a Start or the second an End.
func c10JsonRejoin(units []c10JUnit) []byte {
	var out []byte
	prevKey, prevStart, first := false, false, true
	for _, u := range units {
		if u.g == json.ErrorGrammar {
			break
		}
		isEnd := u.g == json.EndObjectGrammar || u.g == json.EndArrayGrammar
		switch {
		case first:
		case prevKey:
			out = append(out, ':')
		case !prevStart && !isEnd:
			out = append(out, ',')
		}
		out = append(out, u.b...)
		first = false
		prevKey = u.g == json.StringGrammar && u.state == json.ObjectValueState
		prevStart = u.g == json.StartObjectGrammar || u.g == json.StartArrayGrammar
	}
	return out
}

func c10JsonReplay(d []byte) map[string]interface{} {
	return map[string]interface{}{"input": string(d), "hex": hx(d)}
}

// c10JsonCheckGeneral: clauses that hold for every byte string (nesting, State, no panic, slices, progress,
// error offsets) plus acceptance/reconstruction when encoding/json considers d valid.
func c10JsonCheckGeneral(rep *Report, d []byte, bucket string) {
	units, panicked, budget := c10JsonDrive(d, 2)
	valid := stdjson.Valid(d)
	if panicked {
		rep.Violate("panic:"+hx(d), fmt.Sprintf("json.Parser panics on %q", d), c10JsonReplay(d))
		return
	}
	if budget {
		rep.Violate("calls:"+hx(d), fmt.Sprintf("more than len+5 calls without two error reports on %q", d), c10JsonReplay(d))
	}
	// independent stack
	var stack []byte
	expectKey := false // top is an object and the next unit must be a key
	prevOff := 0
	firstErr := -1
	for i, u := range units {
		if u.g != json.ErrorGrammar {
			if u.lo < 0 || int(u.lo)+len(u.b) != u.off || !bytes.Equal(u.b, d[u.lo:int(u.lo)+len(u.b)]) {
				// a key is returned without the colon: its end is before the offset
				isKey := u.g == json.StringGrammar && u.state == json.ObjectValueState
				if !(isKey && u.lo >= 0 && int(u.lo)+len(u.b) < u.off && bytes.Equal(u.b, d[u.lo:int(u.lo)+len(u.b)])) {
					rep.Violate("slice:"+hx(d), fmt.Sprintf("unit %d of %q is not the piece of the input ending at the offset", i, d), c10JsonReplay(d))
				}
			}
			if len(u.b) == 0 || u.off <= prevOff {
				rep.Violate("progress:"+hx(d), fmt.Sprintf("unit %d of %q is empty or does not advance", i, d), c10JsonReplay(d))
			}
		} else if firstErr < 0 {
			firstErr = i
		}
		if u.off < prevOff || u.off > len(d) {
			rep.Violate("offset:"+hx(d), fmt.Sprintf("offset %d after call %d of %q out of order/range", u.off, i, d), c10JsonReplay(d))
		}
		prevOff = u.off
		if u.errKind == 2 && (u.errOff < 0 || u.errOff > int64(len(d))) {
			rep.Violate("erroffset:"+hx(d), fmt.Sprintf("error position of %q is not the position of the byte the parser stopped at", d), c10JsonReplay(d))
		}
		switch u.g {
		case json.StartObjectGrammar, json.StartArrayGrammar:
			if expectKey {
				rep.Violate("nonstring-key:"+hx(d), fmt.Sprintf("%q: a %v unit is returned where an object key is required (no parse error at that point)", d, u.g), c10JsonReplay(d))
			}
			if u.g == json.StartObjectGrammar {
				stack = append(stack, 'o')
				expectKey = true
			} else {
				stack = append(stack, 'a')
				expectKey = false
			}
		case json.EndObjectGrammar, json.EndArrayGrammar:
			want := byte('o')
			if u.g == json.EndArrayGrammar {
				want = 'a'
			}
			if len(stack) == 0 || stack[len(stack)-1] != want {
				rep.Violate("nesting:"+hx(d), fmt.Sprintf("%q: %v for an unopened or differently-typed container", d, u.g), c10JsonReplay(d))
				return
			}
			stack = stack[:len(stack)-1]
			expectKey = len(stack) > 0 && stack[len(stack)-1] == 'o'
		case json.StringGrammar, json.NumberGrammar, json.LiteralGrammar:
			if len(stack) > 0 && stack[len(stack)-1] == 'o' {
				if expectKey {
					if u.g != json.StringGrammar {
						rep.Violate("nonstring-key:"+hx(d), fmt.Sprintf("%q: %v returned as an object key", d, u.g), c10JsonReplay(d))
					}
					if u.state != json.ObjectValueState {
						rep.Violate("state:"+hx(d), fmt.Sprintf("%q: State() after a key is %v", d, u.state), c10JsonReplay(d))
					}
					expectKey = false
				} else {
					if u.state != json.ObjectKeyState {
						rep.Violate("state:"+hx(d), fmt.Sprintf("%q: State() after a member value is %v", d, u.state), c10JsonReplay(d))
					}
					expectKey = true
				}
			}
		case json.ErrorGrammar:
		default:
			rep.Violate("grammar:"+hx(d), fmt.Sprintf("%q: unexpected GrammarType %v", d, u.g), c10JsonReplay(d))
		}
		// State() describes the innermost open container
		ok := false
		switch {
		case len(stack) == 0:
			ok = u.state == json.ValueState
		case stack[len(stack)-1] == 'a':
			ok = u.state == json.ArrayState
		default:
			ok = u.state == json.ObjectKeyState || u.state == json.ObjectValueState
			if u.g != json.ErrorGrammar && ok {
				ok = (u.state == json.ObjectKeyState) == expectKey
			}
		}
		if !ok {
			rep.Violate("state:"+hx(d), fmt.Sprintf("%q: State() after call %d is %v but the open containers are %q", d, i, u.state, stack), c10JsonReplay(d))
		}
	}
	// the end-of-input report is repeated: once Err() is io.EOF after an ErrorGrammar, it stays so and no
	// further unit is returned (a caller may keep calling after a *parse* error and get units again: allowed)
	if firstErr >= 0 {
		eofAt := -1
		for j := firstErr; j < len(units); j++ {
			if units[j].g == json.ErrorGrammar && units[j].errKind == 1 && eofAt < 0 {
				eofAt = j
			}
			if eofAt >= 0 && j > eofAt && (units[j].g != json.ErrorGrammar || units[j].errKind != 1 || units[j].state != units[eofAt].state) {
				rep.Violate("sticky-eof:"+hx(d), fmt.Sprintf("%q: io.EOF reported by call %d, call %d returns %v (Err kind %d, state %v)", d, eofAt, j, units[j].g, units[j].errKind, units[j].state), c10JsonReplay(d))
				break
			}
			if units[j].errKind == 0 {
				rep.Violate("err-nil-again:"+hx(d), fmt.Sprintf("%q: Err() is nil again after call %d", d, j), c10JsonReplay(d))
				break
			}
		}
	}
	if valid {
		if firstErr < 0 || units[firstErr].errKind != 1 {
			rep.Violate("accept:"+hx(d), fmt.Sprintf("%q is valid for encoding/json but the parser reports a parse error", d), c10JsonReplay(d))
		} else {
			var want bytes.Buffer
			stdjson.Compact(&want, d)
			got := c10JsonRejoin(units)
			if !bytes.Equal(got, want.Bytes()) {
				rep.Violate("rejoin:"+hx(d), fmt.Sprintf("%q re-joins to %q, expected %q", d, got, want.Bytes()), c10JsonReplay(d))
			}
			if len(stack) != 0 {
				rep.Violate("nesting-open:"+hx(d), fmt.Sprintf("%q: containers left open at EOF", d), c10JsonReplay(d))
			}
		}
	}
	b := bucket
	if valid {
		b += ":valid"
	} else if firstErr >= 0 && units[firstErr].errKind == 1 {
		b += ":invalid-accepted"
	} else {
		b += ":invalid-rejected"
	}
	rep.Eval(string(d), len(units) > 1, b)
}

// expectParseErrorAt: the first ErrorGrammar must carry a *parse.Error created at offset want, and no unit
// may be returned for bytes at or after want.
func c10JsonExpectErrorAt(rep *Report, d []byte, want int, what string) {
	units, panicked, _ := c10JsonDrive(d, 0)
	rep.Eval(what+":"+string(d), true, "listed:"+what)
	if panicked {
		rep.Violate("panic:"+hx(d), fmt.Sprintf("json.Parser panics on %q", d), c10JsonReplay(d))
		return
	}
	if len(units) == 0 {
		return
	}
	last := units[len(units)-1]
	if last.g != json.ErrorGrammar || last.errKind != 2 {
		key := "listed:" + what + ":" + hx(d)
		rep.Violate(key, fmt.Sprintf("%s in %q at offset %d: no parse error (Err kind %d)", what, d, want, last.errKind), c10JsonReplay(d))
		return
	}
	if last.errOff != int64(want) {
		key := "listed-at:" + what + ":" + hx(d)
		rep.Violate(key, fmt.Sprintf("%s in %q: parse error at offset %d, expected at %d", what, d, last.errOff, want), c10JsonReplay(d))
	}
}

// c10TokOffsets returns the byte offset of each token
func c10TokOffsets(ts []c10Jtok) []int {
	offs := make([]int, len(ts)+1)
	for i, t := range ts {
		offs[i+1] = offs[i] + len(t.b)
	}
	return offs
}

// c10NextSolid returns the index of the first non-whitespace token at or after i (len(ts) if none)
func c10NextSolid(ts []c10Jtok, i int) int {
	for i < len(ts) && ts[i].kind == 'w' {
		i++
	}
	return i
}

func c10ReplaceTok(ts []c10Jtok, i int, nb []byte) []c10Jtok {
	out := append([]c10Jtok{}, ts...)
	out[i] = c10Jtok{ts[i].kind, nb}
	return out
}

// c10JsonListedMutations applies each of the listed defects to the valid document ts
func c10JsonListedMutations(r *Rng, rep *Report, ts []c10Jtok) {
	offs := c10TokOffsets(ts)
	for i, t := range ts {
		switch t.kind {
		case '}', ']':
			// differently-typed closer
			other := "]"
			if t.kind == ']' {
				other = "}"
			}
			c10JsonExpectErrorAt(rep, c10JoinToks(c10ReplaceTok(ts, i, []byte(other))), offs[i], "mismatched-closer")
		case ',':
			// missing comma between two values (keep them apart when both are digits)
			j := c10NextSolid(ts, i+1)
			rep0 := []byte{}
			prev := i - 1
			for prev > 0 && ts[prev].kind == 'w' {
				prev--
			}
			if ts[prev].kind == 'n' && ts[j].kind == 'n' && offs[prev+1] == offs[i] && offs[i+1] == offs[j] {
				rep0 = []byte{' '} // "1,2" without the comma would be the single number 12
			}
			nd := c10JoinToks(c10ReplaceTok(ts, i, rep0))
			c10JsonExpectErrorAt(rep, nd, offs[j]-1+len(rep0), "missing-comma")
		case ':':
			j := c10NextSolid(ts, i+1)
			nd := c10JoinToks(c10ReplaceTok(ts, i, nil))
			c10JsonExpectErrorAt(rep, nd, offs[j]-1, "missing-colon")
		case 'k':
			alt := [][]byte{[]byte("1"), []byte("true"), []byte("null"), []byte("-0.5"), []byte("x"), []byte("'a'")}
			c10JsonExpectErrorAt(rep, c10JoinToks(c10ReplaceTok(ts, i, alt[r.Intn(len(alt))])), offs[i], "nonstring-key")
			if r.Chance(1, 4) {
				cont := [][]byte{[]byte("[1]"), []byte("{}"), []byte("[]")}
				c10JsonExpectErrorAt(rep, c10JoinToks(c10ReplaceTok(ts, i, cont[r.Intn(len(cont))])), offs[i], "nonstring-key-container")
			}
		}
	}
	// unopened closer after / before the complete document
	d := c10JoinToks(ts)
	last := len(d)
	for last > 0 && (d[last-1] == ' ' || d[last-1] == '\n' || d[last-1] == '\r' || d[last-1] == '\t') {
		last--
	}
	cl := r.Pick([]byte("]}"))
	c10JsonExpectErrorAt(rep, append(append([]byte{}, d...), cl), len(d), "unopened-closer")
	// a comma after the complete top-level value, and an illegal byte there: reported at that byte
	c10JsonExpectErrorAt(rep, append(append([]byte{}, d...), ','), len(d), "stray-comma")
	c10JsonExpectErrorAt(rep, append(append([]byte{}, d...), r.Pick([]byte("x:'#\x00\x80"))), len(d), "illegal-byte")
	first := 0
	for first < len(d) && (d[first] == ' ' || d[first] == '\n' || d[first] == '\r' || d[first] == '\t') {
		first++
	}
	nd := append(append(append([]byte{}, d[:first]...), cl), d[first:]...)
	c10JsonExpectErrorAt(rep, nd, first, "unopened-closer")
	_ = last
}

var c10JsonOracle = &Oracle{
	Name: "json-property",
	Run: func(r *Rng, tier string, rep *Report) {
		kA, kT, nDocs := 5, 6, 20000
		if tier == "thorough" {
			kA, kT, nDocs = 6, 7, 400000
		}
		allStrings(c10JsonAlphabet, kA, func(d []byte) { c10JsonCheckGeneral(rep, d, "exh") })
		c10AllTokenStrings(c10JsonTokens, kT, func(d []byte) { c10JsonCheckGeneral(rep, d, "tok") })
		for n := 0; n < nDocs; n++ {
			ts := c10GenDoc(r, 1+n%5)
			d := c10JoinToks(ts)
			c10JsonCheckGeneral(rep, d, "doc")
			if !stdjson.Valid(d) {
				rep.Violate("generator:"+hx(d), fmt.Sprintf("generated document %q is not valid for encoding/json", d), c10JsonReplay(d))
			}
			if n%2 == 0 {
				c10JsonListedMutations(r, rep, ts)
			}
			c10JsonCheckGeneral(rep, c10MutateBytes(r, d), "mut")
			if len(d) > 0 {
				c10JsonCheckGeneral(rep, d[:r.Intn(len(d))], "trunc")
			}
		}
	},
}

// ---- the specification (Json/Grammar.v) against encoding/json ----------------------------------------

func c10JsonSpecDocs(r *Rng, tier string, onlyValid bool, name string, emit func(Case)) {
	kA, kN, nRand := 4, 5, 6000
	if tier == "thorough" {
		kA, kN, nRand = 5, 6, 150000
	}
	out := func(d []byte, note string) {
		if onlyValid && !stdjson.Valid(d) {
			return
		}
		emit(Case{Fn: name, Args: bytesToArgs(d), Note: fmt.Sprintf("%s %q", note, d)})
	}
	allStrings(c10JsonAlphabet, kA, func(d []byte) { out(d, "exh") })
	c10AllTokenStrings(c10JsonTokens, kA+1, func(d []byte) { out(d, "tok") })
	allStrings([]byte("-01.eE+"), kN, func(d []byte) { out(d, "num") })
	allStrings([]byte("\t\n\r 1[],"), 4, func(d []byte) { out(d, "ws") })
	allStrings([]byte("\"\\au/0\x1f"), 5, func(d []byte) {
		out(append(append([]byte{'"'}, d...), '"'), "str")
	})
	// every byte inside a string, after a backslash, and as a hex digit
	for c := 0; c < 256; c++ {
		out([]byte{'"', byte(c), '"'}, "byte")
		out([]byte{'"', '\\', byte(c), '"'}, "esc")
		out([]byte{'"', '\\', 'u', '0', byte(c), 'a', 'F', '"'}, "hex")
		out([]byte{byte(c)}, "byte")
		out([]byte{'1', byte(c)}, "byte")
		out([]byte{'[', byte(c), ']'}, "byte")
	}
	for _, lit := range []string{"true", "false", "null"} {
		for cut := 0; cut <= len(lit); cut++ {
			out([]byte(lit[:cut]), "lit")
			out([]byte(lit[:cut]+"x"), "lit")
			out([]byte(" "+lit+lit[:cut]), "lit")
		}
	}
	for n := 0; n < nRand; n++ {
		d := c10JoinToks(c10GenDoc(r, 1+n%4))
		note := "doc"
		switch n % 3 {
		case 1:
			d = c10MutateBytes(r, d)
			note = "mut"
		case 2:
			// structural mutations that stay close to valid: drop or double a comma/colon/bracket
			if len(d) > 0 {
				k := r.Intn(len(d))
				if r.Bool() {
					d = append(append([]byte{}, d[:k]...), d[k+1:]...)
				} else {
					d = append(append(append([]byte{}, d[:k]...), d[k]), d[k:]...)
				}
				note = "near"
			}
		}
		if len(d) > 3000 {
			d = d[:3000]
		}
		out(d, note)
	}
}

func c10JsonSpecShrink(c Case) []Case {
	dv, _ := takeList(c.Args)
	d := toBytes(dv)
	var out []Case
	for i := range d {
		nd := append(append([]byte{}, d[:i]...), d[i+1:]...)
		out = append(out, Case{Fn: c.Fn, Args: bytesToArgs(nd), Note: fmt.Sprintf("shrunk %q", nd)})
	}
	return out
}

var c10JsonValidModel = &Model{
	Name: "json_valid",
	Gen:  func(r *Rng, tier string, emit func(Case)) { c10JsonSpecDocs(r, tier, false, "json_valid", emit) },
	Impl: func(c Case) []int64 {
		dv, _ := takeList(c.Args)
		if stdjson.Valid(toBytes(dv)) {
			return []int64{1}
		}
		return []int64{0}
	},
	Shrink: c10JsonSpecShrink,
	Class: func(c Case, out []int64) string {
		if out[0] == 1 {
			return "valid"
		}
		return "invalid"
	},
}

var c10JsonStripModel = &Model{
	Name: "json_strip",
	Gen:  func(r *Rng, tier string, emit func(Case)) { c10JsonSpecDocs(r, tier, true, "json_strip", emit) },
	Impl: func(c Case) []int64 {
		dv, _ := takeList(c.Args)
		var buf bytes.Buffer
		if err := stdjson.Compact(&buf, toBytes(dv)); err != nil {
			return []int64{-1}
		}
		out := make([]int64, 0, buf.Len())
		for _, x := range buf.Bytes() {
			out = append(out, int64(x))
		}
		return out
	},
	Shrink: c10JsonSpecShrink,
	Class: func(c Case, out []int64) string {
		dv, _ := takeList(c.Args)
		if len(out) == len(dv) {
			return "no-ws"
		}
		return "ws-removed"
	},
}

func init() {
	props["C10"] = &PropSpec{Models: []*Model{c10JsonModel, c10JsonValidModel, c10JsonStripModel}, Oracles: []*Oracle{c10JsonOracle}}
}
